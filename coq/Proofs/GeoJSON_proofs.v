(* Lemmas for property C06 (GeoJSON).  Statements are collected in Props/C06.v. *)
From Coq Require Import Ascii String.
From Coq Require Import NArith List Bool Lia PeanoNat.
From SF Require Import Base.Outcome Base.GeomAST Model.GeoJSON Proofs.WKB_proofs.
Import ListNotations.
Local Open Scope N_scope.

(* ------------------------------------------------------------------ generic list facts *)
Lemma flat_map_map {A B C} (f : A -> B) (g : B -> list C) l :
  flat_map g (map f l) = flat_map (fun x => g (f x)) l.
Proof. induction l as [|x l IH]; cbn [map flat_map]; [reflexivity|]. rewrite IH. reflexivity. Qed.

Lemma flat_map_ext_in {A B} (f g : A -> list B) l :
  (forall x, In x l -> f x = g x) -> flat_map f l = flat_map g l.
Proof.
  induction l as [|x l IH]; intros H; cbn [flat_map]; [reflexivity|].
  rewrite (H x (or_introl eq_refl)), IH; [reflexivity|]. intros y Hy. apply H. right. exact Hy.
Qed.

Lemma sep_by_ext_in {A} (f g : A -> list tok) l :
  (forall x, In x l -> f x = g x) -> sep_by f l = sep_by g l.
Proof.
  destruct l as [|x l]; intros H; cbn [sep_by]; [reflexivity|].
  rewrite (H x (or_introl eq_refl)). f_equal. apply flat_map_ext_in.
  intros y Hy. rewrite (H y (or_intror Hy)). reflexivity.
Qed.

Lemma mapM_map_ok {A B C} (f : B -> outcome C) (g : A -> B) (h : A -> C) l :
  (forall x, In x l -> f (g x) = Ok (h x)) -> mapM f (map g l) = Ok (map h l).
Proof.
  induction l as [|x l IH]; intros H; cbn [map mapM]; [reflexivity|].
  rewrite (H x (or_introl eq_refl)). cbn [bind]. rewrite IH; [reflexivity|].
  intros y Hy. apply H. right. exact Hy.
Qed.

Lemma str_eqb_refl s : str_eqb s s = true.
Proof. induction s as [|x s IH]; cbn [str_eqb]; [reflexivity|]. rewrite N.eqb_refl. exact IH. Qed.

Lemma str_eqb_eq a b : str_eqb a b = true <-> a = b.
Proof.
  revert b. induction a as [|x a IH]; destruct b as [|y b]; cbn [str_eqb]; split; intros H;
    try reflexivity; try discriminate.
  - apply andb_prop in H. destruct H as [H1 H2]. apply N.eqb_eq in H1. apply IH in H2. congruence.
  - inversion H; subst. rewrite N.eqb_refl. apply IH. reflexivity.
Qed.

Lemma type_of_name_name t : type_of_name (type_name t) = Some t.
Proof. destruct t; reflexivity. Qed.

Lemma type_of_name_inv s t : type_of_name s = Some t -> s = type_name t.
Proof.
  unfold type_of_name.
  repeat match goal with
         | |- context [str_eqb s ?c] =>
             let E := fresh "E" in destruct (str_eqb s c) eqn:E;
             [apply str_eqb_eq in E; intros H; inversion H; subst; reflexivity|]
         end.
  discriminate.
Qed.

(* ================================================================== the writer is a JSON printer *)
Lemma jp_arr_map {A} (f : A -> json) l :
  json_print (JArr (map f l)) = bracket (sep_by (fun x => json_print (f x)) l).
Proof.
  destruct l as [|x l]; cbn [map json_print sep_by]; [reflexivity|].
  rewrite flat_map_map. reflexivity.
Qed.

Lemma pr_pos_json ct v : pr_pos ct v = json_print (pos_json ct v).
Proof. unfold pr_pos, pos_json. destruct (has_z ct); reflexivity. Qed.

Lemma pr_seq_json l : pr_seq l = json_print (seq_json l).
Proof.
  unfold pr_seq, seq_json. rewrite jp_arr_map. f_equal. apply sep_by_ext_in.
  intros v _. apply pr_pos_json.
Qed.

Lemma pr_seqs_json ls : pr_seqs ls = json_print (seqs_json ls).
Proof.
  unfold pr_seqs, seqs_json. rewrite jp_arr_map. f_equal. apply sep_by_ext_in.
  intros l _. apply pr_seq_json.
Qed.

Lemma pr_matrix_json ps : pr_matrix ps = json_print (JArr (map poly_coords ps)).
Proof.
  unfold pr_matrix. rewrite jp_arr_map. f_equal. apply sep_by_ext_in.
  intros p _. apply pr_seqs_json.
Qed.

Lemma lit_app a b : lit (a ++ b) = lit a ++ lit b.
Proof. apply map_app. Qed.

Lemma jp_gobj t member v :
  json_print (gobj t member v) = pr_head t member ++ json_print v ++ [TC c_rcb].
Proof.
  unfold gobj, pr_head. cbn [json_print flat_map fst snd]. unfold pr_str, k_type, h_open, h_mid, h_end.
  cbn [lit map]. cbn [app].
  repeat (rewrite <- app_assoc; cbn [app]). reflexivity.
Qed.

Definition mp_list (ps : list (pointT N)) : list json :=
  flat_map (fun p => match point_c p with
                     | Some v => [pos_json (point_ct p) v]
                     | None => []
                     end) ps.

Lemma pr_mpoints_false ps :
  pr_mpoints false ps = flat_map (fun y => TC c_comma :: json_print y) (mp_list ps).
Proof.
  induction ps as [|p ps IH]; cbn [pr_mpoints mp_list flat_map]; [reflexivity|].
  destruct (point_c p) as [v|]; cbn [app].
  - fold (mp_list ps). rewrite IH. cbn [flat_map app]. rewrite pr_pos_json. reflexivity.
  - exact IH.
Qed.

Lemma pr_mpoints_true ps :
  pr_mpoints true ps =
  match mp_list ps with
  | [] => []
  | x :: r => json_print x ++ flat_map (fun y => TC c_comma :: json_print y) r
  end.
Proof.
  induction ps as [|p ps IH]; cbn [pr_mpoints mp_list flat_map]; [reflexivity|].
  destruct (point_c p) as [v|]; cbn [app].
  - fold (mp_list ps). rewrite pr_mpoints_false, pr_pos_json. reflexivity.
  - exact IH.
Qed.

Lemma gj_print_is_json_lemma (g : geom) : gj_print g = json_print (to_json g).
Proof.
  induction g as [p|l|p|c ps|c ls|c ps|c gs IH] using geomT_ind'; cbn [gj_print to_json];
    rewrite jp_gobj.
  - f_equal. f_equal. unfold point_coords. destruct (point_c p); [apply pr_pos_json|reflexivity].
  - rewrite pr_seq_json. reflexivity.
  - rewrite pr_seqs_json. reflexivity.
  - f_equal. unfold mpoint_coords. fold (mp_list ps). cbn [json_print]. unfold bracket.
    rewrite pr_mpoints_true. cbn [app]. f_equal. rewrite <- app_assoc. reflexivity.
  - rewrite pr_seqs_json. reflexivity.
  - rewrite pr_matrix_json. reflexivity.
  - f_equal. f_equal. cbn [json_print]. f_equal.
    destruct gs as [|x r]; cbn [map]; [reflexivity|].
    inversion IH as [|? ? Hx Hr]; subst. rewrite Hx. f_equal.
    rewrite flat_map_map. apply flat_map_ext_in. intros y Hy.
    rewrite Forall_forall in Hr. rewrite (Hr y Hy). reflexivity.
Qed.

(* every string of a geometry document is plain (so json_print spells it exactly) *)
Lemma to_json_plain (g : geom) : json_strings_plain (to_json g) = true.
Proof.
  assert (Hpos : forall ct v, json_strings_plain (pos_json ct v) = true)
    by (intros ct v; unfold pos_json; destruct (has_z ct); reflexivity).
  assert (Hseq : forall l, json_strings_plain (seq_json l) = true).
  { intros l. unfold seq_json. cbn [json_strings_plain]. apply forallb_forall.
    intros x Hx. apply in_map_iff in Hx. destruct Hx as [v [<- _]]. apply Hpos. }
  assert (Hseqs : forall ls, json_strings_plain (seqs_json ls) = true).
  { intros ls. unfold seqs_json. cbn [json_strings_plain]. apply forallb_forall.
    intros x Hx. apply in_map_iff in Hx. destruct Hx as [l [<- _]]. apply Hseq. }
  assert (Hobj : forall t m v, plain_str m = true -> json_strings_plain v = true ->
                               json_strings_plain (gobj t m v) = true).
  { intros t m v Hm Hv. unfold gobj. cbn [json_strings_plain forallb fst snd].
    rewrite Hm, Hv. destruct t; reflexivity. }
  induction g as [p|l|p|c ps|c ls|c ps|c gs IH] using geomT_ind'; cbn [to_json];
    apply Hobj; try reflexivity.
  - unfold point_coords. destruct (point_c p); [apply Hpos|reflexivity].
  - apply Hseq.
  - apply Hseqs.
  - unfold mpoint_coords. cbn [json_strings_plain]. apply forallb_forall. intros x Hx.
    apply in_flat_map in Hx. destruct Hx as [q [_ Hq]]. destruct (point_c q); [|destruct Hq].
    destruct Hq as [<-|[]]. apply Hpos.
  - apply Hseqs.
  - cbn [json_strings_plain]. apply forallb_forall. intros x Hx.
    apply in_map_iff in Hx. destruct Hx as [q [<- _]]. apply Hseqs.
  - cbn [json_strings_plain]. apply forallb_forall. intros x Hx.
    apply in_map_iff in Hx. destruct Hx as [q [<- Hq]]. rewrite Forall_forall in IH. apply IH. exact Hq.
Qed.

(* ================================================================== round trip *)
(* ---- stage 1: encoding/json reads back the two members *)
Lemma elems_mapM l :
  (fix elems (l : list json) : outcome (list node) :=
     match l with
     | [] => Ok []
     | x :: t => do n <- decode_node x; do ns <- elems t; Ok (n :: ns)
     end) l = mapM decode_node l.
Proof. induction l as [|x l IH]; cbn [mapM]; [reflexivity|]. rewrite IH. reflexivity. Qed.

Lemma decode_node_coords t v :
  decode_node (gobj t k_coordinates v) = Ok (MkNode (type_name t) (Some v) []).
Proof. reflexivity. Qed.

Lemma decode_node_geoms l ns :
  mapM decode_node l = Ok ns ->
  decode_node (gobj TColl k_geometries (JArr l)) = Ok (MkNode s_GeometryCollection None ns).
Proof.
  intros H. unfold gobj. cbn [decode_node]. cbn [str_eqb k_type k_geometries k_coordinates N.eqb Pos.eqb andb].
  rewrite elems_mapM, H. reflexivity.
Qed.

Definition posN (ct : ctype) (v : vtx N) : list N :=
  vx v :: vy v :: (if has_z ct then [vz v] else []).
Definition lineN (l : lineT N) : list (list N) := map (posN (line_ct l)) (line_vs l).
Definition polyN (p : polyT N) : list (list (list N)) := map lineN (poly_rings p).

Fixpoint gjn_of (g : geom) : gjn :=
  match g with
  | GPoint p => NPoint (match point_c p with Some v => posN (point_ct p) v | None => [] end)
  | GLine l => NLine (lineN l)
  | GPoly p => NPoly (polyN p)
  | GMPoint _ ps =>
      NMPoint (flat_map (fun p => match point_c p with
                                  | Some v => [posN (point_ct p) v]
                                  | None => []
                                  end) ps)
  | GMLine _ ls => NMLine (map lineN ls)
  | GMPoly _ ps => NMPoly (map polyN ps)
  | GColl _ gs => NColl (map gjn_of gs)
  end.

Fixpoint node_of (g : geom) : node :=
  match g with
  | GPoint p => MkNode s_Point (Some (point_coords p)) []
  | GLine l => MkNode s_LineString (Some (seq_json l)) []
  | GPoly p => MkNode s_Polygon (Some (poly_coords p)) []
  | GMPoint _ ps => MkNode s_MultiPoint (Some (mpoint_coords ps)) []
  | GMLine _ ls => MkNode s_MultiLineString (Some (seqs_json ls)) []
  | GMPoly _ ps => MkNode s_MultiPolygon (Some (JArr (map poly_coords ps))) []
  | GColl _ gs => MkNode s_GeometryCollection None (map node_of gs)
  end.

Lemma decode_node_to_json (g : geom) : decode_node (to_json g) = Ok (node_of g).
Proof.
  induction g as [p|l|p|c ps|c ls|c ps|c gs IH] using geomT_ind'; cbn [to_json node_of];
    try apply decode_node_coords.
  apply decode_node_geoms. rewrite Forall_forall in IH.
  apply (mapM_map_ok decode_node to_json node_of). exact IH.
Qed.

(* ---- stage 2: the coordinates arrays at the depth of each type *)
Lemma dim1_pos ct v : dim1 (pos_json ct v) = Ok (posN ct v).
Proof. unfold pos_json, posN. destruct (has_z ct); reflexivity. Qed.

Lemma dim2_seq l : dim2 (seq_json l) = Ok (lineN l).
Proof.
  unfold seq_json, lineN, dim2. cbn [arr]. apply mapM_map_ok. intros v _. apply dim1_pos.
Qed.

Lemma dim3_seqs ls : dim3 (seqs_json ls) = Ok (map lineN ls).
Proof.
  unfold seqs_json, dim3. cbn [arr]. apply mapM_map_ok. intros l _. apply dim2_seq.
Qed.

Lemma go_mapM_dg gs :
  (fix go (gs : list node) : outcome (list gjn) :=
     match gs with
     | [] => Ok []
     | x :: r => do y <- decode_geojson x; do ys <- go r; Ok (y :: ys)
     end) gs = mapM decode_geojson gs.
Proof. induction gs as [|x l IH]; cbn [mapM]; [reflexivity|]. rewrite IH. reflexivity. Qed.

Lemma decode_geojson_node_of (g : geom) : decode_geojson (node_of g) = Ok (gjn_of g).
Proof.
  induction g as [p|l|p|c ps|c ls|c ps|c gs IH] using geomT_ind'; cbn [node_of gjn_of].
  - cbn [decode_geojson]. change (type_of_name s_Point) with (Some TPoint). cbn [raw].
    unfold point_coords. destruct (point_c p) as [v|]; [rewrite dim1_pos|]; reflexivity.
  - cbn [decode_geojson]. change (type_of_name s_LineString) with (Some TLine). cbn [raw].
    rewrite dim2_seq. reflexivity.
  - cbn [decode_geojson]. change (type_of_name s_Polygon) with (Some TPoly). cbn [raw].
    unfold poly_coords. rewrite dim3_seqs. reflexivity.
  - cbn [decode_geojson]. change (type_of_name s_MultiPoint) with (Some TMPoint). cbn [raw].
    unfold mpoint_coords, dim2. cbn [arr].
    match goal with |- bind ?m _ = _ => assert (E : m = Ok (flat_map (fun p => match point_c p with
                                  | Some v => [posN (point_ct p) v]
                                  | None => []
                                  end) ps)) end.
    { induction ps as [|q ps IHp]; cbn [flat_map]; [reflexivity|].
      destruct (point_c q) as [v|]; cbn [app]; [|exact IHp].
      cbn [mapM]. rewrite dim1_pos. cbn [bind]. rewrite IHp. reflexivity. }
    rewrite E. reflexivity.
  - cbn [decode_geojson]. change (type_of_name s_MultiLineString) with (Some TMLine). cbn [raw].
    rewrite dim3_seqs. reflexivity.
  - cbn [decode_geojson]. change (type_of_name s_MultiPolygon) with (Some TMPoly). cbn [raw].
    unfold dim4. cbn [arr].
    rewrite (mapM_map_ok dim3 poly_coords polyN); [reflexivity|]. intros p _. apply dim3_seqs.
  - cbn [decode_geojson]. change (type_of_name s_GeometryCollection) with (Some TColl).
    rewrite go_mapM_dg. rewrite Forall_forall in IH.
    rewrite (mapM_map_ok decode_geojson node_of gjn_of _ IH). reflexivity.
Qed.

(* ---- stage 3: the dimension decision *)
Definition has2 (l : list nat) : bool := existsb (Nat.eqb 2) l.
Definition has3 (l : list nat) : bool := existsb (Nat.leb 3) l.
Definition anyb {A} (l : list A) : bool := existsb (fun _ => true) l.

Definition line_has (l : lineT N) : bool := anyb (line_vs l).
Definition poly_has (p : polyT N) : bool := existsb line_has (poly_rings p).
Fixpoint has_vtx (g : geom) : bool :=
  match g with
  | GPoint p => point_full p
  | GLine l => line_has l
  | GPoly p => poly_has p
  | GMPoint _ ps => existsb point_full ps
  | GMLine _ ls => existsb line_has ls
  | GMPoly _ ps => existsb poly_has ps
  | GColl _ gs => existsb has_vtx gs
  end.

Definition nonnil {A} (l : list A) : bool := match l with [] => false | _ => true end.
Lemma anyb_nonnil {A} (l : list A) : anyb l = nonnil l.
Proof. destruct l; reflexivity. Qed.
Lemma nonnil_app {A} (a b : list A) : nonnil (a ++ b) = nonnil a || nonnil b.
Proof. destruct a; reflexivity. Qed.
Lemma nonnil_flat_map {A B} (f : A -> list B) l :
  nonnil (flat_map f l) = existsb (fun x => nonnil (f x)) l.
Proof. induction l as [|x l IH]; cbn [flat_map existsb]; [reflexivity|]. rewrite nonnil_app, IH. reflexivity. Qed.
Lemma existsb_ext_in {A} (f g : A -> bool) l :
  (forall x, In x l -> f x = g x) -> existsb f l = existsb g l.
Proof.
  induction l as [|x l IH]; intros H; cbn [existsb]; [reflexivity|].
  rewrite (H x (or_introl eq_refl)), IH; [reflexivity|]. intros y Hy. apply H. right. exact Hy.
Qed.

Lemma has_vtx_spec (g : geom) : has_vtx g = nonnil (geom_vs g).
Proof.
  assert (Hp : forall p : pointT N, point_full p = nonnil (point_vs p)).
  { intros [c [v|]]; reflexivity. }
  assert (Hl : forall l : lineT N, line_has l = nonnil (line_vs l)).
  { intros l. apply anyb_nonnil. }
  assert (Hy : forall p : polyT N, poly_has p = nonnil (poly_vs p)).
  { intros p. unfold poly_has, poly_vs. rewrite nonnil_flat_map. apply existsb_ext_in. intros l _. apply Hl. }
  induction g as [p|l|p|c ps|c ls|c ps|c gs IH] using geomT_ind'; cbn [has_vtx geom_vs];
    try rewrite nonnil_flat_map; auto using existsb_ext_in.
  apply existsb_ext_in. rewrite Forall_forall in IH. exact IH.
Qed.

Definition adds_to (z c : bool) (acc L : list nat) : Prop :=
  has2 L = has2 acc || (negb z && c) /\ has3 L = has3 acc || (z && c).

Lemma foldM_adds {A B} z (h : A -> B) (f : B -> list nat -> outcome (list nat)) (cnt : A -> bool) (l : list A) :
  (forall x, In x l -> forall acc, exists L, f (h x) acc = Ok L /\ adds_to z (cnt x) acc L) ->
  forall acc, exists L, foldM f (map h l) acc = Ok L /\ adds_to z (existsb cnt l) acc L.
Proof.
  induction l as [|a l IH]; intros H acc.
  - exists acc. split; [reflexivity|]. unfold adds_to. cbn [existsb]. rewrite !andb_false_r, !orb_false_r. auto.
  - destruct (H a (or_introl eq_refl) acc) as [L1 [E1 [A1 B1]]].
    destruct (IH (fun x Hx => H x (or_intror Hx)) L1) as [L [E [A2 B2]]].
    exists L. cbn [map foldM]. rewrite E1. cbn [bind]. split; [exact E|].
    unfold adds_to. rewrite A2, B2, A1, B1. cbn [existsb].
    destruct (has2 acc), (has3 acc), z, (cnt a), (existsb cnt l); auto.
Qed.

Definition pdim (z : bool) : nat := if z then 3%nat else 2%nat.
Ltac bsolve := rewrite ?orb_true_r, ?orb_false_r, ?andb_false_r, ?andb_true_r; auto.

Lemma note_pos_adds z (c : list N) acc :
  List.length c = pdim z -> exists L, note_len len_pos c acc = Ok L /\ adds_to z true acc L.
Proof.
  intros Hc. unfold note_len. rewrite Hc. destruct z; cbn [pdim len_pos Nat.leb].
  - exists (3%nat :: acc). split; [reflexivity|]. unfold adds_to, has2, has3. cbn [existsb Nat.eqb Nat.leb negb andb orb].
    bsolve.
  - exists (2%nat :: acc). split; [reflexivity|]. unfold adds_to, has2, has3. cbn [existsb Nat.eqb Nat.leb negb andb orb].
    bsolve.
Qed.

Lemma posN_length ct v : List.length (posN ct v) = pdim (has_z ct).
Proof. unfold posN. destruct (has_z ct); reflexivity. Qed.

Notation ok1 := (fun _ : N => true).

Lemma line_adds ct (l : lineT N) acc :
  line_ok ok1 ct l = true ->
  exists L, foldM (note_len len_pos) (lineN l) acc = Ok L /\ adds_to (has_z ct) (line_has l) acc L.
Proof.
  destruct l as [c vs]. unfold line_ok. intros H. apply andb_prop in H. destruct H as [Hc _].
  apply ct_eqb_eq in Hc. subst c. unfold lineN, line_has, anyb. cbn [line_ct line_vs].
  apply (foldM_adds (has_z ct) (posN ct) (note_len len_pos) (fun _ => true) vs).
  intros v _ a. apply note_pos_adds. apply posN_length.
Qed.

Lemma lines_adds ct (ls : list (lineT N)) acc :
  forallb (line_ok ok1 ct) ls = true ->
  exists L, foldM (foldM (note_len len_pos)) (map lineN ls) acc = Ok L /\
            adds_to (has_z ct) (existsb line_has ls) acc L.
Proof.
  intros H. apply (foldM_adds (has_z ct) lineN (foldM (note_len len_pos)) line_has ls).
  intros l Hl a. apply line_adds. rewrite forallb_forall in H. apply H. exact Hl.
Qed.

Lemma poly_adds ct (p : polyT N) acc :
  poly_ok ok1 ct p = true ->
  exists L, foldM (foldM (note_len len_pos)) (polyN p) acc = Ok L /\ adds_to (has_z ct) (poly_has p) acc L.
Proof.
  destruct p as [c rs]. unfold poly_ok. intros H. apply andb_prop in H. destruct H as [_ H].
  apply lines_adds. exact H.
Qed.

Lemma go_foldM_detect ts acc :
  (fix go (ts : list gjn) (acc : list nat) : outcome (list nat) :=
     match ts with
     | [] => Ok acc
     | x :: r => do a <- detect x acc; go r a
     end) ts acc = foldM detect ts acc.
Proof. revert acc. induction ts as [|x l IH]; intros acc; cbn [foldM]; [reflexivity|]. destruct (detect x acc); cbn [bind]; auto. Qed.

Lemma detect_adds ct (g : geom) : forall acc,
  geom_ok ok1 ct g = true ->
  exists L, detect (gjn_of g) acc = Ok L /\ adds_to (has_z ct) (has_vtx g) acc L.
Proof.
  induction g as [p|l|p|c ps|c ls|c ps|c gs IH] using geomT_ind'; intros acc H;
    cbn [geom_ok] in H; cbn [gjn_of detect has_vtx].
  - destruct p as [c [v|]]; unfold point_ok in H; apply andb_prop in H; destruct H as [Hc _];
      apply ct_eqb_eq in Hc; subst c; cbn [point_c point_ct].
    + unfold note_len. rewrite posN_length. unfold point_full, point_empty. cbn [point_c negb].
      destruct (has_z ct); cbn [pdim len_point Nat.eqb negb].
      * exists (3%nat :: acc). split; [reflexivity|]. unfold adds_to, has2, has3. cbn. bsolve.
      * exists (2%nat :: acc). split; [reflexivity|]. unfold adds_to, has2, has3. cbn. bsolve.
    + exists (0%nat :: acc). split; [reflexivity|]. unfold adds_to, has2, has3, point_full, point_empty. cbn.
      rewrite !andb_false_r, !orb_false_r. auto.
  - apply line_adds. exact H.
  - apply poly_adds. exact H.
  - apply andb_prop in H. destruct H as [_ H]. revert acc.
    induction ps as [|q ps IHp]; intros acc.
    + exists acc. split; [reflexivity|]. unfold adds_to. cbn. rewrite !andb_false_r, !orb_false_r. auto.
    + cbn [forallb] in H. apply andb_prop in H. destruct H as [Hq H]. cbn [flat_map existsb].
      destruct q as [c' [v|]]; unfold point_ok in Hq; apply andb_prop in Hq; destruct Hq as [Hc _];
        apply ct_eqb_eq in Hc; subst c'; cbn [point_c point_ct app].
      * cbn [foldM]. destruct (note_pos_adds (has_z ct) (posN ct v) acc (posN_length ct v)) as [L1 [E1 [A1 B1]]].
        rewrite E1. cbn [bind]. destruct (IHp H L1) as [L [E [A2 B2]]]. exists L. split; [exact E|].
        unfold adds_to. rewrite A2, B2, A1, B1.
        change (point_full (MkPoint ct (Some v))) with true. cbn [orb].
        destruct (has2 acc), (has3 acc), (has_z ct), (existsb point_full ps); auto.
      * destruct (IHp H acc) as [L [E AB]]. exists L. split; [exact E|].
        change (point_full (MkPoint ct None)) with false. cbn [orb]. exact AB.
  - apply andb_prop in H. destruct H as [_ H]. apply lines_adds. exact H.
  - apply andb_prop in H. destruct H as [_ H].
    apply (foldM_adds (has_z ct) polyN (foldM (foldM (note_len len_pos))) poly_has ps).
    intros p Hp a. apply poly_adds. rewrite forallb_forall in H. apply H. exact Hp.
  - apply andb_prop in H. destruct H as [_ H]. rewrite go_foldM_detect.
    apply (foldM_adds (has_z ct) gjn_of detect has_vtx gs).
    intros x Hx a. rewrite Forall_forall in IH. apply IH; [exact Hx|].
    rewrite forallb_forall in H. apply H. exact Hx.
Qed.

Lemma decide_after_detect (g : geom) :
  same_ct g = true ->
  exists L, detect (gjn_of g) [] = Ok L /\ decide_ct L = gj_ct g.
Proof.
  intros H. destruct (detect_adds (geom_ct g) g [] H) as [L [E [A B]]].
  exists L. split; [exact E|]. unfold decide_ct. fold (has2 L). fold (has3 L). rewrite A, B.
  unfold gj_ct. rewrite has_vtx_spec. unfold has2, has3. cbn [existsb orb].
  destruct (has_z (geom_ct g)), (geom_vs g); reflexivity.
Qed.

(* ---- stage 4: construction *)
Lemma mapM_length {A B} (f : A -> outcome B) l r : mapM f l = Ok r -> List.length r = List.length l.
Proof.
  revert r. induction l as [|x l IH]; intros r; cbn [mapM].
  - intros H. inversion H. reflexivity.
  - destruct (f x); cbn [bind]; try discriminate. destruct (mapM f l); cbn [bind]; try discriminate.
    intros H. inversion H. cbn [List.length]. f_equal. apply IH. reflexivity.
Qed.

Lemma force_vtx_ok old new (v : vtx N) : vtx_ok (N.eqb 0) new (force_vtx 0 old new v) = true.
Proof. unfold vtx_ok, force_vtx. cbn [vz vm]. destruct (has_z new), (has_m new); reflexivity. Qed.
Lemma force_point_ok new (p : pointT N) : point_ok (N.eqb 0) new (force_point 0 new p) = true.
Proof.
  destruct p as [c [v|]]; cbn [force_point point_ok]; rewrite ct_eqb_refl; [|reflexivity].
  apply force_vtx_ok.
Qed.
Lemma force_line_ok new (l : lineT N) : line_ok (N.eqb 0) new (force_line 0 new l) = true.
Proof.
  destruct l as [c vs]. cbn [force_line line_ok]. rewrite ct_eqb_refl. cbn [andb].
  apply forallb_forall. intros x Hx. apply in_map_iff in Hx. destruct Hx as [v [<- _]]. apply force_vtx_ok.
Qed.
Lemma force_lines_ok new (ls : list (lineT N)) :
  forallb (line_ok (N.eqb 0) new) (map (force_line 0 new) ls) = true.
Proof. apply forallb_forall. intros x Hx. apply in_map_iff in Hx. destruct Hx as [l [<- _]]. apply force_line_ok. Qed.
Lemma force_poly_ok new (p : polyT N) : poly_ok (N.eqb 0) new (force_poly 0 new p) = true.
Proof. destruct p as [c rs]. cbn [force_poly poly_ok]. rewrite ct_eqb_refl. apply force_lines_ok. Qed.

Lemma lossy_at_ok new (g : geom) : geom_ok (N.eqb 0) new (lossy_at new g) = true.
Proof.
  induction g as [p|l|p|c ps|c ls|c ps|c gs IH] using geomT_ind'; cbn [lossy_at geom_ok];
    rewrite ?ct_eqb_refl; cbn [andb].
  - apply force_point_ok.
  - apply force_line_ok.
  - apply force_poly_ok.
  - apply forallb_forall. intros x Hx. apply in_map_iff in Hx. destruct Hx as [q [<- _]]. apply force_point_ok.
  - apply force_lines_ok.
  - apply forallb_forall. intros x Hx. apply in_map_iff in Hx. destruct Hx as [q [<- _]]. apply force_poly_ok.
  - apply forallb_forall. intros x Hx. apply in_map_iff in Hx. destruct Hx as [q [<- Hq]].
    rewrite Forall_forall in IH. apply IH. exact Hq.
Qed.

Section Build.
  Variables ct new : ctype.
  Hypothesis Hm : has_m new = false.
  Hypothesis Hz : has_z new = true -> has_z ct = true.

  Lemma vtx_of_posN v : vtx_of (posN ct v) new = Ok (force_vtx 0 ct new v).
  Proof.
    unfold vtx_of, posN, force_vtx, idx. cbn [nth_error bind]. rewrite Hm.
    destruct (has_z new) eqn:En; [rewrite (Hz eq_refl)|]; reflexivity.
  Qed.

  Lemma line_of_lineN (l : lineT N) :
    line_ok ok1 ct l = true -> line_of new (lineN l) = Ok (force_line 0 new l).
  Proof.
    destruct l as [c vs]. unfold line_ok. intros H. apply andb_prop in H. destruct H as [Hc _].
    apply ct_eqb_eq in Hc. subst c. unfold line_of, lineN. cbn [line_ct line_vs force_line].
    rewrite (mapM_map_ok (fun c => vtx_of c new) (posN ct) (force_vtx 0 ct new)); [reflexivity|].
    intros v _. apply vtx_of_posN.
  Qed.

  Lemma lines_of_lineN (ls : list (lineT N)) :
    forallb (line_ok ok1 ct) ls = true ->
    mapM (line_of new) (map lineN ls) = Ok (map (force_line 0 new) ls).
  Proof.
    intros H. apply mapM_map_ok. intros l Hl. apply line_of_lineN.
    rewrite forallb_forall in H. apply H. exact Hl.
  Qed.

  Lemma point_of_posN v :
    point_of (posN ct v) new = Ok (force_point 0 new (MkPoint ct (Some v))).
  Proof.
    unfold point_of. change (posN ct v) with (vx v :: vy v :: (if has_z ct then [vz v] else [])) at 1.
    cbv iota. rewrite vtx_of_posN. reflexivity.
  Qed.

  Lemma poly_of_polyN (p : polyT N) :
    poly_ok ok1 ct p = true ->
    (do rs <- mapM (line_of new) (polyN p); Ok (force_poly 0 new (new_polygon 0 rs))) =
    Ok (force_poly 0 new p).
  Proof.
    destruct p as [c rs]. unfold poly_ok. intros H. apply andb_prop in H. destruct H as [_ H].
    unfold polyN. cbn [poly_rings]. rewrite (lines_of_lineN rs H). cbn [bind]. f_equal.
    destruct rs as [|r rs']; [reflexivity|].
    rewrite (new_polygon_id new); [| cbn [map]; discriminate | apply force_lines_ok].
    cbn [force_poly]. f_equal. apply (force_lines_id new). apply force_lines_ok.
  Qed.

  Lemma go_mapM_to_geom ts :
    (fix go (ts : list gjn) : outcome (list geom) :=
       match ts with
       | [] => Ok []
       | x :: r => do y <- to_geom new x; do ys <- go r; Ok (y :: ys)
       end) ts = mapM (to_geom new) ts.
  Proof. induction ts as [|x l IH]; cbn [mapM]; [reflexivity|]. rewrite IH. reflexivity. Qed.

  Lemma mpoint_of ps :
    forallb (point_ok ok1 ct) ps = true ->
    mapM (fun c => point_of c new)
         (flat_map (fun p => match point_c p with
                             | Some v => [posN (point_ct p) v]
                             | None => []
                             end) ps)
    = Ok (map (force_point 0 new) (filter point_full ps)).
  Proof.
    induction ps as [|q ps IH]; intros H; [reflexivity|].
    cbn [forallb] in H. apply andb_prop in H. destruct H as [Hq H].
    destruct q as [c [v|]]; unfold point_ok in Hq; apply andb_prop in Hq; destruct Hq as [Hc _];
      apply ct_eqb_eq in Hc; subst c; cbn [flat_map filter point_c point_ct app].
    - change (point_full (MkPoint ct (Some v))) with true. cbv iota. cbn [mapM map].
      rewrite point_of_posN. cbn [bind]. rewrite (IH H). reflexivity.
    - change (point_full (MkPoint ct None)) with false. cbv iota. apply IH. exact H.
  Qed.

  Lemma to_geom_gjn_of (g : geom) :
    geom_ok ok1 ct g = true -> to_geom new (gjn_of g) = Ok (lossy_at new g).
  Proof.
    induction g as [p|l|p|c ps|c ls|c ps|c gs IH] using geomT_ind'; intros H;
      cbn [geom_ok] in H; cbn [gjn_of lossy_at].
    - destruct p as [c [v|]]; unfold point_ok in H; apply andb_prop in H; destruct H as [Hc _];
        apply ct_eqb_eq in Hc; subst c; cbn [point_c point_ct to_geom].
      + rewrite point_of_posN. reflexivity.
      + reflexivity.
    - cbn [to_geom]. rewrite (line_of_lineN l H). reflexivity.
    - destruct p as [c rs]. unfold poly_ok in H. apply andb_prop in H. destruct H as [_ H].
      unfold polyN. cbn [poly_rings force_poly]. destruct rs as [|r rs']; [reflexivity|].
      cbn [map to_geom]. change (lineN r :: map lineN rs') with (map lineN (r :: rs')).
      rewrite (lines_of_lineN _ H). cbn [bind].
      rewrite (new_polygon_id new); [reflexivity | cbn [map]; discriminate | apply force_lines_ok].
    - apply andb_prop in H. destruct H as [_ H]. pose proof (mpoint_of ps H) as E.
      destruct (flat_map _ ps) as [|c0 cs] eqn:EL.
      + cbn [mapM] in E. inversion E as [E']. cbn [to_geom]. reflexivity.
      + cbn [to_geom]. rewrite E. cbn [bind]. apply mapM_length in E.
        rewrite (new_multipoint_id new); [reflexivity| |].
        * intros Hn. rewrite Hn in E. discriminate.
        * apply forallb_forall. intros x Hx. apply in_map_iff in Hx. destruct Hx as [q [<- _]]. apply force_point_ok.
    - apply andb_prop in H. destruct H as [_ H]. destruct ls as [|l ls']; [reflexivity|].
      cbn [map to_geom]. change (lineN l :: map lineN ls') with (map lineN (l :: ls')).
      rewrite (lines_of_lineN _ H). cbn [bind].
      rewrite (new_multiline_id new); [reflexivity | cbn [map]; discriminate | apply force_lines_ok].
    - apply andb_prop in H. destruct H as [_ H]. destruct ps as [|p ps']; [reflexivity|].
      cbn [map to_geom]. change (polyN p :: map polyN ps') with (map polyN (p :: ps')).
      rewrite (mapM_map_ok _ polyN (force_poly 0 new)).
      + cbn [bind]. rewrite (new_multipoly_id new); [reflexivity | cbn [map]; discriminate |].
        apply forallb_forall. intros x Hx. apply in_map_iff in Hx. destruct Hx as [q [<- _]]. apply force_poly_ok.
      + intros q Hq. apply poly_of_polyN. rewrite forallb_forall in H. apply H. exact Hq.
    - apply andb_prop in H. destruct H as [_ H]. destruct gs as [|g gs']; [reflexivity|].
      cbn [map to_geom]. rewrite go_mapM_to_geom.
      change (do y <- to_geom new (gjn_of g); do ys <- mapM (to_geom new) (map gjn_of gs'); Ok (y :: ys))
        with (mapM (to_geom new) (map gjn_of (g :: gs'))).
      rewrite (mapM_map_ok (to_geom new) gjn_of (lossy_at new)).
      + cbn [bind]. rewrite (new_collection_id new); [reflexivity | cbn [map]; discriminate |].
        apply forallb_forall. intros x Hx. apply in_map_iff in Hx. destruct Hx as [q [<- _]]. apply lossy_at_ok.
      + intros q Hq. rewrite Forall_forall in IH. apply IH; [exact Hq|].
        rewrite forallb_forall in H. apply H. exact Hq.
  Qed.
End Build.

Lemma gj_roundtrip_lemma (g : geom) :
  same_ct g = true -> gj_unmarshal (to_json g) = Ok (gj_lossy g).
Proof.
  intros H. unfold gj_unmarshal. rewrite decode_node_to_json. cbn [bind].
  rewrite decode_geojson_node_of. cbn [bind]. unfold unmarshal_gjn.
  destruct (decide_after_detect g H) as [L [E D]]. rewrite E. cbn [bind]. rewrite D.
  unfold gj_lossy. apply (to_geom_gjn_of (geom_ct g)); [| |exact H].
  - unfold gj_ct. destruct (_ && _); reflexivity.
  - unfold gj_ct. destruct (has_z (geom_ct g)); cbn [andb]; [reflexivity|]. discriminate.
Qed.

(* ================================================================== the loss function *)
Lemma point_full_force c (p : pointT N) : point_full (force_point 0 c p) = point_full p.
Proof. destruct p as [c0 [v|]]; reflexivity. Qed.

Lemma has_vtx_lossy c (g : geom) : has_vtx (lossy_at c g) = has_vtx g.
Proof.
  assert (Hl : forall l : lineT N, line_has (force_line 0 c l) = line_has l).
  { intros [c0 vs]. unfold line_has, anyb. cbn [force_line line_vs]. destruct vs; reflexivity. }
  assert (Hy : forall p : polyT N, poly_has (force_poly 0 c p) = poly_has p).
  { intros [c0 rs]. unfold poly_has. cbn [force_poly poly_rings].
    induction rs as [|r rs IH]; cbn [map existsb]; [reflexivity|]. rewrite Hl, IH. reflexivity. }
  induction g as [p|l|p|c0 ps|c0 ls|c0 ps|c0 gs IH] using geomT_ind'; cbn [lossy_at has_vtx]; auto.
  - apply point_full_force.
  - induction ps as [|q ps IHp]; [reflexivity|]. cbn [filter existsb].
    destruct (point_full q) eqn:E; cbn [map existsb]; [rewrite point_full_force, E|]; rewrite IHp; reflexivity.
  - induction ls as [|q ls IHl]; cbn [map existsb]; [reflexivity|]. rewrite Hl, IHl. reflexivity.
  - induction ps as [|q ps IHp]; cbn [map existsb]; [reflexivity|]. rewrite Hy, IHp. reflexivity.
  - induction gs as [|q gs IHg]; cbn [map existsb]; [reflexivity|]. inversion IH; subst.
    rewrite H1, IHg; auto.
Qed.

Lemma geom_ct_lossy c (g : geom) : geom_ct (lossy_at c g) = c.
Proof. destruct g as [[? [?|]]|[? ?]|[? ?]| | | | ]; reflexivity. Qed.

Lemma lossy_at_idem c (g : geom) : lossy_at c (lossy_at c g) = lossy_at c g.
Proof.
  induction g as [p|l|p|c0 ps|c0 ls|c0 ps|c0 gs IH] using geomT_ind'; cbn [lossy_at]; f_equal.
  - apply (force_point_id c), force_point_ok.
  - apply (force_line_id c), force_line_ok.
  - apply (force_poly_id c), force_poly_ok.
  - induction ps as [|q ps IHp]; [reflexivity|]. cbn [filter].
    destruct (point_full q) eqn:E; [|exact IHp]. cbn [map filter]. rewrite point_full_force, E.
    cbn [map]. f_equal; [|exact IHp]. apply (force_point_id c), force_point_ok.
  - rewrite map_map. apply map_ext. intros l. apply (force_line_id c), force_line_ok.
  - rewrite map_map. apply map_ext. intros l. apply (force_poly_id c), force_poly_ok.
  - rewrite map_map. apply map_ext_in. rewrite Forall_forall in IH. exact IH.
Qed.

Lemma gj_ct_alt (g : geom) : gj_ct g = if has_z (geom_ct g) && has_vtx g then XYZ else XY.
Proof. unfold gj_ct. rewrite has_vtx_spec. destruct (geom_vs g); reflexivity. Qed.

Lemma gj_ct_lossy (g : geom) : gj_ct (gj_lossy g) = gj_ct g.
Proof.
  rewrite (gj_ct_alt (gj_lossy g)). unfold gj_lossy. rewrite geom_ct_lossy, has_vtx_lossy.
  rewrite gj_ct_alt. destruct (has_z (geom_ct g)), (has_vtx g); reflexivity.
Qed.

Lemma gj_lossy_idem_lemma (g : geom) : gj_lossy (gj_lossy g) = gj_lossy g.
Proof. unfold gj_lossy at 1. rewrite gj_ct_lossy. unfold gj_lossy. apply lossy_at_idem. Qed.

Lemma geom_ok_weaken ct (g : geom) : geom_ok (N.eqb 0) ct g = true -> geom_ok ok1 ct g = true.
Proof.
  assert (Hv : forall v, vtx_ok (N.eqb 0) ct v = true -> vtx_ok ok1 ct v = true).
  { intros v _. unfold vtx_ok. rewrite !orb_true_r. reflexivity. }
  assert (Hp : forall p, point_ok (N.eqb 0) ct p = true -> point_ok ok1 ct p = true).
  { intros [c [v|]]; unfold point_ok; intros H; apply andb_prop in H; destruct H as [-> H]; cbn [andb]; auto. }
  assert (Hl : forall l, line_ok (N.eqb 0) ct l = true -> line_ok ok1 ct l = true).
  { intros [c vs]; unfold line_ok; intros H; apply andb_prop in H; destruct H as [-> H]. cbn [andb].
    rewrite forallb_forall in *. auto. }
  assert (Hy : forall p, poly_ok (N.eqb 0) ct p = true -> poly_ok ok1 ct p = true).
  { intros [c rs]; unfold poly_ok; intros H; apply andb_prop in H; destruct H as [-> H]. cbn [andb].
    rewrite forallb_forall in *. auto. }
  induction g as [p|l|p|c ps|c ls|c ps|c gs IH] using geomT_ind'; cbn [geom_ok]; auto;
    intros H; apply andb_prop in H; destruct H as [-> H]; cbn [andb]; rewrite forallb_forall in *; auto.
  rewrite Forall_forall in IH. auto.
Qed.

Lemma gj_lossy_same_ct (g : geom) : same_ct (gj_lossy g) = true /\ consistent (N.eqb 0) (gj_lossy g) = true.
Proof.
  unfold same_ct, consistent, gj_lossy. rewrite geom_ct_lossy.
  pose proof (lossy_at_ok (gj_ct g) g) as H. split; [|exact H]. apply geom_ok_weaken. exact H.
Qed.

(* ================================================================== positions and member structure *)
Lemma pos_lens_pos ct v : pos_lens (pos_json ct v) = [pdim (has_z ct)].
Proof. unfold pos_json. destruct (has_z ct); reflexivity. Qed.

Lemma pos_lens_arr {A} (f : A -> json) l :
  (forall x, is_num (f x) = false) ->
  pos_lens (JArr (map f l)) = flat_map (fun x => pos_lens (f x)) l.
Proof.
  intros H. cbn [pos_lens].
  assert (E : existsb is_num (map f l) = false).
  { induction l as [|x l IH]; cbn [map existsb]; [reflexivity|]. rewrite H, IH. reflexivity. }
  rewrite E. cbn [app]. apply flat_map_map.
Qed.

Lemma Forall_flat_map' {A B} (P : B -> Prop) (f : A -> list B) l :
  (forall x, In x l -> Forall P (f x)) -> Forall P (flat_map f l).
Proof.
  induction l as [|x l IH]; intros H; cbn [flat_map]; [constructor|].
  apply Forall_app. split; [apply H; left; reflexivity|]. apply IH. intros y Hy. apply H. right. exact Hy.
Qed.

Lemma pos_lens_gobj t m v : pos_lens (gobj t m v) = pos_lens v.
Proof. unfold gobj. cbn [pos_lens flat_map snd app]. apply app_nil_r. Qed.

Section PosLens.
  Variable P : nat -> Prop.

  Lemma seq_P (l : lineT N) : P (pdim (has_z (line_ct l))) -> Forall P (pos_lens (seq_json l)).
  Proof.
    intros H. unfold seq_json. rewrite pos_lens_arr by (intros v; unfold pos_json; reflexivity).
    apply Forall_flat_map'. intros v _. rewrite pos_lens_pos. constructor; [exact H|constructor].
  Qed.

  Lemma seqs_P (ls : list (lineT N)) :
    (forall l, In l ls -> P (pdim (has_z (line_ct l)))) -> Forall P (pos_lens (seqs_json ls)).
  Proof.
    intros H. unfold seqs_json. rewrite pos_lens_arr by reflexivity.
    apply Forall_flat_map'. intros l Hl. apply seq_P. apply H. exact Hl.
  Qed.

  Lemma mpoint_P (ps : list (pointT N)) :
    (forall p, In p ps -> P (pdim (has_z (point_ct p)))) -> Forall P (pos_lens (mpoint_coords ps)).
  Proof.
    intros H. unfold mpoint_coords. cbn [pos_lens].
    assert (E : existsb is_num (mp_list ps) = false).
    { induction ps as [|q ps IH]; [reflexivity|]. cbn [mp_list flat_map]. fold (mp_list ps).
      rewrite existsb_app, IH by (intros; apply H; right; assumption).
      destruct (point_c q); reflexivity. }
    fold (mp_list ps). rewrite E. cbn [app]. clear E.
    induction ps as [|q ps IH]; [constructor|]. cbn [mp_list flat_map]. fold (mp_list ps).
    rewrite flat_map_app. apply Forall_app. split; [|apply IH; intros; apply H; right; assumption].
    destruct (point_c q); cbn [flat_map]; [|constructor]. rewrite pos_lens_pos. cbn [app].
    constructor; [apply H; left; reflexivity|constructor].
  Qed.
End PosLens.

Lemma pdim_2_or_3 z : pdim z = 2%nat \/ pdim z = 3%nat.
Proof. destruct z; auto. Qed.

Lemma gj_positions_2_or_3_lemma (g : geom) :
  Forall (fun n => n = 2%nat \/ n = 3%nat) (pos_lens (to_json g)).
Proof.
  induction g as [p|l|p|c ps|c ls|c ps|c gs IH] using geomT_ind'; cbn [to_json]; rewrite pos_lens_gobj.
  - unfold point_coords. destruct (point_c p); [|constructor]. rewrite pos_lens_pos.
    constructor; [apply pdim_2_or_3|constructor].
  - apply seq_P. apply pdim_2_or_3.
  - apply seqs_P. intros; apply pdim_2_or_3.
  - apply mpoint_P. intros; apply pdim_2_or_3.
  - apply seqs_P. intros; apply pdim_2_or_3.
  - rewrite pos_lens_arr by reflexivity. apply Forall_flat_map'. intros q _.
    apply seqs_P. intros; apply pdim_2_or_3.
  - rewrite pos_lens_arr by (intros x; destruct x; reflexivity). apply Forall_flat_map'. rewrite Forall_forall in IH. exact IH.
Qed.

Lemma pos_lens_same ct (g : geom) :
  geom_ok ok1 ct g = true -> Forall (eq (pdim (has_z ct))) (pos_lens (to_json g)).
Proof.
  assert (Hl : forall l, line_ok ok1 ct l = true -> line_ct l = ct).
  { intros [c vs]. unfold line_ok. intros H. apply andb_prop in H. destruct H as [H _].
    apply ct_eqb_eq in H. exact H. }
  assert (Hp : forall p, point_ok ok1 ct p = true -> point_ct p = ct).
  { intros [c o]. unfold point_ok. intros H. apply andb_prop in H. destruct H as [H _].
    apply ct_eqb_eq in H. exact H. }
  assert (Hy : forall p, poly_ok ok1 ct p = true -> forall l, In l (poly_rings p) -> line_ct l = ct).
  { intros [c rs]. unfold poly_ok. intros H. apply andb_prop in H. destruct H as [_ H].
    rewrite forallb_forall in H. intros l Hin. apply Hl, H, Hin. }
  induction g as [p|l|p|c ps|c ls|c ps|c gs IH] using geomT_ind'; cbn [to_json geom_ok]; intros H;
    rewrite pos_lens_gobj.
  - unfold point_coords. destruct (point_c p) eqn:E; [|constructor]. rewrite pos_lens_pos, (Hp p H).
    constructor; [reflexivity|constructor].
  - apply seq_P. rewrite (Hl l H). reflexivity.
  - apply seqs_P. intros l Hin. rewrite (Hy p H l Hin). reflexivity.
  - apply andb_prop in H. destruct H as [_ H]. rewrite forallb_forall in H.
    apply mpoint_P. intros q Hq. rewrite (Hp q (H q Hq)). reflexivity.
  - apply andb_prop in H. destruct H as [_ H]. rewrite forallb_forall in H.
    apply seqs_P. intros q Hq. rewrite (Hl q (H q Hq)). reflexivity.
  - apply andb_prop in H. destruct H as [_ H]. rewrite forallb_forall in H.
    rewrite pos_lens_arr by reflexivity. apply Forall_flat_map'. intros q Hq.
    apply seqs_P. intros l Hin. rewrite (Hy q (H q Hq) l Hin). reflexivity.
  - apply andb_prop in H. destruct H as [_ H]. rewrite forallb_forall in H.
    rewrite pos_lens_arr by (intros x; destruct x; reflexivity). apply Forall_flat_map'. intros q Hq.
    rewrite Forall_forall in IH. apply IH; [exact Hq|]. apply H, Hq.
Qed.

Lemma positions_ok_lemma (g : geom) : same_ct g = true -> positions_ok (to_json g) = true.
Proof.
  intros H. unfold positions_ok. apply andb_true_intro. split.
  - apply forallb_forall. intros n Hn.
    pose proof (gj_positions_2_or_3_lemma g) as A. rewrite Forall_forall in A.
    destruct (A n Hn) as [->| ->]; reflexivity.
  - pose proof (pos_lens_same (geom_ct g) g H) as A. unfold all_eq_nat.
    destruct (pos_lens (to_json g)) as [|x r]; [reflexivity|].
    inversion A as [|? ? Hx Hr]; subst. apply forallb_forall. intros n Hn.
    rewrite Forall_forall in Hr. rewrite <- (Hr n Hn). apply Nat.eqb_refl.
Qed.

(* ---- RFC 7946 3.1 member structure *)
Lemma is_pos_pos ct v : is_pos (pos_json ct v) = true.
Proof. unfold pos_json. destruct (has_z ct); reflexivity. Qed.
Lemma arr_of_map {A} (f : json -> bool) (h : A -> json) l :
  (forall x, In x l -> f (h x) = true) -> arr_of f (JArr (map h l)) = true.
Proof.
  intros H. cbn [arr_of]. apply forallb_forall. intros y Hy. apply in_map_iff in Hy.
  destruct Hy as [x [<- Hx]]. apply H. exact Hx.
Qed.
Lemma rfc_seq l : arr_of is_pos (seq_json l) = true.
Proof. apply arr_of_map. intros v _. apply is_pos_pos. Qed.
Lemma rfc_seqs ls : arr_of (arr_of is_pos) (seqs_json ls) = true.
Proof. apply arr_of_map. intros l _. apply rfc_seq. Qed.

Lemma rfc_geometry_lemma (g : geom) : rfc_geometry (to_json g) = true.
Proof.
  induction g as [p|l|p|c ps|c ls|c ps|c gs IH] using geomT_ind'; cbn [to_json].
  - change (rfc_geometry (gobj TPoint k_coordinates (point_coords p)))
      with (is_pos (point_coords p) || is_empty_arr (point_coords p)).
    unfold point_coords. destruct (point_c p); [rewrite is_pos_pos|]; reflexivity.
  - change (rfc_geometry (gobj TLine k_coordinates (seq_json l))) with (arr_of is_pos (seq_json l)).
    apply rfc_seq.
  - change (rfc_geometry (gobj TPoly k_coordinates (poly_coords p))) with (arr_of (arr_of is_pos) (poly_coords p)).
    apply rfc_seqs.
  - change (rfc_geometry (gobj TMPoint k_coordinates (mpoint_coords ps))) with (arr_of is_pos (mpoint_coords ps)).
    unfold mpoint_coords. cbn [arr_of]. apply forallb_forall. intros y Hy. apply in_flat_map in Hy.
    destruct Hy as [q [_ Hq]]. destruct (point_c q); [|destruct Hq]. destruct Hq as [<-|[]]. apply is_pos_pos.
  - change (rfc_geometry (gobj TMLine k_coordinates (seqs_json ls))) with (arr_of (arr_of is_pos) (seqs_json ls)).
    apply rfc_seqs.
  - change (rfc_geometry (gobj TMPoly k_coordinates (JArr (map poly_coords ps))))
      with (arr_of (arr_of (arr_of is_pos)) (JArr (map poly_coords ps))).
    apply arr_of_map. intros q _. apply rfc_seqs.
  - change (rfc_geometry (gobj TColl k_geometries (JArr (map to_json gs))))
      with (forallb rfc_geometry (map to_json gs)).
    apply forallb_forall. intros y Hy. apply in_map_iff in Hy. destruct Hy as [q [<- Hq]].
    rewrite Forall_forall in IH. apply IH, Hq.
Qed.

(* ================================================================== concrete types *)
Definition gjn_type (t : gjn) : gtype :=
  match t with
  | NPoint _ => TPoint | NLine _ => TLine | NPoly _ => TPoly
  | NMPoint _ => TMPoint | NMLine _ => TMLine | NMPoly _ => TMPoly | NColl _ => TColl
  end.

Lemma decode_geojson_type ty co gs t :
  decode_geojson (MkNode ty co gs) = Ok t -> type_of_name ty = Some (gjn_type t).
Proof.
  cbn [decode_geojson]. destruct (type_of_name ty) as [[]|]; try discriminate;
    match goal with
    | |- bind ?m _ = _ -> _ => destruct m; cbn [bind]; try discriminate; intros H; inversion H; reflexivity
    end.
Qed.

Lemma to_geom_type ct t g : to_geom ct t = Ok g -> geom_type g = gjn_type t.
Proof.
  destruct t as [c|c|c|c|c|c|l]; cbn [to_geom gjn_type].
  - destruct (point_of c ct); cbn [bind]; try discriminate. intros H; inversion H; reflexivity.
  - destruct (line_of ct c); cbn [bind]; try discriminate. intros H; inversion H; reflexivity.
  - destruct c; [intros H; inversion H; reflexivity|].
    destruct (mapM _ _); cbn [bind]; try discriminate. intros H; inversion H; reflexivity.
  - destruct c; [intros H; inversion H; reflexivity|].
    destruct (mapM _ _) as [ps| |]; cbn [bind]; try discriminate. intros H; inversion H.
    unfold new_multipoint. destruct ps; reflexivity.
  - destruct c; [intros H; inversion H; reflexivity|].
    destruct (mapM _ _) as [ps| |]; cbn [bind]; try discriminate. intros H; inversion H.
    unfold new_multiline. destruct ps; reflexivity.
  - destruct c; [intros H; inversion H; reflexivity|].
    destruct (mapM _ _) as [ps| |]; cbn [bind]; try discriminate. intros H; inversion H.
    unfold new_multipoly. destruct ps; reflexivity.
  - destruct l; [intros H; inversion H; reflexivity|].
    match goal with |- bind ?m _ = _ -> _ => destruct m as [ps| |] end; cbn [bind]; try discriminate.
    intros H; inversion H. unfold new_collection. destruct ps; reflexivity.
Qed.

Lemma gj_unmarshal_doc_type j g : gj_unmarshal j = Ok g -> doc_type j = Some (geom_type g).
Proof.
  unfold gj_unmarshal, doc_type. destruct (decode_node j) as [[ty co gs]| |]; cbn [bind]; try discriminate.
  destruct (decode_geojson (MkNode ty co gs)) as [t| |] eqn:E; cbn [bind]; try discriminate.
  unfold unmarshal_gjn. destruct (detect t []); cbn [bind]; try discriminate.
  intros H. apply to_geom_type in H. rewrite H. apply (decode_geojson_type ty co gs t E).
Qed.

Lemma gj_concrete_type_lemma t j g :
  unmarshal_as t j = Ok g <-> gj_unmarshal j = Ok g /\ doc_type j = Some t.
Proof.
  unfold unmarshal_as. split.
  - destruct (gj_unmarshal j) as [g'| |] eqn:E; cbn [bind]; try discriminate.
    destruct (gtype_eqb (geom_type g') t) eqn:Et; try discriminate.
    intros H; inversion H; subst g'. split; [reflexivity|].
    apply gtype_eqb_eq in Et. rewrite <- Et. apply gj_unmarshal_doc_type. exact E.
  - intros [E D]. rewrite E. cbn [bind]. rewrite (gj_unmarshal_doc_type j g E) in D.
    inversion D as [D']. replace (gtype_eqb (geom_type g) (geom_type g)) with true; [reflexivity|].
    symmetry. apply gtype_eqb_eq. reflexivity.
Qed.

Lemma gj_concrete_own_lemma t (g : geom) :
  same_ct g = true ->
  unmarshal_as t (to_json g) = if gtype_eqb (geom_type g) t then Ok (gj_lossy g) else Err EMemberType.
Proof.
  intros H. unfold unmarshal_as. rewrite (gj_roundtrip_lemma g H). cbn [bind].
  replace (geom_type (gj_lossy g)) with (geom_type g); [reflexivity|].
  unfold gj_lossy. destruct g; reflexivity.
Qed.

(* ================================================================== extra ordinates are ignored *)
Definition cut3 (c : list N) : list N := firstn 3 c.
Definition trunc3 : gjn -> gjn :=
  fix go (t : gjn) : gjn :=
    match t with
    | NPoint c => NPoint (cut3 c)
    | NLine cs => NLine (map cut3 cs)
    | NPoly css => NPoly (map (map cut3) css)
    | NMPoint cs => NMPoint (map cut3 cs)
    | NMLine css => NMLine (map (map cut3) css)
    | NMPoly csss => NMPoly (map (map (map cut3)) csss)
    | NColl ts => NColl (map go ts)
    end.

Section GjnInd.
  Variable P : gjn -> Prop.
  Hypothesis H1 : forall c, P (NPoint c).
  Hypothesis H2 : forall c, P (NLine c).
  Hypothesis H3 : forall c, P (NPoly c).
  Hypothesis H4 : forall c, P (NMPoint c).
  Hypothesis H5 : forall c, P (NMLine c).
  Hypothesis H6 : forall c, P (NMPoly c).
  Hypothesis H7 : forall l, Forall P l -> P (NColl l).
  Fixpoint gjn_ind' (t : gjn) : P t :=
    match t with
    | NPoint c => H1 c | NLine c => H2 c | NPoly c => H3 c
    | NMPoint c => H4 c | NMLine c => H5 c | NMPoly c => H6 c
    | NColl l => H7 l ((fix go (l : list gjn) : Forall P l :=
                          match l with
                          | [] => Forall_nil P
                          | x :: r => Forall_cons x (gjn_ind' x) (go r)
                          end) l)
    end.
End GjnInd.

Definition flags_eq (a b : list nat) : Prop := has2 a = has2 b /\ has3 a = has3 b.
Definition sim (a b : outcome (list nat)) : Prop :=
  match a, b with
  | Ok x, Ok y => flags_eq x y
  | Err e1, Err e2 => e1 = e2
  | Panic p1, Panic p2 => p1 = p2
  | _, _ => False
  end.

Lemma foldM_sim {A} (f : A -> list nat -> outcome (list nat)) (h : A -> A) l :
  (forall x, In x l -> forall a b, flags_eq a b -> sim (f (h x) a) (f x b)) ->
  forall a b, flags_eq a b -> sim (foldM f (map h l) a) (foldM f l b).
Proof.
  induction l as [|x l IH]; intros H a b Hab; [exact Hab|].
  cbn [map foldM]. pose proof (H x (or_introl eq_refl) a b Hab) as S.
  destruct (f (h x) a), (f x b); cbn [sim bind] in *; try contradiction; try exact S.
  apply IH; [|exact S]. intros y Hy. apply H. right. exact Hy.
Qed.

Lemma cut3_length c : List.length (cut3 c) = Nat.min 3 (List.length c).
Proof. apply firstn_length. Qed.

Lemma note_sim ok c a b :
  (forall n, ok (Nat.min 3 n) = ok n) -> flags_eq a b ->
  sim (note_len ok (cut3 c) a) (note_len ok c b).
Proof.
  intros Hok [A B]. unfold note_len. rewrite cut3_length, Hok.
  destruct (ok (List.length c)); cbn [sim]; [|reflexivity].
  unfold flags_eq, has2, has3 in *. cbn [existsb]. rewrite A, B. split; f_equal.
  - destruct (List.length c) as [|[|[|[|n]]]]; reflexivity.
  - destruct (List.length c) as [|[|[|[|n]]]]; reflexivity.
Qed.

Lemma len_pos_min n : len_pos (Nat.min 3 n) = len_pos n.
Proof. destruct n as [|[|[|[|n]]]]; reflexivity. Qed.
Lemma len_point_min n : len_point (Nat.min 3 n) = len_point n.
Proof. destruct n as [|[|[|[|n]]]]; reflexivity. Qed.

Lemma detect_trunc_sim (t : gjn) : forall a b, flags_eq a b -> sim (detect (trunc3 t) a) (detect t b).
Proof.
  induction t as [c|c|c|c|c|c|l IH] using gjn_ind'; intros a b Hab; cbn [trunc3 detect].
  - apply note_sim; [apply len_point_min|exact Hab].
  - apply foldM_sim; [|exact Hab]. intros x _ a' b' H'. apply note_sim; [apply len_pos_min|exact H'].
  - apply foldM_sim; [|exact Hab]. intros y _ a' b' H'. apply foldM_sim; [|exact H'].
    intros x _ a'' b'' H''. apply note_sim; [apply len_pos_min|exact H''].
  - apply foldM_sim; [|exact Hab]. intros x _ a' b' H'. apply note_sim; [apply len_pos_min|exact H'].
  - apply foldM_sim; [|exact Hab]. intros y _ a' b' H'. apply foldM_sim; [|exact H'].
    intros x _ a'' b'' H''. apply note_sim; [apply len_pos_min|exact H''].
  - apply foldM_sim; [|exact Hab]. intros z _ a0 b0 H0. apply foldM_sim; [|exact H0].
    intros y _ a' b' H'. apply foldM_sim; [|exact H'].
    intros x _ a'' b'' H''. apply note_sim; [apply len_pos_min|exact H''].
  - fold trunc3. rewrite !go_foldM_detect. apply foldM_sim; [|exact Hab].
    intros x Hx a' b' H'. rewrite Forall_forall in IH. apply IH; assumption.
Qed.

Lemma vtx_of_cut3 c ct : vtx_of (cut3 c) ct = vtx_of c ct.
Proof. destruct c as [|x [|y [|z c']]]; reflexivity. Qed.
Lemma point_of_cut3 c ct : point_of (cut3 c) ct = point_of c ct.
Proof. destruct c as [|x [|y [|z c']]]; reflexivity. Qed.

Lemma mapM_map_ext {A B} (f : A -> outcome B) (h : A -> A) l :
  (forall x, In x l -> f (h x) = f x) -> mapM f (map h l) = mapM f l.
Proof.
  induction l as [|x l IH]; intros H; [reflexivity|]. cbn [map mapM].
  rewrite (H x (or_introl eq_refl)), IH; [reflexivity|]. intros y Hy. apply H. right. exact Hy.
Qed.

Lemma line_of_cut3 ct cs : line_of ct (map cut3 cs) = line_of ct cs.
Proof. unfold line_of. rewrite mapM_map_ext; [reflexivity|]. intros c _. apply vtx_of_cut3. Qed.
Lemma lines_of_cut3 ct css : mapM (line_of ct) (map (map cut3) css) = mapM (line_of ct) css.
Proof. apply mapM_map_ext. intros cs _. apply line_of_cut3. Qed.

Lemma to_geom_trunc ct (t : gjn) : to_geom ct (trunc3 t) = to_geom ct t.
Proof.
  induction t as [c|c|c|c|c|c|l IH] using gjn_ind'; cbn [trunc3].
  - cbn [to_geom]. rewrite point_of_cut3. reflexivity.
  - cbn [to_geom]. rewrite line_of_cut3. reflexivity.
  - destruct c as [|r c]; [reflexivity|]. cbn [map to_geom].
    change (map cut3 r :: map (map cut3) c) with (map (map cut3) (r :: c)).
    rewrite lines_of_cut3. reflexivity.
  - destruct c as [|r c]; [reflexivity|]. cbn [map to_geom].
    change (cut3 r :: map cut3 c) with (map cut3 (r :: c)).
    rewrite mapM_map_ext; [reflexivity|]. intros x _. apply point_of_cut3.
  - destruct c as [|r c]; [reflexivity|]. cbn [map to_geom].
    change (map cut3 r :: map (map cut3) c) with (map (map cut3) (r :: c)).
    rewrite lines_of_cut3. reflexivity.
  - destruct c as [|r c]; [reflexivity|]. cbn [map to_geom].
    change (map (map cut3) r :: map (map (map cut3)) c) with (map (map (map cut3)) (r :: c)).
    rewrite mapM_map_ext; [reflexivity|]. intros x _. rewrite lines_of_cut3. reflexivity.
  - fold trunc3. destruct l as [|x l]; [reflexivity|]. cbn [map to_geom]. rewrite !go_mapM_to_geom.
    inversion IH as [|? ? Hx Hl]; subst. rewrite Hx.
    rewrite mapM_map_ext; [reflexivity|]. rewrite Forall_forall in Hl. exact Hl.
Qed.

Lemma decide_flags a b : flags_eq a b -> decide_ct a = decide_ct b.
Proof. intros [A B]. unfold decide_ct. fold (has2 a) (has3 a) (has2 b) (has3 b). rewrite A, B. reflexivity. Qed.

Lemma gj_extra_ignored_lemma (t : gjn) : unmarshal_gjn (trunc3 t) = unmarshal_gjn t.
Proof.
  unfold unmarshal_gjn. pose proof (detect_trunc_sim t [] [] (conj eq_refl eq_refl)) as S.
  destruct (detect (trunc3 t) []), (detect t []); cbn [sim bind] in *; try contradiction; try congruence.
  rewrite (decide_flags _ _ S). apply to_geom_trunc.
Qed.

(* ================================================================== every result is consistent; the dimension rule *)
Lemma mapM_Forall {A B} (Q : B -> Prop) (f : A -> outcome B) l :
  (forall x y, In x l -> f x = Ok y -> Q y) -> forall r, mapM f l = Ok r -> Forall Q r.
Proof.
  induction l as [|x l IH]; intros H r; cbn [mapM].
  - intros E. inversion E. constructor.
  - destruct (f x) as [y| |] eqn:Ex; cbn [bind]; try discriminate.
    destruct (mapM f l) as [ys| |] eqn:El; cbn [bind]; try discriminate.
    intros E. inversion E. constructor.
    + apply (H x y); [left; reflexivity|exact Ex].
    + apply IH; [|reflexivity]. intros a b Ha. apply H. right. exact Ha.
Qed.

Section ResultOk.
  Variable ct : ctype.
  Hypothesis Hm : has_m ct = false.

  Lemma vtx_of_ok c v : vtx_of c ct = Ok v -> vtx_ok (N.eqb 0) ct v = true.
  Proof.
    unfold vtx_of. destruct (idx c 0); cbn [bind]; try discriminate.
    destruct (idx c 1); cbn [bind]; try discriminate. unfold vtx_ok. rewrite Hm.
    destruct (has_z ct).
    - destruct (idx c 2); cbn [bind]; try discriminate. intros H; inversion H. reflexivity.
    - cbn [bind]. intros H; inversion H. reflexivity.
  Qed.

  Lemma point_of_ok c p : point_of c ct = Ok p -> point_ok (N.eqb 0) ct p = true.
  Proof.
    unfold point_of. destruct c as [|x c'].
    - intros H; inversion H. unfold point_ok. rewrite ct_eqb_refl. reflexivity.
    - destruct (vtx_of (x :: c') ct) as [v| |] eqn:E; cbn [bind]; try discriminate.
      intros H; inversion H. unfold point_ok. rewrite ct_eqb_refl. apply (vtx_of_ok _ _ E).
  Qed.

  Lemma line_of_ok cs l : line_of ct cs = Ok l -> line_ok (N.eqb 0) ct l = true.
  Proof.
    unfold line_of. destruct (mapM _ cs) as [vs| |] eqn:E; cbn [bind]; try discriminate.
    intros H; inversion H. unfold line_ok. rewrite ct_eqb_refl. cbn [andb].
    apply forallb_Forall. apply (mapM_Forall _ _ cs (fun x y _ => vtx_of_ok x y) vs E).
  Qed.

  Lemma lines_of_ok css rs : mapM (line_of ct) css = Ok rs -> forallb (line_ok (N.eqb 0) ct) rs = true.
  Proof.
    intros E. apply forallb_Forall. apply (mapM_Forall _ _ css (fun x y _ => line_of_ok x y) rs E).
  Qed.

  Lemma nonnil_of_mapM {A B} (f : A -> outcome B) x l r : mapM f (x :: l) = Ok r -> r <> [].
  Proof. intros E Hn. apply mapM_length in E. rewrite Hn in E. discriminate. Qed.

  Lemma to_geom_ok (t : gjn) : forall g, to_geom ct t = Ok g -> geom_ok (N.eqb 0) ct g = true.
  Proof.
    induction t as [c|c|c|c|c|c|l IH] using gjn_ind'; intros g; cbn [to_geom].
    - destruct (point_of c ct) as [p| |] eqn:E; cbn [bind]; try discriminate.
      intros H; inversion H. cbn [geom_ok]. apply (point_of_ok _ _ E).
    - destruct (line_of ct c) as [p| |] eqn:E; cbn [bind]; try discriminate.
      intros H; inversion H. cbn [geom_ok]. apply (line_of_ok _ _ E).
    - destruct c as [|r c].
      + intros H; inversion H. cbn [geom_ok poly_ok forallb]. rewrite ct_eqb_refl. reflexivity.
      + destruct (mapM (line_of ct) (r :: c)) as [rs| |] eqn:E; cbn [bind]; try discriminate.
        intros H; inversion H. rewrite (new_polygon_id ct rs (nonnil_of_mapM _ _ _ _ E) (lines_of_ok _ _ E)).
        cbn [geom_ok poly_ok]. rewrite ct_eqb_refl. apply (lines_of_ok _ _ E).
    - destruct c as [|r c].
      + intros H; inversion H. cbn [geom_ok forallb]. rewrite ct_eqb_refl. reflexivity.
      + destruct (mapM _ (r :: c)) as [ps| |] eqn:E; cbn [bind]; try discriminate.
        assert (Hps : forallb (point_ok (N.eqb 0) ct) ps = true).
        { apply forallb_Forall. apply (mapM_Forall _ _ _ (fun x y _ => point_of_ok x y) ps E). }
        intros H; inversion H. rewrite (new_multipoint_id ct ps (nonnil_of_mapM _ _ _ _ E) Hps).
        cbn [geom_ok]. rewrite ct_eqb_refl. exact Hps.
    - destruct c as [|r c].
      + intros H; inversion H. cbn [geom_ok forallb]. rewrite ct_eqb_refl. reflexivity.
      + destruct (mapM (line_of ct) (r :: c)) as [ls| |] eqn:E; cbn [bind]; try discriminate.
        intros H; inversion H. rewrite (new_multiline_id ct ls (nonnil_of_mapM _ _ _ _ E) (lines_of_ok _ _ E)).
        cbn [geom_ok]. rewrite ct_eqb_refl. apply (lines_of_ok _ _ E).
    - destruct c as [|r c].
      + intros H; inversion H. cbn [geom_ok forallb]. rewrite ct_eqb_refl. reflexivity.
      + destruct (mapM _ (r :: c)) as [ps| |] eqn:E; cbn [bind]; try discriminate.
        assert (Hps : forallb (poly_ok (N.eqb 0) ct) ps = true).
        { apply forallb_Forall. eapply mapM_Forall; [|exact E]. intros x y _ H. cbv beta in H.
          destruct (mapM (line_of ct) x) as [a| |]; cbn [bind] in H; try discriminate.
          replace y with (force_poly 0 ct (new_polygon 0 a)) by congruence. apply force_poly_ok. }
        intros H; inversion H. rewrite (new_multipoly_id ct ps (nonnil_of_mapM _ _ _ _ E) Hps).
        cbn [geom_ok]. rewrite ct_eqb_refl. exact Hps.
    - destruct l as [|x l].
      + intros H; inversion H. cbn [geom_ok forallb]. rewrite ct_eqb_refl. reflexivity.
      + rewrite go_mapM_to_geom.
        change (do y <- to_geom ct x; do ys <- mapM (to_geom ct) l; Ok (y :: ys))
          with (mapM (to_geom ct) (x :: l)).
        destruct (mapM (to_geom ct) (x :: l)) as [gs| |] eqn:E; cbn [bind]; try discriminate.
        assert (Hgs : forallb (geom_ok (N.eqb 0) ct) gs = true).
        { apply forallb_Forall. eapply mapM_Forall; [|exact E]. intros a b Ha Hab.
          rewrite Forall_forall in IH. apply (IH a Ha b Hab). }
        intros H; inversion H. rewrite (new_collection_id ct gs (nonnil_of_mapM _ _ _ _ E) Hgs).
        cbn [geom_ok]. rewrite ct_eqb_refl. exact Hgs.
  Qed.
End ResultOk.

Lemma decide_ct_no_m lens : has_m (decide_ct lens) = false.
Proof. unfold decide_ct. destruct (_ && _); reflexivity. Qed.

Lemma unmarshal_gjn_ok t g :
  unmarshal_gjn t = Ok g ->
  exists lens, detect t [] = Ok lens /\ geom_ok (N.eqb 0) (decide_ct lens) g = true /\ geom_ct g = decide_ct lens.
Proof.
  unfold unmarshal_gjn. destruct (detect t []) as [lens| |]; cbn [bind]; try discriminate.
  intros H. exists lens. split; [reflexivity|].
  pose proof (to_geom_ok (decide_ct lens) (decide_ct_no_m lens) t g H) as Hok.
  split; [exact Hok|]. apply (force_geom_id _ _ Hok).
Qed.

Lemma gj_unmarshal_consistent_lemma j g :
  gj_unmarshal j = Ok g -> consistent (N.eqb 0) g = true /\ has_m (geom_ct g) = false.
Proof.
  unfold gj_unmarshal. destruct (decode_node j); cbn [bind]; try discriminate.
  destruct (decode_geojson a) as [t| |]; cbn [bind]; try discriminate.
  intros H. destruct (unmarshal_gjn_ok t g H) as [lens [_ [Hok Hct]]].
  unfold consistent. rewrite Hct. split; [exact Hok|apply decide_ct_no_m].
Qed.

Lemma gj_mixed_is_2d_lemma t lens g :
  detect t [] = Ok lens -> In 2%nat lens -> unmarshal_gjn t = Ok g ->
  geom_ok (N.eqb 0) XY g = true.
Proof.
  intros E Hin H. destruct (unmarshal_gjn_ok t g H) as [lens' [E' [Hok _]]].
  rewrite E in E'. inversion E'; subst lens'.
  assert (D : decide_ct lens = XY).
  { unfold decide_ct. replace (existsb (Nat.eqb 2) lens) with true; [reflexivity|].
    symmetry. apply existsb_exists. exists 2%nat. split; [exact Hin|reflexivity]. }
  rewrite D in Hok. exact Hok.
Qed.

Lemma gj_dimension_rule_lemma t lens g :
  detect t [] = Ok lens -> unmarshal_gjn t = Ok g ->
  geom_ct g = (if negb (existsb (Nat.eqb 2) lens) && existsb (Nat.leb 3) lens then XYZ else XY).
Proof.
  intros E H. destruct (unmarshal_gjn_ok t g H) as [lens' [E' [_ Hct]]].
  rewrite E in E'. inversion E'; subst lens'. exact Hct.
Qed.

(* ================================================================== Go maps: the normal form *)
Lemma str_ltb_irrefl a : str_ltb a a = false.
Proof. induction a as [|x a IH]; cbn [str_ltb]; [reflexivity|]. rewrite N.ltb_irrefl, N.eqb_refl, IH. reflexivity. Qed.

Lemma str_ltb_trans a : forall b c, str_ltb a b = true -> str_ltb b c = true -> str_ltb a c = true.
Proof.
  induction a as [|x a IH]; intros [|y b] [|z c]; cbn [str_ltb]; try discriminate; auto.
  intros H1 H2. apply orb_true_iff in H1. apply orb_true_iff in H2. apply orb_true_iff.
  destruct H1 as [H1|H1], H2 as [H2|H2].
  - left. apply N.ltb_lt in H1, H2. apply N.ltb_lt. lia.
  - apply andb_prop in H2. destruct H2 as [E _]. apply N.eqb_eq in E. subst z. left. exact H1.
  - apply andb_prop in H1. destruct H1 as [E _]. apply N.eqb_eq in E. subst y. left. exact H2.
  - apply andb_prop in H1. destruct H1 as [E1 L1]. apply andb_prop in H2. destruct H2 as [E2 L2].
    apply N.eqb_eq in E1, E2. subst y z. right. rewrite N.eqb_refl. cbn [andb]. apply (IH b c L1 L2).
Qed.

Lemma str_ltb_total a : forall b, str_ltb a b = false -> str_eqb a b = false -> str_ltb b a = true.
Proof.
  induction a as [|x a IH]; intros [|y b]; cbn [str_ltb str_eqb]; try discriminate; auto.
  intros H1 H2. apply orb_false_iff in H1. destruct H1 as [L1 A1].
  apply N.ltb_ge in L1. destruct (N.eqb_spec x y) as [->|Hne].
  - cbn [andb] in *. rewrite N.ltb_irrefl, N.eqb_refl. cbn [orb andb]. apply IH; assumption.
  - replace (y <? x) with true; [reflexivity|]. symmetry. apply N.ltb_lt. lia.
Qed.

Lemma str_ltb_asym a b : str_ltb a b = true -> str_ltb b a = false.
Proof.
  intros H. destruct (str_ltb b a) eqn:E; [|reflexivity].
  pose proof (str_ltb_trans a b a H E) as C. rewrite str_ltb_irrefl in C. discriminate.
Qed.

Lemma str_ltb_neq a b : str_ltb a b = true -> str_eqb a b = false /\ str_eqb b a = false.
Proof.
  intros H. split.
  - destruct (str_eqb a b) eqn:E; [|reflexivity]. apply str_eqb_eq in E. subst b.
    rewrite str_ltb_irrefl in H. discriminate.
  - destruct (str_eqb b a) eqn:E; [|reflexivity]. apply str_eqb_eq in E. subst b.
    rewrite str_ltb_irrefl in H. discriminate.
Qed.

Definition lt_all (k : str) (l : list (str * json)) : bool := forallb (fun kv => str_ltb k (fst kv)) l.

Lemma sortedb_cons k v r : sortedb ((k, v) :: r) = lt_all k r && sortedb r.
Proof. reflexivity. Qed.

Lemma lt_all_trans k k' l : str_ltb k k' = true -> lt_all k' l = true -> lt_all k l = true.
Proof.
  intros H A. unfold lt_all in *. rewrite forallb_forall in *. intros kv Hkv.
  apply (str_ltb_trans k k' (fst kv) H). apply A. exact Hkv.
Qed.

Lemma ins_lt_all k0 k v l : str_ltb k0 k = true -> lt_all k0 l = true -> lt_all k0 (ins k v l) = true.
Proof.
  intros H. induction l as [|[k' v'] r IH]; intros A; cbn [ins].
  - unfold lt_all. cbn [forallb fst]. rewrite H. reflexivity.
  - unfold lt_all in *. cbn [forallb fst] in A. apply andb_prop in A. destruct A as [A1 A2].
    destruct (str_eqb k k'); [|destruct (str_ltb k k')]; cbn [forallb fst].
    + rewrite H, A2. reflexivity.
    + rewrite H, A1, A2. reflexivity.
    + rewrite A1. cbn [andb]. apply IH. exact A2.
Qed.

Lemma ins_sorted k v l : sortedb l = true -> sortedb (ins k v l) = true.
Proof.
  induction l as [|[k' v'] r IH]; intros S; cbn [ins]; [reflexivity|].
  rewrite sortedb_cons in S. apply andb_prop in S. destruct S as [S1 S2].
  destruct (str_eqb k k') eqn:E.
  - apply str_eqb_eq in E. subst k'. rewrite sortedb_cons, S1, S2. reflexivity.
  - destruct (str_ltb k k') eqn:L.
    + rewrite !sortedb_cons, S1, S2.
      change (lt_all k ((k', v') :: r)) with (str_ltb k k' && lt_all k r).
      rewrite L, (lt_all_trans k k' r L S1). reflexivity.
    + rewrite sortedb_cons, (IH S2), andb_true_r. apply ins_lt_all; [|exact S1].
      apply str_ltb_total; assumption.
Qed.

Fixpoint nfold (kvs acc : list (str * json)) : list (str * json) :=
  match kvs with
  | [] => acc
  | (k, v) :: r => nfold r (ins k (jnorm v) acc)
  end.

Lemma jnorm_obj kvs : jnorm (JObj kvs) = JObj (nfold kvs []).
Proof.
  reflexivity.
Qed.
Lemma norm_kvs_nfold kvs : norm_kvs kvs = nfold kvs [].
Proof. unfold norm_kvs. rewrite jnorm_obj. reflexivity. Qed.

Lemma nfold_sorted kvs : forall acc, sortedb acc = true -> sortedb (nfold kvs acc) = true.
Proof. induction kvs as [|[k v] r IH]; intros acc S; cbn [nfold]; [exact S|]. apply IH, ins_sorted, S. Qed.

(* properties of keys and of values carried through ins / nfold *)
Lemma ins_forall (Q : str * json -> bool) k v l : Q (k, v) = true -> forallb Q l = true -> forallb Q (ins k v l) = true.
Proof.
  intros Hq. induction l as [|[k' v'] r IH]; intros A; cbn [ins]; cbn [forallb] in *.
  - rewrite Hq. reflexivity.
  - apply andb_prop in A. destruct A as [A1 A2].
    destruct (str_eqb k k'); [|destruct (str_ltb k k')]; cbn [forallb].
    + rewrite Hq, A2. reflexivity.
    + rewrite Hq, A1, A2. reflexivity.
    + rewrite A1, (IH A2). reflexivity.
Qed.

Lemma nfold_forall (Q : str * json -> bool) kvs :
  (forall k v, In (k, v) kvs -> Q (k, jnorm v) = true) ->
  forall acc, forallb Q acc = true -> forallb Q (nfold kvs acc) = true.
Proof.
  induction kvs as [|[k v] r IH]; intros H acc A; cbn [nfold]; [exact A|].
  apply IH; [intros k' v' Hin; apply H; right; exact Hin|].
  apply ins_forall; [apply H; left; reflexivity|exact A].
Qed.

Lemma ins_append k v l :
  (forall kv, In kv l -> str_ltb (fst kv) k = true) -> ins k v l = l ++ [(k, v)].
Proof.
  induction l as [|[k' v'] r IH]; intros H; cbn [ins app]; [reflexivity|].
  pose proof (H (k', v') (or_introl eq_refl)) as L. cbn [fst] in L.
  destruct (str_ltb_neq k' k L) as [_ E]. rewrite E, (str_ltb_asym k' k L).
  f_equal. apply IH. intros kv Hkv. apply H. right. exact Hkv.
Qed.

Lemma sortedb_app_lt a k v r :
  sortedb (a ++ (k, v) :: r) = true -> forall kv, In kv a -> str_ltb (fst kv) k = true.
Proof.
  induction a as [|[k0 v0] a IH]; intros S kv Hin; [destruct Hin|].
  cbn [app] in S. rewrite sortedb_cons in S. apply andb_prop in S. destruct S as [S1 S2].
  destruct Hin as [<-|Hin]; [|apply (IH S2 kv Hin)].
  unfold lt_all in S1. rewrite forallb_forall in S1. cbn [fst].
  apply (S1 (k, v)). apply in_or_app. right. left. reflexivity.
Qed.

Lemma nfold_id l : forall acc,
  sortedb (acc ++ l) = true -> (forall kv, In kv l -> jnorm (snd kv) = snd kv) -> nfold l acc = acc ++ l.
Proof.
  induction l as [|[k v] r IH]; intros acc S H; cbn [nfold]; [symmetry; apply app_nil_r|].
  pose proof (H (k, v) (or_introl eq_refl)) as Hv. cbn [snd] in Hv. rewrite Hv.
  rewrite (ins_append k v acc (sortedb_app_lt acc k v r S)).
  rewrite IH.
  - rewrite <- app_assoc. reflexivity.
  - rewrite <- app_assoc. exact S.
  - intros kv Hkv. apply H. right. exact Hkv.
Qed.

Lemma canon_jnorm (j : json) : canon j = true -> jnorm j = j.
Proof.
  induction j as [| | | |l IH|kvs IH] using json_ind'; intros C; try reflexivity.
  - cbn [jnorm]. f_equal. apply map_id_on. cbn [canon] in C. rewrite forallb_forall in C.
    rewrite Forall_forall in *. intros x Hx. apply IH; [exact Hx|]. apply C, Hx.
  - rewrite jnorm_obj. f_equal. cbn [canon] in C. apply andb_prop in C. destruct C as [C1 C2].
    apply (nfold_id kvs []); [exact C1|]. rewrite forallb_forall in C2. rewrite Forall_forall in IH.
    intros kv Hkv. apply IH; [exact Hkv|]. apply C2, Hkv.
Qed.

Lemma jnorm_canon (j : json) : canon (jnorm j) = true.
Proof.
  induction j as [| | | |l IH|kvs IH] using json_ind'; try reflexivity.
  - cbn [jnorm canon]. apply forallb_forall. intros x Hx. apply in_map_iff in Hx.
    destruct Hx as [y [<- Hy]]. rewrite Forall_forall in IH. apply IH, Hy.
  - rewrite jnorm_obj. cbn [canon]. rewrite (nfold_sorted kvs [] eq_refl). cbn [andb].
    apply (nfold_forall (fun kv => canon (snd kv))); [|reflexivity].
    intros k v Hin. cbn [snd]. rewrite Forall_forall in IH. apply (IH (k, v) Hin).
Qed.

Lemma jnorm_idem_lemma (j : json) : jnorm (jnorm j) = jnorm j.
Proof. apply canon_jnorm, jnorm_canon. Qed.

Lemma norm_kvs_canon kvs : canon (JObj (norm_kvs kvs)) = true.
Proof. pose proof (jnorm_canon (JObj kvs)) as H. rewrite jnorm_obj in H. rewrite norm_kvs_nfold. exact H. Qed.

Lemma norm_kvs_fixed kvs : canon (JObj kvs) = true -> norm_kvs kvs = kvs.
Proof. intros C. pose proof (canon_jnorm (JObj kvs) C) as H. rewrite jnorm_obj in H. rewrite norm_kvs_nfold. congruence. Qed.

Lemma norm_kvs_idem kvs : norm_kvs (norm_kvs kvs) = norm_kvs kvs.
Proof. apply norm_kvs_fixed, norm_kvs_canon. Qed.

(* ================================================================== Feature round trip *)
Lemma lookup_app k a b :
  lookup k (a ++ b) = match lookup k b with Some x => Some x | None => lookup k a end.
Proof.
  induction a as [|[k' v] a IH]; cbn [app lookup]; [destruct (lookup k b); reflexivity|].
  rewrite IH. destruct (lookup k b); reflexivity.
Qed.

Lemma lookup_none k l : forallb (fun kv => negb (str_eqb k (fst kv))) l = true -> lookup k l = None.
Proof.
  induction l as [|[k' v] r IH]; intros H; cbn [lookup]; [reflexivity|].
  cbn [forallb fst] in H. apply andb_prop in H. destruct H as [H1 H2]. rewrite (IH H2).
  destruct (str_eqb k k'); [discriminate|reflexivity].
Qed.

Lemma filter_all {A} (f : A -> bool) l : forallb f l = true -> filter f l = l.
Proof.
  induction l as [|x l IH]; intros H; cbn [filter]; [reflexivity|]. cbn [forallb] in H.
  apply andb_prop in H. destruct H as [-> H]. rewrite (IH H). reflexivity.
Qed.

Definition unreserved (kv : str * json) : bool := negb (reserved (fst kv)).

Lemma norm_kvs_unreserved l : forallb unreserved l = true -> forallb unreserved (norm_kvs l) = true.
Proof.
  intros H. rewrite norm_kvs_nfold. apply (nfold_forall unreserved); [|reflexivity].
  intros k v Hin. rewrite forallb_forall in H. apply (H (k, v) Hin).
Qed.

Lemma unreserved_lookup k l :
  reserved k = true -> forallb unreserved l = true -> lookup k l = None.
Proof.
  intros Hk H. apply lookup_none. rewrite forallb_forall in *. intros kv Hkv.
  pose proof (H kv Hkv) as U. unfold unreserved in U.
  destruct (str_eqb k (fst kv)) eqn:E; [|reflexivity].
  apply str_eqb_eq in E. rewrite <- E, Hk in U. discriminate.
Qed.

Lemma feature_roundtrip_lemma (f : feature) :
  feat_ok f = true -> feat_unmarshal (feat_to_json f) = Ok (feat_lossy f).
Proof.
  destruct f as [g id props fm]. unfold feat_ok. cbn [f_geom f_foreign]. intros H.
  apply andb_prop in H. destruct H as [Hg Hf].
  pose proof (norm_kvs_unreserved fm Hf) as HF.
  set (P := norm_kvs (match props with Some p => p | None => [] end)).
  set (F := norm_kvs fm) in *.
  assert (Lt : lookup k_type F = None) by (apply unreserved_lookup; [reflexivity|exact HF]).
  assert (Lg : lookup k_geometry F = None) by (apply unreserved_lookup; [reflexivity|exact HF]).
  assert (Li : lookup k_id F = None) by (apply unreserved_lookup; [reflexivity|exact HF]).
  assert (Lp : lookup k_properties F = None) by (apply unreserved_lookup; [reflexivity|exact HF]).
  unfold feat_to_json, feat_lossy, feat_unmarshal. cbn [f_geom f_id f_props f_foreign]. fold P. fold F.
  assert (Hid : forall idpart : list (str * json),
             (idpart = [] /\ id = JNull) \/ (idpart = [(k_id, jnorm id)]) ->
             lookup k_type (([(k_type, JStr s_Feature); (k_geometry, to_json g)] ++ idpart ++ [(k_properties, JObj P)] ++ F)) = Some (JStr s_Feature) /\
             lookup k_geometry (([(k_type, JStr s_Feature); (k_geometry, to_json g)] ++ idpart ++ [(k_properties, JObj P)] ++ F)) = Some (to_json g) /\
             match lookup k_id (([(k_type, JStr s_Feature); (k_geometry, to_json g)] ++ idpart ++ [(k_properties, JObj P)] ++ F)) with
             | Some v => jnorm v | None => JNull end = jnorm id /\
             lookup k_properties (([(k_type, JStr s_Feature); (k_geometry, to_json g)] ++ idpart ++ [(k_properties, JObj P)] ++ F)) = Some (JObj P) /\
             filter (fun kv => negb (reserved (fst kv))) (([(k_type, JStr s_Feature); (k_geometry, to_json g)] ++ idpart ++ [(k_properties, JObj P)] ++ F)) = F).
  { intros idpart [[-> ->] | ->]; rewrite !lookup_app, Lt, Lg, Li, Lp, !filter_app;
      fold unreserved; rewrite (filter_all unreserved F HF);
      cbv [lookup filter app unreserved reserved fst str_eqb k_type k_geometry k_id k_properties N.eqb Pos.eqb andb orb negb].
    - repeat split; reflexivity.
    - rewrite jnorm_idem_lemma. repeat split; reflexivity. }
  match goal with
  | |- context [_ ++ ?m ++ [(k_properties, _)] ++ F] => set (idpart := m)
  end.
  assert (Hcase : (idpart = [] /\ id = JNull) \/ idpart = [(k_id, jnorm id)]).
  { subst idpart. destruct id; auto. }
  clearbody idpart.
  destruct (Hid _ Hcase) as [H1 [H2 [H3 [H4 H5]]]].
  rewrite H1. change (str_eqb s_Feature s_Feature) with true. cbv iota.
  rewrite H2. rewrite (gj_roundtrip_lemma g Hg). cbn [bind].
  rewrite H3, H4, H5. cbn [bind]. unfold P, F. rewrite !norm_kvs_idem. reflexivity.
Qed.

Lemma feature_verbatim_lemma g id props fm :
  canon id = true -> canon (JObj (match props with Some p => p | None => [] end)) = true ->
  canon (JObj fm) = true ->
  feat_lossy (MkFeature g id props fm) =
  MkFeature (gj_lossy g) id (Some (match props with Some p => p | None => [] end)) fm.
Proof.
  intros C1 C2 C3. unfold feat_lossy. cbn [f_geom f_id f_props f_foreign].
  rewrite (canon_jnorm id C1), (norm_kvs_fixed _ C2), (norm_kvs_fixed _ C3). reflexivity.
Qed.

Lemma fc_roundtrip_lemma (fs : list feature) :
  forallb feat_ok fs = true -> fc_unmarshal (fc_to_json fs) = Ok (map feat_lossy fs).
Proof.
  intros H. unfold fc_to_json, fc_unmarshal.
  cbn [str_eqb k_type k_features N.eqb Pos.eqb andb].
  rewrite (mapM_map_ok feat_unmarshal feat_to_json feat_lossy).
  - cbn [bind]. change (str_eqb s_FeatureCollection s_FeatureCollection) with true. reflexivity.
  - intros f Hf. apply feature_roundtrip_lemma. rewrite forallb_forall in H. apply H, Hf.
Qed.

(* ---- the foreign-member splice on bytes *)
Definition pr_member (kv : str * json) : list tok := pr_str (fst kv) ++ TC c_colon :: json_print (snd kv).
Definition pr_members (kvs : list (str * json)) : list tok :=
  match kvs with
  | [] => []
  | kv :: r => pr_member kv ++ flat_map (fun kv => TC c_comma :: pr_member kv) r
  end.
Lemma jp_obj kvs : json_print (JObj kvs) = TC c_lcb :: pr_members kvs ++ [TC c_rcb].
Proof. destruct kvs as [|[k v] r]; reflexivity. Qed.

Lemma splice_lemma a b :
  a <> [] -> b <> [] ->
  splice (json_print (JObj a)) (json_print (JObj b)) = json_print (JObj (a ++ b)).
Proof.
  intros Ha Hb. rewrite !jp_obj. unfold splice. cbn [tl].
  change (TC c_lcb :: pr_members a ++ [TC c_rcb]) with ((TC c_lcb :: pr_members a) ++ [TC c_rcb]).
  rewrite removelast_last. cbn [app]. f_equal.
  destruct a as [|x a]; [congruence|]. destruct b as [|y b]; [congruence|].
  cbn [pr_members app]. rewrite flat_map_app. cbn [flat_map].
  rewrite <- !app_assoc. cbn [app]. reflexivity.
Qed.

(* ================================================================== the decoder never panics *)
(* the index expressions fs[0], fs[1], fs[2], c[j] of geojsonNodeToGeometry are guarded by the
   length pass: detect rejects short positions, and XYZ is only chosen when no position has
   length 2 *)
Definition np {A} (o : outcome A) : Prop := is_panic o = false.

Lemma np_bind {A B} (m : outcome A) (f : A -> outcome B) :
  np m -> (forall a, m = Ok a -> np (f a)) -> np (bind m f).
Proof. unfold np. destruct m; cbn [bind is_panic]; intros H1 H2; auto. Qed.

Lemma np_mapM {A B} (f : A -> outcome B) l : (forall x, In x l -> np (f x)) -> np (mapM f l).
Proof.
  induction l as [|x l IH]; intros H; cbn [mapM]; [reflexivity|].
  apply np_bind; [apply H; left; reflexivity|]. intros y _.
  apply np_bind; [apply IH; intros z Hz; apply H; right; exact Hz|]. intros ys _. reflexivity.
Qed.

Lemma np_arr {A} (f : json -> outcome A) j : (forall x, np (f x)) -> np (arr f j).
Proof. intros H. destruct j; try reflexivity. cbn [arr]. apply np_mapM. intros x _. apply H. Qed.

Lemma np_num j : np (num j). Proof. destruct j; reflexivity. Qed.
Lemma np_dim1 j : np (dim1 j). Proof. apply np_arr, np_num. Qed.
Lemma np_dim2 j : np (dim2 j). Proof. apply np_arr, np_dim1. Qed.
Lemma np_dim3 j : np (dim3 j). Proof. apply np_arr, np_dim2. Qed.
Lemma np_dim4 j : np (dim4 j). Proof. apply np_arr, np_dim3. Qed.
Lemma np_raw {A} (f : json -> outcome A) c : (forall x, np (f x)) -> np (raw f c).
Proof. intros H. destruct c; [apply H|reflexivity]. Qed.

Definition npq (j : json) : Prop :=
  np (decode_node j) /\ match j with JArr l => Forall (fun x => np (decode_node x)) l | _ => True end.

Lemma npq_all (j : json) : npq j.
Proof.
  induction j as [| | | |l IH|kvs IH] using json_ind'; try (split; [reflexivity|exact I]).
  - split; [reflexivity|]. eapply Forall_impl; [|exact IH]. intros x [H _]. exact H.
  - split; [|exact I]. cbn [decode_node]. generalize node_zero.
    induction kvs as [|[k v] r IHr]; intros acc; [reflexivity|].
    inversion IH as [|? ? Hv Hr]; subst. cbn [snd] in Hv. destruct acc as [ty co gs].
    destruct (str_eqb k k_type).
    { destruct v; try reflexivity; apply IHr; exact Hr. }
    destruct (str_eqb k k_coordinates); [apply IHr; exact Hr|].
    destruct (str_eqb k k_geometries); [|apply IHr; exact Hr].
    destruct v as [| | | |l|]; try reflexivity; [apply IHr; exact Hr|].
    rewrite elems_mapM. apply np_bind; [|intros ns _; apply IHr; exact Hr].
    destruct Hv as [_ Hl]. apply np_mapM. rewrite Forall_forall in Hl. exact Hl.
Qed.

Lemma np_decode_node (j : json) : np (decode_node j).
Proof. apply npq_all. Qed.

Section NodeInd.
  Variable P : node -> Prop.
  Hypothesis H : forall ty co gs, Forall P gs -> P (MkNode ty co gs).
  Fixpoint node_ind' (n : node) : P n :=
    match n with
    | MkNode ty co gs =>
        H ty co gs ((fix go (l : list node) : Forall P l :=
                       match l with
                       | [] => Forall_nil P
                       | x :: r => Forall_cons x (node_ind' x) (go r)
                       end) gs)
    end.
End NodeInd.

Lemma np_decode_geojson (n : node) : np (decode_geojson n).
Proof.
  induction n as [ty co gs IH] using node_ind'. cbn [decode_geojson].
  destruct (type_of_name ty) as [[]|]; try reflexivity;
    try (apply np_bind; [apply np_raw; auto using np_dim1, np_dim2, np_dim3, np_dim4|intros; reflexivity]).
  rewrite go_mapM_dg. apply np_bind; [|intros; reflexivity].
  apply np_mapM. rewrite Forall_forall in IH. exact IH.
Qed.

(* ---- the length pass establishes what the construction needs *)
Definition mono (a b : list nat) : Prop := has2 a = true -> has2 b = true.

Fixpoint all_pos (Qp Q : nat -> Prop) (t : gjn) : Prop :=
  match t with
  | NPoint c => Qp (List.length c)
  | NLine cs | NMPoint cs => Forall (fun c => Q (List.length c)) cs
  | NPoly css | NMLine css => Forall (Forall (fun c => Q (List.length c))) css
  | NMPoly csss => Forall (Forall (Forall (fun c => Q (List.length c)))) csss
  | NColl ts => (fix go (ts : list gjn) : Prop :=
                   match ts with
                   | [] => True
                   | x :: r => all_pos Qp Q x /\ go r
                   end) ts
  end.

Lemma all_pos_coll Qp Q ts : all_pos Qp Q (NColl ts) <-> Forall (all_pos Qp Q) ts.
Proof.
  cbn [all_pos]. induction ts as [|x r IH].
  - split; intros _; [constructor|exact I].
  - split.
    + intros [H1 H2]. constructor; [exact H1|]. apply IH. exact H2.
    + intros H. inversion H; subst. split; [assumption|]. apply IH. assumption.
Qed.

Lemma foldM_inv {A} (f : A -> list nat -> outcome (list nat)) (R : A -> list nat -> Prop) :
  (forall x acc L, f x acc = Ok L -> mono acc L /\ R x L) ->
  (forall x L L', R x L -> mono L L' -> R x L') ->
  forall l acc L, foldM f l acc = Ok L -> mono acc L /\ Forall (fun x => R x L) l.
Proof.
  intros Hf Hm. induction l as [|x l IH]; intros acc L; cbn [foldM].
  - intros E. inversion E. split; [intros h; exact h|constructor].
  - destruct (f x acc) as [L1| |] eqn:E1; cbn [bind]; try discriminate. intros E.
    destruct (Hf x acc L1 E1) as [M1 R1]. destruct (IH L1 L E) as [M2 F2].
    split; [intros h; apply M2, M1, h|]. constructor; [|exact F2]. apply (Hm x L1 L R1 M2).
Qed.

Definition Qpos (L : list nat) (n : nat) : Prop := (2 <= n)%nat /\ (n = 2%nat -> has2 L = true).
Definition Qpt (L : list nat) (n : nat) : Prop := n <> 1%nat /\ (n = 2%nat -> has2 L = true).

Lemma note_pos_inv c acc L :
  note_len len_pos c acc = Ok L -> mono acc L /\ Qpos L (List.length c).
Proof.
  unfold note_len. destruct (len_pos (List.length c)) eqn:E; try discriminate. intros H; inversion H; subst L.
  unfold len_pos in E. apply Nat.leb_le in E. unfold mono, Qpos, has2. cbn [existsb]. split.
  - intros h. rewrite h. apply orb_true_r.
  - split; [exact E|]. intros ->. reflexivity.
Qed.

Lemma Qpos_mono n L L' : Qpos L n -> mono L L' -> Qpos L' n.
Proof. intros [A B] M. split; [exact A|]. intros E. apply M, B, E. Qed.
Lemma Qpt_mono n L L' : Qpt L n -> mono L L' -> Qpt L' n.
Proof. intros [A B] M. split; [exact A|]. intros E. apply M, B, E. Qed.

Lemma all_pos_mono L L' (t : gjn) : mono L L' -> all_pos (Qpt L) (Qpos L) t -> all_pos (Qpt L') (Qpos L') t.
Proof.
  intros M. induction t as [c|c|c|c|c|c|l IH] using gjn_ind'; [cbn [all_pos] .. | idtac].
  - intros H. apply (Qpt_mono _ L L' H M).
  - apply Forall_impl. intros a H. apply (Qpos_mono _ L L' H M).
  - apply Forall_impl. intros a. apply Forall_impl. intros b H. apply (Qpos_mono _ L L' H M).
  - apply Forall_impl. intros a H. apply (Qpos_mono _ L L' H M).
  - apply Forall_impl. intros a. apply Forall_impl. intros b H. apply (Qpos_mono _ L L' H M).
  - apply Forall_impl. intros a. apply Forall_impl. intros b. apply Forall_impl. intros c0 H. apply (Qpos_mono _ L L' H M).
  - rewrite !all_pos_coll. intros H. rewrite Forall_forall in *. intros x Hx. apply IH; [exact Hx|]. apply H, Hx.
Qed.

Lemma lines_inv cs acc L :
  foldM (note_len len_pos) cs acc = Ok L -> mono acc L /\ Forall (fun c => Qpos L (List.length c)) cs.
Proof.
  apply (foldM_inv (note_len len_pos) (fun c L => Qpos L (List.length c))).
  - intros x a L0. apply note_pos_inv.
  - intros x L0 L1. apply Qpos_mono.
Qed.

Lemma rings_inv css acc L :
  foldM (foldM (note_len len_pos)) css acc = Ok L ->
  mono acc L /\ Forall (Forall (fun c => Qpos L (List.length c))) css.
Proof.
  apply (foldM_inv (foldM (note_len len_pos)) (fun cs L => Forall (fun c => Qpos L (List.length c)) cs)).
  - intros x a L0. apply lines_inv.
  - intros x L0 L1 H M. eapply Forall_impl; [|exact H]. intros c Hc. apply (Qpos_mono _ L0 L1 Hc M).
Qed.

Lemma detect_inv (t : gjn) : forall acc L,
  detect t acc = Ok L -> mono acc L /\ all_pos (Qpt L) (Qpos L) t.
Proof.
  induction t as [c|c|c|c|c|c|l IH] using gjn_ind'; intros acc L; [cbn [detect all_pos] .. | cbn [detect]].
  - unfold note_len. destruct (len_point (List.length c)) eqn:E; try discriminate.
    intros H; inversion H; subst L. unfold mono, Qpt, has2. cbn [existsb]. split.
    + intros h. rewrite h. apply orb_true_r.
    + split; [|intros ->; reflexivity]. intros En. rewrite En in E. discriminate.
  - apply lines_inv.
  - apply rings_inv.
  - apply lines_inv.
  - apply rings_inv.
  - apply (foldM_inv (foldM (foldM (note_len len_pos)))
             (fun css L => Forall (Forall (fun c => Qpos L (List.length c))) css)).
    + intros x a L0. apply rings_inv.
    + intros x L0 L1 H M. eapply Forall_impl; [|exact H]. intros cs. apply Forall_impl.
      intros c0 Hc. apply (Qpos_mono _ L0 L1 Hc M).
  - rewrite go_foldM_detect. intros E. rewrite all_pos_coll.
    revert acc L E. induction l as [|x l IHl]; intros acc L; cbn [foldM].
    + intros E. inversion E. split; [intros h; exact h|constructor].
    + inversion IH as [|? ? Hx Hl]; subst.
      destruct (detect x acc) as [L1| |] eqn:E1; cbn [bind]; try discriminate. intros E.
      destruct (Hx acc L1 E1) as [M1 A1]. destruct (IHl Hl L1 L E) as [M2 F2].
      split; [intros h; apply M2, M1, h|]. constructor; [|exact F2].
      apply (all_pos_mono L1 L x M2 A1).
Qed.

(* ---- construction succeeds when every position is long enough *)
Lemma mapM_total {A B} (f : A -> outcome B) l :
  Forall (fun x => exists y, f x = Ok y) l -> exists r, mapM f l = Ok r.
Proof.
  induction 1 as [|x l [y Hy] _ [r Hr]]; [exists []; reflexivity|].
  exists (y :: r). cbn [mapM]. rewrite Hy. cbn [bind]. rewrite Hr. reflexivity.
Qed.

Section Total.
  Variable ct : ctype.
  Let d := pdim (has_z ct).

  Lemma vtx_of_total c : (d <= List.length c)%nat -> exists v, vtx_of c ct = Ok v.
  Proof.
    unfold d, pdim, vtx_of, idx. destruct c as [|x [|y [|z c']]]; cbn [List.length nth_error bind];
      destruct (has_z ct); intros H; try lia; eexists; reflexivity.
  Qed.

  Lemma point_of_total c : (List.length c = 0%nat \/ (d <= List.length c)%nat) -> exists p, point_of c ct = Ok p.
  Proof.
    intros H. unfold point_of. destruct c as [|x c']; [eexists; reflexivity|].
    destruct H as [H|H]; [discriminate|]. destruct (vtx_of_total (x :: c') H) as [v ->]. eexists; reflexivity.
  Qed.

  Lemma line_of_total cs : Forall (fun c => (d <= List.length c)%nat) cs -> exists l, line_of ct cs = Ok l.
  Proof.
    intros H. unfold line_of. destruct (mapM_total (fun c => vtx_of c ct) cs) as [vs ->]; [|eexists; reflexivity].
    eapply Forall_impl; [|exact H]. intros c. apply vtx_of_total.
  Qed.

  Lemma lines_of_total css :
    Forall (Forall (fun c => (d <= List.length c)%nat)) css -> exists ls, mapM (line_of ct) css = Ok ls.
  Proof. intros H. apply mapM_total. eapply Forall_impl; [|exact H]. intros cs. apply line_of_total. Qed.

  Lemma to_geom_total (t : gjn) :
    all_pos (fun n => n = 0%nat \/ (d <= n)%nat) (fun n => (d <= n)%nat) t -> exists g, to_geom ct t = Ok g.
  Proof.
    induction t as [c|c|c|c|c|c|l IH] using gjn_ind'; [cbn [all_pos] .. | idtac]; intros H.
    - cbn [to_geom]. destruct (point_of_total c H) as [p ->]. eexists; reflexivity.
    - cbn [to_geom]. destruct (line_of_total c H) as [p ->]. eexists; reflexivity.
    - destruct c as [|r c]; [eexists; reflexivity|]. cbn [to_geom].
      destruct (lines_of_total _ H) as [rs ->]. eexists; reflexivity.
    - destruct c as [|r c]; [eexists; reflexivity|]. cbn [to_geom].
      destruct (mapM_total (fun c0 => point_of c0 ct) (r :: c)) as [ps ->]; [|eexists; reflexivity].
      eapply Forall_impl; [|exact H]. intros c0 Hc. apply point_of_total. right. exact Hc.
    - destruct c as [|r c]; [eexists; reflexivity|]. cbn [to_geom].
      destruct (lines_of_total _ H) as [rs ->]. eexists; reflexivity.
    - destruct c as [|r c]; [eexists; reflexivity|]. cbn [to_geom].
      match goal with |- exists g, bind (mapM ?f ?l) _ = _ => destruct (mapM_total f l) as [ps ->] end;
        [|eexists; reflexivity].
      eapply Forall_impl; [|exact H]. intros css Hc. cbv beta.
      destruct (lines_of_total css Hc) as [rs ->]. eexists; reflexivity.
    - rewrite all_pos_coll in H.
      destruct l as [|x l]; [eexists; reflexivity|]. cbn [to_geom]. rewrite go_mapM_to_geom.
      change (do y <- to_geom ct x; do ys <- mapM (to_geom ct) l; Ok (y :: ys))
        with (mapM (to_geom ct) (x :: l)).
      destruct (mapM_total (to_geom ct) (x :: l)) as [gs ->]; [|eexists; reflexivity].
      rewrite Forall_forall in *. intros y Hy. apply IH; [exact Hy|]. apply H, Hy.
  Qed.
End Total.

Lemma all_pos_impl (Qp Q Qp' Q' : nat -> Prop) (t : gjn) :
  (forall n, Qp n -> Qp' n) -> (forall n, Q n -> Q' n) -> all_pos Qp Q t -> all_pos Qp' Q' t.
Proof.
  intros Hp Hq. induction t as [c|c|c|c|c|c|l IH] using gjn_ind'; [cbn [all_pos] .. | idtac].
  - apply Hp.
  - apply Forall_impl. intros a. apply Hq.
  - apply Forall_impl. intros a. apply Forall_impl. intros b. apply Hq.
  - apply Forall_impl. intros a. apply Hq.
  - apply Forall_impl. intros a. apply Forall_impl. intros b. apply Hq.
  - apply Forall_impl. intros a. apply Forall_impl. intros b. apply Forall_impl. intros c0. apply Hq.
  - rewrite !all_pos_coll. intros H. rewrite Forall_forall in *. intros x Hx. apply IH; [exact Hx|]. apply H, Hx.
Qed.

(* after a successful length pass the construction always succeeds *)
Lemma unmarshal_gjn_total_lemma (t : gjn) (L : list nat) :
  detect t [] = Ok L -> exists g, unmarshal_gjn t = Ok g.
Proof.
  intros E. unfold unmarshal_gjn. rewrite E. cbn [bind].
  destruct (detect_inv t [] L E) as [_ A].
  apply to_geom_total. eapply all_pos_impl; [| |exact A].
  - intros n [N1 N2]. unfold decide_ct. fold (has2 L). destruct (has2 L) eqn:H2; cbn [negb andb].
    + cbn [has_z pdim]. lia.
    + destruct (existsb (Nat.leb 3) L); cbn [has_z pdim].
      * assert (n <> 2%nat) by (intros ->; specialize (N2 eq_refl); discriminate). lia.
      * lia.
  - intros n [N1 N2]. unfold decide_ct. fold (has2 L). destruct (has2 L) eqn:H2; cbn [negb andb].
    + cbn [has_z pdim]. lia.
    + destruct (existsb (Nat.leb 3) L); cbn [has_z pdim].
      * assert (n <> 2%nat) by (intros ->; specialize (N2 eq_refl); discriminate). lia.
      * lia.
Qed.

Lemma np_detect (t : gjn) : forall acc, np (detect t acc).
Proof.
  assert (Hn : forall ok c acc, np (note_len ok c acc)).
  { intros ok c acc. unfold note_len. destruct (ok _); reflexivity. }
  assert (Hf : forall {A} (f : A -> list nat -> outcome (list nat)), (forall x a, np (f x a)) ->
                                                               forall l a, np (foldM f l a)).
  { intros A f H l. induction l as [|x l IHl]; intros a; cbn [foldM]; [reflexivity|].
    apply np_bind; [apply H|]. intros; apply IHl. }
  induction t as [c|c|c|c|c|c|l IH] using gjn_ind'; intros acc; cbn [detect].
  - apply Hn.
  - apply Hf. intros; apply Hn.
  - apply Hf. intros; apply Hf. intros; apply Hn.
  - apply Hf. intros; apply Hn.
  - apply Hf. intros; apply Hf. intros; apply Hn.
  - apply Hf. intros; apply Hf. intros; apply Hf. intros; apply Hn.
  - rewrite go_foldM_detect. revert acc. induction l as [|x l IHl]; intros acc; cbn [foldM]; [reflexivity|].
    inversion IH; subst. apply np_bind; [auto|]. intros; apply IHl. assumption.
Qed.

Lemma gj_unmarshal_no_panic_lemma (j : json) : is_panic (gj_unmarshal j) = false.
Proof.
  unfold gj_unmarshal. apply np_bind; [apply np_decode_node|]. intros n _.
  apply np_bind; [apply np_decode_geojson|]. intros t _.
  unfold np. destruct (detect t []) as [L| |] eqn:E.
  - destruct (unmarshal_gjn_total_lemma t L E) as [g ->]. reflexivity.
  - unfold unmarshal_gjn. rewrite E. reflexivity.
  - pose proof (np_detect t []) as H. unfold np in H. rewrite E in H. discriminate.
Qed.
