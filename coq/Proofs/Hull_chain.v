(* Property C13 - the scan invariant of one monotone chain (geom/alg_convex_hull.go:monotoneChain),
   proved once for both directions of the lexicographic order. *)
From Coq Require Import ZArith List Bool Lia Permutation Sorting.Sorted.
From SF Require Import Base.GeomAST Model.Hull Proofs.Hull_proofs.
Import ListNotations.
Open Scope Z_scope.

(* ------------------------------------------------------------------------------------------ *)
(* Angular order of vectors in one closed half plane (u x v = ux*vy - uy*vx) *)

Lemma T_ww ux uy vx vy wx wy :
  (0 < ux \/ ux = 0 /\ 0 <= uy) -> (0 < vx \/ vx = 0 /\ 0 < vy) -> (0 < wx \/ wx = 0 /\ 0 <= wy) ->
  0 <= ux*vy - uy*vx -> 0 <= vx*wy - vy*wx -> 0 <= ux*wy - uy*wx.
Proof.
  intros Hu Hv Hw H1 H2.
  assert (E : vx * (ux*wy - uy*wx) = wx*(ux*vy - uy*vx) + ux*(vx*wy - vy*wx)) by ring.
  destruct Hv as [Hv|[Hv Hv']].
  - assert (0 <= wx) by lia. assert (0 <= ux) by lia.
    assert (0 <= vx * (ux*wy - uy*wx)) by (rewrite E; apply Z.add_nonneg_nonneg; apply Z.mul_nonneg_nonneg; lia).
    nia.
  - subst vx. assert (0 <= ux * vy) by lia. assert (vy * wx <= 0) by lia.
    assert (wx = 0) by nia. subst wx. assert (0 <= wy) by lia.
    assert (0 <= ux) by nia. nia.
Qed.
Lemma T_sw ux uy vx vy wx wy :
  (0 < ux \/ ux = 0 /\ 0 <= uy) -> (0 < vx \/ vx = 0 /\ 0 < vy) -> (0 < wx \/ wx = 0 /\ 0 < wy) ->
  0 < ux*vy - uy*vx -> 0 <= vx*wy - vy*wx -> 0 < ux*wy - uy*wx.
Proof.
  intros Hu Hv Hw H1 H2.
  assert (E : vx * (ux*wy - uy*wx) = wx*(ux*vy - uy*vx) + ux*(vx*wy - vy*wx)) by ring.
  destruct Hv as [Hv|[Hv Hv']].
  - assert (0 <= wx) by lia. assert (0 <= ux) by lia.
    assert (0 < vx * (ux*wy - uy*wx)).
    { rewrite E. destruct Hw as [Hw|[Hw Hw']].
      - assert (0 < wx*(ux*vy - uy*vx)) by (apply Z.mul_pos_pos; lia).
        assert (0 <= ux*(vx*wy - vy*wx)) by (apply Z.mul_nonneg_nonneg; lia). lia.
      - subst wx. assert (0 < vx * wy) by (apply Z.mul_pos_pos; lia).
        destruct Hu as [Hu|[Hu Hu']].
        + assert (0 < ux * (vx * wy - vy * 0)) by (apply Z.mul_pos_pos; lia). lia.
        + subst ux. exfalso. assert (0 <= uy * vx) by (apply Z.mul_nonneg_nonneg; lia). lia. }
    nia.
  - subst vx. assert (0 < ux * vy) by lia. assert (vy * wx <= 0) by lia.
    assert (wx = 0) by nia. subst wx. assert (0 < wy) by lia.
    assert (0 < ux) by nia. assert (0 < ux * wy) by (apply Z.mul_pos_pos; lia). lia.
Qed.
Lemma T_ws ux uy vx vy wx wy :
  (0 < ux \/ ux = 0 /\ 0 < uy) -> (0 < vx \/ vx = 0 /\ 0 < vy) -> (0 < wx \/ wx = 0 /\ 0 <= wy) ->
  0 <= ux*vy - uy*vx -> 0 < vx*wy - vy*wx -> 0 < ux*wy - uy*wx.
Proof.
  intros Hu Hv Hw H1 H2.
  assert (E : vx * (ux*wy - uy*wx) = wx*(ux*vy - uy*vx) + ux*(vx*wy - vy*wx)) by ring.
  destruct Hv as [Hv|[Hv Hv']].
  - assert (0 <= wx) by lia. assert (0 <= ux) by lia.
    assert (0 < vx * (ux*wy - uy*wx)).
    { rewrite E. destruct Hu as [Hu|[Hu Hu']].
      - assert (0 < ux*(vx*wy - vy*wx)) by (apply Z.mul_pos_pos; lia).
        assert (0 <= wx*(ux*vy - uy*vx)) by (apply Z.mul_nonneg_nonneg; lia). lia.
      - subst ux. assert (uy * vx <= 0) by lia. assert (0 < uy * vx) by (apply Z.mul_pos_pos; lia). lia. }
    nia.
  - subst vx. assert (0 <= ux * vy) by lia. assert (0 < - (vy * wx)) by lia.
    exfalso. destruct Hw as [Hw|[Hw Hw']]; [|subst wx; lia].
    assert (0 < vy * wx) by (apply Z.mul_pos_pos; lia). lia.
Qed.
(* parallel vectors in the same open half plane see every third vector on the same side *)
Lemma T_par xx xy yx yy wx wy :
  (0 < xx \/ xx = 0 /\ 0 < xy) -> (0 < yx \/ yx = 0 /\ 0 < yy) ->
  xx*yy - xy*yx = 0 -> 0 < wx*xy - wy*xx -> 0 < wx*yy - wy*yx.
Proof.
  intros Hx Hy Hp H.
  assert (E : xx * (wx*yy - wy*yx) = yx * (wx*xy - wy*xx) + wx * (xx*yy - xy*yx)) by ring.
  destruct Hx as [Hx|[Hx Hx']].
  - destruct Hy as [Hy|[Hy Hy']].
    + assert (0 < xx * (wx*yy - wy*yx)) by (rewrite E, Hp; assert (0 < yx * (wx*xy - wy*xx)) by (apply Z.mul_pos_pos; lia); lia).
      nia.
    + subst yx. assert (xx * yy = 0) by lia. assert (0 < xx * yy) by (apply Z.mul_pos_pos; lia). lia.
  - subst xx. assert (xy * yx = 0) by lia.
    assert (yx = 0) by nia. subst yx. destruct Hy as [Hy|[_ Hy]]; [lia|].
    assert (0 < wx * xy) by lia. assert (0 < wx) by nia. assert (0 < wx * yy) by (apply Z.mul_pos_pos; lia). lia.
Qed.

(* ------------------------------------------------------------------------------------------ *)
(* Orientation facts for points ordered along direction s *)

Ltac geo_unfold := unfold dle, dlt, dv, lexpos, cross in *; cbn [fst snd] in *.
(* a weak inequality between points as a disjunction on coordinates *)
Ltac le_coords H := 
  let E := fresh "E" in destruct H as [H|E]; [|inversion E; subst; clear E].

(* A: popping b (top, above a) because p is not left of a->b keeps every later q left of a->p *)
Lemma geo_A s a b p q : sgn s ->
  dlt s a b -> dle s a q -> dle s a p -> 0 <= cross a b q -> cross a b p <= 0 -> 0 <= cross a p q.
Proof.
  intros Hs Hab Haq Hap H1 H2.
  destruct a as [ax ay], b as [bx b_y], p as [px py], q as [qx qy].
  dsgn Hs.
  - pose proof (T_ww (px - ax) (py - ay) (bx - ax) (b_y - ay) (qx - ax) (qy - ay)) as T.
    le_coords Haq; le_coords Hap; geo_unfold; lia.
  - pose proof (T_ww (ax - px) (ay - py) (ax - bx) (ay - b_y) (ax - qx) (ay - qy)) as T.
    le_coords Haq; le_coords Hap; geo_unfold; lia.
Qed.

(* B: q at or before b, on or left of a->b; p beyond b strictly left of a->b: q is on or left of b->p *)
Lemma geo_B s a b p q : sgn s ->
  dlt s a b -> dle s q b -> dlt s b p -> 0 <= cross a b q -> 0 < cross a b p -> 0 <= cross b p q.
Proof.
  intros Hs Hab Hqb Hbp H1 H2.
  destruct a as [ax ay], b as [bx b_y], p as [px py], q as [qx qy].
  dsgn Hs.
  - pose proof (T_ww (bx - qx) (b_y - qy) (bx - ax) (b_y - ay) (px - bx) (py - b_y)) as T.
    le_coords Hqb; geo_unfold; lia.
  - pose proof (T_ww (qx - bx) (qy - b_y) (ax - bx) (ay - b_y) (bx - px) (b_y - py)) as T.
    le_coords Hqb; geo_unfold; lia.
Qed.

(* C1, C2: a strictly convex monotone chain x..a,b extended by p strictly left of a->b *)
Lemma geo_C1 s x a b p : sgn s ->
  dlt s x a -> dlt s a b -> dlt s b p -> 0 < cross x a b -> 0 < cross a b p -> 0 < cross x b p.
Proof.
  intros Hs Hxa Hab Hbp H1 H2.
  destruct a as [ax ay], b as [bx b_y], p as [px py], x as [xx xy].
  dsgn Hs.
  - pose proof (T_sw (ax - xx) (ay - xy) (bx - ax) (b_y - ay) (px - bx) (py - b_y)) as T.
    geo_unfold; lia.
  - pose proof (T_sw (xx - ax) (xy - ay) (ax - bx) (ay - b_y) (bx - px) (b_y - py)) as T.
    geo_unfold; lia.
Qed.
Lemma geo_C2 s x y b p : sgn s ->
  dlt s x y -> dlt s y b -> dlt s b p -> 0 < cross x y b -> 0 < cross y b p -> 0 < cross x y p.
Proof.
  intros Hs Hxy Hyb Hbp H1 H2.
  destruct y as [yx yy], b as [bx b_y], p as [px py], x as [xx xy].
  dsgn Hs.
  - pose proof (T_sw (yx - xx) (yy - xy) (bx - yx) (b_y - yy) (px - bx) (py - b_y)) as T.
    geo_unfold; lia.
  - pose proof (T_sw (xx - yx) (xy - yy) (yx - bx) (yy - b_y) (bx - px) (b_y - py)) as T.
    geo_unfold; lia.
Qed.

(* ------------------------------------------------------------------------------------------ *)
(* The inner loop *)

Lemma left_turn_spec a b p : is_left_turn (orientation a b p) = true <-> 0 < cross a b p.
Proof.
  unfold orientation. destruct (0 <? cross a b p) eqn:E.
  - apply Z.ltb_lt in E. simpl. tauto.
  - apply Z.ltb_ge in E. destruct (cross a b p <? 0); simpl; split; intros; try discriminate; lia.
Qed.
Lemma left_turn_false a b p : is_left_turn (orientation a b p) = false <-> cross a b p <= 0.
Proof.
  rewrite <- Bool.not_true_iff_false, left_turn_spec. lia.
Qed.

Lemma pop_cons2 b a r p :
  pop_nonleft (b :: a :: r) p =
  if is_left_turn (orientation a b p) then b :: a :: r else pop_nonleft (a :: r) p.
Proof. reflexivity. Qed.

Lemma pop_suffix st p : exists l, st = l ++ pop_nonleft st p.
Proof.
  induction st as [|b st IH]; [exists []; reflexivity|].
  destruct st as [|a r]; [exists []; reflexivity|].
  rewrite pop_cons2. destruct (is_left_turn _); [exists []; reflexivity|].
  destruct IH as [l E]. exists (b :: l). simpl. f_equal. exact E.
Qed.
Lemma pop_nonempty st p : st <> [] -> pop_nonleft st p <> [].
Proof.
  induction st as [|b st IH]; [congruence|]. intros _.
  destruct st as [|a r]; [discriminate|].
  rewrite pop_cons2. destruct (is_left_turn _); [discriminate|]. apply IH. discriminate.
Qed.
Lemma pop_last st p d : last (pop_nonleft st p) d = last st d.
Proof.
  induction st as [|b st IH]; [reflexivity|].
  destruct st as [|a r]; [reflexivity|].
  rewrite pop_cons2. destruct (is_left_turn _); [reflexivity|]. rewrite IH. reflexivity.
Qed.
Lemma pop_top st p :
  match pop_nonleft st p with b :: a :: _ => 0 < cross a b p | _ => True end.
Proof.
  induction st as [|b st IH]; [exact I|].
  destruct st as [|a r]; [exact I|].
  rewrite pop_cons2. destruct (is_left_turn _) eqn:E; [apply left_turn_spec; exact E|exact IH].
Qed.
Lemma pop_idem st p : pop_nonleft (pop_nonleft st p) p = pop_nonleft st p.
Proof.
  induction st as [|b st IH]; [reflexivity|].
  destruct st as [|a r]; [reflexivity|].
  rewrite pop_cons2. destruct (is_left_turn _) eqn:E; [|exact IH].
  rewrite pop_cons2, E. reflexivity.
Qed.

(* ------------------------------------------------------------------------------------------ *)
(* Multiplicity does not matter: the chain over a list equals the chain over the list with
   adjacent duplicates removed, except that a list of copies of one point gives [b;b] *)

Lemma cross_abb a b : cross a b b = 0.
Proof. unfold cross. ring. Qed.
Lemma cross_aab a b : cross a a b = 0.
Proof. unfold cross. ring. Qed.

Definition glitch (x y : list pt) : Prop := x = y \/ exists b, x = [b; b] /\ y = [b].

Lemma glitch_trans x y z : glitch x y -> glitch y z -> glitch x z.
Proof.
  intros [->|[b [-> ->]]] H2; [exact H2|].
  destruct H2 as [<-|[c [E _]]]; [right; exists b; auto|discriminate].
Qed.
Lemma push_glitch x y c : glitch x y -> glitch (push x c) (push y c).
Proof.
  intros [->|[b [-> ->]]]; [left; reflexivity|]. left.
  unfold push. rewrite pop_cons2.
  assert (E : is_left_turn (orientation b b c) = false) by (apply left_turn_false; rewrite cross_aab; lia).
  rewrite E. reflexivity.
Qed.
Lemma push_dup st b : glitch (push (push st b) b) (push st b).
Proof.
  destruct st as [|x st].
  - right. exists b. split; reflexivity.
  - left. unfold push at 1 2.
    destruct (pop_nonleft (x :: st) b) as [|a r] eqn:E; [exfalso; eapply pop_nonempty; [|exact E]; discriminate|].
    rewrite pop_cons2.
    assert (E' : is_left_turn (orientation a b b) = false) by (apply left_turn_false; rewrite cross_abb; lia).
    rewrite E', <- E, pop_idem. reflexivity.
Qed.
Lemma fold_glitch l : forall x y, glitch x y -> glitch (fold_left push l x) (fold_left push l y).
Proof.
  induction l as [|c l IH]; intros x y H; simpl; [exact H|]. apply IH. apply push_glitch. exact H.
Qed.
Lemma fold_dedup_glitch l : forall st, glitch (fold_left push l st) (fold_left push (dedup l) st).
Proof.
  induction l as [|a l IH]; intros st; [left; reflexivity|].
  destruct l as [|b l]; [left; reflexivity|].
  change (dedup (a :: b :: l)) with (if pt_eqb a b then dedup (b :: l) else a :: dedup (b :: l)).
  destruct (pt_eqb a b) eqn:E.
  - apply pt_eqb_eq in E. subst b.
    eapply glitch_trans; [|apply IH].
    change (fold_left push (a :: a :: l) st) with (fold_left push l (push (push st a) a)).
    change (fold_left push (a :: l) st) with (fold_left push l (push st a)).
    apply fold_glitch. apply push_dup.
  - change (fold_left push (a :: b :: l) st) with (fold_left push (b :: l) (push st a)).
    change (fold_left push (a :: dedup (b :: l)) st) with (fold_left push (dedup (b :: l)) (push st a)).
    apply IH.
Qed.

Lemma fold_push_len2 l : forall st, (2 <= length st)%nat -> (2 <= length (fold_left push l st))%nat.
Proof.
  induction l as [|c l IH]; intros st H; simpl; [exact H|]. apply IH.
  unfold push. simpl. destruct st as [|x st]; [simpl in H; lia|].
  destruct (pop_nonleft (x :: st) c) eqn:E; [exfalso; eapply pop_nonempty; [|exact E]; discriminate|simpl; lia].
Qed.

Lemma chain_rev_dedup l : (2 <= length (dedup l))%nat -> chain_rev l = chain_rev (dedup l).
Proof.
  intros H. unfold chain_rev. destruct (fold_dedup_glitch l []) as [E|[b [_ E]]]; [exact E|].
  exfalso. destruct (dedup l) as [|x [|y t]]; simpl in H; try lia.
  assert (L : (2 <= length (fold_left push (x :: y :: t) []))%nat).
  { change (fold_left push (x :: y :: t) []) with (fold_left push t (push (push [] x) y)).
    apply fold_push_len2. simpl. lia. }
  rewrite E in L. simpl in L. lia.
Qed.

(* ------------------------------------------------------------------------------------------ *)
(* The scan invariant *)

(* R holds for every ordered pair (earlier, later) of the list *)
Fixpoint fop (R : pt -> pt -> Prop) (l : list pt) : Prop :=
  match l with [] => True | b :: r => Forall (R b) r /\ fop R r end.

Lemma fop_impl_in (R R' : pt -> pt -> Prop) l :
  (forall y x, In y l -> In x l -> R y x -> R' y x) -> fop R l -> fop R' l.
Proof.
  induction l as [|b r IH]; intros H F; [exact I|]. destruct F as [F1 F2]. split.
  - rewrite Forall_forall in *. intros x Hx. apply H; [left; reflexivity|right; exact Hx|apply F1; exact Hx].
  - apply IH; auto. intros y x Hy Hx. apply H; right; assumption.
Qed.
Lemma fop_and (R R' : pt -> pt -> Prop) l : fop R l -> fop R' l -> fop (fun y x => R y x /\ R' y x) l.
Proof.
  induction l as [|b r IH]; intros F F'; [exact I|]. destruct F as [F1 F2], F' as [F1' F2']. split; auto.
  rewrite Forall_forall in *. intros x Hx. split; auto.
Qed.
Lemma fop_app_r (R : pt -> pt -> Prop) l1 l2 : fop R (l1 ++ l2) -> fop R l2.
Proof. induction l1 as [|a l1 IH]; simpl; [auto|]. intros [_ F]. auto. Qed.
Lemma fop_cross (R : pt -> pt -> Prop) l1 l2 x y : fop R (l1 ++ l2) -> In x l1 -> In y l2 -> R x y.
Proof.
  induction l1 as [|a l1 IH]; simpl; [tauto|]. intros [F1 F2] [->|Hx] Hy.
  - rewrite Forall_forall in F1. apply F1. apply in_or_app. right; exact Hy.
  - apply IH; auto.
Qed.
Lemma fop_of_sorted (R : pt -> pt -> Prop) l : StronglySorted R l -> fop R l.
Proof. induction 1; simpl; auto. Qed.

(* stacks are held with the top first: for c above b above a the triple a,b,c turns left *)
Fixpoint all_triples (st : list pt) : Prop :=
  match st with [] => True | c :: r => fop (fun b a => 0 < cross a b c) r /\ all_triples r end.
(* q is on or to the left of every chain edge a->b (b directly above a) *)
Fixpoint cov (q : pt) (st : list pt) : Prop :=
  match st with b :: ((a :: _) as r) => 0 <= cross a b q /\ cov q r | _ => True end.

Lemma all_triples_app_r l st : all_triples (l ++ st) -> all_triples st.
Proof. induction l as [|a l IH]; simpl; [auto|]. intros [_ H]; auto. Qed.
Lemma cov_app_r q l st : cov q (l ++ st) -> cov q st.
Proof.
  induction l as [|b l IH]; [auto|]. intros H. apply IH.
  simpl in H. destruct (l ++ st) eqn:E; [destruct l; simpl in *; [subst; exact I|discriminate]|].
  destruct H as [_ H]. exact H.
Qed.
Lemma sorted_app_r {A} (R : A -> A -> Prop) l st : StronglySorted R (l ++ st) -> StronglySorted R st.
Proof. induction l as [|a l IH]; simpl; [auto|]. intros H. inversion H; auto. Qed.

Section Chain.
  Variable s : Z.
  Hypothesis Hs : sgn s.

  Definition desc (st : list pt) : Prop := StronglySorted (fun x y => dlt s y x) st.

  Record inv (Q st : list pt) : Prop := {
    inv_desc : desc st;
    inv_triples : all_triples st;
    inv_cov : forall q, In q Q -> cov q st;
    inv_incl : incl st Q;
    inv_nonempty : st <> [];
    inv_top : forall q d, In q Q -> dle s q (hd d st);
    inv_bottom : forall q d, In q Q -> dle s (last st d) q
  }.

  (* the pop loop: every processed q is at or before the new top, or on/left of top->p *)
  Lemma pop_frontier Q p : forall st,
    desc st -> (forall x, In x st -> dlt s x p) -> (forall q, In q Q -> cov q st) ->
    (forall q b r, st = b :: r -> In q Q -> dle s q b \/ 0 <= cross b p q) ->
    (forall q b r, pop_nonleft st p = b :: r -> In q Q -> dle s q b \/ 0 <= cross b p q).
  Proof.
    induction st as [|b st IH]; intros Hd Hp Hc HP q b' r' E Hq; [discriminate|].
    destruct st as [|a r]; [eapply HP; eauto|].
    rewrite pop_cons2 in E. destruct (is_left_turn (orientation a b p)) eqn:El; [eapply HP; eauto|].
    apply left_turn_false in El.
    inversion Hd as [|? ? Hd' Hall]; subst.
    eapply IH; eauto.
    - intros x Hx. apply Hp. right; exact Hx.
    - intros q' Hq'. specialize (Hc q' Hq'). simpl in Hc. destruct Hc as [_ Hc]. exact Hc.
    - intros q' a' r'' Ea Hq'. inversion Ea; subst a' r''.
      destruct (dle_or_dlt s q' a Hs) as [Hle|Hlt]; [left; exact Hle|right].
      inversion Hall as [|? ? Hab _]; subst.
      apply (geo_A s a b p q' Hs); auto.
      + left; exact Hlt.
      + left. apply Hp. right; left; reflexivity.
      + specialize (Hc q' Hq'). simpl in Hc. destruct Hc as [Hc _]. exact Hc.
  Qed.

  (* after the pop loop the new point is strictly left of every pair of the remaining stack *)
  Lemma push_fop st p :
    desc st -> (forall x, In x st -> dlt s x p) -> all_triples st ->
    match st with b :: a :: _ => 0 < cross a b p | _ => True end ->
    fop (fun b a => 0 < cross a b p) st.
  Proof.
    intros Hd Hp Ht Htop.
    destruct st as [|b [|a r]]; [exact I|split; [constructor|exact I]|].
    destruct Ht as [Fb Ht]. inversion Hd as [|? ? Hd' Hall]; subst.
    assert (G1 : Forall (fun x => 0 < cross x b p) (a :: r)).
    { constructor; [exact Htop|].
      destruct Fb as [Fa _]. rewrite Forall_forall in *. intros x Hx.
      inversion Hd' as [|? ? _ Ha]; subst. rewrite Forall_forall in Ha.
      apply (geo_C1 s x a b p Hs); auto.
      - apply Hall. left; reflexivity.
      - apply Hp. left; reflexivity. }
    split; [exact G1|].
    pose proof (fop_and _ _ _ Fb (fop_of_sorted _ _ Hd')) as F.
    eapply fop_impl_in; [|exact F]. intros y x Hy Hx [H1 H2]. simpl in H1, H2.
    rewrite Forall_forall in G1, Hall.
    apply (geo_C2 s x y b p Hs); auto.
    apply Hp. left; reflexivity.
  Qed.

  Lemma cov_of_fop p st : fop (fun b a => 0 < cross a b p) st -> cov p st.
  Proof.
    induction st as [|b st IH]; [intros; exact I|]. intros [F1 F2].
    destruct st as [|a r]; [exact I|]. split; [|apply IH; exact F2].
    inversion F1; subst. lia.
  Qed.

  Lemma inv_push Q st p : inv Q st -> (forall q, In q Q -> dlt s q p) -> inv (p :: Q) (push st p).
  Proof.
    intros [Hd Ht Hc Hi Hne Htop Hbot] Hp.
    assert (Hps : forall x, In x st -> dlt s x p) by (intros x Hx; apply Hp, Hi, Hx).
    destruct (pop_suffix st p) as [l El].
    remember (pop_nonleft st p) as st' eqn:Est.
    assert (Hd' : desc st') by (unfold desc in *; rewrite El in Hd; eapply sorted_app_r; eauto).
    assert (Ht' : all_triples st') by (rewrite El in Ht; eapply all_triples_app_r; eauto).
    assert (Hc' : forall q, In q Q -> cov q st') by (intros q Hq; specialize (Hc q Hq); rewrite El in Hc; eapply cov_app_r; eauto).
    assert (Hi' : incl st' st) by (subst st'; apply pop_incl).
    assert (Hps' : forall x, In x st' -> dlt s x p) by (intros x Hx; apply Hps, Hi', Hx).
    assert (Hne' : st' <> []) by (subst st'; apply pop_nonempty; exact Hne).
    assert (Htop' : match st' with b :: a :: _ => 0 < cross a b p | _ => True end) by (subst st'; apply pop_top).
    assert (Hfr : forall q b r, st' = b :: r -> In q Q -> dle s q b \/ 0 <= cross b p q).
    { subst st'. apply pop_frontier; auto.
      intros q b r E Hq. left. subst st. apply (Htop q b Hq). }
    assert (Hfop : fop (fun b a => 0 < cross a b p) st') by (apply push_fop; auto).
    unfold push. rewrite <- Est.
    constructor.
    - constructor; [exact Hd'|]. apply Forall_forall. exact Hps'.
    - split; assumption.
    - intros q Hq. destruct st' as [|b r] eqn:Eb; [congruence|].
      change (0 <= cross b p q /\ cov q (b :: r)). split.
      + destruct Hq as [<-|Hq]; [rewrite cross_abb; lia|].
        destruct (Hfr q b r eq_refl Hq) as [Hle|Hok]; [|exact Hok].
        destruct r as [|a r'].
        * (* b is the bottom: q = b *)
          assert (q = b).
          { apply (dle_antisym s); auto. specialize (Hbot q b Hq).
            rewrite <- (pop_last st p b), <- Est in Hbot. exact Hbot. }
          subst q. unfold cross. lia.
        * inversion Hd' as [|? ? _ Hall]; subst. inversion Hall; subst.
          apply (geo_B s a b p q Hs); auto.
          -- apply Hps'. left; reflexivity.
          -- specialize (Hc' q Hq). simpl in Hc'. tauto.
      + destruct Hq as [<-|Hq]; [apply cov_of_fop; exact Hfop|apply Hc'; exact Hq].
    - intros x [<-|Hx]; [left; reflexivity|right; apply Hi, Hi', Hx].
    - discriminate.
    - intros q d [<-|Hq]; simpl; [right; reflexivity|left; apply Hp; exact Hq].
    - intros q d Hq.
      assert (El' : last (p :: st') d = last st d).
      { destruct st' as [|b r]; [congruence|]. change (last (p :: b :: r) d) with (last (b :: r) d).
        rewrite Est. apply pop_last. }
      rewrite El'. destruct Hq as [<-|Hq]; [|apply Hbot; exact Hq].
      destruct st as [|t r]; [congruence|].
      eapply dle_trans; [exact Hs|apply Hbot; apply Hi; left; reflexivity|].
      left. apply Hp. apply Hi. left; reflexivity.
  Qed.

  Lemma inv_fold l : forall Q st, inv Q st -> StronglySorted (dlt s) l ->
    (forall q y, In q Q -> In y l -> dlt s q y) -> inv (rev l ++ Q) (fold_left push l st).
  Proof.
    induction l as [|y l IH]; intros Q st Hi Hl Hq; [exact Hi|].
    inversion Hl as [|? ? Hl' Hall]; subst. rewrite Forall_forall in Hall.
    simpl. rewrite <- app_assoc. simpl. apply IH; auto.
    - apply inv_push; auto. intros q Iq. apply Hq; [exact Iq|left; reflexivity].
    - intros q z [<-|Iq] Iz; [apply Hall; exact Iz|apply Hq; [exact Iq|right; exact Iz]].
  Qed.

  Lemma inv_single x : inv [x] [x].
  Proof.
    constructor.
    - constructor; constructor.
    - split; exact I.
    - intros; exact I.
    - apply incl_refl.
    - discriminate.
    - intros q d [<-|[]]. right; reflexivity.
    - intros q d [<-|[]]. right; reflexivity.
  Qed.

  (* one chain over a strictly sorted non-empty list *)
  Theorem chain_rev_inv x l : StronglySorted (dlt s) (x :: l) -> inv (rev l ++ [x]) (chain_rev (x :: l)).
  Proof.
    intros H. inversion H as [|? ? Hl Hall]; subst. rewrite Forall_forall in Hall.
    unfold chain_rev. change (fold_left push (x :: l) []) with (fold_left push l [x]).
    apply inv_fold; auto; [apply inv_single|].
    intros q y [<-|[]] Hy. apply Hall; exact Hy.
  Qed.
End Chain.
