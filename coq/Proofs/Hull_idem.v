(* Property C13 - the hull depends only on the SET of points (order, multiplicity), and taking
   the hull of the hull's vertices gives the hull again (uniqueness of strict hull chains). *)
From Coq Require Import ZArith List Bool Lia Permutation Sorting.Sorted Arith.
From SF Require Import Base.GeomAST Model.Hull Proofs.Hull_proofs Proofs.Hull_chain Proofs.Hull_ring.
Import ListNotations.
Open Scope Z_scope.

Definition same_set (l l' : list pt) : Prop := forall x, In x l <-> In x l'.

Lemma has_2_distinct_intro ps a b : In a ps -> In b ps -> a <> b -> has_2_distinct ps = true.
Proof.
  intros Ha Hb Hab. destruct (has_2_distinct ps) eqn:E; [reflexivity|exfalso].
  destruct ps as [|p0 r]; [destruct Ha|].
  apply Hab. rewrite (has_2_distinct_false p0 r E a Ha), (has_2_distinct_false p0 r E b Hb). reflexivity.
Qed.

Lemma has_2_distinct_ext ps ps' : same_set ps ps' -> has_2_distinct ps = has_2_distinct ps'.
Proof.
  intros H. destruct (has_2_distinct ps) eqn:E.
  - apply has_2_distinct_true in E. destruct E as [a [b [Ha [Hb Hab]]]].
    symmetry. apply (has_2_distinct_intro ps' a b); auto; apply H; auto.
  - destruct (has_2_distinct ps') eqn:E'; [|reflexivity].
    apply has_2_distinct_true in E'. destruct E' as [a [b [Ha [Hb Hab]]]].
    rewrite (has_2_distinct_intro ps a b) in E; auto; apply H; auto.
Qed.

Lemma two_distinct_dedup_len sg l ps : sgn sg -> StronglySorted (dle sg) l -> same_set l ps ->
  has_2_distinct ps = true -> (2 <= length (dedup l))%nat.
Proof.
  intros Hs Hl Hel H2. apply has_2_distinct_true in H2. destruct H2 as [a [b [Ha [Hb Hab]]]].
  apply (two_distinct_len _ a b); auto; apply dedup_In, Hel; auto.
Qed.

Lemma monotone_chain_dedup ps : has_2_distinct ps = true ->
  monotone_chain ps = rev (chain_rev (dedup (sort ps))) ++ tl (rev (chain_rev (dedup (rev (sort ps))))).
Proof.
  intros H2. unfold monotone_chain, chain.
  rewrite (chain_rev_dedup (sort ps)), (chain_rev_dedup (rev (sort ps))); [reflexivity| |].
  - apply (two_distinct_dedup_len (-1) _ ps sgnm1); auto.
    + apply sorted_rev_flip, sort_sorted.
    + intros x. apply rev_sort_In.
  - apply (two_distinct_dedup_len 1 _ ps sgn1); auto.
    + apply sort_sorted.
    + intros x. apply sort_In.
Qed.

Lemma monotone_chain_ext ps ps' : same_set ps ps' -> has_2_distinct ps = true ->
  monotone_chain ps = monotone_chain ps'.
Proof.
  intros H H2. assert (H2' : has_2_distinct ps' = true) by (rewrite <- (has_2_distinct_ext ps ps' H); exact H2).
  rewrite (monotone_chain_dedup ps H2), (monotone_chain_dedup ps' H2').
  assert (E1 : dedup (sort ps) = dedup (sort ps')).
  { apply (strict_sorted_unique 1 sgn1).
    - apply dedup_sorted; [exact sgn1|apply sort_sorted].
    - apply dedup_sorted; [exact sgn1|apply sort_sorted].
    - intros x. rewrite !dedup_In, !sort_In. apply H. }
  assert (E2 : dedup (rev (sort ps)) = dedup (rev (sort ps'))).
  { apply (strict_sorted_unique (-1) sgnm1).
    - apply dedup_sorted; [exact sgnm1|apply sorted_rev_flip, sort_sorted].
    - apply dedup_sorted; [exact sgnm1|apply sorted_rev_flip, sort_sorted].
    - intros x. rewrite !dedup_In, !rev_sort_In. apply H. }
  rewrite E1, E2. reflexivity.
Qed.

(* the result depends only on the set of input points *)
Theorem hull_set_ext_lemma : forall ps ps', same_set ps ps' -> hull_pts ps = hull_pts ps'.
Proof.
  intros ps ps' H.
  destruct ps as [|p0 r]; destruct ps' as [|p0' r'].
  - reflexivity.
  - exfalso. apply (H p0'). left; reflexivity.
  - exfalso. apply (H p0). left; reflexivity.
  - unfold hull_pts. rewrite <- (has_2_distinct_ext _ _ H).
    destruct (has_2_distinct (p0 :: r)) eqn:H2; cbn [negb].
    + rewrite (monotone_chain_ext _ _ H H2). reflexivity.
    + f_equal. symmetry. apply (has_2_distinct_false p0 r H2). apply H. left; reflexivity.
Qed.

Theorem hull_perm_lemma : forall ps ps', Permutation ps ps' -> hull_pts ps = hull_pts ps'.
Proof.
  intros ps ps' Hp. apply hull_set_ext_lemma. intros x. split; intros Hx.
  - eapply Permutation_in; eauto.
  - eapply Permutation_in; [apply Permutation_sym|]; eauto.
Qed.

(* ------------------------------------------------------------------------------------------ *)
(* Uniqueness of a strictly convex chain between two given end points that leaves a point set
   on its left and uses only points of the set *)

Lemma geo_U sg c2 c1 M d1 : sgn sg ->
  dlt sg c2 c1 -> dlt sg c1 M -> dlt sg d1 c1 ->
  cross c1 M d1 = 0 -> 0 < cross c2 c1 M -> 0 <= cross c2 c1 d1 -> False.
Proof.
  intros Hs H1 H2 H3 E Ht Hc.
  destruct c2 as [ax ay], c1 as [bx b_y], M as [Mx My], d1 as [dx dy].
  dsgn Hs.
  - pose proof (T_par (Mx - bx) (My - b_y) (bx - dx) (b_y - dy) (bx - ax) (b_y - ay)) as T.
    unfold dlt, dv, lexpos, cross in *; cbn [fst snd] in *. lia.
  - pose proof (T_par (bx - Mx) (b_y - My) (dx - bx) (dy - b_y) (ax - bx) (ay - b_y)) as T.
    unfold dlt, dv, lexpos, cross in *; cbn [fst snd] in *. lia.
Qed.

Lemma desc_last_le sg top C d : sgn sg -> desc sg (top :: C) -> forall x, In x (top :: C) -> dle sg (last (top :: C) d) x.
Proof.
  intros Hs. revert top. induction C as [|c C IH]; intros top Hd x Hx.
  - destruct Hx as [<-|[]]. right; reflexivity.
  - inversion Hd as [|? ? Hd' Hall]; subst. rewrite Forall_forall in Hall.
    change (last (top :: c :: C) d) with (last (c :: C) d).
    destruct Hx as [<-|Hx]; [|apply IH; auto].
    eapply dle_trans; [exact Hs|apply (IH c Hd' c); left; reflexivity|].
    left. apply Hall. left; reflexivity.
Qed.

Lemma chain_unique sg (S : list pt) : sgn sg -> forall C D top,
  desc sg (top :: C) -> desc sg (top :: D) ->
  stk_turns (top :: C) -> stk_turns (top :: D) ->
  (forall d, last (top :: C) d = last (top :: D) d) ->
  (forall q, In q S -> cov q (top :: C)) -> (forall q, In q S -> cov q (top :: D)) ->
  incl C S -> incl D S -> C = D.
Proof.
  intros Hs. induction C as [|c1 C IH]; intros D top HdC HdD HtC HtD Hlast HcC HcD HiC HiD.
  - destruct D as [|d1 D]; [reflexivity|exfalso].
    specialize (Hlast top). simpl last at 1 in Hlast.
    inversion HdD as [|? ? HdD' Hall]; subst. rewrite Forall_forall in Hall.
    assert (In (last (top :: d1 :: D) top) (d1 :: D)).
    { change (last (top :: d1 :: D) top) with (last (d1 :: D) top). apply last_In. discriminate. }
    rewrite <- Hlast in H. eapply dlt_irrefl; [exact Hs|apply Hall; exact H].
  - destruct D as [|d1 D].
    { exfalso. specialize (Hlast top). simpl last at 2 in Hlast.
      inversion HdC as [|? ? HdC' Hall]; subst. rewrite Forall_forall in Hall.
      assert (In (last (top :: c1 :: C) top) (c1 :: C)).
      { change (last (top :: c1 :: C) top) with (last (c1 :: C) top). apply last_In. discriminate. }
      rewrite Hlast in H. eapply dlt_irrefl; [exact Hs|apply Hall; exact H]. }
    inversion HdC as [|? ? HdC' HallC]; subst. inversion HdD as [|? ? HdD' HallD]; subst.
    rewrite Forall_forall in HallC, HallD.
    assert (Hc1 : dlt sg c1 top) by (apply HallC; left; reflexivity).
    assert (Hd1 : dlt sg d1 top) by (apply HallD; left; reflexivity).
    assert (Ic1 : In c1 S) by (apply HiC; left; reflexivity).
    assert (Id1 : In d1 S) by (apply HiD; left; reflexivity).
    (* c1, top, d1 collinear *)
    assert (E0 : cross c1 top d1 = 0).
    { pose proof (HcC d1 Id1) as A. pose proof (HcD c1 Ic1) as B.
      change (cov d1 (top :: c1 :: C)) with (0 <= cross c1 top d1 /\ cov d1 (c1 :: C)) in A.
      change (cov c1 (top :: d1 :: D)) with (0 <= cross d1 top c1 /\ cov c1 (d1 :: D)) in B.
      destruct A as [A _], B as [B _]. unfold cross in *. lia. }
    assert (E : c1 = d1).
    { destruct (dlt_total sg c1 d1 Hs) as [Hlt|[Heq|Hlt]]; [exfalso| exact Heq |exfalso].
      - (* d1 is nearer to the top: D continues below d1 *)
        destruct D as [|d2 D'].
        + (* d1 is the common bottom, but c1 is before it *)
          pose proof (desc_last_le sg top (c1 :: C) top Hs HdC c1 (or_intror (or_introl eq_refl))) as Hle.
          rewrite Hlast in Hle. simpl in Hle.
          eapply dlt_irrefl; [exact Hs|eapply dlt_dle_trans; [exact Hs|exact Hlt|exact Hle]].
        + apply (geo_U sg d2 d1 top c1 Hs); auto.
          * inversion HdD' as [|? ? _ Ha]; subst. inversion Ha; subst. assumption.
          * unfold cross in *. lia.
          * rewrite stk_turns_cons3 in HtD. tauto.
          * pose proof (HcD c1 Ic1) as B.
            change (cov c1 (top :: d1 :: d2 :: D')) with (0 <= cross d1 top c1 /\ (0 <= cross d2 d1 c1 /\ cov c1 (d2 :: D'))) in B.
            tauto.
      - destruct C as [|c2 C'].
        + pose proof (desc_last_le sg top (d1 :: D) top Hs HdD d1 (or_intror (or_introl eq_refl))) as Hle.
          rewrite <- Hlast in Hle. simpl in Hle.
          eapply dlt_irrefl; [exact Hs|eapply dlt_dle_trans; [exact Hs|exact Hlt|exact Hle]].
        + apply (geo_U sg c2 c1 top d1 Hs); auto.
          * inversion HdC' as [|? ? _ Ha]; subst. inversion Ha; subst. assumption.
          * rewrite stk_turns_cons3 in HtC. tauto.
          * pose proof (HcC d1 Id1) as B.
            change (cov d1 (top :: c1 :: c2 :: C')) with (0 <= cross c1 top d1 /\ (0 <= cross c2 c1 d1 /\ cov d1 (c2 :: C'))) in B.
            tauto. }
    subst d1. f_equal.
    apply (IH D c1); auto.
    + destruct C as [|c2 C']; [exact I|]. rewrite stk_turns_cons3 in HtC. tauto.
    + destruct D as [|d2 D']; [exact I|]. rewrite stk_turns_cons3 in HtD. tauto.
    + intros q Hq. specialize (HcC q Hq). destruct C as [|c2 C']; [exact I|].
      change (cov q (top :: c1 :: c2 :: C')) with (0 <= cross c1 top q /\ cov q (c1 :: c2 :: C')) in HcC. tauto.
    + intros q Hq. specialize (HcD q Hq). destruct D as [|d2 D']; [exact I|].
      change (cov q (top :: c1 :: d2 :: D')) with (0 <= cross c1 top q /\ cov q (c1 :: d2 :: D')) in HcD. tauto.
    + intros x Hx. apply HiC. right; exact Hx.
    + intros x Hx. apply HiD. right; exact Hx.
Qed.

(* ------------------------------------------------------------------------------------------ *)
(* Idempotence *)

Lemma last_cons_snoc (top : pt) X b d : last (top :: X ++ [b]) d = b.
Proof. change (top :: X ++ [b]) with ((top :: X) ++ [b]). apply last_last. Qed.

Lemma idem_core ps : has_2_distinct ps = true -> monotone_chain (monotone_chain ps) = monotone_chain ps.
Proof.
  intros H2.
  destruct (ring_shape ps H2) as [m [M [Umid [Lmid [EV RF]]]]].
  set (V := monotone_chain ps) in *.
  pose proof (rf_lt _ _ _ _ _ RF) as HmM.
  assert (HV : forall x, In x V <-> In x (m :: Umid ++ M :: Lmid ++ [m])) by (intros x; rewrite EV, <- in_rev; tauto).
  assert (ImV : In m V) by (apply HV; left; reflexivity).
  assert (IMV : In M V) by (apply HV; right; apply in_or_app; right; left; reflexivity).
  assert (HVps : incl V ps) by (apply monotone_chain_incl).
  assert (H2V : has_2_distinct V = true).
  { apply (has_2_distinct_intro V m M); auto. intros ->. eapply dlt_irrefl; [exact sgn1|exact HmM]. }
  destruct (ring_shape V H2V) as [m' [M' [Umid' [Lmid' [EV' RF']]]]].
  assert (m' = m).
  { apply (dle_antisym 1 _ _ sgn1); [apply (rf_min _ _ _ _ _ RF'); exact ImV|].
    apply (rf_min _ _ _ _ _ RF). apply HVps. apply (rf_incl_U _ _ _ _ _ RF'). left; reflexivity. }
  assert (M' = M).
  { apply (dle_antisym 1 _ _ sgn1); [|apply (rf_max _ _ _ _ _ RF'); exact IMV].
    apply (rf_max _ _ _ _ _ RF). apply HVps. apply (rf_incl_L _ _ _ _ _ RF'). left; reflexivity. }
  subst m' M'.
  assert (EL : Lmid' ++ [m] = Lmid ++ [m]).
  { apply (chain_unique 1 V sgn1 _ _ M).
    - apply (rf_desc_L _ _ _ _ _ RF').
    - apply (rf_desc_L _ _ _ _ _ RF).
    - apply all_triples_turns, (rf_tri_L _ _ _ _ _ RF').
    - apply all_triples_turns, (rf_tri_L _ _ _ _ _ RF).
    - intros d. rewrite !last_cons_snoc. reflexivity.
    - apply (rf_cov_L _ _ _ _ _ RF').
    - intros q Hq. apply (rf_cov_L _ _ _ _ _ RF). apply HVps; exact Hq.
    - intros x Hx. apply (rf_incl_L _ _ _ _ _ RF'). right; exact Hx.
    - intros x Hx. apply HV. right. apply in_or_app. right. right. exact Hx. }
  assert (EU : Umid' ++ [M] = Umid ++ [M]).
  { apply (chain_unique (-1) V sgnm1 _ _ m).
    - apply (rf_desc_U _ _ _ _ _ RF').
    - apply (rf_desc_U _ _ _ _ _ RF).
    - apply all_triples_turns, (rf_tri_U _ _ _ _ _ RF').
    - apply all_triples_turns, (rf_tri_U _ _ _ _ _ RF).
    - intros d. rewrite !last_cons_snoc. reflexivity.
    - apply (rf_cov_U _ _ _ _ _ RF').
    - intros q Hq. apply (rf_cov_U _ _ _ _ _ RF). apply HVps; exact Hq.
    - intros x Hx. apply (rf_incl_U _ _ _ _ _ RF'). right; exact Hx.
    - intros x Hx. apply HV. right. apply in_app_or in Hx. apply in_or_app. destruct Hx as [Hx|[<-|[]]]; [left; exact Hx|right; left; reflexivity]. }
  apply app_inj_tail in EL. apply app_inj_tail in EU. destruct EL as [-> _], EU as [-> _].
  rewrite EV'. symmetry. exact EV.
Qed.

Lemma hull_pts_unfold ps : has_2_distinct ps = true ->
  hull_pts ps = match is_linear_hull (monotone_chain ps) with
                | LinPanic => HPanic
                | LinNo => HPoly (monotone_chain ps)
                | LinYes half => match half with h0 :: _ => HLine h0 (last half h0) | [] => HPanic end
                end.
Proof.
  intros H2. destruct ps as [|p0 r]; [discriminate|]. unfold hull_pts. rewrite H2. reflexivity.
Qed.

Theorem hull_idem_lemma : forall ps, hull_pts (result_pts (hull_pts ps)) = hull_pts ps.
Proof.
  intros ps. destruct ps as [|p0 r]; [reflexivity|].
  destruct (has_2_distinct (p0 :: r)) eqn:H2.
  2:{ assert (E : hull_pts (p0 :: r) = HPoint p0) by (unfold hull_pts; rewrite H2; reflexivity).
      rewrite E. reflexivity. }
  set (ps := p0 :: r) in *.
  destruct (ring_shape ps H2) as [m [M [Umid [Lmid [EV RF]]]]].
  pose proof (rf_lt _ _ _ _ _ RF) as HmM.
  (* the hull of the ring's vertex list is the hull of ps *)
  assert (Hcore : hull_pts (monotone_chain ps) = hull_pts ps).
  { pose proof (idem_core ps H2) as E.
    assert (H2V : has_2_distinct (monotone_chain ps) = true).
    { apply (has_2_distinct_intro _ m M).
      - rewrite EV, <- in_rev. left; reflexivity.
      - rewrite EV, <- in_rev. right. apply in_or_app. right; left; reflexivity.
      - intros ->. eapply dlt_irrefl; [exact sgn1|exact HmM]. }
    rewrite (hull_pts_unfold _ H2V), (hull_pts_unfold _ H2), E. reflexivity. }
  assert (Hcase : (Umid = [] /\ Lmid = []) \/ (Umid <> [] \/ Lmid <> [])).
  { destruct Umid; [destruct Lmid; [left; auto|right; right; discriminate]|right; left; discriminate]. }
  destruct Hcase as [[EU EL]|Hnd].
  - subst Umid Lmid. cbn [app rev] in EV.
    assert (E : hull_pts ps = HLine m M).
    { rewrite (hull_pts_unfold _ H2), EV.
      unfold is_linear_hull. cbn [length Nat.even Nat.div Nat.divmod fst nth_error firstn].
      rewrite pt_eqb_refl. reflexivity. }
    rewrite E. cbn [result_pts]. rewrite <- E, <- Hcore, EV.
    apply hull_set_ext_lemma. intros x. simpl. tauto.
  - destruct (hull_poly_ok ps m M Umid Lmid RF Hnd) as [E1 _].
    assert (E : hull_pts ps = HPoly (monotone_chain ps)).
    { rewrite (hull_pts_unfold _ H2), EV, E1. reflexivity. }
    rewrite E. cbn [result_pts]. rewrite <- E. exact Hcore.
Qed.
