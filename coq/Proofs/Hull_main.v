(* Property C13 - the readable corollaries of hull_correct, and the geometry-level statements. *)
From Coq Require Import ZArith List Bool Lia Permutation Sorting.Sorted Arith.
From SF Require Import Base.GeomAST Model.Hull Proofs.Hull_proofs Proofs.Hull_chain Proofs.Hull_ring Proofs.Hull_idem.
Import ListNotations.
Open Scope Z_scope.

Lemma hull_never_panics_lemma : forall ps, hull_pts ps <> HPanic.
Proof. intros ps E. pose proof (hull_correct_lemma ps) as H. rewrite E in H. discriminate. Qed.

(* every input point is on or to the left of every directed edge of the hull ring *)
Lemma hull_covers_lemma : forall ps ring p a b,
  hull_pts ps = HPoly ring -> In p ps -> In (a, b) (ring_edges ring) -> 0 <= cross a b p.
Proof.
  intros ps ring p a b E Hp He. pose proof (hull_correct_lemma ps) as H. rewrite E in H.
  unfold hull_ok in H. rewrite !andb_true_iff in H. destruct H as [_ H].
  rewrite forallb_forall in H. specialize (H p Hp). unfold covered_by in H.
  rewrite forallb_forall in H. specialize (H (a, b) He). unfold on_or_left in H. cbn [fst snd] in H.
  apply Z.leb_le. exact H.
Qed.
Lemma hull_covers_line_lemma : forall ps a b p,
  hull_pts ps = HLine a b -> In p ps -> on_segment a b p = true.
Proof.
  intros ps a b p E Hp. pose proof (hull_correct_lemma ps) as H. rewrite E in H.
  unfold hull_ok in H. rewrite !andb_true_iff in H. destruct H as [_ H].
  rewrite forallb_forall in H. apply H. exact Hp.
Qed.

(* consecutive triples, by position *)
Lemma strict_turns_nth l : strict_turns l = true ->
  forall i a b c, nth_error l i = Some a -> nth_error l (S i) = Some b -> nth_error l (S (S i)) = Some c ->
  0 < cross a b c.
Proof.
  induction l as [|x l IH]; intros H i a b c Ha Hb Hc; [destruct i; discriminate|].
  destruct l as [|y [|z l]]; try (destruct i as [|[|i]]; simpl in *; discriminate).
  rewrite strict_turns_cons3, andb_true_iff in H. destruct H as [H1 H2].
  destruct i as [|i].
  - simpl in Ha, Hb, Hc. inversion Ha; inversion Hb; inversion Hc; subst. apply Z.ltb_lt. exact H1.
  - apply (IH H2 i); assumption.
Qed.

Lemma hull_strict_lemma : forall ps ring, hull_pts ps = HPoly ring ->
  exists v0 v1 rest,
    ring = v0 :: v1 :: rest /\ last ring v0 = v0 /\ (4 <= length ring)%nat /\
    NoDup (removelast ring) /\
    (forall i a b c, nth_error (ring ++ [v1]) i = Some a -> nth_error (ring ++ [v1]) (S i) = Some b ->
                     nth_error (ring ++ [v1]) (S (S i)) = Some c -> 0 < cross a b c).
Proof.
  intros ps ring E. pose proof (hull_correct_lemma ps) as H. rewrite E in H.
  unfold hull_ok in H. rewrite !andb_true_iff in H. destruct H as [[H _] _].
  unfold strictly_convex_ring in H. destruct ring as [|v0 [|v1 rest]]; try discriminate.
  rewrite !andb_true_iff in H. destruct H as [[[H1 H2] H3] H4].
  exists v0, v1, rest. split; [reflexivity|]. split; [apply pt_eqb_eq; exact H2|].
  split; [apply Z.leb_le in H1; lia|]. split; [apply nodup_b_spec; exact H4|].
  apply strict_turns_nth. exact H3.
Qed.

Lemma hull_cases_lemma : forall ps,
  match hull_pts ps with
  | HNoPoints => ps = []
  | HPoint a => In a ps /\ forall q, In q ps -> q = a
  | HLine a b => a <> b /\ In a ps /\ In b ps /\ forall q, In q ps -> on_segment a b q = true
  | HPoly ring => strictly_convex_ring ring = true /\ incl ring ps
  | HPanic => False
  end.
Proof.
  intros ps. pose proof (hull_correct_lemma ps) as H. destruct (hull_pts ps) as [|a|a b|ring|]; unfold hull_ok in H.
  - destruct ps; [reflexivity|discriminate].
  - rewrite andb_true_iff in H. destruct H as [H1 H2]. split; [apply mem_In; exact H1|].
    intros q Hq. rewrite forallb_forall in H2. symmetry. apply pt_eqb_eq. apply H2; exact Hq.
  - rewrite !andb_true_iff in H. destruct H as [[[H1 H2] H3] H4].
    split; [apply pt_eqb_neq, negb_true_iff; exact H1|]. split; [apply mem_In; exact H2|].
    split; [apply mem_In; exact H3|]. rewrite forallb_forall in H4. exact H4.
  - rewrite !andb_true_iff in H. destruct H as [[H1 H2] _]. split; [exact H1|].
    intros v Hv. rewrite forallb_forall in H2. apply mem_In. apply H2; exact Hv.
  - discriminate.
Qed.

(* which case occurs is decided by the point set alone *)
Lemma hull_point_iff : forall ps a, hull_pts ps = HPoint a <-> (ps <> [] /\ forall q, In q ps -> q = a).
Proof.
  intros ps a. split.
  - intros E. pose proof (hull_cases_lemma ps) as H. rewrite E in H. destruct H as [H1 H2].
    split; [intros ->; destruct H1|exact H2].
  - intros [Hne Hall]. destruct ps as [|p0 r]; [congruence|].
    unfold hull_pts. destruct (has_2_distinct (p0 :: r)) eqn:H2.
    + apply has_2_distinct_true in H2. destruct H2 as [x [y [Hx [Hy Hxy]]]].
      exfalso. apply Hxy. rewrite (Hall x Hx), (Hall y Hy). reflexivity.
    + cbn [negb]. f_equal. apply Hall. left; reflexivity.
Qed.

(* minimality: a half plane (A x + B y <= C) that contains the points contains the hull's vertices;
   with convexity of half planes this is "contained in every convex set containing the points" *)
Lemma hull_minimal_lemma : forall ps A B C,
  (forall p, In p ps -> A * fst p + B * snd p <= C) ->
  forall v, In v (result_pts (hull_pts ps)) -> A * fst v + B * snd v <= C.
Proof. intros ps A B C H v Hv. apply H. apply hull_subset_lemma. exact Hv. Qed.

(* ------------------------------------------------------------------------------------------ *)
(* Geometry level *)

Lemma forallb_map_ext {A} (f g : A -> bool) (h : A -> A) l :
  (forall x, In x l -> f (h x) = g x) -> forallb f (map h l) = forallb g l.
Proof.
  induction l as [|x l IH]; intros H; [reflexivity|]. simpl. rewrite H by (left; reflexivity).
  rewrite IH; [reflexivity|]. intros y Hy. apply H. right; exact Hy.
Qed.

Lemma force_point_empty (z : Z) c p : point_empty (force_point z c p) = point_empty p.
Proof. destruct p as [ct [v|]]; reflexivity. Qed.
Lemma force_line_empty (z : Z) c l : line_empty (force_line z c l) = line_empty l.
Proof. destruct l as [ct [|v vs]]; reflexivity. Qed.
Lemma force_poly_empty (z : Z) c p : poly_empty (force_poly z c p) = poly_empty p.
Proof. destruct p as [ct [|r rs]]; reflexivity. Qed.

Lemma force_geom_empty (z : Z) c g : is_empty (force_geom z c g) = is_empty g.
Proof.
  induction g using geomT_ind'; simpl.
  - apply force_point_empty.
  - apply force_line_empty.
  - apply force_poly_empty.
  - apply forallb_map_ext. intros; apply force_point_empty.
  - apply forallb_map_ext. intros; apply force_line_empty.
  - apply forallb_map_ext. intros; apply force_poly_empty.
  - apply forallb_map_ext. intros x Hx. rewrite Forall_forall in H. apply H; exact Hx.
Qed.

Lemma force_vtx_idem (z : Z) old v : force_vtx z XY XY (force_vtx z old XY v) = force_vtx z old XY v.
Proof. reflexivity. Qed.
Lemma force_point_idem (z : Z) p : force_point z XY (force_point z XY p) = force_point z XY p.
Proof. destruct p as [ct [v|]]; reflexivity. Qed.
Lemma force_line_idem (z : Z) l : force_line z XY (force_line z XY l) = force_line z XY l.
Proof. destruct l as [ct vs]. simpl. rewrite map_map. reflexivity. Qed.
Lemma map_idem {A} (f : A -> A) l : (forall x, In x l -> f (f x) = f x) -> map f (map f l) = map f l.
Proof. intros H. rewrite map_map. apply map_ext_in. exact H. Qed.
Lemma force_poly_idem (z : Z) p : force_poly z XY (force_poly z XY p) = force_poly z XY p.
Proof. destruct p as [ct rs]. simpl. f_equal. apply map_idem. intros; apply force_line_idem. Qed.
Lemma force_geom_idem (z : Z) g : force_geom z XY (force_geom z XY g) = force_geom z XY g.
Proof.
  induction g using geomT_ind'; simpl; f_equal.
  - apply force_point_idem.
  - apply force_line_idem.
  - apply force_poly_idem.
  - apply map_idem. intros; apply force_point_idem.
  - apply map_idem. intros; apply force_line_idem.
  - apply map_idem. intros; apply force_poly_idem.
  - apply map_idem. intros x Hx. rewrite Forall_forall in H. apply H; exact Hx.
Qed.

Lemma xy_vtx p : xy_of (vtx_xy p) = p.
Proof. destruct p; reflexivity. Qed.
Lemma map_xy_vtx l : map xy_of (map vtx_xy l) = l.
Proof. rewrite map_map. rewrite <- (map_id l) at 2. apply map_ext. apply xy_vtx. Qed.

Lemma result_of_result_geom r : r <> HPanic ->
  exists out, result_geom r = Some out /\ result_of_geom out = Some r.
Proof.
  destruct r as [|p|a b|ring|]; intros H; try congruence; eexists; (split; [reflexivity|]); simpl.
  - reflexivity.
  - rewrite xy_vtx. reflexivity.
  - rewrite !xy_vtx. reflexivity.
  - unfold line_pts. simpl. rewrite map_xy_vtx. reflexivity.
Qed.

(* ConvexHull never panics and its result satisfies the statement of the property *)
Theorem convex_hull_correct_lemma : forall g, exists out, convex_hull g = Some out /\ hull_geom_ok g out = true.
Proof.
  intros g. unfold convex_hull, hull_geom_ok. destruct (is_empty g) eqn:E.
  - eexists. split; [reflexivity|]. rewrite force_geom_empty. exact E.
  - destruct (result_of_result_geom (hull_pts (point_set g)) (hull_never_panics_lemma _)) as [out [E1 E2]].
    exists out. split; [exact E1|]. rewrite E2. apply hull_correct_lemma.
Qed.

Lemma point_set_result r out : result_geom r = Some out -> point_set out = result_pts r.
Proof.
  destruct r as [|p|a b|ring|]; simpl; intros E; inversion E; subst; simpl; try reflexivity.
  - unfold point_pts. simpl. rewrite xy_vtx. reflexivity.
  - unfold line_pts. simpl. rewrite !xy_vtx. reflexivity.
  - unfold poly_pts, line_pts. simpl. apply map_xy_vtx.
Qed.

(* taking the hull again changes nothing *)
Theorem convex_hull_idem_lemma : forall g out, convex_hull g = Some out -> convex_hull out = Some out.
Proof.
  intros g out. unfold convex_hull at 1. destruct (is_empty g) eqn:E.
  - intros H. inversion H; subst. unfold convex_hull. rewrite force_geom_empty, E, force_geom_idem. reflexivity.
  - intros H. pose proof (point_set_result _ _ H) as Hps.
    pose proof (hull_idem_lemma (point_set g)) as Hi.
    unfold convex_hull.
    destruct (hull_pts (point_set g)) as [|p|a b|ring|] eqn:Er; simpl in H; inversion H; subst; clear H;
      cbn [result_pts] in Hi, Hps.
    + reflexivity.
    + assert (Ee : is_empty (GPoint (MkPoint XY (Some (vtx_xy p)))) = false) by reflexivity.
      rewrite Ee, Hps, Hi. reflexivity.
    + assert (Ee : is_empty (GLine (MkLine XY [vtx_xy a; vtx_xy b])) = false) by reflexivity.
      rewrite Ee, Hps, Hi. reflexivity.
    + pose proof (hull_cases_lemma (point_set g)) as Hc. rewrite Er in Hc.
      assert (Ee : is_empty (GPoly (MkPoly XY [MkLine XY (map vtx_xy ring)])) = false) by reflexivity.
      rewrite Ee, Hps, Hi. reflexivity.
Qed.

(* the result depends only on the set of control points the hull reads *)
Theorem convex_hull_set_ext_lemma : forall g g',
  is_empty g = false -> is_empty g' = false -> same_set (point_set g) (point_set g') ->
  convex_hull g = convex_hull g'.
Proof.
  intros g g' E E' H. unfold convex_hull. rewrite E, E'. rewrite (hull_set_ext_lemma _ _ H). reflexivity.
Qed.

(* ------------------------------------------------------------------------------------------ *)
(* Which case occurs is decided by the geometry of the point set *)

Definition all_collinear (ps : list pt) : Prop := forall p q r, In p ps -> In q ps -> In r ps -> cross p q r = 0.

(* two vectors parallel to a non-zero vector are parallel *)
Lemma par_par dx dy ux uy vx vy :
  (dx <> 0 \/ dy <> 0) -> dx * uy - dy * ux = 0 -> dx * vy - dy * vx = 0 -> ux * vy - uy * vx = 0.
Proof.
  intros Hd Hu Hv.
  assert (E1 : dx * (ux * vy - uy * vx) = 0) by (replace (dx * (ux * vy - uy * vx)) with (ux * (dx * vy - dy * vx) - vx * (dx * uy - dy * ux)) by ring; rewrite Hu, Hv; ring).
  assert (E2 : dy * (ux * vy - uy * vx) = 0) by (replace (dy * (ux * vy - uy * vx)) with (uy * (dx * vy - dy * vx) - vy * (dx * uy - dy * ux)) by ring; rewrite Hu, Hv; ring).
  destruct Hd as [Hd|Hd]; [apply Z.mul_eq_0 in E1|apply Z.mul_eq_0 in E2]; tauto.
Qed.

Lemma collinear3 a b p q r : a <> b ->
  cross a b p = 0 -> cross a b q = 0 -> cross a b r = 0 -> cross p q r = 0.
Proof.
  intros Hab Hp Hq Hr.
  destruct a as [ax ay], b as [bx b_y], p as [px py], q as [qx qy], r as [rx ry].
  unfold cross in *. cbn [fst snd] in *.
  assert (Hd : bx - ax <> 0 \/ b_y - ay <> 0).
  { destruct (Z.eq_dec bx ax) as [E1|E1]; [destruct (Z.eq_dec b_y ay) as [E2|E2]|];
      [subst; exfalso; apply Hab; reflexivity|right; lia|left; lia]. }
  (* vectors from a *)
  pose proof (par_par (bx - ax) (b_y - ay) (px - ax) (py - ay) (qx - ax) (qy - ay) Hd) as A.
  pose proof (par_par (bx - ax) (b_y - ay) (qx - ax) (qy - ay) (rx - ax) (ry - ay) Hd) as B.
  pose proof (par_par (bx - ax) (b_y - ay) (px - ax) (py - ay) (rx - ax) (ry - ay) Hd) as C.
  lia.
Qed.

Lemma on_segment_cross a b p : on_segment a b p = true -> cross a b p = 0.
Proof. unfold on_segment. rewrite !andb_true_iff. intros [[[[H _] _] _] _]. apply Z.eqb_eq. exact H. Qed.

Lemma convex_ring_turn ring : strictly_convex_ring ring = true ->
  exists a b c, In a ring /\ In b ring /\ In c ring /\ 0 < cross a b c.
Proof.
  unfold strictly_convex_ring. destruct ring as [|v0 [|v1 rest]]; try discriminate.
  rewrite !andb_true_iff. intros [[[Hlen _] Hst] _].
  destruct rest as [|v2 rest']; [simpl in Hlen; apply Z.leb_le in Hlen; lia|].
  change ((v0 :: v1 :: v2 :: rest') ++ [v1]) with (v0 :: v1 :: v2 :: (rest' ++ [v1])) in Hst.
  rewrite strict_turns_cons3, andb_true_iff in Hst. destruct Hst as [Hst _]. apply Z.ltb_lt in Hst.
  exists v0, v1, v2. simpl. tauto.
Qed.

(* two-point line exactly when there are two different points and all points are collinear;
   polygon exactly when they are not all collinear *)
Theorem hull_line_iff : forall ps,
  (exists a b, hull_pts ps = HLine a b) <-> ((exists x y, In x ps /\ In y ps /\ x <> y) /\ all_collinear ps).
Proof.
  intros ps. pose proof (hull_cases_lemma ps) as Hc. split.
  - intros [a [b E]]. rewrite E in Hc. destruct Hc as [Hab [Ia [Ib Hall]]]. split; [exists a, b; auto|].
    intros p q r Hp Hq Hr. apply (collinear3 a b); auto; apply on_segment_cross, Hall; assumption.
  - intros [[x [y [Hx [Hy Hxy]]]] Hcol].
    destruct (hull_pts ps) as [|a|a b|ring|] eqn:E.
    + subst ps. destruct Hx.
    + destruct Hc as [_ Hall]. exfalso. apply Hxy. rewrite (Hall x Hx), (Hall y Hy). reflexivity.
    + exists a, b. reflexivity.
    + destruct Hc as [Hsc Hincl]. destruct (convex_ring_turn ring Hsc) as [a [b [c [Ia [Ib [Ic Ht]]]]]].
      rewrite (Hcol a b c) in Ht by (apply Hincl; assumption). lia.
    + destruct Hc.
Qed.

Theorem hull_polygon_iff : forall ps, (exists ring, hull_pts ps = HPoly ring) <-> ~ all_collinear ps.
Proof.
  intros ps. pose proof (hull_cases_lemma ps) as Hc. split.
  - intros [ring E] Hcol. rewrite E in Hc. destruct Hc as [Hsc Hincl].
    destruct (convex_ring_turn ring Hsc) as [a [b [c [Ia [Ib [Ic Ht]]]]]].
    rewrite (Hcol a b c) in Ht by (apply Hincl; assumption). lia.
  - intros Hn. destruct (hull_pts ps) as [|a|a b|ring|] eqn:E.
    + exfalso. apply Hn. subst ps. intros p q r [].
    + exfalso. apply Hn. destruct Hc as [_ Hall]. intros p q r Hp Hq Hr.
      rewrite (Hall p Hp), (Hall q Hq). apply cross_aab.
    + exfalso. apply Hn. destruct Hc as [Hab [_ [_ Hall]]]. intros p q r Hp Hq Hr.
      apply (collinear3 a b); auto; apply on_segment_cross, Hall; assumption.
    + exists ring; reflexivity.
    + destruct Hc.
Qed.
