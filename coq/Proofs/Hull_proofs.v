(* Property C13 - proofs about Model/Hull.v. *)
From Coq Require Import ZArith List Bool Lia Permutation Sorting.Sorted.
From SF Require Import Base.GeomAST Model.Hull.
Import ListNotations.
Open Scope Z_scope.

(* ------------------------------------------------------------------------------------------ *)
(* Basic reflection *)

Lemma pt_eqb_eq a b : pt_eqb a b = true <-> a = b.
Proof.
  destruct a as [ax ay], b as [bx b_y]; unfold pt_eqb; simpl.
  rewrite andb_true_iff, !Z.eqb_eq. split; [intros [-> ->]; reflexivity|intros H; inversion H; auto].
Qed.
Lemma pt_eqb_refl a : pt_eqb a a = true.
Proof. apply pt_eqb_eq; reflexivity. Qed.
Lemma pt_eqb_neq a b : pt_eqb a b = false <-> a <> b.
Proof.
  split; intros H.
  - intros E. apply pt_eqb_eq in E. congruence.
  - destruct (pt_eqb a b) eqn:E; auto. apply pt_eqb_eq in E. contradiction.
Qed.
Lemma pt_eq_dec (a b : pt) : {a = b} + {a <> b}.
Proof. destruct (pt_eqb a b) eqn:E; [left; apply pt_eqb_eq; auto|right; apply pt_eqb_neq; auto]. Qed.

Lemma mem_In p l : mem p l = true <-> In p l.
Proof.
  unfold mem. rewrite existsb_exists. split.
  - intros [x [Hin E]]. apply pt_eqb_eq in E. subst; auto.
  - intros H. exists p. split; auto. apply pt_eqb_refl.
Qed.

(* ------------------------------------------------------------------------------------------ *)
(* hull_subset: every vertex of the result is one of the input points *)

Lemma pop_incl st p : incl (pop_nonleft st p) st.
Proof.
  induction st as [|b st IH]; simpl; [apply incl_refl|].
  destruct st as [|a st']; [apply incl_refl|].
  destruct (is_left_turn _); [apply incl_refl|].
  apply incl_tl. exact IH.
Qed.

Lemma fold_push_incl l : forall st, incl (fold_left push l st) (l ++ st).
Proof.
  induction l as [|p l IH]; intros st; simpl; [apply incl_refl|].
  intros x Hx. apply IH in Hx. apply in_app_or in Hx. destruct Hx as [Hx|Hx].
  - right. apply in_or_app. auto.
  - unfold push in Hx. destruct Hx as [-> |Hx]; [left; reflexivity|].
    right. apply in_or_app. right. eapply pop_incl; eauto.
Qed.

Lemma chain_incl l : incl (chain l) l.
Proof.
  unfold chain, chain_rev. intros x Hx. apply in_rev in Hx.
  apply fold_push_incl in Hx. rewrite app_nil_r in Hx. exact Hx.
Qed.

Lemma insert_In x p l : In x (insert p l) <-> x = p \/ In x l.
Proof.
  induction l as [|y l IH]; simpl.
  - split; intros [H|H]; auto; contradiction.
  - destruct (pt_less p y); simpl; [split; intros [H|H]; auto|].
    rewrite IH. split; intros H; tauto.
Qed.
Lemma sort_In x l : In x (sort l) <-> In x l.
Proof.
  induction l as [|y l IH]; simpl; [tauto|].
  rewrite insert_In, IH. split; intros [H|H]; auto.
Qed.

Lemma tl_incl {A} (l : list A) : incl (tl l) l.
Proof. destruct l; simpl; [apply incl_refl|apply incl_tl, incl_refl]. Qed.

Lemma monotone_chain_incl pts : incl (monotone_chain pts) pts.
Proof.
  unfold monotone_chain. intros x Hx. apply in_app_or in Hx. destruct Hx as [Hx|Hx].
  - apply chain_incl in Hx. rewrite sort_In in Hx. exact Hx.
  - apply tl_incl in Hx. apply chain_incl in Hx. apply in_rev in Hx. rewrite sort_In in Hx. exact Hx.
Qed.

Lemma firstn_incl {A} n (l : list A) : incl (firstn n l) l.
Proof.
  revert l; induction n; intros l; simpl; [intros x []|].
  destruct l; [apply incl_refl|]. intros x [-> |H]; [left; auto|right; apply IHn; auto].
Qed.

Lemma last_In {A} (l : list A) d : l <> [] -> In (last l d) l.
Proof.
  induction l as [|x l IH]; [congruence|]. intros _. destruct l as [|y l]; [left; reflexivity|].
  right. apply IH. discriminate.
Qed.

Lemma hull_subset_lemma : forall pts v, In v (result_pts (hull_pts pts)) -> In v pts.
Proof.
  intros pts v. unfold hull_pts. destruct pts as [|p0 r]; [simpl; tauto|].
  destruct (negb (has_2_distinct (p0 :: r))).
  - simpl. intros [<-|[]]. left; reflexivity.
  - remember (monotone_chain (p0 :: r)) as hull eqn:Eh.
    assert (Hinc : incl hull (p0 :: r)) by (subst; apply monotone_chain_incl).
    unfold is_linear_hull. destruct (Nat.even (length hull)).
    + simpl. intros H. apply Hinc; auto.
    + destruct (Nat.div (length hull) 2) as [|i1] eqn:Ei; [simpl; tauto|].
      destruct (nth_error hull i1); [|simpl; tauto].
      destruct (nth_error hull (S (S i1))); [|simpl; tauto].
      destruct (pt_eqb p p1); [|simpl; intros H; apply Hinc; auto].
      destruct (firstn (S (S i1)) hull) as [|h0 half] eqn:Ef; [simpl; tauto|].
      assert (Hf : incl (h0 :: half) hull) by (rewrite <- Ef; apply firstn_incl).
      unfold result_pts. intros Hv.
      destruct Hv as [Hv|Hv]; [subst v; apply Hinc, Hf; left; reflexivity|].
      destruct Hv as [Hv|[]]. subst v. apply Hinc, Hf. apply last_In. discriminate.
Qed.

(* ------------------------------------------------------------------------------------------ *)
(* The lexicographic order, in both directions: s = 1 is xy.go:Less, s = -1 its converse (the
   order in which the upper chain meets the points). *)

Definition lexpos (u : pt) : Prop := 0 < fst u \/ (fst u = 0 /\ 0 < snd u).
Definition dv (s : Z) (a b : pt) : pt := (s * (fst b - fst a), s * (snd b - snd a)).
Definition dlt (s : Z) (a b : pt) : Prop := lexpos (dv s a b).
Definition dle (s : Z) (a b : pt) : Prop := dlt s a b \/ a = b.
Definition sgn (s : Z) : Prop := s = 1 \/ s = -1.

Ltac dsgn H := destruct H as [-> | ->].
Ltac dpt := repeat match goal with p : pt |- _ => destruct p as [? ?] end.
Ltac ord_tac := unfold dle, dlt, dv, lexpos in *; cbn [fst snd] in *; lia.

Lemma dlt_irrefl s a : sgn s -> ~ dlt s a a.
Proof. intros Hs; dsgn Hs; dpt; ord_tac. Qed.
Lemma dlt_trans s a b c : sgn s -> dlt s a b -> dlt s b c -> dlt s a c.
Proof. intros Hs; dsgn Hs; dpt; ord_tac. Qed.
Lemma dlt_asym s a b : sgn s -> dlt s a b -> dlt s b a -> False.
Proof. intros Hs; dsgn Hs; dpt; ord_tac. Qed.
Lemma dlt_total s a b : sgn s -> dlt s a b \/ a = b \/ dlt s b a.
Proof.
  intros Hs. destruct a as [ax ay], b as [bx b_y].
  destruct (Z.lt_trichotomy ax bx) as [H|[H|H]]; destruct (Z.lt_trichotomy ay b_y) as [H'|[H'|H']];
    dsgn Hs; unfold dlt, dv, lexpos; cbn [fst snd]; subst; try (left; lia); try (right; right; lia);
    right; left; reflexivity.
Qed.
Lemma dle_refl s a : dle s a a.
Proof. right; reflexivity. Qed.
Lemma dle_trans s a b c : sgn s -> dle s a b -> dle s b c -> dle s a c.
Proof.
  intros Hs [H1| ->] [H2| ->]; try (left; assumption); [left; eapply dlt_trans; eauto|right; reflexivity].
Qed.
Lemma dle_antisym s a b : sgn s -> dle s a b -> dle s b a -> a = b.
Proof. intros Hs [H1| ->] [H2|H2]; auto. exfalso; eapply dlt_asym; eauto. Qed.
Lemma dlt_dle_trans s a b c : sgn s -> dlt s a b -> dle s b c -> dlt s a c.
Proof. intros Hs H1 [H2| ->]; auto. eapply dlt_trans; eauto. Qed.
Lemma dle_dlt_trans s a b c : sgn s -> dle s a b -> dlt s b c -> dlt s a c.
Proof. intros Hs [H1| ->] H2; auto. eapply dlt_trans; eauto. Qed.
Lemma dle_or_dlt s a b : sgn s -> dle s a b \/ dlt s b a.
Proof. intros Hs. destruct (dlt_total s a b Hs) as [H|[H|H]]; [left; left|left; right|right]; auto. Qed.
Lemma dlt_flip a b : dlt (-1) a b <-> dlt 1 b a.
Proof. dpt; ord_tac. Qed.
Lemma dle_flip a b : dle (-1) a b <-> dle 1 b a.
Proof. unfold dle. rewrite dlt_flip. split; intros [H|H]; auto. Qed.

Lemma pt_less_spec a b : pt_less a b = true <-> dlt 1 a b.
Proof.
  destruct a as [ax ay], b as [bx b_y]. unfold pt_less, dlt, dv, lexpos; cbn [fst snd].
  destruct (ax =? bx) eqn:E; cbn [negb].
  - apply Z.eqb_eq in E. rewrite Z.ltb_lt. lia.
  - apply Z.eqb_neq in E. rewrite Z.ltb_lt. lia.
Qed.
Lemma pt_less_false a b : pt_less a b = false <-> dle 1 b a.
Proof.
  split; intros H.
  - destruct (dle_or_dlt 1 b a (or_introl eq_refl)) as [H'|H']; auto.
    apply pt_less_spec in H'. congruence.
  - destruct (pt_less a b) eqn:E; auto. apply pt_less_spec in E.
    destruct H as [H| ->]; exfalso.
    + eapply dlt_asym; eauto. left; reflexivity.
    + eapply dlt_irrefl; eauto. left; reflexivity.
Qed.

(* ------------------------------------------------------------------------------------------ *)
(* Sorting: the result is a sorted permutation, and there is only one *)

Lemma insert_perm p l : Permutation (insert p l) (p :: l).
Proof.
  induction l as [|x l IH]; simpl; [reflexivity|].
  destruct (pt_less p x); [reflexivity|].
  rewrite IH. apply perm_swap.
Qed.
Lemma sort_perm l : Permutation (sort l) l.
Proof.
  induction l as [|x l IH]; simpl; [reflexivity|].
  rewrite insert_perm. constructor. exact IH.
Qed.

Lemma insert_sorted p l : StronglySorted (dle 1) l -> StronglySorted (dle 1) (insert p l).
Proof.
  induction l as [|x l IH]; intros Hs; simpl.
  - constructor; constructor.
  - inversion Hs as [|? ? Hs' Hall]; subst.
    destruct (pt_less p x) eqn:E.
    + apply pt_less_spec in E. constructor; [exact Hs|].
      constructor; [left; exact E|].
      eapply Forall_impl; [|exact Hall]. intros y Hy. eapply dle_trans; [left; reflexivity|left; exact E|exact Hy].
    + apply pt_less_false in E. constructor; [apply IH; exact Hs'|].
      apply Forall_forall. intros y Hy. apply insert_In in Hy. destruct Hy as [-> |Hy]; [exact E|].
      rewrite Forall_forall in Hall. apply Hall; exact Hy.
Qed.
Lemma sort_sorted l : StronglySorted (dle 1) (sort l).
Proof. induction l; simpl; [constructor|apply insert_sorted; assumption]. Qed.

(* a strictly sorted list is determined by its set of elements *)
Lemma strict_sorted_unique s : sgn s -> forall l1 l2,
  StronglySorted (dlt s) l1 -> StronglySorted (dlt s) l2 ->
  (forall x, In x l1 <-> In x l2) -> l1 = l2.
Proof.
  intros Hs. induction l1 as [|a l1 IH]; intros l2 H1 H2 Hin.
  - destruct l2 as [|b l2]; auto. exfalso. apply (Hin b). left; reflexivity.
  - destruct l2 as [|b l2]; [exfalso; apply (Hin a); left; reflexivity|].
    inversion H1 as [|? ? H1' A1]; inversion H2 as [|? ? H2' A2]; subst.
    rewrite Forall_forall in A1, A2.
    assert (a = b).
    { destruct (proj1 (Hin a) (or_introl eq_refl)) as [E|E]; [auto|].
      destruct (proj2 (Hin b) (or_introl eq_refl)) as [E'|E']; [auto|].
      exfalso. eapply dlt_asym; [exact Hs|apply A2; exact E|apply A1; exact E']. }
    subst b. f_equal. apply IH; auto.
    intros x. split; intros Hx.
    + destruct (proj1 (Hin x) (or_intror Hx)) as [E|E]; auto. subst x.
      exfalso. eapply dlt_irrefl; [exact Hs|apply A1; exact Hx].
    + destruct (proj2 (Hin x) (or_intror Hx)) as [E|E]; auto. subst x.
      exfalso. eapply dlt_irrefl; [exact Hs|apply A2; exact Hx].
Qed.

(* a weakly sorted list is determined by its multiset *)
Lemma sorted_perm_unique s : sgn s -> forall l1 l2,
  StronglySorted (dle s) l1 -> StronglySorted (dle s) l2 -> Permutation l1 l2 -> l1 = l2.
Proof.
  intros Hs. induction l1 as [|a l1 IH]; intros l2 H1 H2 Hp.
  - apply Permutation_nil in Hp. auto.
  - destruct l2 as [|b l2]; [apply Permutation_sym, Permutation_nil in Hp; discriminate|].
    inversion H1 as [|? ? H1' A1]; inversion H2 as [|? ? H2' A2]; subst.
    rewrite Forall_forall in A1, A2.
    assert (a = b).
    { assert (Ia : In a (b :: l2)) by (eapply Permutation_in; [exact Hp|left; reflexivity]).
      assert (Ib : In b (a :: l1)) by (eapply Permutation_in; [apply Permutation_sym; exact Hp|left; reflexivity]).
      destruct Ia as [E|E]; [auto|]. destruct Ib as [E'|E']; [auto|].
      apply (dle_antisym s); auto. }
    subst b. f_equal. apply IH; auto. eapply Permutation_cons_inv; eauto.
Qed.

(* sort.Slice may return any sorted permutation: there is exactly one *)
Lemma sort_unique l l' : Permutation l l' -> StronglySorted (dle 1) l' -> l' = sort l.
Proof.
  intros Hp Hs. apply (sorted_perm_unique 1); [left; reflexivity|exact Hs|apply sort_sorted|].
  rewrite <- Hp. symmetry. apply sort_perm.
Qed.
Lemma sort_perm_eq l l' : Permutation l l' -> sort l = sort l'.
Proof.
  intros Hp. apply (sorted_perm_unique 1); [left; reflexivity|apply sort_sorted|apply sort_sorted|].
  rewrite !sort_perm. exact Hp.
Qed.

Lemma StronglySorted_rev {A} (R : A -> A -> Prop) l :
  StronglySorted R l -> StronglySorted (fun x y => R y x) (rev l).
Proof.
  induction 1 as [|a l Hs IH Hall]; simpl; [constructor|].
  rewrite Forall_forall in Hall.
  assert (G : forall l', StronglySorted (fun x y => R y x) l' -> (forall y, In y l' -> R a y) ->
              StronglySorted (fun x y => R y x) (l' ++ [a])).
  { induction l' as [|z l' IH']; intros Hs' Hy; simpl; [constructor; constructor|].
    inversion Hs' as [|? ? Hs'' Hz]; subst. constructor.
    - apply IH'; auto. intros y Iy. apply Hy. right; exact Iy.
    - apply Forall_forall. intros y Iy. apply in_app_or in Iy. destruct Iy as [Iy|[<-|[]]].
      + rewrite Forall_forall in Hz. apply Hz; exact Iy.
      + apply Hy. left; reflexivity. }
  apply G; auto. intros y Iy. apply Hall. apply in_rev. exact Iy.
Qed.

Lemma sorted_rev_flip l : StronglySorted (dle 1) l -> StronglySorted (dle (-1)) (rev l).
Proof.
  intros H. apply StronglySorted_rev in H.
  induction H as [|a l' Hs IH Hall]; constructor; auto.
  eapply Forall_impl; [|exact Hall]. intros y Hy. apply dle_flip. exact Hy.
Qed.

(* ------------------------------------------------------------------------------------------ *)
(* Removing adjacent duplicates *)

Fixpoint dedup (l : list pt) : list pt :=
  match l with
  | a :: ((b :: _) as t) => if pt_eqb a b then dedup t else a :: dedup t
  | _ => l
  end.

Lemma dedup_In x l : In x (dedup l) <-> In x l.
Proof.
  induction l as [|a l IH]; [simpl; tauto|].
  destruct l as [|b l]; [simpl; tauto|].
  change (dedup (a :: b :: l)) with (if pt_eqb a b then dedup (b :: l) else a :: dedup (b :: l)).
  destruct (pt_eqb a b) eqn:E.
  - apply pt_eqb_eq in E. subst b. rewrite IH. simpl. tauto.
  - simpl In at 1. rewrite IH. simpl. tauto.
Qed.

Lemma dedup_sorted s l : sgn s -> StronglySorted (dle s) l -> StronglySorted (dlt s) (dedup l).
Proof.
  intros Hs. induction l as [|a l IH]; intros H; [constructor|].
  destruct l as [|b l]; [constructor; constructor|].
  change (dedup (a :: b :: l)) with (if pt_eqb a b then dedup (b :: l) else a :: dedup (b :: l)).
  inversion H as [|? ? H' Hall]; subst.
  destruct (pt_eqb a b) eqn:E; [apply IH; exact H'|].
  apply pt_eqb_neq in E. constructor; [apply IH; exact H'|].
  apply Forall_forall. intros y Hy. apply (proj1 (dedup_In _ _)) in Hy.
  inversion Hall as [|? ? Hab Hall']; subst.
  assert (Hlt : dlt s a b) by (destruct Hab as [Hab|Hab]; [exact Hab|contradiction]).
  destruct Hy as [<-|Hy]; [exact Hlt|].
  inversion H' as [|? ? _ Hb]; subst. rewrite Forall_forall in Hb.
  eapply dlt_dle_trans; eauto.
Qed.

Lemma dedup_hd l d : hd d (dedup l) = hd d l.
Proof.
  induction l as [|a l IH]; [reflexivity|].
  destruct l as [|b l]; [reflexivity|].
  change (dedup (a :: b :: l)) with (if pt_eqb a b then dedup (b :: l) else a :: dedup (b :: l)).
  destruct (pt_eqb a b) eqn:E; [|reflexivity].
  apply pt_eqb_eq in E. subst b. rewrite IH. reflexivity.
Qed.
