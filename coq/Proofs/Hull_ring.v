(* Property C13 - assembling the two chains into the ring; the result satisfies the statement. *)
From Coq Require Import ZArith List Bool Lia Permutation Sorting.Sorted Arith.
From SF Require Import Base.GeomAST Model.Hull Proofs.Hull_proofs Proofs.Hull_chain.
Import ListNotations.
Open Scope Z_scope.

Lemma sgn1 : sgn 1. Proof. left; reflexivity. Qed.
Lemma sgnm1 : sgn (-1). Proof. right; reflexivity. Qed.

(* ------------------------------------------------------------------------------------------ *)
(* list plumbing *)

Lemma two_distinct_len (l : list pt) a b : In a l -> In b l -> a <> b -> (2 <= length l)%nat.
Proof.
  destruct l as [|x [|y t]]; simpl; try tauto; try lia.
  intros [<-|[]] [<-|[]] H. congruence.
Qed.

Lemma hd_last_decomp (l : list pt) d : (2 <= length l)%nat -> exists mid, l = hd d l :: mid ++ [last l d].
Proof.
  destruct l as [|x t]; [simpl; lia|]. intros H.
  destruct (exists_last (l := t)) as [mid [z E]]; [destruct t; simpl in H; [lia|discriminate]|].
  exists mid. subst t. cbn [hd].
  replace (last (x :: mid ++ [z]) d) with z; [reflexivity|].
  change (x :: mid ++ [z]) with ((x :: mid) ++ [z]). symmetry. apply last_last.
Qed.

(* edges: adjacent pairs *)
Lemma ring_edges_cons2 a b t : ring_edges (a :: b :: t) = (a, b) :: ring_edges (b :: t).
Proof. reflexivity. Qed.

Lemma ring_edges_app_In e l1 x l2 :
  In e (ring_edges (l1 ++ x :: l2)) -> In e (ring_edges (l1 ++ [x])) \/ In e (ring_edges (x :: l2)).
Proof.
  induction l1 as [|a l1 IH]; [simpl; auto|].
  destruct l1 as [|b l1].
  - simpl app. rewrite ring_edges_cons2. intros [<-|H]; [left; left; reflexivity|right; exact H].
  - change ((a :: b :: l1) ++ x :: l2) with (a :: b :: (l1 ++ x :: l2)).
    change ((a :: b :: l1) ++ [x]) with (a :: b :: (l1 ++ [x])).
    rewrite !ring_edges_cons2. intros [<-|H]; [left; left; reflexivity|].
    destruct (IH H) as [H'|H']; [left; right; exact H'|right; exact H'].
Qed.

Lemma ring_edges_snoc_In a b l x :
  In (a, b) (ring_edges (l ++ [x])) -> In (a, b) (ring_edges l) \/ (b = x /\ exists l', l = l' ++ [a]).
Proof.
  induction l as [|c l IH]; [simpl; tauto|].
  destruct l as [|d l].
  - simpl. intros [E|[]]. inversion E; subst. right. split; auto. exists []; reflexivity.
  - change ((c :: d :: l) ++ [x]) with (c :: d :: (l ++ [x])). rewrite !ring_edges_cons2.
    intros [E|H]; [left; left; exact E|].
    destruct (IH H) as [H'|[-> [l' E]]]; [left; right; exact H'|].
    right. split; auto. exists (c :: l'). rewrite E. reflexivity.
Qed.

Lemma ring_edges_rev_In a b l : In (a, b) (ring_edges (rev l)) -> In (b, a) (ring_edges l).
Proof.
  induction l as [|c l IH]; [simpl; tauto|]. simpl rev. intros H.
  apply ring_edges_snoc_In in H. destruct H as [H|[-> [l' E]]].
  - apply IH in H. destruct l as [|d l]; [simpl in H; tauto|]. rewrite ring_edges_cons2. right; exact H.
  - destruct l as [|d l]; [destruct l'; discriminate|].
    assert (d = a).
    { assert (E' : rev (rev (d :: l)) = rev (l' ++ [a])) by (rewrite E; reflexivity).
      rewrite rev_involutive, rev_app_distr in E'. simpl in E'. inversion E'; reflexivity. }
    subst d. left; reflexivity.
Qed.

Lemma cov_edges q st : cov q st <-> (forall b a, In (b, a) (ring_edges st) -> 0 <= cross a b q).
Proof.
  induction st as [|b st IH]; [simpl; tauto|].
  destruct st as [|a r]; [simpl; tauto|].
  change (cov q (b :: a :: r)) with (0 <= cross a b q /\ cov q (a :: r)).
  rewrite ring_edges_cons2, IH. split.
  - intros [H1 H2] b' a' [E|H]; [inversion E; subst; exact H1|apply H2; exact H].
  - intros H. split; [apply H; left; reflexivity|intros b' a' H'; apply H; right; exact H'].
Qed.

(* consecutive triples, on a stack (top first) *)
Fixpoint stk_turns (st : list pt) : Prop :=
  match st with
  | c :: ((b :: a :: _) as r) => 0 < cross a b c /\ stk_turns r
  | _ => True
  end.
Lemma stk_turns_cons3 c b a r : stk_turns (c :: b :: a :: r) = (0 < cross a b c /\ stk_turns (b :: a :: r)).
Proof. reflexivity. Qed.

Lemma stk_turns_glue P a b S :
  stk_turns (P ++ [a; b]) -> stk_turns (a :: b :: S) -> stk_turns (P ++ a :: b :: S).
Proof.
  induction P as [|p1 P IH]; intros H1 H2; [exact H2|].
  destruct P as [|p2 [|p3 P]].
  - simpl in *. destruct H1 as [H1 _]. split; auto.
  - simpl app in H1 |- *. rewrite stk_turns_cons3 in H1. destruct H1 as [H1 H1'].
    rewrite stk_turns_cons3. split; [exact H1|apply IH; [exact H1'|exact H2]].
  - simpl app in H1 |- *. rewrite stk_turns_cons3 in H1. destruct H1 as [H1 H1'].
    rewrite stk_turns_cons3. split; [exact H1|apply IH; [exact H1'|exact H2]].
Qed.

Lemma all_triples_turns st : all_triples st -> stk_turns st.
Proof.
  induction st as [|c st IH]; [intros; exact I|]. intros [F T].
  destruct st as [|b [|a r]]; try exact I.
  rewrite stk_turns_cons3. split; [|apply IH; exact T].
  destruct F as [F _]. inversion F; subst. assumption.
Qed.

Lemma strict_turns_cons3 a b c t : strict_turns (a :: b :: c :: t) = (0 <? cross a b c) && strict_turns (b :: c :: t).
Proof. reflexivity. Qed.

Lemma strict_turns_snoc l a b c :
  strict_turns (l ++ [a; b]) = true -> 0 < cross a b c -> strict_turns (l ++ [a; b; c]) = true.
Proof.
  induction l as [|x l IH]; intros H Hc.
  - simpl. apply Z.ltb_lt in Hc. rewrite Hc. reflexivity.
  - destruct l as [|y [|z l]].
    + simpl in *. rewrite andb_true_iff in *. destruct H as [H _]. split; auto.
      apply Z.ltb_lt in Hc. rewrite Hc. reflexivity.
    + simpl app in H |- *. rewrite strict_turns_cons3 in H |- *. rewrite andb_true_iff in H |- *. destruct H as [H H'].
      split; [exact H|apply IH; [exact H'|exact Hc]].
    + simpl app in H |- *. rewrite strict_turns_cons3 in H |- *. rewrite andb_true_iff in H |- *. destruct H as [H H'].
      split; [exact H|apply IH; [exact H'|exact Hc]].
Qed.

Lemma stk_turns_rev st : stk_turns st -> strict_turns (rev st) = true.
Proof.
  induction st as [|c st IH]; [reflexivity|]. intros H.
  destruct st as [|b [|a r]]; try reflexivity.
  rewrite stk_turns_cons3 in H. destruct H as [H H'].
  change (rev (c :: b :: a :: r)) with (((rev r ++ [a]) ++ [b]) ++ [c]).
  rewrite <- !app_assoc. simpl app. apply strict_turns_snoc; auto.
  specialize (IH H'). simpl rev in IH. rewrite <- app_assoc in IH. exact IH.
Qed.

Lemma nodup_b_spec l : nodup_b l = true <-> NoDup l.
Proof.
  induction l as [|x l IH]; simpl; [split; [constructor|reflexivity]|].
  rewrite andb_true_iff, negb_true_iff, IH. split.
  - intros [H1 H2]. constructor; auto. intros Hin. apply mem_In in Hin. congruence.
  - intros H. inversion H; subst. split; auto. destruct (mem x l) eqn:E; auto. apply mem_In in E. contradiction.
Qed.

Lemma sorted_NoDup s l : sgn s -> StronglySorted (fun x y => dlt s y x) l -> NoDup l.
Proof.
  intros Hs. induction 1 as [|a l Hl IH Hall]; constructor; auto.
  intros Hin. rewrite Forall_forall in Hall. eapply dlt_irrefl; [exact Hs|apply Hall; exact Hin].
Qed.

Lemma NoDup_app_intro {A} (l1 l2 : list A) :
  NoDup l1 -> NoDup l2 -> (forall x, In x l1 -> In x l2 -> False) -> NoDup (l1 ++ l2).
Proof.
  induction l1 as [|a l1 IH]; simpl; intros H1 H2 Hd; [exact H2|].
  inversion H1; subst. constructor.
  - intros Hin. apply in_app_or in Hin. destruct Hin as [Hin|Hin]; [contradiction|]. eapply Hd; eauto.
  - apply IH; auto. intros x Hx Hx'. eapply Hd; eauto.
Qed.

Lemma NoDup_rev' {A} (l : list A) : NoDup l -> NoDup (rev l).
Proof.
  intros H. eapply Permutation_NoDup; [apply Permutation_rev|exact H].
Qed.

Lemma removelast_snoc {A} (l : list A) x : removelast (l ++ [x]) = l.
Proof. apply removelast_last. Qed.

Lemma nth_error_removelast {A} (l : list A) k : (S k < length l)%nat -> nth_error (removelast l) k = nth_error l k.
Proof.
  revert k. induction l as [|x l IH]; intros k H; [simpl in H; lia|].
  destruct l as [|y l]; [simpl in H; lia|].
  change (removelast (x :: y :: l)) with (x :: removelast (y :: l)).
  destruct k; [reflexivity|]. simpl nth_error. apply IH. simpl in *. lia.
Qed.

(* ------------------------------------------------------------------------------------------ *)
(* The two chains of a point list with at least two distinct points *)

Lemma has_2_distinct_true ps : has_2_distinct ps = true -> exists a b, In a ps /\ In b ps /\ a <> b.
Proof.
  destruct ps as [|p0 r]; [discriminate|]. simpl. rewrite existsb_exists.
  intros [q [Hq E]]. exists q, p0. split; [right; exact Hq|]. split; [left; reflexivity|].
  apply negb_true_iff, pt_eqb_neq in E. exact E.
Qed.
Lemma has_2_distinct_false p0 r : has_2_distinct (p0 :: r) = false -> forall q, In q (p0 :: r) -> q = p0.
Proof.
  simpl. intros H q [<-|Hq]; [reflexivity|].
  destruct (pt_eq_dec q p0) as [E|E]; [exact E|exfalso].
  assert (existsb (fun q => negb (pt_eqb q p0)) r = true); [|congruence].
  apply existsb_exists. exists q. split; auto. apply negb_true_iff, pt_eqb_neq. exact E.
Qed.

Lemma hd_neq_last_len (l : list pt) d : l <> [] -> hd d l <> last l d -> (2 <= length l)%nat.
Proof.
  destruct l as [|x [|y t]]; simpl; try congruence; try lia.
Qed.

Lemma stk_facts sg ps l : sgn sg ->
  StronglySorted (dle sg) l -> (forall x, In x l <-> In x ps) ->
  (exists a b, In a ps /\ In b ps /\ a <> b) ->
  exists top bot mid,
    chain_rev l = top :: mid ++ [bot] /\
    desc sg (chain_rev l) /\ all_triples (chain_rev l) /\
    (forall q, In q ps -> cov q (chain_rev l)) /\ incl (chain_rev l) ps /\
    (forall q, In q ps -> dle sg q top) /\ (forall q, In q ps -> dle sg bot q) /\
    In top ps /\ In bot ps /\ dlt sg bot top.
Proof.
  intros Hs Hl Hel [a [b [Ha [Hb Hab]]]].
  pose proof (dedup_sorted sg l Hs Hl) as HD.
  assert (HelD : forall x, In x (dedup l) <-> In x ps) by (intros x; rewrite dedup_In; apply Hel).
  assert (Hlen : (2 <= length (dedup l))%nat).
  { apply (two_distinct_len _ a b); auto; apply HelD; auto. }
  rewrite (chain_rev_dedup l Hlen).
  destruct (dedup l) as [|x l'] eqn:ED; [simpl in Hlen; lia|].
  pose proof (chain_rev_inv sg Hs x l' HD) as [Hd Ht Hc Hi Hne Htop Hbot].
  set (st := chain_rev (x :: l')) in *.
  assert (HQ : forall q, In q (rev l' ++ [x]) <-> In q ps).
  { intros q. rewrite <- HelD. rewrite in_app_iff, <- in_rev. simpl. tauto. }
  set (top := hd x st). set (bot := last st x).
  assert (Itop : In top ps).
  { apply HQ, Hi. unfold top. destruct st; [congruence|left; reflexivity]. }
  assert (Ibot : In bot ps).
  { apply HQ, Hi. unfold bot. apply last_In. exact Hne. }
  assert (Htop' : forall q, In q ps -> dle sg q top) by (intros q Hq; apply Htop, HQ, Hq).
  assert (Hbot' : forall q, In q ps -> dle sg bot q) by (intros q Hq; apply Hbot, HQ, Hq).
  assert (Hlt : dlt sg bot top).
  { destruct (Hbot' top Itop) as [H|H]; [exact H|exfalso].
    apply Hab. transitivity top.
    - apply (dle_antisym sg); auto. rewrite <- H. apply Hbot'; auto.
    - apply (dle_antisym sg); auto. rewrite <- H. apply Hbot'; auto. }
  assert (Hlen2 : (2 <= length st)%nat).
  { apply (hd_neq_last_len st x Hne). fold top bot. intros E. rewrite E in Hlt. eapply dlt_irrefl; eauto. }
  destruct (hd_last_decomp st x Hlen2) as [mid Emid]. fold top bot in Emid.
  exists top, bot, mid. repeat split; auto.
  - intros q Hq. apply Hc, HQ, Hq.
  - intros y Hy. apply HQ, Hi, Hy.
Qed.

(* the point strictly inside a chain (between bottom and top) makes a strict left turn with them *)
Lemma chain_interior top mid bot y :
  all_triples (top :: mid ++ [bot]) -> In y mid -> 0 < cross bot y top.
Proof.
  intros [F _] Hy. apply (fop_cross _ mid [bot] y bot F Hy). left; reflexivity.
Qed.

Lemma cross_swap_ends a b c : cross a b c = - cross c b a.
Proof. unfold cross. ring. Qed.
Lemma cross_cyc a b c : cross a b c = cross b c a.
Proof. unfold cross. ring. Qed.

(* a degenerate junction is impossible: x below the top M of the lower chain, y the successor of
   M on the upper chain, both before M, m the common other end *)
Lemma junction_strict sg m M x y : sgn sg ->
  dlt sg x M -> dlt sg y M ->
  (x = m \/ 0 < cross m x M) -> (y = m \/ 0 < cross M y m) -> (x <> m \/ y <> m) ->
  0 <= cross x M y -> 0 < cross x M y.
Proof.
  intros Hs HxM HyM Hx Hy Hne H0.
  destruct (Z.eq_dec (cross x M y) 0) as [E|E]; [exfalso|lia].
  destruct Hx as [->|Hx]; destruct Hy as [->|Hy].
  - destruct Hne; congruence.
  - unfold cross in *. lia.
  - unfold cross in *. lia.
  - destruct m as [mx my], M as [Mx My], x as [xx xy], y as [yx yy].
    dsgn Hs.
    + pose proof (T_par (Mx - xx) (My - xy) (Mx - yx) (My - yy) (Mx - mx) (My - my)) as T.
      unfold dlt, dv, lexpos, cross in *; cbn [fst snd] in *. lia.
    + pose proof (T_par (xx - Mx) (xy - My) (yx - Mx) (yy - My) (mx - Mx) (my - My)) as T.
      unfold dlt, dv, lexpos, cross in *; cbn [fst snd] in *. lia.
Qed.

(* ------------------------------------------------------------------------------------------ *)
(* isLinearHull on a ring without repeated vertices *)

Lemma odd_half n : Nat.even n = false -> exists k, n = (2 * k + 1)%nat /\ Nat.div n 2 = k.
Proof.
  intros H. assert (Ho : Nat.odd n = true) by (unfold Nat.odd; rewrite H; reflexivity).
  apply Nat.odd_spec in Ho. destruct Ho as [k Ek]. exists k. split; [exact Ek|].
  subst n. symmetry. apply (Nat.div_unique (2 * k + 1) 2 k 1); lia.
Qed.

Lemma is_linear_long ring : (4 <= length ring)%nat -> NoDup (removelast ring) -> is_linear_hull ring = LinNo.
Proof.
  intros Hlen Hnd. unfold is_linear_hull.
  destruct (Nat.even (length ring)) eqn:Ev; [reflexivity|].
  destruct (odd_half _ Ev) as [k [Ek Ed]]. rewrite Ed.
  destruct k as [|k1]; [lia|].
  destruct (nth_error ring k1) as [a|] eqn:Ea; [|apply nth_error_None in Ea; lia].
  destruct (nth_error ring (S (S k1))) as [b|] eqn:Eb; [|apply nth_error_None in Eb; lia].
  destruct (pt_eqb a b) eqn:E; [exfalso|reflexivity].
  apply pt_eqb_eq in E. subst b.
  assert (L : length (removelast ring) = (2 * S k1)%nat).
  { destruct (exists_last (l := ring)) as [l' [z El]]; [destruct ring; simpl in Hlen; [lia|discriminate]|].
    rewrite El, removelast_snoc. rewrite El, app_length in Ek. simpl in Ek. lia. }
  rewrite NoDup_nth_error in Hnd.
  assert (k1 = S (S k1)); [|lia].
  apply Hnd; [lia|].
  rewrite !nth_error_removelast by lia. congruence.
Qed.

(* ------------------------------------------------------------------------------------------ *)
(* The shape of monotone_chain's result *)

Record ring_facts (ps : list pt) (m M : pt) (Umid Lmid : list pt) : Prop := {
  rf_desc_L : desc 1 (M :: Lmid ++ [m]);
  rf_desc_U : desc (-1) (m :: Umid ++ [M]);
  rf_tri_L : all_triples (M :: Lmid ++ [m]);
  rf_tri_U : all_triples (m :: Umid ++ [M]);
  rf_cov_L : forall q, In q ps -> cov q (M :: Lmid ++ [m]);
  rf_cov_U : forall q, In q ps -> cov q (m :: Umid ++ [M]);
  rf_incl_L : incl (M :: Lmid ++ [m]) ps;
  rf_incl_U : incl (m :: Umid ++ [M]) ps;
  rf_lt : dlt 1 m M;
  rf_min : forall q, In q ps -> dle 1 m q;
  rf_max : forall q, In q ps -> dle 1 q M
}.

Lemma rev_sort_In x ps : In x (rev (sort ps)) <-> In x ps.
Proof. rewrite <- in_rev. apply sort_In. Qed.

Theorem ring_shape ps : has_2_distinct ps = true ->
  exists m M Umid Lmid,
    monotone_chain ps = rev (m :: Umid ++ M :: Lmid ++ [m]) /\ ring_facts ps m M Umid Lmid.
Proof.
  intros H2. apply has_2_distinct_true in H2.
  destruct (stk_facts 1 ps (sort ps) sgn1 (sort_sorted ps) (fun x => sort_In x ps) H2)
    as [M [m [Lmid [EL [HdL [HtL [HcL [HiL [HtopL [HbotL [IM [Im HltL]]]]]]]]]]]].
  destruct (stk_facts (-1) ps (rev (sort ps)) sgnm1 (sorted_rev_flip _ (sort_sorted ps)) (fun x => rev_sort_In x ps) H2)
    as [m' [M' [Umid [EU [HdU [HtU [HcU [HiU [HtopU [HbotU [Im' [IM' HltU]]]]]]]]]]]].
  assert (m' = m).
  { apply (dle_antisym 1); [exact sgn1|apply dle_flip, HtopU, Im|apply HbotL, Im']. }
  assert (M' = M).
  { apply (dle_antisym 1); [exact sgn1|apply HtopL, IM'|apply dle_flip, HbotU, IM]. }
  subst m' M'.
  exists m, M, Umid, Lmid. split.
  - unfold monotone_chain, chain. rewrite EL, EU.
    assert (E1 : rev (m :: Umid ++ [M]) = M :: rev (m :: Umid)).
    { change (m :: Umid ++ [M]) with ((m :: Umid) ++ [M]). rewrite rev_app_distr. reflexivity. }
    rewrite E1. cbn [tl].
    change (m :: Umid ++ M :: Lmid ++ [m]) with ((m :: Umid) ++ (M :: Lmid ++ [m])).
    rewrite (rev_app_distr (m :: Umid)). reflexivity.
  - rewrite EL in *. rewrite EU in *. constructor; auto.
Qed.

(* ------------------------------------------------------------------------------------------ *)
(* Strict convexity of the ring *)

Section Ring.
  Variables (ps : list pt) (m M : pt) (Umid Lmid : list pt).
  Hypothesis RF : ring_facts ps m M Umid Lmid.

  Let L := M :: Lmid ++ [m].
  Let U := m :: Umid ++ [M].
  Let Z := m :: Umid ++ M :: Lmid ++ [m].

  Lemma Lmid_interior y : In y Lmid -> 0 < cross m y M.
  Proof. apply chain_interior. apply (rf_tri_L _ _ _ _ _ RF). Qed.
  Lemma Umid_interior y : In y Umid -> 0 < cross M y m.
  Proof. apply chain_interior. apply (rf_tri_U _ _ _ _ _ RF). Qed.

  Lemma Lmid_between y : In y Lmid -> dlt 1 m y /\ dlt 1 y M.
  Proof.
    intros Hy. pose proof (rf_desc_L _ _ _ _ _ RF) as Hd. inversion Hd as [|? ? Hd' Hall]; subst.
    rewrite Forall_forall in Hall. split; [|apply Hall, in_or_app; left; exact Hy].
    pose proof (fop_of_sorted _ _ Hd') as F.
    apply (fop_cross _ Lmid [m] y m F Hy). left; reflexivity.
  Qed.
  Lemma Umid_between y : In y Umid -> dlt 1 m y /\ dlt 1 y M.
  Proof.
    intros Hy. pose proof (rf_desc_U _ _ _ _ _ RF) as Hd. inversion Hd as [|? ? Hd' Hall]; subst.
    rewrite Forall_forall in Hall. split; [apply dlt_flip, Hall, in_or_app; left; exact Hy|].
    pose proof (fop_of_sorted _ _ Hd') as F.
    apply dlt_flip. apply (fop_cross _ Umid [M] y M F Hy). left; reflexivity.
  Qed.

  Lemma ring_nodup : NoDup (Umid ++ M :: Lmid).
  Proof.
    apply NoDup_app_intro.
    - pose proof (rf_desc_U _ _ _ _ _ RF) as Hd. apply (sorted_NoDup (-1)) in Hd; [|exact sgnm1].
      inversion Hd as [|? ? _ Hd']; subst. apply NoDup_remove_1 in Hd'. rewrite app_nil_r in Hd'. exact Hd'.
    - pose proof (rf_desc_L _ _ _ _ _ RF) as Hd. apply (sorted_NoDup 1) in Hd; [|exact sgn1].
      change (M :: Lmid ++ [m]) with ((M :: Lmid) ++ [m]) in Hd.
      apply NoDup_remove_1 in Hd. rewrite app_nil_r in Hd. exact Hd.
    - intros y Hu [<-|Hl].
      + destruct (Umid_between _ Hu) as [_ H]. eapply dlt_irrefl; [exact sgn1|exact H].
      + pose proof (Lmid_interior y Hl). pose proof (Umid_interior y Hu).
        rewrite (cross_swap_ends M y m) in H0. lia.
  Qed.

  Lemma ring_cover p a b : In p ps -> In (a, b) (ring_edges (rev Z)) -> 0 <= cross a b p.
  Proof.
    intros Hp He. apply ring_edges_rev_In in He. unfold Z in He.
    change (m :: Umid ++ M :: Lmid ++ [m]) with ((m :: Umid) ++ M :: (Lmid ++ [m])) in He.
    apply ring_edges_app_In in He. destruct He as [He|He].
    - apply (proj1 (cov_edges p _) (rf_cov_U _ _ _ _ _ RF p Hp)). exact He.
    - apply (proj1 (cov_edges p _) (rf_cov_L _ _ _ _ _ RF p Hp)). exact He.
  Qed.

  Lemma ring_incl : incl (rev Z) ps.
  Proof.
    intros x Hx. apply in_rev in Hx. unfold Z in Hx.
    change (m :: Umid ++ M :: Lmid ++ [m]) with ((m :: Umid) ++ (M :: Lmid ++ [m])) in Hx.
    apply in_app_or in Hx. destruct Hx as [Hx|Hx].
    - apply (rf_incl_U _ _ _ _ _ RF). simpl in *. destruct Hx as [Hx|Hx]; [left; exact Hx|right; apply in_or_app; left; exact Hx].
    - apply (rf_incl_L _ _ _ _ _ RF). exact Hx.
  Qed.

  Hypothesis Hnondeg : Umid <> [] \/ Lmid <> [].

  (* v1: the vertex after m on the ring (last of M :: Lmid); u1: the vertex after M (last of m :: Umid) *)
  Lemma ring_turns v1 u1 Lf Uf :
    M :: Lmid = Lf ++ [v1] -> m :: Umid = Uf ++ [u1] -> stk_turns (v1 :: Z).
  Proof.
    intros ELf EUf.
    assert (Fv1 : (v1 = M /\ Lmid = []) \/ In v1 Lmid).
    { destruct Lf as [|z Lf'].
      - simpl in ELf. inversion ELf. left; auto.
      - simpl in ELf. inversion ELf. right. apply in_or_app. right; left; reflexivity. }
    assert (Fu1 : (u1 = m /\ Umid = []) \/ In u1 Umid).
    { destruct Uf as [|z Uf'].
      - simpl in EUf. inversion EUf. left; auto.
      - simpl in EUf. inversion EUf. right. apply in_or_app. right; left; reflexivity. }
    assert (Fx : exists x Lr, Lmid ++ [m] = x :: Lr /\ ((x = m /\ Lmid = []) \/ In x Lmid)).
    { destruct Lmid as [|x Lr]; [exists m, []; auto|exists x, (Lr ++ [m]); split; [reflexivity|right; left; reflexivity]]. }
    assert (Fy : exists y Ur, Umid ++ [M] = y :: Ur /\ ((y = M /\ Umid = []) \/ In y Umid)).
    { destruct Umid as [|y Ur]; [exists M, []; auto|exists y, (Ur ++ [M]); split; [reflexivity|right; left; reflexivity]]. }
    destruct Fx as [x [Lr [Ex Fx]]]. destruct Fy as [y [Ur [Ey Fy]]].
    pose proof (rf_lt _ _ _ _ _ RF) as HmM.
    assert (Iv1 : In v1 ps).
    { apply (rf_incl_L _ _ _ _ _ RF). destruct Fv1 as [[-> _]|H]; [left; reflexivity|right; apply in_or_app; left; exact H]. }
    assert (Iu1 : In u1 ps).
    { apply (rf_incl_U _ _ _ _ _ RF). destruct Fu1 as [[-> _]|H]; [left; reflexivity|right; apply in_or_app; left; exact H]. }
    (* junction at M *)
    assert (JM : 0 < cross x M u1).
    { apply (junction_strict 1 m M x u1 sgn1).
      - destruct Fx as [[-> _]|H]; [exact HmM|apply Lmid_between; exact H].
      - destruct Fu1 as [[-> _]|H]; [exact HmM|apply Umid_between; exact H].
      - destruct Fx as [[-> _]|H]; [left; reflexivity|right; apply Lmid_interior; exact H].
      - destruct Fu1 as [[-> _]|H]; [left; reflexivity|right; apply Umid_interior; exact H].
      - destruct Fx as [[_ EL]|H].
        + destruct Fu1 as [[_ EU]|H']; [destruct Hnondeg; congruence|].
          right. intros ->. destruct (Umid_between _ H') as [H1 _]. eapply dlt_irrefl; [exact sgn1|exact H1].
        + left. intros ->. destruct (Lmid_between _ H) as [H1 _]. eapply dlt_irrefl; [exact sgn1|exact H1].
      - pose proof (rf_cov_L _ _ _ _ _ RF u1 Iu1) as C. rewrite Ex in C. simpl in C. tauto. }
    (* junction at m *)
    assert (Jm : 0 < cross y m v1).
    { apply (junction_strict (-1) M m y v1 sgnm1).
      - apply dlt_flip. destruct Fy as [[-> _]|H]; [exact HmM|apply Umid_between; exact H].
      - apply dlt_flip. destruct Fv1 as [[-> _]|H]; [exact HmM|apply Lmid_between; exact H].
      - destruct Fy as [[-> _]|H]; [left; reflexivity|right; apply Umid_interior; exact H].
      - destruct Fv1 as [[-> _]|H]; [left; reflexivity|right; apply Lmid_interior; exact H].
      - destruct Fy as [[_ EU]|H].
        + destruct Fv1 as [[_ EL]|H']; [destruct Hnondeg; congruence|].
          right. intros ->. destruct (Lmid_between _ H') as [_ H1]. eapply dlt_irrefl; [exact sgn1|exact H1].
        + left. intros ->. destruct (Umid_between _ H) as [_ H1]. eapply dlt_irrefl; [exact sgn1|exact H1].
      - pose proof (rf_cov_U _ _ _ _ _ RF v1 Iv1) as C. rewrite Ey in C. simpl in C. tauto. }
    assert (EZ : v1 :: Z = (v1 :: Uf) ++ u1 :: M :: (Lmid ++ [m])).
    { unfold Z. change (m :: Umid ++ M :: Lmid ++ [m]) with ((m :: Umid) ++ M :: Lmid ++ [m]).
      rewrite EUf, <- app_assoc. reflexivity. }
    rewrite EZ. apply stk_turns_glue.
    - replace ((v1 :: Uf) ++ [u1; M]) with (v1 :: m :: y :: Ur).
      + rewrite stk_turns_cons3. split; [exact Jm|].
        rewrite <- Ey. apply all_triples_turns. apply (rf_tri_U _ _ _ _ _ RF).
      + rewrite <- Ey. change (v1 :: m :: Umid ++ [M]) with (v1 :: (m :: Umid) ++ [M]).
        rewrite EUf, <- app_assoc. reflexivity.
    - rewrite Ex. rewrite stk_turns_cons3. split; [exact JM|].
      rewrite <- Ex. apply all_triples_turns. apply (rf_tri_L _ _ _ _ _ RF).
  Qed.
End Ring.

(* ------------------------------------------------------------------------------------------ *)
(* The result satisfies the statement of the property *)

Lemma forallb_In {A} (f : A -> bool) l : (forall x, In x l -> f x = true) -> forallb f l = true.
Proof. intros H. apply forallb_forall. exact H. Qed.

Lemma on_segment_of_between m M p :
  dle 1 m p -> dle 1 p M -> cross m M p = 0 -> on_segment m M p = true.
Proof.
  intros H1 H2 H3. destruct m as [mx my], M as [Mx My], p as [px py].
  unfold on_segment. cbn [fst snd].
  assert (C : mx <= px <= Mx /\ (Z.min my My <= py <= Z.max my My)).
  { destruct H1 as [H1|E1]; [|inversion E1; subst; clear E1];
      (destruct H2 as [H2|E2]; [|inversion E2; subst; clear E2]);
      unfold dlt, dv, lexpos, cross in *; cbn [fst snd] in *; nia. }
  rewrite H3. destruct C as [[C1 C2] [C3 C4]].
  repeat (apply andb_true_iff; split); try apply Z.leb_le; try reflexivity; lia.
Qed.

Lemma hull_poly_ok ps m M Umid Lmid :
  ring_facts ps m M Umid Lmid -> Umid <> [] \/ Lmid <> [] ->
  let ring := rev (m :: Umid ++ M :: Lmid ++ [m]) in
  is_linear_hull ring = LinNo /\ hull_ok ps (HPoly ring) = true.
Proof.
  intros RF Hnd ring.
  pose proof (rf_lt _ _ _ _ _ RF) as HmM.
  destruct (exists_last (l := M :: Lmid)) as [Lf [v1 ELf]]; [discriminate|].
  destruct (exists_last (l := m :: Umid)) as [Uf [u1 EUf]]; [discriminate|].
  (* the ring, with its first two vertices exposed *)
  assert (Ering : ring = m :: v1 :: rev (Umid ++ Lf) ++ [m]).
  { unfold ring. replace (m :: Umid ++ M :: Lmid ++ [m]) with ([m] ++ (Umid ++ (M :: Lmid)) ++ [m])
      by (rewrite <- app_assoc; reflexivity).
    rewrite ELf. rewrite (app_assoc Umid Lf [v1]). rewrite !rev_app_distr. reflexivity. }
  assert (Erm : removelast ring = rev (Umid ++ M :: Lmid ++ [m])).
  { unfold ring. change (rev (m :: Umid ++ M :: Lmid ++ [m])) with (rev (Umid ++ M :: Lmid ++ [m]) ++ [m]).
    apply removelast_snoc. }
  assert (Hnodup : NoDup (removelast ring)).
  { rewrite Erm. apply NoDup_rev'.
    change (Umid ++ M :: Lmid ++ [m]) with (Umid ++ (M :: Lmid) ++ [m]). rewrite app_assoc.
    apply NoDup_app_intro; [apply (ring_nodup ps m M Umid Lmid RF)|constructor; [simpl; tauto|constructor]|].
    intros x Hx [<-|[]]. apply in_app_or in Hx. destruct Hx as [Hx|[Hx|Hx]].
    - destruct (Umid_between _ _ _ _ _ RF _ Hx) as [H _]. eapply dlt_irrefl; [exact sgn1|exact H].
    - subst. eapply dlt_irrefl; [exact sgn1|exact HmM].
    - destruct (Lmid_between _ _ _ _ _ RF _ Hx) as [H _]. eapply dlt_irrefl; [exact sgn1|exact H]. }
  assert (Hlen : (4 <= length ring)%nat).
  { rewrite Ering. simpl. rewrite app_length, rev_length, app_length. simpl.
    assert (ELen : length Lf = length Lmid).
    { assert (E : length (M :: Lmid) = length (Lf ++ [v1])) by (rewrite ELf; reflexivity).
      rewrite app_length in E. simpl in E. lia. }
    destruct Hnd as [Hn|Hn]; [destruct Umid; [congruence|simpl; lia]|destruct Lmid; [congruence|simpl in *; lia]]. }
  split; [apply is_linear_long; assumption|].
  unfold hull_ok. rewrite !andb_true_iff. split; [split|].
  - (* strictly convex ring *)
    rewrite Ering. unfold strictly_convex_ring. rewrite <- Ering.
    rewrite !andb_true_iff. split; [split; [split|]|].
    + apply Z.leb_le. lia.
    + rewrite Ering. change (m :: v1 :: rev (Umid ++ Lf) ++ [m]) with ((m :: v1 :: rev (Umid ++ Lf)) ++ [m]).
      rewrite last_last. apply pt_eqb_refl.
    + unfold ring. change (rev (m :: Umid ++ M :: Lmid ++ [m]) ++ [v1]) with (rev (v1 :: m :: Umid ++ M :: Lmid ++ [m])).
      apply stk_turns_rev. eapply ring_turns; eauto.
    + apply nodup_b_spec. exact Hnodup.
  - apply forallb_In. intros v Hv. apply mem_In. eapply ring_incl; eauto.
  - apply forallb_In. intros p Hp. unfold covered_by. apply forallb_In. intros [a b] He.
    unfold on_or_left. cbn [fst snd]. apply Z.leb_le. eapply ring_cover; eauto.
Qed.

Theorem hull_correct_lemma : forall ps, hull_ok ps (hull_pts ps) = true.
Proof.
  intros ps. destruct ps as [|p0 r]; [reflexivity|].
  unfold hull_pts. destruct (has_2_distinct (p0 :: r)) eqn:H2; cbn [negb].
  2:{ (* one distinct point *)
      unfold hull_ok. apply andb_true_iff. split; [apply mem_In; left; reflexivity|].
      apply forallb_In. intros q Hq. apply pt_eqb_eq. symmetry. eapply has_2_distinct_false; eauto. }
  set (ps := p0 :: r) in *.
  destruct (ring_shape ps H2) as [m [M [Umid [Lmid [Ering RF]]]]].
  rewrite Ering.
  pose proof (rf_lt _ _ _ _ _ RF) as HmM.
  assert (Im : In m ps) by (apply (rf_incl_U _ _ _ _ _ RF); left; reflexivity).
  assert (IM : In M ps) by (apply (rf_incl_L _ _ _ _ _ RF); left; reflexivity).
  assert (Hcase : (Umid = [] /\ Lmid = []) \/ (Umid <> [] \/ Lmid <> [])).
  { destruct Umid; [destruct Lmid; [left; auto|right; right; discriminate]|right; left; discriminate]. }
  destruct Hcase as [[EU EL]|Hnd].
  - (* all points collinear: the ring is m M m *)
    subst Umid Lmid. cbn [app rev].
    unfold is_linear_hull. cbn [length Nat.even Nat.div Nat.divmod fst nth_error firstn].
    rewrite pt_eqb_refl. cbn [last].
    unfold hull_ok.
    assert (Hne : pt_eqb m M = false).
    { apply pt_eqb_neq. intros ->. eapply dlt_irrefl; [exact sgn1|exact HmM]. }
    rewrite Hne. cbn [negb andb].
    rewrite (proj2 (mem_In m ps) Im), (proj2 (mem_In M ps) IM). cbn [andb].
    apply forallb_In. intros p Hp. apply on_segment_of_between.
    + apply (rf_min _ _ _ _ _ RF); exact Hp.
    + apply (rf_max _ _ _ _ _ RF); exact Hp.
    + pose proof (rf_cov_L _ _ _ _ _ RF p Hp) as C1. pose proof (rf_cov_U _ _ _ _ _ RF p Hp) as C2.
      simpl in C1, C2. unfold cross in *. lia.
  - destruct (hull_poly_ok ps m M Umid Lmid RF Hnd) as [E1 E2]. rewrite E1. exact E2.
Qed.
