(* Property C13 - scale-equivariance of the models Model/Hull.v and Model/Calipers.v.
   Multiplying every point by a positive integer c multiplies the hull and every candidate
   rectangle by c, the metrics by c^2, and keeps the argmin: findMBR of the scaled ring is the
   scaled findMBR of the ring.  This is what allows the correspondence to judge a case that the
   implementation saw multiplied by an exact power of two on its pre-image (classes scaled and
   rescaled of harness/cmd/c13): the model has no intrinsic scale. *)
From Coq Require Import ZArith QArith Qminmax List Bool Lia.
From SF Require Import Base.GeomAST Model.Hull Model.Calipers.
Import ListNotations.
Open Scope Z_scope.

Definition scl (c : Z) (p : pt) : pt := (c * fst p, c * snd p).

Definition scl_result (c : Z) (r : hull_result) : hull_result :=
  match r with
  | HNoPoints => HNoPoints
  | HPoint p => HPoint (scl c p)
  | HLine a b => HLine (scl c a) (scl c b)
  | HPoly ring => HPoly (map (scl c) ring)
  | HPanic => HPanic
  end.

(* ---- comparisons ---- *)
Lemma mul_eqb c x y : 0 < c -> (c * x =? c * y) = (x =? y).
Proof. intros Hc. destruct (Z.eqb_spec (c*x) (c*y)), (Z.eqb_spec x y); try reflexivity; exfalso; nia. Qed.
Lemma mul_ltb c x y : 0 < c -> (c * x <? c * y) = (x <? y).
Proof. intros Hc. destruct (Z.ltb_spec (c*x) (c*y)), (Z.ltb_spec x y); try reflexivity; exfalso; nia. Qed.
Lemma pos_ltb k x : 0 < k -> (0 <? k * x) = (0 <? x).
Proof. intros Hk. destruct (Z.ltb_spec 0 (k*x)), (Z.ltb_spec 0 x); try reflexivity; exfalso; nia. Qed.
Lemma neg_ltb k x : 0 < k -> (k * x <? 0) = (x <? 0).
Proof. intros Hk. destruct (Z.ltb_spec (k*x) 0), (Z.ltb_spec x 0); try reflexivity; exfalso; nia. Qed.

Lemma scl_eqb c a b : 0 < c -> pt_eqb (scl c a) (scl c b) = pt_eqb a b.
Proof. intros Hc. unfold pt_eqb, scl. cbn [fst snd]. rewrite !mul_eqb by exact Hc. reflexivity. Qed.
Lemma scl_less c a b : 0 < c -> pt_less (scl c a) (scl c b) = pt_less a b.
Proof. intros Hc. unfold pt_less, scl. cbn [fst snd]. rewrite !mul_eqb, !mul_ltb by exact Hc. reflexivity. Qed.
Lemma scl_cross c p q s : cross (scl c p) (scl c q) (scl c s) = (c * c) * cross p q s.
Proof. unfold cross, scl. cbn [fst snd]. ring. Qed.
Lemma scl_orientation c p q s : 0 < c -> orientation (scl c p) (scl c q) (scl c s) = orientation p q s.
Proof.
  intros Hc. unfold orientation. rewrite scl_cross.
  assert (0 < c * c) by nia. rewrite pos_ltb, neg_ltb by assumption. reflexivity.
Qed.

(* ---- sort ---- *)
Lemma scl_insert c p l : 0 < c -> insert (scl c p) (map (scl c) l) = map (scl c) (insert p l).
Proof.
  intros Hc. induction l as [|x r IH]; [reflexivity|].
  cbn [map insert]. rewrite scl_less by exact Hc. destruct (pt_less p x); [reflexivity|].
  cbn [map]. rewrite IH. reflexivity.
Qed.
Lemma scl_sort c l : 0 < c -> sort (map (scl c) l) = map (scl c) (sort l).
Proof.
  intros Hc. unfold sort. induction l as [|x r IH]; [reflexivity|].
  cbn [map fold_right]. rewrite IH. apply scl_insert. exact Hc.
Qed.

(* ---- the chains ---- *)
Lemma scl_pop c st p : 0 < c -> pop_nonleft (map (scl c) st) (scl c p) = map (scl c) (pop_nonleft st p).
Proof.
  intros Hc. induction st as [|b st' IH]; [reflexivity|].
  destruct st' as [|a st'']; [reflexivity|].
  change (map (scl c) (b :: a :: st'')) with (scl c b :: scl c a :: map (scl c) st'').
  cbn [pop_nonleft]. rewrite scl_orientation by exact Hc.
  destruct (is_left_turn (orientation a b p)); [reflexivity|].
  exact IH.
Qed.
Lemma scl_push c st p : 0 < c -> push (map (scl c) st) (scl c p) = map (scl c) (push st p).
Proof. intros Hc. unfold push. rewrite scl_pop by exact Hc. reflexivity. Qed.
Lemma scl_fold_push c pts acc : 0 < c ->
  fold_left push (map (scl c) pts) (map (scl c) acc) = map (scl c) (fold_left push pts acc).
Proof.
  intros Hc. revert acc. induction pts as [|p r IH]; intros acc; [reflexivity|].
  cbn [map fold_left]. rewrite scl_push by exact Hc. apply IH.
Qed.
Lemma scl_chain c pts : 0 < c -> chain (map (scl c) pts) = map (scl c) (chain pts).
Proof.
  intros Hc. unfold chain, chain_rev.
  change (@nil pt) with (map (scl c) []) at 1. rewrite scl_fold_push by exact Hc.
  rewrite map_rev. reflexivity.
Qed.
Lemma map_tl {A B} (f : A -> B) l : tl (map f l) = map f (tl l).
Proof. destruct l; reflexivity. Qed.
Lemma scl_monotone_chain c pts : 0 < c -> monotone_chain (map (scl c) pts) = map (scl c) (monotone_chain pts).
Proof.
  intros Hc. unfold monotone_chain. rewrite scl_sort by exact Hc.
  rewrite <- map_rev, !scl_chain by exact Hc. rewrite map_tl, map_app. reflexivity.
Qed.

(* ---- point / line / polygon decision ---- *)
Lemma scl_has_2_distinct c pts : 0 < c -> has_2_distinct (map (scl c) pts) = has_2_distinct pts.
Proof.
  intros Hc. destruct pts as [|p0 r]; [reflexivity|]. cbn [map has_2_distinct].
  induction r as [|q r IH]; [reflexivity|]. cbn [map existsb]. rewrite scl_eqb by exact Hc. rewrite IH. reflexivity.
Qed.

Definition scl_verdict (c : Z) (v : linear_verdict) : linear_verdict :=
  match v with LinNo => LinNo | LinYes half => LinYes (map (scl c) half) | LinPanic => LinPanic end.
Lemma scl_is_linear_hull c h : 0 < c -> is_linear_hull (map (scl c) h) = scl_verdict c (is_linear_hull h).
Proof.
  intros Hc. unfold is_linear_hull. rewrite map_length.
  destruct (Nat.even (length h)); [reflexivity|].
  destruct (Nat.div (length h) 2) as [|i1] eqn:E; [reflexivity|].
  rewrite !nth_error_map.
  destruct (nth_error h i1) as [a|]; [|reflexivity].
  destruct (nth_error h (S (S i1))) as [b|]; [|reflexivity].
  cbn [option_map]. rewrite scl_eqb by exact Hc.
  destruct (pt_eqb a b); [|reflexivity].
  cbn [scl_verdict]. rewrite firstn_map. reflexivity.
Qed.

Lemma scl_last c l d : last (map (scl c) l) (scl c d) = scl c (last l d).
Proof. induction l as [|x r IH]; [reflexivity|]. destruct r; [reflexivity|]. exact IH. Qed.

Theorem hull_pts_scale_lemma : forall (c : Z) (ps : list pt), 0 < c ->
  hull_pts (map (scl c) ps) = scl_result c (hull_pts ps).
Proof.
  intros c ps Hc. destruct ps as [|p0 r]; [reflexivity|].
  unfold hull_pts. change (map (scl c) (p0 :: r)) with (scl c p0 :: map (scl c) r).
  change (scl c p0 :: map (scl c) r) with (map (scl c) (p0 :: r)).
  rewrite scl_has_2_distinct by exact Hc.
  destruct (has_2_distinct (p0 :: r)); cbn [negb]; [|reflexivity].
  rewrite scl_monotone_chain, scl_is_linear_hull by exact Hc.
  destruct (is_linear_hull (monotone_chain (p0 :: r))) as [|half|]; cbn [scl_verdict scl_result]; try reflexivity.
  destruct half as [|h0 t]; [reflexivity|].
  cbn [map scl_result]. f_equal. exact (scl_last c (h0 :: t) h0).
Qed.

(* ------------------------------------------------------------------------------------------ *)
(* candidates *)
Definition scl_cand (c : Z) (x : cand) : cand :=
  {| c_a := scl c (c_a x); c_d := scl c (c_d x);
     c_tmin := c * c * c_tmin x; c_tmax := c * c * c_tmax x; c_hmax := c * c * c_hmax x |}.

Lemma scl_sub c a b : sub (scl c a) (scl c b) = scl c (sub a b).
Proof. unfold sub, scl. cbn [fst snd]. f_equal; ring. Qed.
Lemma scl_dot c u v : dot (scl c u) (scl c v) = c * c * dot u v.
Proof. unfold dot, scl. cbn [fst snd]. ring. Qed.
Lemma scl_rot90 c d : rot90 (scl c d) = scl c (rot90 d).
Proof. unfold rot90, scl. cbn [fst snd]. f_equal; ring. Qed.

Lemma scl_ring_edges c r :
  ring_edges (map (scl c) r) = map (fun e => (scl c (fst e), scl c (snd e))) (ring_edges r).
Proof.
  induction r as [|a t IH]; [reflexivity|]. destruct t as [|b t']; [reflexivity|].
  change (map (scl c) (a :: b :: t')) with (scl c a :: scl c b :: map (scl c) t').
  cbn [ring_edges map fst snd]. f_equal.
  change (scl c b :: map (scl c) t') with (map (scl c) (b :: t')). exact IH.
Qed.

Lemma fold_min_scale k (f g : pt -> Z) l : 0 <= k -> (forall v, g v = k * f v) ->
  fold_right Z.min 0 (map g l) = k * fold_right Z.min 0 (map f l).
Proof.
  intros Hk E. induction l as [|x r IH]; cbn [map fold_right]; [ring|].
  rewrite IH, E. apply Z.mul_min_distr_nonneg_l. exact Hk.
Qed.
Lemma fold_max_scale k (f g : pt -> Z) l : 0 <= k -> (forall v, g v = k * f v) ->
  fold_right Z.max 0 (map g l) = k * fold_right Z.max 0 (map f l).
Proof.
  intros Hk E. induction l as [|x r IH]; cbn [map fold_right]; [ring|].
  rewrite IH, E. apply Z.mul_max_distr_nonneg_l. exact Hk.
Qed.

Lemma scl_candidate c ring e : 0 < c ->
  candidate (map (scl c) ring) (scl c (fst e), scl c (snd e)) = scl_cand c (candidate ring e).
Proof.
  intros Hc. assert (Hk : 0 <= c * c) by nia.
  unfold candidate, scl_cand. cbn [fst snd c_a c_d c_tmin c_tmax c_hmax].
  rewrite !map_map, !scl_sub.
  f_equal.
  - apply fold_min_scale; [exact Hk|]. intros v. rewrite scl_sub, scl_dot. reflexivity.
  - apply fold_max_scale; [exact Hk|]. intros v. rewrite scl_sub, scl_dot. reflexivity.
  - apply fold_max_scale; [exact Hk|]. intros v. rewrite scl_sub, scl_rot90, scl_dot. reflexivity.
Qed.

Theorem candidates_scale_lemma : forall (c : Z) (ring : list pt), 0 < c ->
  candidates (map (scl c) ring) = map (scl_cand c) (candidates ring).
Proof.
  intros c ring Hc. unfold candidates. rewrite scl_ring_edges, !map_map.
  apply map_ext. intros e. apply scl_candidate. exact Hc.
Qed.

(* ------------------------------------------------------------------------------------------ *)
(* rectangles and metrics over Q *)
Open Scope Q_scope.

Definition qpt_eq (a b : qpt) : Prop := fst a == fst b /\ snd a == snd b.
Definition qscl (c : Z) (p : qpt) : qpt := (inject_Z c * fst p, inject_Z c * snd p).

Lemma inject_Z_nonzero (n : Z) : n <> 0%Z -> ~ inject_Z n == 0.
Proof. intros Hn E. apply Hn. unfold Qeq in E. cbn in E. lia. Qed.

(* also when n = 0 (x / 0 is 0 in Q) *)
Lemma Qdiv_scale (m t n : Z) : m <> 0%Z ->
  inject_Z (m * t) / inject_Z (m * n) == inject_Z t / inject_Z n.
Proof.
  intros Hm. destruct (Z.eq_dec n 0) as [->|Hn].
  - rewrite Z.mul_0_r. unfold Qdiv. change (/ inject_Z 0) with 0. ring.
  - rewrite !inject_Z_mult. field. split; apply inject_Z_nonzero; assumption.
Qed.

Lemma scl_proj_on c o t : (0 < c)%Z -> qpt_eq (proj_on (scl c o) (c * c * t)) (qscl c (proj_on o t)).
Proof.
  intros Hc. unfold proj_on, qpt_eq, qscl. cbv zeta. rewrite scl_dot. unfold scl. cbn [fst snd].
  rewrite Qdiv_scale by nia. rewrite !inject_Z_mult. split; ring.
Qed.

Definition qrect_scl (c : Z) (r : qrect) : qrect :=
  {| r_origin := qscl c (r_origin r); r_span1 := qscl c (r_span1 r); r_span2 := qscl c (r_span2 r) |}.
Definition qrect_eq (r s : qrect) : Prop :=
  qpt_eq (r_origin r) (r_origin s) /\ qpt_eq (r_span1 r) (r_span1 s) /\ qpt_eq (r_span2 r) (r_span2 s).

Lemma scl_cand_rect c x : (0 < c)%Z -> qrect_eq (cand_rect (scl_cand c x)) (qrect_scl c (cand_rect x)).
Proof.
  intros Hc. unfold cand_rect, scl_cand, qrect_eq, qrect_scl.
  cbn [c_a c_d c_tmin c_tmax c_hmax r_origin r_span1 r_span2].
  destruct (scl_proj_on c (c_d x) (c_tmin x) Hc) as [A1 A2].
  destruct (scl_proj_on c (c_d x) (c_tmax x) Hc) as [B1 B2].
  pose proof (scl_proj_on c (rot90 (c_d x)) (c_hmax x) Hc) as [C1 C2].
  rewrite <- scl_rot90 in C1, C2.
  unfold qpt_eq, qadd, qsub, qscl, q_of_pt in *. cbn [fst snd] in *.
  repeat split.
  - rewrite A1. unfold scl. cbn [fst]. rewrite inject_Z_mult. ring.
  - rewrite A2. unfold scl. cbn [snd]. rewrite inject_Z_mult. ring.
  - rewrite A1, B1. ring.
  - rewrite A2, B2. ring.
  - exact C1.
  - exact C2.
Qed.

(* corner by corner *)
Lemma scl_rect_corners c x : (0 < c)%Z ->
  Forall2 qpt_eq (rect_corners (cand_rect (scl_cand c x))) (map (qscl c) (rect_corners (cand_rect x))).
Proof.
  intros Hc. destruct (scl_cand_rect c x Hc) as [[O1 O2] [[S1 S2] [T1 T2]]].
  unfold rect_corners. cbn [map].
  unfold qrect_scl in *. cbn [r_origin r_span1 r_span2] in *.
  unfold qpt_eq, qadd, qscl in *. cbn [fst snd] in *.
  repeat constructor; cbn [fst snd];
    rewrite ?O1, ?O2, ?S1, ?S2, ?T1, ?T2; try reflexivity; ring.
Qed.

Lemma Qmin_scale (k x y x' y' : Q) : 0 < k -> x' == k * x -> y' == k * y -> Qmin x' y' == k * Qmin x y.
Proof.
  intros Hk Ex Ey.
  destruct (Q.min_spec x y) as [[H1 E1]|[H1 E1]]; destruct (Q.min_spec x' y') as [[H2 E2]|[H2 E2]];
    rewrite E1, E2.
  - exact Ex.
  - exfalso. rewrite Ex, Ey in H2. apply (proj2 (Qmult_lt_l _ _ _ Hk)) in H1. apply (Qlt_not_le _ _ H1). exact H2.
  - exfalso. rewrite Ex, Ey in H2. apply (proj1 (Qmult_lt_l _ _ _ Hk)) in H2. apply (Qlt_not_le _ _ H2). exact H1.
  - exact Ey.
Qed.

Theorem cand_metric_scale_lemma : forall (k : metric_kind) (c : Z) (x : cand), (0 < c)%Z ->
  cand_metric k (scl_cand c x) == inject_Z (c * c) * cand_metric k x.
Proof.
  intros k c x Hc. unfold cand_metric, rect_metric.
  destruct (scl_cand_rect c x Hc) as [_ [[S1 S2] [T1 T2]]].
  unfold qrect_scl in *. cbn [r_origin r_span1 r_span2] in *. unfold qscl in *. cbn [fst snd] in *.
  destruct k.
  - unfold qcross2. rewrite S1, S2, T1, T2, inject_Z_mult. ring.
  - apply Qmin_scale.
    + rewrite inject_Z_mult. assert (0 < inject_Z c) by (unfold Qlt; cbn; lia).
      apply Qmult_lt_0_compat; assumption.
    + unfold qlen2, qdot. rewrite S1, S2, inject_Z_mult. ring.
    + unfold qlen2, qdot. rewrite T1, T2, inject_Z_mult. ring.
Qed.

(* the first strict minimum is kept *)
Lemma scl_first_min k c best l : (0 < c)%Z ->
  first_min k (scl_cand c best) (map (scl_cand c) l) = scl_cand c (first_min k best l).
Proof.
  intros Hc. assert (Hk : 0 < inject_Z (c * c)) by (unfold Qlt; cbn; nia).
  revert best. induction l as [|a r IH]; intros best; [reflexivity|].
  cbn [map first_min].
  destruct (Qlt_le_dec (cand_metric k (scl_cand c a)) (cand_metric k (scl_cand c best))) as [H1|H1];
    destruct (Qlt_le_dec (cand_metric k a) (cand_metric k best)) as [H2|H2]; try apply IH; exfalso;
    rewrite !cand_metric_scale_lemma in H1 by exact Hc.
  - apply (proj1 (Qmult_lt_l _ _ _ Hk)) in H1. apply (Qlt_not_le _ _ H1). exact H2.
  - apply (proj2 (Qmult_lt_l _ _ _ Hk)) in H2. apply (Qlt_not_le _ _ H2). exact H1.
Qed.

Theorem find_mbr_scale_lemma : forall (k : metric_kind) (c : Z) (ring : list pt), (0 < c)%Z ->
  find_mbr k (map (scl c) ring) = option_map (scl_cand c) (find_mbr k ring).
Proof.
  intros k c ring Hc. unfold find_mbr. rewrite candidates_scale_lemma by exact Hc.
  destruct (candidates ring) as [|x r]; [reflexivity|].
  cbn [map option_map]. rewrite scl_first_min by exact Hc. reflexivity.
Qed.

Definition scl_mbr (c : Z) (m : mbr_result) : mbr_result :=
  match m with
  | MHull r => MHull (scl_result c r)
  | MRect x => MRect (scl_cand c x)
  | MPanic => MPanic
  end.

Theorem mbr_pts_scale_lemma : forall (k : metric_kind) (c : Z) (ps : list pt), (0 < c)%Z ->
  mbr_pts k (map (scl c) ps) = scl_mbr c (mbr_pts k ps).
Proof.
  intros k c ps Hc. unfold mbr_pts. rewrite hull_pts_scale_lemma by exact Hc.
  destruct (hull_pts ps) as [|p|a b|ring|]; cbn [scl_result scl_mbr]; try reflexivity.
  rewrite find_mbr_scale_lemma by exact Hc.
  destruct (find_mbr k ring); reflexivity.
Qed.
