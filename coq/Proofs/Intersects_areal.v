(* Property C09, second part: (1) the witness oracle [share_witness] is a verified decision procedure
   for "the two point sets share a point" (by the sufficiency theorem of Proofs/Planar_slab.v);
   (2) completeness of Intersects when one operand is areal and the other is not: a path that
   meets no ring edge keeps its crossing parity (staircase argument on top of the exact
   segment-segment distance), so the StartPoint probe decides. *)
From Coq Require Import QArith Qabs Qround Qreduction List Bool ZArith Lia Lqa Setoid Morphisms.
From SF Require Import Base.GeomAST Base.QKernel Base.Planar Proofs.Planar_proofs
  Proofs.Planar_slab_base Proofs.Planar_slab
  Model.Intersects Model.Distance Proofs.Intersects_proofs Proofs.Distance_proofs Proofs.Distance_lower.
Import ListNotations.
Open Scope Q_scope.

(* the boolean hypothesis of Model/Intersects.v is the Prop of Planar_slab_base *)
Lemma rings_closed_prop g : Intersects.rings_closed g = true -> Planar_slab_base.rings_closed g.
Proof.
  unfold Intersects.rings_closed, Planar_slab_base.rings_closed, poly_rings_closed.
  rewrite forallb_forall. intros H y Hy r Hr. specialize (H y Hy). rewrite forallb_forall in H. exact (H r Hr).
Qed.

(* ================================================================ (1) the oracle is exact *)
Theorem share_witness_iff a b :
  Intersects.rings_closed a = true -> Intersects.rings_closed b = true ->
  (share_witness a b = true <-> exists p, inG a p = true /\ inG b p = true).
Proof.
  intros Ca Cb. unfold share_witness. split.
  - intros H. apply existsb_exists in H. destruct H as [w [_ H]]. apply andb_true_iff in H. exists (fst w). exact H.
  - intros [p [Ha Hb]]. unfold pair_witnesses.
    destruct (witnesses_sufficient (canon_segs (arr_segments a ++ arr_segments b)) (canon_pts (arr_points a ++ arr_points b)) p)
      as [w [d [Hin Hloc]]].
    destruct (pair_covers a b) as [Cova Covb].
    pose proof (inG_of_locate a p w (Hloc a Cova (rings_closed_prop a Ca))) as Ea.
    pose proof (inG_of_locate b p w (Hloc b Covb (rings_closed_prop b Cb))) as Eb.
    apply existsb_exists. exists (w, d). split; [exact Hin|]. cbn [fst]. rewrite <- Ea, <- Eb, Ha, Hb. reflexivity.
Qed.

(* ================================================================ (2) paths that avoid a ring *)
Definition avoids (es : list seg) (s : seg) : Prop :=
  forall e, In e es -> forall w, ~ (on_seg e w = true /\ on_seg s w = true).

Lemma il_empty_of_avoid a b u v :
  ~ pt_eq a b -> ~ pt_eq u v -> (forall w, ~ (on_seg (a, b) w = true /\ on_seg (u, v) w = true)) ->
  intersect_line_empty (a, b) (u, v) = true.
Proof.
  intros Hab Huv H. destruct (intersect_line_empty (a, b) (u, v)) eqn:E; [reflexivity|].
  destruct (il_sound a b u v Hab Huv E) as [w Hw]. exfalso. exact (H w Hw).
Qed.

Lemma il_empty_turns a b c d :
  intersect_line_empty (a, b) (c, d) = true ->
  orientation a b c = orientation a b d \/ orientation c d a = orientation c d b.
Proof.
  unfold intersect_line_empty.
  destruct (turn_eqb (orientation a b c) (orientation a b d)) eqn:E1; [left; apply turn_eqb_eq; exact E1|].
  destruct (turn_eqb (orientation c d a) (orientation c d b)) eqn:E2; [right; apply turn_eqb_eq; exact E2|].
  simpl. discriminate.
Qed.

Lemma same_turn_pos a b u v : orientation a b u = orientation a b v -> qltb 0 (cross a b u) = qltb 0 (cross a b v).
Proof.
  intros H. apply eq_true_iff_eq. rewrite !qltb_true_iff.
  destruct (orientation_cases a b u) as [[E1 H1]|[[E1 H1]|[E1 H1]]];
  destruct (orientation_cases a b v) as [[E2 H2]|[[E2 H2]|[E2 H2]]];
  try (rewrite E1, E2 in H; discriminate); split; intros; lra.
Qed.
Lemma same_turn_neg a b u v : orientation a b u = orientation a b v -> qltb (cross a b u) 0 = qltb (cross a b v) 0.
Proof.
  intros H. apply eq_true_iff_eq. rewrite !qltb_true_iff.
  destruct (orientation_cases a b u) as [[E1 H1]|[[E1 H1]|[E1 H1]]];
  destruct (orientation_cases a b v) as [[E2 H2]|[[E2 H2]|[E2 H2]]];
  try (rewrite E1, E2 in H; discriminate); split; intros; lra.
Qed.

Definition turn_opp (t : turn) : turn := match t with LeftTurn => RightTurn | RightTurn => LeftTurn | Collinear => Collinear end.
Lemma orientation_swap a b p : orientation b a p = turn_opp (orientation a b p).
Proof.
  pose proof (cross_swap a b p) as S.
  destruct (orientation_cases a b p) as [[E H]|[[E H]|[E H]]]; rewrite E; cbn [turn_opp].
  - apply orientation_right. lra.
  - apply orientation_collinear. lra.
  - apply orientation_left. lra.
Qed.

Lemma edge_cross_pt_eq a b p p' : pt_eq p p' -> edge_cross a b p = edge_cross a b p'.
Proof.
  intros H. unfold edge_cross. rewrite (cross_proper a a (reflexivity a) b b (reflexivity b) p p' H).
  rewrite (cross_proper b b (reflexivity b) a a (reflexivity a) p p' H).
  destruct H as [_ H2]. cbv zeta.
  rewrite (Qle_bool_proper _ _ (reflexivity (snd a)) _ _ H2), (Qle_bool_proper _ _ (reflexivity (snd b)) _ _ H2). reflexivity.
Qed.
Lemma vcross_pt_eq a b p p' : pt_eq p p' -> Planar_slab_base.vcross a b p = Planar_slab_base.vcross a b p'.
Proof.
  intros H. unfold Planar_slab_base.vcross. rewrite (cross_proper a a (reflexivity a) b b (reflexivity b) p p' H).
  rewrite (cross_proper b b (reflexivity b) a a (reflexivity a) p p' H).
  destruct H as [H1 _]. cbv zeta.
  rewrite (Qle_bool_proper _ _ (reflexivity (fst a)) _ _ H1), (Qle_bool_proper _ _ (reflexivity (fst b)) _ _ H1). reflexivity.
Qed.

(* a horizontal segment that does not meet the edge: same crossing bit at both ends *)
Lemma edge_cross_horizontal a b u v :
  snd u == snd v -> (forall w, ~ (on_seg (a, b) w = true /\ on_seg (u, v) w = true)) ->
  edge_cross a b u = edge_cross a b v.
Proof.
  intros Hy Hav.
  destruct (pt_eqb a b) eqn:Eab.
  { apply pt_eqb_iff in Eab. rewrite !(edge_cross_degenerate a b) by exact Eab. reflexivity. }
  destruct (pt_eqb u v) eqn:Euv.
  { apply pt_eqb_iff in Euv. apply edge_cross_pt_eq. exact Euv. }
  apply pt_eqb_false_iff in Eab. apply pt_eqb_false_iff in Euv.
  pose proof (il_empty_turns _ _ _ _ (il_empty_of_avoid a b u v Eab Euv Hav)) as T.
  assert (Hx : ~ fst u == fst v) by (intros E; apply Euv; split; assumption).
  unfold edge_cross. cbv zeta.
  rewrite <- (Qle_bool_proper _ _ (reflexivity (snd a)) _ _ Hy), <- (Qle_bool_proper _ _ (reflexivity (snd b)) _ _ Hy).
  destruct (Qle_bool (snd a) (snd u)) eqn:Ya; destruct (Qle_bool (snd b) (snd u)) eqn:Yb; cbn [Bool.eqb]; try reflexivity.
  - (* a not above, b above *)
    apply Qle_bool_iff in Ya. apply Qle_bool_false_iff in Yb.
    destruct T as [T|T]; [apply same_turn_pos; exact T|]. exfalso.
    destruct (orientation_cases u v a) as [[E1 H1]|[[E1 H1]|[E1 H1]]];
    destruct (orientation_cases u v b) as [[E2 H2]|[[E2 H2]|[E2 H2]]];
      try (rewrite E1, E2 in T; discriminate);
      unfold cross in H1, H2; destruct (Q_dec (fst u) (fst v)) as [[K|K]|K]; try contradiction; nra.
  - apply Qle_bool_false_iff in Ya. apply Qle_bool_iff in Yb.
    destruct T as [T|T].
    + assert (T' : orientation b a u = orientation b a v).
      { rewrite !(orientation_swap a b). f_equal. exact T. }
      apply same_turn_pos; exact T'.
    + exfalso.
      destruct (orientation_cases u v a) as [[E1 H1]|[[E1 H1]|[E1 H1]]];
      destruct (orientation_cases u v b) as [[E2 H2]|[[E2 H2]|[E2 H2]]];
        try (rewrite E1, E2 in T; discriminate);
        unfold cross in H1, H2; destruct (Q_dec (fst u) (fst v)) as [[K|K]|K]; try contradiction; nra.
Qed.

Lemma vcross_degenerate a b p : pt_eq a b -> Planar_slab_base.vcross a b p = false.
Proof. intros [H _]. apply vcross_vertical. exact H. Qed.

(* a vertical segment that does not meet the edge: same vertical-ray crossing bit at both ends *)
Lemma vcross_vertical_seg a b u v :
  fst u == fst v -> (forall w, ~ (on_seg (a, b) w = true /\ on_seg (u, v) w = true)) ->
  Planar_slab_base.vcross a b u = Planar_slab_base.vcross a b v.
Proof.
  intros Hx Hav.
  destruct (pt_eqb a b) eqn:Eab.
  { apply pt_eqb_iff in Eab. rewrite !(vcross_degenerate a b) by exact Eab. reflexivity. }
  destruct (pt_eqb u v) eqn:Euv.
  { apply pt_eqb_iff in Euv. apply vcross_pt_eq. exact Euv. }
  apply pt_eqb_false_iff in Eab. apply pt_eqb_false_iff in Euv.
  pose proof (il_empty_turns _ _ _ _ (il_empty_of_avoid a b u v Eab Euv Hav)) as T.
  assert (Hy : ~ snd u == snd v) by (intros E; apply Euv; split; assumption).
  unfold Planar_slab_base.vcross. cbv zeta.
  rewrite <- (Qle_bool_proper _ _ (reflexivity (fst a)) _ _ Hx), <- (Qle_bool_proper _ _ (reflexivity (fst b)) _ _ Hx).
  destruct (Qle_bool (fst a) (fst u)) eqn:Xa; destruct (Qle_bool (fst b) (fst u)) eqn:Xb; cbn [Bool.eqb]; try reflexivity.
  - apply Qle_bool_iff in Xa. apply Planar_slab_base.Qle_bool_false_iff in Xb.
    destruct T as [T|T]; [apply same_turn_neg; exact T|]. exfalso.
    destruct (orientation_cases u v a) as [[E1 H1]|[[E1 H1]|[E1 H1]]];
    destruct (orientation_cases u v b) as [[E2 H2]|[[E2 H2]|[E2 H2]]];
      try (rewrite E1, E2 in T; discriminate);
      unfold cross in H1, H2; destruct (Q_dec (snd u) (snd v)) as [[K|K]|K]; try contradiction; nra.
  - apply Planar_slab_base.Qle_bool_false_iff in Xa. apply Qle_bool_iff in Xb.
    destruct T as [T|T].
    + assert (T' : orientation b a u = orientation b a v).
      { rewrite !(orientation_swap a b). f_equal. exact T. }
      apply same_turn_neg; exact T'.
    + exfalso.
      destruct (orientation_cases u v a) as [[E1 H1]|[[E1 H1]|[E1 H1]]];
      destruct (orientation_cases u v b) as [[E2 H2]|[[E2 H2]|[E2 H2]]];
        try (rewrite E1, E2 in T; discriminate);
        unfold cross in H1, H2; destruct (Q_dec (snd u) (snd v)) as [[K|K]|K]; try contradiction; nra.
Qed.

Lemma edges_parity_horizontal es u v :
  snd u == snd v -> avoids es (u, v) -> edges_parity es u = edges_parity es v.
Proof.
  intros Hy Hav. unfold edges_parity. apply fold_xor_ext. intros [a b] He. cbn [fst snd].
  apply edge_cross_horizontal; [exact Hy | exact (Hav (a, b) He)].
Qed.
Lemma vparity_vertical es u v :
  fst u == fst v -> avoids es (u, v) -> vparity es u = vparity es v.
Proof.
  intros Hx Hav. unfold vparity. apply fold_xor_ext. intros [a b] He. cbn [fst snd].
  apply vcross_vertical_seg; [exact Hx | exact (Hav (a, b) He)].
Qed.

Lemma avoids_off es u v : avoids es (u, v) -> on_edges es u = false /\ on_edges es v = false.
Proof.
  intros H. split.
  - destruct (on_edges es u) eqn:E; [|reflexivity]. exfalso. unfold on_edges in E. apply existsb_exists in E.
    destruct E as [e [He Hw]]. apply (H e He u). split; [exact Hw | apply on_seg_left].
  - destruct (on_edges es v) eqn:E; [|reflexivity]. exfalso. unfold on_edges in E. apply existsb_exists in E.
    destruct E as [e [He Hw]]. apply (H e He v). split; [exact Hw | apply on_seg_right].
Qed.

(* for a closed ring both axis-parallel moves keep the (horizontal-ray) parity *)
Lemma ring_parity_vertical ps u v :
  pts_closed ps = true -> fst u == fst v -> avoids (segs_of_pts ps) (u, v) ->
  edges_parity (segs_of_pts ps) u = edges_parity (segs_of_pts ps) v.
Proof.
  intros C Hx Hav. destruct (avoids_off _ u v Hav) as [Ou Ov].
  rewrite (closed_ring_parity ps u C Ou), (closed_ring_parity ps v C Ov). apply vparity_vertical; assumption.
Qed.

Lemma edges_parity_pt_eq es p p' : pt_eq p p' -> edges_parity es p = edges_parity es p'.
Proof. intros H. unfold edges_parity. apply fold_xor_ext. intros e _. apply edge_cross_pt_eq. exact H. Qed.

(* ---- a positive clearance between the ring and a segment that avoids it ---- *)
Lemma Qmin_pos a b : 0 < a -> 0 < b -> exists m, 0 < m /\ m <= a /\ m <= b.
Proof. intros Ha Hb. destruct (Qlt_le_dec a b); [exists a | exists b]; repeat split; lra. Qed.

Lemma clearance es u v :
  ~ pt_eq u v -> avoids es (u, v) ->
  exists mu, 0 < mu /\ forall e, In e es -> forall z q, on_seg e z = true -> on_seg (u, v) q = true -> mu <= d2_xy z q.
Proof.
  intros Huv. induction es as [|[a b] es IH]; intros Hav.
  - exists 1. split; [lra|]. intros e [].
  - assert (Hav' : avoids es (u, v)) by (intros e He; apply Hav; right; exact He).
    destruct (IH Hav') as [mu' [Hmu' Hle']].
    assert (Hab : forall w, ~ (on_seg (a, b) w = true /\ on_seg (u, v) w = true)) by (apply Hav; left; reflexivity).
    assert (Ex : exists m, 0 < m /\ forall z q, on_seg (a, b) z = true -> on_seg (u, v) q = true -> m <= d2_xy z q).
    { destruct (pt_eqb a b) eqn:Eab.
      - apply pt_eqb_iff in Eab. exists (d2_xy_line a (u, v)). split.
        + pose proof (d2_xy_line_nonneg a (u, v)) as N.
          destruct (Qeq_dec (d2_xy_line a (u, v)) 0) as [Z|Z]; [|lra]. exfalso.
          apply (Hab a). split; [apply on_seg_left | apply d2_xy_line_zero; assumption].
        + intros z q Hz Hq. pose proof (on_seg_degenerate a b z Eab Hz) as Ez.
          rewrite (d2_xy_proper z a q q Ez); [|reflexivity]. apply d2_xy_line_le; assumption.
      - apply pt_eqb_false_iff in Eab. exists (d2_line_line (a, b) (u, v)). split.
        + pose proof (d2_line_line_nonneg (a, b) (u, v)) as N.
          destruct (Qeq_dec (d2_line_line (a, b) (u, v)) 0) as [Z|Z]; [|lra]. exfalso.
          destruct (d2_line_line_zero (a, b) (u, v) Eab Huv Z) as [w Hw]. exact (Hab w Hw).
        + intros z q Hz Hq. apply seg_seg_d2_lower; assumption. }
    destruct Ex as [m [Hm Hle]]. destruct (Qmin_pos mu' m Hmu' Hm) as [mu [H0 [H1 H2]]].
    exists mu. split; [exact H0|]. intros e [<-|He] z q Hz Hq.
    + eapply Qle_trans; [exact H2 | apply Hle; assumption].
    + eapply Qle_trans; [exact H1 | apply (Hle' e He); assumption].
Qed.

Lemma pick_steps L2 mu : 0 <= L2 -> 0 < mu ->
  exists n : nat, (0 < n)%nat /\ L2 < mu * inject_Z (Z.of_nat n) * inject_Z (Z.of_nat n).
Proof.
  intros HL Hmu. set (c := Qceiling (L2 / mu)). exists (S (Z.to_nat c)). split; [lia|].
  assert (Hc : L2 / mu <= inject_Z c) by apply Qle_ceiling.
  assert (HN : inject_Z c + 1 <= inject_Z (Z.of_nat (S (Z.to_nat c)))).
  { change 1 with (inject_Z 1). rewrite <- (inject_Z_plus c 1). rewrite <- Zle_Qle. lia. }
  set (N := inject_Z (Z.of_nat (S (Z.to_nat c)))) in *.
  assert (Hd : ~ mu == 0) by lra.
  assert (E : L2 / mu * mu == L2) by (field; exact Hd).
  set (x := L2 / mu) in *.
  assert (0 <= x).
  { destruct (Qlt_le_dec x 0) as [K|K]; [|exact K]. exfalso. nra. }
  assert (N1 : 1 <= N) by lra.
  assert (A1 : x * mu < N * mu) by (apply Qmult_lt_compat_r; lra).
  assert (A2 : 0 <= (N * mu) * (N - 1)) by (apply Qmult_le_0_compat; nra).
  assert (A3 : mu * N * N == N * mu + (N * mu) * (N - 1)) by ring.
  lra.
Qed.

Lemma pt_at_0 u v : pt_eq (pt_at u v 0) u.
Proof. split; cbn [pt_at fst snd]; ring. Qed.
Lemma pt_at_1 u v t : t == 1 -> pt_eq (pt_at u v t) v.
Proof. intros H. split; cbn [pt_at fst snd]; rewrite H; ring. Qed.

(* one stair: along u..v from t to t + delta on the segment, first horizontally, then vertically *)
Lemma stair_step ps u v mu t delta :
  pts_closed ps = true ->
  (forall e, In e (segs_of_pts ps) -> forall z q, on_seg e z = true -> on_seg (u, v) q = true -> mu <= d2_xy z q) ->
  0 <= t -> 0 <= delta -> t + delta <= 1 ->
  ((fst v - fst u) * (fst v - fst u) + (snd v - snd u) * (snd v - snd u)) * delta * delta < mu ->
  edges_parity (segs_of_pts ps) (pt_at u v t) = edges_parity (segs_of_pts ps) (pt_at u v (t + delta)).
Proof.
  intros C Hclear Ht Hd Htd Hsmall.
  set (dx := fst v - fst u) in *. set (dy := snd v - snd u) in *.
  set (zk := pt_at u v t). set (zk1 := pt_at u v (t + delta)).
  set (c := (fst zk1, snd zk)).
  assert (Hq : on_seg (u, v) zk = true) by (apply pt_at_on_seg; lra).
  assert (Sx : 0 <= dx * dx) by apply sq_nonneg. assert (Sy : 0 <= dy * dy) by apply sq_nonneg.
  assert (Sd : 0 <= delta * delta) by apply sq_nonneg.
  assert (Fx : fst zk1 - fst zk == dx * delta) by (unfold zk1, zk, pt_at, dx; cbn [fst snd]; ring).
  assert (Fy : snd zk1 - snd zk == dy * delta) by (unfold zk1, zk, pt_at, dy; cbn [fst snd]; ring).
  assert (H1 : avoids (segs_of_pts ps) (zk, c)).
  { intros e He w [Hwe Hws]. pose proof (Hclear e He w zk Hwe Hq) as Hmu.
    apply on_seg_iff in Hws. destruct Hws as [s [[S0 S1] [Hx Hy]]]. unfold c in Hx, Hy. cbn [fst snd] in Hx, Hy.
    rewrite d2_xy_expand in Hmu.
    assert (Ex : fst w - fst zk == s * (dx * delta)) by (rewrite Hx, <- Fx; ring).
    assert (Ey : snd w - snd zk == 0) by (rewrite Hy; ring).
    rewrite Ex, Ey in Hmu.
    assert (B : s * (dx * delta) * (s * (dx * delta)) <= dx * dx * (delta * delta)).
    { assert (s * s <= 1) by nra. assert (0 <= dx * dx * (delta * delta)) by (apply Qmult_le_0_compat; assumption).
      assert (E : s * (dx * delta) * (s * (dx * delta)) == (s * s) * (dx * dx * (delta * delta))) by ring.
      rewrite E. nra. }
    assert (0 <= dy * dy * (delta * delta)) by (apply Qmult_le_0_compat; assumption).
    assert (EE : (dx * dx + dy * dy) * delta * delta == dx * dx * (delta * delta) + dy * dy * (delta * delta)) by ring.
    lra. }
  assert (H2 : avoids (segs_of_pts ps) (c, zk1)).
  { intros e He w [Hwe Hws]. pose proof (Hclear e He w zk Hwe Hq) as Hmu.
    apply on_seg_iff in Hws. destruct Hws as [s [[S0 S1] [Hx Hy]]]. unfold c in Hx, Hy. cbn [fst snd] in Hx, Hy.
    rewrite d2_xy_expand in Hmu.
    assert (Ex : fst w - fst zk == dx * delta) by (rewrite Hx, <- Fx; ring).
    assert (Ey : snd w - snd zk == s * (dy * delta)) by (rewrite Hy, <- Fy; ring).
    rewrite Ex, Ey in Hmu.
    assert (B : s * (dy * delta) * (s * (dy * delta)) <= dy * dy * (delta * delta)).
    { assert (s * s <= 1) by nra. assert (0 <= dy * dy * (delta * delta)) by (apply Qmult_le_0_compat; assumption).
      assert (E : s * (dy * delta) * (s * (dy * delta)) == (s * s) * (dy * dy * (delta * delta))) by ring.
      rewrite E. nra. }
    assert (EE : (dx * dx + dy * dy) * delta * delta == dx * dx * (delta * delta) + dy * dy * (delta * delta)) by ring.
    assert (E3 : dx * delta * (dx * delta) == dx * dx * (delta * delta)) by ring.
    lra. }
  transitivity (edges_parity (segs_of_pts ps) c).
  - apply edges_parity_horizontal; [reflexivity | exact H1].
  - apply ring_parity_vertical; [exact C | reflexivity | exact H2].
Qed.

(* a segment that meets no edge of a closed ring has the same crossing parity at both ends *)
Theorem path_parity ps u v :
  pts_closed ps = true -> avoids (segs_of_pts ps) (u, v) ->
  edges_parity (segs_of_pts ps) u = edges_parity (segs_of_pts ps) v.
Proof.
  intros C Hav. destruct (pt_eqb u v) eqn:Euv.
  { apply pt_eqb_iff in Euv. apply edges_parity_pt_eq. exact Euv. }
  apply pt_eqb_false_iff in Euv.
  destruct (clearance _ u v Euv Hav) as [mu [Hmu Hclear]].
  set (L2 := (fst v - fst u) * (fst v - fst u) + (snd v - snd u) * (snd v - snd u)).
  assert (HL : 0 <= L2) by (unfold L2; pose proof (sq_nonneg (fst v - fst u)); pose proof (sq_nonneg (snd v - snd u)); lra).
  destruct (pick_steps L2 mu HL Hmu) as [n [Hn HN]].
  set (N := inject_Z (Z.of_nat n)) in *.
  assert (N1 : 1 <= N) by (unfold N; change 1 with (inject_Z 1); rewrite <- Zle_Qle; lia).
  assert (Nd : ~ N == 0) by lra.
  set (delta := / N).
  assert (ND : N * delta == 1) by (unfold delta; field; exact Nd).
  assert (D0 : 0 < delta) by (unfold delta; apply Qinv_lt_0_compat; lra).
  assert (Hsmall : L2 * delta * delta < mu).
  { assert (E : mu * N * N * (delta * delta) == mu * ((N * delta) * (N * delta))) by ring.
    rewrite ND in E. assert (0 < delta * delta) by nra.
    assert (L2 * (delta * delta) < mu * N * N * (delta * delta)) by (apply Qmult_lt_compat_r; assumption). lra. }
  assert (Main : forall k, (k <= n)%nat ->
            edges_parity (segs_of_pts ps) u = edges_parity (segs_of_pts ps) (pt_at u v (inject_Z (Z.of_nat k) * delta))).
  { induction k as [|k IH]; intros Hk.
    - apply edges_parity_pt_eq. split; cbn [pt_at fst snd Z.of_nat]; change (inject_Z 0) with 0; ring.
    - rewrite (IH ltac:(lia)).
      assert (ES : inject_Z (Z.of_nat (S k)) == inject_Z (Z.of_nat k) + 1).
      { rewrite Nat2Z.inj_succ. unfold Z.succ. rewrite inject_Z_plus. reflexivity. }
      assert (Kn : inject_Z (Z.of_nat (S k)) <= N) by (unfold N; rewrite <- Zle_Qle; lia).
      assert (K0 : 0 <= inject_Z (Z.of_nat k)) by (change 0 with (inject_Z 0); rewrite <- Zle_Qle; lia).
      rewrite (stair_step ps u v mu (inject_Z (Z.of_nat k) * delta) delta C Hclear); try lra; try exact Hsmall.
      + apply edges_parity_pt_eq. split; cbn [pt_at fst snd]; rewrite ES; ring.
      + nra.
      + assert (inject_Z (Z.of_nat k) * delta + delta == inject_Z (Z.of_nat (S k)) * delta) by (rewrite ES; ring).
        assert (inject_Z (Z.of_nat (S k)) * delta <= N * delta) by (apply Qmult_le_compat_r; lra). lra. }
  rewrite (Main n (le_n n)). apply edges_parity_pt_eq. apply pt_at_1. exact ND.
Qed.

(* ================================================================ rings: the side test, exactly *)
Definition ring_wf (r : lineT Q) : bool :=
  match line_pts r with [] => false | a :: rest => existsb (fun q => negb (pt_eqb a q)) rest end.
Definition poly_rings_wf (y : polyT Q) : bool := forallb ring_wf (poly_rings y).

Lemma ring_wf_pts r : ring_wf r = true -> pts_wf (line_pts r) = true /\ line_segs r = ring_edges (line_pts r).
Proof.
  unfold ring_wf, pts_wf, line_segs, segs_of_pts. destruct (line_pts r) as [|a [|b rest]]; try discriminate.
  intros H. split; [exact H | reflexivity].
Qed.

Lemma ring_side_spec r p :
  pts_closed (line_pts r) = true -> ring_wf r = true ->
  relate_point_to_ring p (line_pts r) =
  if on_edges (line_segs r) p then SBoundary
  else if edges_parity (line_segs r) p then SInterior else SExterior.
Proof.
  intros C W. destruct (on_edges (line_segs r) p) eqn:E.
  - rewrite relate_point_to_ring_spec.
    destruct (ring_wf_pts r W) as [Wf _].
    destruct (on_line_cover r p Wf E) as [s [Hs Hp]].
    assert (X : existsb (fun ln => on_seg ln p) (as_lines (line_pts r)) = true).
    { apply existsb_exists. exists s. split; [exact Hs | exact Hp]. }
    rewrite X. reflexivity.
  - apply ring_side_in; assumption.
Qed.

(* ================================================================ point against polygon: complete *)
(* rings properly nested, as OGC validity demands: holes lie in the closed shell, the shell does
   not enter a hole, a hole does not enter another hole *)
Definition strictly_in (r : lineT Q) (p : pt) : Prop := on_edges (line_segs r) p = false /\ edges_parity (line_segs r) p = true.
Definition strictly_out (r : lineT Q) (p : pt) : Prop := on_edges (line_segs r) p = false /\ edges_parity (line_segs r) p = false.
Definition poly_nest_ok (y : polyT Q) : Prop :=
  match poly_rings y with
  | [] => True
  | shell :: holes =>
      (forall h p, In h holes -> on_edges (line_segs h) p = true -> ~ strictly_out shell p) /\
      (forall h p, In h holes -> on_edges (line_segs shell) p = true -> ~ strictly_in h p) /\
      (forall h h' p, In h holes -> In h' holes -> on_edges (line_segs h) p = true -> ~ strictly_in h' p)
  end.

Lemma ix_xy_polygon_complete p y :
  poly_rings_closed y = true -> poly_rings_wf y = true -> poly_nest_ok y ->
  in_poly y p = true -> ix_xy_polygon p y = true.
Proof.
  unfold poly_rings_closed, poly_rings_wf, poly_nest_ok, ix_xy_polygon, in_poly, poly_boundary, poly_interior, poly_ring_segs.
  destruct (poly_rings y) as [|shell holes]; [intros _ _ _ H; simpl in H; discriminate|].
  cbn [forallb map]. intros C W [V1 [V2 V3]] H.
  apply andb_true_iff in C. destruct C as [Cs Ch]. apply andb_true_iff in W. destruct W as [Ws Wh].
  rewrite forallb_forall in Ch, Wh.
  rewrite (ring_side_spec shell p Cs Ws).
  assert (Holes : forall h, In h holes ->
            (on_edges (line_segs h) p = true \/ edges_parity (line_segs h) p = false) ->
            negb (side_is_interior (relate_point_to_ring p (line_pts h))) = true).
  { intros h Hh K. rewrite (ring_side_spec h p (Ch h Hh) (Wh h Hh)).
    destruct (on_edges (line_segs h) p) eqn:E; [reflexivity|]. destruct K as [K|K]; [discriminate|]. rewrite K. reflexivity. }
  destruct (on_edges (line_segs shell) p) eqn:Es.
  - (* on the shell *)
    cbn [side_is_exterior]. apply forallb_forall. intros h Hh. apply Holes; [exact Hh|].
    destruct (on_edges (line_segs h) p) eqn:E; [left; reflexivity|]. right.
    destruct (edges_parity (line_segs h) p) eqn:P; [|reflexivity]. exfalso. apply (V2 h p Hh Es). split; assumption.
  - unfold rings_boundary in H. cbn [existsb] in H. rewrite Es in H. cbn [orb] in H.
    destruct (existsb (fun r => on_edges r p) (map line_segs holes)) eqn:Eh.
    + (* on a hole *)
      apply existsb_exists in Eh. destruct Eh as [es [Hes Hon]]. apply in_map_iff in Hes. destruct Hes as [h0 [<- Hh0]].
      assert (Ps : edges_parity (line_segs shell) p = true).
      { destruct (edges_parity (line_segs shell) p) eqn:P; [reflexivity|]. exfalso. apply (V1 h0 p Hh0 Hon). split; assumption. }
      rewrite Ps. cbn [side_is_exterior]. apply forallb_forall. intros h Hh. apply Holes; [exact Hh|].
      destruct (on_edges (line_segs h) p) eqn:E; [left; reflexivity|]. right.
      destruct (edges_parity (line_segs h) p) eqn:P; [|reflexivity]. exfalso. apply (V3 h0 h p Hh0 Hh Hon). split; assumption.
    + (* interior *)
      cbn [orb] in H. unfold rings_interior in H. apply andb_true_iff in H. destruct H as [Hin Hout].
      unfold ring_strict_in in Hin. rewrite Es in Hin. cbn [negb andb] in Hin. rewrite Hin. cbn [side_is_exterior].
      apply forallb_forall. intros h Hh. apply Holes; [exact Hh|]. right.
      rewrite forallb_forall in Hout. specialize (Hout (line_segs h) (in_map line_segs holes h Hh)).
      unfold ring_strict_out in Hout. apply andb_true_iff in Hout. destruct Hout as [_ Hp]. apply negb_true_iff in Hp. exact Hp.
Qed.

(* off the boundary no nesting hypothesis is needed *)
Lemma ix_xy_polygon_complete_off p y :
  poly_rings_closed y = true -> poly_rings_wf y = true ->
  poly_boundary y p = false -> in_poly y p = true -> ix_xy_polygon p y = true.
Proof.
  unfold poly_rings_closed, poly_rings_wf, ix_xy_polygon, in_poly, poly_boundary, poly_interior, poly_ring_segs.
  destruct (poly_rings y) as [|shell holes]; [intros _ _ _ H; simpl in H; discriminate|].
  cbn [forallb map]. intros C W B H. rewrite B in H. cbn [orb] in H.
  apply andb_true_iff in C. destruct C as [Cs Ch]. apply andb_true_iff in W. destruct W as [Ws Wh].
  rewrite forallb_forall in Ch, Wh.
  unfold rings_boundary in B. cbn [existsb] in B. apply orb_false_iff in B. destruct B as [Bs Bh].
  unfold rings_interior in H. apply andb_true_iff in H. destruct H as [Hin Hout].
  rewrite (ring_side_spec shell p Cs Ws), Bs.
  unfold ring_strict_in in Hin. rewrite Bs in Hin. cbn [negb andb] in Hin. rewrite Hin. cbn [side_is_exterior].
  apply forallb_forall. intros h Hh. rewrite (ring_side_spec h p (Ch h Hh) (Wh h Hh)).
  rewrite forallb_forall in Hout. specialize (Hout (line_segs h) (in_map line_segs holes h Hh)).
  unfold ring_strict_out in Hout. apply andb_true_iff in Hout. destruct Hout as [Ho Hp].
  apply negb_true_iff in Ho. apply negb_true_iff in Hp. rewrite Ho, Hp. reflexivity.
Qed.

(* ================================================================ line string against polygon: complete *)
Lemma on_seg_sub a b w z : on_seg (a, b) w = true -> on_seg (a, w) z = true -> on_seg (a, b) z = true.
Proof.
  intros Hw Hz. apply on_seg_iff in Hw. apply on_seg_iff in Hz. apply on_seg_iff.
  destruct Hw as [t [[T0 T1] [Hx Hy]]]. destruct Hz as [s [[S0 S1] [Hx' Hy']]].
  exists (s * t). unfold seg_param. split; [split; nra|]. split.
  - rewrite Hx', Hx. ring.
  - rewrite Hy', Hy. ring.
Qed.

Lemma avoids_sub R a b w : avoids R (a, b) -> on_seg (a, b) w = true -> avoids R (a, w).
Proof.
  intros H Hw e He z [H1 H2]. apply (H e He z). split; [exact H1 | eapply on_seg_sub; eauto].
Qed.

(* walking along a vertex list whose edges all avoid the ring keeps the parity *)
Lemma walk_parity R a rest w :
  (forall u v, avoids R (u, v) -> edges_parity R u = edges_parity R v) ->
  (forall e, In e (ring_edges (a :: rest)) -> avoids R e) ->
  on_edges (ring_edges (a :: rest)) w = true ->
  edges_parity R a = edges_parity R w.
Proof.
  intros K. revert a. induction rest as [|b rest IH]; intros a Hav Hon; [discriminate|].
  change (ring_edges (a :: b :: rest)) with ((a, b) :: ring_edges (b :: rest)) in *.
  unfold on_edges in Hon. cbn [existsb] in Hon. apply orb_true_iff in Hon.
  assert (Hab : avoids R (a, b)) by (apply Hav; left; reflexivity).
  destruct Hon as [Hon|Hon].
  - apply K. eapply avoids_sub; eauto.
  - rewrite (K a b Hab). apply IH; [|exact Hon]. intros e He. apply Hav. right. exact He.
Qed.

Lemma walk_off R a rest w :
  (forall e, In e (ring_edges (a :: rest)) -> avoids R e) -> on_edges (ring_edges (a :: rest)) w = true ->
  on_edges R w = false /\ (rest <> [] -> on_edges R a = false).
Proof.
  intros Hav Hon. split.
  - destruct (on_edges R w) eqn:E; [|reflexivity]. exfalso.
    unfold on_edges in E, Hon. apply existsb_exists in E. apply existsb_exists in Hon.
    destruct E as [e [He Hw]], Hon as [s [Hs Hsw]]. destruct s as [u v]. apply (Hav (u, v) Hs e He w). auto.
  - intros Hne. destruct rest as [|b rest]; [congruence|].
    destruct (on_edges R a) eqn:E; [|reflexivity]. exfalso.
    unfold on_edges in E. apply existsb_exists in E. destruct E as [e [He Hw]].
    apply (Hav (a, b) (or_introl eq_refl) e He a). split; [exact Hw | apply on_seg_left].
Qed.

(* membership in a polygon from the ring-wise data *)
Lemma in_poly_by_rings y p q :
  (forall r, In r (poly_rings y) -> on_edges (line_segs r) p = false /\ on_edges (line_segs r) q = false /\
                                   edges_parity (line_segs r) p = edges_parity (line_segs r) q) ->
  in_poly y p = in_poly y q /\ poly_boundary y p = false.
Proof.
  intros H. unfold in_poly, poly_boundary, poly_interior, poly_ring_segs.
  assert (B : forall x, (x = p \/ x = q) -> rings_boundary (map line_segs (poly_rings y)) x = false).
  { intros x Hx. unfold rings_boundary. destruct (existsb _ _) eqn:E; [|reflexivity]. exfalso.
    apply existsb_exists in E. destruct E as [es [Hes Hon]]. apply in_map_iff in Hes. destruct Hes as [r [<- Hr]].
    destruct (H r Hr) as [H1 [H2 _]]. destruct Hx as [->| ->]; congruence. }
  rewrite (B p (or_introl eq_refl)), (B q (or_intror eq_refl)). split; [|reflexivity]. cbn [orb].
  destruct (poly_rings y) as [|shell holes]; [reflexivity|]. cbn [map rings_interior].
  f_equal.
  - unfold ring_strict_in. destruct (H shell (or_introl eq_refl)) as [H1 [H2 H3]]. rewrite H1, H2, H3. reflexivity.
  - apply forallb_ext_in'. intros es Hes. apply in_map_iff in Hes. destruct Hes as [h [<- Hh]].
    unfold ring_strict_out. destruct (H h (or_intror Hh)) as [H1 [H2 H3]]. rewrite H1, H2, H3. reflexivity.
Qed.

Lemma ring_in_poly_lines y r s : In r (poly_rings y) -> In s (ls_lines r) -> In s (poly_lines y).
Proof. intros Hr Hs. unfold poly_lines, mls_lines. apply in_flat_map. eauto. Qed.

Lemma ix_mline_mpoly_complete ls ys w :
  ml_wf ls = true -> forallb poly_rings_closed ys = true -> forallb poly_rings_wf ys = true ->
  inML ls w = true -> inMY ys w = true -> ix_mline_mpoly ls ys = true.
Proof.
  intros Wl Cy Wy Hl Hy. unfold ix_mline_mpoly.
  destruct (has_intersection_between_lines (mls_lines ls) (mpoly_lines ys)) eqn:E; [reflexivity|].
  apply existsb_exists in Hl. destruct Hl as [l [Hl Hlw]]. apply existsb_exists in Hy. destruct Hy as [y [Hy Hyw]].
  unfold ml_wf in Wl. rewrite forallb_forall in Wl, Cy, Wy.
  pose proof (Wl l Hl) as Wfl. pose proof (Cy y Hy) as Cyy. pose proof (Wy y Hy) as Wyy.
  unfold poly_rings_closed in Cyy. unfold poly_rings_wf in Wyy. rewrite forallb_forall in Cyy, Wyy.
  (* no point of l is on a ring of y *)
  assert (NoMeet : forall r z, In r (poly_rings y) -> on_line l z = true -> on_edges (line_segs r) z = true -> False).
  { intros r z Hr H1 H2.
    destruct (on_line_cover l z Wfl H1) as [s [Hs Hsz]].
    destruct (ring_wf_pts r (Wyy r Hr)) as [Wr _].
    destruct (on_line_cover r z Wr H2) as [t [Ht Htz]].
    assert (X : has_intersection_between_lines (mls_lines ls) (mpoly_lines ys) = true).
    { apply hibl_iff; [apply mls_lines_nondeg | apply mpoly_lines_nondeg|].
      exists s, t, z. split; [apply in_flat_map; eauto|]. split; [|auto].
      apply in_flat_map. exists y. split; [exact Hy | eapply ring_in_poly_lines; eauto]. }
    congruence. }
  unfold pts_wf in Wfl. destruct (line_pts l) as [|a rest] eqn:Epts;
    [exfalso; unfold on_line, line_segs in Hlw; rewrite Epts in Hlw; discriminate|].
  assert (Hrest : rest <> []) by (destruct rest; [discriminate | congruence]).
  assert (Esegs : line_segs l = ring_edges (a :: rest)).
  { unfold line_segs, segs_of_pts. rewrite Epts. destruct rest as [|b rest']; [congruence | reflexivity]. }
  assert (Hon : on_edges (ring_edges (a :: rest)) w = true) by (rewrite <- Esegs; exact Hlw).
  assert (Hav : forall r, In r (poly_rings y) -> forall e, In e (ring_edges (a :: rest)) -> avoids (line_segs r) e).
  { intros r Hr e He f Hf z [H1 H2]. apply (NoMeet r z Hr).
    - unfold on_line, on_edges. rewrite Esegs. apply existsb_exists. exists e. auto.
    - unfold on_edges. apply existsb_exists. exists f. auto. }
  assert (Rings : forall r, In r (poly_rings y) ->
            on_edges (line_segs r) a = false /\ on_edges (line_segs r) w = false /\
            edges_parity (line_segs r) a = edges_parity (line_segs r) w).
  { intros r Hr. destruct (walk_off (line_segs r) a rest w (Hav r Hr) Hon) as [O1 O2].
    split; [apply O2; exact Hrest|]. split; [exact O1|].
    apply (walk_parity (line_segs r) a rest w); [|apply Hav; exact Hr | exact Hon].
    intros u v Huv. apply (path_parity (line_pts r) u v (Cyy r Hr) Huv). }
  destruct (in_poly_by_rings y a w Rings) as [Ein Bnd].
  apply existsb_exists. exists l. split; [exact Hl|].
  unfold start_xy. rewrite Epts. unfold ix_optxy_mpoly. apply existsb_exists. exists y. split; [exact Hy|].
  cbn [ix_optxy_polygon]. apply ix_xy_polygon_complete_off.
  - unfold poly_rings_closed. apply forallb_forall. exact Cyy.
  - unfold poly_rings_wf. apply forallb_forall. exact Wyy.
  - exact Bnd.
  - rewrite Ein. exact Hyw.
Qed.

(* ================================================================ the switch: one operand without areal parts *)
Definition polys_wf (g : geom) : bool := forallb poly_rings_wf (g_polys g).
Definition polys_nest_ok (g : geom) : Prop := forall y, In y (g_polys g) -> poly_nest_ok y.
(* everything the completeness theorem asks of an operand (all true of OGC-valid geometries) *)
Definition operand_ok (g : geom) : Prop :=
  lines_wf g = true /\ Intersects.rings_closed g = true /\ polys_wf g = true /\ polys_nest_ok g.

Lemma ix_optxy_polygon_complete q y w :
  poly_rings_closed y = true -> poly_rings_wf y = true -> poly_nest_ok y ->
  in_point q w = true -> in_poly y w = true -> ix_point_polygon q y = true.
Proof.
  intros C W N Hq Hy. apply in_point_inv in Hq. destruct Hq as [a [Ea Ha]].
  unfold ix_point_polygon. rewrite Ea. cbn [ix_optxy_polygon].
  apply ix_xy_polygon_complete; try assumption.
  (* in_poly is invariant under pt_eq *)
  rewrite <- Hy. symmetry.
  unfold in_poly, poly_boundary, poly_interior, rings_boundary, rings_interior.
  assert (On : forall es, on_edges es w = on_edges es a).
  { intros es. unfold on_edges. apply existsb_ext_in'. intros e _. apply on_seg_pt_eq. exact Ha. }
  assert (Par : forall es, edges_parity es w = edges_parity es a) by (intros es; apply edges_parity_pt_eq; exact Ha).
  f_equal.
  - apply existsb_ext_in'. intros es _. apply On.
  - destruct (poly_ring_segs y) as [|sh hs]; [reflexivity|]. f_equal.
    + unfold ring_strict_in. rewrite On, Par. reflexivity.
    + apply forallb_ext_in'. intros es _. unfold ring_strict_out. rewrite On, Par. reflexivity.
Qed.

Lemma ix_mpoint_mpoly_complete mp ys w :
  forallb poly_rings_closed ys = true -> forallb poly_rings_wf ys = true -> (forall y, In y ys -> poly_nest_ok y) ->
  inMP mp w = true -> inMY ys w = true -> ix_mpoint_mpoly mp ys = true.
Proof.
  intros C W N Hp Hy. apply existsb_exists in Hp. destruct Hp as [q [Hq Hqw]].
  apply existsb_exists in Hy. destruct Hy as [y [Hy Hyw]].
  rewrite forallb_forall in C, W.
  unfold ix_mpoint_mpoly. apply existsb_exists. exists q. split; [exact Hq|].
  unfold ix_point_mpoly, ix_optxy_mpoly. apply existsb_exists. exists y. split; [exact Hy|].
  apply (ix_optxy_polygon_complete q y w); auto.
Qed.

Lemma single_inMP q w : inMP [q] w = in_point q w.
Proof. unfold inMP. simpl. apply orb_false_r. Qed.

Lemma ix_switch_complete_mixed g1 g2 w :
  (rank g1 <= rank g2)%nat ->
  (forall c gs, g1 <> GColl c gs) -> (forall c gs, g2 <> GColl c gs) ->
  operand_ok g1 -> operand_ok g2 -> (no_polys g1 = true \/ no_polys g2 = true) ->
  inG g1 w = true -> inG g2 w = true -> ix_switch g1 g2 = OBool true.
Proof.
  intros Hr G1 G2 [W1 [C1 [F1 N1]]] [W2 [C2 [F2 N2]]] Hno H1 H2.
  destruct (no_polys g1) eqn:Np1; destruct (no_polys g2) eqn:Np2;
    try (apply (ix_switch_complete g1 g2 w); assumption);
    try (destruct Hno; discriminate).
  - (* g2 areal, g1 not *)
    unfold no_polys, lines_wf, Intersects.rings_closed, polys_wf, polys_nest_ok in *.
    destruct g1 as [p|l|y|c mp|c ls|c ys|c gs]; destruct g2 as [p'|l'|y'|c' mp'|c' ls'|c' ys'|c' gs'];
      cbn [rank g_polys g_lines inG ix_switch] in *; try discriminate; try (exfalso; lia);
      try (exfalso; eapply G1; reflexivity); try (exfalso; eapply G2; reflexivity);
      try (destruct ys; discriminate); f_equal.
    + (* point, polygon *)
      cbn [forallb] in C2, F2. rewrite andb_true_r in C2, F2.
      apply (ix_optxy_polygon_complete p y' w); auto. apply N2. left. reflexivity.
    + (* point, multipolygon *)
      assert (X : ix_mpoint_mpoly [p] ys' = true).
      { apply (ix_mpoint_mpoly_complete [p] ys' w); auto. rewrite single_inMP. exact H1. }
      unfold ix_mpoint_mpoly in X. simpl in X. rewrite orb_false_r in X. exact X.
    + (* line string, polygon *)
      apply (ix_mline_mpoly_complete [l] [y'] w); auto; [rewrite single_inML; exact H1 | rewrite single_inMY; exact H2].
    + (* line string, multipolygon *)
      apply (ix_mline_mpoly_complete [l] ys' w); auto. rewrite single_inML; exact H1.
    + (* multipoint, multipolygon *)
      apply (ix_mpoint_mpoly_complete mp ys' w); auto.
    + (* multilinestring, multipolygon *)
      apply (ix_mline_mpoly_complete ls ys' w); auto.
  - (* g1 areal, g2 not *)
    unfold no_polys, lines_wf, Intersects.rings_closed, polys_wf, polys_nest_ok in *.
    destruct g1 as [p|l|y|c mp|c ls|c ys|c gs]; destruct g2 as [p'|l'|y'|c' mp'|c' ls'|c' ys'|c' gs'];
      cbn [rank g_polys g_lines inG ix_switch] in *; try discriminate; try (exfalso; lia);
      try (exfalso; eapply G1; reflexivity); try (exfalso; eapply G2; reflexivity);
      try (destruct ys'; discriminate); f_equal.
    + (* polygon, multipoint *)
      cbn [forallb] in C1, F1. rewrite andb_true_r in C1, F1.
      apply existsb_exists in H2. destruct H2 as [q [Hq Hqw]].
      unfold ix_mpoint_polygon. apply existsb_exists. exists q. split; [exact Hq|].
      apply (ix_optxy_polygon_complete q y w); auto. apply N1. left. reflexivity.
    + (* polygon, multilinestring *)
      apply (ix_mline_mpoly_complete ls' [y] w); auto. rewrite single_inMY; exact H1.
Qed.

Lemma g_polys_leaf g l y : In l (leaves g) -> In y (g_polys l) -> In y (g_polys g).
Proof. intros Hl Hy. rewrite (g_polys_leaves g). apply in_flat_map. eauto. Qed.

Lemma operand_ok_leaf g l : operand_ok g -> In l (leaves g) -> operand_ok l.
Proof.
  intros [W [C [F N]]] Hl. split; [eapply lines_wf_leaf; eauto|]. split; [|split].
  - rewrite (rings_closed_leaves g) in C. rewrite forallb_forall in C. exact (C l Hl).
  - unfold polys_wf in *. rewrite forallb_forall in *. intros y Hy. apply F. eapply g_polys_leaf; eauto.
  - intros y Hy. apply N. eapply g_polys_leaf; eauto.
Qed.

Lemma ix_flat_complete_mixed g1 g2 w :
  (forall c gs, g1 <> GColl c gs) -> (forall c gs, g2 <> GColl c gs) ->
  operand_ok g1 -> operand_ok g2 -> (no_polys g1 = true \/ no_polys g2 = true) ->
  inG g1 w = true -> inG g2 w = true -> ix_flat g1 g2 = true.
Proof.
  intros G1 G2 O1 O2 Hno H1 H2. unfold ix_flat, ix_flat_o.
  destruct (Nat.ltb (rank g2) (rank g1)) eqn:E.
  - apply Nat.ltb_lt in E. rewrite (ix_switch_complete_mixed g2 g1 w); auto; [lia | tauto].
  - apply Nat.ltb_ge in E. rewrite (ix_switch_complete_mixed g1 g2 w); auto.
Qed.

(* Intersects(a, b) = false implies the point sets are disjoint whenever at least one operand has
   no areal part (the other may be any polygon, multipolygon or collection) *)
Theorem intersects_complete_one_sided a b w :
  operand_ok a -> operand_ok b -> (no_polys a = true \/ no_polys b = true) ->
  inG a w = true -> inG b w = true -> intersects a b = true.
Proof.
  intros Oa Ob Hno H1 H2. rewrite intersects_leaves.
  rewrite inG_leaves in H1, H2. apply existsb_exists in H1. apply existsb_exists in H2.
  destruct H1 as [la [Hla H1]], H2 as [lb [Hlb H2]].
  apply existsb_exists. exists la. split; [exact Hla|]. apply existsb_exists. exists lb. split; [exact Hlb|].
  apply (ix_flat_complete_mixed la lb w); auto.
  - exact (leaves_not_coll a la Hla).
  - exact (leaves_not_coll b lb Hlb).
  - exact (operand_ok_leaf a la Oa Hla).
  - exact (operand_ok_leaf b lb Ob Hlb).
  - destruct Hno as [N|N]; [left; exact (no_polys_leaf a la N Hla) | right; exact (no_polys_leaf b lb N Hlb)].
Qed.

(* with the verified oracle: on this class of operands the model IS the decision procedure *)
Corollary intersects_eq_oracle_one_sided a b :
  operand_ok a -> operand_ok b -> (no_polys a = true \/ no_polys b = true) ->
  intersects a b = share_witness a b.
Proof.
  intros Oa Ob Hno. pose proof Oa as [_ [Ca _]]. pose proof Ob as [_ [Cb _]].
  apply eq_true_iff_eq. rewrite (share_witness_iff a b Ca Cb). split.
  - apply intersects_sound; assumption.
  - intros [p [H1 H2]]. eapply intersects_complete_one_sided; eauto.
Qed.

(* Distance = 0 exactly when Intersects, same class of operands *)
Theorem distance_zero_iff_intersects_one_sided a b :
  operand_ok a -> operand_ok b -> (no_polys a = true \/ no_polys b = true) ->
  ((exists d, dist2 a b = Some d /\ d == 0) <-> intersects a b = true).
Proof.
  intros Oa Ob Hno. split.
  - intros [d [Hd H0]]. destruct (distance_zero_witness a b d Hd H0) as [H|[w [H1 H2]]]; [exact H|].
    eapply intersects_complete_one_sided; eauto.
  - intros H. exists 0. split; [|reflexivity]. unfold dist2. rewrite H. reflexivity.
Qed.

(* ---- the same, pointwise: the common point lies on a puntal or lineal member of one operand ---- *)
Definition in_lower (g : geom) (w : pt) : bool :=
  existsb (fun l => on_line l w) (g_lines g) || existsb (pt_eqb w) (g_points g).

Lemma in_lower_leaf g w :
  in_lower g w = true -> exists l, In l (leaves g) /\ no_polys l = true /\ inG l w = true.
Proof.
  unfold in_lower. induction g using geomT_ind'; cbn [g_lines g_points leaves]; intros Hw.
  - exists (GPoint p). split; [left; reflexivity|]. split; [reflexivity|]. cbn [existsb orb] in Hw. exact Hw.
  - exists (GLine l). split; [left; reflexivity|]. split; [reflexivity|]. cbn [existsb inG] in *.
    rewrite !orb_false_r in Hw. exact Hw.
  - cbn [existsb orb] in Hw. discriminate.
  - exists (GMPoint ct ps). split; [left; reflexivity|]. split; [reflexivity|]. cbn [existsb orb inG] in *.
    rewrite existsb_flat_map in Hw. exact Hw.
  - exists (GMLine ct ls). split; [left; reflexivity|]. split; [reflexivity|]. cbn [existsb inG] in *.
    rewrite orb_false_r in Hw. exact Hw.
  - cbn [existsb orb] in Hw. discriminate.
  - rewrite !existsb_flat_map in Hw.
    assert (Ex : exists x, In x gs /\ (existsb (fun l => on_line l w) (g_lines x) || existsb (pt_eqb w) (g_points x)) = true).
    { apply orb_true_iff in Hw. destruct Hw as [Hw|Hw]; apply existsb_exists in Hw; destruct Hw as [x [Hx Hw]];
        exists x; (split; [exact Hx|]); rewrite Hw; [reflexivity | apply orb_true_r]. }
    destruct Ex as [x [Hx Hxw]]. rewrite Forall_forall in H. destruct (H x Hx Hxw) as [l [Hl [Nl Il]]].
    exists l. split; [apply in_flat_map; eauto | auto].
Qed.

Theorem intersects_complete_lower a b w :
  operand_ok a -> operand_ok b -> (in_lower a w = true \/ in_lower b w = true) ->
  inG a w = true -> inG b w = true -> intersects a b = true.
Proof.
  intros Oa Ob Hlow H1 H2. rewrite intersects_leaves.
  rewrite inG_leaves in H1, H2. apply existsb_exists in H1. apply existsb_exists in H2.
  destruct H1 as [la [Hla H1]], H2 as [lb [Hlb H2]].
  destruct Hlow as [Hl|Hl]; apply in_lower_leaf in Hl; destruct Hl as [l [Hl [Nl Il]]].
  - apply existsb_exists. exists l. split; [exact Hl|]. apply existsb_exists. exists lb. split; [exact Hlb|].
    apply (ix_flat_complete_mixed l lb w); auto.
    + exact (leaves_not_coll a l Hl).
    + exact (leaves_not_coll b lb Hlb).
    + exact (operand_ok_leaf a l Oa Hl).
    + exact (operand_ok_leaf b lb Ob Hlb).
  - apply existsb_exists. exists la. split; [exact Hla|]. apply existsb_exists. exists l. split; [exact Hl|].
    apply (ix_flat_complete_mixed la l w); auto.
    + exact (leaves_not_coll a la Hla).
    + exact (leaves_not_coll b l Hl).
    + exact (operand_ok_leaf a la Oa Hla).
    + exact (operand_ok_leaf b l Ob Hl).
Qed.
