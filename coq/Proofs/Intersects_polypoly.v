(* Property C09, third part: completeness of Intersects for polygon against polygon.
   If no ring edge of A meets a ring edge of B and the two polygons share a point, then the start
   vertex of one shell lies in the other polygon (the two probes of hasIntersectionPolygonWithPolygon).
   Ingredients: parity constancy along ring-avoiding segments (Intersects_areal.path_parity), the
   leftmost hit of a horizontal segment with a finite family of edges (no continuity), and three
   consequences for closed rings with disjoint boundaries: mutual containment is impossible,
   containment is transitive, mutually exterior rings have disjoint interiors. *)
From Coq Require Import QArith Qabs Qround Qreduction List Bool ZArith Lia Lqa Setoid Morphisms.
From SF Require Import Base.GeomAST Base.QKernel Base.Planar Proofs.Planar_proofs
  Proofs.Planar_slab_base Proofs.Planar_slab
  Model.Intersects Model.Distance Proofs.Intersects_proofs Proofs.Distance_proofs Proofs.Distance_lower
  Proofs.Intersects_areal.
Import ListNotations.
Open Scope Q_scope.

(* ================================================================ crossings lie to the right *)
Lemma edge_cross_right a b q : edge_cross a b q = true -> fst q < fst a \/ fst q < fst b.
Proof.
  unfold edge_cross.
  destruct (Qle_bool (snd a) (snd q)) eqn:Ya; destruct (Qle_bool (snd b) (snd q)) eqn:Yb; cbn [Bool.eqb]; try discriminate;
    rewrite qltb_true_iff; unfold cross; intros H.
  - apply Qle_bool_iff in Ya. apply Planar_slab_base.Qle_bool_false_iff in Yb.
    destruct (Qlt_le_dec (fst q) (fst a)) as [K|K]; [left; exact K|].
    destruct (Qlt_le_dec (fst q) (fst b)) as [K'|K']; [right; exact K'|]. exfalso.
    destruct (Qlt_le_dec (fst a) (fst b)); nra.
  - apply Planar_slab_base.Qle_bool_false_iff in Ya. apply Qle_bool_iff in Yb.
    destruct (Qlt_le_dec (fst q) (fst a)) as [K|K]; [left; exact K|].
    destruct (Qlt_le_dec (fst q) (fst b)) as [K'|K']; [right; exact K'|]. exfalso.
    destruct (Qlt_le_dec (fst a) (fst b)); nra.
Qed.

Lemma parity_true_right es q :
  edges_parity es q = true -> exists e, In e es /\ (fst q < fst (fst e) \/ fst q < fst (snd e)).
Proof.
  induction es as [|e es IH]; [discriminate|]. rewrite edges_parity_cons. intros H.
  destruct (edge_cross (fst e) (snd e) q) eqn:E.
  - exists e. split; [left; reflexivity | apply edge_cross_right; exact E].
  - simpl in H. assert (H' : edges_parity es q = true) by (destruct (edges_parity es q); [reflexivity | discriminate]).
    destruct (IH H') as [e' [He' K]]. exists e'. split; [right; exact He' | exact K].
Qed.

(* an abscissa to the right of q and of every end point *)
Lemma far_abscissa (es : list seg) (q : pt) : exists M, fst q < M /\ forall e, In e es -> fst (fst e) < M /\ fst (snd e) < M.
Proof.
  induction es as [|e es [M [H0 H]]].
  - exists (fst q + 1). split; [lra | intros e []].
  - set (m1 := fst (fst e)). set (m2 := fst (snd e)).
    assert (Ex : exists M', M <= M' /\ m1 < M' /\ m2 < M').
    { destruct (Qlt_le_dec m1 m2); destruct (Qlt_le_dec M (m2 + 1)); destruct (Qlt_le_dec M (m1 + 1));
        first [exists (m2 + 1); repeat split; lra | exists (m1 + 1); repeat split; lra | exists M; repeat split; lra]. }
    destruct Ex as [M' [A [B C]]]. exists M'. split; [lra|]. intros e' [<-|He'].
    + split; assumption.
    + destruct (H e' He'). split; lra.
Qed.

(* ================================================================ the leftmost hit of a horizontal segment *)
Section Hit.
  Variable q : pt.
  Variable M : Q.
  Hypothesis HM : fst q < M.
  Let T : seg := (q, (M, snd q)).

  Lemma on_T w : on_seg T w = true <-> snd w == snd q /\ fst q <= fst w <= M.
  Proof.
    unfold T, on_seg. cbn [fst snd]. rewrite !andb_true_iff, !qbetween_iff, Qeq_bool_iff. unfold cross; cbn [fst snd].
    split.
    - intros [[Hx Hy] Hc]. split; [lra | destruct Hx; lra].
    - intros [Hy Hx]. split; [split|].
      + left. lra.
      + left. lra.
      + rewrite Hy. ring.
  Qed.

  Lemma single_leftmost e :
    (exists w, on_seg e w = true /\ on_seg T w = true) ->
    exists a, on_seg e a = true /\ on_seg T a = true /\
      forall w, on_seg e w = true -> on_seg T w = true -> fst a <= fst w.
  Proof.
    destruct e as [a b]. intros [w0 [He0 HT0]]. pose proof HT0 as HT0'. apply on_T in HT0'. destruct HT0' as [Y0 [X0 X1]].
    destruct (Qeq_dec (snd a) (snd b)) as [Eh|Nh].
    - (* horizontal edge at the height of q *)
      pose proof He0 as He0'. unfold on_seg in He0'. rewrite !andb_true_iff, !qbetween_iff, Qeq_bool_iff in He0'.
      destruct He0' as [[Hx0 Hy0] Hc0].
      assert (Ya : snd a == snd q) by (destruct Hy0; lra).
      set (mn := if Qlt_le_dec (fst a) (fst b) then fst a else fst b).
      assert (Hmn : mn <= fst a /\ mn <= fst b /\ (mn == fst a \/ mn == fst b)).
      { unfold mn. destruct (Qlt_le_dec (fst a) (fst b)); repeat split; try lra; try (left; reflexivity); try (right; reflexivity). }
      set (xl := if Qlt_le_dec (fst q) mn then mn else fst q).
      assert (Hxl : fst q <= xl /\ mn <= xl /\ (xl == mn \/ xl == fst q)).
      { unfold xl. destruct (Qlt_le_dec (fst q) mn); repeat split; try lra; try (left; reflexivity); try (right; reflexivity). }
      destruct Hmn as [M1 [M2 M3]]. destruct Hxl as [L1 [L2 L3]].
      assert (W0 : mn <= fst w0) by (destruct Hx0; lra).
      exists (xl, snd q). split; [|split].
      + unfold on_seg. cbn [fst snd]. rewrite !andb_true_iff, !qbetween_iff, Qeq_bool_iff. unfold cross; cbn [fst snd].
        split; [split|].
        * destruct L3 as [L3|L3]; destruct Hx0 as [Hx0|Hx0]; destruct M3 as [M3|M3]; first [left; lra | right; lra].
        * left. lra.
        * rewrite Ya, <- Eh, Ya. ring.
      + apply on_T. cbn [fst snd]. split; [reflexivity|]. split; [lra|]. destruct L3; lra.
      + intros w Hw HTw. apply on_T in HTw. destruct HTw as [_ [Xw _]].
        unfold on_seg in Hw. rewrite !andb_true_iff, !qbetween_iff in Hw. destruct Hw as [[Hxw _] _].
        cbn [fst]. destruct L3 as [L3|L3]; [|lra]. destruct Hxw; lra.
    - (* the edge meets the line y = snd q in one point *)
      exists w0. split; [exact He0|]. split; [exact HT0|]. intros w Hw HTw.
      apply on_T in HTw. destruct HTw as [Yw _].
      unfold on_seg in He0, Hw. rewrite !andb_true_iff, Qeq_bool_iff in He0, Hw.
      destruct He0 as [_ C0], Hw as [_ Cw]. unfold cross in C0, Cw.
      assert (K : (snd b - snd a) * (fst w - fst w0) == 0).
      { transitivity (((fst b - fst a) * (snd w0 - snd a) - (snd b - snd a) * (fst w0 - fst a))
                      - ((fst b - fst a) * (snd w - snd a) - (snd b - snd a) * (fst w - fst a))
                      + (fst b - fst a) * (snd w - snd w0)); [ring|]. rewrite C0, Cw, Yw, Y0. ring. }
      apply Qmult_integral in K. destruct K as [K|K]; [exfalso; apply Nh; lra | lra].
  Qed.

  Lemma seg_meet_iff e : seg_meet e T = true <-> exists w, on_seg e w = true /\ on_seg T w = true.
  Proof.
    unfold seg_meet. rewrite <- seg_seg_nonempty_iff. destruct (seg_seg e T); split; intros H; try reflexivity; try discriminate; try congruence.
  Qed.

  Lemma leftmost_hit es :
    existsb (fun e => seg_meet e T) es = true ->
    exists a e0, In e0 es /\ on_seg e0 a = true /\ on_seg T a = true /\
      forall e w, In e es -> on_seg e w = true -> on_seg T w = true -> fst a <= fst w.
  Proof.
    induction es as [|e es IH]; [discriminate|]. cbn [existsb]. intros H.
    destruct (existsb (fun e => seg_meet e T) es) eqn:Ees.
    - destruct (IH eq_refl) as [a' [e' [He' [Oa' [Ta' Min']]]]].
      destruct (seg_meet e T) eqn:Ee.
      + apply seg_meet_iff in Ee. destruct (single_leftmost e Ee) as [a [Oa [Ta Min]]].
        destruct (Qlt_le_dec (fst a) (fst a')) as [L|L].
        * exists a, e. split; [left; reflexivity|]. split; [exact Oa|]. split; [exact Ta|].
          intros f w [<-|Hf] Hw HTw; [apply Min; assumption|]. pose proof (Min' f w Hf Hw HTw). lra.
        * exists a', e'. split; [right; exact He'|]. split; [exact Oa'|]. split; [exact Ta'|].
          intros f w [<-|Hf] Hw HTw; [pose proof (Min w Hw HTw); lra | apply (Min' f w Hf Hw HTw)].
      + exists a', e'. split; [right; exact He'|]. split; [exact Oa'|]. split; [exact Ta'|].
        intros f w [<-|Hf] Hw HTw; [|apply (Min' f w Hf Hw HTw)].
        exfalso. assert (X : seg_meet e T = true) by (apply seg_meet_iff; eauto). congruence.
    - rewrite orb_false_r in H. apply seg_meet_iff in H. destruct (single_leftmost e H) as [a [Oa [Ta Min]]].
      exists a, e. split; [left; reflexivity|]. split; [exact Oa|]. split; [exact Ta|].
      intros f w [<-|Hf] Hw HTw; [apply Min; assumption|]. exfalso.
      assert (X : seg_meet f T = true) by (apply seg_meet_iff; eauto).
      assert (Y : existsb (fun e => seg_meet e T) es = true) by (apply existsb_exists; eauto). congruence.
  Qed.
End Hit.

(* ================================================================ first hit among two edge families *)
Definition no_meet (E1 E2 : list seg) : Prop :=
  forall e f w, In e E1 -> In f E2 -> ~ (on_seg e w = true /\ on_seg f w = true).
Lemma no_meet_sym E1 E2 : no_meet E1 E2 -> no_meet E2 E1.
Proof. intros H e f w He Hf [H1 H2]. apply (H f e w Hf He). auto. Qed.

(* parity is kept along segments that avoid the edges: the property of closed rings (path_parity) *)
Definition keeps (E : list seg) : Prop := forall u v, avoids E (u, v) -> edges_parity E u = edges_parity E v.

Lemma on_edges_pt_eq E w w' : pt_eq w w' -> on_edges E w = on_edges E w'.
Proof. intros H. unfold on_edges. apply existsb_ext_in'. intros e _. apply on_seg_pt_eq. exact H. Qed.

Lemma first_hit E1 E2 q :
  no_meet E1 E2 -> edges_parity E1 q = true ->
  exists a, (on_edges E1 a = true /\ avoids E2 (q, a)) \/ (on_edges E2 a = true /\ avoids E1 (q, a)).
Proof.
  intros NM Hpar. destruct (far_abscissa (E1 ++ E2) q) as [M [HM Hfar]].
  set (T := (q, (M, snd q))).
  assert (Hmeet : existsb (fun e => seg_meet e T) (E1 ++ E2) = true).
  { destruct (existsb (fun e => seg_meet e T) E1) eqn:E; [rewrite existsb_app, E; reflexivity|]. exfalso.
    assert (Hav : avoids E1 T).
    { intros e He w Hw. assert (X : seg_meet e T = true) by (apply (seg_meet_iff q M); eauto).
      assert (Y : existsb (fun e => seg_meet e T) E1 = true) by (apply existsb_exists; eauto). congruence. }
    rewrite (edges_parity_horizontal E1 q (M, snd q) (reflexivity _) Hav) in Hpar.
    destruct (parity_true_right E1 (M, snd q) Hpar) as [e [He K]]. cbn [fst] in K.
    destruct (Hfar e (in_or_app _ _ _ (or_introl He))). lra. }
  destruct (leftmost_hit q M HM (E1 ++ E2) Hmeet) as [a [e0 [He0 [Oa [Ta Min]]]]].
  assert (Sub : forall w, on_seg (q, a) w = true -> on_seg T w = true /\ pt_eq w a \/ on_seg T w = true /\ fst w < fst a).
  { intros w Hw. assert (HT : on_seg T w = true) by (eapply on_seg_sub; [exact Ta | exact Hw]).
    pose proof Ta as Ta'. apply (on_T q M HM) in Ta'. destruct Ta' as [Ya [Xa _]].
    pose proof HT as HT'. apply (on_T q M HM) in HT'. destruct HT' as [Yw _].
    unfold on_seg in Hw. rewrite !andb_true_iff, !qbetween_iff in Hw. destruct Hw as [[Hx _] _].
    destruct (Qlt_le_dec (fst w) (fst a)) as [L|L]; [right; auto|]. left. split; [exact HT|].
    split; [destruct Hx; lra | lra]. }
  assert (Avoid : forall Eo, (forall f, In f Eo -> In f (E1 ++ E2)) ->
            (forall f, In f Eo -> on_seg f a = false) -> avoids Eo (q, a)).
  { intros Eo Hin Hoff f Hf w [H1 H2]. destruct (Sub w H2) as [[HT E]|[HT L]].
    - rewrite (on_seg_pt_eq f w a E) in H1. rewrite (Hoff f Hf) in H1. discriminate.
    - pose proof (Min f w (Hin f Hf) H1 HT). lra. }
  exists a. apply in_app_or in He0. destruct He0 as [He0|He0].
  - left. split; [unfold on_edges; apply existsb_exists; eauto|].
    apply Avoid; [intros f Hf; apply in_or_app; right; exact Hf|].
    intros f Hf. destruct (on_seg f a) eqn:E; [|reflexivity]. exfalso. apply (NM e0 f a He0 Hf). auto.
  - right. split; [unfold on_edges; apply existsb_exists; eauto|].
    apply Avoid; [intros f Hf; apply in_or_app; left; exact Hf|].
    intros f Hf. destruct (on_seg f a) eqn:E; [|reflexivity]. exfalso. apply (NM f e0 a Hf He0). auto.
Qed.

(* ================================================================ relations between closed rings *)
Definition inside (E1 E2 : list seg) : Prop :=
  forall w, on_edges E1 w = true -> on_edges E2 w = false /\ edges_parity E2 w = true.
Definition outside (E1 E2 : list seg) : Prop :=
  forall w, on_edges E1 w = true -> on_edges E2 w = false /\ edges_parity E2 w = false.
(* all points of E1 look alike from E2 (E1 is a connected path that avoids E2) *)
Definition uniform (E1 E2 : list seg) : Prop :=
  forall w1 w2, on_edges E1 w1 = true -> on_edges E1 w2 = true ->
    on_edges E2 w1 = false /\ edges_parity E2 w1 = edges_parity E2 w2.

Lemma uniform_inside E1 E2 w : uniform E1 E2 -> on_edges E1 w = true -> edges_parity E2 w = true -> inside E1 E2.
Proof. intros U Hw Hp w' Hw'. destruct (U w' w Hw' Hw) as [O P]. split; [exact O | rewrite P; exact Hp]. Qed.
Lemma uniform_outside E1 E2 w : uniform E1 E2 -> on_edges E1 w = true -> edges_parity E2 w = false -> outside E1 E2.
Proof. intros U Hw Hp w' Hw'. destruct (U w' w Hw' Hw) as [O P]. split; [exact O | rewrite P; exact Hp]. Qed.

(* the end point with the largest abscissa *)
Lemma max_endpoint (E : list seg) : E <> [] ->
  exists v, on_edges E v = true /\ forall e, In e E -> fst (fst e) <= fst v /\ fst (snd e) <= fst v.
Proof.
  induction E as [|[a b] E IH]; [congruence|]. intros _.
  assert (Hab : exists m, (m = a \/ m = b) /\ fst a <= fst m /\ fst b <= fst m).
  { destruct (Qlt_le_dec (fst a) (fst b)); [exists b | exists a]; (split; [auto | split; lra]). }
  destruct Hab as [m [Hm [Ma Mb]]].
  assert (Om : on_seg (a, b) m = true) by (destruct Hm as [->| ->]; [apply on_seg_left | apply on_seg_right]).
  destruct E as [|e' E'].
  - exists m. split; [unfold on_edges; cbn [existsb]; rewrite Om; reflexivity|].
    intros e [<-|[]]. cbn [fst snd]. split; assumption.
  - destruct (IH ltac:(discriminate)) as [v [Ov Hv]].
    destruct (Qlt_le_dec (fst v) (fst m)) as [L|L].
    + exists m. split; [unfold on_edges; cbn [existsb]; rewrite Om; reflexivity|].
      intros e [<-|He]; [cbn [fst snd]; split; assumption|]. destruct (Hv e He). split; lra.
    + exists v. split; [unfold on_edges in *; cbn [existsb] in *; rewrite Ov; apply orb_true_r|].
      intros e [<-|He]; [cbn [fst snd]; split; lra | apply Hv; exact He].
Qed.

Lemma endpoint_on E e : In e E -> on_edges E (fst e) = true /\ on_edges E (snd e) = true.
Proof.
  intros He. destruct e as [a b]. cbn [fst snd]. split; unfold on_edges; apply existsb_exists; exists (a, b);
    (split; [exact He|]); [apply on_seg_left | apply on_seg_right].
Qed.

(* two rings cannot each lie inside the other *)
Lemma no_mutual_inside E1 E2 : E1 <> [] -> inside E1 E2 -> inside E2 E1 -> False.
Proof.
  intros Hne I12 I21. destruct (max_endpoint E1 Hne) as [v1 [O1 Max]].
  destruct (I12 v1 O1) as [_ P]. destruct (parity_true_right E2 v1 P) as [f [Hf K]].
  destruct (endpoint_on E2 f Hf) as [Oa Ob].
  destruct K as [K|K].
  - destruct (I21 _ Oa) as [_ P']. destruct (parity_true_right E1 _ P') as [e [He K']].
    destruct (Max e He). destruct K'; lra.
  - destruct (I21 _ Ob) as [_ P']. destruct (parity_true_right E1 _ P') as [e [He K']].
    destruct (Max e He). destruct K'; lra.
Qed.

(* containment is transitive: q strictly inside E2, E2 inside E3  =>  q strictly inside E3 *)
Lemma inside_trans E2 E3 q :
  keeps E2 -> keeps E3 -> no_meet E2 E3 -> uniform E3 E2 -> E2 <> [] ->
  inside E2 E3 -> edges_parity E2 q = true -> edges_parity E3 q = true.
Proof.
  intros K2 K3 NM U Hne I23 Hq. destruct (first_hit E2 E3 q NM Hq) as [a [[Oa Av]|[Oa Av]]].
  - rewrite (K3 q a Av). apply (I23 a Oa).
  - exfalso. assert (P : edges_parity E2 a = true) by (rewrite <- (K2 q a Av); exact Hq).
    apply (no_mutual_inside E2 E3 Hne I23). apply (uniform_inside E3 E2 a U Oa P).
Qed.

(* mutually exterior rings have no common interior point *)
Lemma exterior_disjoint E1 E2 q :
  keeps E1 -> keeps E2 -> no_meet E1 E2 -> outside E1 E2 -> outside E2 E1 ->
  edges_parity E1 q = true -> edges_parity E2 q = true -> False.
Proof.
  intros K1 K2 NM O12 O21 H1 H2. destruct (first_hit E1 E2 q NM H1) as [a [[Oa Av]|[Oa Av]]].
  - destruct (O12 a Oa) as [_ P]. rewrite <- (K2 q a Av) in P. congruence.
  - destruct (O21 a Oa) as [_ P]. rewrite <- (K1 q a Av) in P. congruence.
Qed.

(* ================================================================ rings of polygons *)
Notation E r := (line_segs r).

Lemma ring_keeps r : pts_closed (line_pts r) = true -> keeps (E r).
Proof. intros C u v Hav. apply (path_parity (line_pts r) u v C Hav). Qed.

Lemma ring_wf_shape r : ring_wf r = true ->
  exists a rest, line_pts r = a :: rest /\ rest <> [] /\ E r = ring_edges (a :: rest) /\ on_edges (E r) a = true.
Proof.
  intros W. destruct (ring_wf_pts r W) as [_ Es]. unfold ring_wf in W.
  destruct (line_pts r) as [|a [|b rest]] eqn:Ep; try discriminate.
  exists a, (b :: rest). split; [reflexivity|]. split; [discriminate|]. split; [exact Es|].
  rewrite Es. change (ring_edges (a :: b :: rest)) with ((a, b) :: ring_edges (b :: rest)).
  unfold on_edges. cbn [existsb]. rewrite on_seg_left. reflexivity.
Qed.

Lemma ring_nonempty r : ring_wf r = true -> E r <> [].
Proof.
  intros W. destruct (ring_wf_shape r W) as [a [rest [_ [_ [_ O]]]]]. intros Z. rewrite Z in O. discriminate.
Qed.

Lemma ring_uniform r r' :
  ring_wf r = true -> pts_closed (line_pts r') = true -> no_meet (E r) (E r') -> uniform (E r) (E r').
Proof.
  intros W C NM. destruct (ring_wf_shape r W) as [a [rest [_ [Hne [Es _]]]]].
  assert (Hav : forall e, In e (ring_edges (a :: rest)) -> avoids (E r') e).
  { intros e He f Hf w [H1 H2]. rewrite <- Es in He. apply (NM e f w He Hf). auto. }
  intros w1 w2 H1 H2. rewrite Es in H1, H2.
  destruct (walk_off (E r') a rest w1 Hav H1) as [O1 _]. split; [exact O1|].
  rewrite <- (walk_parity (E r') a rest w1 (ring_keeps r' C) Hav H1).
  apply (walk_parity (E r') a rest w2 (ring_keeps r' C) Hav H2).
Qed.

Lemma forallb_map' {A B} (f : B -> bool) (g : A -> B) l : forallb f (map g l) = forallb (fun x => f (g x)) l.
Proof. induction l as [|a l IH]; [reflexivity|]. simpl. rewrite IH. reflexivity. Qed.

(* membership of a point that is off every ring *)
Lemma in_poly_off y shell holes x :
  poly_rings y = shell :: holes -> (forall r, In r (poly_rings y) -> on_edges (E r) x = false) ->
  in_poly y x = edges_parity (E shell) x && forallb (fun h => negb (edges_parity (E h) x)) holes.
Proof.
  intros Er Hoff. unfold in_poly, poly_boundary, poly_interior, poly_ring_segs. rewrite Er in *.
  assert (B : rings_boundary (map line_segs (shell :: holes)) x = false).
  { unfold rings_boundary. destruct (existsb _ _) eqn:Ex; [|reflexivity]. exfalso.
    apply existsb_exists in Ex. destruct Ex as [es [Hes Hon]]. apply in_map_iff in Hes. destruct Hes as [r [<- Hr]].
    rewrite (Hoff r Hr) in Hon. discriminate. }
  rewrite B. cbn [orb map rings_interior]. unfold ring_strict_in. rewrite (Hoff shell (or_introl eq_refl)). cbn [negb andb].
  f_equal. rewrite forallb_map'. apply forallb_ext_in'. intros h Hh. unfold ring_strict_out.
  rewrite (Hoff h (or_intror Hh)). reflexivity.
Qed.

Lemma forallb_false_exists {A} (f : A -> bool) l : forallb f l = false -> exists x, In x l /\ f x = false.
Proof.
  induction l as [|a l IH]; [discriminate|]. cbn [forallb]. intros H. destruct (f a) eqn:Ea.
  - destruct (IH H) as [x [Hx Fx]]. exists x. split; [right; exact Hx | exact Fx].
  - exists a. split; [left; reflexivity | exact Ea].
Qed.

Lemma in_poly_shell y shell holes w :
  poly_rings y = shell :: holes -> poly_nest_ok y -> in_poly y w = true ->
  on_edges (E shell) w = true \/ (on_edges (E shell) w = false /\ edges_parity (E shell) w = true).
Proof.
  intros Er N H. unfold poly_nest_ok in N. rewrite Er in N. destruct N as [V1 _].
  destruct (on_edges (E shell) w) eqn:Es; [left; reflexivity|]. right. split; [reflexivity|].
  unfold in_poly, poly_boundary, poly_interior, poly_ring_segs in H. rewrite Er in H. cbn [map] in H.
  apply orb_true_iff in H. destruct H as [H|H].
  - unfold rings_boundary in H. cbn [existsb] in H. rewrite Es in H. cbn [orb] in H.
    apply existsb_exists in H. destruct H as [es [Hes Hon]]. apply in_map_iff in Hes. destruct Hes as [h [<- Hh]].
    destruct (edges_parity (E shell) w) eqn:P; [reflexivity|]. exfalso. apply (V1 h w Hh Hon). split; assumption.
  - cbn [rings_interior] in H. apply andb_true_iff in H. destruct H as [H _]. unfold ring_strict_in in H.
    apply andb_true_iff in H. tauto.
Qed.

Lemma in_poly_not_in_hole y shell holes w h :
  poly_rings y = shell :: holes -> poly_nest_ok y -> in_poly y w = true -> In h holes -> ~ strictly_in h w.
Proof.
  intros Er N H Hh [So Sp]. unfold poly_nest_ok in N. rewrite Er in N. destruct N as [_ [V2 V3]].
  unfold in_poly, poly_boundary, poly_interior, poly_ring_segs in H. rewrite Er in H. cbn [map] in H.
  apply orb_true_iff in H. destruct H as [H|H].
  - unfold rings_boundary in H. cbn [existsb] in H. apply orb_true_iff in H. destruct H as [H|H].
    + apply (V2 h w Hh H). split; assumption.
    + apply existsb_exists in H. destruct H as [es [Hes Hon]]. apply in_map_iff in Hes. destruct Hes as [h0 [<- Hh0]].
      apply (V3 h0 h w Hh0 Hh Hon). split; assumption.
  - cbn [rings_interior] in H. apply andb_true_iff in H. destruct H as [_ H]. rewrite forallb_forall in H.
    specialize (H (E h) (in_map line_segs holes h Hh)). unfold ring_strict_out in H.
    apply andb_true_iff in H. destruct H as [_ H]. rewrite Sp in H. discriminate.
Qed.

(* ================================================================ the core argument *)
Section Core.
  Variables A B : polyT Q.
  Variables SA SB : lineT Q.
  Variables HA HB : list (lineT Q).
  Hypothesis ErA : poly_rings A = SA :: HA.
  Hypothesis ErB : poly_rings B = SB :: HB.
  Hypothesis CA : forall r, In r (poly_rings A) -> pts_closed (line_pts r) = true.
  Hypothesis CB : forall r, In r (poly_rings B) -> pts_closed (line_pts r) = true.
  Hypothesis WA : forall r, In r (poly_rings A) -> ring_wf r = true.
  Hypothesis WB : forall r, In r (poly_rings B) -> ring_wf r = true.
  Hypothesis NA : poly_nest_ok A.
  Hypothesis NM : forall rA rB, In rA (poly_rings A) -> In rB (poly_rings B) -> no_meet (E rA) (E rB).

  Let inSA : In SA (poly_rings A). Proof. rewrite ErA. left. reflexivity. Qed.
  Let inSB : In SB (poly_rings B). Proof. rewrite ErB. left. reflexivity. Qed.

  Lemma core w a0 b0 :
    on_edges (E SA) a0 = true -> on_edges (E SB) b0 = true ->
    in_poly A w = true -> in_poly B w = true -> poly_boundary B w = false ->
    in_poly B a0 = false -> in_poly A b0 = false -> False.
  Proof.
    intros Oa0 Ob0 HAw HBw BBw HBa0 HAb0.
    (* w relative to B: off every ring, inside the shell, outside the holes *)
    assert (OffBw : forall r, In r (poly_rings B) -> on_edges (E r) w = false).
    { intros r Hr. destruct (on_edges (E r) w) eqn:Eo; [|reflexivity]. exfalso.
      unfold poly_boundary, rings_boundary, poly_ring_segs in BBw.
      assert (X : existsb (fun r0 => on_edges r0 w) (map line_segs (poly_rings B)) = true).
      { apply existsb_exists. exists (E r). split; [apply in_map; exact Hr | exact Eo]. }
      congruence. }
    rewrite (in_poly_off B SB HB w ErB OffBw) in HBw. apply andb_true_iff in HBw. destruct HBw as [PSBw PHBw].
    rewrite forallb_forall in PHBw.
    (* points of a ring of A are off every ring of B, and conversely *)
    assert (OffB : forall rA x, In rA (poly_rings A) -> on_edges (E rA) x = true -> forall rB, In rB (poly_rings B) -> on_edges (E rB) x = false).
    { intros rA x HrA Hx rB HrB. destruct (on_edges (E rB) x) eqn:Eo; [|reflexivity]. exfalso.
      unfold on_edges in Hx, Eo. apply existsb_exists in Hx. apply existsb_exists in Eo.
      destruct Hx as [e [He H1]], Eo as [f [Hf H2]]. apply (NM rA rB HrA HrB e f x He Hf). auto. }
    assert (OffA : forall rB x, In rB (poly_rings B) -> on_edges (E rB) x = true -> forall rA, In rA (poly_rings A) -> on_edges (E rA) x = false).
    { intros rB x HrB Hx rA HrA. destruct (on_edges (E rA) x) eqn:Eo; [|reflexivity]. exfalso.
      rewrite (OffB rA x HrA Eo rB HrB) in Hx. discriminate. }
    (* uniformity in both directions *)
    assert (UAB : forall rA rB, In rA (poly_rings A) -> In rB (poly_rings B) -> uniform (E rA) (E rB)).
    { intros rA rB HrA HrB. apply ring_uniform; [apply WA | apply CB | apply NM]; assumption. }
    assert (UBA : forall rA rB, In rA (poly_rings A) -> In rB (poly_rings B) -> uniform (E rB) (E rA)).
    { intros rA rB HrA HrB. apply ring_uniform; [apply WB | apply CA | apply no_meet_sym, NM]; assumption. }
    (* the shell of A against B *)
    rewrite (in_poly_off B SB HB a0 ErB (OffB SA a0 inSA Oa0)) in HBa0.
    rewrite (in_poly_off A SA HA b0 ErA (OffA SB b0 inSB Ob0)) in HAb0.
    destruct (in_poly_shell A SA HA w ErA NA HAw) as [OnS | [OffS PSAw]].
    { (* w on the shell of A: then the shell start is in B as well *)
      assert (X : edges_parity (E SB) a0 && forallb (fun h => negb (edges_parity (E h) a0)) HB = true).
      { apply andb_true_iff. split.
        - destruct (UAB SA SB inSA inSB a0 w Oa0 OnS) as [_ P]. rewrite P. exact PSBw.
        - apply forallb_forall. intros g Hg.
          assert (HgB : In g (poly_rings B)) by (rewrite ErB; right; exact Hg).
          destruct (UAB SA g inSA HgB a0 w Oa0 OnS) as [_ P]. rewrite P. apply PHBw. exact Hg. }
      congruence. }
    apply andb_false_iff in HBa0. destruct HBa0 as [PSBa0 | HBa0].
    2:{ (* the shell of A lies in a hole g of B: so does w *)
      apply forallb_false_exists in HBa0. destruct HBa0 as [g [Hg Pg]]. apply negb_false_iff in Pg.
      assert (HgB : In g (poly_rings B)) by (rewrite ErB; right; exact Hg).
      assert (I : inside (E SA) (E g)) by (apply (uniform_inside _ _ a0 (UAB SA g inSA HgB) Oa0 Pg)).
      pose proof (inside_trans (E SA) (E g) w (ring_keeps SA (CA SA inSA)) (ring_keeps g (CB g HgB))
                    (NM SA g inSA HgB) (UBA SA g inSA HgB) (ring_nonempty SA (WA SA inSA)) I PSAw) as P.
      pose proof (PHBw g Hg) as Q0. rewrite P in Q0. discriminate. }
    apply andb_false_iff in HAb0. destruct HAb0 as [PSAb0 | HAb0].
    { (* mutually exterior shells cannot both contain w *)
      apply (exterior_disjoint (E SA) (E SB) w (ring_keeps SA (CA SA inSA)) (ring_keeps SB (CB SB inSB)) (NM SA SB inSA inSB)).
      - apply (uniform_outside _ _ a0 (UAB SA SB inSA inSB) Oa0 PSBa0).
      - apply (uniform_outside _ _ b0 (UBA SA SB inSA inSB) Ob0 PSAb0).
      - exact PSAw.
      - exact PSBw. }
    (* the shell of B lies in a hole h' of A *)
    apply forallb_false_exists in HAb0. destruct HAb0 as [h' [Hh' Ph']]. apply negb_false_iff in Ph'.
    assert (Hh'A : In h' (poly_rings A)) by (rewrite ErA; right; exact Hh').
    assert (I : inside (E SB) (E h')) by (apply (uniform_inside _ _ b0 (UBA h' SB Hh'A inSB) Ob0 Ph')).
    destruct (on_edges (E h') w) eqn:Ohw.
    - (* w on h': then h' lies inside the shell of B, which lies inside h' *)
      apply (no_mutual_inside (E SB) (E h') (ring_nonempty SB (WB SB inSB)) I).
      apply (uniform_inside _ _ w (UAB h' SB Hh'A inSB) Ohw PSBw).
    - pose proof (inside_trans (E SB) (E h') w (ring_keeps SB (CB SB inSB)) (ring_keeps h' (CA h' Hh'A))
                    (no_meet_sym _ _ (NM h' SB Hh'A inSB)) (UAB h' SB Hh'A inSB) (ring_nonempty SB (WB SB inSB)) I PSBw) as P.
      apply (in_poly_not_in_hole A SA HA w h' ErA NA HAw Hh'). split; assumption.
  Qed.
End Core.

(* ================================================================ hasIntersectionPolygonWithPolygon is complete *)
Lemma rings_no_meet p1 p2 :
  poly_rings_wf p1 = true -> poly_rings_wf p2 = true ->
  has_intersection_between_lines (poly_lines p1) (poly_lines p2) = false ->
  forall r1 r2, In r1 (poly_rings p1) -> In r2 (poly_rings p2) -> no_meet (E r1) (E r2).
Proof.
  unfold poly_rings_wf. rewrite !forallb_forall. intros W1 W2 Hh r1 r2 Hr1 Hr2 e f w He Hf [H1 H2].
  destruct (ring_wf_pts r1 (W1 r1 Hr1)) as [Wf1 _]. destruct (ring_wf_pts r2 (W2 r2 Hr2)) as [Wf2 _].
  assert (O1 : on_line r1 w = true) by (unfold on_line, on_edges; apply existsb_exists; eauto).
  assert (O2 : on_line r2 w = true) by (unfold on_line, on_edges; apply existsb_exists; eauto).
  destruct (on_line_cover r1 w Wf1 O1) as [s [Hs Hsw]]. destruct (on_line_cover r2 w Wf2 O2) as [t [Ht Htw]].
  assert (X : has_intersection_between_lines (poly_lines p1) (poly_lines p2) = true).
  { apply hibl_iff; [apply poly_lines_nondeg | apply poly_lines_nondeg|].
    exists s, t, w. split; [eapply ring_in_poly_lines; eauto|]. split; [eapply ring_in_poly_lines; eauto | auto]. }
  congruence.
Qed.

Lemma ix_polygon_polygon_complete p1 p2 w :
  poly_rings_closed p1 = true -> poly_rings_closed p2 = true ->
  poly_rings_wf p1 = true -> poly_rings_wf p2 = true -> poly_nest_ok p1 -> poly_nest_ok p2 ->
  in_poly p1 w = true -> in_poly p2 w = true -> ix_polygon_polygon p1 p2 = true.
Proof.
  intros C1 C2 W1 W2 N1 N2 H1 H2. unfold ix_polygon_polygon.
  destruct (has_intersection_between_lines (poly_lines p1) (poly_lines p2)) eqn:Eh; [reflexivity|].
  pose proof (rings_no_meet p1 p2 W1 W2 Eh) as NM.
  pose proof C1 as C1'. pose proof C2 as C2'. pose proof W1 as W1'. pose proof W2 as W2'.
  unfold poly_rings_closed in C1', C2'. unfold poly_rings_wf in W1', W2'. rewrite forallb_forall in C1', C2', W1', W2'.
  assert (Ex1 : exists S1 Hs1, poly_rings p1 = S1 :: Hs1).
  { destruct (poly_rings p1) as [|S1 Hs1] eqn:Er1; [|eauto].
    unfold in_poly, poly_boundary, poly_interior, poly_ring_segs in H1. rewrite Er1 in H1. simpl in H1. discriminate. }
  assert (Ex2 : exists S2 Hs2, poly_rings p2 = S2 :: Hs2).
  { destruct (poly_rings p2) as [|S2 Hs2] eqn:Er2; [|eauto].
    unfold in_poly, poly_boundary, poly_interior, poly_ring_segs in H2. rewrite Er2 in H2. simpl in H2. discriminate. }
  destruct Ex1 as [S1 [Hs1 Er1]]. destruct Ex2 as [S2 [Hs2 Er2]].
  assert (In1 : In S1 (poly_rings p1)) by (rewrite Er1; left; reflexivity).
  assert (In2 : In S2 (poly_rings p2)) by (rewrite Er2; left; reflexivity).
  destruct (ring_wf_shape S1 (W1' S1 In1)) as [a0 [rest1 [Ep1 [_ [_ Oa0]]]]].
  destruct (ring_wf_shape S2 (W2' S2 In2)) as [b0 [rest2 [Ep2 [_ [_ Ob0]]]]].
  unfold exterior_ring. rewrite Er1, Er2. unfold start_xy. rewrite Ep1, Ep2. cbn [ix_optxy_polygon].
  (* a probe that fails means the start vertex is outside (it is off the other boundary) *)
  assert (Off12 : poly_boundary p2 a0 = false).
  { unfold poly_boundary, rings_boundary, poly_ring_segs. destruct (existsb _ _) eqn:Ex; [|reflexivity]. exfalso.
    apply existsb_exists in Ex. destruct Ex as [es [Hes Hon]]. apply in_map_iff in Hes. destruct Hes as [r [<- Hr]].
    unfold on_edges in Oa0, Hon. apply existsb_exists in Oa0. apply existsb_exists in Hon.
    destruct Oa0 as [e [He He']], Hon as [f [Hf Hf']].
    assert (Hr' : In r (poly_rings p2)) by exact Hr.
    apply (NM S1 r In1 Hr' e f a0 He Hf). auto. }
  assert (Off21 : poly_boundary p1 b0 = false).
  { unfold poly_boundary, rings_boundary, poly_ring_segs. destruct (existsb _ _) eqn:Ex; [|reflexivity]. exfalso.
    apply existsb_exists in Ex. destruct Ex as [es [Hes Hon]]. apply in_map_iff in Hes. destruct Hes as [r [<- Hr]].
    unfold on_edges in Ob0, Hon. apply existsb_exists in Ob0. apply existsb_exists in Hon.
    destruct Ob0 as [e [He He']], Hon as [f [Hf Hf']].
    assert (Hr' : In r (poly_rings p1)) by exact Hr.
    apply (NM r S2 Hr' In2 f e b0 Hf He). auto. }
  destruct (ix_xy_polygon a0 p2) eqn:P1; [reflexivity|].
  destruct (ix_xy_polygon b0 p1) eqn:P2; [reflexivity|]. exfalso.
  assert (F1 : in_poly p2 a0 = false).
  { destruct (in_poly p2 a0) eqn:Ein; [|reflexivity]. rewrite (ix_xy_polygon_complete_off a0 p2 C2 W2 Off12 Ein) in P1. discriminate. }
  assert (F2 : in_poly p1 b0 = false).
  { destruct (in_poly p1 b0) eqn:Ein; [|reflexivity]. rewrite (ix_xy_polygon_complete_off b0 p1 C1 W1 Off21 Ein) in P2. discriminate. }
  destruct (poly_boundary p2 w) eqn:B2.
  - (* w on the boundary of p2: then it is off the boundary of p1; roles swapped *)
    assert (B1 : poly_boundary p1 w = false).
    { unfold poly_boundary, rings_boundary, poly_ring_segs in B2 |- *. destruct (existsb _ (map line_segs (poly_rings p1))) eqn:Ex; [|reflexivity]. exfalso.
      apply existsb_exists in Ex. destruct Ex as [es [Hes Hon]]. apply in_map_iff in Hes. destruct Hes as [r [<- Hr]].
      apply existsb_exists in B2. destruct B2 as [es2 [Hes2 Hon2]]. apply in_map_iff in Hes2. destruct Hes2 as [r2 [<- Hr2]].
      unfold on_edges in Hon, Hon2. apply existsb_exists in Hon. apply existsb_exists in Hon2.
      destruct Hon as [e [He He']], Hon2 as [f [Hf Hf']]. apply (NM r r2 Hr Hr2 e f w He Hf). auto. }
    assert (NM' : forall rA rB, In rA (poly_rings p2) -> In rB (poly_rings p1) -> no_meet (E rA) (E rB)).
    { intros rA rB HA HB. apply no_meet_sym. apply NM; assumption. }
    exact (core p2 p1 S2 S1 Hs2 Hs1 Er2 Er1 C2' C1' W2' W1' N2 NM' w b0 a0 Ob0 Oa0 H2 H1 B1 F2 F1).
  - exact (core p1 p2 S1 S2 Hs1 Hs2 Er1 Er2 C1' C2' W1' W2' N1 NM w a0 b0 Oa0 Ob0 H1 H2 B2 F1 F2).
Qed.

Lemma ix_mpoly_mpoly_complete ys1 ys2 w :
  forallb poly_rings_closed ys1 = true -> forallb poly_rings_closed ys2 = true ->
  forallb poly_rings_wf ys1 = true -> forallb poly_rings_wf ys2 = true ->
  (forall y, In y ys1 -> poly_nest_ok y) -> (forall y, In y ys2 -> poly_nest_ok y) ->
  inMY ys1 w = true -> inMY ys2 w = true -> ix_mpoly_mpoly ys1 ys2 = true.
Proof.
  intros C1 C2 W1 W2 N1 N2 H1 H2. rewrite forallb_forall in C1, C2, W1, W2.
  apply existsb_exists in H1. apply existsb_exists in H2. destruct H1 as [y1 [Hy1 H1]], H2 as [y2 [Hy2 H2]].
  unfold ix_mpoly_mpoly. apply existsb_exists. exists y1. split; [exact Hy1|].
  apply existsb_exists. exists y2. split; [exact Hy2|].
  apply (ix_polygon_polygon_complete y1 y2 w); auto.
Qed.

(* ================================================================ the switch, every pair of types *)
Lemma ix_switch_complete_all g1 g2 w :
  (rank g1 <= rank g2)%nat ->
  (forall c gs, g1 <> GColl c gs) -> (forall c gs, g2 <> GColl c gs) ->
  operand_ok g1 -> operand_ok g2 ->
  inG g1 w = true -> inG g2 w = true -> ix_switch g1 g2 = OBool true.
Proof.
  intros Hr G1 G2 O1 O2 H1 H2.
  destruct (no_polys g1) eqn:Np1; [apply (ix_switch_complete_mixed g1 g2 w); auto|].
  destruct (no_polys g2) eqn:Np2; [apply (ix_switch_complete_mixed g1 g2 w); auto|].
  destruct O1 as [W1 [C1 [F1 N1]]]. destruct O2 as [W2 [C2 [F2 N2]]].
  unfold no_polys, Intersects.rings_closed, polys_wf, polys_nest_ok in *.
  destruct g1 as [p|l|y|c mp|c ls|c ys|c gs]; destruct g2 as [p'|l'|y'|c' mp'|c' ls'|c' ys'|c' gs'];
    cbn [rank g_polys inG ix_switch] in *; try discriminate; try (exfalso; lia);
    try (exfalso; eapply G1; reflexivity); try (exfalso; eapply G2; reflexivity); f_equal.
  - (* polygon, polygon *)
    cbn [forallb] in C1, C2, F1, F2. rewrite andb_true_r in C1, C2, F1, F2.
    apply (ix_polygon_polygon_complete y y' w); auto; [apply N1 | apply N2]; left; reflexivity.
  - (* polygon, multipolygon *)
    apply (ix_mpoly_mpoly_complete [y] ys' w); auto. rewrite single_inMY. exact H1.
  - (* multipolygon, multipolygon *)
    apply (ix_mpoly_mpoly_complete ys ys' w); auto.
Qed.

Lemma ix_flat_complete_all g1 g2 w :
  (forall c gs, g1 <> GColl c gs) -> (forall c gs, g2 <> GColl c gs) ->
  operand_ok g1 -> operand_ok g2 -> inG g1 w = true -> inG g2 w = true -> ix_flat g1 g2 = true.
Proof.
  intros G1 G2 O1 O2 H1 H2. unfold ix_flat, ix_flat_o.
  destruct (Nat.ltb (rank g2) (rank g1)) eqn:Er.
  - apply Nat.ltb_lt in Er. rewrite (ix_switch_complete_all g2 g1 w); auto. lia.
  - apply Nat.ltb_ge in Er. rewrite (ix_switch_complete_all g1 g2 w); auto.
Qed.

(* Intersects(a, b) = false implies that the point sets are disjoint: every pair of operands *)
Theorem intersects_complete a b w :
  operand_ok a -> operand_ok b -> inG a w = true -> inG b w = true -> intersects a b = true.
Proof.
  intros Oa Ob H1 H2. rewrite intersects_leaves.
  rewrite inG_leaves in H1, H2. apply existsb_exists in H1. apply existsb_exists in H2.
  destruct H1 as [la [Hla H1]], H2 as [lb [Hlb H2]].
  apply existsb_exists. exists la. split; [exact Hla|]. apply existsb_exists. exists lb. split; [exact Hlb|].
  apply (ix_flat_complete_all la lb w); auto.
  - exact (leaves_not_coll a la Hla).
  - exact (leaves_not_coll b lb Hlb).
  - exact (operand_ok_leaf a la Oa Hla).
  - exact (operand_ok_leaf b lb Ob Hlb).
Qed.

(* the model of Intersects IS the exact (verified) oracle, and the exact statement of the property *)
Theorem intersects_exact a b :
  operand_ok a -> operand_ok b ->
  (intersects a b = true <-> exists p, inG a p = true /\ inG b p = true) /\
  intersects a b = share_witness a b.
Proof.
  intros Oa Ob. pose proof Oa as [_ [Ca _]]. pose proof Ob as [_ [Cb _]].
  assert (Iff : intersects a b = true <-> exists p, inG a p = true /\ inG b p = true).
  { split; [apply intersects_sound; assumption|]. intros [p [H1 H2]]. eapply intersects_complete; eauto. }
  split; [exact Iff|]. apply eq_true_iff_eq. rewrite (share_witness_iff a b Ca Cb). exact Iff.
Qed.

Theorem distance_zero_iff_intersects_all a b :
  operand_ok a -> operand_ok b ->
  ((exists d, dist2 a b = Some d /\ d == 0) <-> intersects a b = true).
Proof.
  intros Oa Ob. split.
  - intros [d [Hd H0]]. destruct (distance_zero_witness a b d Hd H0) as [H|[w [H1 H2]]]; [exact H|].
    eapply intersects_complete; eauto.
  - intros H. exists 0. split; [|reflexivity]. unfold dist2. rewrite H. reflexivity.
Qed.

(* ================================================================ the nesting hypothesis is decidable *)
(* poly_nest_ok quantifies over all points; by the sufficiency of the slab witnesses it is enough
   to test the witnesses of the polygon's own arrangement *)
Definition ringY (r : lineT Q) : geom := GPoly (MkPoly XY [r]).
Definition onb (r : lineT Q) (w : pt) : bool := inG (GLine r) w.
Definition inb (r : lineT Q) (w : pt) : bool := inG (ringY r) w.
Definition sinb (r : lineT Q) (w : pt) : bool := negb (onb r w) && inb r w.     (* strictly inside *)

Definition nest_at (shell : lineT Q) (holes : list (lineT Q)) (w : pt) : bool :=
  forallb (fun h => implb (onb h w) (inb shell w)) holes &&
  forallb (fun h => implb (onb shell w) (negb (sinb h w))) holes &&
  forallb (fun h => forallb (fun h' => implb (onb h w) (negb (sinb h' w))) holes) holes.

Definition poly_nest_okb (y : polyT Q) : bool :=
  match poly_rings y with
  | [] => true
  | shell :: holes => forallb (fun wd => nest_at shell holes (fst wd)) (witnesses (arr_segments (GPoly y)) [])
  end.

Lemma onb_spec r p : onb r p = on_edges (E r) p.
Proof. reflexivity. Qed.
Lemma inb_spec r p : inb r p = on_edges (E r) p || edges_parity (E r) p.
Proof.
  unfold inb, ringY. cbn [inG]. unfold in_poly, poly_boundary, poly_interior, poly_ring_segs, rings_boundary.
  cbn [poly_rings map existsb rings_interior forallb]. unfold ring_strict_in.
  destruct (on_edges (E r) p), (edges_parity (E r) p); reflexivity.
Qed.
Lemma sinb_spec r p : sinb r p = true <-> strictly_in r p.
Proof.
  unfold sinb, strictly_in. rewrite onb_spec, inb_spec.
  destruct (on_edges (E r) p), (edges_parity (E r) p); simpl; split; intros H; try discriminate; try tauto; destruct H; discriminate.
Qed.

Section NestDec.
  Variable y : polyT Q.
  Hypothesis Cy : poly_rings_closed y = true.
  Let L := arr_segments (GPoly y).

  Lemma cov_line r : In r (poly_rings y) -> covers_geom L [] (GLine r) /\ Planar_slab_base.rings_closed (GLine r).
  Proof.
    intros Hr. split; [split|].
    - intros e He. unfold arr_segments in He. cbn [g_polys g_lines flat_map app] in He. rewrite app_nil_r in He.
      apply (in_arr_ring (GPoly y) y r e); [left; reflexivity | exact Hr | exact He].
    - intros x [].
    - intros y0 [].
  Qed.
  Lemma cov_ring r : In r (poly_rings y) -> covers_geom L [] (ringY r) /\ Planar_slab_base.rings_closed (ringY r).
  Proof.
    intros Hr. split; [split|].
    - intros e He. unfold arr_segments, ringY in He. cbn [g_polys g_lines flat_map app poly_ring_segs poly_rings map concat] in He.
      rewrite !app_nil_r in He.
      apply (in_arr_ring (GPoly y) y r e); [left; reflexivity | exact Hr | exact He].
    - intros x [].
    - intros y0 [<-|[]] r0 [<-|[]]. unfold poly_rings_closed in Cy. rewrite forallb_forall in Cy. exact (Cy r Hr).
  Qed.

  Lemma two_everywhere g1 g2 (F : bool -> bool -> bool) :
    (covers_geom L [] g1 /\ Planar_slab_base.rings_closed g1) -> (covers_geom L [] g2 /\ Planar_slab_base.rings_closed g2) ->
    (forall w d, In (w, d) (witnesses L []) -> F (inG g1 w) (inG g2 w) = true) ->
    forall p, F (inG g1 p) (inG g2 p) = true.
  Proof.
    intros C1 C2 H p.
    apply (pointwise_everywhere L [] [g1; g2] (fun l => match l with [a; b] => F a b | _ => true end)).
    - intros g [<-|[<-|[]]]; assumption.
    - intros w d Hw. cbn [map]. apply (H w d Hw).
  Qed.

  Lemma poly_nest_okb_sound : poly_nest_okb y = true -> poly_nest_ok y.
  Proof.
    unfold poly_nest_okb, poly_nest_ok. destruct (poly_rings y) as [|shell holes] eqn:Er; [auto|].
    intros H. rewrite forallb_forall in H.
    assert (At : forall w d, In (w, d) (witnesses L []) -> nest_at shell holes w = true) by (intros w d Hw; apply (H (w, d) Hw)).
    assert (InS : In shell (poly_rings y)) by (rewrite Er; left; reflexivity).
    assert (InH : forall h, In h holes -> In h (poly_rings y)) by (intros h Hh; rewrite Er; right; exact Hh).
    split; [|split].
    - intros h p Hh Hon [So Sp].
      pose proof (two_everywhere (GLine h) (ringY shell) implb (cov_line h (InH h Hh)) (cov_ring shell InS)) as K.
      assert (Kp : implb (onb h p) (inb shell p) = true).
      { apply K. intros w d Hw. pose proof (At w d Hw) as A. unfold nest_at in A.
        apply andb_true_iff in A. destruct A as [A _]. apply andb_true_iff in A. destruct A as [A _].
        rewrite forallb_forall in A. apply (A h Hh). }
      rewrite onb_spec, inb_spec, Hon, So, Sp in Kp. discriminate.
    - intros h p Hh Hon Hs. apply sinb_spec in Hs.
      pose proof (two_everywhere (GLine shell) (GLine h) (fun a b => true) (cov_line shell InS) (cov_line h (InH h Hh))) as _.
      assert (Kp : implb (onb shell p) (negb (sinb h p)) = true).
      { apply (pointwise_everywhere L [] [GLine shell; GLine h; ringY h]
                 (fun l => match l with [a; b; c] => implb a (negb (negb b && c)) | _ => true end)).
        - intros g [<-|[<-|[<-|[]]]]; [apply cov_line; exact InS | apply cov_line; apply InH; exact Hh | apply cov_ring; apply InH; exact Hh].
        - intros w d Hw. cbn [map]. pose proof (At w d Hw) as A. unfold nest_at in A.
          apply andb_true_iff in A. destruct A as [A _]. apply andb_true_iff in A. destruct A as [_ A].
          rewrite forallb_forall in A. apply (A h Hh). }
      rewrite onb_spec, Hon, Hs in Kp. discriminate.
    - intros h h' p Hh Hh' Hon Hs. apply sinb_spec in Hs.
      assert (Kp : implb (onb h p) (negb (sinb h' p)) = true).
      { apply (pointwise_everywhere L [] [GLine h; GLine h'; ringY h']
                 (fun l => match l with [a; b; c] => implb a (negb (negb b && c)) | _ => true end)).
        - intros g [<-|[<-|[<-|[]]]]; [apply cov_line; apply InH; exact Hh | apply cov_line; apply InH; exact Hh' | apply cov_ring; apply InH; exact Hh'].
        - intros w d Hw. cbn [map]. pose proof (At w d Hw) as A. unfold nest_at in A.
          apply andb_true_iff in A. destruct A as [_ A].
          rewrite forallb_forall in A. specialize (A h Hh). rewrite forallb_forall in A. apply (A h' Hh'). }
      rewrite onb_spec, Hon, Hs in Kp. discriminate.
  Qed.
End NestDec.

(* the executable form of the hypotheses *)
Definition operand_okb (g : geom) : bool :=
  lines_wf g && Intersects.rings_closed g && polys_wf g && forallb poly_nest_okb (g_polys g).

Lemma operand_okb_sound g : operand_okb g = true -> operand_ok g.
Proof.
  unfold operand_okb, operand_ok. rewrite !andb_true_iff. intros [[[W C] F] N]. repeat split; try assumption.
  intros y Hy. rewrite forallb_forall in N. unfold Intersects.rings_closed in C. rewrite forallb_forall in C.
  apply poly_nest_okb_sound; [apply C; exact Hy | apply N; exact Hy].
Qed.
