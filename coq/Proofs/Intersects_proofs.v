(* Lemmas about Model/Intersects.v (property C09): the Go routines against the exact kernel
   (Base/QKernel.v) and the definitional point-set semantics (Base/Planar.v). *)
From Coq Require Import QArith Qreduction List Bool ZArith Lia Lqa Setoid Morphisms.
From SF Require Import Base.GeomAST Base.QKernel Base.Planar Proofs.Planar_proofs Model.Intersects.
Import ListNotations.
Open Scope Q_scope.

(* ================================================================ scalars *)
Lemma qltb_true_iff a b : qltb a b = true <-> a < b.
Proof.
  unfold qltb. rewrite negb_true_iff. split; intros H.
  - apply Qnot_le_lt. intros K. apply Qle_bool_iff in K. congruence.
  - destruct (Qle_bool b a) eqn:E; [|reflexivity]. apply Qle_bool_iff in E. lra.
Qed.
Lemma qltb_false_iff a b : qltb a b = false <-> b <= a.
Proof.
  unfold qltb. rewrite negb_false_iff. apply Qle_bool_iff.
Qed.
Global Instance qltb_proper : Proper (Qeq ==> Qeq ==> eq) qltb.
Proof. intros a a' Ha b b' Hb. unfold qltb. rewrite Ha, Hb. reflexivity. Qed.

Lemma Qle_bool_false_iff a b : Qle_bool a b = false <-> b < a.
Proof.
  split; intros H.
  - apply Qnot_le_lt. intros K. apply Qle_bool_iff in K. congruence.
  - destruct (Qle_bool a b) eqn:E; [|reflexivity]. apply Qle_bool_iff in E. lra.
Qed.

Lemma sort_pair_spec a b :
  let '(lo, hi) := sort_pair a b in
  lo <= hi /\ ((lo = a /\ hi = b) \/ (lo = b /\ hi = a)).
Proof.
  unfold sort_pair. destruct (qltb b a) eqn:E.
  - apply qltb_true_iff in E. split; [lra | right; auto].
  - apply qltb_false_iff in E. split; [lra | left; auto].
Qed.

Lemma sort_pair_between a b x :
  Qle_bool (fst (sort_pair a b)) x && Qle_bool x (snd (sort_pair a b)) = qbetween a b x.
Proof.
  unfold sort_pair, qbetween. destruct (qltb b a) eqn:E; cbn [fst snd].
  - apply qltb_true_iff in E.
    destruct (Qle_bool b x) eqn:E1, (Qle_bool x a) eqn:E2, (Qle_bool a x) eqn:E3, (Qle_bool x b) eqn:E4;
      try reflexivity; exfalso;
      rewrite ?Qle_bool_iff, ?Qle_bool_false_iff in *; lra.
  - apply qltb_false_iff in E.
    destruct (Qle_bool b x) eqn:E1, (Qle_bool x a) eqn:E2, (Qle_bool a x) eqn:E3, (Qle_bool x b) eqn:E4;
      try reflexivity; exfalso;
      rewrite ?Qle_bool_iff, ?Qle_bool_false_iff in *; lra.
Qed.

Lemma line_box_contains a b p :
  box_contains (line_box (a, b)) p = qbetween (fst a) (fst b) (fst p) && qbetween (snd a) (snd b) (snd p).
Proof.
  unfold line_box.
  rewrite <- (sort_pair_between (fst a) (fst b) (fst p)), <- (sort_pair_between (snd a) (snd b) (snd p)).
  destruct (sort_pair (fst a) (fst b)) as [x0 x1], (sort_pair (snd a) (snd b)) as [y0 y1].
  unfold box_contains; cbn [bminx bminy bmaxx bmaxy fst snd]. rewrite !andb_assoc. reflexivity.
Qed.

(* ================================================================ orientation *)
Lemma go_cp_cross p q s : go_cp p q s == cross p q s.
Proof. unfold go_cp, cross. ring. Qed.

Lemma orientation_left p q s : orientation p q s = LeftTurn <-> 0 < cross p q s.
Proof.
  unfold orientation. rewrite <- go_cp_cross. destruct (go_cp p q s ?= 0) eqn:E.
  - apply Qeq_alt in E. split; [discriminate | lra].
  - apply Qlt_alt in E. split; [discriminate | lra].
  - apply Qgt_alt in E. split; [intros _; lra | reflexivity].
Qed.
Lemma orientation_right p q s : orientation p q s = RightTurn <-> cross p q s < 0.
Proof.
  unfold orientation. rewrite <- go_cp_cross. destruct (go_cp p q s ?= 0) eqn:E.
  - apply Qeq_alt in E. split; [discriminate | lra].
  - apply Qlt_alt in E. split; [intros _; lra | reflexivity].
  - apply Qgt_alt in E. split; [discriminate | lra].
Qed.
Lemma orientation_collinear p q s : orientation p q s = Collinear <-> cross p q s == 0.
Proof.
  unfold orientation. rewrite <- go_cp_cross. destruct (go_cp p q s ?= 0) eqn:E.
  - apply Qeq_alt in E. split; [intros _; lra | reflexivity].
  - apply Qlt_alt in E. split; [discriminate | lra].
  - apply Qgt_alt in E. split; [discriminate | lra].
Qed.
Lemma turn_eqb_eq a b : turn_eqb a b = true <-> a = b.
Proof. destruct a, b; simpl; split; intros; try reflexivity; discriminate. Qed.
Lemma turn_eqb_neq a b : turn_eqb a b = false <-> a <> b.
Proof. destruct a, b; simpl; split; intros; try reflexivity; try discriminate; congruence. Qed.

(* the sign of the cross product as a number in {-1,0,1}, to let lra/nra reason about turns *)
Lemma orientation_cases p q s :
  (orientation p q s = LeftTurn /\ 0 < cross p q s) \/
  (orientation p q s = Collinear /\ cross p q s == 0) \/
  (orientation p q s = RightTurn /\ cross p q s < 0).
Proof.
  destruct (Q_dec (cross p q s) 0) as [[H|H]|H].
  - right; right. split; [apply orientation_right|]; exact H.
  - left. split; [apply orientation_left|]; exact H.
  - right; left. split; [apply orientation_collinear|]; exact H.
Qed.

(* ================================================================ intersectsXY, onSegment *)
Lemma intersects_xy_on_seg s p : intersects_xy s p = on_seg s p.
Proof.
  destruct s as [a b]. unfold intersects_xy, on_seg.
  rewrite line_box_contains.
  destruct (qbetween (fst a) (fst b) (fst p) && qbetween (snd a) (snd b) (snd p)); cbn [negb andb]; [|reflexivity].
  apply eq_true_iff_eq. rewrite !Qeq_bool_iff. unfold cross. split; intros H; lra.
Qed.

Lemma qmax2_spec a b : (a <= b /\ qmax2 a b = b) \/ (b < a /\ qmax2 a b = a).
Proof.
  unfold qmax2. destruct (qltb b a) eqn:E.
  - apply qltb_true_iff in E. right; auto.
  - apply qltb_false_iff in E. left; auto.
Qed.
Lemma qmin2_spec a b : (a < b /\ qmin2 a b = a) \/ (b <= a /\ qmin2 a b = b).
Proof.
  unfold qmin2. destruct (qltb a b) eqn:E.
  - apply qltb_true_iff in E. left; auto.
  - apply qltb_false_iff in E. right; auto.
Qed.

Lemma on_segment_between p q r :
  on_segment p q r = qbetween (fst p) (fst q) (fst r) && qbetween (snd p) (snd q) (snd r).
Proof.
  unfold on_segment. apply eq_true_iff_eq.
  rewrite !andb_true_iff, !qbetween_iff, !Qle_bool_iff.
  destruct (qmax2_spec (fst p) (fst q)) as [[H1 ->]|[H1 ->]];
  destruct (qmin2_spec (fst p) (fst q)) as [[H2 ->]|[H2 ->]];
  destruct (qmax2_spec (snd p) (snd q)) as [[H3 ->]|[H3 ->]];
  destruct (qmin2_spec (snd p) (snd q)) as [[H4 ->]|[H4 ->]];
  split; intros H; try lra;
  repeat match goal with H : _ /\ _ |- _ => destruct H end;
  (repeat split; try lra);
  repeat match goal with H : _ \/ _ |- _ => destruct H end; try lra.
Qed.

(* ================================================================ intersectLine *)
Lemma ratio_01 x y :
  (0 < x /\ y <= 0) \/ (x == 0 /\ ~ y == 0) \/ (x < 0 /\ 0 <= y) ->
  ~ x - y == 0 /\ 0 <= x / (x - y) <= 1.
Proof.
  intros H.
  assert (Hd : ~ x - y == 0) by (destruct H as [[? ?]|[[? ?]|[? ?]]]; lra).
  split; [exact Hd|].
  assert (Ht : x / (x - y) * (x - y) == x) by (field; exact Hd).
  set (t := x / (x - y)) in *.
  destruct H as [[H1 H2]|[[H1 H2]|[H1 H2]]].
  - assert (0 < x - y) by lra. split; nra.
  - assert (t == 0).
    { assert (K : t * (x - y) == 0) by lra. apply Qmult_integral in K. destruct K; [assumption | contradiction]. }
    lra.
  - assert (x - y < 0) by lra. split; nra.
Qed.

Lemma turns_differ_cases p q s s' :
  orientation p q s <> orientation p q s' ->
  let x := cross p q s in let y := cross p q s' in
  (0 < x /\ y <= 0) \/ (x == 0 /\ ~ y == 0) \/ (x < 0 /\ 0 <= y).
Proof.
  intros H. cbv zeta.
  destruct (orientation_cases p q s) as [[E1 H1]|[[E1 H1]|[E1 H1]]];
  destruct (orientation_cases p q s') as [[E2 H2]|[[E2 H2]|[E2 H2]]];
  try (exfalso; apply H; congruence); first [left; lra | right; left; lra | right; right; lra].
Qed.

Lemma on_seg_of_between a b p :
  on_segment a b p = true -> cross a b p == 0 -> on_seg (a, b) p = true.
Proof.
  intros H Hc. rewrite on_segment_between in H. unfold on_seg. rewrite H. simpl.
  apply Qeq_bool_iff. exact Hc.
Qed.
Lemma on_segment_of_on_seg a b p : on_seg (a, b) p = true -> on_segment a b p = true.
Proof.
  unfold on_seg. rewrite on_segment_between. rewrite andb_true_iff. tauto.
Qed.

Lemma il_sound a b c d :
  ~ pt_eq a b -> ~ pt_eq c d ->
  intersect_line_empty (a, b) (c, d) = false ->
  exists p, on_seg (a, b) p = true /\ on_seg (c, d) p = true.
Proof.
  intros Hab Hcd H. unfold intersect_line_empty in H.
  destruct (negb (turn_eqb (orientation a b c) (orientation a b d)) &&
            negb (turn_eqb (orientation c d a) (orientation c d b))) eqn:EA.
  - (* proper / touching configuration: the supporting lines cross inside both segments *)
    clear H. apply andb_true_iff in EA. destruct EA as [E12 E34].
    apply negb_true_iff, turn_eqb_neq in E12. apply negb_true_iff, turn_eqb_neq in E34.
    apply seg_seg_nonempty_iff. unfold seg_seg.
    apply pt_eqb_false_iff in Hab. apply pt_eqb_false_iff in Hcd. rewrite Hab, Hcd. cbv zeta.
    pose proof (turns_differ_cases _ _ _ _ E34) as S34. cbv zeta in S34.
    pose proof (turns_differ_cases _ _ _ _ E12) as S12. cbv zeta in S12.
    destruct (ratio_01 _ _ S34) as [Hden [T0 T1]].
    destruct (ratio_01 _ _ S12) as [Hden' [U0 U1]].
    assert (Eden : Qeq_bool (cross c d a - cross c d b) 0 = false) by (apply Qeq_bool_false_iff; exact Hden).
    rewrite Eden.
    assert (Euu : - cross a b c / (cross c d a - cross c d b) == cross a b c / (cross a b c - cross a b d)).
    { assert (K : cross c d a - cross c d b == - (cross a b c - cross a b d)) by (unfold cross; ring).
      rewrite K. field. exact Hden'. }
    rewrite Euu.
    apply Qle_bool_iff in T0, T1, U0, U1. rewrite T0, T1, U0, U1. simpl. discriminate.
  - destruct (turn_eqb (orientation a b c) Collinear && turn_eqb (orientation a b d) Collinear) eqn:EB;
      [|discriminate].
    apply andb_true_iff in EB. destruct EB as [E1 E2].
    apply turn_eqb_eq, orientation_collinear in E1. apply turn_eqb_eq, orientation_collinear in E2.
    destruct (collinear_swap c d a b Hab E1 E2) as [E3 E4].
    destruct (on_segment a b c) eqn:S1.
    { exists c. split; [apply on_seg_of_between; assumption | apply on_seg_left]. }
    destruct (on_segment a b d) eqn:S2.
    { exists d. split; [apply on_seg_of_between; assumption | apply on_seg_right]. }
    destruct (on_segment c d a) eqn:S3.
    { exists a. split; [apply on_seg_left | apply on_seg_of_between; assumption]. }
    destruct (on_segment c d b) eqn:S4.
    { exists b. split; [apply on_seg_right | apply on_seg_of_between; assumption]. }
    simpl in H. discriminate.
Qed.

Lemma il_complete a b c d p :
  ~ pt_eq a b -> ~ pt_eq c d ->
  on_seg (a, b) p = true -> on_seg (c, d) p = true ->
  intersect_line_empty (a, b) (c, d) = false.
Proof.
  intros Hab Hcd Hs Ht. unfold intersect_line_empty.
  destruct (negb (turn_eqb (orientation a b c) (orientation a b d)) &&
            negb (turn_eqb (orientation c d a) (orientation c d b))) eqn:EA; [reflexivity|].
  pose proof Hs as Hs'. pose proof Ht as Ht'.
  apply on_seg_iff in Hs'. destruct Hs' as [t [[T0 T1] [Hx Hy]]].
  apply on_seg_iff in Ht'. destruct Ht' as [u [[U0 U1] [Hx' Hy']]].
  assert (Cp : cross c d p == 0).
  { rewrite (cross_along c d c d p u Hx' Hy'). unfold cross. ring. }
  assert (Cp' : cross a b p == 0).
  { rewrite (cross_along a b a b p t Hx Hy). unfold cross. ring. }
  pose proof (cross_along c d a b p t Hx Hy) as A1. rewrite Cp in A1.
  pose proof (cross_along a b c d p u Hx' Hy') as A2. rewrite Cp' in A2.
  (* all four cross products vanish *)
  assert (Hall : cross a b c == 0 /\ cross a b d == 0).
  { apply andb_false_iff in EA. destruct EA as [E|E].
    - apply negb_false_iff, turn_eqb_eq in E.
      destruct (orientation_cases a b c) as [[E1 H1]|[[E1 H1]|[E1 H1]]];
      destruct (orientation_cases a b d) as [[E2 H2]|[[E2 H2]|[E2 H2]]];
        try (rewrite E1, E2 in E; discriminate); try (split; assumption); exfalso; nra.
    - apply negb_false_iff, turn_eqb_eq in E.
      assert (H34 : cross c d a == 0 /\ cross c d b == 0).
      { destruct (orientation_cases c d a) as [[E1 H1]|[[E1 H1]|[E1 H1]]];
        destruct (orientation_cases c d b) as [[E2 H2]|[[E2 H2]|[E2 H2]]];
          try (rewrite E1, E2 in E; discriminate); try (split; assumption); exfalso; nra. }
      destruct H34 as [H3 H4]. apply (collinear_swap a b c d Hcd H3 H4). }
  destruct Hall as [D1 D2].
  destruct (collinear_swap c d a b Hab D1 D2) as [D3 D4].
  assert (O1 : turn_eqb (orientation a b c) Collinear = true) by (apply turn_eqb_eq, orientation_collinear; exact D1).
  assert (O2 : turn_eqb (orientation a b d) Collinear = true) by (apply turn_eqb_eq, orientation_collinear; exact D2).
  rewrite O1, O2. cbn [andb].
  (* the lexicographically larger of the two lower ends lies on both segments *)
  destruct (on_seg_lex a b p Hs) as [L1 L2]. destruct (on_seg_lex c d p Ht) as [L3 L4].
  destruct (pt_le_total (pt_min a b) (pt_min c d)) as [L|L].
  - (* pt_min c d is on (a,b) *)
    assert (Hon : on_seg (a, b) (pt_min c d) = true).
    { apply collinear_between_on_seg.
      - destruct (pt_min_cases c d) as [[-> _]|[-> _]]; assumption.
      - exact L.
      - eapply pt_le_trans; [exact L3 | exact L2]. }
    apply on_segment_of_on_seg in Hon.
    destruct (pt_min_cases c d) as [[E _]|[E _]]; rewrite E in Hon; rewrite Hon; cbn [negb andb];
      rewrite ?andb_false_r; reflexivity.
  - assert (Hon : on_seg (c, d) (pt_min a b) = true).
    { apply collinear_between_on_seg.
      - destruct (pt_min_cases a b) as [[-> _]|[-> _]]; assumption.
      - exact L.
      - eapply pt_le_trans; [exact L1 | exact L4]. }
    apply on_segment_of_on_seg in Hon.
    destruct (pt_min_cases a b) as [[E _]|[E _]]; rewrite E in Hon; rewrite Hon; cbn [negb andb];
      rewrite ?andb_false_r; reflexivity.
Qed.

(* a common point puts the two boxes in overlap *)
Lemma box_overlap_common s t p :
  on_seg s p = true -> on_seg t p = true -> box_overlap (line_box s) (line_box t) = true.
Proof.
  destruct s as [a b], t as [c d]. intros Hs Ht.
  assert (Bs : box_contains (line_box (a, b)) p = true).
  { rewrite line_box_contains. unfold on_seg in Hs. apply andb_true_iff in Hs. tauto. }
  assert (Bt : box_contains (line_box (c, d)) p = true).
  { rewrite line_box_contains. unfold on_seg in Ht. apply andb_true_iff in Ht. tauto. }
  unfold box_contains in Bs, Bt. unfold box_overlap.
  rewrite !andb_true_iff, !Qle_bool_iff in *. lra.
Qed.

Definition nondeg (s : seg) : Prop := ~ pt_eq (fst s) (snd s).

Lemma pair_test_iff s t :
  nondeg s -> nondeg t ->
  (box_overlap (line_box s) (line_box t) && negb (intersect_line_empty s t) = true <->
   exists p, on_seg s p = true /\ on_seg t p = true).
Proof.
  destruct s as [a b], t as [c d]. unfold nondeg; cbn [fst snd]. intros Hs Ht. split.
  - rewrite andb_true_iff, negb_true_iff. intros [_ H]. apply il_sound; assumption.
  - intros [p [H1 H2]]. rewrite andb_true_iff, negb_true_iff. split.
    + eapply box_overlap_common; eauto.
    + eapply il_complete; eauto.
Qed.

Lemma hibl_iff l1 l2 :
  Forall nondeg l1 -> Forall nondeg l2 ->
  (has_intersection_between_lines l1 l2 = true <->
   exists s t p, In s l1 /\ In t l2 /\ on_seg s p = true /\ on_seg t p = true).
Proof.
  intros F1 F2. unfold has_intersection_between_lines.
  rewrite Forall_forall in F1, F2.
  destruct (Nat.ltb (length l2) (length l1)).
  - rewrite existsb_exists. split.
    + intros [s [Hs H]]. apply existsb_exists in H. destruct H as [t [Ht H]].
      apply pair_test_iff in H; auto. destruct H as [p [H1 H2]]. exists s, t, p. auto.
    + intros [s [t [p [Hs [Ht [H1 H2]]]]]]. exists s. split; [exact Hs|].
      apply existsb_exists. exists t. split; [exact Ht|]. apply pair_test_iff; auto. exists p; auto.
  - rewrite existsb_exists. split.
    + intros [t [Ht H]]. apply existsb_exists in H. destruct H as [s [Hs H]].
      apply pair_test_iff in H; auto. destruct H as [p [H1 H2]]. exists s, t, p. auto.
    + intros [s [t [p [Hs [Ht [H1 H2]]]]]]. exists t. split; [exact Ht|].
      apply existsb_exists. exists s. split; [exact Hs|]. apply pair_test_iff; auto. exists p; auto.
Qed.

Lemma hibl_sym l1 l2 :
  Forall nondeg l1 -> Forall nondeg l2 ->
  has_intersection_between_lines l1 l2 = has_intersection_between_lines l2 l1.
Proof.
  intros F1 F2. apply eq_true_iff_eq. rewrite !hibl_iff by assumption.
  split; intros [s [t [p [Hs [Ht [H1 H2]]]]]]; exists t, s, p; auto.
Qed.

(* ================================================================ lines of a vertex list *)
Lemma as_lines_in vs s :
  In s (as_lines vs) <-> In s (ring_edges vs) /\ pt_eqb (fst s) (snd s) = false.
Proof.
  induction vs as [|a r IH]; [simpl; tauto|].
  destruct r as [|b r']; [simpl; tauto|].
  change (as_lines (a :: b :: r')) with (if pt_eqb a b then as_lines (b :: r') else (a, b) :: as_lines (b :: r')).
  change (ring_edges (a :: b :: r')) with ((a, b) :: ring_edges (b :: r')).
  destruct (pt_eqb a b) eqn:E.
  - rewrite IH. simpl. split; [intros [H1 H2]; auto|].
    intros [[H|H] H2]; [|auto]. subst s. simpl in H2. congruence.
  - simpl. rewrite IH. split.
    + intros [H|[H1 H2]]; [subst s; simpl; auto | auto].
    + intros [[H|H] H2]; auto.
Qed.

Lemma as_lines_nondeg vs : Forall nondeg (as_lines vs).
Proof.
  apply Forall_forall. intros s H. apply as_lines_in in H. destruct H as [_ H].
  apply pt_eqb_false_iff in H. exact H.
Qed.
Lemma ls_lines_nondeg l : Forall nondeg (ls_lines l).
Proof. apply as_lines_nondeg. Qed.
Lemma mls_lines_nondeg ls : Forall nondeg (mls_lines ls).
Proof.
  unfold mls_lines. apply Forall_forall. intros s H. apply in_flat_map in H. destruct H as [l [_ H]].
  pose proof (ls_lines_nondeg l) as F. rewrite Forall_forall in F. auto.
Qed.
Lemma poly_lines_nondeg y : Forall nondeg (poly_lines y).
Proof. apply mls_lines_nondeg. Qed.
Lemma mpoly_lines_nondeg ys : Forall nondeg (mpoly_lines ys).
Proof.
  unfold mpoly_lines. apply Forall_forall. intros s H. apply in_flat_map in H. destruct H as [y [_ H]].
  pose proof (poly_lines_nondeg y) as F. rewrite Forall_forall in F. auto.
Qed.

(* ================================================================ point against ring *)
Definition xorl (l : list bool) : bool := fold_right xorb false l.
Lemma fold_xor_xorl {A} (f : A -> bool) l acc :
  fold_left (fun acc e => xorb acc (f e)) l acc = xorb acc (xorl (map f l)).
Proof.
  revert acc. induction l as [|e l IH]; intros acc; simpl.
  - destruct acc; reflexivity.
  - rewrite IH. destruct acc, (f e), (xorl (map f l)); reflexivity.
Qed.

Definition go_crossing (p : pt) (ln : seg) : bool := fst (has_crossing p ln).
Definition go_on_line (p : pt) (ln : seg) : bool := snd (has_crossing p ln).
Definition parity_go (p : pt) (lns : list seg) : bool := xorl (map (go_crossing p) lns).

Lemma turn_right_b p q s : turn_eqb (orientation p q s) RightTurn = qltb (cross p q s) 0.
Proof.
  apply eq_true_iff_eq. rewrite turn_eqb_eq, orientation_right, qltb_true_iff. tauto.
Qed.
Lemma turn_collinear_b p q s : turn_eqb (orientation p q s) Collinear = Qeq_bool (cross p q s) 0.
Proof.
  apply eq_true_iff_eq. rewrite turn_eqb_eq, orientation_collinear, Qeq_bool_iff. tauto.
Qed.

Lemma cross_swap a b p : cross b a p == - cross a b p.
Proof. unfold cross. ring. Qed.

Lemma go_on_line_on_seg p s : go_on_line p s = on_seg s p.
Proof.
  destruct s as [a b]. unfold go_on_line, has_crossing.
  destruct (qltb (snd b) (snd a)); cbn [snd fst]; rewrite line_box_contains, turn_collinear_b; unfold on_seg.
  - f_equal. apply eq_true_iff_eq. rewrite !Qeq_bool_iff, cross_swap. split; lra.
  - reflexivity.
Qed.

Lemma relate_loop_spec p lns odd :
  relate_loop p lns odd =
  if existsb (fun ln => on_seg ln p) lns then SBoundary
  else if xorb odd (parity_go p lns) then SInterior else SExterior.
Proof.
  revert odd. induction lns as [|ln r IH]; intros odd.
  - simpl. unfold parity_go; simpl. rewrite xorb_false_r. reflexivity.
  - cbn [relate_loop existsb]. rewrite <- (go_on_line_on_seg p ln).
    unfold go_on_line. destruct (has_crossing p ln) as [cr onl] eqn:E. cbn [snd].
    destruct onl; [reflexivity|]. cbn [orb]. rewrite IH.
    unfold parity_go. cbn [map xorl fold_right]. unfold go_crossing at 2. rewrite E. cbn [fst].
    rewrite xorb_assoc. reflexivity.
Qed.

Lemma relate_point_to_ring_spec p vs :
  relate_point_to_ring p vs =
  if existsb (fun ln => on_seg ln p) (as_lines vs) then SBoundary
  else if parity_go p (as_lines vs) then SInterior else SExterior.
Proof. unfold relate_point_to_ring. rewrite relate_loop_spec, xorb_false_l. reflexivity. Qed.

(* ---- left ray (Go) against right ray (QKernel.edge_cross) ---- *)
Definition above (p v : pt) : bool := negb (Qle_bool (snd v) (snd p)).
Definition straddle (p : pt) (e : seg) : bool := xorb (above p (fst e)) (above p (snd e)).

Lemma straddle_collinear_on_seg a b p :
  snd a <= snd p -> snd p < snd b -> cross a b p == 0 -> on_seg (a, b) p = true.
Proof.
  destruct a as [ax ay], b as [bx by_], p as [px py]. unfold cross; cbn [fst snd]. intros H1 H2 Hc.
  apply on_seg_iff. exists ((py - ay) / (by_ - ay)). unfold seg_param; cbn [fst snd].
  assert (Hd : ~ by_ - ay == 0) by lra.
  assert (Ht : (py - ay) / (by_ - ay) * (by_ - ay) == py - ay) by (field; exact Hd).
  set (t := (py - ay) / (by_ - ay)) in *.
  split; [split; nra|]. split; [|lra].
  assert (K : (px - ax - t * (bx - ax)) * (by_ - ay) == 0) by nra.
  apply Qmult_integral in K. destruct K; [lra | contradiction].
Qed.

Lemma edge_cross_go a b p :
  ~ pt_eq a b -> on_seg (a, b) p = false ->
  xorb (edge_cross a b p) (go_crossing p (a, b)) = straddle p (a, b).
Proof.
  intros Hab Hon. unfold edge_cross, go_crossing, has_crossing, straddle, above. cbn [fst snd].
  destruct (Qle_bool (snd a) (snd p)) eqn:Ya; destruct (Qle_bool (snd b) (snd p)) eqn:Yb;
    destruct (qltb (snd b) (snd a)) eqn:Sw; cbn [fst snd Bool.eqb negb xorb];
    rewrite ?Ya, ?Yb; rewrite ?turn_right_b;
    rewrite ?Qle_bool_iff, ?Qle_bool_false_iff, ?qltb_true_iff, ?qltb_false_iff in *.
  - (* both not above *)
    assert (E : qltb (snd p) (snd a) = false) by (apply qltb_false_iff; exact Ya).
    rewrite E. rewrite andb_false_r. reflexivity.
  - assert (E : qltb (snd p) (snd b) = false) by (apply qltb_false_iff; exact Yb).
    rewrite E. rewrite andb_false_r. reflexivity.
  - (* a below-or-level, b above, but b.y < a.y: impossible *)
    exfalso. lra.
  - (* lower = a, upper = b *)
    assert (E : qltb (snd p) (snd b) = true) by (apply qltb_true_iff; exact Yb).
    rewrite E. cbn [andb].
    destruct (Q_dec (cross a b p) 0) as [[H|H]|H].
    + assert (E1 : qltb 0 (cross a b p) = false) by (apply qltb_false_iff; lra).
      assert (E2 : qltb (cross a b p) 0 = true) by (apply qltb_true_iff; lra).
      rewrite E1, E2. reflexivity.
    + assert (E1 : qltb 0 (cross a b p) = true) by (apply qltb_true_iff; lra).
      assert (E2 : qltb (cross a b p) 0 = false) by (apply qltb_false_iff; lra).
      rewrite E1, E2. reflexivity.
    + exfalso. pose proof (straddle_collinear_on_seg a b p Ya Yb H) as K.
      assert (X : true = false) by (transitivity (on_seg (a, b) p); [symmetry; exact K | exact Hon]). discriminate.
  - (* a above, b not above: lower = b, upper = a *)
    assert (E : qltb (snd p) (snd a) = true) by (apply qltb_true_iff; exact Ya).
    rewrite E. cbn [andb].
    destruct (Q_dec (cross b a p) 0) as [[H|H]|H].
    + assert (E1 : qltb 0 (cross b a p) = false) by (apply qltb_false_iff; lra).
      assert (E2 : qltb (cross b a p) 0 = true) by (apply qltb_true_iff; lra).
      rewrite E1, E2. reflexivity.
    + assert (E1 : qltb 0 (cross b a p) = true) by (apply qltb_true_iff; lra).
      assert (E2 : qltb (cross b a p) 0 = false) by (apply qltb_false_iff; lra).
      rewrite E1, E2. reflexivity.
    + exfalso. pose proof (straddle_collinear_on_seg b a p Yb Ya H) as K.
      rewrite on_seg_sym in K.
      assert (X : true = false) by (transitivity (on_seg (a, b) p); [symmetry; exact K | exact Hon]). discriminate.
  - exfalso. lra.
  - (* both above *)
    reflexivity.
  - reflexivity.
Qed.

Lemma above_proper p a b : pt_eq a b -> above p a = above p b.
Proof. intros [_ H]. unfold above. rewrite H. reflexivity. Qed.

(* along a vertex list the straddle bits telescope *)
Lemma straddle_telescope p a r :
  xorl (map (straddle p) (ring_edges (a :: r))) = xorb (above p a) (above p (last r a)).
Proof.
  revert a. induction r as [|b r IH]; intros a.
  - simpl. rewrite xorb_nilpotent. reflexivity.
  - change (ring_edges (a :: b :: r)) with ((a, b) :: ring_edges (b :: r)).
    cbn [map xorl fold_right]. fold (xorl (map (straddle p) (ring_edges (b :: r)))).
    rewrite IH. unfold straddle; cbn [fst snd].
    assert (L : last (b :: r) a = last r b).
    { clear. revert a b. induction r as [|c r IH]; intros a b; [reflexivity|].
      change (last (b :: c :: r) a) with (last (c :: r) a). rewrite (IH a c), (IH b c). reflexivity. }
    rewrite L. destruct (above p a), (above p b), (above p (last r b)); reflexivity.
Qed.

Lemma straddle_closed p vs :
  pts_closed vs = true -> xorl (map (straddle p) (ring_edges vs)) = false.
Proof.
  destruct vs as [|a r]; [reflexivity|]. intros H. rewrite straddle_telescope.
  simpl in H. apply pt_eqb_iff in H. rewrite (above_proper p _ _ H). apply xorb_nilpotent.
Qed.

Definition nd_b (s : seg) : bool := negb (pt_eqb (fst s) (snd s)).
Lemma as_lines_filter vs : as_lines vs = filter nd_b (ring_edges vs).
Proof.
  induction vs as [|a r IH]; [reflexivity|].
  destruct r as [|b r']; [reflexivity|].
  change (as_lines (a :: b :: r')) with (if pt_eqb a b then as_lines (b :: r') else (a, b) :: as_lines (b :: r')).
  change (ring_edges (a :: b :: r')) with ((a, b) :: ring_edges (b :: r')).
  cbn [filter]. unfold nd_b at 1; cbn [fst snd]. rewrite IH.
  destruct (pt_eqb a b); reflexivity.
Qed.

Lemma edge_cross_degenerate a b p : pt_eq a b -> edge_cross a b p = false.
Proof.
  intros [_ H]. unfold edge_cross. rewrite H.
  rewrite Bool.eqb_reflx. reflexivity.
Qed.
Lemma straddle_degenerate a b p : pt_eq a b -> straddle p (a, b) = false.
Proof.
  intros H. unfold straddle; cbn [fst snd]. rewrite (above_proper p a b H). apply xorb_nilpotent.
Qed.

Lemma parity_edges es p :
  on_edges es p = false ->
  xorb (xorl (map (fun e => edge_cross (fst e) (snd e) p) es)) (parity_go p (filter nd_b es))
  = xorl (map (straddle p) es).
Proof.
  unfold on_edges, parity_go. induction es as [|e es IH]; intros Hon; [reflexivity|].
  cbn [existsb] in Hon. apply orb_false_iff in Hon. destruct Hon as [He Hes].
  specialize (IH Hes). cbn [map xorl fold_right filter].
  fold (xorl (map (fun e0 => edge_cross (fst e0) (snd e0) p) es)).
  fold (xorl (map (straddle p) es)).
  destruct e as [a b]. unfold nd_b at 1; cbn [fst snd].
  destruct (pt_eqb a b) eqn:E; cbn [negb].
  - apply pt_eqb_iff in E. rewrite (edge_cross_degenerate a b p E), (straddle_degenerate a b p E).
    rewrite !xorb_false_l. exact IH.
  - apply pt_eqb_false_iff in E. cbn [map xorl fold_right].
    fold (xorl (map (go_crossing p) (filter nd_b es))).
    rewrite <- (edge_cross_go a b p E He). rewrite <- IH.
    destruct (edge_cross a b p), (go_crossing p (a, b)),
      (xorl (map (fun e0 => edge_cross (fst e0) (snd e0) p) es)), (xorl (map (go_crossing p) (filter nd_b es)));
      reflexivity.
Qed.

(* the crossing parity of the Go code (ray towards -x, degenerate edges skipped) is the crossing
   parity of the reference semantics (ray towards +x) on a closed vertex list, away from the ring *)
Lemma parity_left_right vs p :
  pts_closed vs = true -> on_ring vs p = false ->
  parity_go p (as_lines vs) = pt_in_ring vs p.
Proof.
  intros Hc Hon. unfold pt_in_ring, edges_parity, on_ring in *.
  rewrite fold_xor_xorl, xorb_false_l.
  pose proof (parity_edges (ring_edges vs) p Hon) as H.
  rewrite (straddle_closed p vs Hc) in H. rewrite as_lines_filter.
  destruct (xorl (map (fun e => edge_cross (fst e) (snd e) p) (ring_edges vs))),
    (parity_go p (filter nd_b (ring_edges vs))); simpl in H; congruence.
Qed.

Lemma as_lines_on_edges vs p :
  existsb (fun ln => on_seg ln p) (as_lines vs) = true -> on_edges (ring_edges vs) p = true.
Proof.
  unfold on_edges. rewrite !existsb_exists. intros [s [H1 H2]]. exists s. split; [|exact H2].
  apply as_lines_in in H1. tauto.
Qed.

(* ---- hasIntersectionPointWithPolygon is sound for the closed region ---- *)
Lemma line_segs_ring_edges l p :
  on_edges (ring_edges (line_pts l)) p = true -> on_edges (line_segs l) p = true.
Proof.
  unfold line_segs, segs_of_pts. destruct (line_pts l) as [|a [|b r]]; simpl; auto; discriminate.
Qed.

Lemma ring_side_in l p :
  pts_closed (line_pts l) = true ->
  on_edges (line_segs l) p = false ->
  relate_point_to_ring p (line_pts l) = (if edges_parity (line_segs l) p then SInterior else SExterior).
Proof.
  intros Hc Hon. rewrite relate_point_to_ring_spec.
  assert (Hon' : on_ring (line_pts l) p = false).
  { unfold on_ring. destruct (on_edges (ring_edges (line_pts l)) p) eqn:E; [|reflexivity].
    apply line_segs_ring_edges in E. congruence. }
  destruct (existsb (fun ln => on_seg ln p) (as_lines (line_pts l))) eqn:E.
  { apply as_lines_on_edges in E. unfold on_ring in Hon'. congruence. }
  rewrite (parity_left_right _ _ Hc Hon'). unfold pt_in_ring.
  (* line_segs differs from ring_edges only on a one-vertex list, where both parities are false *)
  unfold line_segs, segs_of_pts. destruct (line_pts l) as [|a [|b r]]; try reflexivity.
  simpl. unfold edges_parity; simpl. rewrite (edge_cross_degenerate a a p); reflexivity.
Qed.

Lemma ix_xy_polygon_sound xy y :
  poly_rings_closed y = true -> ix_xy_polygon xy y = true -> in_poly y xy = true.
Proof.
  unfold ix_xy_polygon, poly_rings_closed, in_poly, poly_boundary, poly_interior, poly_ring_segs.
  destruct (poly_rings y) as [|shell holes]; [discriminate|].
  intros Hc H. cbn [forallb] in Hc. apply andb_true_iff in Hc. destruct Hc as [Hcs Hch].
  destruct (rings_boundary (map line_segs (shell :: holes)) xy) eqn:EB; [reflexivity|]. cbn [orb].
  unfold rings_boundary in EB. cbn [map existsb] in EB. apply orb_false_iff in EB. destruct EB as [EBs EBh].
  cbn [map rings_interior]. apply andb_true_iff. split.
  - unfold ring_strict_in. rewrite EBs. cbn [negb andb].
    rewrite (ring_side_in shell xy Hcs EBs) in H.
    destruct (edges_parity (line_segs shell) xy); [reflexivity | simpl in H; discriminate].
  - rewrite forallb_forall. intros r Hr. apply in_map_iff in Hr. destruct Hr as [h [<- Hh]].
    assert (Eh : on_edges (line_segs h) xy = false).
    { destruct (on_edges (line_segs h) xy) eqn:E; [|reflexivity].
      assert (X : existsb (fun r => on_edges r xy) (map line_segs holes) = true).
      { apply existsb_exists. exists (line_segs h). split; [apply in_map; exact Hh | exact E]. }
      congruence. }
    unfold ring_strict_out. rewrite Eh. cbn [negb andb].
    destruct (side_is_exterior (relate_point_to_ring xy (line_pts shell))); [discriminate|].
    rewrite forallb_forall in H. specialize (H h Hh).
    rewrite forallb_forall in Hch. specialize (Hch h Hh).
    rewrite (ring_side_in h xy Hch Eh) in H.
    destruct (edges_parity (line_segs h) xy); [simpl in H; discriminate | reflexivity].
Qed.

(* ================================================================ membership helpers *)
Definition inMP (mp : list (pointT Q)) (w : pt) : bool := existsb (fun q => in_point q w) mp.
Definition inML (ls : list (lineT Q)) (w : pt) : bool := existsb (fun l => on_line l w) ls.
Definition inMY (ys : list (polyT Q)) (w : pt) : bool := existsb (fun y => in_poly y w) ys.

Lemma point_pts_xy q : point_pts q = match point_xy q with None => [] | Some a => [a] end.
Proof. unfold point_pts, point_xy. destruct (point_c q); reflexivity. Qed.

Lemma in_point_xy q a w : point_xy q = Some a -> in_point q w = pt_eqb w a.
Proof. intros H. unfold in_point. rewrite point_pts_xy, H. simpl. apply orb_false_r. Qed.
Lemma in_point_none q w : point_xy q = None -> in_point q w = false.
Proof. intros H. unfold in_point. rewrite point_pts_xy, H. reflexivity. Qed.
Lemma in_point_self q a : point_xy q = Some a -> in_point q a = true.
Proof. intros H. rewrite (in_point_xy q a a H). apply pt_eqb_iff. reflexivity. Qed.

Lemma pt_eqb_sym a b : pt_eqb a b = pt_eqb b a.
Proof. apply eq_true_iff_eq. rewrite !pt_eqb_iff. split; intros H; symmetry; exact H. Qed.
Lemma pt_eqb_refl a : pt_eqb a a = true.
Proof. apply pt_eqb_iff. reflexivity. Qed.

Lemma on_seg_pt_eq s p p' : pt_eq p p' -> on_seg s p = on_seg s p'.
Proof. destruct s as [a b]. intros H. apply on_seg_proper; [reflexivity | reflexivity | exact H]. Qed.

Lemma ls_lines_on_line l s w : In s (ls_lines l) -> on_seg s w = true -> on_line l w = true.
Proof.
  intros Hs Hw. unfold on_line. apply line_segs_ring_edges. unfold on_edges. apply existsb_exists.
  exists s. split; [|exact Hw]. apply as_lines_in in Hs. tauto.
Qed.
Lemma mls_lines_inML ls s w : In s (mls_lines ls) -> on_seg s w = true -> inML ls w = true.
Proof.
  intros Hs Hw. apply in_flat_map in Hs. destruct Hs as [l [Hl Hs]].
  apply existsb_exists. exists l. split; [exact Hl|]. eapply ls_lines_on_line; eauto.
Qed.
Lemma poly_lines_in_poly y s w : In s (poly_lines y) -> on_seg s w = true -> in_poly y w = true.
Proof.
  intros Hs Hw. unfold in_poly. apply orb_true_iff. left.
  unfold poly_boundary, rings_boundary, poly_ring_segs.
  apply in_flat_map in Hs. destruct Hs as [r [Hr Hs]].
  apply existsb_exists. exists (line_segs r). split; [apply in_map; exact Hr|].
  apply (ls_lines_on_line r s w Hs Hw).
Qed.
Lemma mpoly_lines_inMY ys s w : In s (mpoly_lines ys) -> on_seg s w = true -> inMY ys w = true.
Proof.
  intros Hs Hw. apply in_flat_map in Hs. destruct Hs as [y [Hy Hs]].
  apply existsb_exists. exists y. split; [exact Hy|]. eapply poly_lines_in_poly; eauto.
Qed.

Lemma start_xy_on_line l w : start_xy l = Some w -> on_line l w = true.
Proof.
  unfold start_xy, on_line, line_segs, segs_of_pts. destruct (line_pts l) as [|a [|b r]]; intros H; inversion H; subst.
  - unfold on_edges. cbn [existsb]. rewrite on_seg_left. reflexivity.
  - change (ring_edges (w :: b :: r)) with ((w, b) :: ring_edges (b :: r)).
    unfold on_edges. cbn [existsb]. rewrite on_seg_left. reflexivity.
Qed.
Lemma start_exterior_in_poly y w : start_xy (exterior_ring y) = Some w -> in_poly y w = true.
Proof.
  unfold exterior_ring, in_poly, poly_boundary, poly_ring_segs, rings_boundary.
  destruct (poly_rings y) as [|r rs] eqn:E; intros H.
  - unfold start_xy in H. simpl in H. discriminate.
  - apply start_xy_on_line in H. unfold on_line in H. cbn [map existsb]. rewrite H. reflexivity.
Qed.

(* ================================================================ soundness, routine by routine *)
Lemma ix_point_point_sound p q :
  ix_point_point p q = true -> exists w, in_point p w = true /\ in_point q w = true.
Proof.
  unfold ix_point_point. destruct (point_xy p) as [a|] eqn:Ea; [|discriminate].
  destruct (point_xy q) as [b|] eqn:Eb; [|discriminate]. intros H.
  exists a. split; [apply (in_point_self p a Ea)|]. rewrite (in_point_xy q b a Eb). exact H.
Qed.

Lemma lines_xy_sound lns xy :
  existsb (fun ln => intersects_xy ln xy) lns = true -> exists s, In s lns /\ on_seg s xy = true.
Proof.
  intros H. apply existsb_exists in H. destruct H as [s [H1 H2]]. rewrite intersects_xy_on_seg in H2. eauto.
Qed.

Lemma ix_point_line_sound p l :
  ix_point_line p l = true -> exists w, in_point p w = true /\ on_line l w = true.
Proof.
  unfold ix_point_line. destruct (point_xy p) as [a|] eqn:Ea; [|discriminate]. intros H.
  apply lines_xy_sound in H. destruct H as [s [H1 H2]].
  exists a. split; [apply (in_point_self p a Ea) | eapply ls_lines_on_line; eauto].
Qed.

Lemma ix_optxy_polygon_sound o y :
  poly_rings_closed y = true -> ix_optxy_polygon o y = true -> exists w, o = Some w /\ in_poly y w = true.
Proof.
  intros Hc H. destruct o as [xy|]; [|discriminate]. exists xy. split; [reflexivity|].
  apply ix_xy_polygon_sound; assumption.
Qed.

Lemma ix_point_polygon_sound p y :
  poly_rings_closed y = true -> ix_point_polygon p y = true ->
  exists w, in_point p w = true /\ in_poly y w = true.
Proof.
  intros Hc H. apply ix_optxy_polygon_sound in H; [|exact Hc]. destruct H as [w [H1 H2]].
  exists w. split; [apply in_point_self; exact H1 | exact H2].
Qed.

Lemma ix_point_mpoint_sound p mp :
  ix_point_mpoint p mp = true -> exists w, in_point p w = true /\ inMP mp w = true.
Proof.
  unfold ix_point_mpoint. intros H. apply existsb_exists in H. destruct H as [q [Hq H]].
  apply ix_point_point_sound in H. destruct H as [w [H1 H2]]. exists w. split; [exact H1|].
  apply existsb_exists. eauto.
Qed.

Lemma ix_point_mline_sound p ls :
  ix_point_mline p ls = true -> exists w, in_point p w = true /\ inML ls w = true.
Proof.
  unfold ix_point_mline. intros H. apply existsb_exists in H. destruct H as [l [Hl H]].
  apply ix_point_line_sound in H. destruct H as [w [H1 H2]]. exists w. split; [exact H1|].
  apply existsb_exists. eauto.
Qed.

Lemma ix_optxy_mpoly_sound o ys :
  forallb poly_rings_closed ys = true -> ix_optxy_mpoly o ys = true ->
  exists w, o = Some w /\ inMY ys w = true.
Proof.
  unfold ix_optxy_mpoly. intros Hc H. apply existsb_exists in H. destruct H as [y [Hy H]].
  rewrite forallb_forall in Hc. apply ix_optxy_polygon_sound in H; [|auto]. destruct H as [w [H1 H2]].
  exists w. split; [exact H1|]. apply existsb_exists. eauto.
Qed.

Lemma ix_point_mpoly_sound p ys :
  forallb poly_rings_closed ys = true -> ix_point_mpoly p ys = true ->
  exists w, in_point p w = true /\ inMY ys w = true.
Proof.
  intros Hc H. apply ix_optxy_mpoly_sound in H; [|exact Hc]. destruct H as [w [H1 H2]].
  exists w. split; [apply in_point_self; exact H1 | exact H2].
Qed.

Lemma ix_mpoint_mline_sound mp ls :
  ix_mpoint_mline mp ls = true -> exists w, inMP mp w = true /\ inML ls w = true.
Proof.
  unfold ix_mpoint_mline. intros H. apply existsb_exists in H. destruct H as [p [Hp H]].
  destruct (point_xy p) as [a|] eqn:Ea; [|discriminate].
  apply existsb_exists in H. destruct H as [l [Hl H]].
  apply lines_xy_sound in H. destruct H as [s [H1 H2]].
  exists a. split.
  - apply existsb_exists. exists p. split; [exact Hp | apply (in_point_self p a Ea)].
  - apply existsb_exists. exists l. split; [exact Hl | eapply ls_lines_on_line; eauto].
Qed.

Lemma ix_mline_mline_sound ls1 ls2 :
  ix_mline_mline ls1 ls2 = true -> exists w, inML ls1 w = true /\ inML ls2 w = true.
Proof.
  unfold ix_mline_mline. intros H.
  apply hibl_iff in H; [|apply mls_lines_nondeg|apply mls_lines_nondeg].
  destruct H as [s [t [p [Hs [Ht [H1 H2]]]]]]. exists p. split; eapply mls_lines_inML; eauto.
Qed.

Lemma ix_mline_mpoly_sound ls ys :
  forallb poly_rings_closed ys = true -> ix_mline_mpoly ls ys = true ->
  exists w, inML ls w = true /\ inMY ys w = true.
Proof.
  unfold ix_mline_mpoly. intros Hc H.
  destruct (has_intersection_between_lines (mls_lines ls) (mpoly_lines ys)) eqn:E.
  - apply hibl_iff in E; [|apply mls_lines_nondeg|apply mpoly_lines_nondeg].
    destruct E as [s [t [p [Hs [Ht [H1 H2]]]]]]. exists p. split.
    + eapply mls_lines_inML; eauto.
    + eapply mpoly_lines_inMY; eauto.
  - apply existsb_exists in H. destruct H as [l [Hl H]].
    apply ix_optxy_mpoly_sound in H; [|exact Hc]. destruct H as [w [H1 H2]].
    exists w. split; [|exact H2]. apply existsb_exists. exists l. split; [exact Hl | apply start_xy_on_line; exact H1].
Qed.

Lemma ix_mpoint_mpoint_sound mp1 mp2 :
  ix_mpoint_mpoint mp1 mp2 = true -> exists w, inMP mp1 w = true /\ inMP mp2 w = true.
Proof.
  unfold ix_mpoint_mpoint. intros H. apply existsb_exists in H. destruct H as [q2 [Hq2 H]].
  destruct (point_xy q2) as [b|] eqn:Eb; [|discriminate].
  apply existsb_exists in H. destruct H as [q1 [Hq1 H]].
  destruct (point_xy q1) as [a|] eqn:Ea; [|discriminate].
  exists a. split.
  - apply existsb_exists. exists q1. split; [exact Hq1 | apply (in_point_self q1 a Ea)].
  - apply existsb_exists. exists q2. split; [exact Hq2|]. rewrite (in_point_xy q2 b a Eb). exact H.
Qed.

Lemma ix_mpoint_polygon_sound mp y :
  poly_rings_closed y = true -> ix_mpoint_polygon mp y = true ->
  exists w, inMP mp w = true /\ in_poly y w = true.
Proof.
  unfold ix_mpoint_polygon. intros Hc H. apply existsb_exists in H. destruct H as [p [Hp H]].
  apply ix_point_polygon_sound in H; [|exact Hc]. destruct H as [w [H1 H2]].
  exists w. split; [|exact H2]. apply existsb_exists. eauto.
Qed.

Lemma ix_mpoint_mpoly_sound mp ys :
  forallb poly_rings_closed ys = true -> ix_mpoint_mpoly mp ys = true ->
  exists w, inMP mp w = true /\ inMY ys w = true.
Proof.
  unfold ix_mpoint_mpoly. intros Hc H. apply existsb_exists in H. destruct H as [p [Hp H]].
  apply ix_point_mpoly_sound in H; [|exact Hc]. destruct H as [w [H1 H2]].
  exists w. split; [|exact H2]. apply existsb_exists. eauto.
Qed.

Lemma ix_polygon_polygon_sound p1 p2 :
  poly_rings_closed p1 = true -> poly_rings_closed p2 = true -> ix_polygon_polygon p1 p2 = true ->
  exists w, in_poly p1 w = true /\ in_poly p2 w = true.
Proof.
  unfold ix_polygon_polygon. intros C1 C2 H.
  destruct (has_intersection_between_lines (poly_lines p1) (poly_lines p2)) eqn:E.
  - apply hibl_iff in E; [|apply poly_lines_nondeg|apply poly_lines_nondeg].
    destruct E as [s [t [p [Hs [Ht [H1 H2]]]]]]. exists p. split; eapply poly_lines_in_poly; eauto.
  - apply orb_true_iff in H. destruct H as [H|H].
    + apply ix_optxy_polygon_sound in H; [|exact C2]. destruct H as [w [H1 H2]].
      exists w. split; [apply start_exterior_in_poly; exact H1 | exact H2].
    + apply ix_optxy_polygon_sound in H; [|exact C1]. destruct H as [w [H1 H2]].
      exists w. split; [exact H2 | apply start_exterior_in_poly; exact H1].
Qed.

Lemma ix_mpoly_mpoly_sound ys1 ys2 :
  forallb poly_rings_closed ys1 = true -> forallb poly_rings_closed ys2 = true ->
  ix_mpoly_mpoly ys1 ys2 = true -> exists w, inMY ys1 w = true /\ inMY ys2 w = true.
Proof.
  unfold ix_mpoly_mpoly. intros C1 C2 H. apply existsb_exists in H. destruct H as [p1 [Hp1 H]].
  apply existsb_exists in H. destruct H as [p2 [Hp2 H]].
  rewrite forallb_forall in C1, C2.
  apply ix_polygon_polygon_sound in H; auto. destruct H as [w [H1 H2]].
  exists w. split; apply existsb_exists; eauto.
Qed.

(* ================================================================ the switch *)
Definition common (a b : geom) : Prop := exists w, inG a w = true /\ inG b w = true.
Lemma common_sym a b : common a b -> common b a.
Proof. intros [w [H1 H2]]. exists w. auto. Qed.

Lemma single_inML l w : inML [l] w = on_line l w.
Proof. unfold inML. simpl. apply orb_false_r. Qed.
Lemma single_inMY y w : inMY [y] w = in_poly y w.
Proof. unfold inMY. simpl. apply orb_false_r. Qed.
Lemma single_closed y : forallb poly_rings_closed [y] = poly_rings_closed y.
Proof. simpl. apply andb_true_r. Qed.

Lemma ix_switch_sound g1 g2 :
  rings_closed g1 = true -> rings_closed g2 = true -> ix_switch g1 g2 = OBool true -> common g1 g2.
Proof.
  unfold common, rings_closed.
  destruct g1 as [p|l|y|c mp|c ls|c ys|c gs]; destruct g2 as [p'|l'|y'|c' mp'|c' ls'|c' ys'|c' gs'];
    cbn [ix_switch g_polys inG]; intros C1 C2 H; try discriminate; injection H as H;
    rewrite ?single_closed in *.
  - apply ix_point_point_sound; exact H.
  - apply ix_point_line_sound; exact H.
  - apply ix_point_polygon_sound; assumption.
  - apply ix_point_mpoint_sound; exact H.
  - apply ix_point_mline_sound; exact H.
  - apply ix_point_mpoly_sound; assumption.
  - apply ix_mline_mline_sound in H. destruct H as [w [H1 H2]]. rewrite single_inML in H1, H2. exists w; auto.
  - apply ix_mline_mpoly_sound in H; [|rewrite single_closed; exact C2].
    destruct H as [w [H1 H2]]. rewrite single_inML in H1. rewrite single_inMY in H2. exists w; auto.
  - apply ix_mpoint_mline_sound in H. destruct H as [w [H1 H2]]. rewrite single_inML in H2. exists w. auto.
  - apply ix_mline_mline_sound in H. destruct H as [w [H1 H2]]. rewrite single_inML in H1. exists w; auto.
  - apply ix_mline_mpoly_sound in H; [|exact C2]. destruct H as [w [H1 H2]]. rewrite single_inML in H1. exists w; auto.
  - apply ix_polygon_polygon_sound; assumption.
  - apply ix_mpoint_polygon_sound in H; [|exact C1]. destruct H as [w [H1 H2]]. exists w. auto.
  - apply ix_mline_mpoly_sound in H; [|rewrite single_closed; exact C1].
    destruct H as [w [H1 H2]]. rewrite single_inMY in H2. exists w. auto.
  - change (ix_mpoly_mpoly [y] ys' = true) in H.
    apply ix_mpoly_mpoly_sound in H; [|rewrite single_closed; exact C1|exact C2].
    destruct H as [w [H1 H2]]. rewrite single_inMY in H1. exists w; auto.
  - apply ix_mpoint_mpoint_sound; exact H.
  - apply ix_mpoint_mline_sound; exact H.
  - apply ix_mpoint_mpoly_sound; assumption.
  - apply ix_mline_mline_sound; exact H.
  - apply ix_mline_mpoly_sound; assumption.
  - apply ix_mpoly_mpoly_sound; assumption.
Qed.

Lemma ix_flat_sound g1 g2 :
  rings_closed g1 = true -> rings_closed g2 = true -> ix_flat g1 g2 = true -> common g1 g2.
Proof.
  unfold ix_flat, ix_flat_o. intros C1 C2 H. destruct (Nat.ltb (rank g2) (rank g1)).
  - apply common_sym. apply ix_switch_sound; auto.
    destruct (ix_switch g2 g1) as [[|]|]; simpl in H; try discriminate; reflexivity.
  - apply ix_switch_sound; auto.
    destruct (ix_switch g1 g2) as [[|]|]; simpl in H; try discriminate; reflexivity.
Qed.

(* ================================================================ symmetry of the flat dispatch *)
Lemma existsb_swap {A B} (f : A -> B -> bool) l1 l2 :
  existsb (fun x => existsb (fun y => f x y) l2) l1 = existsb (fun y => existsb (fun x => f x y) l1) l2.
Proof.
  apply eq_true_iff_eq. rewrite !existsb_exists. split.
  - intros [x [Hx H]]. apply existsb_exists in H. destruct H as [y [Hy H]].
    exists y. split; [exact Hy|]. apply existsb_exists. eauto.
  - intros [y [Hy H]]. apply existsb_exists in H. destruct H as [x [Hx H]].
    exists x. split; [exact Hx|]. apply existsb_exists. eauto.
Qed.
Lemma existsb_ext_in {A} (f g : A -> bool) l : (forall x, In x l -> f x = g x) -> existsb f l = existsb g l.
Proof.
  induction l as [|a l IH]; intros H; [reflexivity|]. simpl. rewrite (H a (or_introl eq_refl)).
  rewrite IH; [reflexivity|]. intros x Hx. apply H. right. exact Hx.
Qed.

Lemma ix_point_point_sym p q : ix_point_point p q = ix_point_point q p.
Proof.
  unfold ix_point_point. destruct (point_xy p), (point_xy q); try reflexivity. apply pt_eqb_sym.
Qed.
Lemma ix_mline_mline_sym a b : ix_mline_mline a b = ix_mline_mline b a.
Proof. unfold ix_mline_mline. apply hibl_sym; apply mls_lines_nondeg. Qed.
Lemma ix_polygon_polygon_sym a b : ix_polygon_polygon a b = ix_polygon_polygon b a.
Proof.
  unfold ix_polygon_polygon. rewrite (hibl_sym (poly_lines a) (poly_lines b)) by apply poly_lines_nondeg.
  destruct (has_intersection_between_lines (poly_lines b) (poly_lines a)); [reflexivity|]. apply orb_comm.
Qed.
Lemma ix_mpoly_mpoly_sym a b : ix_mpoly_mpoly a b = ix_mpoly_mpoly b a.
Proof.
  unfold ix_mpoly_mpoly. rewrite existsb_swap. apply existsb_ext_in. intros y _.
  apply existsb_ext_in. intros x _. apply ix_polygon_polygon_sym.
Qed.
Lemma ix_mpoint_mpoint_sym a b : ix_mpoint_mpoint a b = ix_mpoint_mpoint b a.
Proof.
  unfold ix_mpoint_mpoint.
  set (f := fun (q1 q2 : pointT Q) => match point_xy q1, point_xy q2 with Some u, Some v => pt_eqb u v | _, _ => false end).
  transitivity (existsb (fun q2 => existsb (fun q1 => f q1 q2) a) b).
  - apply existsb_ext_in. intros q2 _. unfold f. destruct (point_xy q2).
    + apply existsb_ext_in. intros q1 _. destruct (point_xy q1); reflexivity.
    + symmetry. clear. induction a as [|x a IH]; [reflexivity|]. simpl. rewrite IH. destruct (point_xy x); reflexivity.
  - rewrite <- existsb_swap. apply existsb_ext_in. intros q1 _. unfold f. destruct (point_xy q1).
    + apply existsb_ext_in. intros q2 _. destruct (point_xy q2); [apply pt_eqb_sym | reflexivity].
    + clear. induction b as [|x b IH]; [reflexivity|]. simpl. exact IH.
Qed.

Lemma ix_flat_sym g1 g2 : ix_flat g1 g2 = ix_flat g2 g1.
Proof.
  destruct g1 as [p|l|y|c mp|c ls|c ys|c gs]; destruct g2 as [p'|l'|y'|c' mp'|c' ls'|c' ys'|c' gs'];
    try reflexivity; unfold ix_flat, ix_flat_o; cbn [rank Nat.ltb Nat.leb ix_switch out_bool].
  - apply ix_point_point_sym.
  - apply ix_mline_mline_sym.
  - apply ix_polygon_polygon_sym.
  - apply ix_mpoint_mpoint_sym.
  - apply ix_mline_mline_sym.
  - apply ix_mpoly_mpoly_sym.
Qed.

(* ================================================================ collections: leaves *)
Lemma existsb_flat_map {A B} (f : B -> bool) (g : A -> list B) l :
  existsb f (flat_map g l) = existsb (fun x => existsb f (g x)) l.
Proof. induction l as [|a l IH]; [reflexivity|]. simpl. rewrite existsb_app, IH. reflexivity. Qed.
Lemma forallb_flat_map {A B} (f : B -> bool) (g : A -> list B) l :
  forallb f (flat_map g l) = forallb (fun x => forallb f (g x)) l.
Proof. induction l as [|a l IH]; [reflexivity|]. simpl. rewrite forallb_app, IH. reflexivity. Qed.
Lemma existsb_ext_Forall {A} (f g : A -> bool) l : Forall (fun x => f x = g x) l -> existsb f l = existsb g l.
Proof. intros H. apply existsb_ext_in. rewrite Forall_forall in H. exact H. Qed.
Lemma forallb_ext_Forall {A} (f g : A -> bool) l : Forall (fun x => f x = g x) l -> forallb f l = forallb g l.
Proof. induction 1 as [|a l Ha _ IH]; [reflexivity|]. simpl. rewrite Ha, IH. reflexivity. Qed.

Lemma inG_leaves g w : inG g w = existsb (fun l => inG l w) (leaves g).
Proof.
  induction g using geomT_ind'; try (simpl; rewrite orb_false_r; reflexivity).
  cbn [inG leaves]. rewrite existsb_flat_map. apply existsb_ext_Forall. exact H.
Qed.
Lemma rings_closed_leaves g : rings_closed g = forallb rings_closed (leaves g).
Proof.
  induction g using geomT_ind'; try (cbn [leaves forallb]; rewrite ?andb_true_r; reflexivity).
  unfold rings_closed at 1. cbn [g_polys leaves]. rewrite !forallb_flat_map.
  apply forallb_ext_Forall. exact H.
Qed.
Lemma ix_leaf_geom_leaves l g : ix_leaf_geom l g = existsb (ix_flat l) (leaves g).
Proof.
  induction g using geomT_ind'; try (simpl; rewrite orb_false_r; reflexivity).
  cbn [ix_leaf_geom leaves]. rewrite existsb_flat_map. apply existsb_ext_Forall. exact H.
Qed.
Lemma ix_coll_geom_leaves a g : ix_coll_geom a g = existsb (fun lb => ix_leaf_geom lb a) (leaves g).
Proof.
  induction g using geomT_ind'; try (simpl; rewrite orb_false_r; reflexivity).
  cbn [ix_coll_geom leaves]. rewrite existsb_flat_map. apply existsb_ext_Forall. exact H.
Qed.

Lemma intersects_leaves a b :
  intersects a b = existsb (fun la => existsb (fun lb => ix_flat la lb) (leaves b)) (leaves a).
Proof.
  destruct a as [p|l|y|c mp|c ls|c ys|c gs]; unfold intersects;
    try (rewrite ix_leaf_geom_leaves; cbn [leaves existsb]; rewrite orb_false_r; reflexivity).
  rewrite ix_coll_geom_leaves. rewrite existsb_swap. apply existsb_ext_in. intros lb _.
  rewrite ix_leaf_geom_leaves. apply existsb_ext_in. intros la _. apply ix_flat_sym.
Qed.

Lemma intersects_sym a b : intersects a b = intersects b a.
Proof.
  rewrite !intersects_leaves. rewrite existsb_swap. apply existsb_ext_in. intros lb _.
  apply existsb_ext_in. intros la _. apply ix_flat_sym.
Qed.

Lemma intersects_sound a b :
  rings_closed a = true -> rings_closed b = true -> intersects a b = true -> common a b.
Proof.
  rewrite intersects_leaves, (rings_closed_leaves a), (rings_closed_leaves b). intros Ca Cb H.
  apply existsb_exists in H. destruct H as [la [Hla H]]. apply existsb_exists in H. destruct H as [lb [Hlb H]].
  rewrite forallb_forall in Ca, Cb.
  destruct (ix_flat_sound la lb (Ca _ Hla) (Cb _ Hlb) H) as [w [H1 H2]].
  exists w. rewrite (inG_leaves a), (inG_leaves b). split; apply existsb_exists; eauto.
Qed.

(* ================================================================ completeness: puntal / lineal *)
Definition has_other (a : pt) (r : list pt) : bool := existsb (fun q => negb (pt_eqb a q)) r.

Lemma pt_eqb_proper_l a b q : pt_eq a b -> pt_eqb a q = pt_eqb b q.
Proof.
  intros H. apply eq_true_iff_eq. rewrite !pt_eqb_iff. split; intros K.
  - etransitivity; [symmetry; exact H | exact K].
  - etransitivity; [exact H | exact K].
Qed.
Lemma has_other_proper a b r : pt_eq a b -> has_other a r = has_other b r.
Proof.
  intros H. unfold has_other. apply existsb_ext_in. intros q _. rewrite (pt_eqb_proper_l a b q H). reflexivity.
Qed.

Lemma as_lines_cons_incl a b r s : In s (as_lines (b :: r)) -> In s (as_lines (a :: b :: r)).
Proof.
  intros H. change (as_lines (a :: b :: r)) with (if pt_eqb a b then as_lines (b :: r) else (a, b) :: as_lines (b :: r)).
  destruct (pt_eqb a b); [exact H | right; exact H].
Qed.

Lemma vertex_on_nondeg a r :
  has_other a r = true -> exists s, In s (as_lines (a :: r)) /\ on_seg s a = true.
Proof.
  revert a. induction r as [|b r IH]; intros a H; [discriminate|].
  destruct (pt_eqb a b) eqn:E.
  - apply pt_eqb_iff in E.
    assert (Hb : has_other b r = true).
    { rewrite <- (has_other_proper a b r E). unfold has_other in *. cbn [existsb] in H.
      assert (E' : pt_eqb a b = true) by (apply pt_eqb_iff; exact E). rewrite E' in H. exact H. }
    destruct (IH b Hb) as [s [H1 H2]]. exists s. split; [apply as_lines_cons_incl; exact H1|].
    rewrite (on_seg_pt_eq s a b E). exact H2.
  - exists (a, b). split; [|apply on_seg_left].
    change (as_lines (a :: b :: r)) with (if pt_eqb a b then as_lines (b :: r) else (a, b) :: as_lines (b :: r)).
    rewrite E. left. reflexivity.
Qed.

Lemma all_same_edges b r w :
  has_other b r = false -> on_edges (ring_edges (b :: r)) w = true -> pt_eq w b.
Proof.
  revert b. induction r as [|c r IH]; intros b H Hon; [discriminate|].
  unfold has_other in H. cbn [existsb] in H. apply orb_false_iff in H. destruct H as [Hbc Hr].
  apply negb_false_iff, pt_eqb_iff in Hbc.
  change (ring_edges (b :: c :: r)) with ((b, c) :: ring_edges (c :: r)) in Hon.
  unfold on_edges in Hon. cbn [existsb] in Hon. apply orb_true_iff in Hon. destruct Hon as [Hon|Hon].
  - apply (on_seg_degenerate b c w Hbc Hon).
  - assert (Hc : has_other c r = false) by (rewrite <- (has_other_proper b c r Hbc); exact Hr).
    etransitivity; [apply (IH c Hc Hon) | symmetry; exact Hbc].
Qed.

Lemma nondeg_cover a r w :
  has_other a r = true -> on_edges (ring_edges (a :: r)) w = true ->
  exists s, In s (as_lines (a :: r)) /\ on_seg s w = true.
Proof.
  revert a. induction r as [|b r IH]; intros a H Hon; [discriminate|].
  change (ring_edges (a :: b :: r)) with ((a, b) :: ring_edges (b :: r)) in Hon.
  unfold on_edges in Hon. cbn [existsb] in Hon. apply orb_true_iff in Hon.
  assert (Hhead : pt_eqb a b = false -> In (a, b) (as_lines (a :: b :: r))).
  { intros E. change (as_lines (a :: b :: r)) with (if pt_eqb a b then as_lines (b :: r) else (a, b) :: as_lines (b :: r)).
    rewrite E. left. reflexivity. }
  assert (Hb_of_eq : pt_eq a b -> has_other b r = true).
  { intros E. rewrite <- (has_other_proper a b r E). unfold has_other in *. cbn [existsb] in H.
    assert (E' : pt_eqb a b = true) by (apply pt_eqb_iff; exact E). rewrite E' in H. exact H. }
  destruct Hon as [Hon|Hon].
  - destruct (pt_eqb a b) eqn:E.
    + apply pt_eqb_iff in E. pose proof (on_seg_degenerate a b w E Hon) as Ew.
      destruct (vertex_on_nondeg b r (Hb_of_eq E)) as [s [H1 H2]].
      exists s. split; [apply as_lines_cons_incl; exact H1|].
      rewrite (on_seg_pt_eq s w b); [exact H2 | etransitivity; [exact Ew | exact E]].
    + exists (a, b). split; [apply Hhead; reflexivity | exact Hon].
  - destruct (has_other b r) eqn:Hb.
    + destruct (IH b Hb Hon) as [s [H1 H2]]. exists s. split; [apply as_lines_cons_incl; exact H1 | exact H2].
    + pose proof (all_same_edges b r w Hb Hon) as Ew.
      destruct (pt_eqb a b) eqn:E.
      * apply pt_eqb_iff in E. pose proof (Hb_of_eq E) as X. discriminate.
      * exists (a, b). split; [apply Hhead; reflexivity|].
        rewrite (on_seg_pt_eq (a, b) w b Ew). apply on_seg_right.
Qed.

Lemma on_line_cover l w :
  pts_wf (line_pts l) = true -> on_line l w = true -> exists s, In s (ls_lines l) /\ on_seg s w = true.
Proof.
  unfold on_line, line_segs, segs_of_pts, ls_lines, pts_wf.
  destruct (line_pts l) as [|a [|b r]]; intros Hwf Hon; try discriminate.
  apply nondeg_cover; assumption.
Qed.

Lemma in_point_inv q w : in_point q w = true -> exists a, point_xy q = Some a /\ pt_eq w a.
Proof.
  intros H. destruct (point_xy q) as [a|] eqn:E.
  - exists a. split; [reflexivity|]. rewrite (in_point_xy q a w E) in H. apply pt_eqb_iff. exact H.
  - rewrite (in_point_none q w E) in H. discriminate.
Qed.

Lemma lines_xy_complete lns s xy :
  In s lns -> on_seg s xy = true -> existsb (fun ln => intersects_xy ln xy) lns = true.
Proof. intros H1 H2. apply existsb_exists. exists s. rewrite intersects_xy_on_seg. auto. Qed.

Definition ml_wf (ls : list (lineT Q)) : bool := forallb (fun l => pts_wf (line_pts l)) ls.

Lemma inML_cover ls w :
  ml_wf ls = true -> inML ls w = true -> exists s, In s (mls_lines ls) /\ on_seg s w = true.
Proof.
  unfold ml_wf, inML. intros Hwf H. apply existsb_exists in H. destruct H as [l [Hl H]].
  rewrite forallb_forall in Hwf. destruct (on_line_cover l w (Hwf l Hl) H) as [s [H1 H2]].
  exists s. split; [|exact H2]. apply in_flat_map. eauto.
Qed.

Lemma ix_point_point_complete p q w :
  in_point p w = true -> in_point q w = true -> ix_point_point p q = true.
Proof.
  intros Hp Hq. apply in_point_inv in Hp. apply in_point_inv in Hq.
  destruct Hp as [a [Ea Ha]], Hq as [b [Eb Hb]]. unfold ix_point_point. rewrite Ea, Eb.
  apply pt_eqb_iff. etransitivity; [symmetry; exact Ha | exact Hb].
Qed.

Lemma ix_point_line_complete p l w :
  pts_wf (line_pts l) = true -> in_point p w = true -> on_line l w = true -> ix_point_line p l = true.
Proof.
  intros Hwf Hp Hl. apply in_point_inv in Hp. destruct Hp as [a [Ea Ha]].
  destruct (on_line_cover l w Hwf Hl) as [s [H1 H2]].
  unfold ix_point_line. rewrite Ea. apply (lines_xy_complete _ s); [exact H1|].
  rewrite <- (on_seg_pt_eq s w a Ha). exact H2.
Qed.

Lemma ix_point_mpoint_complete p mp w :
  in_point p w = true -> inMP mp w = true -> ix_point_mpoint p mp = true.
Proof.
  intros Hp H. apply existsb_exists in H. destruct H as [q [Hq H]].
  apply existsb_exists. exists q. split; [exact Hq|]. eapply ix_point_point_complete; eauto.
Qed.

Lemma ix_point_mline_complete p ls w :
  ml_wf ls = true -> in_point p w = true -> inML ls w = true -> ix_point_mline p ls = true.
Proof.
  intros Hwf Hp H. apply existsb_exists in H. destruct H as [l [Hl H]].
  unfold ml_wf in Hwf. rewrite forallb_forall in Hwf.
  apply existsb_exists. exists l. split; [exact Hl|]. eapply ix_point_line_complete; eauto.
Qed.

Lemma ix_mpoint_mline_complete mp ls w :
  ml_wf ls = true -> inMP mp w = true -> inML ls w = true -> ix_mpoint_mline mp ls = true.
Proof.
  intros Hwf Hp H. apply existsb_exists in Hp. destruct Hp as [p [Hp Hpw]].
  apply in_point_inv in Hpw. destruct Hpw as [a [Ea Ha]].
  apply existsb_exists in H. destruct H as [l [Hl H]].
  unfold ml_wf in Hwf. rewrite forallb_forall in Hwf.
  destruct (on_line_cover l w (Hwf l Hl) H) as [s [H1 H2]].
  unfold ix_mpoint_mline. apply existsb_exists. exists p. split; [exact Hp|]. rewrite Ea.
  apply existsb_exists. exists l. split; [exact Hl|].
  apply (lines_xy_complete _ s); [exact H1|]. rewrite <- (on_seg_pt_eq s w a Ha). exact H2.
Qed.

Lemma ix_mline_mline_complete ls1 ls2 w :
  ml_wf ls1 = true -> ml_wf ls2 = true -> inML ls1 w = true -> inML ls2 w = true ->
  ix_mline_mline ls1 ls2 = true.
Proof.
  intros W1 W2 H1 H2. destruct (inML_cover ls1 w W1 H1) as [s [Hs Hsw]].
  destruct (inML_cover ls2 w W2 H2) as [t [Ht Htw]].
  unfold ix_mline_mline. apply hibl_iff; [apply mls_lines_nondeg | apply mls_lines_nondeg|].
  exists s, t, w. auto.
Qed.

Lemma ix_mpoint_mpoint_complete mp1 mp2 w :
  inMP mp1 w = true -> inMP mp2 w = true -> ix_mpoint_mpoint mp1 mp2 = true.
Proof.
  intros H1 H2. apply existsb_exists in H1. destruct H1 as [q1 [Hq1 H1]].
  apply existsb_exists in H2. destruct H2 as [q2 [Hq2 H2]].
  apply in_point_inv in H1. apply in_point_inv in H2.
  destruct H1 as [a [Ea Ha]], H2 as [b [Eb Hb]].
  unfold ix_mpoint_mpoint. apply existsb_exists. exists q2. split; [exact Hq2|]. rewrite Eb.
  apply existsb_exists. exists q1. split; [exact Hq1|]. rewrite Ea.
  apply pt_eqb_iff. etransitivity; [symmetry; exact Ha | exact Hb].
Qed.

Lemma ml_wf_single l : ml_wf [l] = pts_wf (line_pts l).
Proof. unfold ml_wf. simpl. apply andb_true_r. Qed.

Lemma ix_switch_complete g1 g2 w :
  (rank g1 <= rank g2)%nat ->
  no_polys g1 = true -> no_polys g2 = true -> lines_wf g1 = true -> lines_wf g2 = true ->
  (forall c gs, g1 <> GColl c gs) -> (forall c gs, g2 <> GColl c gs) ->
  inG g1 w = true -> inG g2 w = true -> ix_switch g1 g2 = OBool true.
Proof.
  unfold no_polys, lines_wf.
  destruct g1 as [p|l|y|c mp|c ls|c ys|c gs]; destruct g2 as [p'|l'|y'|c' mp'|c' ls'|c' ys'|c' gs'];
    cbn [rank ix_switch g_polys g_lines inG]; intros Hr N1 N2 W1 W2 G1 G2 H1 H2;
    try discriminate; try (exfalso; lia);
    try (exfalso; eapply G1; reflexivity); try (exfalso; eapply G2; reflexivity);
    try (destruct ys; [|discriminate]; simpl in H1; discriminate);
    try (destruct ys'; [|discriminate]; simpl in H2; discriminate);
    f_equal.
  - eapply ix_point_point_complete; eauto.
  - change (ml_wf [l'] = true) in W2. rewrite ml_wf_single in W2. eapply ix_point_line_complete; eauto.
  - eapply ix_point_mpoint_complete; eauto.
  - eapply ix_point_mline_complete; eauto.
  - apply (ix_mline_mline_complete [l] [l'] w); [exact W1 | exact W2 | |]; rewrite single_inML; assumption.
  - apply (ix_mpoint_mline_complete mp' [l] w); [exact W1 | exact H2 |]. rewrite single_inML; assumption.
  - apply (ix_mline_mline_complete [l] ls' w); [exact W1 | exact W2 | | exact H2]. rewrite single_inML; assumption.
  - eapply ix_mpoint_mpoint_complete; eauto.
  - eapply ix_mpoint_mline_complete; eauto.
  - eapply ix_mline_mline_complete; eauto.
Qed.

Lemma ix_flat_complete g1 g2 w :
  no_polys g1 = true -> no_polys g2 = true -> lines_wf g1 = true -> lines_wf g2 = true ->
  (forall c gs, g1 <> GColl c gs) -> (forall c gs, g2 <> GColl c gs) ->
  inG g1 w = true -> inG g2 w = true -> ix_flat g1 g2 = true.
Proof.
  intros N1 N2 W1 W2 G1 G2 H1 H2. unfold ix_flat, ix_flat_o.
  destruct (Nat.ltb (rank g2) (rank g1)) eqn:E.
  - apply Nat.ltb_lt in E. rewrite (ix_switch_complete g2 g1 w); auto. lia.
  - apply Nat.ltb_ge in E. rewrite (ix_switch_complete g1 g2 w); auto.
Qed.

Lemma leaves_not_coll g l : In l (leaves g) -> forall c gs, l <> GColl c gs.
Proof.
  induction g using geomT_ind'; cbn [leaves]; intros Hl; try (destruct Hl as [<-|[]]; discriminate).
  apply in_flat_map in Hl. destruct Hl as [x [Hx Hl]]. rewrite Forall_forall in H. exact (H x Hx Hl).
Qed.
Lemma flat_map_flat_map {A B C} (f : B -> list C) (g : A -> list B) l :
  flat_map f (flat_map g l) = flat_map (fun x => flat_map f (g x)) l.
Proof. induction l as [|a l IH]; [reflexivity|]. simpl. rewrite flat_map_app, IH. reflexivity. Qed.
Lemma flat_map_ext_Forall {A B} (f g : A -> list B) l : Forall (fun x => f x = g x) l -> flat_map f l = flat_map g l.
Proof. induction 1 as [|a l Ha _ IH]; [reflexivity|]. simpl. rewrite Ha, IH. reflexivity. Qed.
Lemma g_polys_leaves g : g_polys g = flat_map g_polys (leaves g).
Proof.
  induction g using geomT_ind'; try (cbn [leaves flat_map]; rewrite app_nil_r; reflexivity).
  cbn [g_polys leaves]. rewrite flat_map_flat_map. apply flat_map_ext_Forall. exact H.
Qed.
Lemma g_lines_leaves g : g_lines g = flat_map g_lines (leaves g).
Proof.
  induction g using geomT_ind'; try (cbn [leaves flat_map]; rewrite app_nil_r; reflexivity).
  cbn [g_lines leaves]. rewrite flat_map_flat_map. apply flat_map_ext_Forall. exact H.
Qed.
Lemma no_polys_leaf g l : no_polys g = true -> In l (leaves g) -> no_polys l = true.
Proof.
  unfold no_polys. rewrite (g_polys_leaves g). intros H Hl.
  destruct (g_polys l) as [|y ys] eqn:E; [reflexivity|]. exfalso.
  assert (X : In y (flat_map g_polys (leaves g))) by (apply in_flat_map; exists l; split; [exact Hl | rewrite E; left; reflexivity]).
  destruct (flat_map g_polys (leaves g)); [destruct X | discriminate].
Qed.
Lemma lines_wf_leaf g l : lines_wf g = true -> In l (leaves g) -> lines_wf l = true.
Proof.
  unfold lines_wf. rewrite (g_lines_leaves g), forallb_flat_map, forallb_forall. intros H Hl. exact (H l Hl).
Qed.

(* Intersects(a, b) = false implies the point sets are disjoint, for puntal / lineal operands *)
Lemma intersects_complete_lineal a b w :
  no_polys a = true -> no_polys b = true -> lines_wf a = true -> lines_wf b = true ->
  inG a w = true -> inG b w = true -> intersects a b = true.
Proof.
  intros N1 N2 W1 W2 H1 H2. rewrite intersects_leaves.
  rewrite inG_leaves in H1, H2. apply existsb_exists in H1. apply existsb_exists in H2.
  destruct H1 as [la [Hla H1]], H2 as [lb [Hlb H2]].
  apply existsb_exists. exists la. split; [exact Hla|]. apply existsb_exists. exists lb. split; [exact Hlb|].
  apply (ix_flat_complete la lb w); auto.
  - exact (no_polys_leaf a la N1 Hla).
  - exact (no_polys_leaf b lb N2 Hlb).
  - exact (lines_wf_leaf a la W1 Hla).
  - exact (lines_wf_leaf b lb W2 Hlb).
  - exact (leaves_not_coll a la Hla).
  - exact (leaves_not_coll b lb Hlb).
Qed.

(* ================================================================ empty operands *)
Lemma point_xy_nonempty p a : point_xy p = Some a -> point_empty p = false.
Proof. unfold point_xy, point_empty. destruct (point_c p); [reflexivity | discriminate]. Qed.
Lemma ls_lines_nonempty l s : In s (ls_lines l) -> line_empty l = false.
Proof.
  unfold ls_lines, line_pts, line_empty. destruct (line_vs l); [intros []| reflexivity].
Qed.
Lemma start_xy_nonempty l a : start_xy l = Some a -> line_empty l = false.
Proof. unfold start_xy, line_pts, line_empty. destruct (line_vs l); [discriminate | reflexivity]. Qed.
Lemma mls_lines_nonempty ls s : In s (mls_lines ls) -> forallb line_empty ls = false.
Proof.
  intros H. apply in_flat_map in H. destruct H as [l [Hl H]]. apply ls_lines_nonempty in H.
  destruct (forallb line_empty ls) eqn:E; [|reflexivity]. rewrite forallb_forall in E. rewrite (E l Hl) in H. discriminate.
Qed.
Lemma poly_lines_nonempty y s : In s (poly_lines y) -> poly_empty y = false.
Proof.
  unfold poly_lines, poly_empty. destruct (poly_rings y); [intros [] | reflexivity].
Qed.
Lemma mpoly_lines_nonempty ys s : In s (mpoly_lines ys) -> forallb poly_empty ys = false.
Proof.
  intros H. apply in_flat_map in H. destruct H as [y [Hy H]]. apply poly_lines_nonempty in H.
  destruct (forallb poly_empty ys) eqn:E; [|reflexivity]. rewrite forallb_forall in E. rewrite (E y Hy) in H. discriminate.
Qed.
Lemma ix_optxy_polygon_nonempty o y : ix_optxy_polygon o y = true -> poly_empty y = false /\ exists a, o = Some a.
Proof.
  destruct o as [a|]; [|discriminate]. unfold ix_optxy_polygon, ix_xy_polygon, poly_empty.
  destruct (poly_rings y); [discriminate|]. intros _. split; [reflexivity | eauto].
Qed.
Lemma hibl_nonempty l1 l2 : has_intersection_between_lines l1 l2 = true -> exists s t, In s l1 /\ In t l2.
Proof.
  unfold has_intersection_between_lines. destruct (Nat.ltb (length l2) (length l1)); intros H;
    apply existsb_exists in H; destruct H as [x [Hx H]]; apply existsb_exists in H; destruct H as [y [Hy _]]; eauto.
Qed.
Lemma forallb_false_of {A} (f : A -> bool) l x : In x l -> f x = false -> forallb f l = false.
Proof.
  intros Hx Hf. destruct (forallb f l) eqn:E; [|reflexivity]. rewrite forallb_forall in E. rewrite (E x Hx) in Hf. discriminate.
Qed.

Lemma ix_switch_nonempty g1 g2 : ix_switch g1 g2 = OBool true -> is_empty g1 = false /\ is_empty g2 = false.
Proof.
  destruct g1 as [p|l|y|c mp|c ls|c ys|c gs]; destruct g2 as [p'|l'|y'|c' mp'|c' ls'|c' ys'|c' gs'];
    cbn [ix_switch is_empty]; intros H; try discriminate; injection H as H.
  - unfold ix_point_point in H. destruct (point_xy p) eqn:E1; [|discriminate]. destruct (point_xy p') eqn:E2; [|discriminate].
    split; eapply point_xy_nonempty; eauto.
  - unfold ix_point_line in H. destruct (point_xy p) eqn:E1; [|discriminate].
    apply existsb_exists in H. destruct H as [s [Hs _]].
    split; [eapply point_xy_nonempty; eauto | eapply ls_lines_nonempty; eauto].
  - apply ix_optxy_polygon_nonempty in H. destruct H as [H1 [a H2]]. split; [eapply point_xy_nonempty; eauto | exact H1].
  - apply existsb_exists in H. destruct H as [q [Hq H]]. unfold ix_point_point in H.
    destruct (point_xy p) eqn:E1; [|discriminate]. destruct (point_xy q) eqn:E2; [|discriminate].
    split; [eapply point_xy_nonempty; eauto | eapply forallb_false_of; [exact Hq | eapply point_xy_nonempty; eauto]].
  - apply existsb_exists in H. destruct H as [l [Hl H]]. unfold ix_point_line in H.
    destruct (point_xy p) eqn:E1; [|discriminate]. apply existsb_exists in H. destruct H as [s [Hs _]].
    split; [eapply point_xy_nonempty; eauto | eapply forallb_false_of; [exact Hl | eapply ls_lines_nonempty; eauto]].
  - apply existsb_exists in H. destruct H as [y [Hy H]]. apply ix_optxy_polygon_nonempty in H. destruct H as [H1 [a H2]].
    split; [eapply point_xy_nonempty; eauto | eapply forallb_false_of; eauto].
  - apply hibl_nonempty in H. destruct H as [s [t [Hs Ht]]]. unfold mls_lines in Hs, Ht. simpl in Hs, Ht.
    rewrite app_nil_r in Hs, Ht. split; eapply ls_lines_nonempty; eauto.
  - unfold ix_mline_mpoly in H. destruct (has_intersection_between_lines (mls_lines [l]) (mpoly_lines [y'])) eqn:E.
    + apply hibl_nonempty in E. destruct E as [s [t [Hs Ht]]]. simpl in Hs, Ht. rewrite app_nil_r in Hs, Ht.
      split; [eapply ls_lines_nonempty; eauto | eapply poly_lines_nonempty; eauto].
    + simpl in H. rewrite !orb_false_r in H. apply ix_optxy_polygon_nonempty in H. destruct H as [H1 [a H2]].
      split; [eapply start_xy_nonempty; eauto | exact H1].
  - unfold ix_mpoint_mline in H. apply existsb_exists in H. destruct H as [q [Hq H]].
    destruct (point_xy q) eqn:E1; [|discriminate]. simpl in H. rewrite orb_false_r in H.
    apply existsb_exists in H. destruct H as [s [Hs _]].
    split; [eapply ls_lines_nonempty; eauto | eapply forallb_false_of; [exact Hq | eapply point_xy_nonempty; eauto]].
  - apply hibl_nonempty in H. destruct H as [s [t [Hs Ht]]]. simpl in Hs. rewrite app_nil_r in Hs.
    split; [eapply ls_lines_nonempty; eauto | eapply mls_lines_nonempty; eauto].
  - unfold ix_mline_mpoly in H. destruct (has_intersection_between_lines (mls_lines [l]) (mpoly_lines ys')) eqn:E.
    + apply hibl_nonempty in E. destruct E as [s [t [Hs Ht]]]. simpl in Hs. rewrite app_nil_r in Hs.
      split; [eapply ls_lines_nonempty; eauto | eapply mpoly_lines_nonempty; eauto].
    + simpl in H. rewrite orb_false_r in H. apply existsb_exists in H. destruct H as [y [Hy H]].
      apply ix_optxy_polygon_nonempty in H. destruct H as [H1 [a H2]].
      split; [eapply start_xy_nonempty; eauto | eapply forallb_false_of; eauto].
  - unfold ix_polygon_polygon in H. destruct (has_intersection_between_lines (poly_lines y) (poly_lines y')) eqn:E.
    + apply hibl_nonempty in E. destruct E as [s [t [Hs Ht]]]. split; eapply poly_lines_nonempty; eauto.
    + apply orb_true_iff in H. destruct H as [H|H]; apply ix_optxy_polygon_nonempty in H; destruct H as [H1 [a H2]].
      * split; [|exact H1]. unfold exterior_ring, start_xy in H2. unfold poly_empty. destruct (poly_rings y); [discriminate | reflexivity].
      * split; [exact H1|]. unfold exterior_ring, start_xy in H2. unfold poly_empty. destruct (poly_rings y'); [discriminate | reflexivity].
  - apply existsb_exists in H. destruct H as [q [Hq H]]. apply ix_optxy_polygon_nonempty in H. destruct H as [H1 [a H2]].
    split; [exact H1 | eapply forallb_false_of; [exact Hq | eapply point_xy_nonempty; eauto]].
  - unfold ix_mline_mpoly in H. destruct (has_intersection_between_lines (mls_lines ls') (mpoly_lines [y])) eqn:E.
    + apply hibl_nonempty in E. destruct E as [s [t [Hs Ht]]]. simpl in Ht. rewrite app_nil_r in Ht.
      split; [eapply poly_lines_nonempty; eauto | eapply mls_lines_nonempty; eauto].
    + apply existsb_exists in H. destruct H as [l [Hl H]]. simpl in H. rewrite orb_false_r in H.
      apply ix_optxy_polygon_nonempty in H. destruct H as [H1 [a H2]].
      split; [exact H1 | eapply forallb_false_of; [exact Hl | eapply start_xy_nonempty; eauto]].
  - change (ix_mpoly_mpoly [y] ys' = true) in H. unfold ix_mpoly_mpoly in H. simpl in H. rewrite orb_false_r in H.
    apply existsb_exists in H. destruct H as [y2 [Hy2 H]].
    assert (K : poly_empty y = false /\ poly_empty y2 = false).
    { unfold ix_polygon_polygon in H. destruct (has_intersection_between_lines (poly_lines y) (poly_lines y2)) eqn:E.
      - apply hibl_nonempty in E. destruct E as [s [t [Hs Ht]]]. split; eapply poly_lines_nonempty; eauto.
      - apply orb_true_iff in H. destruct H as [H|H]; apply ix_optxy_polygon_nonempty in H; destruct H as [H1 [a H2]].
        + split; [|exact H1]. unfold exterior_ring, start_xy in H2. unfold poly_empty. destruct (poly_rings y); [discriminate | reflexivity].
        + split; [exact H1|]. unfold exterior_ring, start_xy in H2. unfold poly_empty. destruct (poly_rings y2); [discriminate | reflexivity]. }
    destruct K as [K1 K2]. split; [exact K1 | eapply forallb_false_of; eauto].
  - unfold ix_mpoint_mpoint in H. apply existsb_exists in H. destruct H as [q2 [Hq2 H]].
    destruct (point_xy q2) eqn:E2; [|discriminate]. apply existsb_exists in H. destruct H as [q1 [Hq1 H]].
    destruct (point_xy q1) eqn:E1; [|discriminate].
    split; eapply forallb_false_of; eauto; eapply point_xy_nonempty; eauto.
  - unfold ix_mpoint_mline in H. apply existsb_exists in H. destruct H as [q [Hq H]].
    destruct (point_xy q) eqn:E1; [|discriminate]. apply existsb_exists in H. destruct H as [l [Hl H]].
    apply existsb_exists in H. destruct H as [s [Hs _]].
    split; eapply forallb_false_of; eauto; [eapply point_xy_nonempty; eauto | eapply ls_lines_nonempty; eauto].
  - apply existsb_exists in H. destruct H as [q [Hq H]]. apply existsb_exists in H. destruct H as [y [Hy H]].
    apply ix_optxy_polygon_nonempty in H. destruct H as [H1 [a H2]].
    split; eapply forallb_false_of; eauto. eapply point_xy_nonempty; eauto.
  - apply hibl_nonempty in H. destruct H as [s [t [Hs Ht]]]. split; eapply mls_lines_nonempty; eauto.
  - unfold ix_mline_mpoly in H. destruct (has_intersection_between_lines (mls_lines ls) (mpoly_lines ys')) eqn:E.
    + apply hibl_nonempty in E. destruct E as [s [t [Hs Ht]]].
      split; [eapply mls_lines_nonempty; eauto | eapply mpoly_lines_nonempty; eauto].
    + apply existsb_exists in H. destruct H as [l [Hl H]]. apply existsb_exists in H. destruct H as [y [Hy H]].
      apply ix_optxy_polygon_nonempty in H. destruct H as [H1 [a H2]].
      split; eapply forallb_false_of; eauto. eapply start_xy_nonempty; eauto.
  - apply existsb_exists in H. destruct H as [y1 [Hy1 H]]. apply existsb_exists in H. destruct H as [y2 [Hy2 H]].
    assert (K : poly_empty y1 = false /\ poly_empty y2 = false).
    { unfold ix_polygon_polygon in H. destruct (has_intersection_between_lines (poly_lines y1) (poly_lines y2)) eqn:E.
      - apply hibl_nonempty in E. destruct E as [s [t [Hs Ht]]]. split; eapply poly_lines_nonempty; eauto.
      - apply orb_true_iff in H. destruct H as [H|H]; apply ix_optxy_polygon_nonempty in H; destruct H as [H1 [a H2]].
        + split; [|exact H1]. unfold exterior_ring, start_xy in H2. unfold poly_empty. destruct (poly_rings y1); [discriminate | reflexivity].
        + split; [exact H1|]. unfold exterior_ring, start_xy in H2. unfold poly_empty. destruct (poly_rings y2); [discriminate | reflexivity]. }
    destruct K as [K1 K2]. split; eapply forallb_false_of; eauto.
Qed.

Lemma ix_flat_nonempty g1 g2 : ix_flat g1 g2 = true -> is_empty g1 = false /\ is_empty g2 = false.
Proof.
  unfold ix_flat, ix_flat_o. destruct (Nat.ltb (rank g2) (rank g1)); intros H.
  - destruct (ix_switch g2 g1) as [[|]|] eqn:E; simpl in H; try discriminate.
    apply ix_switch_nonempty in E. tauto.
  - destruct (ix_switch g1 g2) as [[|]|] eqn:E; simpl in H; try discriminate.
    apply ix_switch_nonempty in E. tauto.
Qed.

Lemma is_empty_leaves g : is_empty g = forallb (@is_empty Q) (leaves g).
Proof.
  induction g using geomT_ind'; try (cbn [leaves forallb]; rewrite andb_true_r; reflexivity).
  cbn [is_empty leaves]. rewrite forallb_flat_map. apply forallb_ext_Forall. exact H.
Qed.

Lemma intersects_nonempty a b : intersects a b = true -> is_empty a = false /\ is_empty b = false.
Proof.
  rewrite intersects_leaves. intros H. apply existsb_exists in H. destruct H as [la [Hla H]].
  apply existsb_exists in H. destruct H as [lb [Hlb H]]. apply ix_flat_nonempty in H. destruct H as [H1 H2].
  rewrite (is_empty_leaves a), (is_empty_leaves b). split; eapply forallb_false_of; eauto.
Qed.

Lemma intersects_empty a b : is_empty a = true \/ is_empty b = true -> intersects a b = false.
Proof.
  intros H. destruct (intersects a b) eqn:E; [|reflexivity]. apply intersects_nonempty in E.
  destruct E as [E1 E2]. destruct H as [H|H]; congruence.
Qed.

(* ================================================================ the final panic is unreachable *)
Lemma ix_flat_o_no_panic g1 g2 :
  (forall c gs, g1 <> GColl c gs) -> (forall c gs, g2 <> GColl c gs) -> ix_flat_o g1 g2 <> OPanic.
Proof.
  intros G1 G2.
  destruct g1 as [p|l|y|c mp|c ls|c ys|c gs]; try (exfalso; eapply G1; reflexivity);
  destruct g2 as [p'|l'|y'|c' mp'|c' ls'|c' ys'|c' gs']; try (exfalso; eapply G2; reflexivity);
  unfold ix_flat_o; cbn [rank Nat.ltb Nat.leb ix_switch]; discriminate.
Qed.

Lemma intersects_never_panics a b : intersects_panics a b = false.
Proof.
  unfold intersects_panics. destruct (existsb _ (leaves a)) eqn:E; [|reflexivity]. exfalso.
  apply existsb_exists in E. destruct E as [la [Hla E]]. apply existsb_exists in E. destruct E as [lb [Hlb E]].
  pose proof (ix_flat_o_no_panic la lb (leaves_not_coll a la Hla) (leaves_not_coll b lb Hlb)) as N.
  destruct (ix_flat_o la lb); [discriminate | congruence].
Qed.
