(* Property C14 - the centroid IS the centre of mass of the point set (first moments / area, both
   measured by the slab decomposition).  Definitions: Model/MeasureMoments.v.

   Part 0: the closed forms [tz_area], [tz_mx], [tz_my] pinned down independently of any ring code:
     finitely additive under a vertical cut and under a cut by a segment joining the two vertical
     sides, translation, scaling, rectangle, triangle.
   Part 1: a generic statement about "edge functionals".  Let G x0 x1 a b be a number attached to
     the piece from (x0,a) to (x1,b) of a non-vertical line (for instance the integral over
     [x0,x1] of a function of x and of the height of the line), additive along every line
     ([G_add]) and zero on pieces of width zero ([G_zero]).  Then for EVERY closed ring
       sum over the edges e of G(e)  =  sum over the cells c of the slab decomposition of
                                        (winding number at the witness of c) * (G(upper edge of c) - G(lower edge of c))
     ([ring_functional_is_winding_sum]).  Route, as for the area in Proofs/Measure_slab.v:
     (1) G(e) splits over the slabs e spans ([edge_slabs_G], telescoping of the antiderivative);
     (2) in a slab the value on a spanning edge minus the value on the lowest spanning edge is the
     sum of the cell terms below it ([gh_gaps], telescoping over the heights; needs: two segments
     of the arrangement with a common point inside a slab are collinear - [hts_coherent], from
     Planar_slab_base.zero_in_slab); (3) a closed ring crosses every slab equally often both ways
     (Measure_slab.ring_balance); (4) exchange the sums.
   Part 2: instances G = integral of 1, x, y/2 dy... : area, x-moment, y-moment; the fan sums of
     centroidOfRing are -2, -6, -6 times the edge sums on a closed ring ([fan_edge_sums]); hence
     [ring_moment_is_winding_moment_lemma].
   Part 3: winding number 0 / sigma at the witnesses => centroid_of_ring = moments / area of the
     point set ([centroid_is_slab_centroid_lemma]); polygons with holes under pointwise nesting
     ([centroid_is_slab_centroid_holes_lemma]); executable hypotheses
     ([slab_hypotheses_centroid]); multipolygons with pointwise disjoint members
     ([mpoly_centroid_is_slab_centroid_lemma]). *)
From Coq Require Import QArith Qabs Qreduction List Bool ZArith Lia Lqa Setoid Morphisms.
From SF Require Import Base.GeomAST Base.QKernel Base.Planar Proofs.Planar_slab_base.
From SF Require Import Model.SetOpSpec.
From SF Require Import Model.Measure Proofs.Measure_proofs Proofs.Measure_slab.
From SF Require Import Model.MeasureMoments.
Import ListNotations.
Open Scope Q_scope.

(* ------------------------------------------------------------------------------------------ *)
(* Part 0: the closed forms                                                                    *)
(* ------------------------------------------------------------------------------------------ *)
Ltac tz_unfold :=
  unfold tz_area, tz_mx, tz_my, tz_left, tz_right, tz_below, tz_above, tz_translate, tz_scale, tz_scale_xy,
         tz_rect, tz_tri, lerp_h; cbn [tx0 tx1 tl0 tl1 tu0 tu1 fst snd].

(* cut by the vertical line at abscissa x (any x: the formulas are signed) *)
Lemma tz_split_vertical : forall c x, ~ tx0 c == tx1 c ->
  tz_area (tz_left c x) + tz_area (tz_right c x) == tz_area c /\
  tz_mx (tz_left c x) + tz_mx (tz_right c x) == tz_mx c /\
  tz_my (tz_left c x) + tz_my (tz_right c x) == tz_my c.
Proof.
  intros [x0 x1 l0 l1 u0 u1] x H. cbn [tx0 tx1] in H. tz_unfold.
  assert (D : ~ x1 - x0 == 0) by (intros K; apply H; lra).
  repeat split; field; exact D.
Qed.

(* cut by the segment from (x0,m0) to (x1,m1) *)
Lemma tz_split_segment : forall c m0 m1,
  tz_area (tz_below c m0 m1) + tz_area (tz_above c m0 m1) == tz_area c /\
  tz_mx (tz_below c m0 m1) + tz_mx (tz_above c m0 m1) == tz_mx c /\
  tz_my (tz_below c m0 m1) + tz_my (tz_above c m0 m1) == tz_my c.
Proof. intros [x0 x1 l0 l1 u0 u1] m0 m1. tz_unfold. repeat split; field. Qed.

Lemma tz_translate_moments : forall t c,
  tz_area (tz_translate t c) == tz_area c /\
  tz_mx (tz_translate t c) == tz_mx c + fst t * tz_area c /\
  tz_my (tz_translate t c) == tz_my c + snd t * tz_area c.
Proof. intros [tx ty] [x0 x1 l0 l1 u0 u1]. tz_unfold. repeat split; field. Qed.

Lemma tz_scale_moments : forall k c,
  tz_area (tz_scale k c) == k * k * tz_area c /\
  tz_mx (tz_scale k c) == k * k * k * tz_mx c /\
  tz_my (tz_scale k c) == k * k * k * tz_my c.
Proof. intros k [x0 x1 l0 l1 u0 u1]. tz_unfold. repeat split; field. Qed.

Lemma tz_scale_xy_moments : forall kx ky c,
  tz_area (tz_scale_xy kx ky c) == kx * ky * tz_area c /\
  tz_mx (tz_scale_xy kx ky c) == kx * kx * ky * tz_mx c /\
  tz_my (tz_scale_xy kx ky c) == kx * ky * ky * tz_my c.
Proof. intros kx ky [x0 x1 l0 l1 u0 u1]. tz_unfold. repeat split; field. Qed.

Lemma tz_rect_moments : forall x0 x1 y0 y1,
  tz_area (tz_rect x0 x1 y0 y1) == (x1 - x0) * (y1 - y0) /\
  tz_mx (tz_rect x0 x1 y0 y1) == (x0 + x1) / 2 * tz_area (tz_rect x0 x1 y0 y1) /\
  tz_my (tz_rect x0 x1 y0 y1) == (y0 + y1) / 2 * tz_area (tz_rect x0 x1 y0 y1).
Proof. intros. tz_unfold. repeat split; field. Qed.

(* the triangle (x0,a) (x1,b) (x1,c): first moments = area * mean of the three vertices *)
Lemma tz_tri_moments : forall x0 x1 a b c,
  tz_area (tz_tri x0 x1 a b c) == (x1 - x0) * (c - b) / 2 /\
  tz_mx (tz_tri x0 x1 a b c) == (x0 + x1 + x1) / 3 * tz_area (tz_tri x0 x1 a b c) /\
  tz_my (tz_tri x0 x1 a b c) == (a + b + c) / 3 * tz_area (tz_tri x0 x1 a b c).
Proof. intros. tz_unfold. repeat split; field. Qed.

(* ------------------------------------------------------------------------------------------ *)
(* structure of the cell list                                                                  *)
(* ------------------------------------------------------------------------------------------ *)
Lemma gap_tcells_consec : forall L x0 x1 ys, gap_tcells L x0 x1 ys = map (gap_tcell L x0 x1) (consec ys).
Proof.
  intros L x0 x1 ys. induction ys as [|y1 r IH]; [reflexivity|]. destruct r as [|y2 r']; [reflexivity|].
  change (gap_tcells L x0 x1 (y1 :: y2 :: r')) with (gap_tcell L x0 x1 (y1, y2) :: gap_tcells L x0 x1 (y2 :: r')).
  change (consec (y1 :: y2 :: r')) with ((y1, y2) :: consec (y2 :: r')). cbn [map]. rewrite IH. reflexivity.
Qed.

Definition slab_tcells_of (L : list seg) (xx : Q * Q) : list (pt * tcell) :=
  map (gap_tcell L (fst xx) (snd xx)) (consec (slab_heights L (qmid (fst xx) (snd xx)))).

Lemma slab_tcells_consec : forall L xs, slab_tcells L xs = flat_map (slab_tcells_of L) (consec xs).
Proof.
  intros L xs. induction xs as [|x0 r IH]; [reflexivity|]. destruct r as [|x1 r']; [reflexivity|].
  change (slab_tcells L (x0 :: x1 :: r')) with
    (gap_tcells L x0 x1 (slab_heights L (qmid x0 x1)) ++ slab_tcells L (x1 :: r')).
  change (consec (x0 :: x1 :: r')) with ((x0, x1) :: consec (x1 :: r')). cbn [flat_map]. rewrite IH.
  unfold slab_tcells_of at 1. cbn [fst snd]. rewrite gap_tcells_consec. reflexivity.
Qed.

(* same witnesses, in the same order, as the cells of SetOpSpec *)
Lemma tcells_witnesses : forall L xs, map fst (slab_tcells L xs) = map fst (slab_cells L xs).
Proof.
  intros L xs. rewrite slab_tcells_consec, slab_cells_consec.
  induction (consec xs) as [|xx r IH]; [reflexivity|]. cbn [flat_map]. rewrite !map_app, IH. f_equal.
  unfold slab_tcells_of, slab_cells_of. rewrite gap_cells_consec, !map_map. apply map_ext. intros yy. reflexivity.
Qed.

Lemma tproj_witnesses : forall F cells, map fst (tproj F cells) = map fst cells.
Proof. intros. unfold tproj. rewrite map_map. reflexivity. Qed.

Lemma in_tproj_witness : forall F L xs c, In c (tproj F (slab_tcells L xs)) ->
  exists c', In c' (slab_cells L xs) /\ fst c' = fst c.
Proof.
  intros F L xs c H. apply (in_map fst) in H. rewrite tproj_witnesses, tcells_witnesses in H.
  apply in_map_iff in H. destruct H as [c' [E Hc']]. exists c'. auto.
Qed.

(* weighted cell sums in double-sum form *)
Lemma tcells_wsum_slabs : forall F L xs w,
  cells_wsum (tproj F (slab_tcells L xs)) w ==
  qsum (map (fun xx =>
         qsum (map (fun yy => w (qmid (fst xx) (snd xx), qmid (fst yy) (snd yy)) *
                              F (snd (gap_tcell L (fst xx) (snd xx) yy)))
                   (consec (slab_heights L (qmid (fst xx) (snd xx)))))) (consec xs)).
Proof.
  intros F L xs w. unfold cells_wsum, tproj. rewrite map_map, slab_tcells_consec, qsum_flat_map.
  apply qsum_map_ext_all. intros xx. unfold slab_tcells_of. rewrite map_map. reflexivity.
Qed.


(* ------------------------------------------------------------------------------------------ *)
(* inside a slab of the arrangement the edge through a height is determined up to collinearity *)
(* ------------------------------------------------------------------------------------------ *)
Lemma spans_open_iff : forall e xm, spans_open e xm = true <-> nonvertical e /\ spanb e xm = true.
Proof.
  intros e xm. unfold spans_open. rewrite andb_true_iff, negb_true_iff, seg_vertical_false. unfold spanb. reflexivity.
Qed.

Lemma spanb_nonvertical : forall e xm, spanb e xm = true -> nonvertical e.
Proof. intros e xm S. apply spanb_iff in S. unfold nonvertical. intros K. lra. Qed.

Lemma hts_coherent : forall L P x0 x1, In (x0, x1) (consec (events (vertex_set L P))) ->
  forall e y, In e L -> spanb e (qmid x0 x1) = true -> y == y_at e (qmid x0 x1) ->
  fst (hts_at L x0 x1 (qmid x0 x1) y) == y_at e x0 /\ snd (hts_at L x0 x1 (qmid x0 x1) y) == y_at e x1.
Proof.
  intros L P x0 x1 Hxx e y He S E.
  set (xm := qmid x0 x1) in *.
  pose proof (xm_inside L P (x0, x1) Hxx) as Hm. cbn [fst snd] in Hm. fold xm in Hm.
  pose proof (spanb_nonvertical e xm S) as NV.
  assert (Sp : forall f, In f L -> spanb f xm = true -> Planar_slab_base.spans x0 x1 f).
  { intros f Hf Sf. apply (spans_iff L P x0 x1 Hxx f xm Hf Hm (spanb_nonvertical f xm Sf)).
    apply spanb_iff in Sf. exact Sf. }
  unfold hts_at, edge_at.
  destruct (find (fun e0 => spans_open e0 xm && Qeq_bool (seg_y_at e0 xm) y) L) as [f|] eqn:F.
  - apply find_some in F. destruct F as [Hf Pf]. apply andb_true_iff in Pf. destruct Pf as [Pf1 Pf2].
    apply spans_open_iff in Pf1. destruct Pf1 as [NVf Sf]. apply Qeq_bool_iff in Pf2. rewrite seg_y_at_eq in Pf2.
    assert (Z : forall u, y_at f u == y_at e u).
    { apply (zero_in_slab L P x0 x1 Hxx f e xm Hf He (Sp f Hf Sf) (Sp e He S) Hm). rewrite Pf2, E. reflexivity. }
    cbn [fst snd]. rewrite !seg_y_at_eq. split; apply Z.
  - exfalso. pose proof (find_none _ _ F e He) as K. cbv beta in K.
    assert (K1 : spans_open e xm = true) by (apply spans_open_iff; split; assumption).
    assert (K2 : Qeq_bool (seg_y_at e xm) y = true) by (apply Qeq_bool_iff; rewrite seg_y_at_eq, E; reflexivity).
    rewrite K1, K2 in K. discriminate.
Qed.

(* every height of the slab is the height of a spanning segment *)
Lemma height_has_edge : forall L xm y, In y (slab_heights L xm) ->
  exists e, In e L /\ spanb e xm = true /\ y == y_at e xm.
Proof.
  intros L xm y H. unfold slab_heights in H. apply qsort_in in H. apply in_flat_map in H.
  destruct H as [e [He H]]. destruct (seg_vertical e); [destruct H|].
  fold (spanb e xm) in H. destruct (spanb e xm) eqn:S; [|destruct H].
  destruct H as [<-|[]]. exists e. split; [exact He|]. split; [exact S|apply seg_y_at_eq].
Qed.

(* telescoping over the heights below a member of a sorted list, for any function of the member *)
Lemma fun_gaps : forall (g : Q -> Q) h l y ystar, qsorted (h :: l) -> In ystar (h :: l) -> ystar == y ->
  g ystar - g h ==
  qsum (map (fun yy => (g (snd yy) - g (fst yy)) * ind (qltb (qmid (fst yy) (snd yy)) y)) (consec (h :: l))).
Proof.
  intros g h l y ystar Hs Hy E.
  assert (Hup : in_upto y (h :: l)) by (exists ystar; auto).
  set (phi := fun t : Q => if Qle_bool y t then g ystar else g t).
  assert (T : forall yy, In yy (consec (h :: l)) ->
            (g (snd yy) - g (fst yy)) * ind (qltb (qmid (fst yy) (snd yy)) y) == phi (snd yy) - phi (fst yy)).
  { intros [y1 y2] Hin. cbn [fst snd]. pose proof (consec_lt _ _ _ Hs Hin) as Hlt.
    destruct (consec_in _ _ _ Hin) as [In1 In2].
    assert (Hm : y1 < qmid y1 y2 /\ qmid y1 y2 < y2).
    { rewrite qmid_eq. split; [apply Qlt_shift_div_l; lra | apply Qlt_shift_div_r; lra]. }
    unfold phi. destruct (consec_gap_upto _ _ _ _ Hs Hin Hup) as [K|K].
    - assert (S : qltb (qmid y1 y2) y = false) by (apply qltb_false_iff; lra).
      rewrite (ind_false _ S).
      assert (E1 : Qle_bool y y1 = true) by (apply Qle_bool_iff; exact K).
      assert (E2 : Qle_bool y y2 = true) by (apply Qle_bool_iff; lra).
      rewrite E1, E2. ring.
    - assert (S : qltb (qmid y1 y2) y = true) by (apply qltb_iff; lra).
      rewrite (ind_true _ S).
      assert (E1 : Qle_bool y y1 = false) by (apply Qle_bool_false_iff; lra).
      rewrite E1. destruct (Qle_bool y y2) eqn:E2; [|ring].
      apply Qle_bool_iff in E2.
      assert (U : ystar = y2) by (apply (qsorted_eq_unique (h :: l)); auto; lra).
      rewrite U. ring. }
  rewrite (qsum_map_ext _ _ (fun yy => phi (snd yy) - phi (fst yy))) by (apply Forall_forall; exact T).
  rewrite consec_telescope. destruct (sorted_bounds h l y Hs Hup) as [B1 B2]. unfold phi.
  assert (E2 : Qle_bool y (last l h) = true) by (apply Qle_bool_iff; exact B2). rewrite E2.
  destruct (Qle_bool y h) eqn:E1; [|reflexivity].
  apply Qle_bool_iff in E1.
  assert (U : ystar = h) by (apply (qsorted_eq_unique (h :: l)); auto; [left; reflexivity|lra]).
  rewrite U. reflexivity.
Qed.

(* ------------------------------------------------------------------------------------------ *)
(* Part 1: edge functionals                                                                    *)
(* ------------------------------------------------------------------------------------------ *)
Section Functional.
  Variable G : Q -> Q -> Q -> Q -> Q.
  Hypothesis G_proper : Proper (Qeq ==> Qeq ==> Qeq ==> Qeq ==> Qeq) G.
  Hypothesis G_zero : forall x0 x1 a b, x0 == x1 -> G x0 x1 a b == 0.
  Hypothesis G_add : forall e : seg, nonvertical e -> forall x0 x1 x2,
    G x0 x1 (y_at e x0) (y_at e x1) + G x1 x2 (y_at e x1) (y_at e x2) == G x0 x2 (y_at e x0) (y_at e x2).

  (* the value on a whole edge, on the piece of an edge's line over a slab, on a cell *)
  Definition edge_term (e : seg) : Q := G (fst (fst e)) (fst (snd e)) (snd (fst e)) (snd (snd e)).
  Definition piece_term (e : seg) (x0 x1 : Q) : Q := G x0 x1 (y_at e x0) (y_at e x1).
  Definition cell_term (c : tcell) : Q := G (tx0 c) (tx1 c) (tu0 c) (tu1 c) - G (tx0 c) (tx1 c) (tl0 c) (tl1 c).

  Lemma edge_term_vertical : forall e : seg, fst (fst e) == fst (snd e) -> edge_term e == 0.
  Proof. intros e E. unfold edge_term. apply G_zero. exact E. Qed.

  (* (1) an edge's term splits over the slabs it spans *)
  Section EdgeSlabsG.
    Variable e : seg.
    Hypothesis NV : nonvertical e.
    Definition HG (x : Q) : Q := piece_term e (fst (fst e)) x.

    Lemma HG_diff : forall x0 x1, HG x1 - HG x0 == piece_term e x0 x1.
    Proof. intros x0 x1. unfold HG, piece_term. rewrite <- (G_add e NV (fst (fst e)) x0 x1). ring. Qed.
    Lemma HG_first : HG (fst (fst e)) == 0.
    Proof. unfold HG, piece_term. apply G_zero. reflexivity. Qed.
    Lemma HG_second : HG (fst (snd e)) == edge_term e.
    Proof.
      unfold HG, piece_term, edge_term. destruct e as [a b]. cbn [fst snd] in *.
      destruct (y_at_ends a b NV) as [Ha Hb]. rewrite Ha, Hb. reflexivity.
    Qed.
    Instance HG_proper : Proper (Qeq ==> Qeq) HG.
    Proof. intros x x' E. unfold HG, piece_term. rewrite E. reflexivity. Qed.

    Variable xs : list Q.
    Hypothesis Hsorted : qsorted xs.
    Hypothesis Ha : in_upto (fst (fst e)) xs.
    Hypothesis Hb : in_upto (fst (snd e)) xs.

    Lemma edge_slabs_G :
      edge_term e == qsum (map (fun xx => edir e * ind (spanb e (qmid (fst xx) (snd xx))) *
                                          piece_term e (fst xx) (snd xx)) (consec xs)).
    Proof.
      set (lo := if Qle_bool (fst (fst e)) (fst (snd e)) then fst (fst e) else fst (snd e)).
      set (hi := if Qle_bool (fst (fst e)) (fst (snd e)) then fst (snd e) else fst (fst e)).
      assert (Hlohi : lo < hi /\ in_upto lo xs /\ in_upto hi xs /\
                      ((lo = fst (fst e) /\ hi = fst (snd e) /\ edir e == 1) \/
                       (lo = fst (snd e) /\ hi = fst (fst e) /\ edir e == -1))).
      { unfold lo, hi. unfold nonvertical in NV. destruct (Qle_bool (fst (fst e)) (fst (snd e))) eqn:E.
        - apply Qle_bool_iff in E. destruct (edir_cases e) as [[H1 H2]|[[H1 H2]|[H1 H2]]]; try lra.
          repeat split; auto; try lra.
        - apply Qle_bool_false_iff in E. destruct (edir_cases e) as [[H1 H2]|[[H1 H2]|[H1 H2]]]; try lra.
          repeat split; auto; try lra. }
      destruct Hlohi as [Hlt [Hlo [Hhi Hcase]]].
      destruct xs as [|x l] eqn:Exs; [destruct Ha as [y [[] _]]|].
      assert (T : forall xx, In xx (consec (x :: l)) ->
                edir e * ind (spanb e (qmid (fst xx) (snd xx))) * piece_term e (fst xx) (snd xx) ==
                edir e * (HG (clamp lo hi (snd xx)) - HG (clamp lo hi (fst xx)))).
      { intros [x0 x1] Hin. cbn [fst snd].
        pose proof (consec_lt _ _ _ Hsorted Hin) as Hx.
        assert (Hm : x0 < qmid x0 x1 /\ qmid x0 x1 < x1).
        { rewrite qmid_eq. split; [apply Qlt_shift_div_l; lra | apply Qlt_shift_div_r; lra]. }
        destruct (consec_gap_upto _ _ _ _ Hsorted Hin Hlo) as [G1|G1];
          destruct (consec_gap_upto _ _ _ _ Hsorted Hin Hhi) as [G2|G2].
        - assert (S : spanb e (qmid x0 x1) = false).
          { apply not_true_is_false. intros K. apply spanb_iff in K.
            destruct Hcase as [[E1 [E2 _]]|[E1 [E2 _]]]; rewrite E1, E2 in *; lra. }
          rewrite (ind_false _ S).
          assert (C0 : clamp lo hi x0 == hi).
          { destruct (clamp_cases lo hi x0 (Qlt_le_weak _ _ Hlt)) as [[K ->]|[[K ->]|[K [K' ->]]]]; lra. }
          assert (C1 : clamp lo hi x1 == hi).
          { destruct (clamp_cases lo hi x1 (Qlt_le_weak _ _ Hlt)) as [[K ->]|[[K ->]|[K [K' ->]]]]; lra. }
          rewrite C0, C1. ring.
        - assert (S : spanb e (qmid x0 x1) = true).
          { apply spanb_iff. destruct Hcase as [[-> [-> _]]|[-> [-> _]]]; [left|right]; lra. }
          rewrite (ind_true _ S).
          assert (C0 : clamp lo hi x0 == x0).
          { destruct (clamp_cases lo hi x0 (Qlt_le_weak _ _ Hlt)) as [[K ->]|[[K ->]|[_ [_ ->]]]]; lra. }
          assert (C1 : clamp lo hi x1 == x1).
          { destruct (clamp_cases lo hi x1 (Qlt_le_weak _ _ Hlt)) as [[K ->]|[[K ->]|[_ [_ ->]]]]; lra. }
          rewrite C0, C1, HG_diff. ring.
        - exfalso. lra.
        - assert (S : spanb e (qmid x0 x1) = false).
          { apply not_true_is_false. intros K. apply spanb_iff in K.
            destruct Hcase as [[E1 [E2 _]]|[E1 [E2 _]]]; rewrite E1, E2 in *; lra. }
          rewrite (ind_false _ S).
          assert (C0 : clamp lo hi x0 == lo).
          { destruct (clamp_cases lo hi x0 (Qlt_le_weak _ _ Hlt)) as [[K ->]|[[K ->]|[K [_ ->]]]]; lra. }
          assert (C1 : clamp lo hi x1 == lo).
          { destruct (clamp_cases lo hi x1 (Qlt_le_weak _ _ Hlt)) as [[K ->]|[[K ->]|[K [_ ->]]]]; lra. }
          rewrite C0, C1. ring. }
      rewrite (qsum_map_ext _ _ (fun xx => edir e * (HG (clamp lo hi (snd xx)) - HG (clamp lo hi (fst xx)))))
        by (apply Forall_forall; exact T).
      rewrite qsum_map_scale_l.
      rewrite (consec_telescope (fun t => HG (clamp lo hi t)) x l).
      destruct (sorted_bounds x l lo Hsorted Hlo) as [B1 _], (sorted_bounds x l hi Hsorted Hhi) as [_ B2].
      assert (C0 : clamp lo hi x == lo).
      { destruct (clamp_cases lo hi x (Qlt_le_weak _ _ Hlt)) as [[K ->]|[[K ->]|[K [_ ->]]]]; lra. }
      assert (C1 : clamp lo hi (last l x) == hi).
      { destruct (clamp_cases lo hi (last l x) (Qlt_le_weak _ _ Hlt)) as [[K ->]|[[K ->]|[_ [K ->]]]]; lra. }
      rewrite C0, C1.
      destruct Hcase as [[-> [-> Ed]]|[-> [-> Ed]]]; rewrite Ed, HG_first, HG_second; ring.
    Qed.
  End EdgeSlabsG.

  (* (2) inside a slab of the arrangement *)
  Section MainG.
    Variables (L : list seg) (P : list pt) (ps : list pt).
    Hypothesis Hincl : incl (ring_edges ps) L.
    Hypothesis Hclosed : pts_closed ps = true.
    Let xs := events (vertex_set L P).
    Let es := ring_edges ps.

    Section OneSlabG.
      Variable xx : Q * Q.
      Hypothesis Hxx : In xx (consec xs).
      Let xm := qmid (fst xx) (snd xx).
      Let hs := slab_heights L xm.
      (* the value on the edge that has height y at the middle of the slab *)
      Definition gh (y : Q) : Q :=
        let h := hts_at L (fst xx) (snd xx) (qmid (fst xx) (snd xx)) y in G (fst xx) (snd xx) (fst h) (snd h).

      Lemma gh_edge : forall e ystar, In e L -> spanb e xm = true -> ystar == y_at e xm ->
        gh ystar == piece_term e (fst xx) (snd xx).
      Proof.
        intros e ystar He S E. unfold gh, piece_term. cbv zeta.
        destruct xx as [x0 x1]. cbn [fst snd] in *.
        destruct (hts_coherent L P x0 x1 Hxx e ystar He S E) as [H0 H1].
        rewrite H0, H1. reflexivity.
      Qed.

      Lemma edge_heights_G : forall e, In e L ->
        edir e * ind (spanb e xm) * piece_term e (fst xx) (snd xx) ==
        qsum (map (fun yy => (gh (snd yy) - gh (fst yy)) *
                             (ind (vcross (fst e) (snd e) (xm, qmid (fst yy) (snd yy))) * edir e)) (consec hs))
        + gh (hd 0 hs) * (edir e * ind (spanb e xm)).
      Proof.
        intros e He. destruct (xm_off_ends L P xx Hxx e He) as [Oa Ob]. fold xm in Oa, Ob.
        rewrite (qsum_map_ext_all _ _ (fun yy => (edir e * ind (spanb e xm)) *
                   ((gh (snd yy) - gh (fst yy)) * ind (qltb (qmid (fst yy) (snd yy)) (y_at e xm))))).
        2:{ intros yy. rewrite (vcross_spanb e xm _ Oa Ob). unfold ind.
            destruct (spanb e xm), (qltb (qmid (fst yy) (snd yy)) (y_at e xm)); cbn [andb]; ring. }
        rewrite qsum_map_scale_l.
        destruct (spanb e xm) eqn:S; [|unfold ind; ring].
        pose proof (span_height_in L xx e He S) as Hin. fold xm in Hin. fold hs in Hin.
        pose proof (hs_sorted L xx) as Hs. fold xm in Hs. fold hs in Hs.
        destruct Hin as [ystar [Hy E]].
        destruct hs as [|h l] eqn:Ehs; [destruct Hy|].
        rewrite <- (fun_gaps gh h l (y_at e xm) ystar Hs Hy E). cbn [hd].
        rewrite (gh_edge e ystar He S E). unfold ind. ring.
      Qed.

      Lemma slab_sum_G :
        qsum (map (fun e => edir e * ind (spanb e xm) * piece_term e (fst xx) (snd xx)) es) ==
        qsum (map (fun yy => (gh (snd yy) - gh (fst yy)) * inject_Z (zwind es (xm, qmid (fst yy) (snd yy)))) (consec hs)).
      Proof.
        unfold es.
        rewrite (qsum_map_ext _ _ (fun e =>
                   qsum (map (fun yy => (gh (snd yy) - gh (fst yy)) *
                                        (ind (vcross (fst e) (snd e) (xm, qmid (fst yy) (snd yy))) * edir e)) (consec hs))
                   + gh (hd 0 hs) * (edir e * ind (spanb e xm)))).
        2:{ apply Forall_forall. intros e He. apply edge_heights_G. apply Hincl. exact He. }
        rewrite qsum_map_plus, qsum_map_scale_l.
        rewrite (ring_balance ps xm Hclosed).
        2:{ intros e He. apply (xm_off_ends L P xx Hxx). apply Hincl. exact He. }
        rewrite qsum_swap. rewrite Qmult_0_r, Qplus_0_r.
        apply qsum_map_ext_all. intros yy. rewrite qsum_map_scale_l, zwind_sum. reflexivity.
      Qed.
    End OneSlabG.

    Lemma edge_slabs_all_G : forall e, In e L ->
      edge_term e == qsum (map (fun xx => edir e * ind (spanb e (qmid (fst xx) (snd xx))) *
                                          piece_term e (fst xx) (snd xx)) (consec xs)).
    Proof.
      intros e He. destruct (end_events L P e He) as [H1 H2].
      destruct (Qeq_dec (fst (fst e)) (fst (snd e))) as [E|NV].
      - rewrite (edge_term_vertical e E). symmetry. apply qsum_zero. intros xx _.
        assert (S : spanb e (qmid (fst xx) (snd xx)) = false).
        { apply not_true_is_false. intros K. apply spanb_iff in K. lra. }
        rewrite S. unfold ind. ring.
      - apply (edge_slabs_G e NV xs (xs_sorted L P) H1 H2).
    Qed.

    (* for every closed ring: the sum of the edge terms is the sum over the cells of the slab
       decomposition of (winding number at the witness) * (term of the cell) *)
    Theorem ring_functional_is_winding_sum :
      qsum (map edge_term es) ==
      cells_wsum (tproj cell_term (slab_tcells L xs)) (fun p => inject_Z (zwind es p)).
    Proof.
      rewrite tcells_wsum_slabs.
      rewrite (qsum_map_ext _ edge_term (fun e => qsum (map (fun xx => edir e * ind (spanb e (qmid (fst xx) (snd xx))) *
                                     piece_term e (fst xx) (snd xx)) (consec xs)))).
      2:{ apply Forall_forall. intros e He. apply edge_slabs_all_G. apply Hincl. exact He. }
      rewrite qsum_swap. apply qsum_map_ext. apply Forall_forall. intros xx Hxx.
      rewrite (slab_sum_G xx Hxx).
      apply qsum_map_ext_all. intros yy. unfold gap_tcell, cell_term, gh. cbn [snd tx0 tx1 tl0 tl1 tu0 tu1]. ring.
    Qed.
  End MainG.
End Functional.

(* ------------------------------------------------------------------------------------------ *)
(* Part 2: area, x-moment, y-moment as edge functionals; the fan sums of centroidOfRing        *)
(* ------------------------------------------------------------------------------------------ *)
(* integrals over [x0,x1] of h(x), x h(x), h(x)^2 / 2 for the affine h with h(x0) = a, h(x1) = b:
   the area, the integral of x and the integral of y over the region between the piece and the x axis *)
Definition Garea (x0 x1 a b : Q) : Q := (x1 - x0) * (a + b) / 2.
Definition Gmx (x0 x1 a b : Q) : Q := (x1 - x0) * (2 * x0 * a + x0 * b + x1 * a + 2 * x1 * b) / 6.
Definition Gmy (x0 x1 a b : Q) : Q := (x1 - x0) * (a * a + a * b + b * b) / 6.

#[global] Instance Garea_proper : Proper (Qeq ==> Qeq ==> Qeq ==> Qeq ==> Qeq) Garea.
Proof. intros x0 x0' E0 x1 x1' E1 a a' Ea b b' Eb. unfold Garea. rewrite E0, E1, Ea, Eb. reflexivity. Qed.
#[global] Instance Gmx_proper : Proper (Qeq ==> Qeq ==> Qeq ==> Qeq ==> Qeq) Gmx.
Proof. intros x0 x0' E0 x1 x1' E1 a a' Ea b b' Eb. unfold Gmx. rewrite E0, E1, Ea, Eb. reflexivity. Qed.
#[global] Instance Gmy_proper : Proper (Qeq ==> Qeq ==> Qeq ==> Qeq ==> Qeq) Gmy.
Proof. intros x0 x0' E0 x1 x1' E1 a a' Ea b b' Eb. unfold Gmy. rewrite E0, E1, Ea, Eb. reflexivity. Qed.

Lemma Garea_zero : forall x0 x1 a b, x0 == x1 -> Garea x0 x1 a b == 0.
Proof. intros x0 x1 a b E. unfold Garea. rewrite E. field. Qed.
Lemma Gmx_zero : forall x0 x1 a b, x0 == x1 -> Gmx x0 x1 a b == 0.
Proof. intros x0 x1 a b E. unfold Gmx. rewrite E. field. Qed.
Lemma Gmy_zero : forall x0 x1 a b, x0 == x1 -> Gmy x0 x1 a b == 0.
Proof. intros x0 x1 a b E. unfold Gmy. rewrite E. field. Qed.

Lemma Garea_add : forall e : seg, nonvertical e -> forall x0 x1 x2,
  Garea x0 x1 (y_at e x0) (y_at e x1) + Garea x1 x2 (y_at e x1) (y_at e x2) == Garea x0 x2 (y_at e x0) (y_at e x2).
Proof.
  intros [[xa ya] [xb yb]] NV x0 x1 x2. unfold nonvertical in NV. unfold Garea, y_at. cbn [fst snd] in *.
  field. intros K. apply NV. lra.
Qed.
Lemma Gmx_add : forall e : seg, nonvertical e -> forall x0 x1 x2,
  Gmx x0 x1 (y_at e x0) (y_at e x1) + Gmx x1 x2 (y_at e x1) (y_at e x2) == Gmx x0 x2 (y_at e x0) (y_at e x2).
Proof.
  intros [[xa ya] [xb yb]] NV x0 x1 x2. unfold nonvertical in NV. unfold Gmx, y_at. cbn [fst snd] in *.
  field. intros K. apply NV. lra.
Qed.
Lemma Gmy_add : forall e : seg, nonvertical e -> forall x0 x1 x2,
  Gmy x0 x1 (y_at e x0) (y_at e x1) + Gmy x1 x2 (y_at e x1) (y_at e x2) == Gmy x0 x2 (y_at e x0) (y_at e x2).
Proof.
  intros [[xa ya] [xb yb]] NV x0 x1 x2. unfold nonvertical in NV. unfold Gmy, y_at. cbn [fst snd] in *.
  field. intros K. apply NV. lra.
Qed.

(* the cell terms are the closed forms of Model/MeasureMoments.v *)
Lemma cell_term_area : forall c, cell_term Garea c == tz_area c.
Proof. intros [x0 x1 l0 l1 u0 u1]. unfold cell_term, Garea, tz_area. cbn [tx0 tx1 tl0 tl1 tu0 tu1]. field. Qed.
Lemma cell_term_mx : forall c, cell_term Gmx c == tz_mx c.
Proof. intros [x0 x1 l0 l1 u0 u1]. unfold cell_term, Gmx, tz_mx. cbn [tx0 tx1 tl0 tl1 tu0 tu1]. field. Qed.
Lemma cell_term_my : forall c, cell_term Gmy c == tz_my c.
Proof. intros [x0 x1 l0 l1 u0 u1]. unfold cell_term, Gmy, tz_my. cbn [tx0 tx1 tl0 tl1 tu0 tu1]. field. Qed.

Lemma cells_wsum_tproj_ext : forall (F F' : tcell -> Q) cells w, (forall c, F c == F' c) ->
  cells_wsum (tproj F cells) w == cells_wsum (tproj F' cells) w.
Proof.
  intros F F' cells w H. unfold cells_wsum, tproj. rewrite !map_map. apply qsum_map_ext_all.
  intros c. cbn [fst snd]. rewrite H. reflexivity.
Qed.

(* edge sums as sums over consecutive vertex pairs *)
Lemma edge_sum_pairsum : forall (T : seg -> Q) a r,
  qsum (map T (ring_edges (a :: r))) == pairsum (fun p q => T (p, q)) a r.
Proof.
  intros T a r. revert a. induction r as [|b r IH]; intros a; [reflexivity|].
  change (ring_edges (a :: b :: r)) with ((a, b) :: ring_edges (b :: r)). cbn [map pairsum].
  rewrite qsum_cons, IH. reflexivity.
Qed.

(* per-edge identities: the fan triangle (b,p,q) against the edge p -> q, up to a potential *)
Lemma fan_edge_area : forall b p q : xy,
  e_tri b p q == -2 * edge_term Garea (p, q)
                 + (fst q * snd q - e_cross b q) - (fst p * snd p - e_cross b p).
Proof. intros [xb yb] [xp yp] [xq yq]. unfold e_tri, tri_area2, edge_term, Garea, e_cross. cbn [fst snd]. field. Qed.
Lemma fan_edge_mx : forall b p q : xy,
  e_c6x b p q == -6 * edge_term Gmx (p, q)
                 + (2 * fst q * fst q * snd q - fst b * fst q * snd q + snd b * fst q * fst q - fst b * e_cross b q)
                 - (2 * fst p * fst p * snd p - fst b * fst p * snd p + snd b * fst p * fst p - fst b * e_cross b p).
Proof. intros [xb yb] [xp yp] [xq yq]. unfold e_c6x, tri_area2, edge_term, Gmx, e_cross. cbn [fst snd]. field. Qed.
Lemma fan_edge_my : forall b p q : xy,
  e_c6y b p q == -6 * edge_term Gmy (p, q)
                 + (fst q * snd q * snd q + snd b * snd q * fst q - fst b * snd q * snd q - snd b * e_cross b q)
                 - (fst p * snd p * snd p + snd b * snd p * fst p - fst b * snd p * snd p - snd b * e_cross b p).
Proof. intros [xb yb] [xp yp] [xq yq]. unfold e_c6y, tri_area2, edge_term, Gmy, e_cross. cbn [fst snd]. field. Qed.

(* the sums centroidOfRing accumulates, on a closed ring: -2 x, -6 x, -6 x the edge sums *)
Lemma fan_edge_sums : forall ps : list pt, pts_closed ps = true ->
  ring_fan2 ps == -2 * qsum (map (edge_term Garea) (ring_edges ps)) /\
  fst (ring_fan6 ps) == -6 * qsum (map (edge_term Gmx) (ring_edges ps)) /\
  snd (ring_fan6 ps) == -6 * qsum (map (edge_term Gmy) (ring_edges ps)).
Proof.
  intros [|b tl] Hc; [cbn; repeat split; reflexivity|].
  unfold ring_fan2, ring_fan6. destruct (fan_spec b tl) as [H1 [H2 H3]]. rewrite H1, H2, H3.
  rewrite !edge_sum_pairsum.
  destruct tl as [|p r]; [cbn; repeat split; reflexivity|].
  unfold pts_closed in Hc. rewrite last_cons_default in Hc. apply pt_eqb_iff in Hc. destruct Hc as [Hx Hy].
  cbn [psum pairsum].
  rewrite (pairsum_telescope (e_tri b) (fun p q => -2 * edge_term Garea (p, q))
             (fun q => fst q * snd q - e_cross b q)) by (intros; apply fan_edge_area).
  rewrite (pairsum_telescope (e_c6x b) (fun p q => -6 * edge_term Gmx (p, q))
             (fun q => 2 * fst q * fst q * snd q - fst b * fst q * snd q + snd b * fst q * fst q - fst b * e_cross b q))
    by (intros; apply fan_edge_mx).
  rewrite (pairsum_telescope (e_c6y b) (fun p q => -6 * edge_term Gmy (p, q))
             (fun q => fst q * snd q * snd q + snd b * snd q * fst q - fst b * snd q * snd q - snd b * e_cross b q))
    by (intros; apply fan_edge_my).
  rewrite !pairsum_scale. unfold e_cross. rewrite <- Hx, <- Hy.
  unfold edge_term, Garea, Gmx, Gmy. cbn [fst snd].
  set (S1 := pairsum _ p r). set (S2 := pairsum _ p r). set (S3 := pairsum _ p r).
  repeat split; field.
Qed.

(* THE RING THEOREM: for every closed ring (simple or not), in any arrangement (L, P) containing its
   edges, the numerators centroidOfRing accumulates are -2, -6, -6 times the sums over the cells of
   (winding number at the witness) * (area, integral of x, integral of y of the cell) *)
Theorem ring_moment_is_winding_moment_lemma : forall (L : list seg) (P : list pt) (ps : list pt),
  incl (ring_edges ps) L -> pts_closed ps = true ->
  let cells := moment_cells L P in
  let w := fun p => inject_Z (zwind (ring_edges ps) p) in
  ring_fan2 ps == -2 * cells_wsum (tproj tz_area cells) w /\
  fst (ring_fan6 ps) == -6 * cells_wsum (tproj tz_mx cells) w /\
  snd (ring_fan6 ps) == -6 * cells_wsum (tproj tz_my cells) w.
Proof.
  intros L P ps Hi Hc cells w. destruct (fan_edge_sums ps Hc) as [H1 [H2 H3]]. rewrite H1, H2, H3.
  rewrite (ring_functional_is_winding_sum Garea Garea_proper Garea_zero Garea_add L P ps Hi Hc).
  rewrite (ring_functional_is_winding_sum Gmx Gmx_proper Gmx_zero Gmx_add L P ps Hi Hc).
  rewrite (ring_functional_is_winding_sum Gmy Gmy_proper Gmy_zero Gmy_add L P ps Hi Hc).
  unfold cells, moment_cells, w.
  rewrite (cells_wsum_tproj_ext _ _ _ _ cell_term_area), (cells_wsum_tproj_ext _ _ _ _ cell_term_mx),
          (cells_wsum_tproj_ext _ _ _ _ cell_term_my).
  repeat split; reflexivity.
Qed.

(* ------------------------------------------------------------------------------------------ *)
(* the cells are those of SetOpSpec: same witnesses, same areas                                *)
(* ------------------------------------------------------------------------------------------ *)
Lemma y_at_mid : forall e x0 x1, nonvertical e -> y_at e x0 + y_at e x1 == 2 * y_at e (qmid x0 x1).
Proof.
  intros e x0 x1 NV. rewrite qmid_eq.
  assert (E : (x0 + x1) / 2 == (1 - (1 # 2)) * x0 + (1 # 2) * x1) by field.
  rewrite E, (y_at_affine e x0 x1 (1 # 2) NV). field.
Qed.

Lemma tcell_area_eq : forall L P xx yy, In xx (consec (events (vertex_set L P))) ->
  In yy (consec (slab_heights L (qmid (fst xx) (snd xx)))) ->
  tz_area (snd (gap_tcell L (fst xx) (snd xx) yy)) == (snd xx - fst xx) * (snd yy - fst yy).
Proof.
  intros L P [x0 x1] [y1 y2] Hxx Hyy. cbn [fst snd] in *.
  destruct (consec_in _ _ _ Hyy) as [In1 In2].
  destruct (height_has_edge L _ y1 In1) as [e1 [He1 [S1 E1]]].
  destruct (height_has_edge L _ y2 In2) as [e2 [He2 [S2 E2]]].
  destruct (hts_coherent L P x0 x1 Hxx e1 y1 He1 S1 E1) as [A0 A1].
  destruct (hts_coherent L P x0 x1 Hxx e2 y2 He2 S2 E2) as [B0 B1].
  unfold gap_tcell, tz_area. cbn [snd tx0 tx1 tl0 tl1 tu0 tu1 fst]. rewrite A0, A1, B0, B1.
  pose proof (y_at_mid e1 x0 x1 (spanb_nonvertical _ _ S1)) as M1.
  pose proof (y_at_mid e2 x0 x1 (spanb_nonvertical _ _ S2)) as M2.
  rewrite <- E1 in M1. rewrite <- E2 in M2.
  set (a0 := y_at e1 x0) in *. set (a1 := y_at e1 x1) in *. set (b0 := y_at e2 x0) in *. set (b1 := y_at e2 x1) in *.
  assert (K : (b0 - a0) + (b1 - a1) == 2 * (y2 - y1)) by lra.
  rewrite K. field.
Qed.

Lemma tcells_area_wsum : forall L P w,
  cells_wsum (tproj tz_area (moment_cells L P)) w == cells_wsum (slab_cells L (events (vertex_set L P))) w.
Proof.
  intros L P w. unfold moment_cells. rewrite tcells_wsum_slabs, cells_wsum_slabs.
  apply qsum_map_ext. apply Forall_forall. intros xx Hxx.
  apply qsum_map_ext. apply Forall_forall. intros yy Hyy.
  rewrite (tcell_area_eq L P xx yy Hxx Hyy). reflexivity.
Qed.

(* the area of a point set measured on the cells with shape is C01's slab functional *)
Lemma set_area_is_area_of : forall L P f, set_area L P f == area_of L P f.
Proof. intros L P f. unfold set_area, area_of. rewrite !cells_area_wsum. apply tcells_area_wsum. Qed.

Lemma in_moment_cells_witness : forall F L P c, In c (tproj F (moment_cells L P)) ->
  exists c', In c' (slab_cells L (events (vertex_set L P))) /\ fst c' = fst c.
Proof. intros F L P c H. apply (in_tproj_witness F L _ c H). Qed.

(* ------------------------------------------------------------------------------------------ *)
(* Part 3: rings whose winding number is 0 / sigma at the witnesses                            *)
(* ------------------------------------------------------------------------------------------ *)
Lemma winding_simple_wsum : forall F L P es sigma, (sigma = 1 \/ sigma = -1)%Z ->
  winding_simple sigma es (slab_cells L (events (vertex_set L P))) = true ->
  cells_wsum (tproj F (moment_cells L P)) (fun p => inject_Z (zwind es p)) ==
  inject_Z sigma * cells_area (tproj F (moment_cells L P)) (vparity es).
Proof.
  intros F L P es sigma Hs Hw. rewrite cells_area_wsum, <- cells_wsum_scale. apply cells_wsum_ext_in.
  intros c Hin. destruct (in_moment_cells_witness F L P c Hin) as [c' [Hc' <-]].
  apply (winding_simple_parity sigma _ _ Hs Hw c' Hc').
Qed.

Lemma centroid_ring_fan : forall ps : list xy,
  xy_eq (centroid_of_ring_xy ps)
        (fst (ring_fan6 ps) * (1 / 3 / ring_fan2 ps), snd (ring_fan6 ps) * (1 / 3 / ring_fan2 ps)).
Proof.
  intros [|b tl]; unfold xy_eq, centroid_of_ring_xy, ring_fan6, ring_fan2; cbn [fst snd xy0].
  - split; ring.
  - destruct (fan b tl) as [a2 c6]. unfold xy_scale. cbn [fst snd]. split; reflexivity.
Qed.

Lemma Qinv_0 : / 0 == 0. Proof. reflexivity. Qed.

Lemma moment_quotient : forall (sigma : Z) X A, (sigma = 1 \/ sigma = -1)%Z ->
  (-6 * (inject_Z sigma * X)) * (1 / 3 / (-2 * (inject_Z sigma * A))) == X / A.
Proof.
  intros sigma X A Hs. destruct (Qeq_dec A 0) as [E|N].
  - assert (Z : -2 * (inject_Z sigma * A) == 0) by (rewrite E; ring).
    rewrite Z, E. unfold Qdiv. rewrite Qinv_0. ring.
  - destruct Hs as [-> | ->].
    + change (inject_Z 1) with 1. field. exact N.
    + change (inject_Z (-1)) with (-1). field. exact N.
Qed.

(* per ring: the centroid of the ring is (integral of x, integral of y) / area of the set of points
   of odd crossing parity *)
Lemma ring_centroid_is_parity_centroid : forall (L : list seg) (P : list pt) (ps : list pt) (sigma : Z),
  incl (ring_edges ps) L -> pts_closed ps = true -> (sigma = 1 \/ sigma = -1)%Z ->
  winding_simple sigma (ring_edges ps) (slab_cells L (events (vertex_set L P))) = true ->
  xy_eq (centroid_of_ring_xy ps) (set_centroid L P (vparity (ring_edges ps))).
Proof.
  intros L P ps sigma Hi Hc Hs Hw.
  destruct (ring_moment_is_winding_moment_lemma L P ps Hi Hc) as [H1 [H2 H3]]. cbv zeta in H1, H2, H3.
  rewrite (winding_simple_wsum tz_area L P _ sigma Hs Hw) in H1.
  rewrite (winding_simple_wsum tz_mx L P _ sigma Hs Hw) in H2.
  rewrite (winding_simple_wsum tz_my L P _ sigma Hs Hw) in H3.
  destruct (centroid_ring_fan ps) as [C1 C2]. unfold xy_eq, set_centroid, set_mx, set_my, set_area. cbn [fst snd] in *.
  rewrite C1, C2, H1, H2, H3. split; apply moment_quotient; exact Hs.
Qed.

Lemma cells_area_ext_witness : forall F L P f g,
  (forall c, In c (slab_cells L (events (vertex_set L P))) -> f (fst c) = g (fst c)) ->
  cells_area (tproj F (moment_cells L P)) f == cells_area (tproj F (moment_cells L P)) g.
Proof.
  intros F L P f g H. apply cells_area_ext_in'. intros c Hin.
  destruct (in_moment_cells_witness F L P c Hin) as [c' [Hc' <-]]. apply H. exact Hc'.
Qed.

Lemma set_centroid_ext : forall L P f g,
  (forall c, In c (slab_cells L (events (vertex_set L P))) -> f (fst c) = g (fst c)) ->
  xy_eq (set_centroid L P f) (set_centroid L P g).
Proof.
  intros L P f g H. unfold xy_eq, set_centroid, set_mx, set_my, set_area. cbn [fst snd].
  rewrite (cells_area_ext_witness tz_mx L P f g H), (cells_area_ext_witness tz_my L P f g H),
          (cells_area_ext_witness tz_area L P f g H). split; reflexivity.
Qed.

(* single ring: centroidOfRing = centre of mass of the point set of the polygon bounded by the ring *)
Theorem centroid_is_slab_centroid_lemma : forall (L : list seg) (P : list pt) ct (l : lineT Q) (sigma : Z),
  incl (line_segs l) L -> pts_closed (line_pts l) = true -> (sigma = 1 \/ sigma = -1)%Z ->
  winding_simple sigma (ring_edges (line_pts l)) (slab_cells L (events (vertex_set L P))) = true ->
  xy_eq (centroid_of_ring l) (set_centroid L P (inG (GPoly (MkPoly ct [l])))).
Proof.
  intros L P ct l sigma Hi Hc Hs Hw.
  assert (Hi' : incl (ring_edges (line_pts l)) L) by (intros e He; apply Hi, ring_edges_incl_segs, He).
  eapply xy_eq_trans; [apply (ring_centroid_is_parity_centroid L P (line_pts l) sigma Hi' Hc Hs Hw)|].
  apply set_centroid_ext. intros c Hin.
  rewrite (inG_poly_cell L P ct [l] c); [cbn [forallb]; rewrite andb_true_r; reflexivity| |exact Hin].
  intros r [<-|[]]. split; assumption.
Qed.

(* ------------------------------------------------------------------------------------------ *)
(* polygons with holes                                                                         *)
(* ------------------------------------------------------------------------------------------ *)
Lemma Qabs_eq_0 : forall a, Qabs a == 0 -> a == 0.
Proof.
  intros a H. pose proof (Qle_Qabs a). pose proof (Qle_Qabs (- a)). rewrite Qabs_opp in *. lra.
Qed.

Theorem centroid_is_slab_centroid_holes_lemma :
  forall (L : list seg) (P : list pt) ct (sh : lineT Q) (hs : list (lineT Q)),
  let cells := slab_cells L (events (vertex_set L P)) in
  (forall r, In r (sh :: hs) ->
     incl (line_segs r) L /\ pts_closed (line_pts r) = true /\
     (exists sigma, (sigma = 1 \/ sigma = -1)%Z /\ winding_simple sigma (ring_edges (line_pts r)) cells = true) /\
     ~ ring_area_xy (line_pts r) == 0) ->
  nesting_ok sh hs cells = true ->
  exists c, poly_centroid (MkPoly ct (sh :: hs)) = Some c /\
            xy_eq c (set_centroid L P (inG (GPoly (MkPoly ct (sh :: hs))))).
Proof.
  intros L P ct sh hs cells Hr Hn.
  set (mc := moment_cells L P).
  (* per ring: |area| * centroid = first moments of the parity set *)
  assert (RM : forall r, In r (sh :: hs) ->
            Qabs (ring_area None r) * fst (centroid_of_ring r) == cells_wsum (tproj tz_mx mc) (fun p => ind (rpar r p)) /\
            Qabs (ring_area None r) * snd (centroid_of_ring r) == cells_wsum (tproj tz_my mc) (fun p => ind (rpar r p))).
  { intros r Hin. destruct (Hr r Hin) as [Hi [Hc [[sigma [Hs Hw]] Hnz]]].
    assert (Hi' : incl (ring_edges (line_pts r)) L) by (intros e He; apply Hi, ring_edges_incl_segs, He).
    destruct (ring_centroid_is_parity_centroid L P (line_pts r) sigma Hi' Hc Hs Hw) as [C1 C2].
    destruct (ring_area_is_parity_area L P (line_pts r) sigma Hi Hc Hs Hw) as [EA _].
    rewrite <- set_area_is_area_of in EA.
    rewrite ring_area_none. unfold centroid_of_ring. change (line_xys r) with (line_pts r).
    unfold set_centroid in C1, C2. cbn [fst snd] in C1, C2. rewrite C1, C2, EA.
    assert (NZ : ~ set_area L P (vparity (ring_edges (line_pts r))) == 0).
    { rewrite <- EA. intros K. apply Hnz. apply Qabs_eq_0. exact K. }
    unfold set_mx, set_my. fold mc. rewrite <- !cells_area_wsum. unfold rpar.
    change (fun p : pt => vparity (ring_edges (line_pts r)) p) with (vparity (ring_edges (line_pts r))).
    split; field; exact NZ. }
  destruct (poly_centroid_spec ct sh hs) as [c [Hc [Hx [Hy HS]]]]. cbv zeta in Hx, Hy, HS.
  exists c. split; [exact Hc|].
  (* membership at the witnesses *)
  assert (IND : forall F, cells_area (tproj F mc) (inG (GPoly (MkPoly ct (sh :: hs)))) ==
                          cells_wsum (tproj F mc) (fun p => ind (rpar sh p)) -
                          qsum (map (fun h => cells_wsum (tproj F mc) (fun p => ind (rpar h p))) hs)).
  { intros F. rewrite cells_area_wsum.
    rewrite <- (cells_wsum_minus_sum _ (tproj F mc) (fun p => ind (rpar sh p)) (fun h p => ind (rpar h p)) hs).
    apply cells_wsum_ext_in. intros c0 Hin.
    destruct (in_moment_cells_witness F L P c0 Hin) as [c' [Hc' <-]].
    rewrite (inG_poly_cell L P ct (sh :: hs) c'); [| |exact Hc'].
    - unfold nesting_ok in Hn. rewrite forallb_forall in Hn. apply (nesting_indicator sh hs c' (Hn c' Hc')).
    - intros r Hin'. destruct (Hr r Hin') as [Hi [Hcl _]]. split; assumption. }
  (* the divisor *)
  assert (DEN : ring_w true sh + qsum (map (ring_w false) hs) == set_area L P (inG (GPoly (MkPoly ct (sh :: hs))))).
  { rewrite <- HS, set_area_is_area_of. apply shoelace_is_slab_area_holes_lemma; [|exact Hn].
    intros r Hin. destruct (Hr r Hin) as [Hi [Hcl [Hsw _]]]. repeat split; assumption. }
  unfold xy_eq, set_centroid. cbn [fst snd]. rewrite Hx, Hy, DEN.
  unfold set_mx, set_my. fold mc. rewrite (IND tz_mx), (IND tz_my).
  destruct (RM sh (or_introl eq_refl)) as [Sx Sy]. unfold ring_w at 1 3. rewrite Sx, Sy.
  rewrite (qsum_map_ext _ (fun h => ring_w false h * fst (centroid_of_ring h))
             (fun h => - cells_wsum (tproj tz_mx mc) (fun p => ind (rpar h p)))).
  2:{ apply Forall_forall. intros h Hh. destruct (RM h (or_intror Hh)) as [Tx _]. unfold ring_w. rewrite <- Tx. ring. }
  rewrite (qsum_map_ext _ (fun h => ring_w false h * snd (centroid_of_ring h))
             (fun h => - cells_wsum (tproj tz_my mc) (fun p => ind (rpar h p)))).
  2:{ apply Forall_forall. intros h Hh. destruct (RM h (or_intror Hh)) as [_ Ty]. unfold ring_w. rewrite <- Ty. ring. }
  rewrite !qsum_map_opp. split; reflexivity.
Qed.

(* ------------------------------------------------------------------------------------------ *)
(* executable form of the hypotheses, for one polygon in the arrangement of its own rings      *)
(* ------------------------------------------------------------------------------------------ *)
Theorem slab_hypotheses_centroid : forall ct (rings : list (lineT Q)),
  slab_hypotheses (MkPoly ct rings) = true -> rings_nonzero (MkPoly ct rings) = true ->
  match rings with
  | [] => poly_centroid (MkPoly ct rings) = None
  | _ => exists c, poly_centroid (MkPoly ct rings) = Some c /\ xy_eq c (slab_centroid (MkPoly ct rings))
  end.
Proof.
  intros ct [|sh hs] H Hz; [reflexivity|].
  unfold slab_hypotheses in H. cbn [poly_rings] in H. apply andb_true_iff in H. destruct H as [H1 H2].
  unfold rings_nonzero in Hz. cbn [poly_rings] in Hz. rewrite forallb_forall in Hz.
  unfold slab_centroid.
  apply (centroid_is_slab_centroid_holes_lemma (mpoly_segs (MkPoly ct (sh :: hs))) [] ct sh hs); [|exact H2].
  intros r Hin. rewrite forallb_forall in H1. specialize (H1 r Hin). unfold ring_sigma_ok in H1.
  apply andb_true_iff in H1. destruct H1 as [Hc Hw]. split; [|split; [exact Hc|split]].
  - unfold mpoly_segs. cbn [poly_rings]. intros e He. apply in_flat_map. exists r. split; assumption.
  - apply orb_true_iff in Hw. destruct Hw as [Hw|Hw]; [exists 1%Z|exists (-1)%Z]; split; auto.
  - specialize (Hz r Hin). apply negb_true_iff in Hz. apply Qeq_bool_false_iff in Hz. exact Hz.
Qed.

(* the one-pass evaluation used by the correspondence run *)
Lemma set_moments_spec : forall cells f,
  fst (fst (set_moments cells f)) == cells_area (tproj tz_area cells) f /\
  snd (fst (set_moments cells f)) == cells_area (tproj tz_mx cells) f /\
  snd (set_moments cells f) == cells_area (tproj tz_my cells) f.
Proof.
  intros cells f. induction cells as [|c r IH]; [cbn; repeat split; reflexivity|].
  unfold tproj, cells_area in *. cbn [set_moments fold_right map fst snd] in *.
  fold (set_moments r f). destruct (set_moments r f) as [[a mx] my]. cbn [fst snd] in IH.
  destruct IH as [I1 [I2 I3]]. destruct (f (fst c)); cbn [fst snd].
  - rewrite !Qred_correct, I1, I2, I3. repeat split; reflexivity.
  - rewrite I1, I2, I3. repeat split; ring.
Qed.

Lemma poly_moments_spec : forall y,
  let L := mpoly_segs y in
  fst (fst (poly_moments y)) == set_area L [] (inG (GPoly y)) /\
  snd (fst (poly_moments y)) == set_mx L [] (inG (GPoly y)) /\
  snd (poly_moments y) == set_my L [] (inG (GPoly y)).
Proof. intros y L. apply set_moments_spec. Qed.

(* ------------------------------------------------------------------------------------------ *)
(* multipolygons: members in one common arrangement, pointwise disjoint at the witnesses        *)
(* ------------------------------------------------------------------------------------------ *)
Lemma cells_area_false : forall cells f, (forall c, In c cells -> f (fst c) = false) -> cells_area cells f == 0.
Proof.
  intros cells f H. unfold cells_area. induction cells as [|c r IH]; cbn [fold_right]; [reflexivity|].
  rewrite (H c (or_introl eq_refl)), IH; [ring|]. intros c' Hc'. apply H. right. exact Hc'.
Qed.

Lemma cells_wsum_sum : forall (A : Type) cells (ws : A -> pt -> Q) (hs : list A),
  cells_wsum cells (fun p => qsum (map (fun h => ws h p) hs)) == qsum (map (fun h => cells_wsum cells (ws h)) hs).
Proof.
  intros A cells ws hs.
  pose proof (cells_wsum_minus_sum A cells (fun _ => 0) ws hs) as H.
  assert (Z : cells_wsum cells (fun _ => 0) == 0).
  { unfold cells_wsum. apply qsum_zero. intros; ring. }
  rewrite Z in H.
  rewrite (cells_wsum_ext_in cells _ (fun p => -1 * (0 - qsum (map (fun h => ws h p) hs)))) by (intros; ring).
  rewrite cells_wsum_scale, H. ring.
Qed.

Lemma existsb_ind_filter : forall (A : Type) (f : A -> bool) l, (length (filter f l) <=? 1)%nat = true ->
  ind (existsb f l) == qsum (map (fun x => ind (f x)) l).
Proof.
  intros A f l H. rewrite qsum_ind_filter.
  assert (E : existsb f l = negb (length (filter f l) =? 0)%nat).
  { clear H. induction l as [|x l IH]; [reflexivity|]. cbn [existsb filter]. destruct (f x); cbn [orb length Nat.eqb negb]; [reflexivity|exact IH]. }
  rewrite E. destruct (length (filter f l)) as [|[|k]]; cbn in *; try reflexivity. discriminate.
Qed.

(* what the theorem asks of a member: empty, or the hypotheses of the polygon theorem and non-zero area *)
Definition member_ok (L : list seg) (P : list pt) (y : polyT Q) : Prop :=
  let cells := slab_cells L (events (vertex_set L P)) in
  match poly_rings y with
  | [] => True
  | sh :: hs =>
      (forall r, In r (sh :: hs) ->
         incl (line_segs r) L /\ pts_closed (line_pts r) = true /\
         (exists sigma, (sigma = 1 \/ sigma = -1)%Z /\ winding_simple sigma (ring_edges (line_pts r)) cells = true) /\
         ~ ring_area_xy (line_pts r) == 0) /\
      nesting_ok sh hs cells = true /\
      ~ poly_area false None y == 0
  end.

Lemma member_moments : forall L P y, member_ok L P y ->
  poly_area false None y == set_area L P (inG (GPoly y)) /\
  poly_area false None y * ocx (poly_centroid y) == set_mx L P (inG (GPoly y)) /\
  poly_area false None y * ocy (poly_centroid y) == set_my L P (inG (GPoly y)).
Proof.
  intros L P [ct [|sh hs]] H; unfold member_ok in H; cbn [poly_rings] in H.
  - assert (Z : forall F, cells_area (tproj F (moment_cells L P)) (inG (GPoly (MkPoly ct []))) == 0).
    { intros F. apply cells_area_false. intros c _. reflexivity. }
    unfold set_area, set_mx, set_my. rewrite !Z. cbn [poly_area poly_rings poly_centroid ocx ocy].
    repeat split; ring.
  - destruct H as [Hr [Hn Hnz]].
    destruct (centroid_is_slab_centroid_holes_lemma L P ct sh hs Hr Hn) as [c [Hc [Cx Cy]]].
    assert (EA : poly_area false None (MkPoly ct (sh :: hs)) == set_area L P (inG (GPoly (MkPoly ct (sh :: hs))))).
    { rewrite set_area_is_area_of. apply shoelace_is_slab_area_holes_lemma; [|exact Hn].
      intros r Hin. destruct (Hr r Hin) as [Hi [Hcl [Hsw _]]]. repeat split; assumption. }
    split; [exact EA|]. rewrite Hc. cbn [ocx ocy]. unfold set_centroid in Cx, Cy. cbn [fst snd] in Cx, Cy.
    rewrite Cx, Cy, EA. rewrite EA in Hnz.
    set (A := set_area L P (inG (GPoly (MkPoly ct (sh :: hs))))) in *.
    split; field; exact Hnz.
Qed.

Theorem mpoly_centroid_is_slab_centroid_lemma : forall (L : list seg) (P : list pt) ct (ps : list (polyT Q)),
  (forall y, In y ps -> member_ok L P y) ->
  members_disjoint ps (map fst (slab_cells L (events (vertex_set L P)))) = true ->
  forallb (@poly_empty Q) ps = false ->
  exists c, mpoly_centroid ps = Some c /\ xy_eq c (set_centroid L P (inG (GMPoly ct ps))).
Proof.
  intros L P ct ps Hm Hd He.
  destruct (mpoly_centroid_spec ps He) as [c [Hc [Hx Hy]]]. cbv zeta in Hx, Hy.
  exists c. split; [exact Hc|].
  set (mc := moment_cells L P).
  assert (SUM : forall F, cells_area (tproj F mc) (inG (GMPoly ct ps)) ==
                          qsum (map (fun y => cells_area (tproj F mc) (inG (GPoly y))) ps)).
  { intros F. rewrite cells_area_wsum.
    rewrite (qsum_map_ext_all _ _ (fun y => cells_wsum (tproj F mc) (fun p => ind (inG (GPoly y) p))))
      by (intros; apply cells_area_wsum).
    rewrite <- (cells_wsum_sum _ (tproj F mc) (fun y p => ind (inG (GPoly y) p)) ps).
    apply cells_wsum_ext_in. intros c0 Hin.
    destruct (in_moment_cells_witness F L P c0 Hin) as [c' [Hc' <-]].
    unfold members_disjoint in Hd. rewrite forallb_forall in Hd.
    specialize (Hd (fst c') (in_map fst _ _ Hc')).
    cbn [inG]. apply (existsb_ind_filter _ (fun y => inG (GPoly y) (fst c')) ps Hd). }
  unfold xy_eq, set_centroid, set_mx, set_my, set_area. fold mc. cbn [fst snd].
  rewrite Hx, Hy, (SUM tz_area), (SUM tz_mx), (SUM tz_my).
  rewrite (qsum_map_ext _ (poly_area false None) (fun y => cells_area (tproj tz_area mc) (inG (GPoly y)))).
  2:{ apply Forall_forall. intros y Hin. destruct (member_moments L P y (Hm y Hin)) as [E _]. exact E. }
  rewrite (qsum_map_ext _ (fun p => poly_area false None p * ocx (poly_centroid p)) (fun y => cells_area (tproj tz_mx mc) (inG (GPoly y)))).
  2:{ apply Forall_forall. intros y Hin. destruct (member_moments L P y (Hm y Hin)) as [_ [E _]]. exact E. }
  rewrite (qsum_map_ext _ (fun p => poly_area false None p * ocy (poly_centroid p)) (fun y => cells_area (tproj tz_my mc) (inG (GPoly y)))).
  2:{ apply Forall_forall. intros y Hin. destruct (member_moments L P y (Hm y Hin)) as [_ [_ E]]. exact E. }
  split; reflexivity.
Qed.

(* executable form for a multipolygon in the arrangement of all its rings (next to
   Measure_slab.slab_hypotheses, whose vocabulary it uses) *)
Definition mp_cells (ps : list (polyT Q)) : list (pt * Q) :=
  slab_cells (mp_segs ps) (events (vertex_set (mp_segs ps) [])).
Definition member_ok_b (cells : list (pt * Q)) (y : polyT Q) : bool :=
  match poly_rings y with
  | [] => true
  | sh :: hs => forallb (ring_sigma_ok cells) (sh :: hs) && nesting_ok sh hs cells && rings_nonzero y
                && negb (Qeq_bool (poly_area false None y) 0)
  end.
Definition mpoly_hypotheses (ps : list (polyT Q)) : bool :=
  forallb (member_ok_b (mp_cells ps)) ps && members_disjoint ps (map fst (mp_cells ps)).
Definition mslab_centroid (ps : list (polyT Q)) : xy := set_centroid (mp_segs ps) [] (inG (GMPoly XY ps)).

Theorem mpoly_hypotheses_centroid : forall ps : list (polyT Q),
  mpoly_hypotheses ps = true -> forallb (@poly_empty Q) ps = false ->
  exists c, mpoly_centroid ps = Some c /\ xy_eq c (mslab_centroid ps).
Proof.
  intros ps H He. unfold mpoly_hypotheses in H. apply andb_true_iff in H. destruct H as [H1 H2].
  unfold mslab_centroid. apply mpoly_centroid_is_slab_centroid_lemma; [|exact H2|exact He].
  intros y Hy. rewrite forallb_forall in H1. specialize (H1 y Hy).
  unfold member_ok_b in H1. unfold member_ok. fold (mp_cells ps).
  destruct y as [ct [|sh hs]]; cbn [poly_rings] in *; [exact I|].
  apply andb_true_iff in H1. destruct H1 as [H1 Ha]. apply andb_true_iff in H1. destruct H1 as [H1 Hz].
  apply andb_true_iff in H1. destruct H1 as [Hs Hn].
  split; [|split; [exact Hn|]].
  - intros r Hin. rewrite forallb_forall in Hs. specialize (Hs r Hin). unfold ring_sigma_ok in Hs.
    apply andb_true_iff in Hs. destruct Hs as [Hc Hw]. split; [|split; [exact Hc|split]].
    + unfold mp_segs, mpoly_segs. intros e Hin'. apply in_flat_map. exists (MkPoly ct (sh :: hs)). split; [exact Hy|].
      apply in_flat_map. exists r. split; assumption.
    + apply orb_true_iff in Hw. destruct Hw as [Hw|Hw]; [exists 1%Z|exists (-1)%Z]; split; auto.
    + unfold rings_nonzero in Hz. cbn [poly_rings] in Hz. rewrite forallb_forall in Hz. specialize (Hz r Hin).
      apply negb_true_iff in Hz. apply Qeq_bool_false_iff in Hz. exact Hz.
  - apply negb_true_iff in Ha. apply Qeq_bool_false_iff in Ha. exact Ha.
Qed.

Lemma mpoly_moments_spec : forall ps,
  let '(a, mx, my) := mpoly_moments ps in xy_eq (mx / a, my / a) (mslab_centroid ps).
Proof.
  intros ps. unfold mpoly_moments, mslab_centroid, set_centroid, set_mx, set_my, set_area.
  destruct (set_moments_spec (moment_cells (mp_segs ps) []) (inG (GMPoly XY ps))) as [H1 [H2 H3]].
  destruct (set_moments _ _) as [[a mx] my]. cbn [fst snd] in *. unfold xy_eq. cbn [fst snd].
  rewrite H1, H2, H3. split; reflexivity.
Qed.
