(* Property C14 - lemmas about the measure model (Model/Measure.v). *)
From Coq Require Import QArith Qabs ZArith List Bool Lia Lqa Setoid Morphisms Permutation.
From SF Require Import Base.GeomAST Model.Measure.
Import ListNotations.
Open Scope Q_scope.

(* ------------------------------------------------------------------------------------------ *)
(* Sums over consecutive pairs                                                                 *)
(* ------------------------------------------------------------------------------------------ *)

(* sum of e over the consecutive pairs of p0 :: l *)
Fixpoint pairsum (e : xy -> xy -> Q) (p0 : xy) (l : list xy) : Q :=
  match l with
  | [] => 0
  | p :: r => e p0 p + pairsum e p r
  end.
Definition psum (e : xy -> xy -> Q) (L : list xy) : Q :=
  match L with [] => 0 | p :: r => pairsum e p r end.
(* cyclic sum over the closed ring of the cycle l *)
Definition cyc (e : xy -> xy -> Q) (l : list xy) : Q := psum e (close l).

Lemma last_cons_default : forall (A : Type) (l : list A) (a d : A), last (a :: l) d = last l a.
Proof.
  induction l as [|b l IH]; intros a d; [reflexivity|].
  change (last (a :: b :: l) d) with (last (b :: l) d).
  rewrite (IH b d), (IH b a). reflexivity.
Qed.

Lemma pairsum_app : forall e a b p0,
  pairsum e p0 (a ++ b) == pairsum e p0 a + pairsum e (last a p0) b.
Proof.
  intros e a; induction a as [|x a IH]; intros b p0; cbn [pairsum app].
  - cbn [last]. ring.
  - rewrite IH. rewrite last_cons_default. ring.
Qed.

(* telescoping: two edge functions that differ by a potential difference *)
Lemma pairsum_telescope : forall (e1 e2 : xy -> xy -> Q) (H : xy -> Q),
  (forall p q, e1 p q == e2 p q + H q - H p) ->
  forall l p0, pairsum e1 p0 l == pairsum e2 p0 l + H (last l p0) - H p0.
Proof.
  intros e1 e2 H He l; induction l as [|p r IH]; intros p0.
  - simpl. ring.
  - cbn [pairsum]. rewrite last_cons_default, IH, He. ring.
Qed.

Lemma pairsum_ext : forall (e1 e2 : xy -> xy -> Q), (forall p q, e1 p q == e2 p q) ->
  forall l p0, pairsum e1 p0 l == pairsum e2 p0 l.
Proof.
  intros e1 e2 He l; induction l as [|p r IH]; intros p0; simpl; [reflexivity|].
  rewrite IH, He. reflexivity.
Qed.

Lemma pairsum_map : forall (e : xy -> xy -> Q) (f : xy -> xy) l p0,
  pairsum e (f p0) (map f l) = pairsum (fun a b => e (f a) (f b)) p0 l.
Proof.
  intros e f l; induction l as [|p r IH]; intros p0; simpl; [reflexivity|].
  rewrite IH. reflexivity.
Qed.

Lemma pairsum_scale : forall (e : xy -> xy -> Q) (c : Q) l p0,
  pairsum (fun a b => c * e a b) p0 l == c * pairsum e p0 l.
Proof.
  intros e c l; induction l as [|p r IH]; intros p0; simpl; [ring|].
  rewrite IH. ring.
Qed.

Lemma pairsum_plus : forall (e1 e2 : xy -> xy -> Q) l p0,
  pairsum (fun a b => e1 a b + e2 a b) p0 l == pairsum e1 p0 l + pairsum e2 p0 l.
Proof.
  intros e1 e2 l; induction l as [|p r IH]; intros p0; simpl; [ring|].
  rewrite IH. ring.
Qed.

Lemma psum_snoc : forall e L x,
  psum e (L ++ [x]) == psum e L + match L with [] => 0 | y :: _ => e (last L y) x end.
Proof.
  intros e L x. destruct L as [|y L]; cbn [psum app pairsum]; [ring|].
  rewrite pairsum_app. cbn [pairsum]. rewrite last_cons_default. ring.
Qed.

Lemma last_snoc : forall (A : Type) (l : list A) (x d : A), last (l ++ [x]) d = x.
Proof. intros. apply last_last. Qed.

(* reversal of the vertex list negates the sum of an antisymmetric edge function *)
Lemma psum_rev : forall e, (forall a b, e a b == - e b a) ->
  forall L, psum e (rev L) == - psum e L.
Proof.
  intros e He L; induction L as [|p r IH]; [simpl; ring|].
  cbn [rev]. rewrite psum_snoc, IH.
  destruct r as [|q r']; [cbn; ring|].
  cbn [rev]. destruct (rev r' ++ [q]) eqn:E.
  - destruct (rev r'); discriminate.
  - rewrite <- E, last_snoc. cbn [psum pairsum]. rewrite (He q p). ring.
Qed.

(* the cyclic sum does not depend on where the cycle is cut *)
Lemma cyc_app_comm : forall e a b, cyc e (a ++ b) == cyc e (b ++ a).
Proof.
  intros e a b. unfold cyc.
  destruct a as [|a0 a']; [rewrite app_nil_r; reflexivity|].
  destruct b as [|b0 b']; [rewrite app_nil_r; reflexivity|].
  cbn [close app psum].
  rewrite <- !app_assoc. cbn [app].
  rewrite (pairsum_app e a' (b0 :: b' ++ [a0]) a0).
  rewrite (pairsum_app e b' (a0 :: a' ++ [b0]) b0).
  cbn [pairsum].
  rewrite (pairsum_app e b' [a0]), (pairsum_app e a' [b0]). cbn [pairsum]. ring.
Qed.

Lemma cyc_rot : forall e k l, cyc e (rot k l) == cyc e l.
Proof.
  intros e k l. unfold rot. rewrite cyc_app_comm, firstn_skipn. reflexivity.
Qed.

Lemma psum_rev_flip : forall e L, psum e (rev L) == psum (fun a b => e b a) L.
Proof.
  intros e L; induction L as [|p r IH]; [cbn; ring|].
  cbn [rev]. rewrite psum_snoc, IH.
  destruct r as [|q r']; [cbn; ring|].
  cbn [rev]. destruct (rev r' ++ [q]) eqn:E.
  - destruct (rev r'); discriminate.
  - rewrite <- E, last_snoc. cbn [psum pairsum]. ring.
Qed.

Lemma psum_ext : forall e1 e2, (forall p q, e1 p q == e2 p q) -> forall L, psum e1 L == psum e2 L.
Proof. intros e1 e2 He [|p r]; cbn [psum]; [reflexivity|]. apply pairsum_ext, He. Qed.

Lemma psum_rev_sym : forall e, (forall a b, e a b == e b a) -> forall L, psum e (rev L) == psum e L.
Proof. intros e He L. rewrite psum_rev_flip. apply psum_ext. intros; symmetry; apply He. Qed.

(* ------------------------------------------------------------------------------------------ *)
(* Ring area                                                                                   *)
(* ------------------------------------------------------------------------------------------ *)
Definition e_shoe (a b : xy) : Q := (fst b + fst a) * (snd b - snd a).
Definition e_cross (a b : xy) : Q := fst a * snd b - fst b * snd a.

Lemma shoelace_loop_pairsum : forall l s p, shoelace_loop s p l == s + pairsum e_shoe p l.
Proof.
  induction l as [|q r IH]; intros s p; cbn [shoelace_loop pairsum]; [ring|].
  rewrite IH. unfold e_shoe. ring.
Qed.

Lemma ring_area_psum : forall L, ring_area_xy L == psum e_shoe L / 2.
Proof.
  intros [|p r]; cbn [ring_area_xy psum]; [unfold Qdiv; ring|].
  rewrite shoelace_loop_pairsum. apply Qdiv_comp; [ring|reflexivity].
Qed.

Lemma cross_sum_pairsum : forall l p, cross_sum p l = pairsum e_cross p l.
Proof. induction l as [|q r IH]; intros p; cbn [cross_sum pairsum]; [reflexivity|]. rewrite IH. reflexivity. Qed.

Lemma cross_area_psum : forall L, cross_area_xy L == psum e_cross L / 2.
Proof. intros [|p r]; cbn [cross_area_xy psum]; [unfold Qdiv; ring|]. rewrite cross_sum_pairsum. reflexivity. Qed.

Lemma area_rotate_lemma : forall k l, ring_area_xy (close (rot k l)) == ring_area_xy (close l).
Proof.
  intros k l. rewrite !ring_area_psum. apply Qdiv_comp; [|reflexivity].
  apply (cyc_rot e_shoe k l).
Qed.

Lemma area_reverse_lemma : forall L, ring_area_xy (rev L) == - ring_area_xy L.
Proof.
  intros L. rewrite !ring_area_psum, psum_rev.
  - unfold Qdiv. ring.
  - intros a b. unfold e_shoe. ring.
Qed.

Lemma xy_eqb_true : forall a b, xy_eqb a b = true -> fst a == fst b /\ snd a == snd b.
Proof.
  intros a b H. unfold xy_eqb in H. apply andb_true_iff in H. destruct H as [H1 H2].
  split; apply Qeq_bool_iff; assumption.
Qed.

(* general form: the two shoelace forms differ by a boundary term that vanishes on closed rings *)
Lemma shoelace_vs_cross : forall p r,
  ring_area_xy (p :: r) == cross_area_xy (p :: r)
     + (fst (last r p) * snd (last r p) - fst p * snd p) / 2.
Proof.
  intros p r. rewrite ring_area_psum, cross_area_psum. cbn [psum].
  rewrite (pairsum_telescope e_shoe e_cross (fun q => fst q * snd q)).
  - unfold Qdiv. ring.
  - intros a b. unfold e_shoe, e_cross. ring.
Qed.

Lemma shoelace_eq_cross_lemma : forall L, ring_closedb L = true -> ring_area_xy L == cross_area_xy L.
Proof.
  intros [|p r] H; [reflexivity|].
  rewrite shoelace_vs_cross. unfold ring_closedb in H. rewrite last_cons_default in H.
  apply xy_eqb_true in H. destruct H as [Hx Hy]. rewrite <- Hx, <- Hy. unfold Qdiv. ring.
Qed.

Lemma area_translate_general : forall t p r,
  ring_area_xy (map (translate t) (p :: r)) ==
  ring_area_xy (p :: r) + fst t * (snd (last r p) - snd p).
Proof.
  intros t p r. rewrite !ring_area_psum. cbn [map psum].
  rewrite pairsum_map.
  rewrite (pairsum_telescope _ e_shoe (fun q => 2 * fst t * snd q)).
  - unfold Qdiv. field.
  - intros a b. unfold e_shoe, translate, xy_add. cbn [fst snd]. ring.
Qed.

Lemma area_translate_ring : forall t L, ring_closedb L = true ->
  ring_area_xy (map (translate t) L) == ring_area_xy L.
Proof.
  intros t [|p r] H; [reflexivity|].
  rewrite area_translate_general. unfold ring_closedb in H. rewrite last_cons_default in H.
  apply xy_eqb_true in H. destruct H as [_ Hy]. rewrite <- Hy. ring.
Qed.

(* sanity anchors *)
Lemma triangle_area_lemma : forall a b : Q,
  ring_area_xy [(0, 0); (a, 0); (0, b); (0, 0)] == a * b / 2.
Proof. intros a b. cbn [ring_area_xy shoelace_loop fst snd]. field. Qed.

Lemma rectangle_area_lemma : forall x y w h : Q,
  ring_area_xy [(x, y); (x + w, y); (x + w, y + h); (x, y + h); (x, y)] == w * h.
Proof. intros. cbn [ring_area_xy shoelace_loop fst snd]. field. Qed.

(* ------------------------------------------------------------------------------------------ *)
(* Order-free sums and the accumulator loops                                                   *)
(* ------------------------------------------------------------------------------------------ *)
Lemma fold_left_qsum_gen : forall (A : Type) (F : Q -> A -> Q) (f : A -> Q),
  (forall a x, F a x == a + f x) ->
  forall l s, fold_left F l s == s + qsum (map f l).
Proof.
  intros A F f HF l; induction l as [|x l IH]; intros s; cbn [fold_left map qsum fold_right].
  - ring.
  - rewrite IH, HF. fold (qsum (map f l)). ring.
Qed.

Lemma fold_left_qsum : forall (A : Type) (f : A -> Q) l s,
  fold_left (fun a x => a + f x) l s == s + qsum (map f l).
Proof. intros. apply fold_left_qsum_gen. intros; reflexivity. Qed.

Lemma fold_left_Qplus : forall l s, fold_left Qplus l s == s + qsum l.
Proof.
  intros l s. rewrite (fold_left_qsum_gen Q Qplus (fun x => x)); [|intros; reflexivity].
  rewrite map_id. reflexivity.
Qed.

Lemma qsum_cons : forall x l, qsum (x :: l) = x + qsum l.
Proof. reflexivity. Qed.

Lemma qsum_app : forall a b, qsum (a ++ b) == qsum a + qsum b.
Proof.
  induction a as [|x a IH]; intros b; cbn [app]; [cbn; ring|].
  rewrite !qsum_cons, IH. ring.
Qed.

Lemma qsum_perm : forall a b, Permutation a b -> qsum a == qsum b.
Proof.
  induction 1; try reflexivity.
  - rewrite !qsum_cons, IHPermutation. reflexivity.
  - rewrite !qsum_cons. ring.
  - rewrite IHPermutation1. assumption.
Qed.

Lemma qsum_map_ext : forall (A : Type) (f g : A -> Q) l,
  Forall (fun x => f x == g x) l -> qsum (map f l) == qsum (map g l).
Proof.
  induction 1; cbn [map]; [reflexivity|]. rewrite !qsum_cons, H, IHForall. reflexivity.
Qed.

Lemma qsum_map_ext_all : forall (A : Type) (f g : A -> Q) l,
  (forall x, f x == g x) -> qsum (map f l) == qsum (map g l).
Proof. intros. apply qsum_map_ext. apply Forall_forall. intros; auto. Qed.

Lemma qsum_map_opp : forall (A : Type) (f : A -> Q) l,
  qsum (map (fun x => - f x) l) == - qsum (map f l).
Proof.
  induction l as [|x l IH]; cbn [map]; [cbn; ring|]. rewrite !qsum_cons, IH. ring.
Qed.

Lemma qsum_map_scale : forall (A : Type) (f : A -> Q) (c : Q) l,
  qsum (map (fun x => f x * c) l) == qsum (map f l) * c.
Proof.
  induction l as [|x l IH]; cbn [map]; [cbn; ring|]. rewrite !qsum_cons, IH. ring.
Qed.

Lemma qsum_map_plus : forall (A : Type) (f g : A -> Q) l,
  qsum (map (fun x => f x + g x) l) == qsum (map f l) + qsum (map g l).
Proof.
  induction l as [|x l IH]; cbn [map]; [cbn; ring|]. rewrite !qsum_cons, IH. ring.
Qed.

(* ------------------------------------------------------------------------------------------ *)
(* Polygon / geometry area in order-free form                                                  *)
(* ------------------------------------------------------------------------------------------ *)
Definition shell_term (s : bool) (tr : option (xy -> xy)) (l : lineT Q) : Q :=
  if s then ring_area tr l else Qabs (ring_area tr l).
Definition hole_term (s : bool) (tr : option (xy -> xy)) (l : lineT Q) : Q :=
  if s then ring_area tr l else - Qabs (ring_area tr l).

Lemma poly_area_spec : forall s tr ct sh hs,
  poly_area s tr (MkPoly ct (sh :: hs)) == shell_term s tr sh + qsum (map (hole_term s tr) hs).
Proof.
  intros s tr ct sh hs. unfold poly_area. cbn [poly_rings].
  rewrite (fold_left_qsum_gen _ _ (hole_term s tr)).
  - unfold shell_term. destruct s; reflexivity.
  - intros a x. unfold hole_term. destruct s; cbn zeta; ring.
Qed.

Lemma poly_area_empty : forall s tr ct, poly_area s tr (MkPoly ct []) = 0.
Proof. reflexivity. Qed.

Lemma mpoly_area_spec : forall s tr ps, mpoly_area s tr ps == qsum (map (poly_area s tr) ps).
Proof. intros. unfold mpoly_area. rewrite fold_left_qsum. ring. Qed.

Lemma coll_area_spec : forall s tr ct gs,
  geom_area s tr (GColl ct gs) == qsum (map (geom_area s tr) gs).
Proof.
  intros. cbn [geom_area].
  rewrite (fold_left_qsum _ (geom_area s tr)). ring.
Qed.

Lemma line_xys_rev : forall l, line_xys (line_rev l) = rev (line_xys l).
Proof. intros [ct vs]. unfold line_xys. cbn [line_rev line_vs]. apply map_rev. Qed.

Lemma ring_area_rev : forall tr l, ring_area tr (line_rev l) == - ring_area tr l.
Proof.
  intros tr l. unfold ring_area. rewrite line_xys_rev, map_rev. apply area_reverse_lemma.
Qed.

Lemma Qabs_opp_eq : forall a b, a == - b -> Qabs a == Qabs b.
Proof. intros a b H. rewrite H. apply Qabs_opp. Qed.

Lemma poly_area_rev_unsigned : forall tr p, poly_area false tr (poly_rev p) == poly_area false tr p.
Proof.
  intros tr [ct [|sh hs]]; [reflexivity|].
  cbn [poly_rev map]. rewrite !poly_area_spec. unfold shell_term, hole_term.
  rewrite (Qabs_opp_eq _ _ (ring_area_rev tr sh)).
  rewrite map_map. apply Qplus_comp; [reflexivity|].
  apply qsum_map_ext_all. intros h. rewrite (Qabs_opp_eq _ _ (ring_area_rev tr h)). reflexivity.
Qed.

Lemma poly_area_rev_signed : forall tr p, poly_area true tr (poly_rev p) == - poly_area true tr p.
Proof.
  intros tr [ct [|sh hs]]; [cbn; ring|].
  cbn [poly_rev map]. rewrite !poly_area_spec. unfold shell_term, hole_term. cbv beta iota.
  rewrite ring_area_rev, map_map.
  rewrite (qsum_map_ext_all _ (fun x => ring_area tr (line_rev x)) (fun x => - ring_area tr x));
    [|intros; apply ring_area_rev].
  rewrite qsum_map_opp. change (fun l : lineT Q => ring_area tr l) with (ring_area tr). ring.
Qed.

Lemma area_reverse_unsigned_lemma : forall tr g,
  geom_area false tr (geom_rev g) == geom_area false tr g.
Proof.
  intros tr g. induction g using geomT_ind'; cbn [geom_rev]; try reflexivity.
  - apply poly_area_rev_unsigned.
  - cbn [geom_area]. rewrite !mpoly_area_spec, map_map.
    apply qsum_map_ext_all. intros; apply poly_area_rev_unsigned.
  - rewrite !coll_area_spec, map_map. apply qsum_map_ext. exact H.
Qed.

Lemma area_reverse_signed_lemma : forall tr g,
  geom_area true tr (geom_rev g) == - geom_area true tr g.
Proof.
  intros tr g. induction g using geomT_ind'; cbn [geom_rev]; try (cbn; ring).
  - apply poly_area_rev_signed.
  - cbn [geom_area]. rewrite !mpoly_area_spec, map_map.
    rewrite (qsum_map_ext_all _ _ (fun x => - poly_area true tr x)); [|intros; apply poly_area_rev_signed].
    apply qsum_map_opp.
  - rewrite !coll_area_spec, map_map.
    rewrite (qsum_map_ext _ _ (fun x => - geom_area true tr x)); [|exact H].
    apply qsum_map_opp.
Qed.

(* additivity over members, in every order *)
Lemma area_members_mpoly : forall s tr ct ps,
  geom_area s tr (GMPoly ct ps) == qsum (map (fun p => geom_area s tr (GPoly p)) ps).
Proof. intros. cbn [geom_area]. apply mpoly_area_spec. Qed.

Lemma area_coll_app : forall s tr ct a b,
  geom_area s tr (GColl ct (a ++ b)) == geom_area s tr (GColl ct a) + geom_area s tr (GColl ct b).
Proof. intros. rewrite !coll_area_spec, map_app. apply qsum_app. Qed.

Lemma area_coll_perm : forall s tr ct ct' gs gs', Permutation gs gs' ->
  geom_area s tr (GColl ct gs) == geom_area s tr (GColl ct' gs').
Proof. intros. rewrite !coll_area_spec. apply qsum_perm, Permutation_map. assumption. Qed.

Lemma area_mpoly_perm : forall s tr ct ct' ps ps', Permutation ps ps' ->
  geom_area s tr (GMPoly ct ps) == geom_area s tr (GMPoly ct' ps').
Proof. intros. cbn [geom_area]. rewrite !mpoly_area_spec. apply qsum_perm, Permutation_map. assumption. Qed.

Lemma area_holes_perm : forall s tr ct ct' sh hs hs', Permutation hs hs' ->
  poly_area s tr (MkPoly ct (sh :: hs)) == poly_area s tr (MkPoly ct' (sh :: hs')).
Proof.
  intros. rewrite !poly_area_spec. apply Qplus_comp; [reflexivity|].
  apply qsum_perm, Permutation_map. assumption.
Qed.

(* ------------------------------------------------------------------------------------------ *)
(* Transform option, translation                                                               *)
(* ------------------------------------------------------------------------------------------ *)
Lemma qsum_map_Forall2 : forall (A B : Type) (f : A -> Q) (g : B -> Q) l l',
  Forall2 (fun x y => f x == g y) l l' -> qsum (map f l) == qsum (map g l').
Proof.
  induction 1; cbn [map]; [reflexivity|]. rewrite !qsum_cons, H, IHForall2. reflexivity.
Qed.

Lemma map_apply_tr_none : forall l, map (apply_tr None) l = l.
Proof. intros. unfold apply_tr. apply map_id. Qed.

Lemma ring_area_none : forall l, ring_area None l = ring_area_xy (line_xys l).
Proof. intros. unfold ring_area. rewrite map_apply_tr_none. reflexivity. Qed.

Lemma vxy_vtx_tr : forall f v, vxy (vtx_tr f v) = f (vxy v).
Proof. intros f v. unfold vtx_tr, vxy. cbn [vx vy]. destruct (f (vx v, vy v)); reflexivity. Qed.

Lemma line_xys_tr : forall f l, line_xys (line_tr f l) = map f (line_xys l).
Proof.
  intros f [ct vs]. unfold line_xys. cbn [line_tr line_vs]. rewrite !map_map.
  apply map_ext. intros; apply vxy_vtx_tr.
Qed.

Lemma ring_area_tr : forall f l, ring_area None (line_tr f l) = ring_area (Some f) l.
Proof. intros. rewrite ring_area_none, line_xys_tr. reflexivity. Qed.

Lemma Forall2_impl' : forall (A B : Type) (R S : A -> B -> Prop) l l',
  (forall a b, R a b -> S a b) -> Forall2 R l l' -> Forall2 S l l'.
Proof. induction 2; constructor; auto. Qed.

(* polygon areas agree when the rings correspond and have equal signed areas *)
Lemma poly_area_congr : forall s tr tr' ct ct' rs rs',
  Forall2 (fun r r' => ring_area tr r == ring_area tr' r') rs rs' ->
  poly_area s tr (MkPoly ct rs) == poly_area s tr' (MkPoly ct' rs').
Proof.
  intros s tr tr' ct ct' rs rs' H. destruct H as [|sh sh' hs hs' Hsh Hhs]; [reflexivity|].
  rewrite !poly_area_spec. apply Qplus_comp.
  - unfold shell_term. destruct s; rewrite Hsh; reflexivity.
  - apply qsum_map_Forall2. eapply Forall2_impl'; [|exact Hhs].
    intros a b Hab. unfold hole_term. cbv beta. destruct s; rewrite Hab; reflexivity.
Qed.

Lemma Forall2_map_r : forall (A B : Type) (R : A -> B -> Prop) (f : A -> B) l,
  (forall x, In x l -> R x (f x)) -> Forall2 R l (map f l).
Proof.
  induction l as [|x l IH]; intros H; cbn [map]; constructor.
  - apply H; left; reflexivity.
  - apply IH. intros; apply H; right; assumption.
Qed.

Lemma poly_area_tr : forall s f p, poly_area s (Some f) p == poly_area s None (poly_tr f p).
Proof.
  intros s f [ct rs]. cbn [poly_tr]. apply poly_area_congr.
  apply Forall2_map_r. intros r _. rewrite ring_area_tr. reflexivity.
Qed.

Lemma area_transform_option_lemma : forall s f g,
  geom_area s (Some f) g == geom_area s None (geom_tr f g).
Proof.
  intros s f g. induction g using geomT_ind'; cbn [geom_tr]; try reflexivity.
  - apply poly_area_tr.
  - cbn [geom_area]. rewrite !mpoly_area_spec, map_map.
    apply qsum_map_ext_all. intros; apply poly_area_tr.
  - rewrite !coll_area_spec, map_map. apply qsum_map_ext. exact H.
Qed.

Lemma ring_area_translate : forall t l, ring_closedb (line_xys l) = true ->
  ring_area (Some (translate t)) l == ring_area None l.
Proof.
  intros t l H. rewrite ring_area_none. unfold ring_area. cbn [apply_tr].
  apply area_translate_ring. exact H.
Qed.

Lemma poly_area_translate : forall s t p, poly_closed p = true ->
  poly_area s (Some (translate t)) p == poly_area s None p.
Proof.
  intros s t [ct rs] H. apply poly_area_congr. unfold poly_closed in H. cbn [poly_rings] in H.
  rewrite forallb_forall in H.
  induction rs as [|r rs IH]; constructor.
  - apply ring_area_translate. apply H. left; reflexivity.
  - apply IH. intros x Hx. apply H. right; assumption.
Qed.

Lemma area_translate_option : forall s t g, geom_closed g = true ->
  geom_area s (Some (translate t)) g == geom_area s None g.
Proof.
  intros s t g. induction g using geomT_ind'; intros Hc; cbn [geom_closed] in Hc; try reflexivity.
  - apply poly_area_translate; assumption.
  - cbn [geom_area]. rewrite !mpoly_area_spec. apply qsum_map_ext.
    rewrite forallb_forall in Hc. apply Forall_forall. intros x Hx. apply poly_area_translate. apply Hc; assumption.
  - rewrite !coll_area_spec. apply qsum_map_ext.
    rewrite forallb_forall in Hc. rewrite Forall_forall in *. intros x Hx. apply H; [assumption|]. apply Hc; assumption.
Qed.

Lemma area_translate_lemma : forall s t g, geom_closed g = true ->
  geom_area s None (geom_tr (translate t) g) == geom_area s None g.
Proof.
  intros. rewrite <- area_transform_option_lemma. apply area_translate_option. assumption.
Qed.

(* ------------------------------------------------------------------------------------------ *)
(* The triangle fan: link between Centroid's weights and Area, convex rings                    *)
(* ------------------------------------------------------------------------------------------ *)
Definition e_tri (b p q : xy) : Q := tri_area2 b p q.
Definition e_c6x (b p q : xy) : Q := (fst b + fst p + fst q) * tri_area2 b p q.
Definition e_c6y (b p q : xy) : Q := (snd b + snd p + snd q) * tri_area2 b p q.
Definition e_cx (p q : xy) : Q := (fst p + fst q) * e_cross p q.
Definition e_cy (p q : xy) : Q := (snd p + snd q) * e_cross p q.

Lemma fan_loop_spec : forall b r s c p,
  fst (fan_loop b s c p r) == s + pairsum (e_tri b) p r /\
  fst (snd (fan_loop b s c p r)) == fst c + pairsum (e_c6x b) p r /\
  snd (snd (fan_loop b s c p r)) == snd c + pairsum (e_c6y b) p r.
Proof.
  intros b r; induction r as [|q r IH]; intros s c p; cbn [fan_loop pairsum fst snd].
  - repeat split; ring.
  - destruct (IH (s + tri_area2 b p q) (xy_add c (xy_scale (centroid3 b p q) (tri_area2 b p q))) q)
      as [H1 [H2 H3]].
    rewrite H1, H2, H3.
    set (P1 := pairsum (e_tri b) q r). set (P2 := pairsum (e_c6x b) q r). set (P3 := pairsum (e_c6y b) q r).
    unfold e_tri, e_c6x, e_c6y.
    cbv beta iota delta [fst snd xy_add xy_scale centroid3].
    repeat split; ring.
Qed.

Lemma fan_spec : forall b tl,
  fst (fan b tl) == psum (e_tri b) tl /\
  fst (snd (fan b tl)) == psum (e_c6x b) tl /\
  snd (snd (fan b tl)) == psum (e_c6y b) tl.
Proof.
  intros b [|p r]; cbn [fan psum].
  - cbn. repeat split; reflexivity.
  - destruct (fan_loop_spec b r 0 xy0 p) as [H1 [H2 H3]]. rewrite H1, H2, H3. cbn [xy0 fst snd].
    repeat split; ring.
Qed.

(* on a ring that returns to its base vertex, the fan sums are the cyclic cross-product sums *)
Lemma fan_closed_sums : forall b tl, last tl b = b ->
  psum (e_tri b) tl == pairsum e_cross b tl /\
  psum (e_c6x b) tl == pairsum e_cx b tl /\
  psum (e_c6y b) tl == pairsum e_cy b tl.
Proof.
  intros b [|p r] Hl; cbn [psum pairsum]; [repeat split; reflexivity|].
  rewrite last_cons_default in Hl.
  rewrite (pairsum_telescope (e_tri b) e_cross (fun q => - e_cross b q)).
  2:{ intros x y. unfold e_tri, tri_area2, e_cross. ring. }
  rewrite (pairsum_telescope (e_c6x b) e_cx
             (fun q => - fst b * fst q * snd q + snd b * fst q * fst q - fst b * e_cross b q)).
  2:{ intros x y. unfold e_c6x, tri_area2, e_cx, e_cross. ring. }
  rewrite (pairsum_telescope (e_c6y b) e_cy
             (fun q => snd b * snd q * fst q - fst b * snd q * snd q - snd b * e_cross b q)).
  2:{ intros x y. unfold e_c6y, tri_area2, e_cy, e_cross. ring. }
  rewrite Hl. unfold e_cx, e_cy, e_cross. repeat split; ring.
Qed.

Lemma close_cons : forall b m, close (b :: m) = b :: (m ++ [b]).
Proof. reflexivity. Qed.

Lemma fan_eq_shoelace_lemma : forall b m,
  fst (fan b (m ++ [b])) == 2 * ring_area_xy (close (b :: m)).
Proof.
  intros b m. destruct (fan_spec b (m ++ [b])) as [H _]. rewrite H.
  destruct (fan_closed_sums b (m ++ [b]) (last_snoc _ m b b)) as [H1 _]. rewrite H1.
  rewrite shoelace_eq_cross_lemma.
  - rewrite cross_area_psum, close_cons. cbn [psum]. field.
  - rewrite close_cons. unfold ring_closedb. rewrite last_cons_default, last_snoc.
    unfold xy_eqb. rewrite !Qeq_bool_refl. reflexivity.
Qed.

(* closed-form of the ring centroid on closed rings: the classical sums *)
Lemma ring_centroid_cyc : forall l,
  xy_eq (centroid_of_ring_xy (close l))
        (cyc e_cx l * (1 / 3 / cyc e_cross l), cyc e_cy l * (1 / 3 / cyc e_cross l)).
Proof.
  intros [|b m]; unfold xy_eq; cbn [fst snd].
  - cbn. split; ring.
  - rewrite close_cons. unfold cyc. rewrite close_cons. cbn [centroid_of_ring_xy psum].
    destruct (fan b (m ++ [b])) as [a2 c6] eqn:E.
    destruct (fan_spec b (m ++ [b])) as [H1 [H2 H3]]. rewrite E in H1, H2, H3. cbn [fst snd] in H1, H2, H3.
    destruct (fan_closed_sums b (m ++ [b]) (last_snoc _ m b b)) as [G1 [G2 G3]].
    unfold xy_scale. cbn [fst snd]. rewrite H1, H2, H3, G1, G2, G3. split; reflexivity.
Qed.

Lemma xy_eq_refl : forall a, xy_eq a a.
Proof. intros; split; reflexivity. Qed.
Lemma xy_eq_sym : forall a b, xy_eq a b -> xy_eq b a.
Proof. intros a b [H1 H2]; split; symmetry; assumption. Qed.
Lemma xy_eq_trans : forall a b c, xy_eq a b -> xy_eq b c -> xy_eq a c.
Proof. intros a b c [H1 H2] [H3 H4]; split; etransitivity; eassumption. Qed.

Lemma centroid_ring_rotate_lemma : forall k l,
  xy_eq (centroid_of_ring_xy (close (rot k l))) (centroid_of_ring_xy (close l)).
Proof.
  intros k l. eapply xy_eq_trans; [apply ring_centroid_cyc|].
  apply xy_eq_sym. eapply xy_eq_trans; [apply ring_centroid_cyc|].
  unfold xy_eq. cbn [fst snd]. rewrite !cyc_rot. split; reflexivity.
Qed.

Definition rev_cycle (l : list xy) : list xy := match l with [] => [] | b :: m => b :: rev m end.
Lemma close_rev : forall l, rev (close l) = close (rev_cycle l).
Proof.
  intros [|b m]; [reflexivity|]. rewrite close_cons. cbn [rev_cycle]. rewrite close_cons.
  cbn [rev]. rewrite rev_app_distr. reflexivity.
Qed.

Lemma cyc_rev_cycle : forall e, (forall a b, e a b == - e b a) ->
  forall l, cyc e (rev_cycle l) == - cyc e l.
Proof. intros e He l. unfold cyc. rewrite <- close_rev. apply psum_rev, He. Qed.

Lemma Qinv_opp : forall a, / (- a) == - / a.
Proof.
  intros [n d]. destruct n; unfold Qinv, Qopp, Qeq; cbn; reflexivity.
Qed.

Lemma centroid_ring_reverse_lemma : forall l,
  xy_eq (centroid_of_ring_xy (rev (close l))) (centroid_of_ring_xy (close l)).
Proof.
  intros l. rewrite close_rev. eapply xy_eq_trans; [apply ring_centroid_cyc|].
  apply xy_eq_sym. eapply xy_eq_trans; [apply ring_centroid_cyc|].
  unfold xy_eq. cbn [fst snd].
  rewrite !cyc_rev_cycle by (intros a b; unfold e_cx, e_cy, e_cross; ring).
  unfold Qdiv. rewrite Qinv_opp. split; ring.
Qed.

(* ------------------------------------------------------------------------------------------ *)
(* Convex rings: the signed area is a sum of non-negative triangle areas                       *)
(* ------------------------------------------------------------------------------------------ *)
Fixpoint all_pairs (P : xy -> xy -> Prop) (p0 : xy) (l : list xy) : Prop :=
  match l with
  | [] => True
  | p :: r => P p0 p /\ all_pairs P p r
  end.

Lemma fan_tris_from_sum : forall b r p,
  qsum (fan_tris_from b p r) == pairsum (e_tri b) p r / 2.
Proof.
  intros b r; induction r as [|q r IH]; intros p; cbn [fan_tris_from pairsum].
  - cbn. unfold Qdiv. ring.
  - rewrite qsum_cons, IH. unfold e_tri, Qdiv. ring.
Qed.

Lemma tri_area2_degenerate : forall b x, tri_area2 b x b == 0.
Proof. intros. unfold tri_area2. ring. Qed.

(* shoelace area of the closed ring = sum of the fan triangle areas, for every ring *)
Lemma area_eq_fan_sum : forall l, ring_area_xy (close l) == qsum (fan_tris l).
Proof.
  intros [|b m]; [reflexivity|].
  assert (H := fan_eq_shoelace_lemma b m).
  destruct (fan_spec b (m ++ [b])) as [H1 _]. rewrite H1 in H.
  assert (E : ring_area_xy (close (b :: m)) == psum (e_tri b) (m ++ [b]) / 2).
  { rewrite H. field. }
  rewrite E. clear H H1 E.
  destruct m as [|p r]; [cbn; unfold Qdiv; ring|].
  cbn [fan_tris app psum]. rewrite fan_tris_from_sum, pairsum_app. cbn [pairsum].
  unfold e_tri at 2. rewrite tri_area2_degenerate. unfold Qdiv. ring.
Qed.

Lemma all_pairs_nth : forall (P : xy -> xy -> Prop) r p,
  (forall i, (S i < length (p :: r))%nat -> P (nth i (p :: r) xy0) (nth (S i) (p :: r) xy0)) ->
  all_pairs P p r.
Proof.
  intros P r; induction r as [|q r IH]; intros p H; cbn [all_pairs]; [exact I|].
  split.
  - apply (H 0%nat). cbn [length]. lia.
  - apply IH. intros i Hi. apply (H (S i)). cbn [length] in *. lia.
Qed.

Lemma fan_tris_from_forall : forall (R : Q -> Prop) b r p,
  all_pairs (fun x y => R (tri_area2 b x y / 2)) p r -> Forall R (fan_tris_from b p r).
Proof.
  intros R b r; induction r as [|q r IH]; intros p H; cbn [fan_tris_from]; [constructor|].
  destruct H as [H1 H2]. constructor; [exact H1|]. apply IH, H2.
Qed.

Lemma half_nonneg : forall a, 0 <= a -> 0 <= a / 2.
Proof. intros a H. unfold Qdiv. apply Qmult_le_0_compat; [assumption|]. discriminate. Qed.
Lemma half_pos : forall a, 0 < a -> 0 < a / 2.
Proof. intros a H. unfold Qdiv. apply Qmult_lt_0_compat; [assumption|]. reflexivity. Qed.

Lemma convex_fan_nonneg : forall l, convex_ccw l -> Forall (fun a => 0 <= a) (fan_tris l).
Proof.
  intros [|b [|p r]] H; cbn [fan_tris]; try constructor.
  apply fan_tris_from_forall. apply all_pairs_nth. intros i Hi.
  apply half_nonneg.
  change (nth i (p :: r) xy0) with (nth (S i) (b :: p :: r) xy0).
  change (nth (S i) (p :: r) xy0) with (nth (S (S i)) (b :: p :: r) xy0).
  change b with (nth 0 (b :: p :: r) xy0) at 1.
  apply H; cbn [length] in *; lia.
Qed.

Lemma strictly_convex_fan_pos : forall l, strictly_convex_ccw l -> Forall (fun a => 0 < a) (fan_tris l).
Proof.
  intros [|b [|p r]] H; cbn [fan_tris]; try constructor.
  apply fan_tris_from_forall. apply all_pairs_nth. intros i Hi.
  apply half_pos.
  change (nth i (p :: r) xy0) with (nth (S i) (b :: p :: r) xy0).
  change (nth (S i) (p :: r) xy0) with (nth (S (S i)) (b :: p :: r) xy0).
  change b with (nth 0 (b :: p :: r) xy0) at 1.
  apply H; cbn [length] in *; lia.
Qed.

Lemma qsum_nonneg : forall l, Forall (fun a => 0 <= a) l -> 0 <= qsum l.
Proof.
  induction 1; [cbn; apply Qle_refl|]. rewrite qsum_cons.
  replace 0 with (0 + 0) by reflexivity. apply Qplus_le_compat; assumption.
Qed.

Lemma qsum_pos : forall l, l <> [] -> Forall (fun a => 0 < a) l -> 0 < qsum l.
Proof.
  intros l Hne H. induction H; [congruence|]. rewrite qsum_cons.
  destruct l as [|y l].
  - cbn. rewrite Qplus_0_r. assumption.
  - assert (0 < qsum (y :: l)) by (apply IHForall; discriminate).
    replace 0 with (0 + 0) by reflexivity. apply Qplus_lt_le_compat; [assumption|]. apply Qlt_le_weak; assumption.
Qed.

Lemma signed_area_ccw_nonneg_lemma : forall l, convex_ccw l ->
  ring_area_xy (close l) == qsum (fan_tris l) /\
  Forall (fun a => 0 <= a) (fan_tris l) /\
  0 <= ring_area_xy (close l).
Proof.
  intros l H. split; [apply area_eq_fan_sum|]. split; [apply convex_fan_nonneg, H|].
  rewrite area_eq_fan_sum. apply qsum_nonneg, convex_fan_nonneg, H.
Qed.

Lemma signed_area_ccw_pos_lemma : forall l, strictly_convex_ccw l -> (3 <= length l)%nat ->
  0 < ring_area_xy (close l).
Proof.
  intros l H Hn. rewrite area_eq_fan_sum. apply qsum_pos; [|apply strictly_convex_fan_pos, H].
  destruct l as [|b [|p [|q r]]]; cbn [length] in Hn; try lia. cbn. discriminate.
Qed.

(* ------------------------------------------------------------------------------------------ *)
(* Measure-equivalence of geometries: one congruence theorem for all invariances               *)
(* ------------------------------------------------------------------------------------------ *)
Lemma fold_left_rel : forall (A A' B B' : Type) (R : B -> B' -> Prop) (S : A -> A' -> Prop)
    (F : B -> A -> B) (F' : B' -> A' -> B'),
  (forall b b' a a', R b b' -> S a a' -> R (F b a) (F' b' a')) ->
  forall l l', Forall2 S l l' -> forall b b', R b b' -> R (fold_left F l b) (fold_left F' l' b').
Proof.
  intros A A' B B' R S F F' HF l l' H. induction H; intros b b' Hb; cbn [fold_left]; [assumption|].
  apply IHForall2. apply HF; assumption.
Qed.

Lemma xy_add_eq : forall a a' b b', xy_eq a a' -> xy_eq b b' -> xy_eq (xy_add a b) (xy_add a' b').
Proof. intros a a' b b' [H1 H2] [H3 H4]. unfold xy_eq, xy_add. cbn [fst snd]. rewrite H1, H2, H3, H4. split; reflexivity. Qed.
Lemma xy_scale_eq : forall a a' s s', xy_eq a a' -> s == s' -> xy_eq (xy_scale a s) (xy_scale a' s').
Proof. intros a a' s s' [H1 H2] H3. unfold xy_eq, xy_scale. cbn [fst snd]. rewrite H1, H2, H3. split; reflexivity. Qed.
Lemma oxy_eq_refl : forall a, oxy_eq a a.
Proof. intros [a|]; cbn; [apply xy_eq_refl|exact I]. Qed.
Lemma oxy_eq_sym : forall a b, oxy_eq a b -> oxy_eq b a.
Proof. intros [a|] [b|]; cbn; auto using xy_eq_sym. Qed.
Lemma oxy_eq_trans : forall a b c, oxy_eq a b -> oxy_eq b c -> oxy_eq a c.
Proof. intros [a|] [b|] [c|]; cbn; try tauto. apply xy_eq_trans. Qed.

Definition ring_sim (r r' : lineT Q) : Prop :=
  Qabs (ring_area None r) == Qabs (ring_area None r') /\
  xy_eq (centroid_of_ring r) (centroid_of_ring r').
Definition poly_sim (p p' : polyT Q) : Prop := Forall2 ring_sim (poly_rings p) (poly_rings p').
Definition point_sim (p p' : pointT Q) : Prop := oxy_eq (point_xy p) (point_xy p').

Lemma Forall2_length : forall (A B : Type) (R : A -> B -> Prop) l l', Forall2 R l l' -> length l = length l'.
Proof. induction 1; cbn; congruence. Qed.

Lemma Forall2_combine : forall (A A' B B' : Type) (R : A -> A' -> Prop) (S : B -> B' -> Prop) l l' m m',
  Forall2 R l l' -> Forall2 S m m' ->
  Forall2 (fun x y => R (fst x) (fst y) /\ S (snd x) (snd y)) (combine l m) (combine l' m').
Proof.
  intros A A' B B' R S l l' m m' H. revert m m'. induction H; intros m m' Hm; cbn [combine]; [constructor|].
  destruct Hm; constructor; [split; assumption|]. apply IHForall2; assumption.
Qed.

Lemma Forall2_map : forall (A A' B B' : Type) (R : A -> A' -> Prop) (S : B -> B' -> Prop) (f : A -> B) (f' : A' -> B') l l',
  (forall a a', R a a' -> S (f a) (f' a')) -> Forall2 R l l' -> Forall2 S (map f l) (map f' l').
Proof. intros A A' B B' R S f f' l l' Hf H. induction H; cbn [map]; constructor; auto. Qed.

Lemma Forall2_Qeq_fold_Qplus : forall l l', Forall2 Qeq l l' -> forall s s', s == s' ->
  fold_left Qplus l s == fold_left Qplus l' s'.
Proof.
  intros l l' H s s' Hs.
  apply (fold_left_rel Q Q Q Q Qeq Qeq Qplus Qplus); try assumption.
  intros b b' a a' Hb Ha. rewrite Hb, Ha. reflexivity.
Qed.

Lemma poly_sim_area : forall ct ct' rs rs', Forall2 ring_sim rs rs' ->
  poly_area false None (MkPoly ct rs) == poly_area false None (MkPoly ct' rs').
Proof.
  intros ct ct' rs rs' H. destruct H as [|sh sh' hs hs' Hsh Hhs]; [reflexivity|].
  rewrite !poly_area_spec. unfold shell_term, hole_term. cbv beta iota.
  destruct Hsh as [Ha _]. rewrite Ha. apply Qplus_comp; [reflexivity|].
  apply qsum_map_Forall2. eapply Forall2_impl'; [|exact Hhs]. intros a b [Hab _]. rewrite Hab. reflexivity.
Qed.

Lemma poly_sim_centroid : forall ct ct' rs rs', Forall2 ring_sim rs rs' ->
  oxy_eq (poly_centroid (MkPoly ct rs)) (poly_centroid (MkPoly ct' rs')).
Proof.
  intros ct ct' rs rs' H. destruct H as [|sh sh' hs hs' Hsh Hhs]; [exact I|].
  unfold poly_centroid. cbn [poly_rings]. cbv zeta. cbn [oxy_eq].
  set (f := fun h : lineT Q => - Qabs (ring_area None h)).
  assert (Hw : Forall2 Qeq (map f hs) (map f hs')).
  { eapply Forall2_map; [|exact Hhs]. intros a a' [Ha _]. unfold f. rewrite Ha. reflexivity. }
  destruct Hsh as [Ha Hc].
  assert (HS : fold_left Qplus (map f hs) (Qabs (ring_area None sh)) ==
               fold_left Qplus (map f hs') (Qabs (ring_area None sh'))).
  { apply Forall2_Qeq_fold_Qplus; assumption. }
  apply (fold_left_rel _ _ _ _ xy_eq
           (fun x y => ring_sim (fst x) (fst y) /\ snd x == snd y)).
  - intros b b' a a' Hb [[_ Hca] Hwa]. apply xy_add_eq; [assumption|].
    unfold weighted_centroid. apply xy_scale_eq; [assumption|]. apply Qdiv_comp; assumption.
  - apply Forall2_combine; assumption.
  - unfold weighted_centroid. apply xy_scale_eq; [assumption|]. apply Qdiv_comp; assumption.
Qed.

Lemma poly_sim_empty : forall p p', poly_sim p p' -> poly_empty p = poly_empty p'.
Proof. intros [ct rs] [ct' rs'] H. unfold poly_sim in H. cbn in H. destruct H; reflexivity. Qed.

Lemma forallb_Forall2 : forall (A B : Type) (f : A -> bool) (g : B -> bool) (R : A -> B -> Prop) l l',
  (forall a b, R a b -> f a = g b) -> Forall2 R l l' -> forallb f l = forallb g l'.
Proof. intros A B f g R l l' Hfg H. induction H; cbn [forallb]; [reflexivity|]. rewrite (Hfg _ _ H), IHForall2. reflexivity. Qed.

Lemma poly_sim_area' : forall p p', poly_sim p p' -> poly_area false None p == poly_area false None p'.
Proof. intros [ct rs] [ct' rs'] H. apply poly_sim_area, H. Qed.
Lemma poly_sim_centroid' : forall p p', poly_sim p p' -> oxy_eq (poly_centroid p) (poly_centroid p').
Proof. intros [ct rs] [ct' rs'] H. apply poly_sim_centroid, H. Qed.

Lemma mpoly_sim_area : forall ps ps', Forall2 poly_sim ps ps' ->
  mpoly_area false None ps == mpoly_area false None ps'.
Proof.
  intros ps ps' H. rewrite !mpoly_area_spec. apply qsum_map_Forall2.
  eapply Forall2_impl'; [|exact H]. intros; apply poly_sim_area'; assumption.
Qed.

Lemma mpoly_sim_centroid : forall ps ps', Forall2 poly_sim ps ps' ->
  oxy_eq (mpoly_centroid ps) (mpoly_centroid ps').
Proof.
  intros ps ps' H. unfold mpoly_centroid.
  rewrite (forallb_Forall2 _ _ (@poly_empty Q) (@poly_empty Q) poly_sim ps ps' poly_sim_empty H).
  destruct (forallb (@poly_empty Q) ps'); [exact I|]. cbv zeta. cbn [oxy_eq].
  assert (Hw : Forall2 Qeq (map (poly_area false None) ps) (map (poly_area false None) ps')).
  { eapply Forall2_map; [|exact H]. intros; apply poly_sim_area'; assumption. }
  assert (HS : fold_left Qplus (map (poly_area false None) ps) 0 == fold_left Qplus (map (poly_area false None) ps') 0).
  { apply Forall2_Qeq_fold_Qplus; [assumption|reflexivity]. }
  apply (fold_left_rel _ _ _ _ xy_eq (fun x y => poly_sim (fst x) (fst y) /\ snd x == snd y)).
  - intros b b' a a' Hb [Hp Ha]. apply poly_sim_centroid' in Hp.
    destruct (poly_centroid (fst a)), (poly_centroid (fst a')); cbn in Hp; try tauto.
    apply xy_add_eq; [assumption|]. apply xy_scale_eq; [assumption|]. apply Qdiv_comp; assumption.
  - apply Forall2_combine; assumption.
  - apply xy_eq_refl.
Qed.

(* points *)
Definition psum_rel (a b : xy * Z) : Prop := xy_eq (fst a) (fst b) /\ snd a = snd b.
Lemma points_sum_sim : forall ps ps', Forall2 point_sim ps ps' -> forall a a', psum_rel a a' ->
  psum_rel (points_sum ps a) (points_sum ps' a').
Proof.
  intros ps ps' H a a' Ha. unfold points_sum.
  apply (fold_left_rel _ _ _ _ psum_rel point_sim); try assumption.
  intros b b' p p' [Hb1 Hb2] Hp. unfold point_sim in Hp.
  destruct (point_xy p), (point_xy p'); cbn in Hp; try tauto; [|split; assumption].
  split; cbn [fst snd]; [apply xy_add_eq; assumption|congruence].
Qed.

Lemma point_sim_empty : forall p p', point_sim p p' -> point_empty p = point_empty p'.
Proof.
  intros [ct c] [ct' c'] H. unfold point_sim, point_xy, point_empty in *. cbn [point_c] in *.
  destruct c, c'; cbn in H; tauto || reflexivity.
Qed.

Lemma mpoint_sim_centroid : forall ps ps', Forall2 point_sim ps ps' ->
  oxy_eq (mpoint_centroid ps) (mpoint_centroid ps').
Proof.
  intros ps ps' H. unfold mpoint_centroid.
  assert (R := points_sum_sim ps ps' H (xy0, 0%Z) (xy0, 0%Z) (conj (xy_eq_refl _) eq_refl)).
  destruct (points_sum ps (xy0, 0%Z)) as [s n], (points_sum ps' (xy0, 0%Z)) as [s' n'].
  destruct R as [R1 R2]. cbn [fst snd] in R1, R2. subst n'.
  destruct (n =? 0)%Z; [exact I|]. cbn [oxy_eq]. apply xy_scale_eq; [assumption|reflexivity].
Qed.

Section WithSq.
  Variable sq : Q -> Q.
  Hypothesis sq_proper : forall a b, a == b -> sq a == sq b.

  Definition line_sim (l l' : lineT Q) : Prop :=
    line_empty l = line_empty l' /\
    line_length sq l == line_length sq l' /\
    xy_eq (fst (sum_centroid_length sq l)) (fst (sum_centroid_length sq l')) /\
    snd (sum_centroid_length sq l) == snd (sum_centroid_length sq l').

  Lemma Qeq_bool_eq : forall a a' b b', a == a' -> b == b' -> Qeq_bool a b = Qeq_bool a' b'.
  Proof.
    intros a a' b b' Ha Hb. destruct (Qeq_bool a b) eqn:E1, (Qeq_bool a' b') eqn:E2; try reflexivity.
    - apply Qeq_bool_iff in E1. assert (E : a' == b') by (rewrite <- Ha, <- Hb; assumption).
      apply Qeq_bool_iff in E. congruence.
    - apply Qeq_bool_iff in E2. assert (E : a == b) by (rewrite Ha, Hb; assumption).
      apply Qeq_bool_iff in E. congruence.
  Qed.

  Lemma line_sim_centroid : forall l l', line_sim l l' -> oxy_eq (line_centroid sq l) (line_centroid sq l').
  Proof.
    intros l l' [_ [_ [H1 H2]]]. unfold line_centroid.
    destruct (sum_centroid_length sq l) as [c n], (sum_centroid_length sq l') as [c' n'].
    cbn [fst snd] in H1, H2. rewrite (Qeq_bool_eq n n' 0 0 H2 (Qeq_refl 0)).
    destruct (Qeq_bool n' 0); [exact I|]. cbn [oxy_eq]. apply xy_scale_eq; [assumption|].
    rewrite H2. reflexivity.
  Qed.

  Definition acc_rel (a b : xy * Q) : Prop := xy_eq (fst a) (fst b) /\ snd a == snd b.

  Lemma mline_sim_centroid : forall ls ls', Forall2 line_sim ls ls' ->
    oxy_eq (mline_centroid sq ls) (mline_centroid sq ls').
  Proof.
    intros ls ls' H. unfold mline_centroid.
    assert (R : acc_rel
      (fold_left (fun acc l => let '(c, n) := sum_centroid_length sq l in (xy_add (fst acc) c, snd acc + n)) ls (xy0, 0))
      (fold_left (fun acc l => let '(c, n) := sum_centroid_length sq l in (xy_add (fst acc) c, snd acc + n)) ls' (xy0, 0))).
    { apply (fold_left_rel _ _ _ _ acc_rel line_sim); [|assumption|split; [apply xy_eq_refl|reflexivity]].
      intros b b' a a' [Hb1 Hb2] [_ [_ [H1 H2]]].
      destruct (sum_centroid_length sq a) as [c n], (sum_centroid_length sq a') as [c' n'].
      cbn [fst snd] in *. split; cbn [fst snd]; [apply xy_add_eq; assumption|rewrite Hb2, H2; reflexivity]. }
    destruct (fold_left _ ls (xy0, 0)) as [c n], (fold_left _ ls' (xy0, 0)) as [c' n'].
    destruct R as [R1 R2]. cbn [fst snd] in R1, R2.
    rewrite (Qeq_bool_eq n n' 0 0 R2 (Qeq_refl 0)).
    destruct (Qeq_bool n' 0); [exact I|]. cbn [oxy_eq]. apply xy_scale_eq; [assumption|].
    rewrite R2. reflexivity.
  Qed.

  Lemma mline_sim_length : forall ls ls', Forall2 line_sim ls ls' -> mline_length sq ls == mline_length sq ls'.
  Proof.
    intros ls ls' H. unfold mline_length. rewrite !fold_left_qsum.
    apply Qplus_comp; [reflexivity|]. apply qsum_map_Forall2.
    eapply Forall2_impl'; [|exact H]. intros a b [_ [Hl _]]. exact Hl.
  Qed.

  Definition lin_rel (a b : Q * xy) : Prop := fst a == fst b /\ xy_eq (snd a) (snd b).
  Lemma lin_step_sim : forall a a' l l', lin_rel a a' -> line_sim l l' -> lin_rel (lin_step sq a l) (lin_step sq a' l').
  Proof.
    intros a a' l l' [Ha1 Ha2] Hl. unfold lin_step.
    assert (Hc := line_sim_centroid l l' Hl). destruct Hl as [_ [Hlen _]].
    destruct (line_centroid sq l), (line_centroid sq l'); cbn in Hc; try tauto; [|split; assumption].
    split; cbn [fst snd]; [rewrite Ha1, Hlen; reflexivity|].
    apply xy_add_eq; [assumption|]. apply xy_scale_eq; assumption.
  Qed.

  (* same shape, corresponding parts measure-equivalent *)
  Fixpoint geom_sim (g g' : geomT Q) : Prop :=
    match g, g' with
    | GPoint p, GPoint p' => point_sim p p'
    | GLine l, GLine l' => line_sim l l'
    | GPoly p, GPoly p' => poly_sim p p'
    | GMPoint _ ps, GMPoint _ ps' => Forall2 point_sim ps ps'
    | GMLine _ ls, GMLine _ ls' => Forall2 line_sim ls ls'
    | GMPoly _ ps, GMPoly _ ps' => Forall2 poly_sim ps ps'
    | GColl _ gs, GColl _ gs' =>
        (fix go (l l' : list (geomT Q)) : Prop :=
           match l, l' with
           | [], [] => True
           | x :: r, y :: r' => geom_sim x y /\ go r r'
           | _, _ => False
           end) gs gs'
    | _, _ => False
    end.

  Lemma geom_sim_coll : forall ct ct' gs gs',
    geom_sim (GColl ct gs) (GColl ct' gs') <-> Forall2 geom_sim gs gs'.
  Proof.
    intros ct ct' gs. cbn [geom_sim]. induction gs as [|x r IH]; intros [|y r']; split; intros H;
      try (constructor; fail); try (exact I); try (inversion H; fail); try (destruct H; fail).
    - destruct H as [H1 H2]. constructor; [assumption|]. apply IH, H2.
    - inversion H; subst. split; [assumption|]. apply IH. assumption.
  Qed.

  Definition is_leaf (g : geomT Q) : Prop := match g with GColl _ _ => False | _ => True end.

  Lemma line_sim_empty : forall l l', line_sim l l' -> line_empty l = line_empty l'.
  Proof. intros l l' [H _]; exact H. Qed.

  (* what measure-equivalence gives for non-collections *)
  Lemma leaf_sim_facts : forall g g', is_leaf g -> geom_sim g g' ->
    is_leaf g' /\ is_empty g = is_empty g' /\ hdim g = hdim g' /\
    geom_area false None g == geom_area false None g' /\
    geom_length sq g == geom_length sq g' /\
    oxy_eq (leaf_centroid sq g) (leaf_centroid sq g').
  Proof.
    intros g g' Hl H. destruct g, g'; cbn [geom_sim is_leaf] in *; try tauto.
    - (* point *)
      assert (E := point_sim_empty _ _ H).
      cbn [is_empty hdim geom_area geom_length leaf_centroid]. rewrite E.
      repeat split; try reflexivity; try exact H.
      all: try (destruct (point_empty p0); reflexivity).
    - (* line *)
      assert (E := line_sim_empty _ _ H).
      cbn [is_empty hdim geom_area geom_length leaf_centroid]. rewrite E.
      repeat split; try reflexivity.
      all: try (apply line_sim_centroid, H).
      all: try (destruct (line_empty l0); [reflexivity|]; destruct H as [_ [Hlen _]]; exact Hlen).
    - (* polygon *)
      assert (E := poly_sim_empty _ _ H).
      cbn [is_empty hdim geom_area geom_length leaf_centroid]. rewrite E.
      repeat split; try reflexivity.
      all: try (apply poly_sim_area', H).
      all: try (apply poly_sim_centroid', H).
      all: try (destruct (poly_empty p0); reflexivity).
    - (* multipoint *)
      assert (E := forallb_Forall2 _ _ (@point_empty Q) (@point_empty Q) point_sim _ _ point_sim_empty H).
      cbn [is_empty hdim geom_area geom_length leaf_centroid]. rewrite E.
      repeat split; try reflexivity.
      all: try (apply mpoint_sim_centroid, H).
      all: try (destruct (forallb _ ps0); reflexivity).
    - (* multiline *)
      assert (E := forallb_Forall2 _ _ (@line_empty Q) (@line_empty Q) line_sim _ _ line_sim_empty H).
      cbn [is_empty hdim geom_area geom_length leaf_centroid]. rewrite E.
      repeat split; try reflexivity.
      all: try (apply mline_sim_centroid, H).
      all: try (destruct (forallb _ ls0); [reflexivity|]; apply mline_sim_length, H).
    - (* multipolygon *)
      assert (E := forallb_Forall2 _ _ (@poly_empty Q) (@poly_empty Q) poly_sim _ _ poly_sim_empty H).
      cbn [is_empty hdim geom_area geom_length leaf_centroid]. rewrite E.
      repeat split; try reflexivity.
      all: try (apply mpoly_sim_area, H).
      all: try (apply mpoly_sim_centroid, H).
      all: try (destruct (forallb _ ps0); reflexivity).
  Qed.
End WithSq.

Lemma Forall2_Forall_l : forall (A B : Type) (R S : A -> B -> Prop) l l',
  Forall (fun x => forall y, R x y -> S x y) l -> Forall2 R l l' -> Forall2 S l l'.
Proof.
  intros A B R S l l' HF H. induction H; [constructor|]. inversion HF; subst. constructor; auto.
Qed.

Lemma Forall2_flat_map : forall (A B C D : Type) (R : A -> B -> Prop) (S : C -> D -> Prop)
    (f : A -> list C) (g : B -> list D) l l',
  Forall2 (fun x y => Forall2 S (f x) (g y)) l l' -> Forall2 S (flat_map f l) (flat_map g l').
Proof.
  intros A B C D R S f g l l' H. induction H; cbn [flat_map]; [constructor|].
  apply Forall2_app; assumption.
Qed.

Lemma Forall_flat_map' : forall (A B : Type) (P : B -> Prop) (f : A -> list B) l,
  Forall (fun x => Forall P (f x)) l -> Forall P (flat_map f l).
Proof.
  intros A B P f l H. induction H; cbn [flat_map]; [constructor|]. apply Forall_app; split; assumption.
Qed.

Lemma Forall2_and_l : forall (A B : Type) (P : A -> Prop) (R : A -> B -> Prop) l l',
  Forall P l -> Forall2 R l l' -> Forall2 (fun x y => P x /\ R x y) l l'.
Proof.
  intros A B P R l l' HP H. induction H; [constructor|]. inversion HP; subst. constructor; auto.
Qed.

Section WithSq2.
  Variable sq : Q -> Q.
  Hypothesis sq_proper : forall a b, a == b -> sq a == sq b.
  Notation gsim := (geom_sim sq).

  Lemma leaves_are_leaves : forall g, Forall is_leaf (leaves g).
  Proof.
    intros g. induction g using geomT_ind'; cbn [leaves]; try (constructor; [exact I|constructor]).
    apply Forall_flat_map'. exact H.
  Qed.

  Lemma geom_sim_leaves : forall g g', gsim g g' -> Forall2 gsim (leaves g) (leaves g').
  Proof.
    intros g. induction g using geomT_ind'; intros g' Hs; destruct g'; cbn [geom_sim] in Hs; try tauto;
      try (cbn [leaves]; constructor; [exact Hs|constructor]).
    apply (proj1 (geom_sim_coll sq ct ct0 gs gs0)) in Hs. cbn [leaves].
    apply (Forall2_flat_map _ _ _ _ gsim). eapply Forall2_Forall_l; [|exact Hs].
    eapply Forall_impl; [|exact H]. intros a Ha y Hy. apply Ha, Hy.
  Qed.

  Definition basic_facts (g g' : geomT Q) : Prop :=
    is_empty g = is_empty g' /\ hdim g = hdim g' /\
    geom_area false None g == geom_area false None g' /\
    geom_length sq g == geom_length sq g'.

  Lemma geom_sim_basic : forall g g', gsim g g' -> basic_facts g g'.
  Proof.
    intros g. induction g using geomT_ind'; intros g' Hs; destruct g'; cbn [geom_sim] in Hs; try tauto.
    1-6: match goal with |- basic_facts ?a ?b =>
           destruct (leaf_sim_facts sq a b I Hs) as [_ [H1 [H2 [H3 [H4 _]]]]];
           repeat split; assumption end.
    apply (proj1 (geom_sim_coll sq ct ct0 gs gs0)) in Hs.
    assert (HF : Forall2 basic_facts gs gs0).
    { eapply Forall2_Forall_l; [|exact Hs]. exact H. }
    assert (He : is_empty (GColl ct gs) = is_empty (GColl ct0 gs0)).
    { cbn [is_empty]. apply (forallb_Forall2 _ _ _ _ basic_facts); [|assumption]. intros a b [Hab _]; exact Hab. }
    unfold basic_facts. split; [exact He|]. split; [|split].
    - cbn [hdim]. rewrite He. destruct (is_empty (GColl ct0 gs0)); [reflexivity|].
      apply (fold_left_rel _ _ _ _ eq basic_facts); [|assumption|reflexivity].
      intros b b' a a' Hb [_ [Hd _]]. congruence.
    - rewrite !coll_area_spec. apply qsum_map_Forall2.
      eapply Forall2_impl'; [|exact HF]. intros a b [_ [_ [Ha _]]]; exact Ha.
    - cbn [geom_length]. rewrite He. destruct (is_empty (GColl ct0 gs0)); [reflexivity|].
      rewrite !(fold_left_qsum _ (geom_length sq)). apply Qplus_comp; [reflexivity|].
      apply qsum_map_Forall2. eapply Forall2_impl'; [|exact HF]. intros a b [_ [_ [_ Hl]]]; exact Hl.
  Qed.

  Definition lsim (x y : geomT Q) : Prop := is_leaf x /\ gsim x y.

  Lemma coll_point_sim : forall lv lv', Forall2 lsim lv lv' ->
    xy_eq (coll_point_centroid lv) (coll_point_centroid lv').
  Proof.
    intros lv lv' H. unfold coll_point_centroid.
    set (F := fun (sn : xy * Z) (g : geomT Q) => match g with
                | GPoint p => points_sum [p] sn | GMPoint _ ps => points_sum ps sn | _ => sn end).
    assert (R : psum_rel (fold_left F lv (xy0, 0%Z)) (fold_left F lv' (xy0, 0%Z))).
    { apply (fold_left_rel _ _ _ _ psum_rel lsim); [|assumption|split; [apply xy_eq_refl|reflexivity]].
      intros b b' a a' Hb [_ Hs]. destruct a, a'; cbn [geom_sim] in Hs; try tauto; unfold F; try assumption.
      - apply points_sum_sim; [constructor; [exact Hs|constructor]|assumption].
      - apply points_sum_sim; assumption. }
    destruct (fold_left F lv (xy0, 0%Z)) as [s n], (fold_left F lv' (xy0, 0%Z)) as [s' n'].
    destruct R as [R1 R2]. cbn [fst snd] in R1, R2. subst n'. apply xy_scale_eq; [assumption|reflexivity].
  Qed.

  Lemma coll_linear_sim : forall lv lv', Forall2 lsim lv lv' ->
    xy_eq (coll_linear_centroid sq lv) (coll_linear_centroid sq lv').
  Proof.
    intros lv lv' H. unfold coll_linear_centroid.
    set (F := fun (acc : Q * xy) (g : geomT Q) => match g with
                | GLine l => lin_step sq acc l | GMLine _ ls => fold_left (lin_step sq) ls acc | _ => acc end).
    assert (R : lin_rel (fold_left F lv (0, xy0)) (fold_left F lv' (0, xy0))).
    { apply (fold_left_rel _ _ _ _ lin_rel lsim); [|assumption|split; [reflexivity|apply xy_eq_refl]].
      intros b b' a a' Hb [_ Hs]. destruct a, a'; cbn [geom_sim] in Hs; try tauto; unfold F; try assumption.
      - apply lin_step_sim; assumption.
      - apply (fold_left_rel _ _ _ _ lin_rel (line_sim sq)); try assumption.
        intros; apply lin_step_sim; assumption. }
    destruct (fold_left F lv (0, xy0)) as [n s], (fold_left F lv' (0, xy0)) as [n' s'].
    destruct R as [R1 R2]. cbn [fst snd] in R1, R2. apply xy_scale_eq; [assumption|]. rewrite R1. reflexivity.
  Qed.

  Lemma coll_areal_sim : forall lv lv', Forall2 lsim lv lv' ->
    xy_eq (coll_areal_centroid sq lv) (coll_areal_centroid sq lv').
  Proof.
    intros lv lv' H. unfold coll_areal_centroid. cbv zeta.
    assert (Hw : Forall2 Qeq (map (geom_area false None) lv) (map (geom_area false None) lv')).
    { eapply Forall2_map; [|exact H]. intros a a' [Hl Hs].
      destruct (leaf_sim_facts sq a a' Hl Hs) as [_ [_ [_ [Ha _]]]]. exact Ha. }
    assert (HS : fold_left Qplus (map (geom_area false None) lv) 0 == fold_left Qplus (map (geom_area false None) lv') 0).
    { apply Forall2_Qeq_fold_Qplus; [assumption|reflexivity]. }
    apply (fold_left_rel _ _ _ _ xy_eq (fun x y => lsim (fst x) (fst y) /\ snd x == snd y)).
    - intros b b' a a' Hb [[Hl Hs] Ha].
      destruct (leaf_sim_facts sq _ _ Hl Hs) as [_ [_ [_ [_ [_ Hc]]]]].
      destruct (leaf_centroid sq (fst a)), (leaf_centroid sq (fst a')); cbn in Hc; try tauto.
      apply xy_add_eq; [assumption|]. apply xy_scale_eq; [assumption|]. apply Qdiv_comp; assumption.
    - apply (Forall2_combine _ _ _ _ lsim Qeq); assumption.
    - apply xy_eq_refl.
  Qed.

  (* the congruence theorem *)
  Lemma geom_sim_measures : forall g g', gsim g g' ->
    geom_area false None g == geom_area false None g' /\
    geom_length sq g == geom_length sq g' /\
    oxy_eq (geom_centroid sq g) (geom_centroid sq g').
  Proof.
    intros g g' Hs. destruct (geom_sim_basic g g' Hs) as [He [Hd [Ha Hl]]].
    split; [exact Ha|]. split; [exact Hl|].
    destruct g.
    1-6: match type of Hs with geom_sim _ ?a _ =>
           destruct (leaf_sim_facts sq a g' I Hs) as [Hlf [_ [_ [_ [_ Hc]]]]] end;
         destruct g'; try exact Hc; destruct Hlf.
    destruct g' as [| | | | | |ct0 gs0]; cbn [geom_sim] in Hs; try tauto.
    cbn [geom_centroid]. unfold coll_centroid.
    cbn [is_empty] in He. rewrite He, Hd.
    destruct (forallb (@is_empty Q) gs0); [exact I|].
    assert (HL : Forall2 lsim (flat_map leaves gs) (flat_map leaves gs0)).
    { unfold lsim. apply Forall2_and_l.
      - apply (leaves_are_leaves (GColl ct gs)).
      - apply (geom_sim_leaves (GColl ct gs) (GColl ct0 gs0)). exact Hs. }
    destruct (hdim (GColl ct0 gs0)) as [|[|k]]; cbn [oxy_eq].
    - apply coll_point_sim, HL.
    - apply coll_linear_sim, HL.
    - apply coll_areal_sim, HL.
  Qed.
End WithSq2.

(* ------------------------------------------------------------------------------------------ *)
(* Lines: length and length-weighted centroid sums as sums over consecutive pairs              *)
(* ------------------------------------------------------------------------------------------ *)
Lemma xy_eqb_sym : forall a b, xy_eqb a b = xy_eqb b a.
Proof.
  intros a b. unfold xy_eqb.
  assert (E : forall x y, Qeq_bool x y = Qeq_bool y x).
  { intros x y. destruct (Qeq_bool x y) eqn:E1, (Qeq_bool y x) eqn:E2; try reflexivity.
    - apply Qeq_bool_iff in E1. symmetry in E1. apply Qeq_bool_iff in E1. congruence.
    - apply Qeq_bool_iff in E2. symmetry in E2. apply Qeq_bool_iff in E2. congruence. }
  rewrite (E (fst a)), (E (snd a)). reflexivity.
Qed.

Section Lines.
  Variable sq : Q -> Q.
  Hypothesis sq_proper : forall a b, a == b -> sq a == sq b.

  Definition e_len (a b : xy) : Q := xy_len sq (xy_sub a b).
  Definition e_sl (a b : xy) : Q := if xy_eqb a b then 0 else xy_len sq (xy_sub b a).
  Definition e_sx (a b : xy) : Q :=
    if xy_eqb a b then 0 else (1 # 2) * (fst a + fst b) * xy_len sq (xy_sub b a).
  Definition e_sy (a b : xy) : Q :=
    if xy_eqb a b then 0 else (1 # 2) * (snd a + snd b) * xy_len sq (xy_sub b a).

  Lemma length_loop_pairsum : forall r s a, length_loop sq s a r == s + pairsum e_len a r.
  Proof.
    induction r as [|b r IH]; intros s a; cbn [length_loop pairsum]; [ring|].
    rewrite IH. unfold e_len. ring.
  Qed.
  Lemma length_xy_psum : forall L, length_xy sq L == psum e_len L.
  Proof. intros [|a r]; cbn [length_xy psum]; [reflexivity|]. rewrite length_loop_pairsum. ring. Qed.

  Lemma xy_len_swap : forall a b, xy_len sq (xy_sub a b) == xy_len sq (xy_sub b a).
  Proof. intros a b. unfold xy_len, xy_sub. cbn [fst snd]. apply sq_proper. ring. Qed.

  Lemma length_xy_rev : forall L, length_xy sq (rev L) == length_xy sq L.
  Proof.
    intros L. rewrite !length_xy_psum. apply psum_rev_sym. intros a b. unfold e_len. apply xy_len_swap.
  Qed.

  Lemma length_xy_app : forall a b x, length_xy sq (a ++ x :: b) == length_xy sq (a ++ [x]) + length_xy sq (x :: b).
  Proof.
    intros a b x. rewrite !length_xy_psum. destruct a as [|y a]; cbn [app psum pairsum]; [ring|].
    rewrite !pairsum_app. cbn [pairsum]. ring.
  Qed.

  Lemma sumcl_loop_pairsum : forall r c n a,
    fst (fst (sumcl_loop sq c n a r)) == fst c + pairsum e_sx a r /\
    snd (fst (sumcl_loop sq c n a r)) == snd c + pairsum e_sy a r /\
    snd (sumcl_loop sq c n a r) == n + pairsum e_sl a r.
  Proof.
    induction r as [|b r IH]; intros c n a; cbn [sumcl_loop pairsum].
    - cbn [fst snd]. repeat split; ring.
    - unfold e_sx at 1, e_sy at 1, e_sl at 1. destruct (xy_eqb a b).
      + destruct (IH c n b) as [H1 [H2 H3]]. rewrite H1, H2, H3. repeat split; ring.
      + cbv zeta.
        match goal with |- context [sumcl_loop sq ?c' ?n' b r] => destruct (IH c' n' b) as [H1 [H2 H3]] end.
        rewrite H1, H2, H3. unfold xy_add, xy_scale. cbn [fst snd]. repeat split; ring.
  Qed.

  Lemma sumcl_xy_psum : forall L,
    fst (fst (sumcl_xy sq L)) == psum e_sx L /\
    snd (fst (sumcl_xy sq L)) == psum e_sy L /\
    snd (sumcl_xy sq L) == psum e_sl L.
  Proof.
    intros [|a r]; cbn [sumcl_xy psum].
    - cbn. repeat split; reflexivity.
    - destruct (sumcl_loop_pairsum r xy0 0 a) as [H1 [H2 H3]]. rewrite H1, H2, H3. cbn [xy0 fst snd].
      repeat split; ring.
  Qed.

  Lemma sumcl_xy_rev : forall L, acc_rel (sumcl_xy sq (rev L)) (sumcl_xy sq L).
  Proof.
    intros L. destruct (sumcl_xy_psum (rev L)) as [H1 [H2 H3]], (sumcl_xy_psum L) as [G1 [G2 G3]].
    unfold acc_rel, xy_eq. rewrite H1, H2, H3, G1, G2, G3.
    repeat split; apply psum_rev_sym; intros a b; unfold e_sx, e_sy, e_sl;
      rewrite (xy_eqb_sym b a); destruct (xy_eqb a b); try reflexivity;
      rewrite (xy_len_swap a b); ring.
  Qed.

  Lemma line_rev_empty : forall l, line_empty (line_rev l) = line_empty l.
  Proof.
    intros [ct vs]. unfold line_empty. cbn [line_rev line_vs].
    destruct vs as [|v vs]; [reflexivity|]. cbn [rev]. destruct (rev vs); reflexivity.
  Qed.

  Lemma line_sim_rev : forall l, line_sim sq l (line_rev l).
  Proof.
    intros l. unfold line_sim, line_length, sum_centroid_length. rewrite line_rev_empty, line_xys_rev.
    destruct (sumcl_xy_rev (line_xys l)) as [H1 H2].
    split; [reflexivity|]. split; [symmetry; apply length_xy_rev|].
    split; [apply xy_eq_sym; exact H1|symmetry; exact H2].
  Qed.

  Lemma line_sim_of_xys : forall l l', line_xys l = line_xys l' -> line_sim sq l l'.
  Proof.
    intros l l' H. unfold line_sim, line_length, sum_centroid_length. rewrite H.
    split.
    - destruct l as [ct vs], l' as [ct' vs']. unfold line_xys, line_empty in *. cbn [line_vs] in *.
      destruct vs, vs'; try reflexivity; discriminate.
    - split; [reflexivity|]. split; [apply xy_eq_refl|reflexivity].
  Qed.

  (* translation *)
  Lemma xy_eqb_translate : forall t a b, xy_eqb (translate t a) (translate t b) = xy_eqb a b.
  Proof.
    intros t a b. unfold xy_eqb, translate, xy_add. cbn [fst snd].
    assert (E : forall x y z, Qeq_bool (x + z) (y + z) = Qeq_bool x y).
    { intros x y z. destruct (Qeq_bool (x + z) (y + z)) eqn:E1, (Qeq_bool x y) eqn:E2; try reflexivity.
      - apply Qeq_bool_iff in E1. apply Qplus_inj_r in E1. apply Qeq_bool_iff in E1. congruence.
      - apply Qeq_bool_iff in E2. assert (E : x + z == y + z) by (rewrite E2; reflexivity).
        apply Qeq_bool_iff in E. congruence. }
    rewrite !E. reflexivity.
  Qed.

  Lemma xy_len_translate : forall t a b,
    xy_len sq (xy_sub (translate t a) (translate t b)) == xy_len sq (xy_sub a b).
  Proof. intros. unfold xy_len, xy_sub, translate, xy_add. cbn [fst snd]. apply sq_proper. ring. Qed.

  Lemma length_xy_translate : forall t L, length_xy sq (map (translate t) L) == length_xy sq L.
  Proof.
    intros t L. rewrite !length_xy_psum. destruct L as [|a r]; cbn [map psum]; [reflexivity|].
    rewrite pairsum_map. apply pairsum_ext. intros p q. unfold e_len. apply xy_len_translate.
  Qed.

  Lemma sumcl_xy_translate : forall t L,
    fst (fst (sumcl_xy sq (map (translate t) L))) == fst (fst (sumcl_xy sq L)) + fst t * snd (sumcl_xy sq L) /\
    snd (fst (sumcl_xy sq (map (translate t) L))) == snd (fst (sumcl_xy sq L)) + snd t * snd (sumcl_xy sq L) /\
    snd (sumcl_xy sq (map (translate t) L)) == snd (sumcl_xy sq L).
  Proof.
    intros t L. destruct (sumcl_xy_psum (map (translate t) L)) as [H1 [H2 H3]], (sumcl_xy_psum L) as [G1 [G2 G3]].
    rewrite H1, H2, H3, G1, G2, G3. destruct L as [|a r]; cbn [map psum]; [repeat split; ring|].
    rewrite !pairsum_map.
    rewrite (pairsum_ext _ (fun p q => e_sx p q + fst t * e_sl p q)).
    2:{ intros p q. unfold e_sx, e_sl. rewrite xy_eqb_translate. destruct (xy_eqb p q); [ring|].
        rewrite xy_len_translate. unfold translate, xy_add. cbn [fst snd]. field. }
    rewrite (pairsum_ext (fun a0 b => e_sy (translate t a0) (translate t b)) (fun p q => e_sy p q + snd t * e_sl p q)).
    2:{ intros p q. unfold e_sy, e_sl. rewrite xy_eqb_translate. destruct (xy_eqb p q); [ring|].
        rewrite xy_len_translate. unfold translate, xy_add. cbn [fst snd]. field. }
    rewrite (pairsum_ext (fun a0 b => e_sl (translate t a0) (translate t b)) e_sl).
    2:{ intros p q. unfold e_sl. rewrite xy_eqb_translate. destruct (xy_eqb p q); [reflexivity|].
        apply xy_len_translate. }
    rewrite !pairsum_plus, !pairsum_scale. repeat split; reflexivity.
  Qed.
End Lines.

(* ------------------------------------------------------------------------------------------ *)
(* Instances of measure-equivalence: Reverse, ForceCW/CCW, ring rotation, Z/M removal          *)
(* ------------------------------------------------------------------------------------------ *)
Lemma Forall2_refl' : forall (A : Type) (R : A -> A -> Prop) l, (forall x, R x x) -> Forall2 R l l.
Proof. induction l; constructor; auto. Qed.
Lemma Forall2_map_r_Forall : forall (A B : Type) (R : A -> B -> Prop) (f : A -> B) l,
  Forall (fun x => R x (f x)) l -> Forall2 R l (map f l).
Proof. induction 1; cbn [map]; constructor; auto. Qed.
Lemma Forall_flat_map_inv : forall (A B : Type) (P : B -> Prop) (f : A -> list B) l,
  Forall P (flat_map f l) -> Forall (fun x => Forall P (f x)) l.
Proof.
  induction l as [|x l IH]; cbn [flat_map]; intros H; constructor.
  - apply Forall_app in H. tauto.
  - apply IH. apply Forall_app in H. tauto.
Qed.

Lemma ring_sim_refl : forall r, ring_sim r r.
Proof. intros; split; [reflexivity|apply xy_eq_refl]. Qed.

Lemma ring_sim_rev : forall r, is_cycle (line_xys r) -> ring_sim r (line_rev r).
Proof.
  intros r [l Hl]. split.
  - symmetry. apply Qabs_opp_eq. apply ring_area_rev.
  - unfold centroid_of_ring. rewrite line_xys_rev, Hl. apply xy_eq_sym, centroid_ring_reverse_lemma.
Qed.

Lemma ring_sim_rotated : forall r r', ring_rotated r r' -> ring_sim r r'.
Proof.
  intros r r' [l [k [H1 H2]]]. split.
  - rewrite !ring_area_none, H1, H2. rewrite area_rotate_lemma. reflexivity.
  - unfold centroid_of_ring. rewrite H1, H2. apply xy_eq_sym, centroid_ring_rotate_lemma.
Qed.

Lemma ring_sim_of_xys : forall r r', line_xys r = line_xys r' -> ring_sim r r'.
Proof.
  intros r r' H. split.
  - rewrite !ring_area_none, H. reflexivity.
  - unfold centroid_of_ring. rewrite H. apply xy_eq_refl.
Qed.

Section Instances.
  Variable sq : Q -> Q.
  Hypothesis sq_proper : forall a b, a == b -> sq a == sq b.

  Lemma line_sim_refl : forall l, line_sim sq l l.
  Proof. intros. apply line_sim_of_xys. reflexivity. Qed.
  Lemma point_sim_refl : forall p, point_sim p p.
  Proof. intros. apply oxy_eq_refl. Qed.

  Lemma poly_sim_rev : forall p, Forall (fun r => is_cycle (line_xys r)) (poly_rings p) -> poly_sim p (poly_rev p).
  Proof.
    intros [ct rs] H. unfold poly_sim. cbn [poly_rev poly_rings] in *.
    apply Forall2_map_r_Forall. eapply Forall_impl; [|exact H]. intros; apply ring_sim_rev; assumption.
  Qed.

  Lemma geom_sim_rev : forall g, rings_are_cycles g -> geom_sim sq g (geom_rev g).
  Proof.
    intros g. unfold rings_are_cycles.
    induction g using geomT_ind'; intros Hc; cbn [geom_rev geom_sim geom_rings] in *.
    - apply point_sim_refl.
    - apply line_sim_rev, sq_proper.
    - apply poly_sim_rev, Hc.
    - apply Forall2_refl', point_sim_refl.
    - apply Forall2_map_r_Forall. apply Forall_forall. intros; apply line_sim_rev, sq_proper.
    - apply Forall2_map_r_Forall. apply Forall_flat_map_inv in Hc.
      eapply Forall_impl; [|exact Hc]. intros; apply poly_sim_rev; assumption.
    - apply (proj2 (geom_sim_coll sq ct ct gs (map geom_rev gs))).
      apply Forall2_map_r_Forall. apply Forall_flat_map_inv in Hc.
      rewrite Forall_forall in *. intros x Hx. apply H; [assumption|]. apply Hc; assumption.
  Qed.

  (* forceOrientation keeps or reverses each ring *)
  Lemma force_orientation_rings : forall cw ct rs, exists rs',
    force_orientation cw (MkPoly ct rs) = MkPoly ct rs' /\
    Forall2 (fun r r' => r' = r \/ r' = line_rev r) rs rs'.
  Proof.
    intros cw ct rs. unfold force_orientation.
    set (F := fun (st : bool * list (lineT Q)) (ring : lineT Q) =>
                let '(first, acc) := st in
                let alreadyCW := negb (Qle_bool 0 (ring_area None ring)) in
                let keep := Bool.eqb first (Bool.eqb alreadyCW cw) in
                (false, acc ++ [if keep then ring else line_rev ring])).
    assert (G : forall rs first acc, exists tl,
               snd (fold_left F rs (first, acc)) = acc ++ tl /\
               Forall2 (fun r r' => r' = r \/ r' = line_rev r) rs tl).
    { induction rs0 as [|r rs0 IH]; intros first acc; cbn [fold_left].
      - exists []. rewrite app_nil_r. split; [reflexivity|constructor].
      - unfold F at 2. cbv zeta.
        match goal with |- context [fold_left F rs0 (false, acc ++ [?x])] =>
          destruct (IH false (acc ++ [x])) as [tl [E1 E2]]; exists (x :: tl) end.
        split; [rewrite E1, <- app_assoc; reflexivity|].
        constructor; [|assumption]. destruct (Bool.eqb first _); [left|right]; reflexivity. }
    destruct (G rs true []) as [tl [E1 E2]]. exists tl. cbn [app] in E1. rewrite E1. split; [reflexivity|assumption].
  Qed.

  Lemma poly_sim_force : forall cw p, Forall (fun r => is_cycle (line_xys r)) (poly_rings p) ->
    poly_sim p (force_orientation cw p).
  Proof.
    intros cw [ct rs] H. destruct (force_orientation_rings cw ct rs) as [rs' [E F2]]. rewrite E.
    unfold poly_sim. cbn [poly_rings] in *. clear E. induction F2; [constructor|].
    inversion H; subst. constructor; [|apply IHF2; assumption].
    destruct H0 as [->| ->]; [apply ring_sim_refl|apply ring_sim_rev; assumption].
  Qed.

  Lemma geom_sim_refl : forall g, geom_sim sq g g.
  Proof.
    induction g using geomT_ind'; cbn [geom_sim].
    - apply point_sim_refl.
    - apply line_sim_refl.
    - apply Forall2_refl', ring_sim_refl.
    - apply Forall2_refl', point_sim_refl.
    - apply Forall2_refl', line_sim_refl.
    - apply Forall2_refl'. intros; apply Forall2_refl', ring_sim_refl.
    - apply (proj2 (geom_sim_coll sq ct ct gs gs)). induction H; constructor; auto.
  Qed.

  Lemma geom_sim_force_orientation : forall cw g, rings_are_cycles g ->
    geom_sim sq g (geom_force_orientation cw g).
  Proof.
    intros cw g. unfold rings_are_cycles.
    induction g using geomT_ind'; intros Hc; cbn [geom_force_orientation geom_sim geom_rings] in *;
      try apply (geom_sim_refl (GPoint p)); try apply (geom_sim_refl (GLine l));
      try apply (geom_sim_refl (GMPoint ct ps)); try apply (geom_sim_refl (GMLine ct ls)).
    - apply poly_sim_force, Hc.
    - apply Forall2_map_r_Forall. apply Forall_flat_map_inv in Hc.
      eapply Forall_impl; [|exact Hc]. intros; apply poly_sim_force; assumption.
    - apply (proj2 (geom_sim_coll sq ct ct gs (map (geom_force_orientation cw) gs))).
      apply Forall2_map_r_Forall. apply Forall_flat_map_inv in Hc.
      rewrite Forall_forall in *. intros x Hx. apply H; [assumption|]. apply Hc; assumption.
  Qed.

  Lemma geom_sim_force : forall cw g, rings_are_cycles g -> geom_sim sq g (geom_force cw g).
  Proof.
    intros cw g H. unfold geom_force. destruct (geom_oriented cw g); [apply geom_sim_refl|].
    apply geom_sim_force_orientation, H.
  Qed.

  Lemma rings_related_sim : forall (R : lineT Q -> lineT Q -> Prop), (forall r r', R r r' -> ring_sim r r') ->
    forall g g', rings_related R g g' -> geom_sim sq g g'.
  Proof.
    intros R HR g. induction g using geomT_ind'; intros g' Hr; destruct g'; cbn [rings_related] in Hr; try tauto;
      cbn [geom_sim]; subst;
      try apply point_sim_refl; try apply line_sim_refl;
      try (apply Forall2_refl'; first [apply point_sim_refl|apply line_sim_refl]).
    - unfold poly_sim. eapply Forall2_impl'; [|exact Hr]. exact HR.
    - eapply Forall2_impl'; [|exact Hr]. intros a b Hab. unfold poly_sim. eapply Forall2_impl'; [|exact Hab]. exact HR.
    - apply (proj2 (geom_sim_coll sq ct ct0 gs gs0)).
      revert gs0 Hr. induction H as [|x r Hx Hf IH]; intros [|y r'] Hr; try tauto; constructor.
      + apply Hx. tauto.
      + apply IH. tauto.
  Qed.

  Lemma vxy_2d : forall v, vxy (vtx_2d v) = vxy v.
  Proof. reflexivity. Qed.
  Lemma line_xys_2d : forall l, line_xys (line_2d l) = line_xys l.
  Proof. intros [ct vs]. unfold line_xys. cbn [line_2d line_vs]. rewrite map_map. reflexivity. Qed.
  Lemma point_xy_2d : forall p, point_xy (point_2d p) = point_xy p.
  Proof. intros [ct [v|]]; reflexivity. Qed.

  Lemma poly_sim_2d : forall p, poly_sim p (poly_2d p).
  Proof.
    intros [ct rs]. unfold poly_sim. cbn [poly_2d poly_rings]. apply Forall2_map_r_Forall.
    apply Forall_forall. intros r _. apply ring_sim_of_xys. symmetry; apply line_xys_2d.
  Qed.

  Lemma geom_sim_2d : forall g, geom_sim sq g (geom_2d g).
  Proof.
    induction g using geomT_ind'; cbn [geom_2d geom_sim].
    - unfold point_sim. rewrite point_xy_2d. apply oxy_eq_refl.
    - apply line_sim_of_xys. symmetry; apply line_xys_2d.
    - apply poly_sim_2d.
    - apply Forall2_map_r_Forall. apply Forall_forall. intros p _. unfold point_sim. rewrite point_xy_2d. apply oxy_eq_refl.
    - apply Forall2_map_r_Forall. apply Forall_forall. intros l _. apply line_sim_of_xys. symmetry; apply line_xys_2d.
    - apply Forall2_map_r_Forall. apply Forall_forall. intros p _. apply poly_sim_2d.
    - apply (proj2 (geom_sim_coll sq ct XY gs (map geom_2d gs))). apply Forall2_map_r_Forall. exact H.
  Qed.
End Instances.

(* signed / transformed areas do not see Z and M either *)
Lemma poly_area_2d : forall s tr p, poly_area s tr p == poly_area s tr (poly_2d p).
Proof.
  intros s tr [ct rs]. cbn [poly_2d]. apply poly_area_congr. apply Forall2_map_r_Forall.
  apply Forall_forall. intros r _. unfold ring_area. rewrite line_xys_2d. reflexivity.
Qed.

Lemma area_2d : forall s tr g, geom_area s tr g == geom_area s tr (geom_2d g).
Proof.
  intros s tr g. induction g using geomT_ind'; cbn [geom_2d]; try reflexivity.
  - apply poly_area_2d.
  - cbn [geom_area]. rewrite !mpoly_area_spec, map_map. apply qsum_map_ext_all. intros; apply poly_area_2d.
  - rewrite !coll_area_spec, map_map. apply qsum_map_ext. exact H.
Qed.

(* ------------------------------------------------------------------------------------------ *)
(* Weighted sums in order-free form: multipolygon and collection centroids                     *)
(* ------------------------------------------------------------------------------------------ *)
Lemma fold_left_xy_qsum : forall (A : Type) (F : xy -> A -> xy) (fx fy : A -> Q),
  (forall w a, fst (F w a) == fst w + fx a /\ snd (F w a) == snd w + fy a) ->
  forall l w, fst (fold_left F l w) == fst w + qsum (map fx l) /\
              snd (fold_left F l w) == snd w + qsum (map fy l).
Proof.
  intros A F fx fy HF l; induction l as [|a l IH]; intros w; cbn [fold_left map].
  - cbn. split; ring.
  - destruct (IH (F w a)) as [H1 H2]. destruct (HF w a) as [G1 G2].
    rewrite H1, H2, G1, G2, !qsum_cons. split; ring.
Qed.

Lemma combine_map_r : forall (A B : Type) (f : A -> B) l, combine l (map f l) = map (fun x => (x, f x)) l.
Proof. induction l as [|x l IH]; cbn [map combine]; [reflexivity|]. rewrite IH. reflexivity. Qed.


Lemma wsum_div : forall (A : Type) (c w : A -> Q) (T : Q) l,
  qsum (map (fun x => c x * (w x / T)) l) == qsum (map (fun x => w x * c x) l) / T.
Proof.
  intros. unfold Qdiv. rewrite <- qsum_map_scale. apply qsum_map_ext_all. intros; ring.
Qed.

(* polygon: rings weighted by +|shell| and -|hole| *)
Definition ring_w (first : bool) (r : lineT Q) : Q :=
  if first then Qabs (ring_area None r) else - Qabs (ring_area None r).

Lemma poly_centroid_spec : forall ct sh hs,
  let S := ring_w true sh + qsum (map (ring_w false) hs) in
  exists c, poly_centroid (MkPoly ct (sh :: hs)) = Some c /\
    fst c == (ring_w true sh * fst (centroid_of_ring sh)
              + qsum (map (fun h => ring_w false h * fst (centroid_of_ring h)) hs)) / S /\
    snd c == (ring_w true sh * snd (centroid_of_ring sh)
              + qsum (map (fun h => ring_w false h * snd (centroid_of_ring h)) hs)) / S /\
    poly_area false None (MkPoly ct (sh :: hs)) == S.
Proof.
  intros ct sh hs S. unfold poly_centroid. cbn [poly_rings]. cbv zeta.
  eexists. split; [reflexivity|].
  rewrite combine_map_r.
  set (T := fold_left Qplus (map (fun h => - Qabs (ring_area None h)) hs) (Qabs (ring_area None sh))).
  assert (HT : T == S).
  { unfold T, S, ring_w. rewrite fold_left_Qplus. reflexivity. }
  match goal with |- context [fold_left ?F (map ?g hs) ?w0] =>
    destruct (fold_left_xy_qsum _ F
                (fun ha => fst (centroid_of_ring (fst ha)) * (snd ha / T))
                (fun ha => snd (centroid_of_ring (fst ha)) * (snd ha / T))
                (fun w a => conj (Qeq_refl _) (Qeq_refl _)) (map g hs) w0) as [H1 H2] end.
  rewrite H1, H2, !map_map. cbn [fst snd]. unfold weighted_centroid, xy_scale. cbn [fst snd].
  split; [|split].
  - rewrite (wsum_div _ (fun x => fst (centroid_of_ring x)) (fun x => - Qabs (ring_area None x)) T hs).
    rewrite <- HT. unfold ring_w, Qdiv. ring.
  - rewrite (wsum_div _ (fun x => snd (centroid_of_ring x)) (fun x => - Qabs (ring_area None x)) T hs).
    rewrite <- HT. unfold ring_w, Qdiv. ring.
  - rewrite poly_area_spec. unfold S, shell_term, hole_term, ring_w. reflexivity.
Qed.

(* multipolygon: members weighted by their areas *)
Lemma mpoly_centroid_spec : forall ps, forallb (@poly_empty Q) ps = false ->
  let T := qsum (map (poly_area false None) ps) in
  exists c, mpoly_centroid ps = Some c /\
    fst c == qsum (map (fun p => poly_area false None p * ocx (poly_centroid p)) ps) / T /\
    snd c == qsum (map (fun p => poly_area false None p * ocy (poly_centroid p)) ps) / T.
Proof.
  intros ps He T. unfold mpoly_centroid. rewrite He. cbv zeta. eexists. split; [reflexivity|].
  rewrite combine_map_r.
  set (T' := fold_left Qplus (map (poly_area false None) ps) 0).
  assert (HT : T' == T) by (unfold T', T; rewrite fold_left_Qplus; ring).
  match goal with |- context [fold_left ?F (map ?g ps) xy0] =>
    destruct (fold_left_xy_qsum _ F
                (fun pa => ocx (poly_centroid (fst pa)) * (snd pa / T'))
                (fun pa => ocy (poly_centroid (fst pa)) * (snd pa / T'))) with (l := map g ps) (w := xy0) as [H1 H2] end.
  { intros w a. destruct (poly_centroid (fst a)); cbn [ocx ocy xy_add xy_scale fst snd]; split; ring. }
  rewrite H1, H2, !map_map. cbn [fst snd xy0]. rewrite <- HT.
  rewrite (wsum_div _ (fun p => ocx (poly_centroid p)) (poly_area false None) T' ps).
  rewrite (wsum_div _ (fun p => ocy (poly_centroid p)) (poly_area false None) T' ps).
  split; ring.
Qed.

Lemma coll_areal_spec : forall sq lv,
  let T := qsum (map (geom_area false None) lv) in
  fst (coll_areal_centroid sq lv) ==
    qsum (map (fun g => geom_area false None g * ocx (leaf_centroid sq g)) lv) / T /\
  snd (coll_areal_centroid sq lv) ==
    qsum (map (fun g => geom_area false None g * ocy (leaf_centroid sq g)) lv) / T.
Proof.
  intros sq lv T. unfold coll_areal_centroid. cbv zeta. rewrite combine_map_r.
  set (T' := fold_left Qplus (map (geom_area false None) lv) 0).
  assert (HT : T' == T) by (unfold T', T; rewrite fold_left_Qplus; ring).
  match goal with |- context [fold_left ?F (map ?g lv) xy0] =>
    destruct (fold_left_xy_qsum _ F
                (fun ga => ocx (leaf_centroid sq (fst ga)) * (snd ga / T'))
                (fun ga => ocy (leaf_centroid sq (fst ga)) * (snd ga / T'))) with (l := map g lv) (w := xy0) as [H1 H2] end.
  { intros w a. destruct (leaf_centroid sq (fst a)); cbn [ocx ocy xy_add xy_scale fst snd]; split; ring. }
  rewrite H1, H2, !map_map. cbn [fst snd xy0]. rewrite <- HT.
  rewrite (wsum_div _ (fun g => ocx (leaf_centroid sq g)) (geom_area false None) T' lv).
  rewrite (wsum_div _ (fun g => ocy (leaf_centroid sq g)) (geom_area false None) T' lv).
  split; ring.
Qed.

(* ---- the dimension rule ---- *)

Lemma qsum_filter : forall (A : Type) (f : A -> bool) (h : A -> Q) l,
  (forall x, f x = false -> h x == 0) -> qsum (map h (filter f l)) == qsum (map h l).
Proof.
  intros A f h l H. induction l as [|x l IH]; cbn [filter map]; [reflexivity|].
  destruct (f x) eqn:E; cbn [map]; rewrite !qsum_cons, IH; [reflexivity|]. rewrite (H x E). ring.
Qed.

Lemma qsum_zero : forall (A : Type) (h : A -> Q) l, (forall x, In x l -> h x == 0) -> qsum (map h l) == 0.
Proof.
  induction l as [|x l IH]; intros H; cbn [map]; [reflexivity|].
  rewrite qsum_cons, (H x (or_introl eq_refl)), IH; [ring|]. intros; apply H; right; assumption.
Qed.

Lemma poly_empty_area : forall s tr p, poly_empty p = true -> poly_area s tr p = 0.
Proof. intros s tr [ct [|r rs]] H; [reflexivity|discriminate]. Qed.

Lemma leaf_not_areal_or_empty_area : forall g, is_leaf g ->
  (is_areal g && negb (is_empty g))%bool = false -> geom_area false None g == 0.
Proof.
  intros g Hl H. destruct g; cbn [is_areal is_empty andb negb geom_area] in *; try reflexivity.
  - destruct (poly_empty p) eqn:E; [|discriminate]. rewrite poly_empty_area by assumption. reflexivity.
  - destruct (forallb (@poly_empty Q) ps) eqn:E; [|discriminate].
    rewrite mpoly_area_spec. apply qsum_zero. intros x Hx. rewrite forallb_forall in E.
    rewrite poly_empty_area; [reflexivity|]. apply E, Hx.
  - destruct Hl.
Qed.

(* areal members dominate: lineal and puntal leaves and empty areal leaves contribute nothing *)
Lemma areal_dominates_lemma : forall sq lv, Forall is_leaf lv ->
  xy_eq (coll_areal_centroid sq lv)
        (coll_areal_centroid sq (filter (fun g => is_areal g && negb (is_empty g))%bool lv)).
Proof.
  intros sq lv Hl.
  set (f := fun g : geomT Q => (is_areal g && negb (is_empty g))%bool).
  destruct (coll_areal_spec sq lv) as [H1 H2], (coll_areal_spec sq (filter f lv)) as [G1 G2].
  assert (Z0 : forall x, In x lv -> f x = false -> geom_area false None x == 0).
  { intros x Hx E. apply leaf_not_areal_or_empty_area; [|exact E]. rewrite Forall_forall in Hl. apply Hl, Hx. }
  assert (QF : forall h : geomT Q -> Q, (forall x, In x lv -> f x = false -> h x == 0) ->
               qsum (map h (filter f lv)) == qsum (map h lv)).
  { intros h Hh. clear -Hh. induction lv as [|x l IH]; cbn [filter map]; [reflexivity|].
    destruct (f x) eqn:E; cbn [map]; rewrite !qsum_cons, IH.
    - reflexivity. - intros y Hy; apply Hh; right; assumption.
    - rewrite (Hh x (or_introl eq_refl) E). ring. - intros y Hy; apply Hh; right; assumption. }
  unfold xy_eq. rewrite H1, H2, G1, G2.
  rewrite (QF (geom_area false None) Z0).
  rewrite (QF (fun g => geom_area false None g * ocx (leaf_centroid sq g)))
    by (intros x Hx E; rewrite (Z0 x Hx E); ring).
  rewrite (QF (fun g => geom_area false None g * ocy (leaf_centroid sq g)))
    by (intros x Hx E; rewrite (Z0 x Hx E); ring).
  split; reflexivity.
Qed.

Lemma lineal_only_lemma : forall sq lv,
  coll_linear_centroid sq lv = coll_linear_centroid sq (filter is_lineal lv).
Proof.
  intros sq lv. unfold coll_linear_centroid.
  match goal with |- context [fold_left ?F lv ?a] =>
    assert (E : forall l acc, fold_left F l acc = fold_left F (filter is_lineal l) acc) end.
  { induction l as [|x l IH]; intros acc; cbn [filter fold_left]; [reflexivity|].
    destruct x; cbn [is_lineal fold_left]; apply IH. }
  rewrite (E lv). reflexivity.
Qed.

Lemma puntal_only_lemma : forall lv,
  coll_point_centroid lv = coll_point_centroid (filter is_puntal lv).
Proof.
  intros lv. unfold coll_point_centroid.
  match goal with |- context [fold_left ?F lv ?a] =>
    assert (E : forall l acc, fold_left F l acc = fold_left F (filter is_puntal l) acc) end.
  { induction l as [|x l IH]; intros acc; cbn [filter fold_left]; [reflexivity|].
    destruct x; cbn [is_puntal fold_left]; apply IH. }
  rewrite (E lv). reflexivity.
Qed.

(* the dimension that selects the rule: the largest dimension of a non-empty leaf *)

Lemma fold_max_spec : forall (A : Type) (f : A -> nat) l d,
  fold_left (fun d x => Nat.max d (f x)) l d = Nat.max d (list_max (map f l)).
Proof.
  induction l as [|x l IH]; intros d; cbn [fold_left map list_max fold_right]; [lia|].
  rewrite IH. fold (list_max (map f l)). lia.
Qed.

Lemma is_empty_leaves : forall g, is_empty g = forallb (@is_empty Q) (leaves g).
Proof.
  induction g using geomT_ind'; cbn [leaves is_empty forallb]; try (rewrite andb_true_r; reflexivity).
  induction H as [|x l Hx Hl IH]; cbn [forallb flat_map]; [reflexivity|].
  rewrite forallb_app, <- Hx, IH. reflexivity.
Qed.

Lemma list_max_app' : forall a b, list_max (a ++ b) = Nat.max (list_max a) (list_max b).
Proof. intros. apply list_max_app. Qed.

Lemma hdim_leaves : forall g, hdim g = list_max (map leaf_dim (leaves g)).
Proof.
  induction g using geomT_ind'.
  1-6: unfold leaf_dim; cbn [leaves map list_max fold_right hdim is_areal is_lineal];
       match goal with |- context [is_empty ?x] => destruct (is_empty x) end; reflexivity.
  cbn [hdim leaves]. destruct (is_empty (GColl ct gs)) eqn:E.
  - rewrite is_empty_leaves in E. cbn [leaves] in E. symmetry.
    assert (G : forall l, forallb (@is_empty Q) l = true -> list_max (map leaf_dim l) = 0%nat).
    { induction l as [|x l IH]; cbn [forallb map]; intros Hf; [reflexivity|].
      apply andb_true_iff in Hf. destruct Hf as [Hx Hl]. cbn [list_max fold_right]. fold (list_max (map leaf_dim l)).
      rewrite (IH Hl). unfold leaf_dim. rewrite Hx. reflexivity. }
    apply G, E.
  - rewrite fold_max_spec. cbn [Nat.max].
    clear E. induction H as [|x l Hx Hl IH]; cbn [map flat_map]; [reflexivity|].
    rewrite map_app, list_max_app'. cbn [list_max fold_right]. fold (list_max (map hdim l)).
    rewrite Hx, IH. reflexivity.
Qed.

(* ---- order-free forms of the point and linear collection centroids ---- *)

Lemma points_sum_spec : forall ps s n,
  fst (fst (points_sum ps (s, n))) == fst s + qsum (map pcx ps) /\
  snd (fst (points_sum ps (s, n))) == snd s + qsum (map pcy ps) /\
  snd (points_sum ps (s, n)) = (n + zsum (map pcn ps))%Z.
Proof.
  induction ps as [|p ps IH]; intros s n.
  - cbn. repeat split; try ring; try lia.
  - change (points_sum (p :: ps) (s, n)) with
      (points_sum ps (match point_xy p with Some c => (xy_add s c, (n + 1)%Z) | None => (s, n) end)).
    cbn [map]. unfold pcx at 1, pcy at 1, pcn at 1.
    destruct (point_xy p) as [c|]; cbn [ocx ocy].
    + destruct (IH (xy_add s c) (n + 1)%Z) as [H1 [H2 H3]]. rewrite H1, H2, H3.
      cbn [zsum fold_right]. fold (zsum (map pcn ps)). rewrite !qsum_cons. unfold xy_add. cbn [fst snd].
      repeat split; try ring; try lia.
    + destruct (IH s n) as [H1 [H2 H3]]. rewrite H1, H2, H3.
      cbn [zsum fold_right]. fold (zsum (map pcn ps)). rewrite !qsum_cons.
      repeat split; try ring; try lia.
Qed.


Lemma coll_point_spec : forall lv,
  let N := zsum (map gpn lv) in
  fst (coll_point_centroid lv) == qsum (map gpx lv) * (1 / inject_Z N) /\
  snd (coll_point_centroid lv) == qsum (map gpy lv) * (1 / inject_Z N).
Proof.
  intros lv N. unfold coll_point_centroid.
  set (F := fun (sn : xy * Z) (g : geomT Q) => match g with
              | GPoint p => points_sum [p] sn | GMPoint _ ps => points_sum ps sn | _ => sn end).
  assert (G : forall l s n,
    fst (fst (fold_left F l (s, n))) == fst s + qsum (map gpx l) /\
    snd (fst (fold_left F l (s, n))) == snd s + qsum (map gpy l) /\
    snd (fold_left F l (s, n)) = (n + zsum (map gpn l))%Z).
  { induction l as [|g l IH]; intros s n; cbn [fold_left map].
    - cbn. repeat split; try ring; try lia.
    - destruct (F (s, n) g) as [s' n'] eqn:E.
      destruct (IH s' n') as [H1 [H2 H3]]. rewrite H1, H2, H3.
      cbn [zsum fold_right]. fold (zsum (map gpn l)). rewrite !qsum_cons.
      assert (K : fst s' == fst s + gpx g /\ snd s' == snd s + gpy g /\ n' = (n + gpn g)%Z).
      { unfold F in E. destruct g; cbn [gpx gpy gpn];
          try (injection E as <- <-; repeat split; try ring; try lia).
        - destruct (points_sum_spec [p] s n) as [K1 [K2 K3]]. rewrite E in K1, K2, K3. cbn [fst snd map] in K1, K2, K3.
          cbn [qsum fold_right zsum] in K1, K2, K3. rewrite K1, K2, K3. repeat split; try ring; try lia.
        - destruct (points_sum_spec ps s n) as [K1 [K2 K3]]. rewrite E in K1, K2, K3. cbn [fst snd] in K1, K2, K3.
          repeat split; assumption. }
      destruct K as [K1 [K2 K3]]. rewrite K1, K2, K3. repeat split; try ring; try lia. }
  destruct (fold_left F lv (xy0, 0%Z)) as [s n] eqn:E.
  destruct (G lv xy0 0%Z) as [H1 [H2 H3]]. rewrite E in H1, H2, H3. cbn [fst snd xy0] in H1, H2, H3.
  unfold xy_scale. cbn [fst snd]. rewrite H1, H2, H3. unfold N. cbn [Z.add]. split; ring.
Qed.


Lemma lin_step_spec : forall sq a l,
  fst (lin_step sq a l) == fst a + lw sq l /\
  fst (snd (lin_step sq a l)) == fst (snd a) + lcx sq l /\
  snd (snd (lin_step sq a l)) == snd (snd a) + lcy sq l.
Proof.
  intros sq a l. unfold lin_step, lw, lcx, lcy. destruct (line_centroid sq l); cbn [fst snd xy_add xy_scale];
    repeat split; ring.
Qed.

Lemma lin_fold_spec : forall sq ls a,
  fst (fold_left (lin_step sq) ls a) == fst a + qsum (map (lw sq) ls) /\
  fst (snd (fold_left (lin_step sq) ls a)) == fst (snd a) + qsum (map (lcx sq) ls) /\
  snd (snd (fold_left (lin_step sq) ls a)) == snd (snd a) + qsum (map (lcy sq) ls).
Proof.
  intros sq ls; induction ls as [|l ls IH]; intros a; cbn [fold_left map].
  - cbn. repeat split; ring.
  - destruct (IH (lin_step sq a l)) as [H1 [H2 H3]]. destruct (lin_step_spec sq a l) as [G1 [G2 G3]].
    rewrite H1, H2, H3, G1, G2, G3, !qsum_cons. repeat split; ring.
Qed.

Lemma coll_linear_spec : forall sq lv,
  let L := qsum (map (glw sq) lv) in
  fst (coll_linear_centroid sq lv) == qsum (map (glx sq) lv) * (1 / L) /\
  snd (coll_linear_centroid sq lv) == qsum (map (gly sq) lv) * (1 / L).
Proof.
  intros sq lv L. unfold coll_linear_centroid.
  set (F := fun (acc : Q * xy) (g : geomT Q) => match g with
              | GLine l => lin_step sq acc l | GMLine _ ls => fold_left (lin_step sq) ls acc | _ => acc end).
  assert (G : forall l a,
    fst (fold_left F l a) == fst a + qsum (map (glw sq) l) /\
    fst (snd (fold_left F l a)) == fst (snd a) + qsum (map (glx sq) l) /\
    snd (snd (fold_left F l a)) == snd (snd a) + qsum (map (gly sq) l)).
  { induction l as [|g l IH]; intros a; cbn [fold_left map].
    - cbn. repeat split; ring.
    - destruct (IH (F a g)) as [H1 [H2 H3]]. rewrite H1, H2, H3, !qsum_cons.
      assert (K : fst (F a g) == fst a + glw sq g /\ fst (snd (F a g)) == fst (snd a) + glx sq g /\
                  snd (snd (F a g)) == snd (snd a) + gly sq g).
      { unfold F. destruct g; cbn [glw glx gly]; try (repeat split; ring).
        - apply lin_step_spec. - apply lin_fold_spec. }
      destruct K as [K1 [K2 K3]]. rewrite K1, K2, K3. repeat split; ring. }
  destruct (fold_left F lv (0, xy0)) as [n s] eqn:E.
  destruct (G lv (0, xy0)) as [H1 [H2 H3]]. rewrite E in H1, H2, H3. cbn [fst snd xy0] in H1, H2, H3.
  unfold xy_scale. cbn [fst snd]. rewrite H1, H2, H3. unfold L. split; apply Qmult_comp; try ring;
    apply Qdiv_comp; try reflexivity; ring.
Qed.

(* ---- member reordering ---- *)
Lemma forallb_perm : forall (A : Type) (f : A -> bool) l l', Permutation l l' -> forallb f l = forallb f l'.
Proof.
  induction 1; cbn [forallb]; try reflexivity.
  - rewrite IHPermutation; reflexivity.
  - destruct (f x), (f y); reflexivity.
  - congruence.
Qed.

Lemma zsum_perm : forall a b, Permutation a b -> zsum a = zsum b.
Proof.
  induction 1; try reflexivity.
  - cbn [zsum fold_right]. fold (zsum l) (zsum l'). lia.
  - cbn [zsum fold_right]. lia.
  - congruence.
Qed.

Lemma list_max_perm : forall a b, Permutation a b -> list_max a = list_max b.
Proof.
  induction 1; try reflexivity.
  - cbn [list_max fold_right]. fold (list_max l) (list_max l'). lia.
  - cbn [list_max fold_right]. lia.
  - congruence.
Qed.

Lemma mpoly_centroid_perm : forall ps ps', Permutation ps ps' ->
  oxy_eq (mpoly_centroid ps) (mpoly_centroid ps').
Proof.
  intros ps ps' HP. destruct (forallb (@poly_empty Q) ps) eqn:E.
  - unfold mpoly_centroid. rewrite <- (forallb_perm _ _ _ _ HP), E. exact I.
  - assert (E' := E). rewrite (forallb_perm _ _ _ _ HP) in E'.
    destruct (mpoly_centroid_spec ps E) as [c [Hc [H1 H2]]], (mpoly_centroid_spec ps' E') as [c' [Hc' [G1 G2]]].
    rewrite Hc, Hc'. cbn [oxy_eq]. unfold xy_eq. rewrite H1, H2, G1, G2.
    split; apply Qdiv_comp; apply qsum_perm, Permutation_map; assumption.
Qed.

Lemma poly_centroid_holes_perm : forall ct ct' sh hs hs', Permutation hs hs' ->
  oxy_eq (poly_centroid (MkPoly ct (sh :: hs))) (poly_centroid (MkPoly ct' (sh :: hs'))).
Proof.
  intros ct ct' sh hs hs' HP.
  destruct (poly_centroid_spec ct sh hs) as [c [Hc [H1 [H2 _]]]], (poly_centroid_spec ct' sh hs') as [c' [Hc' [G1 [G2 _]]]].
  rewrite Hc, Hc'. cbn [oxy_eq]. unfold xy_eq. rewrite H1, H2, G1, G2.
  split; apply Qdiv_comp; apply Qplus_comp; try reflexivity; apply qsum_perm, Permutation_map; assumption.
Qed.

Lemma leaves_perm : forall gs gs', Permutation gs gs' -> Permutation (flat_map leaves gs) (flat_map leaves gs').
Proof.
  induction 1; cbn [flat_map]; try reflexivity.
  - apply Permutation_app_head; assumption.
  - rewrite !app_assoc. apply Permutation_app_tail, Permutation_app_comm.
  - etransitivity; eassumption.
Qed.

Lemma coll_centroid_perm : forall sq ct ct' gs gs', Permutation gs gs' ->
  oxy_eq (coll_centroid sq ct gs) (coll_centroid sq ct' gs').
Proof.
  intros sq ct ct' gs gs' HP. unfold coll_centroid.
  rewrite (forallb_perm _ _ _ _ HP). destruct (forallb (@is_empty Q) gs'); [exact I|].
  assert (HL := leaves_perm gs gs' HP).
  rewrite !hdim_leaves. cbn [leaves].
  rewrite (list_max_perm _ _ (Permutation_map leaf_dim HL)).
  destruct (list_max (map leaf_dim (flat_map leaves gs'))) as [|[|k]]; cbn [oxy_eq]; unfold xy_eq.
  - destruct (coll_point_spec (flat_map leaves gs)) as [H1 H2], (coll_point_spec (flat_map leaves gs')) as [G1 G2].
    rewrite H1, H2, G1, G2. rewrite (zsum_perm _ _ (Permutation_map gpn HL)).
    split; apply Qmult_comp; try reflexivity; apply qsum_perm, Permutation_map; assumption.
  - destruct (coll_linear_spec sq (flat_map leaves gs)) as [H1 H2], (coll_linear_spec sq (flat_map leaves gs')) as [G1 G2].
    rewrite H1, H2, G1, G2.
    split; apply Qmult_comp; try (apply Qdiv_comp; [reflexivity|]); apply qsum_perm, Permutation_map; assumption.
  - destruct (coll_areal_spec sq (flat_map leaves gs)) as [H1 H2], (coll_areal_spec sq (flat_map leaves gs')) as [G1 G2].
    rewrite H1, H2, G1, G2.
    split; apply Qdiv_comp; apply qsum_perm, Permutation_map; assumption.
Qed.

(* ------------------------------------------------------------------------------------------ *)
(* Translation equivariance of Centroid                                                        *)
(* ------------------------------------------------------------------------------------------ *)
Lemma tri_area2_translate : forall t b p q,
  tri_area2 (translate t b) (translate t p) (translate t q) == tri_area2 b p q.
Proof. intros. unfold tri_area2, translate, xy_add. cbn [fst snd]. ring. Qed.

Lemma centroid_ring_translate : forall t L, ~ ring_fan2 L == 0 ->
  xy_eq (centroid_of_ring_xy (map (translate t) L)) (translate t (centroid_of_ring_xy L)).
Proof.
  intros t [|b tl] Hnz; [exfalso; apply Hnz; reflexivity|].
  cbn [map centroid_of_ring_xy ring_fan2] in *.
  destruct (fan_spec (translate t b) (map (translate t) tl)) as [H1 [H2 H3]].
  destruct (fan_spec b tl) as [G1 [G2 G3]].
  destruct (fan (translate t b) (map (translate t) tl)) as [a2' c6'], (fan b tl) as [a2 c6].
  cbn [fst snd] in *.
  assert (E1 : a2' == a2).
  { rewrite H1, G1. destruct tl as [|p r]; cbn [map psum]; [reflexivity|].
    rewrite pairsum_map. apply pairsum_ext. intros; unfold e_tri; apply tri_area2_translate. }
  assert (E2 : fst c6' == fst c6 + 3 * fst t * a2).
  { rewrite H2, G2, G1. destruct tl as [|p r]; cbn [map psum]; [ring|].
    rewrite pairsum_map.
    rewrite (pairsum_ext _ (fun x y => e_c6x b x y + (3 * fst t) * e_tri b x y)).
    - rewrite pairsum_plus, pairsum_scale. ring.
    - intros x y. unfold e_c6x, e_tri. rewrite tri_area2_translate. unfold translate, xy_add. cbn [fst snd]. ring. }
  assert (E3 : snd c6' == snd c6 + 3 * snd t * a2).
  { rewrite H3, G3, G1. destruct tl as [|p r]; cbn [map psum]; [ring|].
    rewrite pairsum_map.
    rewrite (pairsum_ext _ (fun x y => e_c6y b x y + (3 * snd t) * e_tri b x y)).
    - rewrite pairsum_plus, pairsum_scale. ring.
    - intros x y. unfold e_c6y, e_tri. rewrite tri_area2_translate. unfold translate, xy_add. cbn [fst snd]. ring. }
  unfold xy_eq, xy_scale, translate, xy_add. cbn [fst snd]. rewrite E1, E2, E3. split; field; exact Hnz.
Qed.

Lemma ring_fan2_cycle : forall l, ring_fan2 (close l) == 2 * ring_area_xy (close l).
Proof.
  intros [|b m]; [cbn; ring|]. rewrite close_cons at 1. cbn [ring_fan2]. apply fan_eq_shoelace_lemma.
Qed.

Lemma shifted_refl0 : forall o, shifted (0, 0) o o.
Proof. intros [c|]; cbn; [|exact I]. unfold xy_eq, xy_add. cbn [fst snd]. split; ring. Qed.

Lemma centroid_of_ring_tr : forall f r, centroid_of_ring (line_tr f r) = centroid_of_ring_xy (map f (line_xys r)).
Proof. intros. unfold centroid_of_ring. rewrite line_xys_tr. reflexivity. Qed.

Lemma poly_centroid_translate : forall t p, poly_nondegenerate p ->
  shifted t (poly_centroid p) (poly_centroid (poly_tr (translate t) p)).
Proof.
  intros t [ct [|sh hs]] [Hc [Hf Hs]]; [exact I|].
  cbn [poly_rings] in *. destruct Hs as [Hs|Hs]; [discriminate|].
  cbn [poly_tr map].
  destruct (poly_centroid_spec ct sh hs) as [c [Ec [H1 [H2 H3]]]].
  destruct (poly_centroid_spec ct (line_tr (translate t) sh) (map (line_tr (translate t)) hs)) as [c' [Ec' [G1 [G2 _]]]].
  rewrite Ec, Ec'. cbn [shifted]. rewrite H3 in Hs.
  unfold poly_closed in Hc. cbn [poly_rings forallb] in Hc. apply andb_true_iff in Hc. destruct Hc as [Hcs Hch].
  rewrite forallb_forall in Hch. inversion Hf as [|? ? Hfs Hfh]; subst. rewrite Forall_forall in Hfh.
  assert (W : forall first r, ring_closedb (line_xys r) = true -> ring_w first (line_tr (translate t) r) == ring_w first r).
  { intros first r Hr. unfold ring_w. rewrite ring_area_tr. destruct first; rewrite (ring_area_translate t r Hr); reflexivity. }
  assert (C : forall r, ~ ring_fan2 (line_xys r) == 0 ->
              xy_eq (centroid_of_ring (line_tr (translate t) r)) (xy_add (centroid_of_ring r) t)).
  { intros r Hr. rewrite centroid_of_ring_tr. apply (centroid_ring_translate t _ Hr). }
  destruct (C sh Hfs) as [Cx Cy]. cbn [xy_add fst snd] in Cx, Cy.
  set (S := ring_w true sh + qsum (map (ring_w false) hs)) in *.
  assert (ES : ring_w true (line_tr (translate t) sh) + qsum (map (ring_w false) (map (line_tr (translate t)) hs)) == S).
  { unfold S. rewrite (W true sh Hcs), map_map. apply Qplus_comp; [reflexivity|].
    apply qsum_map_ext. apply Forall_forall. intros r Hr. apply W, Hch, Hr. }
  unfold xy_eq, xy_add. cbn [fst snd]. rewrite G1, G2, H1, H2, ES, (W true sh Hcs), Cx, Cy, !map_map.
  rewrite (qsum_map_ext _ (fun x => ring_w false (line_tr (translate t) x) * fst (centroid_of_ring (line_tr (translate t) x)))
             (fun x => ring_w false x * fst (centroid_of_ring x) + ring_w false x * fst t)).
  2:{ apply Forall_forall. intros r Hr. rewrite (W false r (Hch r Hr)). destruct (C r (Hfh r Hr)) as [Kx _].
      cbn [xy_add fst snd] in Kx. rewrite Kx. ring. }
  rewrite (qsum_map_ext _ (fun x => ring_w false (line_tr (translate t) x) * snd (centroid_of_ring (line_tr (translate t) x)))
             (fun x => ring_w false x * snd (centroid_of_ring x) + ring_w false x * snd t)).
  2:{ apply Forall_forall. intros r Hr. rewrite (W false r (Hch r Hr)). destruct (C r (Hfh r Hr)) as [_ Ky].
      cbn [xy_add fst snd] in Ky. rewrite Ky. ring. }
  rewrite !qsum_map_plus, !qsum_map_scale. fold S.
  assert (HS : qsum (map (ring_w false) hs) == S - ring_w true sh) by (unfold S; ring).
  rewrite HS. split; field; exact Hs.
Qed.

Lemma point_xy_tr : forall f p, point_xy (point_tr f p) = option_map f (point_xy p).
Proof. intros f [ct [v|]]; cbn; [rewrite <- vxy_vtx_tr; reflexivity|reflexivity]. Qed.

Lemma poly_tr_empty : forall f p, poly_empty (poly_tr f p) = poly_empty p.
Proof. intros f [ct [|r rs]]; reflexivity. Qed.
Lemma line_tr_empty : forall f l, line_empty (line_tr f l) = line_empty l.
Proof. intros f [ct [|v vs]]; reflexivity. Qed.
Lemma point_tr_empty : forall f p, point_empty (point_tr f p) = point_empty p.
Proof. intros f [ct [v|]]; reflexivity. Qed.

Lemma forallb_map_eq : forall (A : Type) (f : A -> bool) (g : A -> A) l,
  (forall x, f (g x) = f x) -> forallb f (map g l) = forallb f l.
Proof. intros A f g l H. induction l as [|x l IH]; cbn [map forallb]; [reflexivity|]. rewrite H, IH. reflexivity. Qed.

Lemma geom_tr_empty : forall f g, is_empty (geom_tr f g) = is_empty g.
Proof.
  intros f g. induction g using geomT_ind'; cbn [geom_tr is_empty].
  - apply point_tr_empty. - apply line_tr_empty. - apply poly_tr_empty.
  - apply forallb_map_eq, point_tr_empty. - apply forallb_map_eq, line_tr_empty.
  - apply forallb_map_eq, poly_tr_empty.
  - induction H as [|x l Hx Hl IH]; cbn [map forallb]; [reflexivity|]. rewrite Hx, IH. reflexivity.
Qed.

Lemma geom_tr_leaves : forall f g, leaves (geom_tr f g) = map (geom_tr f) (leaves g).
Proof.
  intros f g. induction g using geomT_ind'; cbn [geom_tr leaves map]; try reflexivity.
  induction H as [|x l Hx Hl IH]; cbn [map flat_map]; [reflexivity|]. rewrite map_app, Hx, IH. reflexivity.
Qed.

Lemma leaf_dim_tr : forall f g, leaf_dim (geom_tr f g) = leaf_dim g.
Proof. intros f g. unfold leaf_dim. rewrite geom_tr_empty. destruct g; reflexivity. Qed.

Lemma geom_tr_hdim : forall f g, hdim (geom_tr f g) = hdim g.
Proof.
  intros f g. rewrite !hdim_leaves, geom_tr_leaves, map_map.
  f_equal. apply map_ext. intros; apply leaf_dim_tr.
Qed.

Lemma shifted_ocx : forall t o o', shifted t o o' ->
  (ocx o' == ocx o + fst t * (match o with Some _ => 1 | None => 0 end)) /\
  (ocy o' == ocy o + snd t * (match o with Some _ => 1 | None => 0 end)).
Proof.
  intros t [c|] [c'|] H; cbn in H; try tauto; cbn [ocx ocy].
  - destruct H as [H1 H2]. cbn [xy_add fst snd] in H1, H2. rewrite H1, H2. split; ring.
  - split; ring.
Qed.

Section Translate.
  Variable sq : Q -> Q.
  Hypothesis sq_proper : forall a b, a == b -> sq a == sq b.
  Variable t : xy.
  Notation tr := (translate t).

  Lemma line_centroid_translate : forall l,
    shifted t (line_centroid sq l) (line_centroid sq (line_tr tr l)) /\
    line_length sq (line_tr tr l) == line_length sq l.
  Proof.
    intros l. split.
    - unfold line_centroid, sum_centroid_length. rewrite line_xys_tr.
      destruct (sumcl_xy_translate sq sq_proper t (line_xys l)) as [H1 [H2 H3]].
      destruct (sumcl_xy sq (map tr (line_xys l))) as [c' n'], (sumcl_xy sq (line_xys l)) as [c n].
      cbn [fst snd] in *. rewrite (Qeq_bool_eq n' n 0 0 H3 (Qeq_refl 0)).
      destruct (Qeq_bool n 0) eqn:E; [exact I|]. cbn [shifted].
      assert (Hn : ~ n == 0) by (intro K; apply Qeq_bool_iff in K; congruence).
      unfold xy_eq, xy_scale, xy_add. cbn [fst snd]. rewrite H1, H2, H3. split; field; exact Hn.
    - unfold line_length. rewrite line_xys_tr. apply length_xy_translate, sq_proper.
  Qed.

  Lemma lw_translate : forall l,
    lw sq (line_tr tr l) == lw sq l /\
    lcx sq (line_tr tr l) == lcx sq l + fst t * lw sq l /\
    lcy sq (line_tr tr l) == lcy sq l + snd t * lw sq l.
  Proof.
    intros l. destruct (line_centroid_translate l) as [H1 H2]. unfold lw, lcx, lcy.
    destruct (line_centroid sq l) as [c|], (line_centroid sq (line_tr tr l)) as [c'|]; cbn in H1; try tauto.
    - destruct H1 as [K1 K2]. cbn [xy_add fst snd] in K1, K2. rewrite K1, K2, H2. repeat split; ring.
    - repeat split; ring.
  Qed.

  Lemma pcx_translate : forall p,
    pcx (point_tr tr p) == pcx p + fst t * inject_Z (pcn p) /\
    pcy (point_tr tr p) == pcy p + snd t * inject_Z (pcn p) /\
    pcn (point_tr tr p) = pcn p.
  Proof.
    intros p. unfold pcx, pcy, pcn. rewrite point_xy_tr. destruct (point_xy p) as [c|]; cbn [option_map ocx ocy].
    - unfold translate, xy_add. cbn [fst snd]. repeat split; ring.
    - repeat split; ring.
  Qed.

  Lemma inject_Z_zsum : forall (A : Type) (f : A -> Z) l, inject_Z (zsum (map f l)) == qsum (map (fun x => inject_Z (f x)) l).
  Proof.
    induction l as [|x l IH]; cbn [map zsum fold_right]; [reflexivity|].
    fold (zsum (map f l)). rewrite inject_Z_plus, IH, qsum_cons. reflexivity.
  Qed.

  Lemma points_translate : forall ps,
    qsum (map pcx (map (point_tr tr) ps)) == qsum (map pcx ps) + fst t * inject_Z (zsum (map pcn ps)) /\
    qsum (map pcy (map (point_tr tr) ps)) == qsum (map pcy ps) + snd t * inject_Z (zsum (map pcn ps)) /\
    zsum (map pcn (map (point_tr tr) ps)) = zsum (map pcn ps).
  Proof.
    intros ps. rewrite !map_map, inject_Z_zsum. split; [|split].
    - rewrite (qsum_map_ext_all _ _ (fun p => pcx p + inject_Z (pcn p) * fst t)).
      + rewrite qsum_map_plus, qsum_map_scale. ring.
      + intros p. destruct (pcx_translate p) as [H _]. rewrite H. ring.
    - rewrite (qsum_map_ext_all _ _ (fun p => pcy p + inject_Z (pcn p) * snd t)).
      + rewrite qsum_map_plus, qsum_map_scale. ring.
      + intros p. destruct (pcx_translate p) as [_ [H _]]. rewrite H. ring.
    - f_equal. apply map_ext. intros p. apply pcx_translate.
  Qed.

  Lemma mpoint_centroid_translate : forall ps,
    shifted t (mpoint_centroid ps) (mpoint_centroid (map (point_tr tr) ps)).
  Proof.
    intros ps. unfold mpoint_centroid.
    destruct (points_sum_spec ps xy0 0%Z) as [H1 [H2 H3]].
    destruct (points_sum_spec (map (point_tr tr) ps) xy0 0%Z) as [G1 [G2 G3]].
    destruct (points_translate ps) as [T1 [T2 T3]].
    destruct (points_sum ps (xy0, 0%Z)) as [s n], (points_sum (map (point_tr tr) ps) (xy0, 0%Z)) as [s' n'].
    cbn [fst snd xy0] in *. rewrite T3 in G3. rewrite <- H3 in G3. subst n'.
    destruct (n =? 0)%Z eqn:E; [exact I|]. cbn [shifted].
    assert (Hn : ~ inject_Z n == 0).
    { intro K. apply Z.eqb_neq in E. apply E. unfold Qeq in K. cbn in K. lia. }
    unfold xy_eq, xy_scale, xy_add. cbn [fst snd].
    rewrite G1, G2, T1, T2, H1, H2. cbn [Z.add] in H3. rewrite <- H3. split; field; exact Hn.
  Qed.

  Lemma mline_centroid_translate : forall ls,
    shifted t (mline_centroid sq ls) (mline_centroid sq (map (line_tr tr) ls)).
  Proof.
    intros ls. unfold mline_centroid.
    set (F := fun (acc : xy * Q) (l : lineT Q) => let '(c, n) := sum_centroid_length sq l in (xy_add (fst acc) c, snd acc + n)).
    assert (G : forall l a a', snd a' == snd a -> fst (fst a') == fst (fst a) + fst t * snd a ->
               snd (fst a') == snd (fst a) + snd t * snd a ->
               snd (fold_left F (map (line_tr tr) l) a') == snd (fold_left F l a) /\
               fst (fst (fold_left F (map (line_tr tr) l) a')) == fst (fst (fold_left F l a)) + fst t * snd (fold_left F l a) /\
               snd (fst (fold_left F (map (line_tr tr) l) a')) == snd (fst (fold_left F l a)) + snd t * snd (fold_left F l a)).
    { induction l as [|x l IH]; intros a a' K1 K2 K3; cbn [map fold_left]; [repeat split; assumption|].
      apply IH; unfold F, sum_centroid_length; rewrite line_xys_tr;
        destruct (sumcl_xy_translate sq sq_proper t (line_xys x)) as [S1 [S2 S3]];
        destruct (sumcl_xy sq (map tr (line_xys x))) as [c' n'], (sumcl_xy sq (line_xys x)) as [c n];
        cbn [fst snd xy_add] in *.
      - rewrite K1, S3. reflexivity.
      - rewrite K2, S1. unfold xy in *. ring.
      - rewrite K3, S2. unfold xy in *. ring. }
    destruct (G ls (xy0, 0) (xy0, 0)) as [H3 [H1 H2]]; [reflexivity|cbn; ring|cbn; ring|].
    destruct (fold_left F (map (line_tr tr) ls) (xy0, 0)) as [c' n'], (fold_left F ls (xy0, 0)) as [c n].
    cbn [fst snd] in *. rewrite (Qeq_bool_eq n' n 0 0 H3 (Qeq_refl 0)).
    destruct (Qeq_bool n 0) eqn:E; [exact I|]. cbn [shifted].
    assert (Hn : ~ n == 0) by (intro K; apply Qeq_bool_iff in K; congruence).
    unfold xy_eq, xy_scale, xy_add. cbn [fst snd]. rewrite H1, H2, H3. split; field; exact Hn.
  Qed.

  Lemma poly_area_translate' : forall p, poly_closed p = true ->
    poly_area false None (poly_tr tr p) == poly_area false None p.
  Proof. intros p H. rewrite <- poly_area_tr. apply poly_area_translate, H. Qed.

  Lemma poly_centroid_none_area : forall p, poly_centroid p = None -> poly_area false None p = 0.
  Proof. intros [ct [|r rs]] H; [reflexivity|discriminate]. Qed.

  (* per polygon: area kept, weighted centroid shifted *)
  Lemma poly_terms_translate : forall p, poly_nondegenerate p ->
    poly_area false None (poly_tr tr p) == poly_area false None p /\
    poly_area false None (poly_tr tr p) * ocx (poly_centroid (poly_tr tr p)) ==
      poly_area false None p * ocx (poly_centroid p) + fst t * poly_area false None p /\
    poly_area false None (poly_tr tr p) * ocy (poly_centroid (poly_tr tr p)) ==
      poly_area false None p * ocy (poly_centroid p) + snd t * poly_area false None p.
  Proof.
    intros p Hp. assert (Hs := poly_centroid_translate t p Hp).
    destruct Hp as [Hc _]. assert (Ha := poly_area_translate' p Hc).
    destruct (shifted_ocx t _ _ Hs) as [Sx Sy]. rewrite Ha, Sx, Sy.
    destruct (poly_centroid p) eqn:E.
    - repeat split; ring.
    - rewrite (poly_centroid_none_area p E). repeat split; ring.
  Qed.

  Lemma mpoly_centroid_translate : forall ps,
    Forall poly_nondegenerate ps ->
    (forallb (@poly_empty Q) ps = true \/ ~ mpoly_area false None ps == 0) ->
    shifted t (mpoly_centroid ps) (mpoly_centroid (map (poly_tr tr) ps)).
  Proof.
    intros ps Hnd Hdiv.
    assert (He : forallb (@poly_empty Q) (map (poly_tr tr) ps) = forallb (@poly_empty Q) ps)
      by (apply forallb_map_eq, poly_tr_empty).
    destruct (forallb (@poly_empty Q) ps) eqn:E.
    - unfold mpoly_centroid. rewrite He, E. exact I.
    - destruct Hdiv as [Hdiv|Hdiv]; [discriminate|].
      rewrite mpoly_area_spec in Hdiv.
      destruct (mpoly_centroid_spec ps E) as [c [Ec [H1 H2]]].
      destruct (mpoly_centroid_spec (map (poly_tr tr) ps) He) as [c' [Ec' [G1 G2]]].
      rewrite Ec, Ec'. cbn [shifted]. unfold xy_eq, xy_add. cbn [fst snd].
      rewrite G1, G2, H1, H2, !map_map.
      rewrite (qsum_map_ext _ (fun x => poly_area false None (poly_tr tr x)) (poly_area false None))
        by (eapply Forall_impl; [|exact Hnd]; intros a Ha; apply (poly_terms_translate a Ha)).
      rewrite (qsum_map_ext _ (fun x => poly_area false None (poly_tr tr x) * ocx (poly_centroid (poly_tr tr x)))
                 (fun x => poly_area false None x * ocx (poly_centroid x) + poly_area false None x * fst t)).
      2:{ eapply Forall_impl; [|exact Hnd]. intros a Ha. destruct (poly_terms_translate a Ha) as [_ [K _]]. rewrite K. ring. }
      rewrite (qsum_map_ext _ (fun x => poly_area false None (poly_tr tr x) * ocy (poly_centroid (poly_tr tr x)))
                 (fun x => poly_area false None x * ocy (poly_centroid x) + poly_area false None x * snd t)).
      2:{ eapply Forall_impl; [|exact Hnd]. intros a Ha. destruct (poly_terms_translate a Ha) as [_ [_ K]]. rewrite K. ring. }
      rewrite !qsum_map_plus, !qsum_map_scale. split; field; exact Hdiv.
  Qed.
End Translate.

Section Translate2.
  Variable sq : Q -> Q.
  Hypothesis sq_proper : forall a b, a == b -> sq a == sq b.
  Variable t : xy.
  Notation tr := (translate t).

  Lemma mpoly_area_translate : forall ps, Forall poly_nondegenerate ps ->
    mpoly_area false None (map (poly_tr tr) ps) == mpoly_area false None ps.
  Proof.
    intros ps H. rewrite !mpoly_area_spec, map_map. apply qsum_map_ext.
    eapply Forall_impl; [|exact H]. intros a [Hc _]. apply poly_area_translate', Hc.
  Qed.

  Lemma leaf_translate : forall g, is_leaf g -> leaf_nondegenerate g ->
    shifted t (leaf_centroid sq g) (leaf_centroid sq (geom_tr tr g)) /\
    geom_area false None (geom_tr tr g) == geom_area false None g.
  Proof.
    intros g Hl Hn. destruct g; cbn [geom_tr leaf_centroid geom_area leaf_nondegenerate] in *; try (split; [|reflexivity]).
    - rewrite point_xy_tr. destruct (point_xy p); cbn; [apply xy_eq_refl|exact I].
    - apply (line_centroid_translate sq sq_proper t l).
    - split; [apply poly_centroid_translate, Hn|]. destruct Hn as [Hc _]. apply poly_area_translate', Hc.
    - apply mpoint_centroid_translate.
    - apply (mline_centroid_translate sq sq_proper t ls).
    - destruct Hn as [H1 H2]. split; [apply mpoly_centroid_translate; assumption|apply mpoly_area_translate, H1].
    - destruct Hl.
  Qed.

  Lemma leaf_none_area : forall g, is_leaf g -> leaf_centroid sq g = None -> geom_area false None g == 0.
  Proof.
    intros g Hl H. destruct g; cbn [leaf_centroid geom_area] in *; try reflexivity.
    - rewrite (poly_centroid_none_area p H). reflexivity.
    - unfold mpoly_centroid in H. destruct (forallb (@poly_empty Q) ps) eqn:E; [|discriminate].
      rewrite mpoly_area_spec. apply qsum_zero. intros x Hx. rewrite forallb_forall in E.
      rewrite poly_empty_area; [reflexivity|]. apply E, Hx.
    - destruct Hl.
  Qed.

  Lemma gp_translate : forall g,
    gpx (geom_tr tr g) == gpx g + fst t * inject_Z (gpn g) /\
    gpy (geom_tr tr g) == gpy g + snd t * inject_Z (gpn g) /\
    gpn (geom_tr tr g) = gpn g.
  Proof.
    intros g. destruct g; cbn [geom_tr gpx gpy gpn]; try (repeat split; ring).
    - apply pcx_translate.
    - apply points_translate.
  Qed.

  Lemma gl_translate : forall g,
    glw sq (geom_tr tr g) == glw sq g /\
    glx sq (geom_tr tr g) == glx sq g + fst t * glw sq g /\
    gly sq (geom_tr tr g) == gly sq g + snd t * glw sq g.
  Proof.
    intros g. destruct g; cbn [geom_tr glw glx gly]; try (repeat split; ring).
    - apply (lw_translate sq sq_proper t l).
    - rewrite !map_map. split; [|split].
      + apply qsum_map_ext_all. intros l. apply (lw_translate sq sq_proper t l).
      + rewrite (qsum_map_ext_all _ _ (fun l => lcx sq l + lw sq l * fst t)).
        * rewrite qsum_map_plus, qsum_map_scale. ring.
        * intros l. destruct (lw_translate sq sq_proper t l) as [_ [K _]]. rewrite K. ring.
      + rewrite (qsum_map_ext_all _ _ (fun l => lcy sq l + lw sq l * snd t)).
        * rewrite qsum_map_plus, qsum_map_scale. ring.
        * intros l. destruct (lw_translate sq sq_proper t l) as [_ [_ K]]. rewrite K. ring.
  Qed.

  Lemma centroid_translate_lemma : forall g, centroid_defined sq g ->
    shifted t (geom_centroid sq g) (geom_centroid sq (geom_tr tr g)).
  Proof.
    intros g Hd. destruct g; cbn [centroid_defined] in Hd.
    1-6: match goal with |- shifted t (geom_centroid sq ?a) _ => exact (proj1 (leaf_translate a I Hd)) end.
    destruct Hd as [Hlv Hdiv].
    assert (Ee := geom_tr_empty tr (GColl ct gs)).
    assert (Eh := geom_tr_hdim tr (GColl ct gs)).
    assert (El := geom_tr_leaves tr (GColl ct gs)).
    cbn [geom_tr] in Ee, Eh, El. cbn [geom_tr geom_centroid]. unfold coll_centroid.
    cbn [is_empty] in Ee. rewrite Ee, Eh. cbn [leaves] in El. rewrite El.
    cbn [is_empty] in Hdiv. destruct (forallb (@is_empty Q) gs) eqn:E; [exact I|].
    destruct Hdiv as [Hdiv|Hdiv]; [discriminate|].
    unfold coll_divisor in Hdiv. cbn [leaves] in Hdiv, Hlv.
    set (lv := flat_map leaves gs) in *.
    assert (Hleaf : Forall is_leaf lv) by apply (leaves_are_leaves (GColl ct gs)).
    destruct (hdim (GColl ct gs)) as [|[|k]]; cbn [shifted]; unfold xy_eq, xy_add; cbn [fst snd].
    - destruct (coll_point_spec lv) as [H1 H2], (coll_point_spec (map (geom_tr tr) lv)) as [G1 G2].
      rewrite H1, H2, G1, G2, !map_map.
      assert (EN : zsum (map (fun x => gpn (geom_tr tr x)) lv) = zsum (map gpn lv)).
      { f_equal. apply map_ext. intros; apply gp_translate. }
      rewrite EN.
      rewrite (qsum_map_ext_all _ (fun x => gpx (geom_tr tr x)) (fun x => gpx x + inject_Z (gpn x) * fst t))
        by (intros x; destruct (gp_translate x) as [K _]; rewrite K; ring).
      rewrite (qsum_map_ext_all _ (fun x => gpy (geom_tr tr x)) (fun x => gpy x + inject_Z (gpn x) * snd t))
        by (intros x; destruct (gp_translate x) as [_ [K _]]; rewrite K; ring).
      rewrite !qsum_map_plus, !qsum_map_scale, <- !inject_Z_zsum. split; field; exact Hdiv.
    - destruct (coll_linear_spec sq lv) as [H1 H2], (coll_linear_spec sq (map (geom_tr tr) lv)) as [G1 G2].
      rewrite H1, H2, G1, G2, !map_map.
      rewrite (qsum_map_ext_all _ (fun x => glw sq (geom_tr tr x)) (glw sq))
        by (intros x; apply gl_translate).
      rewrite (qsum_map_ext_all _ (fun x => glx sq (geom_tr tr x)) (fun x => glx sq x + glw sq x * fst t))
        by (intros x; destruct (gl_translate x) as [_ [K _]]; rewrite K; ring).
      rewrite (qsum_map_ext_all _ (fun x => gly sq (geom_tr tr x)) (fun x => gly sq x + glw sq x * snd t))
        by (intros x; destruct (gl_translate x) as [_ [_ K]]; rewrite K; ring).
      rewrite !qsum_map_plus, !qsum_map_scale. split; field; exact Hdiv.
    - destruct (coll_areal_spec sq lv) as [H1 H2], (coll_areal_spec sq (map (geom_tr tr) lv)) as [G1 G2].
      rewrite H1, H2, G1, G2, !map_map.
      assert (HF : Forall (fun x =>
                 geom_area false None (geom_tr tr x) == geom_area false None x /\
                 geom_area false None (geom_tr tr x) * ocx (leaf_centroid sq (geom_tr tr x)) ==
                   geom_area false None x * ocx (leaf_centroid sq x) + geom_area false None x * fst t /\
                 geom_area false None (geom_tr tr x) * ocy (leaf_centroid sq (geom_tr tr x)) ==
                   geom_area false None x * ocy (leaf_centroid sq x) + geom_area false None x * snd t) lv).
      { rewrite Forall_forall in *. intros x Hx. destruct (leaf_translate x (Hleaf x Hx) (Hlv x Hx)) as [Hs Ha].
        destruct (shifted_ocx t _ _ Hs) as [Sx Sy]. rewrite Ha, Sx, Sy.
        destruct (leaf_centroid sq x) eqn:Ec.
        - repeat split; ring.
        - rewrite (leaf_none_area x (Hleaf x Hx) Ec). repeat split; ring. }
      rewrite (qsum_map_ext _ (fun x => geom_area false None (geom_tr tr x)) (geom_area false None))
        by (eapply Forall_impl; [|exact HF]; intros a Ha; apply Ha).
      rewrite (qsum_map_ext _ (fun x => geom_area false None (geom_tr tr x) * ocx (leaf_centroid sq (geom_tr tr x)))
                 (fun x => geom_area false None x * ocx (leaf_centroid sq x) + geom_area false None x * fst t))
        by (eapply Forall_impl; [|exact HF]; intros a Ha; apply Ha).
      rewrite (qsum_map_ext _ (fun x => geom_area false None (geom_tr tr x) * ocy (leaf_centroid sq (geom_tr tr x)))
                 (fun x => geom_area false None x * ocy (leaf_centroid sq x) + geom_area false None x * snd t))
        by (eapply Forall_impl; [|exact HF]; intros a Ha; apply Ha).
      rewrite !qsum_map_plus, !qsum_map_scale. split; field; exact Hdiv.
  Qed.
End Translate2.

(* ------------------------------------------------------------------------------------------ *)
(* Length at geometry level; signed area under ring-wise relations                             *)
(* ------------------------------------------------------------------------------------------ *)
Section LengthGeom.
  Variable sq : Q -> Q.
  Hypothesis sq_proper : forall a b, a == b -> sq a == sq b.

  Lemma geom_length_coll : forall ct gs, geom_length sq (GColl ct gs) == qsum (map (geom_length sq) gs).
  Proof.
    intros ct gs. cbn [geom_length]. destruct (is_empty (GColl ct gs)) eqn:E.
    - symmetry. apply qsum_zero. intros x Hx. cbn [is_empty] in E. rewrite forallb_forall in E.
      destruct x; cbn [geom_length]; rewrite (E _ Hx); reflexivity.
    - rewrite (fold_left_qsum _ (geom_length sq)). ring.
  Qed.

  Lemma line_length_empty : forall l, line_empty l = true -> line_length sq l = 0.
  Proof. intros [ct [|v vs]] H; [reflexivity|discriminate]. Qed.

  Lemma geom_length_mline : forall ct ls, geom_length sq (GMLine ct ls) == qsum (map (line_length sq) ls).
  Proof.
    intros ct ls. cbn [geom_length]. destruct (is_empty (GMLine ct ls)) eqn:E.
    - symmetry. apply qsum_zero. intros x Hx. cbn [is_empty] in E. rewrite forallb_forall in E.
      rewrite (line_length_empty x (E _ Hx)). reflexivity.
    - unfold mline_length. rewrite fold_left_qsum. ring.
  Qed.

  Lemma geom_length_line : forall l, geom_length sq (GLine l) == line_length sq l.
  Proof.
    intros l. cbn [geom_length is_empty]. destruct (line_empty l) eqn:E; [|reflexivity].
    rewrite (line_length_empty l E). reflexivity.
  Qed.

  Lemma length_rev_lemma : forall g, geom_length sq (geom_rev g) == geom_length sq g.
  Proof.
    induction g using geomT_ind'; cbn [geom_rev].
    - reflexivity.
    - rewrite !geom_length_line. unfold line_length. rewrite line_xys_rev. apply length_xy_rev, sq_proper.
    - cbn [geom_length is_empty]. destruct (poly_empty _), (poly_empty _); reflexivity.
    - reflexivity.
    - rewrite !geom_length_mline, map_map. apply qsum_map_ext_all. intros l.
      unfold line_length. rewrite line_xys_rev. apply length_xy_rev, sq_proper.
    - cbn [geom_length is_empty]. destruct (forallb _ _), (forallb _ _); reflexivity.
    - rewrite !geom_length_coll, map_map. apply qsum_map_ext. exact H.
  Qed.

  Lemma length_translate_lemma : forall t g, geom_length sq (geom_tr (translate t) g) == geom_length sq g.
  Proof.
    intros t. induction g using geomT_ind'; cbn [geom_tr].
    - cbn [geom_length is_empty]. destruct (point_empty _), (point_empty _); reflexivity.
    - rewrite !geom_length_line. unfold line_length. rewrite line_xys_tr. apply length_xy_translate, sq_proper.
    - cbn [geom_length is_empty]. destruct (poly_empty _), (poly_empty _); reflexivity.
    - cbn [geom_length is_empty]. destruct (forallb _ _), (forallb _ _); reflexivity.
    - rewrite !geom_length_mline, map_map. apply qsum_map_ext_all. intros l.
      unfold line_length. rewrite line_xys_tr. apply length_xy_translate, sq_proper.
    - cbn [geom_length is_empty]. destruct (forallb _ _), (forallb _ _); reflexivity.
    - rewrite !geom_length_coll, map_map. apply qsum_map_ext. exact H.
  Qed.

  Lemma length_coll_app : forall ct a b,
    geom_length sq (GColl ct (a ++ b)) == geom_length sq (GColl ct a) + geom_length sq (GColl ct b).
  Proof. intros. rewrite !geom_length_coll, map_app. apply qsum_app. Qed.

  Lemma length_coll_perm : forall ct ct' gs gs', Permutation gs gs' ->
    geom_length sq (GColl ct gs) == geom_length sq (GColl ct' gs').
  Proof. intros. rewrite !geom_length_coll. apply qsum_perm, Permutation_map. assumption. Qed.

  Lemma length_nonareal : forall g, is_lineal g = false -> is_leaf g -> geom_length sq g == 0.
  Proof.
    intros g H Hl. destruct g; cbn [is_lineal] in H; try discriminate; cbn [geom_length];
      try (match goal with |- context [is_empty ?x] => destruct (is_empty x) end; reflexivity).
    destruct Hl.
  Qed.
End LengthGeom.

Lemma area_rings_related : forall (R : lineT Q -> lineT Q -> Prop) s tr,
  (forall r r', R r r' -> ring_area tr r == ring_area tr r') ->
  forall g g', rings_related R g g' -> geom_area s tr g == geom_area s tr g'.
Proof.
  intros R s tr HR g. induction g using geomT_ind'; intros g' Hr; destruct g'; cbn [rings_related] in Hr; try tauto;
    try reflexivity.
  - destruct p as [ct rs], p0 as [ct' rs']. cbn [geom_area]. apply poly_area_congr.
    unfold polys_related in Hr. cbn [poly_rings] in Hr. eapply Forall2_impl'; [|exact Hr]. exact HR.
  - cbn [geom_area]. rewrite !mpoly_area_spec. apply qsum_map_Forall2.
    eapply Forall2_impl'; [|exact Hr]. intros [c1 r1] [c2 r2] Hab. apply poly_area_congr.
    unfold polys_related in Hab. cbn [poly_rings] in Hab. eapply Forall2_impl'; [|exact Hab]. exact HR.
  - rewrite !coll_area_spec. apply qsum_map_Forall2.
    revert gs0 Hr. induction H as [|x r Hx Hf IH]; intros [|y r'] Hr; try tauto; constructor.
    + apply Hx. tauto.
    + apply IH. tauto.
Qed.

Lemma ring_rotated_area : forall r r', ring_rotated r r' -> ring_area None r == ring_area None r'.
Proof. intros r r' [l [k [H1 H2]]]. rewrite !ring_area_none, H1, H2, area_rotate_lemma. reflexivity. Qed.

Lemma length_rings_related : forall sq (R : lineT Q -> lineT Q -> Prop) g g',
  rings_related R g g' -> geom_length sq g == geom_length sq g'.
Proof.
  intros sq R g. induction g using geomT_ind'; intros g' Hr; destruct g'; cbn [rings_related] in Hr; try tauto; subst;
    try reflexivity.
  - cbn [geom_length is_empty]. destruct (poly_empty _), (poly_empty _); reflexivity.
  - cbn [geom_length is_empty]. destruct (forallb _ _), (forallb _ _); reflexivity.
  - rewrite !geom_length_coll. apply qsum_map_Forall2.
    revert gs0 Hr. induction H as [|x r Hx Hf IH]; intros [|y r'] Hr; try tauto; constructor.
    + apply Hx. tauto.
    + apply IH. tauto.
Qed.

(* ------------------------------------------------------------------------------------------ *)
(* Scaling the square root by a constant: Length scales, Centroid does not change              *)
(* (what lets the correspondence driver run the lineal formulas with 2^80 * sqrt)              *)
(* ------------------------------------------------------------------------------------------ *)
Section SqScale.
  Variable sq : Q -> Q.
  Variable k : Q.
  Hypothesis k_nz : ~ k == 0.
  Definition sqk (q : Q) : Q := k * sq q.

  Lemma length_xy_sqk : forall L, length_xy sqk L == k * length_xy sq L.
  Proof.
    intros L. rewrite !length_xy_psum. destruct L as [|a r]; cbn [psum]; [ring|].
    rewrite <- pairsum_scale. apply pairsum_ext. intros p q. unfold e_len, xy_len, sqk. reflexivity.
  Qed.

  Lemma sumcl_xy_sqk : forall L,
    fst (fst (sumcl_xy sqk L)) == k * fst (fst (sumcl_xy sq L)) /\
    snd (fst (sumcl_xy sqk L)) == k * snd (fst (sumcl_xy sq L)) /\
    snd (sumcl_xy sqk L) == k * snd (sumcl_xy sq L).
  Proof.
    intros L. destruct (sumcl_xy_psum sqk L) as [H1 [H2 H3]], (sumcl_xy_psum sq L) as [G1 [G2 G3]].
    rewrite H1, H2, H3, G1, G2, G3. destruct L as [|a r]; cbn [psum]; [repeat split; ring|].
    rewrite <- !pairsum_scale.
    repeat split; apply pairsum_ext; intros p q; unfold e_sx, e_sy, e_sl, xy_len, sqk;
      destruct (xy_eqb p q); ring.
  Qed.

  Lemma Qeq_bool_scale : forall n, Qeq_bool (k * n) 0 = Qeq_bool n 0.
  Proof.
    intros n. destruct (Qeq_bool (k * n) 0) eqn:E1, (Qeq_bool n 0) eqn:E2; try reflexivity.
    - apply Qeq_bool_iff in E1. apply Qmult_integral in E1. destruct E1 as [E1|E1]; [contradiction|].
      apply Qeq_bool_iff in E1. congruence.
    - apply Qeq_bool_iff in E2. assert (E : k * n == 0) by (rewrite E2; ring). apply Qeq_bool_iff in E. congruence.
  Qed.

  Lemma scaled_ratio : forall (c c' : xy) (n n' : Q),
    fst c' == k * fst c -> snd c' == k * snd c -> n' == k * n ->
    oxy_eq (if Qeq_bool n' 0 then None else Some (xy_scale c' (1 / n')))
           (if Qeq_bool n 0 then None else Some (xy_scale c (1 / n))).
  Proof.
    intros c c' n n' H1 H2 H3. rewrite (Qeq_bool_eq n' (k * n) 0 0 H3 (Qeq_refl 0)), Qeq_bool_scale.
    destruct (Qeq_bool n 0) eqn:E; [exact I|]. cbn [oxy_eq].
    assert (Hn : ~ n == 0) by (intro K; apply Qeq_bool_iff in K; congruence).
    unfold xy_eq, xy_scale. cbn [fst snd]. rewrite H1, H2, H3. split; field; split; assumption.
  Qed.

  Lemma line_sqk : forall l,
    oxy_eq (line_centroid sqk l) (line_centroid sq l) /\ line_length sqk l == k * line_length sq l.
  Proof.
    intros l. split; [|apply length_xy_sqk].
    unfold line_centroid, sum_centroid_length. destruct (sumcl_xy_sqk (line_xys l)) as [H1 [H2 H3]].
    destruct (sumcl_xy sqk (line_xys l)) as [c' n'], (sumcl_xy sq (line_xys l)) as [c n]. cbn [fst snd] in *.
    apply scaled_ratio; assumption.
  Qed.

  Lemma mline_centroid_sqk : forall ls, oxy_eq (mline_centroid sqk ls) (mline_centroid sq ls).
  Proof.
    intros ls. unfold mline_centroid.
    set (F := fun (s : Q -> Q) (acc : xy * Q) (l : lineT Q) =>
                let '(c, n) := sum_centroid_length s l in (xy_add (fst acc) c, snd acc + n)).
    assert (G : forall l a a', fst (fst a') == k * fst (fst a) -> snd (fst a') == k * snd (fst a) -> snd a' == k * snd a ->
               fst (fst (fold_left (F sqk) l a')) == k * fst (fst (fold_left (F sq) l a)) /\
               snd (fst (fold_left (F sqk) l a')) == k * snd (fst (fold_left (F sq) l a)) /\
               snd (fold_left (F sqk) l a') == k * snd (fold_left (F sq) l a)).
    { induction l as [|x l IH]; intros a a' K1 K2 K3; cbn [fold_left]; [repeat split; assumption|].
      apply IH; unfold F, sum_centroid_length; destruct (sumcl_xy_sqk (line_xys x)) as [S1 [S2 S3]];
        destruct (sumcl_xy sqk (line_xys x)) as [c' n'], (sumcl_xy sq (line_xys x)) as [c n];
        cbn [fst snd xy_add] in *; unfold xy in *.
      - rewrite K1, S1. ring.
      - rewrite K2, S2. ring.
      - rewrite K3, S3. ring. }
    destruct (G ls (xy0, 0) (xy0, 0)) as [H1 [H2 H3]]; [cbn; ring|cbn; ring|cbn; ring|].
    fold (F sqk) (F sq).
    destruct (fold_left (F sqk) ls (xy0, 0)) as [c' n'], (fold_left (F sq) ls (xy0, 0)) as [c n]. cbn [fst snd] in *.
    apply scaled_ratio; assumption.
  Qed.

  Lemma leaf_centroid_sqk : forall g, oxy_eq (leaf_centroid sqk g) (leaf_centroid sq g).
  Proof.
    intros g. destruct g; cbn [leaf_centroid]; try apply oxy_eq_refl.
    - apply line_sqk. - apply mline_centroid_sqk.
  Qed.

  Lemma lw_sqk : forall l,
    lw sqk l == k * lw sq l /\ lcx sqk l == k * lcx sq l /\ lcy sqk l == k * lcy sq l.
  Proof.
    intros l. destruct (line_sqk l) as [H1 H2]. unfold lw, lcx, lcy.
    destruct (line_centroid sqk l) as [c'|], (line_centroid sq l) as [c|]; cbn in H1; try tauto.
    - destruct H1 as [K1 K2]. rewrite K1, K2, H2. repeat split; ring.
    - repeat split; ring.
  Qed.

  Lemma gl_sqk : forall g,
    glw sqk g == k * glw sq g /\ glx sqk g == k * glx sq g /\ gly sqk g == k * gly sq g.
  Proof.
    intros g. destruct g; cbn [glw glx gly]; try (repeat split; ring).
    - apply lw_sqk.
    - repeat split.
      + rewrite (qsum_map_ext_all _ (lw sqk) (fun l => lw sq l * k)) by (intros l; destruct (lw_sqk l) as [K _]; rewrite K; ring).
        rewrite qsum_map_scale. ring.
      + rewrite (qsum_map_ext_all _ (lcx sqk) (fun l => lcx sq l * k)) by (intros l; destruct (lw_sqk l) as [_ [K _]]; rewrite K; ring).
        rewrite qsum_map_scale. ring.
      + rewrite (qsum_map_ext_all _ (lcy sqk) (fun l => lcy sq l * k)) by (intros l; destruct (lw_sqk l) as [_ [_ K]]; rewrite K; ring).
        rewrite qsum_map_scale. ring.
  Qed.

  Lemma geom_length_sqk : forall g, geom_length sqk g == k * geom_length sq g.
  Proof.
    induction g using geomT_ind'.
    - cbn [geom_length]. destruct (is_empty _); ring.
    - rewrite !geom_length_line. apply length_xy_sqk.
    - cbn [geom_length]. destruct (is_empty _); ring.
    - cbn [geom_length]. destruct (is_empty _); ring.
    - rewrite !geom_length_mline.
      rewrite (qsum_map_ext_all _ (line_length sqk) (fun l => line_length sq l * k)) by (intros l; unfold line_length; rewrite length_xy_sqk; ring).
      rewrite qsum_map_scale. ring.
    - cbn [geom_length]. destruct (is_empty _); ring.
    - rewrite !geom_length_coll.
      rewrite (qsum_map_ext _ (geom_length sqk) (fun x => geom_length sq x * k)).
      + rewrite qsum_map_scale. ring.
      + eapply Forall_impl; [|exact H]. intros a Ha. rewrite Ha. ring.
  Qed.

  Lemma geom_centroid_sqk : forall g, oxy_eq (geom_centroid sqk g) (geom_centroid sq g).
  Proof.
    intros g. destruct g; try apply (leaf_centroid_sqk (GPoint p)); try apply (leaf_centroid_sqk (GLine l));
      try apply (leaf_centroid_sqk (GPoly p)); try apply (leaf_centroid_sqk (GMPoint ct ps));
      try apply (leaf_centroid_sqk (GMLine ct ls)); try apply (leaf_centroid_sqk (GMPoly ct ps)).
    cbn [geom_centroid]. unfold coll_centroid. destruct (forallb (@is_empty Q) gs); [exact I|].
    set (lv := flat_map leaves gs).
    destruct (hdim (GColl ct gs)) as [|[|n]]; cbn [oxy_eq].
    - apply xy_eq_refl.
    - destruct (coll_linear_spec sqk lv) as [H1 H2], (coll_linear_spec sq lv) as [G1 G2].
      unfold xy_eq. rewrite H1, H2, G1, G2.
      rewrite (qsum_map_ext_all _ (glw sqk) (fun g => glw sq g * k)) by (intros g; destruct (gl_sqk g) as [K _]; rewrite K; ring).
      rewrite (qsum_map_ext_all _ (glx sqk) (fun g => glx sq g * k)) by (intros g; destruct (gl_sqk g) as [_ [K _]]; rewrite K; ring).
      rewrite (qsum_map_ext_all _ (gly sqk) (fun g => gly sq g * k)) by (intros g; destruct (gl_sqk g) as [_ [_ K]]; rewrite K; ring).
      rewrite !qsum_map_scale.
      set (L := qsum (map (glw sq) lv)). destruct (Qeq_dec L 0) as [E|E].
      + rewrite E. unfold Qdiv. rewrite Qmult_0_l. change (/ 0) with 0. split; ring.
      + split; field; split; assumption.
    - destruct (coll_areal_spec sqk lv) as [H1 H2], (coll_areal_spec sq lv) as [G1 G2].
      unfold xy_eq. rewrite H1, H2, G1, G2.
      split; apply Qdiv_comp; try reflexivity; apply qsum_map_ext_all; intros g;
        assert (K := leaf_centroid_sqk g);
        destruct (leaf_centroid sqk g), (leaf_centroid sq g); cbn in K; try tauto; cbn [ocx ocy];
        try reflexivity; destruct K as [K1 K2]; rewrite ?K1, ?K2; reflexivity.
  Qed.
End SqScale.
