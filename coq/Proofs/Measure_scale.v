(* Property C14 - scale equivariance of the measure model (Model/Measure.v):
   multiplying every X and Y by c multiplies Area by c^2, Length by c and Centroid by c. *)
From Coq Require Import QArith Qabs ZArith List Bool Lia Lqa Setoid Morphisms.
From SF Require Import Base.GeomAST Model.Measure Model.MeasureScale Proofs.Measure_proofs.
Import ListNotations.
Open Scope Q_scope.

(* ---- division in Q: x / 0 = 0, so the scaling laws of the quotients hold without any
   non-degeneracy hypothesis ---- *)
Lemma qdiv_by_zero : forall a b, b == 0 -> a / b == 0.
Proof. intros a b H. rewrite H. unfold Qdiv. change (/ 0) with 0. ring. Qed.

Lemma div_scale_3_2 : forall c N S, ~ c == 0 -> (c * c * c * N) / (c * c * S) == c * (N / S).
Proof.
  intros c N S Hc. destruct (Qeq_dec S 0) as [E|E].
  - rewrite (qdiv_by_zero N S E), (qdiv_by_zero _ (c * c * S)); [ring|]. rewrite E. ring.
  - field. split; assumption.
Qed.

Lemma div_scale_2_1 : forall c N S, ~ c == 0 -> (c * c * N) * (1 / (c * S)) == c * (N * (1 / S)).
Proof.
  intros c N S Hc. destruct (Qeq_dec S 0) as [E|E].
  - rewrite (qdiv_by_zero 1 S E), (qdiv_by_zero 1 (c * S)); [ring|]. rewrite E. ring.
  - field. split; assumption.
Qed.

Lemma div_scale_ring : forall c c6 a2, ~ c == 0 ->
  (c * c * c * c6) * (1 / 3 / (c * c * a2)) == (c6 * (1 / 3 / a2)) * c.
Proof.
  intros c c6 a2 Hc. destruct (Qeq_dec a2 0) as [E|E].
  - rewrite (qdiv_by_zero (1 / 3) a2 E), (qdiv_by_zero (1 / 3) (c * c * a2)); [ring|]. rewrite E. ring.
  - field. split; assumption.
Qed.

Section Scale.
  Variable c : Q.
  Let f := scale c.

  Lemma fst_f : forall p, fst (f p) = fst p * c. Proof. reflexivity. Qed.
  Lemma snd_f : forall p, snd (f p) = snd p * c. Proof. reflexivity. Qed.

  (* ------------------------------------------------------------------ Area *)
  Lemma ring_area_xy_scale : forall L, ring_area_xy (map f L) == c * c * ring_area_xy L.
  Proof.
    intros L. rewrite !ring_area_psum. destruct L as [|a r]; cbn [map psum]; [field|].
    rewrite pairsum_map.
    rewrite (pairsum_ext _ (fun p q => (c * c) * e_shoe p q)).
    - rewrite pairsum_scale. field.
    - intros p q. unfold e_shoe. rewrite !fst_f, !snd_f. ring.
  Qed.

  Lemma ring_area_scale : forall r, ring_area None (line_tr f r) == c * c * ring_area None r.
  Proof. intros r. rewrite !ring_area_none, line_xys_tr. apply ring_area_xy_scale. Qed.

  Lemma Qabs_cc : forall a, Qabs (c * c * a) == c * c * Qabs a.
  Proof.
    intros a. rewrite Qabs_Qmult. apply Qmult_comp; [|reflexivity].
    apply Qabs_pos. destruct (Qlt_le_dec c 0) as [H|H].
    - setoid_replace (c * c) with ((- c) * (- c)) by ring. apply Qmult_le_0_compat; lra.
    - apply Qmult_le_0_compat; assumption.
  Qed.

  Lemma shell_term_scale : forall s r, shell_term s None (line_tr f r) == c * c * shell_term s None r.
  Proof. intros s r. unfold shell_term. destruct s; rewrite ring_area_scale; [reflexivity|apply Qabs_cc]. Qed.
  Lemma hole_term_scale : forall s r, hole_term s None (line_tr f r) == c * c * hole_term s None r.
  Proof. intros s r. unfold hole_term. destruct s; rewrite ring_area_scale; [reflexivity|rewrite Qabs_cc; ring]. Qed.

  Lemma poly_area_scale : forall s p, poly_area s None (poly_tr f p) == c * c * poly_area s None p.
  Proof.
    intros s [ct [|sh hs]]; cbn [poly_tr map].
    - rewrite !poly_area_empty. ring.
    - rewrite !poly_area_spec, shell_term_scale, map_map.
      rewrite (qsum_map_ext_all _ (fun x => hole_term s None (line_tr f x)) (fun x => hole_term s None x * (c * c)))
        by (intros x; rewrite hole_term_scale; ring).
      rewrite qsum_map_scale. ring.
  Qed.

  Lemma geom_area_scale : forall s g, geom_area s None (geom_tr f g) == c * c * geom_area s None g.
  Proof.
    intros s g. induction g using geomT_ind'; cbn [geom_tr]; try (cbn [geom_area]; ring).
    - cbn [geom_area]. apply poly_area_scale.
    - cbn [geom_area]. rewrite !mpoly_area_spec, map_map.
      rewrite (qsum_map_ext_all _ (fun x => poly_area s None (poly_tr f x)) (fun x => poly_area s None x * (c * c)))
        by (intros x; rewrite poly_area_scale; ring).
      rewrite qsum_map_scale. ring.
    - rewrite !coll_area_spec, map_map.
      rewrite (qsum_map_ext _ (fun x => geom_area s None (geom_tr f x)) (fun x => geom_area s None x * (c * c))).
      + rewrite qsum_map_scale. ring.
      + eapply Forall_impl; [|exact H]. intros a Ha. cbv beta in Ha. rewrite Ha. ring.
  Qed.

  (* ------------------------------------------------------------------ Length *)
  Variables sq sq' : Q -> Q.
  Hypothesis sq_proper : respects_eq sq.
  Hypothesis sq'_proper : respects_eq sq'.
  Hypothesis sq_hom : sqrt_homogeneous c sq sq'.

  Lemma xy_len_scale : forall a b, xy_len sq' (xy_sub (f a) (f b)) == c * xy_len sq (xy_sub a b).
  Proof.
    intros a b. unfold xy_len, xy_sub. cbn [fst snd]. rewrite !fst_f, !snd_f.
    etransitivity; [|apply sq_hom]. apply sq'_proper. ring.
  Qed.

  Lemma length_xy_scale : forall L, length_xy sq' (map f L) == c * length_xy sq L.
  Proof.
    intros L. rewrite !length_xy_psum. destruct L as [|a r]; cbn [map psum]; [ring|].
    rewrite pairsum_map, <- pairsum_scale. apply pairsum_ext. intros p q. unfold e_len. apply xy_len_scale.
  Qed.

  Lemma line_length_scale : forall l, line_length sq' (line_tr f l) == c * line_length sq l.
  Proof. intros l. unfold line_length. rewrite line_xys_tr. apply length_xy_scale. Qed.

  Lemma geom_length_scale : forall g, geom_length sq' (geom_tr f g) == c * geom_length sq g.
  Proof.
    induction g using geomT_ind'; cbn [geom_tr].
    - cbn [geom_length is_empty]. destruct (point_empty _), (point_empty _); ring.
    - rewrite !geom_length_line by assumption. apply line_length_scale.
    - cbn [geom_length is_empty]. destruct (poly_empty _), (poly_empty _); ring.
    - cbn [geom_length is_empty]. destruct (forallb _ _), (forallb _ _); ring.
    - rewrite !geom_length_mline by assumption. rewrite map_map.
      rewrite (qsum_map_ext_all _ (fun x => line_length sq' (line_tr f x)) (fun x => line_length sq x * c))
        by (intros x; rewrite line_length_scale; ring).
      rewrite qsum_map_scale. ring.
    - cbn [geom_length is_empty]. destruct (forallb _ _), (forallb _ _); ring.
    - rewrite !geom_length_coll by assumption. rewrite map_map.
      rewrite (qsum_map_ext _ (fun x => geom_length sq' (geom_tr f x)) (fun x => geom_length sq x * c)).
      + rewrite qsum_map_scale. ring.
      + eapply Forall_impl; [|exact H]. intros a Ha. cbv beta in Ha. rewrite Ha. ring.
  Qed.

  (* ------------------------------------------------------------------ Centroid *)
  Hypothesis c_nz : ~ c == 0.

  Lemma psum_map_scale : forall (e e' : xy -> xy -> Q) (k : Q),
    (forall p q, e' (f p) (f q) == k * e p q) -> forall L, psum e' (map f L) == k * psum e L.
  Proof.
    intros e e' k He [|a r]; cbn [map psum]; [ring|].
    rewrite pairsum_map, <- pairsum_scale. apply pairsum_ext. exact He.
  Qed.

  Lemma tri_area2_scale : forall b p q, tri_area2 (f b) (f p) (f q) == c * c * tri_area2 b p q.
  Proof. intros. unfold tri_area2. rewrite !fst_f, !snd_f. ring. Qed.

  Lemma ring_centroid_scale : forall L, xy_eq (centroid_of_ring_xy (map f L)) (f (centroid_of_ring_xy L)).
  Proof.
    intros [|b tl]; cbn [map centroid_of_ring_xy].
    - unfold xy_eq. rewrite fst_f, snd_f. cbn. split; ring.
    - destruct (fan_spec (f b) (map f tl)) as [H1 [H2 H3]], (fan_spec b tl) as [G1 [G2 G3]].
      destruct (fan (f b) (map f tl)) as [a2' c6'], (fan b tl) as [a2 c6]. cbn [fst snd] in *.
      assert (A : a2' == c * c * a2).
      { rewrite H1, G1. apply psum_map_scale. intros p q. unfold e_tri. apply tri_area2_scale. }
      assert (X : fst c6' == c * c * c * fst c6).
      { rewrite H2, G2. apply psum_map_scale. intros p q. unfold e_c6x. rewrite tri_area2_scale, !fst_f. ring. }
      assert (Y : snd c6' == c * c * c * snd c6).
      { rewrite H3, G3. apply psum_map_scale. intros p q. unfold e_c6y. rewrite tri_area2_scale, !snd_f. ring. }
      unfold xy_eq. rewrite fst_f, snd_f. unfold xy_scale. cbn [fst snd]. rewrite A, X, Y.
      split; apply div_scale_ring; assumption.
  Qed.

  Lemma ring_w_scale : forall first r, ring_w first (line_tr f r) == c * c * ring_w first r.
  Proof. intros first r. unfold ring_w. destruct first; rewrite ring_area_scale, Qabs_cc; ring. Qed.

  Lemma centroid_of_ring_scale : forall r, xy_eq (centroid_of_ring (line_tr f r)) (f (centroid_of_ring r)).
  Proof. intros r. rewrite centroid_of_ring_tr. apply ring_centroid_scale. Qed.

  Lemma oscale_ocx : forall o o', oxy_eq o' (oscale c o) -> ocx o' == c * ocx o /\ ocy o' == c * ocy o.
  Proof.
    intros [p|] [p'|] H; cbn in H; try tauto; cbn [ocx ocy]; [|split; ring].
    destruct H as [H1 H2]. rewrite H1, H2. rewrite fst_f, snd_f. split; ring.
  Qed.

  Lemma poly_centroid_scale : forall p, oxy_eq (poly_centroid (poly_tr f p)) (oscale c (poly_centroid p)).
  Proof.
    intros [ct [|sh hs]]; [exact I|]. cbn [poly_tr map].
    destruct (poly_centroid_spec ct sh hs) as [c0 [Ec [H1 [H2 _]]]].
    destruct (poly_centroid_spec ct (line_tr f sh) (map (line_tr f) hs)) as [c' [Ec' [G1 [G2 _]]]].
    rewrite Ec, Ec'. cbn [oscale option_map oxy_eq]. unfold xy_eq. rewrite fst_f, snd_f, G1, G2, H1, H2.
    set (S := ring_w true sh + qsum (map (ring_w false) hs)).
    assert (ES : ring_w true (line_tr f sh) + qsum (map (ring_w false) (map (line_tr f) hs)) == c * c * S).
    { rewrite ring_w_scale, map_map.
      rewrite (qsum_map_ext_all _ (fun x => ring_w false (line_tr f x)) (fun x => ring_w false x * (c * c)))
        by (intros x; rewrite ring_w_scale; ring).
      rewrite qsum_map_scale. unfold S. ring. }
    rewrite ES, !map_map. destruct (centroid_of_ring_scale sh) as [Cx Cy]. rewrite fst_f in Cx. rewrite snd_f in Cy.
    rewrite ring_w_scale, Cx, Cy.
    rewrite (qsum_map_ext_all _ (fun x => ring_w false (line_tr f x) * fst (centroid_of_ring (line_tr f x)))
               (fun x => ring_w false x * fst (centroid_of_ring x) * (c * c * c))).
    2:{ intros x. destruct (centroid_of_ring_scale x) as [Kx _]. rewrite fst_f in Kx. rewrite ring_w_scale, Kx. ring. }
    rewrite (qsum_map_ext_all _ (fun x => ring_w false (line_tr f x) * snd (centroid_of_ring (line_tr f x)))
               (fun x => ring_w false x * snd (centroid_of_ring x) * (c * c * c))).
    2:{ intros x. destruct (centroid_of_ring_scale x) as [_ Ky]. rewrite snd_f in Ky. rewrite ring_w_scale, Ky. ring. }
    rewrite !qsum_map_scale. split.
    - etransitivity; [|rewrite Qmult_comm; apply (div_scale_3_2 c _ S c_nz)]. apply Qdiv_comp; [ring|reflexivity].
    - etransitivity; [|rewrite Qmult_comm; apply (div_scale_3_2 c _ S c_nz)]. apply Qdiv_comp; [ring|reflexivity].
  Qed.

  Lemma forallb_poly_empty_scale : forall ps, forallb (@poly_empty Q) (map (poly_tr f) ps) = forallb (@poly_empty Q) ps.
  Proof. intros ps. apply forallb_map_eq. intros x. apply poly_tr_empty. Qed.

  Lemma mpoly_centroid_scale : forall ps, oxy_eq (mpoly_centroid (map (poly_tr f) ps)) (oscale c (mpoly_centroid ps)).
  Proof.
    intros ps. destruct (forallb (@poly_empty Q) ps) eqn:E.
    - unfold mpoly_centroid. rewrite forallb_poly_empty_scale, E. exact I.
    - destruct (mpoly_centroid_spec ps E) as [c0 [Ec [H1 H2]]].
      assert (E' := E). rewrite <- forallb_poly_empty_scale in E'.
      destruct (mpoly_centroid_spec (map (poly_tr f) ps) E') as [c' [Ec' [G1 G2]]].
      rewrite Ec, Ec'. cbn [oscale option_map oxy_eq]. unfold xy_eq. rewrite fst_f, snd_f, G1, G2, H1, H2, !map_map.
      set (T := qsum (map (poly_area false None) ps)).
      assert (ET : qsum (map (fun x => poly_area false None (poly_tr f x)) ps) == c * c * T).
      { rewrite (qsum_map_ext_all _ (fun x => poly_area false None (poly_tr f x)) (fun x => poly_area false None x * (c * c)))
          by (intros x; rewrite poly_area_scale; ring).
        rewrite qsum_map_scale. unfold T. ring. }
      rewrite ET.
      rewrite (qsum_map_ext_all _ (fun x => poly_area false None (poly_tr f x) * ocx (poly_centroid (poly_tr f x)))
                 (fun x => poly_area false None x * ocx (poly_centroid x) * (c * c * c))).
      2:{ intros x. destruct (oscale_ocx _ _ (poly_centroid_scale x)) as [Kx _]. rewrite poly_area_scale, Kx. ring. }
      rewrite (qsum_map_ext_all _ (fun x => poly_area false None (poly_tr f x) * ocy (poly_centroid (poly_tr f x)))
                 (fun x => poly_area false None x * ocy (poly_centroid x) * (c * c * c))).
      2:{ intros x. destruct (oscale_ocx _ _ (poly_centroid_scale x)) as [_ Ky]. rewrite poly_area_scale, Ky. ring. }
      rewrite !qsum_map_scale. split.
      + etransitivity; [|rewrite Qmult_comm; apply (div_scale_3_2 c _ T c_nz)]. apply Qdiv_comp; [ring|reflexivity].
      + etransitivity; [|rewrite Qmult_comm; apply (div_scale_3_2 c _ T c_nz)]. apply Qdiv_comp; [ring|reflexivity].
  Qed.

  (* ---- points ---- *)
  Lemma pc_scale : forall p,
    pcx (point_tr f p) == pcx p * c /\ pcy (point_tr f p) == pcy p * c /\ pcn (point_tr f p) = pcn p.
  Proof.
    intros p. unfold pcx, pcy, pcn. rewrite point_xy_tr. destruct (point_xy p) as [v|]; cbn [option_map ocx ocy].
    - rewrite fst_f, snd_f. repeat split; ring.
    - repeat split; ring.
  Qed.

  Lemma qsum_pcx_scale : forall ps,
    qsum (map pcx (map (point_tr f) ps)) == qsum (map pcx ps) * c /\
    qsum (map pcy (map (point_tr f) ps)) == qsum (map pcy ps) * c /\
    zsum (map pcn (map (point_tr f) ps)) = zsum (map pcn ps).
  Proof.
    intros ps. rewrite !map_map. repeat split.
    - rewrite <- qsum_map_scale. apply qsum_map_ext_all. intros x. apply pc_scale.
    - rewrite <- qsum_map_scale. apply qsum_map_ext_all. intros x. apply pc_scale.
    - f_equal. apply map_ext. intros x. apply pc_scale.
  Qed.

  Lemma mpoint_centroid_scale : forall ps,
    oxy_eq (mpoint_centroid (map (point_tr f) ps)) (oscale c (mpoint_centroid ps)).
  Proof.
    intros ps. unfold mpoint_centroid.
    destruct (points_sum_spec (map (point_tr f) ps) xy0 0%Z) as [H1 [H2 H3]].
    destruct (points_sum_spec ps xy0 0%Z) as [G1 [G2 G3]].
    destruct (qsum_pcx_scale ps) as [K1 [K2 K3]].
    destruct (points_sum (map (point_tr f) ps) (xy0, 0%Z)) as [s' n'], (points_sum ps (xy0, 0%Z)) as [s n].
    cbn [fst snd] in *.
    assert (En : n' = n) by (rewrite H3, G3, K3; reflexivity). rewrite En. clear H3 G3 En.
    destruct (n =? 0)%Z; [exact I|]. cbn [oscale option_map oxy_eq]. unfold xy_eq. rewrite fst_f, snd_f.
    unfold xy_scale. cbn [fst snd]. rewrite H1, H2, G1, G2, K1, K2. cbn [xy0 fst snd]. split; ring.
  Qed.

  (* ---- lines ---- *)
  Lemma Qeq_bool_mult_r : forall x y, Qeq_bool (x * c) (y * c) = Qeq_bool x y.
  Proof.
    intros x y. destruct (Qeq_bool (x * c) (y * c)) eqn:E1, (Qeq_bool x y) eqn:E2; try reflexivity.
    - apply Qeq_bool_iff in E1. apply (Qmult_inj_r x y c c_nz) in E1. apply Qeq_bool_iff in E1. congruence.
    - apply Qeq_bool_iff in E2. assert (E : x * c == y * c) by (rewrite E2; reflexivity).
      apply Qeq_bool_iff in E. congruence.
  Qed.

  Lemma xy_eqb_scale : forall a b, xy_eqb (f a) (f b) = xy_eqb a b.
  Proof. intros a b. unfold xy_eqb. rewrite !fst_f, !snd_f, !Qeq_bool_mult_r. reflexivity. Qed.

  Lemma sumcl_xy_scale : forall L,
    fst (fst (sumcl_xy sq' (map f L))) == c * c * fst (fst (sumcl_xy sq L)) /\
    snd (fst (sumcl_xy sq' (map f L))) == c * c * snd (fst (sumcl_xy sq L)) /\
    snd (sumcl_xy sq' (map f L)) == c * snd (sumcl_xy sq L).
  Proof.
    intros L. destruct (sumcl_xy_psum sq' (map f L)) as [H1 [H2 H3]], (sumcl_xy_psum sq L) as [G1 [G2 G3]].
    rewrite H1, H2, H3, G1, G2, G3.
    repeat split; apply psum_map_scale; intros p q; unfold e_sx, e_sy, e_sl; rewrite xy_eqb_scale;
      destruct (xy_eqb p q); try ring; rewrite xy_len_scale, ?fst_f, ?snd_f; ring.
  Qed.

  Lemma scaled_ratio_2_1 : forall (cc cc' : xy) (n n' : Q),
    fst cc' == c * c * fst cc -> snd cc' == c * c * snd cc -> n' == c * n ->
    oxy_eq (if Qeq_bool n' 0 then None else Some (xy_scale cc' (1 / n')))
           (oscale c (if Qeq_bool n 0 then None else Some (xy_scale cc (1 / n)))).
  Proof.
    intros cc cc' n n' H1 H2 H3. rewrite (Qeq_bool_eq n' (c * n) 0 0 H3 (Qeq_refl 0)), (Qeq_bool_scale c c_nz).
    destruct (Qeq_bool n 0); [exact I|]. cbn [oscale option_map oxy_eq]. unfold xy_eq. rewrite fst_f, snd_f.
    unfold xy_scale. cbn [fst snd]. rewrite H1, H2, H3, !(div_scale_2_1 c _ n c_nz). split; ring.
  Qed.

  Lemma line_centroid_scale : forall l,
    oxy_eq (line_centroid sq' (line_tr f l)) (oscale c (line_centroid sq l)).
  Proof.
    intros l. unfold line_centroid, sum_centroid_length. rewrite line_xys_tr.
    destruct (sumcl_xy_scale (line_xys l)) as [H1 [H2 H3]].
    destruct (sumcl_xy sq' (map f (line_xys l))) as [c' n'], (sumcl_xy sq (line_xys l)) as [c0 n]. cbn [fst snd] in *.
    apply scaled_ratio_2_1; assumption.
  Qed.

  Lemma mline_centroid_scale : forall ls,
    oxy_eq (mline_centroid sq' (map (line_tr f) ls)) (oscale c (mline_centroid sq ls)).
  Proof.
    intros ls. unfold mline_centroid.
    set (F := fun (s : Q -> Q) (acc : xy * Q) (l : lineT Q) =>
                let '(c, n) := sum_centroid_length s l in (xy_add (fst acc) c, snd acc + n)).
    assert (G : forall l a a', fst (fst a') == c * c * fst (fst a) -> snd (fst a') == c * c * snd (fst a) -> snd a' == c * snd a ->
               fst (fst (fold_left (F sq') (map (line_tr f) l) a')) == c * c * fst (fst (fold_left (F sq) l a)) /\
               snd (fst (fold_left (F sq') (map (line_tr f) l) a')) == c * c * snd (fst (fold_left (F sq) l a)) /\
               snd (fold_left (F sq') (map (line_tr f) l) a') == c * snd (fold_left (F sq) l a)).
    { induction l as [|x l IH]; intros a a' K1 K2 K3; cbn [map fold_left]; [repeat split; assumption|].
      apply IH; unfold F, sum_centroid_length; rewrite line_xys_tr; destruct (sumcl_xy_scale (line_xys x)) as [S1 [S2 S3]];
        destruct (sumcl_xy sq' (map f (line_xys x))) as [c' n'], (sumcl_xy sq (line_xys x)) as [c0 n];
        cbn [fst snd xy_add] in *; unfold xy in *.
      - rewrite K1, S1. ring.
      - rewrite K2, S2. ring.
      - rewrite K3, S3. ring. }
    destruct (G ls (xy0, 0) (xy0, 0)) as [H1 [H2 H3]]; [cbn; ring|cbn; ring|cbn; ring|].
    fold (F sq') (F sq).
    destruct (fold_left (F sq') (map (line_tr f) ls) (xy0, 0)) as [c' n'], (fold_left (F sq) ls (xy0, 0)) as [c0 n].
    cbn [fst snd] in *. apply scaled_ratio_2_1; assumption.
  Qed.

  (* ---- non-collection geometries ---- *)
  Lemma leaf_centroid_scale : forall g,
    oxy_eq (leaf_centroid sq' (geom_tr f g)) (oscale c (leaf_centroid sq g)).
  Proof.
    intros g. destruct g; cbn [geom_tr leaf_centroid].
    - rewrite point_xy_tr. destruct (point_xy p); cbn; [apply xy_eq_refl|exact I].
    - apply line_centroid_scale.
    - apply poly_centroid_scale.
    - apply mpoint_centroid_scale.
    - apply mline_centroid_scale.
    - apply mpoly_centroid_scale.
    - exact I.
  Qed.

  (* ---- what each leaf contributes to a collection centroid ---- *)
  Lemma lw_scale : forall l,
    lw sq' (line_tr f l) == lw sq l * c /\ lcx sq' (line_tr f l) == lcx sq l * (c * c) /\
    lcy sq' (line_tr f l) == lcy sq l * (c * c).
  Proof.
    intros l. assert (K := line_centroid_scale l). unfold lw, lcx, lcy.
    destruct (line_centroid sq' (line_tr f l)) as [p'|], (line_centroid sq l) as [p|]; cbn in K; try tauto.
    - destruct K as [K1 K2]. rewrite fst_f in K1. rewrite snd_f in K2.
      rewrite K1, K2, line_length_scale. repeat split; ring.
    - repeat split; ring.
  Qed.

  Lemma gl_scale : forall g,
    glw sq' (geom_tr f g) == glw sq g * c /\ glx sq' (geom_tr f g) == glx sq g * (c * c) /\
    gly sq' (geom_tr f g) == gly sq g * (c * c).
  Proof.
    intros g. destruct g; cbn [geom_tr glw glx gly]; try (repeat split; ring).
    - apply lw_scale.
    - rewrite !map_map. repeat split; rewrite <- qsum_map_scale; apply qsum_map_ext_all; intros x; apply lw_scale.
  Qed.

  Lemma gp_scale : forall g,
    gpx (geom_tr f g) == gpx g * c /\ gpy (geom_tr f g) == gpy g * c /\ gpn (geom_tr f g) = gpn g.
  Proof.
    intros g. destruct g; cbn [geom_tr gpx gpy gpn]; try (repeat split; ring).
    - apply pc_scale.
    - apply qsum_pcx_scale.
  Qed.

  Lemma geom_centroid_scale : forall g,
    oxy_eq (geom_centroid sq' (geom_tr f g)) (oscale c (geom_centroid sq g)).
  Proof.
    intros g. destruct g; try apply (leaf_centroid_scale (GPoint p)); try apply (leaf_centroid_scale (GLine l));
      try apply (leaf_centroid_scale (GPoly p)); try apply (leaf_centroid_scale (GMPoint ct ps));
      try apply (leaf_centroid_scale (GMLine ct ls)); try apply (leaf_centroid_scale (GMPoly ct ps)).
    assert (Hh := geom_tr_hdim f (GColl ct gs)). assert (Hl := geom_tr_leaves f (GColl ct gs)).
    cbn [geom_tr leaves] in Hh, Hl.
    cbn [geom_tr geom_centroid]. unfold coll_centroid.
    rewrite (forallb_map_eq _ (@is_empty Q) (geom_tr f) gs (geom_tr_empty f)), Hh, Hl.
    destruct (forallb (@is_empty Q) gs); [exact I|].
    set (lv := flat_map leaves gs).
    destruct (hdim (GColl ct gs)) as [|[|n]]; cbn [oscale option_map oxy_eq]; unfold xy_eq; rewrite fst_f, snd_f.
    - destruct (coll_point_spec (map (geom_tr f) lv)) as [H1 H2], (coll_point_spec lv) as [G1 G2].
      rewrite H1, H2, G1, G2, !map_map.
      rewrite (qsum_map_ext_all _ (fun x => gpx (geom_tr f x)) (fun x => gpx x * c)) by (intros x; apply gp_scale).
      rewrite (qsum_map_ext_all _ (fun x => gpy (geom_tr f x)) (fun x => gpy x * c)) by (intros x; apply gp_scale).
      rewrite !qsum_map_scale.
      assert (EN : map (fun x => gpn (geom_tr f x)) lv = map gpn lv) by (apply map_ext; intros x; apply gp_scale).
      rewrite EN. split; ring.
    - destruct (coll_linear_spec sq' (map (geom_tr f) lv)) as [H1 H2], (coll_linear_spec sq lv) as [G1 G2].
      rewrite H1, H2, G1, G2, !map_map.
      rewrite (qsum_map_ext_all _ (fun x => glw sq' (geom_tr f x)) (fun x => glw sq x * c)) by (intros x; apply gl_scale).
      rewrite (qsum_map_ext_all _ (fun x => glx sq' (geom_tr f x)) (fun x => glx sq x * (c * c))) by (intros x; apply gl_scale).
      rewrite (qsum_map_ext_all _ (fun x => gly sq' (geom_tr f x)) (fun x => gly sq x * (c * c))) by (intros x; apply gl_scale).
      rewrite !qsum_map_scale.
      set (L := qsum (map (glw sq) lv)).
      split.
      + setoid_replace (L * c) with (c * L) by ring.
        etransitivity; [|rewrite Qmult_comm; apply (div_scale_2_1 c _ L c_nz)]. ring.
      + setoid_replace (L * c) with (c * L) by ring.
        etransitivity; [|rewrite Qmult_comm; apply (div_scale_2_1 c _ L c_nz)]. ring.
    - destruct (coll_areal_spec sq' (map (geom_tr f) lv)) as [H1 H2], (coll_areal_spec sq lv) as [G1 G2].
      rewrite H1, H2, G1, G2, !map_map.
      set (T := qsum (map (geom_area false None) lv)).
      assert (ET : qsum (map (fun x => geom_area false None (geom_tr f x)) lv) == c * c * T).
      { rewrite (qsum_map_ext_all _ (fun x => geom_area false None (geom_tr f x)) (fun x => geom_area false None x * (c * c)))
          by (intros x; rewrite geom_area_scale; ring).
        rewrite qsum_map_scale. unfold T. ring. }
      rewrite ET.
      rewrite (qsum_map_ext_all _ (fun x => geom_area false None (geom_tr f x) * ocx (leaf_centroid sq' (geom_tr f x)))
                 (fun x => geom_area false None x * ocx (leaf_centroid sq x) * (c * c * c))).
      2:{ intros x. destruct (oscale_ocx _ _ (leaf_centroid_scale x)) as [Kx _]. rewrite geom_area_scale, Kx. ring. }
      rewrite (qsum_map_ext_all _ (fun x => geom_area false None (geom_tr f x) * ocy (leaf_centroid sq' (geom_tr f x)))
                 (fun x => geom_area false None x * ocy (leaf_centroid sq x) * (c * c * c))).
      2:{ intros x. destruct (oscale_ocx _ _ (leaf_centroid_scale x)) as [_ Ky]. rewrite geom_area_scale, Ky. ring. }
      rewrite !qsum_map_scale. split.
      + etransitivity; [|rewrite Qmult_comm; apply (div_scale_3_2 c _ T c_nz)]. apply Qdiv_comp; [ring|reflexivity].
      + etransitivity; [|rewrite Qmult_comm; apply (div_scale_3_2 c _ T c_nz)]. apply Qdiv_comp; [ring|reflexivity].
  Qed.
End Scale.

(* the hypothesis of the Length / Centroid laws is satisfiable for every root function and every
   non-zero factor *)
Lemma sqrt_homogeneous_witness : forall (c : Q) (sq : Q -> Q), respects_eq sq -> ~ c == 0 ->
  let sq' := fun y => c * sq (y / (c * c)) in respects_eq sq' /\ sqrt_homogeneous c sq sq'.
Proof.
  intros c sq Hp Hc sq'. split.
  - intros a b Hab. unfold sq'. apply Qmult_comp; [reflexivity|]. apply Hp. rewrite Hab. reflexivity.
  - intros x. unfold sq'. apply Qmult_comp; [reflexivity|]. apply Hp. field. assumption.
Qed.
