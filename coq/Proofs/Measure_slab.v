(* Property C14 - the shoelace sum IS the area of the point set, as the exact slab functional of
   Model/SetOpSpec.v ([area_of]: sum over the trapezoids of the slab decomposition where
   membership holds) measures it.

   Part A (all closed rings, no simplicity needed):  [shoelace_is_winding_area]
     - (signed shoelace area of r) = sum over the trapezoids c of the arrangement of
       (winding number of r at the witness of c) * area c,
     where the winding number is the signed count of edges of r passing above the witness
     ([zwind]: +1 for an edge running left-to-right, -1 right-to-left).  Route: (1) the trapezoid
     form of the shoelace sum splits at the event abscissae because an edge is affine
     ([edge_slabs]); (2) inside a slab the height of a spanning edge above the lowest height is the
     sum of the gaps below it ([height_gaps]); (3) a closed ring crosses every vertical line equally
     often in both directions ([ring_balance]); (4) exchange the sums.
   Part B: parity of the winding number = the crossing parity that [inG] uses ([zwind_odd],
     closed_ring_parity), cell witnesses lie on no segment ([cell_off_segments]); hence, whenever
     the winding number of the ring takes the values 0 and sigma only (sigma = +-1) at the
     witnesses - a decidable condition, [winding_simple], true of simple rings - the absolute
     shoelace area equals [area_of] of the polygon's point set ([shoelace_is_slab_area]); with
     holes under pointwise nesting ([shoelace_is_slab_area_holes]).
   NOT proved: that every simple ring satisfies [winding_simple] (the alternation of edge
   directions in height order - the Jordan-curve content).  It is a boolean that the kernel / the
   extracted code evaluates per ring. *)
From Coq Require Import QArith Qabs Qreduction List Bool ZArith Lia Lqa Setoid Morphisms.
From SF Require Import Base.GeomAST Base.QKernel Base.Planar Proofs.Planar_slab_base.
From SF Require Import Model.SetOpSpec.
From SF Require Import Model.Measure Proofs.Measure_proofs.
Import ListNotations.
Open Scope Q_scope.

(* ------------------------------------------------------------------------------------------ *)
(* generic sums                                                                                *)
(* ------------------------------------------------------------------------------------------ *)
Definition ind (b : bool) : Q := if b then 1 else 0.

Lemma qsum_swap : forall (A B : Type) (f : A -> B -> Q) la lb,
  qsum (map (fun a => qsum (map (f a) lb)) la) == qsum (map (fun b => qsum (map (fun a => f a b) la)) lb).
Proof.
  intros A B f la lb. induction la as [|a la IH]; cbn [map].
  - cbn. symmetry. apply qsum_zero. intros; reflexivity.
  - rewrite qsum_cons, IH. rewrite <- qsum_map_plus. apply qsum_map_ext_all. intros b.
    cbn [map]. rewrite qsum_cons. reflexivity.
Qed.

Lemma qsum_flat_map : forall (A B : Type) (g : A -> list B) (F : B -> Q) l,
  qsum (map F (flat_map g l)) == qsum (map (fun a => qsum (map F (g a))) l).
Proof.
  intros A B g F l. induction l as [|a l IH]; cbn [flat_map map]; [reflexivity|].
  rewrite map_app, qsum_app, qsum_cons, IH. reflexivity.
Qed.

Lemma qsum_map_scale_l : forall (A : Type) (f : A -> Q) (c : Q) l,
  qsum (map (fun x => c * f x) l) == c * qsum (map f l).
Proof.
  intros. rewrite (qsum_map_ext_all _ _ (fun x => f x * c)) by (intros; ring).
  rewrite qsum_map_scale. ring.
Qed.

(* telescoping over consecutive pairs *)
Lemma consec_telescope : forall (g : Q -> Q) x l,
  qsum (map (fun xx => g (snd xx) - g (fst xx)) (consec (x :: l))) == g (last l x) - g x.
Proof.
  intros g x l. revert x. induction l as [|y l IH]; intros x.
  - cbn. ring.
  - change (consec (x :: y :: l)) with ((x, y) :: consec (y :: l)). cbn [map]. rewrite qsum_cons, IH.
    cbn [fst snd]. rewrite (last_cons_default _ l y x). ring.
Qed.

(* ------------------------------------------------------------------------------------------ *)
(* the trapezoids of the slab functional as a double sum                                       *)
(* ------------------------------------------------------------------------------------------ *)
Definition gap_cell (x w : Q) (yy : Q * Q) : pt * Q := ((x, qmid (fst yy) (snd yy)), w * (snd yy - fst yy)).

Lemma gap_cells_consec : forall x w ys, gap_cells x w ys = map (gap_cell x w) (consec ys).
Proof.
  intros x w ys. induction ys as [|y1 r IH]; [reflexivity|]. destruct r as [|y2 r']; [reflexivity|].
  change (gap_cells x w (y1 :: y2 :: r')) with (((x, qmid y1 y2), w * (y2 - y1)) :: gap_cells x w (y2 :: r')).
  change (consec (y1 :: y2 :: r')) with ((y1, y2) :: consec (y2 :: r')). cbn [map]. rewrite IH. reflexivity.
Qed.

Definition slab_cells_of (L : list seg) (xx : Q * Q) : list (pt * Q) :=
  gap_cells (qmid (fst xx) (snd xx)) (snd xx - fst xx) (slab_heights L (qmid (fst xx) (snd xx))).

Lemma slab_cells_consec : forall L xs, slab_cells L xs = flat_map (slab_cells_of L) (consec xs).
Proof.
  intros L xs. induction xs as [|x0 r IH]; [reflexivity|]. destruct r as [|x1 r']; [reflexivity|].
  change (slab_cells L (x0 :: x1 :: r')) with
    (gap_cells (qmid x0 x1) (x1 - x0) (slab_heights L (qmid x0 x1)) ++ slab_cells L (x1 :: r')).
  change (consec (x0 :: x1 :: r')) with ((x0, x1) :: consec (x1 :: r')). cbn [flat_map]. rewrite IH. reflexivity.
Qed.

(* weighted sum over cells; the area functional is the sum with 0/1 weights *)
Definition cells_wsum (cells : list (pt * Q)) (w : pt -> Q) : Q :=
  qsum (map (fun c => w (fst c) * snd c) cells).

Lemma cells_area_wsum : forall cells f, cells_area cells f == cells_wsum cells (fun p => ind (f p)).
Proof.
  intros cells f. unfold cells_area, cells_wsum. induction cells as [|c r IH]; cbn [fold_right map]; [reflexivity|].
  rewrite qsum_cons, IH. unfold ind. destruct (f (fst c)); ring.
Qed.

Lemma cells_wsum_slabs : forall L xs w,
  cells_wsum (slab_cells L xs) w ==
  qsum (map (fun xx =>
         qsum (map (fun yy => w (qmid (fst xx) (snd xx), qmid (fst yy) (snd yy)) *
                              ((snd xx - fst xx) * (snd yy - fst yy)))
                   (consec (slab_heights L (qmid (fst xx) (snd xx)))))) (consec xs)).
Proof.
  intros L xs w. unfold cells_wsum. rewrite slab_cells_consec, qsum_flat_map.
  apply qsum_map_ext_all. intros xx. unfold slab_cells_of. rewrite gap_cells_consec, map_map. reflexivity.
Qed.

(* ------------------------------------------------------------------------------------------ *)
(* edges: direction, trapezoid term, spanning test, winding number                             *)
(* ------------------------------------------------------------------------------------------ *)
Definition zdir (e : seg) : Z :=
  match (fst (fst e) ?= fst (snd e))%Q with Lt => 1%Z | Gt => (-1)%Z | Eq => 0%Z end.
Definition edir (e : seg) : Q := inject_Z (zdir e).
(* (x1 - x0)(y0 + y1)/2: the signed area between the edge and the x axis *)
Definition trap (e : seg) : Q := (fst (snd e) - fst (fst e)) * (snd (fst e) + snd (snd e)) / 2.
(* the open x-range of e contains xm (the test of slab_heights) *)
Definition spanb (e : seg) (xm : Q) : bool :=
  (qltb (fst (fst e)) xm && qltb xm (fst (snd e))) || (qltb (fst (snd e)) xm && qltb xm (fst (fst e))).
(* signed number of edges passing strictly above p *)
Definition zwind (es : list seg) (p : pt) : Z :=
  fold_right (fun e acc => ((if vcross (fst e) (snd e) p then zdir e else 0) + acc)%Z) 0%Z es.

Lemma zwind_sum : forall es p,
  inject_Z (zwind es p) == qsum (map (fun e => ind (vcross (fst e) (snd e) p) * edir e) es).
Proof.
  intros es p. induction es as [|e r IH]; cbn [zwind fold_right map]; [reflexivity|].
  fold (zwind r p). rewrite inject_Z_plus, IH, qsum_cons. unfold ind, edir.
  destruct (vcross (fst e) (snd e) p); ring.
Qed.

Lemma edir_cases : forall e : seg,
  (fst (fst e) < fst (snd e) /\ edir e == 1) \/ (fst (snd e) < fst (fst e) /\ edir e == -1) \/
  (fst (fst e) == fst (snd e) /\ edir e == 0).
Proof.
  intros e. unfold edir, zdir. destruct (Qcompare _ _) eqn:E.
  - right; right. apply Qeq_alt in E. split; [exact E|reflexivity].
  - left. apply Qlt_alt in E. split; [exact E|reflexivity].
  - right; left. apply Qgt_alt in E. split; [exact E|reflexivity].
Qed.

Lemma ind_true : forall b, b = true -> ind b = 1. Proof. intros b ->; reflexivity. Qed.
Lemma ind_false : forall b, b = false -> ind b = 0. Proof. intros b ->; reflexivity. Qed.

Lemma spanb_iff : forall (e : seg) xm, spanb e xm = true <->
  (fst (fst e) < xm /\ xm < fst (snd e)) \/ (fst (snd e) < xm /\ xm < fst (fst e)).
Proof. intros e xm. unfold spanb. rewrite orb_true_iff, !andb_true_iff, !qltb_iff. reflexivity. Qed.

(* ------------------------------------------------------------------------------------------ *)
(* (1) an edge's trapezoid term splits over the slabs it spans                                 *)
(* ------------------------------------------------------------------------------------------ *)
Definition in_upto (x : Q) (l : list Q) : Prop := exists y, In y l /\ y == x.

Lemma sorted_bounds : forall x l t, qsorted (x :: l) -> in_upto t (x :: l) -> x <= t /\ t <= last l x.
Proof.
  intros x l t Hs [y [Hy E]]. split.
  - destruct Hy as [<-|Hy]; [lra|]. pose proof (qsorted_head_lt x l y Hs Hy). lra.
  - pose proof (qsorted_last_ge x l y Hs Hy). lra.
Qed.

Lemma consec_gap_upto : forall l y1 y2 t, qsorted l -> In (y1, y2) (consec l) -> in_upto t l -> t <= y1 \/ y2 <= t.
Proof.
  intros l y1 y2 t Hs Hc [y [Hy E]]. destruct (consec_gap l y1 y2 y Hs Hc Hy); [left|right]; lra.
Qed.

Definition clamp (a b t : Q) : Q := if Qle_bool t a then a else if Qle_bool b t then b else t.

Lemma clamp_cases : forall a b t, a <= b ->
  (t <= a /\ clamp a b t = a) \/ (b <= t /\ clamp a b t == b) \/ (a < t /\ t < b /\ clamp a b t = t).
Proof.
  intros a b t Hab. unfold clamp. destruct (Qle_bool t a) eqn:E1.
  - left. apply Qle_bool_iff in E1. auto.
  - apply Qle_bool_false_iff in E1. destruct (Qle_bool b t) eqn:E2.
    + right; left. apply Qle_bool_iff in E2. split; [exact E2|reflexivity].
    + right; right. apply Qle_bool_false_iff in E2. auto.
Qed.

Section EdgeSlabs.
  Variable e : seg.
  Hypothesis NV : nonvertical e.
  (* area under the edge's line between its first abscissa and x *)
  Definition Hfun (x : Q) : Q := (x - fst (fst e)) * (snd (fst e) + y_at e x) / 2.

  Lemma Hfun_diff : forall x0 x1, Hfun x1 - Hfun x0 == (x1 - x0) * y_at e ((x0 + x1) / 2).
  Proof.
    intros x0 x1. unfold Hfun, y_at. unfold nonvertical in NV. field. intros K. apply NV. lra.
  Qed.
  Lemma Hfun_first : Hfun (fst (fst e)) == 0.
  Proof. unfold Hfun. unfold Qdiv. ring. Qed.
  Lemma Hfun_second : Hfun (fst (snd e)) == trap e.
  Proof.
    unfold Hfun, trap. destruct e as [a b]. cbn [fst snd] in *.
    destruct (y_at_ends a b NV) as [_ Hb]. rewrite Hb. reflexivity.
  Qed.
  Global Instance Hfun_proper : Proper (Qeq ==> Qeq) Hfun.
  Proof. intros x x' E. unfold Hfun. rewrite E. reflexivity. Qed.

  Variable xs : list Q.
  Hypothesis Hsorted : qsorted xs.
  Hypothesis Ha : in_upto (fst (fst e)) xs.
  Hypothesis Hb : in_upto (fst (snd e)) xs.

  Lemma edge_slabs :
    trap e == qsum (map (fun xx => edir e * ind (spanb e (qmid (fst xx) (snd xx))) *
                                   ((snd xx - fst xx) * y_at e (qmid (fst xx) (snd xx)))) (consec xs)).
  Proof.
    set (lo := if Qle_bool (fst (fst e)) (fst (snd e)) then fst (fst e) else fst (snd e)).
    set (hi := if Qle_bool (fst (fst e)) (fst (snd e)) then fst (snd e) else fst (fst e)).
    assert (Hlohi : lo < hi /\ in_upto lo xs /\ in_upto hi xs /\
                    ((lo = fst (fst e) /\ hi = fst (snd e) /\ edir e == 1) \/
                     (lo = fst (snd e) /\ hi = fst (fst e) /\ edir e == -1))).
    { unfold lo, hi. unfold nonvertical in NV. destruct (Qle_bool (fst (fst e)) (fst (snd e))) eqn:E.
      - apply Qle_bool_iff in E. destruct (edir_cases e) as [[H1 H2]|[[H1 H2]|[H1 H2]]]; try lra.
        repeat split; auto; try lra.
      - apply Qle_bool_false_iff in E. destruct (edir_cases e) as [[H1 H2]|[[H1 H2]|[H1 H2]]]; try lra.
        repeat split; auto; try lra. }
    destruct Hlohi as [Hlt [Hlo [Hhi Hcase]]].
    destruct xs as [|x l] eqn:Exs; [destruct Ha as [y [[] _]]|].
    (* every term is the difference of the clamped antiderivative *)
    assert (T : forall xx, In xx (consec (x :: l)) ->
              edir e * ind (spanb e (qmid (fst xx) (snd xx))) * ((snd xx - fst xx) * y_at e (qmid (fst xx) (snd xx))) ==
              edir e * (Hfun (clamp lo hi (snd xx)) - Hfun (clamp lo hi (fst xx)))).
    { intros [x0 x1] Hin. cbn [fst snd].
      pose proof (consec_lt _ _ _ Hsorted Hin) as Hx.
      assert (Hm : x0 < qmid x0 x1 /\ qmid x0 x1 < x1).
      { rewrite qmid_eq. split; [apply Qlt_shift_div_l; lra | apply Qlt_shift_div_r; lra]. }
      destruct (consec_gap_upto _ _ _ _ Hsorted Hin Hlo) as [G1|G1];
        destruct (consec_gap_upto _ _ _ _ Hsorted Hin Hhi) as [G2|G2].
      - (* hi <= x0: outside, to the right *)
        assert (S : spanb e (qmid x0 x1) = false).
        { apply not_true_is_false. intros K. apply spanb_iff in K.
          destruct Hcase as [[E1 [E2 _]]|[E1 [E2 _]]]; rewrite E1, E2 in *; lra. }
        rewrite (ind_false _ S).
        assert (C0 : clamp lo hi x0 == hi).
        { destruct (clamp_cases lo hi x0 (Qlt_le_weak _ _ Hlt)) as [[K ->]|[[K ->]|[K [K' ->]]]]; lra. }
        assert (C1 : clamp lo hi x1 == hi).
        { destruct (clamp_cases lo hi x1 (Qlt_le_weak _ _ Hlt)) as [[K ->]|[[K ->]|[K [K' ->]]]]; lra. }
        rewrite C0, C1. ring.
      - (* lo <= x0, x1 <= hi: spanned *)
        assert (S : spanb e (qmid x0 x1) = true).
        { apply spanb_iff. destruct Hcase as [[-> [-> _]]|[-> [-> _]]]; [left|right]; lra. }
        rewrite (ind_true _ S), (qmid_eq x0 x1).
        assert (C0 : clamp lo hi x0 == x0).
        { destruct (clamp_cases lo hi x0 (Qlt_le_weak _ _ Hlt)) as [[K ->]|[[K ->]|[_ [_ ->]]]]; lra. }
        assert (C1 : clamp lo hi x1 == x1).
        { destruct (clamp_cases lo hi x1 (Qlt_le_weak _ _ Hlt)) as [[K ->]|[[K ->]|[_ [_ ->]]]]; lra. }
        rewrite C0, C1, Hfun_diff. ring.
      - (* x1 <= lo and hi <= x0: impossible *) exfalso. lra.
      - (* x1 <= lo: outside, to the left *)
        assert (S : spanb e (qmid x0 x1) = false).
        { apply not_true_is_false. intros K. apply spanb_iff in K.
          destruct Hcase as [[E1 [E2 _]]|[E1 [E2 _]]]; rewrite E1, E2 in *; lra. }
        rewrite (ind_false _ S).
        assert (C0 : clamp lo hi x0 == lo).
        { destruct (clamp_cases lo hi x0 (Qlt_le_weak _ _ Hlt)) as [[K ->]|[[K ->]|[K [_ ->]]]]; lra. }
        assert (C1 : clamp lo hi x1 == lo).
        { destruct (clamp_cases lo hi x1 (Qlt_le_weak _ _ Hlt)) as [[K ->]|[[K ->]|[K [_ ->]]]]; lra. }
        rewrite C0, C1. ring. }
    rewrite (qsum_map_ext _ _ (fun xx => edir e * (Hfun (clamp lo hi (snd xx)) - Hfun (clamp lo hi (fst xx)))))
      by (apply Forall_forall; exact T).
    rewrite qsum_map_scale_l.
    rewrite (consec_telescope (fun t => Hfun (clamp lo hi t)) x l).
    destruct (sorted_bounds x l lo Hsorted Hlo) as [B1 _], (sorted_bounds x l hi Hsorted Hhi) as [_ B2].
    assert (C0 : clamp lo hi x == lo).
    { destruct (clamp_cases lo hi x (Qlt_le_weak _ _ Hlt)) as [[K ->]|[[K ->]|[K [_ ->]]]]; lra. }
    assert (C1 : clamp lo hi (last l x) == hi).
    { destruct (clamp_cases lo hi (last l x) (Qlt_le_weak _ _ Hlt)) as [[K ->]|[[K ->]|[_ [K ->]]]]; lra. }
    rewrite C0, C1.
    destruct Hcase as [[-> [-> Ed]]|[-> [-> Ed]]]; rewrite Ed, Hfun_first, Hfun_second; ring.
  Qed.
End EdgeSlabs.

(* ------------------------------------------------------------------------------------------ *)
(* (2) in a sorted list of heights, a member's height above the lowest is the sum of the gaps   *)
(*     whose midpoints lie below it                                                            *)
(* ------------------------------------------------------------------------------------------ *)
Lemma height_gaps : forall h l y, qsorted (h :: l) -> in_upto y (h :: l) ->
  y - h == qsum (map (fun yy => (snd yy - fst yy) * ind (qltb (qmid (fst yy) (snd yy)) y)) (consec (h :: l))).
Proof.
  intros h l y Hs Hy.
  set (g := fun t : Q => if Qle_bool y t then y else t).
  assert (T : forall yy, In yy (consec (h :: l)) ->
            (snd yy - fst yy) * ind (qltb (qmid (fst yy) (snd yy)) y) == g (snd yy) - g (fst yy)).
  { intros [y1 y2] Hin. cbn [fst snd]. pose proof (consec_lt _ _ _ Hs Hin) as Hlt.
    assert (Hm : y1 < qmid y1 y2 /\ qmid y1 y2 < y2).
    { rewrite qmid_eq. split; [apply Qlt_shift_div_l; lra | apply Qlt_shift_div_r; lra]. }
    unfold g. destruct (consec_gap_upto _ _ _ _ Hs Hin Hy) as [G|G].
    - (* y <= y1: the gap is above *)
      assert (S : qltb (qmid y1 y2) y = false) by (apply qltb_false_iff; lra).
      rewrite (ind_false _ S).
      assert (E1 : Qle_bool y y1 = true) by (apply Qle_bool_iff; exact G).
      assert (E2 : Qle_bool y y2 = true) by (apply Qle_bool_iff; lra).
      rewrite E1, E2. ring.
    - (* y2 <= y: the gap is below *)
      assert (S : qltb (qmid y1 y2) y = true) by (apply qltb_iff; lra).
      rewrite (ind_true _ S).
      assert (E1 : Qle_bool y y1 = false) by (apply Qle_bool_false_iff; lra).
      rewrite E1. destruct (Qle_bool y y2) eqn:E2; [apply Qle_bool_iff in E2; lra | ring]. }
  rewrite (qsum_map_ext _ _ (fun yy => g (snd yy) - g (fst yy))) by (apply Forall_forall; exact T).
  rewrite consec_telescope. destruct (sorted_bounds h l y Hs Hy) as [B1 B2]. unfold g.
  assert (E2 : Qle_bool y (last l h) = true) by (apply Qle_bool_iff; exact B2). rewrite E2.
  destruct (Qle_bool y h) eqn:E1; [apply Qle_bool_iff in E1; lra | reflexivity].
Qed.

(* ------------------------------------------------------------------------------------------ *)
(* (3) a closed ring crosses every vertical line (off its vertices) equally often both ways     *)
(* ------------------------------------------------------------------------------------------ *)
Lemma edir_span_diff : forall (e : seg) xm, ~ fst (fst e) == xm -> ~ fst (snd e) == xm ->
  edir e * ind (spanb e xm) == ind (qltb xm (fst (snd e))) - ind (qltb xm (fst (fst e))).
Proof.
  intros e xm Ha Hb.
  destruct (Qlt_le_dec xm (fst (fst e))) as [A|A]; destruct (Qlt_le_dec xm (fst (snd e))) as [B|B].
  - assert (S : spanb e xm = false) by (apply not_true_is_false; intros K; apply spanb_iff in K; lra).
    rewrite (ind_false _ S), (ind_true (qltb xm (fst (snd e)))), (ind_true (qltb xm (fst (fst e)))) by (apply qltb_iff; assumption). ring.
  - assert (B' : fst (snd e) < xm) by (destruct (Qle_lt_or_eq _ _ B); [assumption|exfalso; apply Hb; assumption]).
    assert (S : spanb e xm = true) by (apply spanb_iff; right; lra).
    rewrite (ind_true _ S), (ind_false (qltb xm (fst (snd e)))), (ind_true (qltb xm (fst (fst e))))
      by (first [apply qltb_iff; assumption | apply qltb_false_iff; assumption]).
    destruct (edir_cases e) as [[H1 H2]|[[H1 H2]|[H1 H2]]]; lra.
  - assert (A' : fst (fst e) < xm) by (destruct (Qle_lt_or_eq _ _ A); [assumption|exfalso; apply Ha; assumption]).
    assert (S : spanb e xm = true) by (apply spanb_iff; left; lra).
    rewrite (ind_true _ S), (ind_true (qltb xm (fst (snd e)))), (ind_false (qltb xm (fst (fst e))))
      by (first [apply qltb_iff; assumption | apply qltb_false_iff; assumption]).
    destruct (edir_cases e) as [[H1 H2]|[[H1 H2]|[H1 H2]]]; lra.
  - assert (S : spanb e xm = false) by (apply not_true_is_false; intros K; apply spanb_iff in K; lra).
    rewrite (ind_false _ S), (ind_false (qltb xm (fst (snd e)))), (ind_false (qltb xm (fst (fst e)))) by (apply qltb_false_iff; assumption). ring.
Qed.

Lemma qltb_proper_local : forall a a' b b', a == a' -> b == b' -> qltb a b = qltb a' b'.
Proof.
  intros a a' b b' Ea Eb. apply eq_true_iff_eq. rewrite !qltb_iff, Ea, Eb. reflexivity.
Qed.

Lemma ring_edges_telescope : forall (g : pt -> Q) a r,
  qsum (map (fun e : seg => g (snd e) - g (fst e)) (ring_edges (a :: r))) == g (last r a) - g a.
Proof.
  intros g a r. revert a. induction r as [|b r IH]; intros a.
  - cbn. ring.
  - change (ring_edges (a :: b :: r)) with ((a, b) :: ring_edges (b :: r)). cbn [map]. rewrite qsum_cons, IH.
    cbn [fst snd]. rewrite (last_cons_default _ r b a). ring.
Qed.

Lemma ring_balance : forall ps xm, pts_closed ps = true ->
  (forall e, In e (ring_edges ps) -> ~ fst (fst e) == xm /\ ~ fst (snd e) == xm) ->
  qsum (map (fun e => edir e * ind (spanb e xm)) (ring_edges ps)) == 0.
Proof.
  intros ps xm Hc Hv. destruct ps as [|a r]; [reflexivity|].
  transitivity (qsum (map (fun e : seg => ind (qltb xm (fst (snd e))) - ind (qltb xm (fst (fst e)))) (ring_edges (a :: r)))).
  - apply qsum_map_ext. apply Forall_forall. intros e He. destruct (Hv e He). apply edir_span_diff; assumption.
  - assert (E := ring_edges_telescope (fun p : pt => ind (qltb xm (fst p))) a r). cbv beta in E. rewrite E.
    unfold pts_closed in Hc. apply pt_eqb_iff in Hc. destruct Hc as [Hx _].
    rewrite (qltb_proper_local xm xm (fst (last r a)) (fst a)); [ring|reflexivity|symmetry; exact Hx].
Qed.

(* ------------------------------------------------------------------------------------------ *)
(* (4) the main identity                                                                       *)
(* ------------------------------------------------------------------------------------------ *)
Lemma vcross_spanb : forall (e : seg) xm m, ~ fst (fst e) == xm -> ~ fst (snd e) == xm ->
  vcross (fst e) (snd e) (xm, m) = spanb e xm && qltb m (y_at e xm).
Proof.
  intros [a b] xm m Ha Hb. cbn [fst snd] in *.
  destruct (Qeq_dec (fst a) (fst b)) as [E|NV].
  - rewrite (vcross_vertical a b (xm, m) E).
    assert (S : spanb (a, b) xm = false).
    { apply not_true_is_false. intros K. apply spanb_iff in K. cbn [fst snd] in K. lra. }
    rewrite S. reflexivity.
  - rewrite (vcross_y_at a b (xm, m) NV). cbn [fst snd]. f_equal.
    apply eq_true_iff_eq. rewrite negb_true_iff, spanb_iff. cbn [fst snd].
    destruct (Qle_bool (fst a) xm) eqn:A; destruct (Qle_bool (fst b) xm) eqn:B; cbn [Bool.eqb];
      try apply Qle_bool_iff in A; try apply Qle_bool_iff in B;
      try apply Qle_bool_false_iff in A; try apply Qle_bool_false_iff in B.
    + split; [discriminate|]. intros [K|K]; lra.
    + split; [intros _|reflexivity]. left. split; [|lra].
      destruct (Qle_lt_or_eq _ _ A); [assumption|exfalso; apply Ha; assumption].
    + split; [intros _|reflexivity]. right. split; [|lra].
      destruct (Qle_lt_or_eq _ _ B); [assumption|exfalso; apply Hb; assumption].
    + split; [discriminate|]. intros [K|K]; lra.
Qed.

Lemma trap_vertical : forall e : seg, fst (fst e) == fst (snd e) -> trap e == 0.
Proof. intros e E. unfold trap. rewrite E. unfold Qdiv. ring. Qed.

Section Main.
  Variables (L : list seg) (P : list pt) (ps : list pt).
  Hypothesis Hincl : incl (ring_edges ps) L.
  Hypothesis Hclosed : pts_closed ps = true.
  Let V := vertex_set L P.
  Let xs := events V.
  Let es := ring_edges ps.

  Lemma xs_sorted : qsorted xs.
  Proof. apply qsort_sorted. Qed.

  Lemma end_events : forall e, In e L -> in_upto (fst (fst e)) xs /\ in_upto (fst (snd e)) xs.
  Proof.
    intros e He.
    assert (Hv : In (fst e) V /\ In (snd e) V).
    { unfold V, vertex_set. split; apply in_or_app; left; apply in_flat_map; exists e;
        (split; [exact He | unfold seg_ends; simpl; auto]). }
    destruct Hv as [H1 H2]. split.
    - destruct (qsort_has (map fst V) (fst (fst e)) (in_map fst V _ H1)) as [y [Hy E]]. exists y. auto.
    - destruct (qsort_has (map fst V) (fst (snd e)) (in_map fst V _ H2)) as [y [Hy E]]. exists y. auto.
  Qed.

  Section OneSlab.
    Variable xx : Q * Q.
    Hypothesis Hxx : In xx (consec xs).
    Let xm := qmid (fst xx) (snd xx).
    Let hs := slab_heights L xm.

    Lemma xm_inside : fst xx < xm /\ xm < snd xx.
    Proof.
      destruct xx as [x0 x1]. pose proof (consec_lt _ _ _ xs_sorted Hxx). unfold xm. cbn [fst snd] in *.
      rewrite qmid_eq. split; [apply Qlt_shift_div_l; lra | apply Qlt_shift_div_r; lra].
    Qed.

    Lemma xm_off_ends : forall e, In e L -> ~ fst (fst e) == xm /\ ~ fst (snd e) == xm.
    Proof.
      intros e He. destruct (end_events e He) as [H1 H2]. destruct xm_inside as [M1 M2].
      destruct xx as [x0 x1]. cbn [fst snd] in *.
      destruct (consec_gap_upto _ _ _ _ xs_sorted Hxx H1); destruct (consec_gap_upto _ _ _ _ xs_sorted Hxx H2);
        split; intros K; lra.
    Qed.

    Lemma hs_sorted : qsorted hs.
    Proof. apply qsort_sorted. Qed.

    Lemma span_height_in : forall e, In e L -> spanb e xm = true -> in_upto (y_at e xm) hs.
    Proof.
      intros e He S.
      assert (NV : seg_vertical e = false).
      { apply seg_vertical_false. unfold nonvertical. apply spanb_iff in S. intros K. lra. }
      unfold hs, slab_heights.
      match goal with |- in_upto _ (qsort ?l) => destruct (qsort_has l (seg_y_at e xm)) as [y [Hy E]] end.
      - apply in_flat_map. exists e. split; [exact He|]. rewrite NV. unfold spanb in S. rewrite S. left. reflexivity.
      - exists y. split; [exact Hy|]. rewrite E. apply seg_y_at_eq.
    Qed.

    (* per edge: height = sum of the gaps below + lowest height *)
    Lemma edge_heights : forall e, In e L ->
      edir e * ind (spanb e xm) * y_at e xm ==
      qsum (map (fun yy => (snd yy - fst yy) * (ind (vcross (fst e) (snd e) (xm, qmid (fst yy) (snd yy))) * edir e)) (consec hs))
      + hd 0 hs * (edir e * ind (spanb e xm)).
    Proof.
      intros e He. destruct (xm_off_ends e He) as [Oa Ob].
      rewrite (qsum_map_ext_all _ _ (fun yy => (edir e * ind (spanb e xm)) *
                 ((snd yy - fst yy) * ind (qltb (qmid (fst yy) (snd yy)) (y_at e xm))))).
      2:{ intros yy. rewrite (vcross_spanb e xm _ Oa Ob). unfold ind.
          destruct (spanb e xm), (qltb (qmid (fst yy) (snd yy)) (y_at e xm)); cbn [andb]; ring. }
      rewrite qsum_map_scale_l.
      destruct (spanb e xm) eqn:S; [|unfold ind; ring].
      pose proof (span_height_in e He S) as Hin. pose proof hs_sorted as Hs.
      destruct hs as [|h l] eqn:Ehs; [destruct Hin as [y [[] _]]|].
      rewrite <- (height_gaps h l (y_at e xm) Hs Hin). cbn [hd]. unfold ind. ring.
    Qed.

    Lemma slab_sum :
      qsum (map (fun e => edir e * ind (spanb e xm) * y_at e xm) es) ==
      qsum (map (fun yy => (snd yy - fst yy) * inject_Z (zwind es (xm, qmid (fst yy) (snd yy)))) (consec hs)).
    Proof.
      unfold es.
      rewrite (qsum_map_ext _ _ (fun e =>
                 qsum (map (fun yy => (snd yy - fst yy) * (ind (vcross (fst e) (snd e) (xm, qmid (fst yy) (snd yy))) * edir e)) (consec hs))
                 + hd 0 hs * (edir e * ind (spanb e xm)))).
      2:{ apply Forall_forall. intros e He. apply edge_heights. apply Hincl. exact He. }
      rewrite qsum_map_plus, qsum_map_scale_l.
      rewrite (ring_balance ps xm Hclosed).
      2:{ intros e He. apply xm_off_ends. apply Hincl. exact He. }
      rewrite qsum_swap. rewrite Qmult_0_r, Qplus_0_r.
      apply qsum_map_ext_all. intros yy. rewrite qsum_map_scale_l, zwind_sum. reflexivity.
    Qed.
  End OneSlab.

  Lemma edge_slabs_all : forall e, In e L ->
    trap e == qsum (map (fun xx => edir e * ind (spanb e (qmid (fst xx) (snd xx))) *
                                   ((snd xx - fst xx) * y_at e (qmid (fst xx) (snd xx)))) (consec xs)).
  Proof.
    intros e He. destruct (end_events e He) as [H1 H2].
    destruct (Qeq_dec (fst (fst e)) (fst (snd e))) as [E|NV].
    - rewrite (trap_vertical e E). symmetry. apply qsum_zero. intros xx _.
      assert (S : spanb e (qmid (fst xx) (snd xx)) = false).
      { apply not_true_is_false. intros K. apply spanb_iff in K. lra. }
      rewrite S. unfold ind. ring.
    - apply (edge_slabs e NV xs xs_sorted H1 H2).
  Qed.

  (* the shoelace sum in trapezoid form = sum over the trapezoids of the arrangement of
     (winding number at the witness) * area *)
  Theorem trap_sum_winding :
    qsum (map trap es) == cells_wsum (slab_cells L xs) (fun p => inject_Z (zwind es p)).
  Proof.
    rewrite cells_wsum_slabs.
    rewrite (qsum_map_ext _ trap (fun e => qsum (map (fun xx => edir e * ind (spanb e (qmid (fst xx) (snd xx))) *
                                   ((snd xx - fst xx) * y_at e (qmid (fst xx) (snd xx)))) (consec xs)))).
    2:{ apply Forall_forall. intros e He. apply edge_slabs_all. apply Hincl. exact He. }
    rewrite qsum_swap. apply qsum_map_ext. apply Forall_forall. intros xx Hxx.
    rewrite (qsum_map_ext_all _ _ (fun e => (snd xx - fst xx) * (edir e * ind (spanb e (qmid (fst xx) (snd xx))) * y_at e (qmid (fst xx) (snd xx)))))
      by (intros; ring).
    rewrite qsum_map_scale_l, (slab_sum xx Hxx), <- qsum_map_scale_l.
    apply qsum_map_ext_all. intros yy. ring.
  Qed.
End Main.

(* ------------------------------------------------------------------------------------------ *)
(* Part A: the statement against Measure.ring_area_xy                                          *)
(* ------------------------------------------------------------------------------------------ *)
Lemma trap_sum_pairsum : forall a r,
  qsum (map trap (ring_edges (a :: r))) == pairsum (fun p q => trap (p, q)) a r.
Proof.
  intros a r. revert a. induction r as [|b r IH]; intros a; [reflexivity|].
  change (ring_edges (a :: b :: r)) with ((a, b) :: ring_edges (b :: r)). cbn [map pairsum].
  rewrite qsum_cons, IH. reflexivity.
Qed.

Lemma pts_closed_ring_closedb : forall ps : list pt, pts_closed ps = ring_closedb ps.
Proof.
  intros [|a r]; [reflexivity|]. unfold pts_closed, ring_closedb. rewrite last_cons_default. reflexivity.
Qed.

Lemma trap_sum_shoelace : forall ps : list pt, pts_closed ps = true ->
  qsum (map trap (ring_edges ps)) == - ring_area_xy ps.
Proof.
  intros [|a r] Hc; [reflexivity|].
  rewrite trap_sum_pairsum, ring_area_psum. cbn [psum].
  rewrite (pairsum_telescope (fun p q => trap (p, q)) (fun p q => - (1 # 2) * e_shoe p q) (fun p => fst p * snd p)).
  2:{ intros [px py] [qx qy]. unfold trap, e_shoe. cbn [fst snd]. field. }
  rewrite pairsum_scale. unfold pts_closed in Hc. apply pt_eqb_iff in Hc. destruct Hc as [Hx Hy].
  rewrite <- Hx, <- Hy. field.
Qed.

(* Part A, for every closed ring (simple or not): minus the signed shoelace area is the sum
   over the trapezoids of the slab decomposition of winding number * trapezoid area *)
Theorem shoelace_is_winding_area_lemma : forall (L : list seg) (P : list pt) (ps : list pt),
  incl (ring_edges ps) L -> pts_closed ps = true ->
  - ring_area_xy ps ==
  cells_wsum (slab_cells L (events (vertex_set L P))) (fun p => inject_Z (zwind (ring_edges ps) p)).
Proof.
  intros L P ps Hi Hc. rewrite <- (trap_sum_shoelace ps Hc). apply trap_sum_winding; assumption.
Qed.

(* ------------------------------------------------------------------------------------------ *)
(* Part B: winding number vs the parity used by inG                                            *)
(* ------------------------------------------------------------------------------------------ *)
Lemma zdir_odd : forall (e : seg) p, vcross (fst e) (snd e) p = true -> Z.odd (zdir e) = true.
Proof.
  intros [a b] p H. cbn [fst snd] in H. unfold zdir. cbn [fst snd].
  destruct (Qcompare (fst a) (fst b)) eqn:E; try reflexivity.
  apply Qeq_alt in E. rewrite (vcross_vertical a b p E) in H. discriminate.
Qed.

Lemma vparity_cons : forall e es p, vparity (e :: es) p = xorb (vcross (fst e) (snd e) p) (vparity es p).
Proof.
  intros e es p. unfold vparity. cbn [fold_left]. rewrite fold_xor_acc. destruct (vcross (fst e) (snd e) p); reflexivity.
Qed.

Lemma zwind_odd : forall es p, Z.odd (zwind es p) = vparity es p.
Proof.
  intros es p. induction es as [|e r IH]; [reflexivity|].
  rewrite vparity_cons. cbn [zwind fold_right]. fold (zwind r p). rewrite Z.odd_add, IH.
  destruct (vcross (fst e) (snd e) p) eqn:E; [rewrite (zdir_odd e p E)|]; reflexivity.
Qed.

(* the ring's winding number takes only the values 0 and sigma at the trapezoid witnesses
   (true of simple rings: sigma = -1 counter-clockwise, +1 clockwise); decidable *)
Definition winding_simple (sigma : Z) (es : list seg) (cells : list (pt * Q)) : bool :=
  forallb (fun c => (zwind es (fst c) =? 0)%Z || (zwind es (fst c) =? sigma)%Z) cells.

Lemma winding_simple_parity : forall sigma es cells, (sigma = 1 \/ sigma = -1)%Z ->
  winding_simple sigma es cells = true ->
  forall c, In c cells -> inject_Z (zwind es (fst c)) == inject_Z sigma * ind (vparity es (fst c)).
Proof.
  intros sigma es cells Hs H c Hc. unfold winding_simple in H. rewrite forallb_forall in H.
  specialize (H c Hc). rewrite <- zwind_odd. apply orb_true_iff in H. destruct H as [H|H]; apply Z.eqb_eq in H; rewrite H.
  - cbn. ring.
  - destruct Hs as [-> | ->]; cbn; ring.
Qed.

(* trapezoids have non-negative area and their witnesses lie on no segment of the arrangement *)
Lemma in_slab_cells : forall L xs c, In c (slab_cells L xs) ->
  exists xx yy, In xx (consec xs) /\ In yy (consec (slab_heights L (qmid (fst xx) (snd xx)))) /\
                c = gap_cell (qmid (fst xx) (snd xx)) (snd xx - fst xx) yy.
Proof.
  intros L xs c H. rewrite slab_cells_consec in H. apply in_flat_map in H. destruct H as [xx [Hxx H]].
  unfold slab_cells_of in H. rewrite gap_cells_consec in H. apply in_map_iff in H. destruct H as [yy [E Hyy]].
  exists xx, yy. auto.
Qed.

Lemma cell_nonneg : forall L xs c, qsorted xs -> In c (slab_cells L xs) -> 0 <= snd c.
Proof.
  intros L xs c Hs H. destruct (in_slab_cells L xs c H) as [[x0 x1] [[y1 y2] [Hxx [Hyy ->]]]].
  unfold gap_cell. cbn [fst snd] in *.
  pose proof (consec_lt _ _ _ Hs Hxx). pose proof (consec_lt _ _ _ (qsort_sorted _) Hyy). nra.
Qed.

Lemma cells_area_nonneg : forall cells f, (forall c, In c cells -> 0 <= snd c) -> 0 <= cells_area cells f.
Proof.
  intros cells f H. unfold cells_area. induction cells as [|c r IH]; cbn [fold_right]; [lra|].
  assert (0 <= snd c) by (apply H; left; reflexivity).
  assert (0 <= fold_right (fun c0 acc => (if f (fst c0) then snd c0 else 0) + acc) 0 r) by (apply IH; intros; apply H; right; assumption).
  destruct (f (fst c)); lra.
Qed.

Lemma cell_off_segments : forall L P c e, In c (slab_cells L (events (vertex_set L P))) -> In e L ->
  on_seg e (fst c) = false.
Proof.
  intros L P c e Hc He.
  destruct (in_slab_cells _ _ c Hc) as [xx [[y1 y2] [Hxx [Hyy ->]]]].
  unfold gap_cell. cbn [fst snd].
  set (xm := qmid (fst xx) (snd xx)) in *.
  destruct (xm_off_ends L P xx Hxx e He) as [Oa Ob]. fold xm in Oa, Ob.
  pose proof (consec_lt _ _ _ (qsort_sorted _) Hyy) as Hlt. cbn [fst snd] in Hlt.
  assert (Hm : y1 < qmid y1 y2 /\ qmid y1 y2 < y2).
  { rewrite qmid_eq. split; [apply Qlt_shift_div_l; lra | apply Qlt_shift_div_r; lra]. }
  destruct e as [a b]. cbn [fst snd] in *.
  destruct (Qeq_dec (fst a) (fst b)) as [E|NV].
  - rewrite (on_seg_vertical a b _ E). cbn [fst snd].
    assert (K : Qeq_bool xm (fst a) = false).
    { apply not_true_is_false. intros K. apply Qeq_bool_iff in K. apply Oa. symmetry. exact K. }
    rewrite K. reflexivity.
  - rewrite (on_seg_y_at a b _ NV). cbn [fst snd].
    destruct (qbetween (fst a) (fst b) xm) eqn:B; [|reflexivity]. cbn [andb].
    apply not_true_is_false. intros K. apply Qeq_bool_iff in K.
    assert (S : spanb (a, b) xm = true).
    { apply spanb_iff. cbn [fst snd]. apply qbetween_iff in B.
      destruct B as [[B1 B2]|[B1 B2]]; [left|right]; split.
      - destruct (Qle_lt_or_eq _ _ B1); [assumption|exfalso; apply Oa; assumption].
      - destruct (Qle_lt_or_eq _ _ B2); [assumption|exfalso; apply Ob; symmetry; assumption].
      - destruct (Qle_lt_or_eq _ _ B1); [assumption|exfalso; apply Ob; assumption].
      - destruct (Qle_lt_or_eq _ _ B2); [assumption|exfalso; apply Oa; symmetry; assumption]. }
    pose proof (span_height_in L xx (a, b) He S) as Hin. fold xm in Hin.
    destruct (consec_gap_upto _ _ _ _ (qsort_sorted _) Hyy Hin); lra.
Qed.

Lemma cells_area_ext_in' : forall cells f g,
  (forall c, In c cells -> f (fst c) = g (fst c)) -> cells_area cells f == cells_area cells g.
Proof.
  induction cells as [|c r IH]; intros f g H; cbn [cells_area fold_right]; [reflexivity|].
  rewrite (H c (or_introl eq_refl)). unfold cells_area in IH. rewrite (IH f g); [reflexivity|].
  intros c' Hc'. apply H. right. exact Hc'.
Qed.
Lemma forallb_map' : forall (A B : Type) (f : B -> bool) (h : A -> B) l, forallb f (map h l) = forallb (fun x => f (h x)) l.
Proof. intros. induction l; cbn; [reflexivity|]. rewrite IHl. reflexivity. Qed.

Lemma cells_wsum_ext_in : forall cells w w',
  (forall c, In c cells -> w (fst c) == w' (fst c)) -> cells_wsum cells w == cells_wsum cells w'.
Proof.
  intros cells w w' H. unfold cells_wsum. apply qsum_map_ext. apply Forall_forall. intros c Hc.
  rewrite (H c Hc). reflexivity.
Qed.

Lemma cells_wsum_scale : forall cells w k, cells_wsum cells (fun p => k * w p) == k * cells_wsum cells w.
Proof.
  intros. unfold cells_wsum. rewrite <- qsum_map_scale_l. apply qsum_map_ext_all. intros; ring.
Qed.

Lemma vparity_segs : forall ps p, vparity (segs_of_pts ps) p = vparity (ring_edges ps) p.
Proof.
  intros [|a [|b r]] p; try reflexivity.
  cbn [segs_of_pts ring_edges]. unfold vparity. cbn [fold_left fst snd]. rewrite vcross_vertical; reflexivity.
Qed.

Lemma ring_edges_incl_segs : forall ps, incl (ring_edges ps) (segs_of_pts ps).
Proof.
  intros [|a [|b r]].
  - intros x [].
  - intros x [].
  - apply incl_refl.
Qed.

(* per ring: under the winding condition the absolute shoelace area is the slab area of the set
   of points with odd crossing parity *)
Lemma ring_area_is_parity_area : forall (L : list seg) (P : list pt) (ps : list pt) (sigma : Z),
  incl (segs_of_pts ps) L -> pts_closed ps = true -> (sigma = 1 \/ sigma = -1)%Z ->
  winding_simple sigma (ring_edges ps) (slab_cells L (events (vertex_set L P))) = true ->
  Qabs (ring_area_xy ps) == area_of L P (fun p => vparity (ring_edges ps) p) /\
  - ring_area_xy ps == inject_Z sigma * area_of L P (fun p => vparity (ring_edges ps) p).
Proof.
  intros L P ps sigma Hi Hc Hs Hw.
  assert (Hi' : incl (ring_edges ps) L) by (intros e He; apply Hi, ring_edges_incl_segs, He).
  assert (E : - ring_area_xy ps == inject_Z sigma * area_of L P (fun p => vparity (ring_edges ps) p)).
  { rewrite (shoelace_is_winding_area_lemma L P ps Hi' Hc). unfold area_of.
    rewrite cells_area_wsum, <- cells_wsum_scale. apply cells_wsum_ext_in.
    intros c Hin. apply (winding_simple_parity sigma _ _ Hs Hw c Hin). }
  split; [|exact E].
  assert (N : 0 <= area_of L P (fun p => vparity (ring_edges ps) p)).
  { unfold area_of. apply cells_area_nonneg. intros c Hin. apply (cell_nonneg L _ c (qsort_sorted _) Hin). }
  set (A := area_of L P (fun p => vparity (ring_edges ps) p)) in *.
  assert (EA : ring_area_xy ps == - (inject_Z sigma * A)) by lra.
  rewrite EA. destruct Hs as [-> | ->].
  - change (inject_Z 1) with 1. rewrite Qabs_opp. rewrite Qabs_pos; lra.
  - change (inject_Z (-1)) with (-1). rewrite Qabs_pos; lra.
Qed.

(* membership of a trapezoid witness in a polygon: parities of its rings *)
Lemma inG_poly_cell : forall (L : list seg) (P : list pt) ct (rings : list (lineT Q)) c,
  (forall r, In r rings -> incl (line_segs r) L /\ pts_closed (line_pts r) = true) ->
  In c (slab_cells L (events (vertex_set L P))) ->
  inG (GPoly (MkPoly ct rings)) (fst c) =
  match rings with
  | [] => false
  | sh :: hs => vparity (ring_edges (line_pts sh)) (fst c) &&
                forallb (fun h => negb (vparity (ring_edges (line_pts h)) (fst c))) hs
  end.
Proof.
  intros L P ct rings c Hr Hc.
  assert (Off : forall r, In r rings -> on_edges (line_segs r) (fst c) = false).
  { intros r Hin. destruct (Hr r Hin) as [Hi _]. unfold on_edges.
    apply not_true_is_false. intros K. apply existsb_exists in K. destruct K as [e [He K]].
    rewrite (cell_off_segments L P c e Hc (Hi e He)) in K. discriminate. }
  assert (Par : forall r, In r rings -> edges_parity (line_segs r) (fst c) = vparity (ring_edges (line_pts r)) (fst c)).
  { intros r Hin. destruct (Hr r Hin) as [_ Hcl]. unfold line_segs.
    rewrite (closed_ring_parity _ _ Hcl (Off r Hin)). apply vparity_segs. }
  cbn [inG]. unfold in_poly, poly_boundary, poly_interior, poly_ring_segs. cbn [poly_rings].
  assert (B : rings_boundary (map line_segs rings) (fst c) = false).
  { unfold rings_boundary. apply not_true_is_false. intros K. apply existsb_exists in K.
    destruct K as [s [Hs K]]. apply in_map_iff in Hs. destruct Hs as [r [<- Hin]]. rewrite (Off r Hin) in K. discriminate. }
  rewrite B. cbn [orb]. destruct rings as [|sh hs]; [reflexivity|]. cbn [map rings_interior].
  unfold ring_strict_in. rewrite (Off sh (or_introl eq_refl)), (Par sh (or_introl eq_refl)). cbn [negb andb].
  f_equal. rewrite forallb_map'. apply forallb_ext_in'. intros h Hh.
  unfold ring_strict_out. rewrite (Off h (or_intror Hh)), (Par h (or_intror Hh)). reflexivity.
Qed.

(* Part B, single ring: the absolute shoelace area is the slab area of the polygon's point set *)
Theorem shoelace_is_slab_area_lemma : forall (L : list seg) (P : list pt) ct (l : lineT Q) (sigma : Z),
  incl (line_segs l) L -> pts_closed (line_pts l) = true -> (sigma = 1 \/ sigma = -1)%Z ->
  winding_simple sigma (ring_edges (line_pts l)) (slab_cells L (events (vertex_set L P))) = true ->
  Qabs (ring_area_xy (line_pts l)) == area_of L P (inG (GPoly (MkPoly ct [l]))).
Proof.
  intros L P ct l sigma Hi Hc Hs Hw.
  destruct (ring_area_is_parity_area L P (line_pts l) sigma Hi Hc Hs Hw) as [E _]. rewrite E.
  unfold area_of. apply cells_area_ext_in'. intros c Hin.
  rewrite (inG_poly_cell L P ct [l] c); [cbn [forallb]; rewrite andb_true_r; reflexivity| |exact Hin].
  intros r [<-|[]]. split; assumption.
Qed.

(* ------------------------------------------------------------------------------------------ *)
(* polygons with holes                                                                         *)
(* ------------------------------------------------------------------------------------------ *)
Lemma line_xys_pts : forall l : lineT Q, line_xys l = line_pts l.
Proof. reflexivity. Qed.

Definition rpar (r : lineT Q) (p : pt) : bool := vparity (ring_edges (line_pts r)) p.
(* valid nesting, judged at the trapezoid witnesses: a witness lies in at most one hole, and a
   witness in a hole lies in the shell *)
Definition nesting_ok (sh : lineT Q) (hs : list (lineT Q)) (cells : list (pt * Q)) : bool :=
  forallb (fun c => let k := length (filter (fun h => rpar h (fst c)) hs) in
                    (k =? 0)%nat || ((k =? 1)%nat && rpar sh (fst c))) cells.

Lemma qsum_ind_filter : forall (A : Type) (f : A -> bool) l,
  qsum (map (fun x => ind (f x)) l) == inject_Z (Z.of_nat (length (filter f l))).
Proof.
  intros A f l. induction l as [|x l IH]; cbn [map filter]; [reflexivity|].
  rewrite qsum_cons, IH. destruct (f x); cbn [ind length].
  - rewrite Nat2Z.inj_succ. unfold Z.succ. rewrite inject_Z_plus. change (inject_Z 1) with 1. ring.
  - ring.
Qed.

Lemma forallb_negb_filter : forall (A : Type) (f : A -> bool) l,
  forallb (fun x => negb (f x)) l = (length (filter f l) =? 0)%nat.
Proof.
  intros A f l. induction l as [|x l IH]; cbn [forallb filter]; [reflexivity|].
  destruct (f x); cbn [negb andb length]; [reflexivity|exact IH].
Qed.

Lemma nesting_indicator : forall (sh : lineT Q) (hs : list (lineT Q)) (c : pt * Q),
  (let k := length (filter (fun h => rpar h (fst c)) hs) in
   (k =? 0)%nat || ((k =? 1)%nat && rpar sh (fst c))) = true ->
  ind (rpar sh (fst c) && forallb (fun h => negb (rpar h (fst c))) hs) ==
  ind (rpar sh (fst c)) - qsum (map (fun h => ind (rpar h (fst c))) hs).
Proof.
  intros sh hs c H. cbv zeta in H.
  rewrite (qsum_ind_filter _ (fun h => rpar h (fst c)) hs), (forallb_negb_filter _ (fun h => rpar h (fst c)) hs).
  destruct (length (filter (fun h => rpar h (fst c)) hs)) as [|[|k]]; cbn [Nat.eqb orb andb] in *.
  - rewrite andb_true_r. cbn. ring.
  - rewrite H. cbn. ring.
  - discriminate.
Qed.

Lemma cells_wsum_minus_sum : forall (A : Type) cells (w : pt -> Q) (ws : A -> pt -> Q) (hs : list A),
  cells_wsum cells (fun p => w p - qsum (map (fun h => ws h p) hs)) ==
  cells_wsum cells w - qsum (map (fun h => cells_wsum cells (ws h)) hs).
Proof.
  intros A cells w ws hs. unfold cells_wsum.
  rewrite (qsum_map_ext_all _ _ (fun c => w (fst c) * snd c + - qsum (map (fun h => ws h (fst c) * snd c) hs))).
  2:{ intros c. rewrite (qsum_map_scale _ (fun h => ws h (fst c)) (snd c) hs). ring. }
  rewrite qsum_map_plus, qsum_map_opp, qsum_swap. ring.
Qed.

(* Part B, polygon with holes under valid nesting: Area() of the model = slab area of the set *)
Theorem shoelace_is_slab_area_holes_lemma :
  forall (L : list seg) (P : list pt) ct (sh : lineT Q) (hs : list (lineT Q)),
  let cells := slab_cells L (events (vertex_set L P)) in
  (forall r, In r (sh :: hs) ->
     incl (line_segs r) L /\ pts_closed (line_pts r) = true /\
     exists sigma, (sigma = 1 \/ sigma = -1)%Z /\ winding_simple sigma (ring_edges (line_pts r)) cells = true) ->
  nesting_ok sh hs cells = true ->
  Measure.poly_area false None (MkPoly ct (sh :: hs)) == area_of L P (inG (GPoly (MkPoly ct (sh :: hs)))).
Proof.
  intros L P ct sh hs cells Hr Hn.
  assert (RA : forall r, In r (sh :: hs) -> Qabs (ring_area None r) == cells_wsum cells (fun p => ind (rpar r p))).
  { intros r Hin. destruct (Hr r Hin) as [Hi [Hc [sigma [Hs Hw]]]].
    rewrite ring_area_none, line_xys_pts.
    destruct (ring_area_is_parity_area L P (line_pts r) sigma Hi Hc Hs Hw) as [E _]. rewrite E.
    unfold area_of. fold cells. rewrite cells_area_wsum. reflexivity. }
  rewrite poly_area_spec. unfold shell_term, hole_term. cbv beta iota.
  unfold area_of. fold cells. rewrite cells_area_wsum.
  rewrite (cells_wsum_ext_in cells _ (fun p => ind (rpar sh p) - qsum (map (fun h => ind (rpar h p)) hs))).
  2:{ intros c Hin. rewrite (inG_poly_cell L P ct (sh :: hs) c); [| |exact Hin].
      - unfold nesting_ok in Hn. rewrite forallb_forall in Hn. apply (nesting_indicator sh hs c (Hn c Hin)).
      - intros r Hin'. destruct (Hr r Hin') as [Hi [Hc _]]. split; assumption. }
  rewrite (cells_wsum_minus_sum _ cells (fun p => ind (rpar sh p)) (fun h p => ind (rpar h p)) hs).
  rewrite (RA sh (or_introl eq_refl)).
  rewrite (qsum_map_ext _ (fun h => - Qabs (ring_area None h)) (fun h => - cells_wsum cells (fun p => ind (rpar h p)))).
  2:{ apply Forall_forall. intros h Hh. rewrite (RA h (or_intror Hh)). reflexivity. }
  rewrite qsum_map_opp. ring.
Qed.

(* ------------------------------------------------------------------------------------------ *)
(* executable form of the hypotheses, for one polygon in its own arrangement                   *)
(* ------------------------------------------------------------------------------------------ *)
Definition poly_segs (y : polyT Q) : list seg := flat_map line_segs (poly_rings y).
Definition poly_cells (y : polyT Q) : list (pt * Q) := slab_cells (poly_segs y) (events (vertex_set (poly_segs y) [])).
Definition ring_sigma_ok (cells : list (pt * Q)) (r : lineT Q) : bool :=
  pts_closed (line_pts r) &&
  (winding_simple 1 (ring_edges (line_pts r)) cells || winding_simple (-1) (ring_edges (line_pts r)) cells).
(* all hypotheses of [shoelace_is_slab_area_holes_lemma] for y in the arrangement of its own rings *)
Definition slab_hypotheses (y : polyT Q) : bool :=
  match poly_rings y with
  | [] => true
  | sh :: hs => forallb (ring_sigma_ok (poly_cells y)) (sh :: hs) && nesting_ok sh hs (poly_cells y)
  end.
Definition slab_area (y : polyT Q) : Q := area_of (poly_segs y) [] (inG (GPoly y)).

Theorem slab_hypotheses_sound : forall ct (rings : list (lineT Q)),
  slab_hypotheses (MkPoly ct rings) = true ->
  Measure.poly_area false None (MkPoly ct rings) == slab_area (MkPoly ct rings).
Proof.
  intros ct [|sh hs] H.
  - unfold slab_area, area_of. cbn [Measure.poly_area poly_rings].
    symmetry. etransitivity; [apply cells_area_ext_in' with (g := fun _ => false)|].
    + intros c _. reflexivity.
    + unfold cells_area. induction (slab_cells _ _) as [|c r IH]; cbn [fold_right]; [reflexivity|]. rewrite IH. ring.
  - unfold slab_hypotheses in H. cbn [poly_rings] in H. apply andb_true_iff in H. destruct H as [H1 H2].
    unfold slab_area. apply shoelace_is_slab_area_holes_lemma; [|exact H2].
    intros r Hin. rewrite forallb_forall in H1. specialize (H1 r Hin). unfold ring_sigma_ok in H1.
    apply andb_true_iff in H1. destruct H1 as [Hc Hw]. split; [|split; [exact Hc|]].
    + unfold poly_segs. cbn [poly_rings]. intros e He. apply in_flat_map. exists r. split; assumption.
    + apply orb_true_iff in Hw. destruct Hw as [Hw|Hw]; [exists 1%Z|exists (-1)%Z]; split; auto.
Qed.
