(* Lemmas about the abstract labelled cell complex of the overlay (Model/OverlayComplex.v):
   what the selection rules of geom/dcel_extract_geometry.go extract, on EVERY complex that satisfies
   the structural invariants [dcel_ok] (which the driver evaluates on the real dumped structure). *)
From Coq Require Import List Bool Arith Lia.
From SF Require Import Model.SetOpSpec Model.OverlayComplex.
Import ListNotations.

(* ================================================================ indexing =================== *)
Lemma in_indexed_from {A} (l : list A) : forall k i x,
  In (i, x) (indexed_from k l) <-> k <= i /\ nth_error l (i - k) = Some x.
Proof.
  induction l as [|y r IH]; intros k i x; simpl.
  - split; [tauto|]. intros [_ H]. destruct (i - k); discriminate.
  - rewrite IH. split.
    + intros [H|[H1 H2]].
      * inversion H; subst. split; [lia|]. rewrite Nat.sub_diag. reflexivity.
      * split; [lia|]. replace (i - k) with (S (i - S k)) by lia. exact H2.
    + intros [H1 H2]. destruct (Nat.eq_dec i k) as [->|Hne].
      * left. rewrite Nat.sub_diag in H2. simpl in H2. inversion H2. reflexivity.
      * right. split; [lia|]. replace (i - k) with (S (i - S k)) in H2 by lia. exact H2.
Qed.
Lemma in_edges_ix c i e : In (i, e) (edges_ix c) <-> get_e c i = Some e.
Proof. unfold edges_ix, get_e. rewrite in_indexed_from, Nat.sub_0_r. split; [tauto|]. intros; split; [lia|auto]. Qed.
Lemma in_verts_ix c i v : In (i, v) (verts_ix c) <-> get_v c i = Some v.
Proof. unfold verts_ix, get_v. rewrite in_indexed_from, Nat.sub_0_r. split; [tauto|]. intros; split; [lia|auto]. Qed.
Lemma get_e_in c i e : get_e c i = Some e -> In e (c_edges c).
Proof. apply nth_error_In. Qed.
Lemma in_get_e c e : In e (c_edges c) -> exists i, get_e c i = Some e.
Proof. intros H. apply In_nth_error in H. exact H. Qed.

Lemma field_is_spec c i proj v :
  field_is c i proj v = true <-> exists e, get_e c i = Some e /\ proj e = v.
Proof.
  unfold field_is. destruct (get_e c i) as [e|].
  - rewrite Nat.eqb_eq. split; [eauto|]. intros (e' & H & <-). inversion H. reflexivity.
  - split; [discriminate|]. intros (e' & H & _). discriminate.
Qed.

Lemma lab_eqb_eq l m : lab_eqb l m = true <-> l = m.
Proof.
  destruct l as [a b], m as [a' b']. unfold lab_eqb. simpl. rewrite andb_true_iff.
  split.
  - intros [H1 H2]. apply eqb_prop in H1, H2. subst. reflexivity.
  - intros H. inversion H. subst. split; apply eqb_reflx.
Qed.

(* ================================================================ consequences of dcel_ok ===== *)
(* the facts about a half edge that the proofs below use, in Prop form *)
Record edge_facts (c : complex) (i : nat) (e : hedgeR) : Prop := {
  ef_twin : exists t, get_e c (e_twin e) = Some t /\ e_twin t = i /\ e_twin e <> i /\
                      e_srcEdge t = e_srcEdge e /\
                      exists n, get_e c (e_next e) = Some n /\ e_origin n = e_origin t /\
                                e_prev n = i /\ e_face n = e_face e;
  ef_prev : exists p, get_e c (e_prev e) = Some p /\ e_next p = i
}.

Lemma dcel_ok_edge c i e : dcel_ok c = true -> get_e c i = Some e -> edge_facts c i e.
Proof.
  unfold dcel_ok. rewrite !andb_true_iff. intros [[[[[_ Ht] Hn] _] _] _] He.
  unfold twin_ok in Ht. rewrite forallb_forall in Ht. specialize (Ht (i, e) (proj2 (in_edges_ix c i e) He)).
  unfold next_prev_ok in Hn. rewrite forallb_forall in Hn. specialize (Hn (i, e) (proj2 (in_edges_ix c i e) He)).
  cbn [fst snd] in Ht, Hn. rewrite !andb_true_iff in Ht, Hn.
  destruct Ht as [[Hne Htt] Ht]. destruct Hn as [[Hnp Hpn] Hnf].
  apply negb_true_iff, Nat.eqb_neq in Hne.
  apply field_is_spec in Htt as (t & Hgt & Htw).
  rewrite Hgt in Ht. rewrite !andb_true_iff in Ht. destruct Ht as [Hsrc Hor].
  apply lab_eqb_eq in Hsrc.
  apply field_is_spec in Hor as (n & Hgn & Hon).
  apply field_is_spec in Hnp as (n' & Hgn' & Hnp). rewrite Hgn in Hgn'. inversion Hgn'; subst n'.
  apply field_is_spec in Hnf as (n' & Hgn'' & Hnf). rewrite Hgn in Hgn''. inversion Hgn''; subst n'.
  apply field_is_spec in Hpn as (p & Hgp & Hpn).
  split.
  - exists t. repeat split; auto. exists n. auto.
  - exists p. auto.
Qed.

(* ================================================================ selection: Boolean facts ==== *)
(* shouldExtractLine: the test of the [extracted] mark is implied by the two face tests *)
Theorem sel_line_simpl_lemma o c e : sel_line o c e = inc o (e_in e) && negb (adj_sel o c e).
Proof.
  unfold sel_line, adj_sel.
  destruct (sel_face o c (e_face e)), (sel_twin_face o c e), (inc o (e_in e)); reflexivity.
Qed.

(* the faces on the two sides of an edge are the same two faces seen from the twin *)
Lemma adj_sel_twin o c i e t :
  dcel_ok c = true -> get_e c i = Some e -> get_e c (e_twin e) = Some t -> adj_sel o c t = adj_sel o c e.
Proof.
  intros Hok He Ht. destruct (dcel_ok_edge c i e Hok He) as [(t' & Ht' & Htw & _) _].
  rewrite Ht in Ht'. inversion Ht'; subst t'.
  unfold adj_sel, sel_twin_face, twin_face_in, twin_face. rewrite Ht, Htw, He. apply orb_comm.
Qed.

(* select_closure at an edge: it is in the result iff the label of one of its half edges is selected
   or a face on one of its sides is selected *)
Theorem select_edge_closure_lemma o c i e :
  dcel_ok c = true -> get_e c i = Some e -> res_edge o c e = edge_inc o c e || adj_sel o c e.
Proof.
  intros Hok He. unfold res_edge, line_extracted, twin_sel_line, edge_inc.
  destruct (dcel_ok_edge c i e Hok He) as [(t & Ht & _) _]. rewrite Ht.
  rewrite !sel_line_simpl_lemma, (adj_sel_twin o c i e t Hok He Ht).
  destruct (inc o (e_in e)), (inc o (e_in t)), (adj_sel o c e); reflexivity.
Qed.

(* lower-dimensional remainders are extracted only where not already covered *)
Theorem remainders_uncovered_lemma o c :
  dcel_ok c = true ->
  (forall i e, get_e c i = Some e -> line_extracted o c e = true -> adj_sel o c e = false) /\
  (forall iv, sel_point o c iv = true -> v_covered o c (fst iv) = false).
Proof.
  intros Hok. split.
  - intros i e He H. unfold line_extracted, twin_sel_line in H.
    destruct (dcel_ok_edge c i e Hok He) as [(t & Ht & _) _]. rewrite Ht in H.
    rewrite !sel_line_simpl_lemma, (adj_sel_twin o c i e t Hok He Ht) in H.
    destruct (adj_sel o c e); [|reflexivity]. rewrite !andb_false_r in H. discriminate.
  - intros iv H. unfold sel_point in H. apply andb_true_iff in H as [_ H]. apply negb_true_iff in H. exact H.
Qed.

(* a vertex is marked as covered iff an edge of the result starts at it *)
Lemma v_covered_spec o c v :
  dcel_ok c = true ->
  v_covered o c v = existsb (fun e => Nat.eqb (e_origin e) v && res_edge o c e) (c_edges c).
Proof.
  intros Hok. apply eq_true_iff_eq. unfold v_covered. rewrite !existsb_exists. split.
  - intros (e & Hin & H). exists e. split; [exact Hin|].
    apply andb_true_iff in H as [Ho H]. rewrite Ho. simpl.
    unfold res_edge, adj_sel. apply orb_true_iff in H as [H|H]; rewrite H; [reflexivity|apply orb_true_r].
  - intros (e & Hin & H). apply andb_true_iff in H as [Ho H].
    destruct (in_get_e c e Hin) as (i & He).
    unfold res_edge, adj_sel in H. rewrite !orb_true_iff in H. destruct H as [[H|H]|H].
    + exists e. split; [exact Hin|]. rewrite Ho, H. reflexivity.
    + (* the face on the other side is selected: the half edge after the twin starts at v on that face *)
      destruct (dcel_ok_edge c i e Hok He) as [(t & Ht & Htw & _) _].
      destruct (dcel_ok_edge c (e_twin e) t Hok Ht) as [(e' & He' & _ & _ & _ & n & Hn & Hon & _ & Hnf) _].
      rewrite Htw, He in He'. inversion He'; subst e'.
      exists n. split; [eapply get_e_in; exact Hn|].
      rewrite Hon, Ho. simpl.
      unfold sel_twin_face, twin_face_in, twin_face in H. rewrite Ht in H.
      unfold sel_face. rewrite Hnf. unfold sel_face in H. rewrite H. reflexivity.
    + exists e. split; [exact Hin|]. rewrite Ho, H. simpl. rewrite orb_true_r. reflexivity.
Qed.

(* select_closure at a vertex: it is in the result iff its own label is selected or an edge of the
   result starts at it *)
Theorem select_vertex_closure_lemma o c i v :
  dcel_ok c = true ->
  res_vertex o c (i, v) =
  inc o (v_in v) || existsb (fun e => Nat.eqb (e_origin e) i && res_edge o c e) (c_edges c).
Proof.
  intros Hok. unfold res_vertex, sel_point. cbn [fst snd]. rewrite <- (v_covered_spec o c i Hok).
  destruct (v_covered o c i), (inc o (v_in v)); reflexivity.
Qed.

(* ================================================================ label closure =============== *)
Lemma lab_le_trans a b c : lab_le a b = true -> lab_le b c = true -> lab_le a c = true.
Proof. destruct a as [[|] [|]], b as [[|] [|]], c as [[|] [|]]; simpl; auto. Qed.

(* the label bounds of dcel_ok contain label closure: face <= boundary edge <= end vertices *)
Theorem labels_closed_lemma c : dcel_ok c = true -> label_closed c.
Proof.
  unfold dcel_ok. rewrite !andb_true_iff. intros [_ Hl]. unfold labels_ok in Hl.
  apply andb_true_iff in Hl as [He _]. rewrite forallb_forall in He. repeat split.
  - intros e Hin. specialize (He e Hin). rewrite !andb_true_iff in He. tauto.
  - intros e v Hin Hgv. specialize (He e Hin). rewrite !andb_true_iff in He.
    destruct He as [[[_ H] _] _]. unfold vert_in in H. rewrite Hgv in H. exact H.
  - intros e t w Hin Ht Hw. specialize (He e Hin). rewrite !andb_true_iff in He.
    destruct He as [[_ H] _]. unfold twin_origin, vert_in in H. rewrite Ht, Hw in H. exact H.
Qed.

(* union and intersection are monotone in the labels *)
Lemma inc_mono o l m : (o = OpUnion \/ o = OpInter) -> lab_le l m = true -> inc o l = true -> inc o m = true.
Proof.
  intros [->| ->]; destruct l as [[|] [|]], m as [[|] [|]]; simpl; auto.
Qed.

(* for union and intersection the result at an edge is the Boolean combination of the edge's own
   labels (no closure needed: the sets are closed) *)
Theorem select_monotone_edge_lemma o c i e :
  (o = OpUnion \/ o = OpInter) -> dcel_ok c = true -> get_e c i = Some e ->
  res_edge o c e = edge_inc o c e.
Proof.
  intros Ho Hok He. rewrite (select_edge_closure_lemma o c i e Hok He).
  destruct (edge_inc o c e) eqn:E; [reflexivity|]. simpl.
  destruct (labels_closed_lemma c Hok) as [Hc _].
  destruct (dcel_ok_edge c i e Hok He) as [(t & Ht & _) _].
  unfold edge_inc in E. rewrite Ht in E. apply orb_false_iff in E as [E1 E2].
  unfold adj_sel, sel_face, sel_twin_face, twin_face_in, twin_face. rewrite Ht.
  destruct (inc o (face_in c (e_face e))) eqn:F1.
  { rewrite (inc_mono o _ _ Ho (Hc e (get_e_in c i e He)) F1) in E1. discriminate. }
  destruct (inc o (face_in c (e_face t))) eqn:F2.
  { rewrite (inc_mono o _ _ Ho (Hc t (get_e_in c _ t Ht)) F2) in E2. discriminate. }
  reflexivity.
Qed.
(* ... and at a vertex *)
Theorem select_monotone_vertex_lemma o c i v :
  (o = OpUnion \/ o = OpInter) -> dcel_ok c = true -> get_v c i = Some v ->
  res_vertex o c (i, v) = inc o (v_in v).
Proof.
  intros Ho Hok Hv. rewrite (select_vertex_closure_lemma o c i v Hok).
  destruct (inc o (v_in v)) eqn:E; [reflexivity|]. simpl.
  destruct (existsb _ (c_edges c)) eqn:Ex; [|reflexivity].
  apply existsb_exists in Ex as (e & Hin & H). apply andb_true_iff in H as [Hor H].
  apply Nat.eqb_eq in Hor. subst i.
  destruct (in_get_e c e Hin) as (j & He).
  rewrite (select_monotone_edge_lemma o c j e Ho Hok He) in H.
  destruct (labels_closed_lemma c Hok) as (_ & Hcv & Hcw).
  destruct (dcel_ok_edge c j e Hok He) as [(t & Ht & Htw & _) _].
  unfold edge_inc in H. rewrite Ht in H. apply orb_true_iff in H as [H|H].
  - rewrite (inc_mono o _ _ Ho (Hcv e v Hin Hv) H) in E. discriminate.
  - (* the twin's label reaches the origin of e, which is the end point of the twin *)
    assert (Hin' : In t (c_edges c)) by (eapply get_e_in; exact Ht).
    rewrite <- Htw in He.
    rewrite (inc_mono o _ _ Ho (Hcw t e v Hin' He Hv) H) in E. discriminate.
Qed.

(* ================================================================ operation-level laws ======== *)
(* selection of faces is the Boolean combination of the two label families *)
Theorem sel_face_ops_lemma c f :
  let a := fst (face_in c f) in let b := snd (face_in c f) in
  sel_face OpUnion c f = a || b /\ sel_face OpInter c f = a && b /\
  sel_face OpDiff c f = a && negb b /\ sel_face OpSym c f = xorb a b /\
  sel_face OpSym c f = sel_face OpDiff c f || sel_face OpDiff (swap_c c) f /\
  sel_face OpUnion c f = sel_face OpSym c f || sel_face OpInter c f /\
  a = sel_face OpDiff c f || sel_face OpInter c f.
Proof.
  assert (Hs : face_in (swap_c c) f = lab_swap (face_in c f)).
  { unfold face_in, get_f, swap_c. cbn [c_faces]. rewrite nth_error_map.
    destruct (nth_error (c_faces c) f); reflexivity. }
  unfold sel_face. rewrite Hs. unfold inc. destruct (face_in c f) as [[|] [|]]; simpl; repeat split; reflexivity.
Qed.

Lemma inc_swap o l : o <> OpDiff -> inc o (lab_swap l) = inc o l.
Proof.
  intros H. destruct l as [a b]. unfold inc, lab_swap. simpl.
  destruct o; try (exfalso; apply H; reflexivity); simpl.
  - apply orb_comm. - apply andb_comm. - apply xorb_comm.
Qed.
Lemma face_in_swap c f : face_in (swap_c c) f = lab_swap (face_in c f).
Proof.
  unfold face_in, get_f, swap_c. cbn [c_faces]. rewrite nth_error_map.
  destruct (nth_error (c_faces c) f); reflexivity.
Qed.
Lemma twin_face_in_swap c e : twin_face_in (swap_c c) (swap_e e) = lab_swap (twin_face_in c e).
Proof.
  unfold twin_face_in, twin_face, get_e. cbn [swap_c c_edges swap_e e_twin]. rewrite nth_error_map.
  destruct (nth_error (c_edges c) (e_twin e)) as [t|]; simpl; [apply face_in_swap|reflexivity].
Qed.
Lemma sel_face_swap o c f : o <> OpDiff -> sel_face o (swap_c c) f = sel_face o c f.
Proof. intros H. unfold sel_face. rewrite face_in_swap. apply inc_swap. exact H. Qed.
Lemma adj_sel_swap o c e : o <> OpDiff -> adj_sel o (swap_c c) (swap_e e) = adj_sel o c e.
Proof.
  intros H. unfold adj_sel, sel_twin_face. rewrite twin_face_in_swap, inc_swap by exact H.
  cbn [swap_e e_face]. rewrite sel_face_swap by exact H. reflexivity.
Qed.
Lemma sel_line_swap o c e : o <> OpDiff -> sel_line o (swap_c c) (swap_e e) = sel_line o c e.
Proof.
  intros H. rewrite !sel_line_simpl_lemma, adj_sel_swap by exact H. cbn [swap_e e_in].
  rewrite inc_swap by exact H. reflexivity.
Qed.
Lemma existsb_map' {A B} (f : B -> bool) (g : A -> B) l : existsb f (map g l) = existsb (fun x => f (g x)) l.
Proof. induction l; simpl; auto. rewrite IHl. reflexivity. Qed.
Lemma existsb_ext' {A} (f g : A -> bool) l : (forall x, f x = g x) -> existsb f l = existsb g l.
Proof. intros E. induction l; simpl; auto. rewrite E, IHl. reflexivity. Qed.
Lemma v_covered_swap o c v : o <> OpDiff -> v_covered o (swap_c c) v = v_covered o c v.
Proof.
  intros H. unfold v_covered. cbn [swap_c c_edges]. rewrite existsb_map'.
  apply existsb_ext'. intros e. cbn [swap_e e_origin e_face]. f_equal.
  change (MkC (map swap_v (c_verts c)) (map swap_e (c_edges c)) (map swap_f (c_faces c))) with (swap_c c).
  change (MkE (e_origin e) (e_twin e) (e_next e) (e_prev e) (e_face e) (lab_swap (e_srcEdge e))
              (lab_swap (e_srcFace e)) (lab_swap (e_in e))) with (swap_e e).
  rewrite sel_face_swap by exact H. f_equal. unfold line_extracted. rewrite sel_line_swap by exact H. f_equal.
  unfold twin_sel_line, get_e. cbn [swap_c c_edges swap_e e_twin]. rewrite nth_error_map.
  destruct (nth_error (c_edges c) (e_twin e)) as [t|]; simpl; [|reflexivity].
  change (MkC (map swap_v (c_verts c)) (map swap_e (c_edges c)) (map swap_f (c_faces c))) with (swap_c c).
  apply sel_line_swap. exact H.
Qed.

Lemma indexed_from_map {A B} (g : A -> B) l : forall k,
  indexed_from k (map g l) = map (fun ix => (fst ix, g (snd ix))) (indexed_from k l).
Proof. induction l; intros k; simpl; [reflexivity|]. rewrite IHl. reflexivity. Qed.
Lemma filter_map_fst {A B} (g : A -> B) (p : nat * B -> bool) (q : nat * A -> bool) l :
  (forall ix, p (fst ix, g (snd ix)) = q ix) ->
  map fst (filter p (map (fun ix => (fst ix, g (snd ix))) l)) = map fst (filter q l).
Proof.
  intros E. induction l as [|x r IH]; [reflexivity|]. simpl. rewrite E.
  destruct (q x); simpl; rewrite IH; reflexivity.
Qed.

(* union, intersection and symmetric difference select the same cells when the operands are swapped *)
Theorem select_comm_lemma o c :
  o <> OpDiff ->
  faces_selected o (swap_c c) = faces_selected o c /\
  boundary_edges o (swap_c c) = boundary_edges o c /\
  lines_selected o (swap_c c) = lines_selected o c /\
  points_selected o (swap_c c) = points_selected o c.
Proof.
  intros H. unfold faces_selected, boundary_edges, lines_selected, points_selected, faces_ix, edges_ix, verts_ix.
  cbn [swap_c c_faces c_edges c_verts]. rewrite !indexed_from_map. repeat split.
  - apply filter_map_fst. intros ix. cbn [fst]. apply sel_face_swap. exact H.
  - apply filter_map_fst. intros ix. cbn [fst snd].
    change (e_face (swap_e (snd ix))) with (e_face (snd ix)).
    rewrite sel_face_swap by exact H. unfold sel_twin_face. rewrite twin_face_in_swap, inc_swap by exact H. reflexivity.
  - apply filter_map_fst. intros ix. cbn [fst snd]. unfold line_extracted. rewrite sel_line_swap by exact H.
    f_equal. f_equal. unfold twin_sel_line, get_e. cbn [swap_c c_edges swap_e e_twin]. rewrite nth_error_map.
    destruct (nth_error (c_edges c) (e_twin (snd ix))) as [t|]; simpl; [|reflexivity].
    change (MkC (map swap_v (c_verts c)) (map swap_e (c_edges c)) (map swap_f (c_faces c))) with (swap_c c).
    apply sel_line_swap. exact H.
  - apply filter_map_fst. intros ix. unfold sel_point. cbn [fst snd swap_v v_in].
    rewrite inc_swap, v_covered_swap by exact H. reflexivity.
Qed.

(* ================================================================ face cycles ================ *)
(* the walk of [orbit]: from x follow next until the half edge whose next is s *)
Inductive chain (c : complex) (s : nat) : nat -> list nat -> Prop :=
| chain_last x e : get_e c x = Some e -> e_next e = s -> chain c s x [x]
| chain_cons x e l : get_e c x = Some e -> e_next e <> s -> chain c s (e_next e) l -> chain c s x (x :: l).

Lemma orbit_chain c s : forall fuel cur l, orbit c s cur fuel = Some l -> chain c s cur l.
Proof.
  induction fuel as [|k IH]; intros cur l H; [discriminate|]. simpl in H.
  destruct (get_e c cur) as [e|] eqn:He; [|discriminate].
  destruct (Nat.eqb (e_next e) s) eqn:E.
  - inversion H; subst. apply Nat.eqb_eq in E. eapply chain_last; eauto.
  - destruct (orbit c s (e_next e) k) as [l'|] eqn:Ho; [|discriminate]. inversion H; subst.
    apply Nat.eqb_neq in E. eapply chain_cons; eauto.
Qed.

Lemma chain_det c s x l1 : chain c s x l1 -> forall l2, chain c s x l2 -> l1 = l2.
Proof.
  induction 1 as [x e He Hn|x e l He Hn Hc IH]; intros l2 H2; inversion H2; subst.
  - reflexivity.
  - rewrite He in H. inversion H; subst. contradiction.
  - rewrite He in H. inversion H; subst. contradiction.
  - rewrite He in H. inversion H; subst. f_equal. apply IH. assumption.
Qed.

Lemma chain_suffix c s x l : chain c s x l -> forall k y, nth_error l k = Some y -> chain c s y (skipn k l).
Proof.
  induction 1 as [x e He Hn|x e l He Hn Hc IH]; intros k y Hk.
  - destruct k as [|k]; simpl in Hk; [inversion Hk; subst; simpl; eapply chain_last; eauto|].
    destruct k; discriminate.
  - destruct k as [|k]; simpl in Hk.
    + inversion Hk; subst. simpl. eapply chain_cons; eauto.
    + simpl. apply IH. exact Hk.
Qed.

Lemma chain_nodup c s x l : chain c s x l -> NoDup l.
Proof.
  induction 1 as [x e He Hn|x e l He Hn Hc IH].
  - constructor; [intros []|constructor].
  - constructor; [|exact IH]. intros Hin.
    apply In_nth_error in Hin as (k & Hk).
    pose proof (chain_suffix c s _ _ Hc k x Hk) as Hs.
    pose proof (chain_det c s x _ (chain_cons c s x e l He Hn Hc) _ Hs) as E.
    assert (length (skipn k l) <= length l) by (rewrite skipn_length; lia).
    rewrite <- E in H. simpl in H. lia.
Qed.

Lemma chain_face c s x l j :
  dcel_ok c = true -> chain c s x l ->
  (exists e, get_e c x = Some e /\ e_face e = j) ->
  forall i, In i l -> exists e, get_e c i = Some e /\ e_face e = j.
Proof.
  intros Hok H. induction H as [x e He Hn|x e l He Hn Hc IH]; intros (e0 & He0 & Hf) i Hin.
  - destruct Hin as [<-|[]]. eauto.
  - destruct Hin as [<-|Hin]; [eauto|]. apply IH; [|exact Hin].
    rewrite He in He0. inversion He0; subst e0.
    destruct (dcel_ok_edge c x e Hok He) as [(t & _ & _ & _ & _ & n & Hgn & _ & _ & Hnf) _].
    exists n. split; [exact Hgn|]. rewrite Hnf. exact Hf.
Qed.

(* indices *)
Lemma map_fst_indexed_from {A} (l : list A) : forall k, map fst (indexed_from k l) = seq k (length l).
Proof. induction l; intros k; simpl; [reflexivity|]. rewrite IHl. reflexivity. Qed.
Lemma nodup_map_fst_filter {A} (p : nat * A -> bool) (l : list (nat * A)) :
  NoDup (map fst l) -> NoDup (map fst (filter p l)).
Proof.
  induction l as [|x r IH]; simpl; intros H; [constructor|]. inversion H; subst.
  destruct (p x); simpl; [|auto]. constructor; [|auto].
  intros Hin. apply H2. apply in_map_iff in Hin as (y & Hy & Hf). apply filter_In in Hf as [Hf _].
  apply in_map_iff. exists y. auto.
Qed.
Lemma length_filter_indexed {A} (p : A -> bool) (l : list A) : forall k,
  length (filter (fun ix => p (snd ix)) (indexed_from k l)) = length (filter p l).
Proof. induction l; intros k; simpl; [reflexivity|]. destruct (p a); simpl; rewrite IHl; reflexivity. Qed.

Definition face_edges (c : complex) (j : nat) : list nat :=
  map fst (filter (fun ie => Nat.eqb (e_face (snd ie)) j) (edges_ix c)).
Lemma face_edges_spec c j i : In i (face_edges c j) <-> exists e, get_e c i = Some e /\ e_face e = j.
Proof.
  unfold face_edges. rewrite in_map_iff. split.
  - intros ([i' e] & <- & H). apply filter_In in H as [H1 H2]. apply in_edges_ix in H1.
    apply Nat.eqb_eq in H2. eauto.
  - intros (e & He & Hf). exists (i, e). split; [reflexivity|]. apply filter_In. split.
    + apply in_edges_ix. exact He.
    + apply Nat.eqb_eq. exact Hf.
Qed.

(* on every complex satisfying the invariants, the boundary cycle recorded for a face visits every
   half edge incident to that face exactly once *)
Theorem face_cycle_complete_lemma c j f s :
  dcel_ok c = true -> get_f c j = Some f -> f_cycle f = Some s ->
  exists l, orbit c s s (nE c) = Some l /\ NoDup l /\
            forall i, In i l <-> exists e, get_e c i = Some e /\ e_face e = j.
Proof.
  intros Hok Hf Hs.
  assert (Hfo : faces_ok c = true).
  { unfold dcel_ok in Hok. rewrite !andb_true_iff in Hok. tauto. }
  unfold faces_ok in Hfo. apply andb_true_iff in Hfo as [Hfo _]. rewrite forallb_forall in Hfo.
  assert (Hin : In (j, f) (faces_ix c)).
  { unfold faces_ix. apply in_indexed_from. rewrite Nat.sub_0_r. split; [lia|exact Hf]. }
  specialize (Hfo _ Hin). cbn [fst snd] in Hfo. rewrite Hs in Hfo.
  apply andb_true_iff in Hfo as [Hsf Ho].
  apply field_is_spec in Hsf as (es & Hes & Hesf).
  destruct (orbit c s s (nE c)) as [l|] eqn:El; [|discriminate]. apply Nat.eqb_eq in Ho.
  exists l. split; [reflexivity|].
  pose proof (orbit_chain c s _ _ _ El) as Hc.
  pose proof (chain_nodup c s s l Hc) as Hnd. split; [exact Hnd|].
  assert (Hsub : incl l (face_edges c j)).
  { intros i Hi. apply face_edges_spec. eapply chain_face; eauto. }
  assert (Hlen : length (face_edges c j) <= length l).
  { unfold face_edges. rewrite map_length. unfold edges_ix.
    rewrite (length_filter_indexed (fun e => Nat.eqb (e_face e) j)). unfold count_face in Ho. lia. }
  intros i. split.
  - intros Hi. apply face_edges_spec. apply Hsub. exact Hi.
  - intros H. apply face_edges_spec in H.
    apply (NoDup_length_incl Hnd Hlen Hsub). exact H.
Qed.
