(* Lemmas about Model/OverlayFixup.v (geom/dcel_fixup.go in the model): the radial order, the rotation
   system built by fixVertices, the faces of assignFaces, the flood fill, the labels. *)
From Coq Require Import List Bool Arith QArith Lia Lqa Permutation Sorted.
From SF Require Import Base.QKernel Model.SetOpSpec Model.OverlayComplex Model.OverlayRings
  Proofs.OverlayComplex_proofs Proofs.OverlayRings_proofs Model.OverlayFixup.
Import ListNotations.

(* ================================================================ (a) radialLess ================ *)
Section Radial.
Open Scope Q_scope.

Lemma qltb_t a b : qltb a b = true <-> a < b.
Proof.
  unfold qltb. rewrite negb_true_iff. split.
  - intros H. apply Qnot_le_lt. intros Hle. apply Qle_bool_iff in Hle. congruence.
  - intros H. destruct (Qle_bool b a) eqn:E; [|reflexivity]. apply Qle_bool_iff in E. lra.
Qed.
Lemma qltb_f a b : qltb a b = false <-> b <= a.
Proof.
  unfold qltb. rewrite negb_false_iff. apply Qle_bool_iff.
Qed.
Lemma Qle_bool_true a b : a <= b -> Qle_bool a b = true.
Proof. apply Qle_bool_iff. Qed.
Lemma Qle_bool_false a b : b < a -> Qle_bool a b = false.
Proof. intros H. destruct (Qle_bool a b) eqn:E; [|reflexivity]. apply Qle_bool_iff in E. lra. Qed.
Lemma Qeq_bool_true a b : a == b -> Qeq_bool a b = true.
Proof. apply Qeq_bool_iff. Qed.
Lemma Qeq_bool_false a b : ~ a == b -> Qeq_bool a b = false.
Proof. intros H. destruct (Qeq_bool a b) eqn:E; [|reflexivity]. apply Qeq_bool_iff in E. contradiction. Qed.
Lemma qltb_true a b : a < b -> qltb a b = true.
Proof. apply qltb_t. Qed.
Lemma qltb_false a b : b <= a -> qltb a b = false.
Proof. apply qltb_f. Qed.

Ltac qres :=
  repeat match goal with
  | |- context [Qle_bool ?a ?b] => first [rewrite (Qle_bool_true a b) by nra | rewrite (Qle_bool_false a b) by nra]
  | |- context [Qeq_bool ?a ?b] => first [rewrite (Qeq_bool_true a b) by nra | rewrite (Qeq_bool_false a b) by nra]
  | |- context [qltb ?a ?b] => first [rewrite (qltb_true a b) by nra | rewrite (qltb_false a b) by nra]
  end.

(* the four sectors *)
Lemma sector_cases a : pt_nonzero a = true ->
  (sector a = 0%nat /\ fst a == 0 /\ snd a < 0) \/ (sector a = 1%nat /\ 0 < fst a) \/
  (sector a = 2%nat /\ fst a == 0 /\ 0 < snd a) \/ (sector a = 3%nat /\ fst a < 0).
Proof.
  destruct a as [x y]. unfold pt_nonzero, sector. cbn [fst snd]. intros H.
  destruct (Q_dec x 0) as [[Hx|Hx]|Hx].
  - right. right. right. qres. split; [reflexivity|exact Hx].
  - right. left. qres. split; [reflexivity|exact Hx].
  - rewrite (Qeq_bool_true x 0 Hx) in *. cbn [andb negb] in H. apply negb_true_iff in H.
    assert (Hy : ~ y == 0) by (intros E; apply Qeq_bool_iff in E; congruence).
    destruct (Q_dec y 0) as [[Hy'|Hy']|Hy']; [| |contradiction].
    + left. qres. auto.
    + right. right. left. qres. auto.
Qed.

Lemma radialLess_char_lemma a b :
  pt_nonzero a = true -> pt_nonzero b = true -> radialLess a b = radial_spec a b.
Proof.
  intros Ha Hb.
  destruct (sector_cases a Ha) as [(Sa & A1 & A2)|[(Sa & A1)|[(Sa & A1 & A2)|(Sa & A1)]]];
  destruct (sector_cases b Hb) as [(Sb & B1 & B2)|[(Sb & B1)|[(Sb & B1 & B2)|(Sb & B1)]]];
  unfold radial_spec; rewrite Sa, Sb; cbn [Nat.ltb Nat.leb Nat.eqb orb andb];
  destruct a as [ax ay]; destruct b as [bx by_]; unfold radialLess, vcross, vlen2; cbn [fst snd] in *;
  qres; cbn [orb andb negb]; try reflexivity.
  all: try (destruct (Qeq_bool (ax * by_ - ay * bx) 0) eqn:E; cbn [negb andb orb];
            [apply Qeq_bool_iff in E; rewrite (qltb_false 0 (ax * by_ - ay * bx)) by lra; reflexivity
            |rewrite orb_false_r; reflexivity]).
  all: apply Bool.eq_iff_eq_true; rewrite !qltb_t; split; intros; nra.
Qed.

Lemma radialLess_irrefl_lemma a : radialLess a a = false.
Proof.
  destruct a as [x y]. unfold radialLess, vcross, vlen2. cbn [fst snd].
  rewrite (Qeq_bool_true (x * y - y * x) 0) by ring. cbn [negb].
  rewrite (qltb_false (x * x + y * y) (x * x + y * y)) by lra.
  rewrite (qltb_false y y) by lra.
  destruct (Q_dec x 0) as [[Hx|Hx]|Hx]; qres; cbn [andb orb]; try reflexivity.
  destruct (Qle_bool 0 y || Qle_bool 0 y); reflexivity.
Qed.

(* inside one sector the order is transitive *)
Definition inner (a b : pt) : Prop := 0 < vcross a b \/ (vcross a b == 0 /\ vlen2 a < vlen2 b).
Lemma radial_spec_iff a b : radial_spec a b = true <->
  (sector a < sector b)%nat \/ (sector a = sector b /\ inner a b).
Proof.
  unfold radial_spec, inner. rewrite orb_true_iff, andb_true_iff, orb_true_iff, andb_true_iff.
  rewrite Nat.ltb_lt, Nat.eqb_eq, !qltb_t, Qeq_bool_iff. tauto.
Qed.

Lemma inner_trans a b c :
  pt_nonzero a = true -> pt_nonzero b = true -> pt_nonzero c = true ->
  sector a = sector b -> sector b = sector c -> inner a b -> inner b c -> inner a c.
Proof.
  intros Ha Hb Hc Sab Sbc.
  destruct (sector_cases a Ha) as [(Sa & A1 & A2)|[(Sa & A1)|[(Sa & A1 & A2)|(Sa & A1)]]];
  destruct (sector_cases b Hb) as [(Sb & B1 & B2)|[(Sb & B1)|[(Sb & B1 & B2)|(Sb & B1)]]]; try lia;
  destruct (sector_cases c Hc) as [(Sc & C1 & C2)|[(Sc & C1)|[(Sc & C1 & C2)|(Sc & C1)]]]; try lia;
  destruct a as [ax ay]; destruct b as [bx by_]; destruct c as [cx cy]; unfold inner, vcross, vlen2; cbn [fst snd] in *;
  assert (Hid : bx * (ax * cy - ay * cx) == cx * (ax * by_ - ay * bx) + ax * (bx * cy - by_ * cx)) by ring;
  intros [H1|(H1 & L1)] [H2|(H2 & L2)].
  all: try (left; nra).
  all: try (right; split; [nra|lra]).
Qed.

Lemma radialLess_trans_lemma a b c :
  pt_nonzero a = true -> pt_nonzero b = true -> pt_nonzero c = true ->
  radialLess a b = true -> radialLess b c = true -> radialLess a c = true.
Proof.
  intros Ha Hb Hc. rewrite !radialLess_char_lemma by assumption. rewrite !radial_spec_iff.
  intros [H1|(H1 & I1)] [H2|(H2 & I2)]; try (left; lia).
  right. split; [congruence|]. apply (inner_trans a b c); assumption.
Qed.

Lemma radialLess_total_lemma a b :
  pt_nonzero a = true -> pt_nonzero b = true -> pt_eqb a b = false ->
  radialLess a b = true \/ radialLess b a = true.
Proof.
  intros Ha Hb Hne. rewrite !radialLess_char_lemma by assumption. rewrite !radial_spec_iff.
  destruct (lt_eq_lt_dec (sector a) (sector b)) as [[H|H]|H]; [left; left; exact H| |right; left; exact H].
  assert (Hne' : ~ pt_eq a b) by (apply pt_eqb_false_iff; exact Hne).
  destruct (Q_dec (vcross a b) 0) as [[Hc|Hc]|Hc].
  - right. right. split; [congruence|]. left. unfold vcross in *. nra.
  - left. right. split; [exact H|]. left. exact Hc.
  - destruct (Q_dec (vlen2 a) (vlen2 b)) as [[Hl|Hl]|Hl].
    + left. right. split; [exact H|]. right. split; assumption.
    + right. right. split; [congruence|]. right. split; [unfold vcross in *; nra|exact Hl].
    + exfalso. apply Hne'. unfold pt_eq.
      destruct (sector_cases a Ha) as [(Sa & A1 & A2)|[(Sa & A1)|[(Sa & A1 & A2)|(Sa & A1)]]];
      destruct (sector_cases b Hb) as [(Sb & B1 & B2)|[(Sb & B1)|[(Sb & B1 & B2)|(Sb & B1)]]]; try lia;
      destruct a as [ax ay]; destruct b as [bx by_]; unfold vcross, vlen2 in *; cbn [fst snd] in *.
      * split; [lra|]. assert (E : (ay - by_) * (ay + by_) == 0) by nra.
        apply Qmult_integral in E as [E|E]; lra.
      * assert (Hp : ax * by_ == ay * bx) by lra.
        assert (Hp2 : (ax * by_) * (ax * by_) == (ay * bx) * (ay * bx)) by (rewrite Hp; reflexivity).
        assert (E0 : ax * ax * (ax * ax + ay * ay) == ax * ax * (bx * bx + by_ * by_)) by (rewrite Hl; reflexivity).
        assert (E1 : ax * ax * (bx * bx + by_ * by_) == bx * bx * (ax * ax + ay * ay)) by nra.
        assert (E2 : (ax - bx) * (ax + bx) * (ax * ax + ay * ay) == 0) by nra.
        assert (Hx : ax == bx).
        { apply Qmult_integral in E2 as [E2|E2]; [|nra]. apply Qmult_integral in E2 as [E2|E2]; lra. }
        split; [exact Hx|]. assert (E3 : ax * (by_ - ay) == 0) by nra.
        apply Qmult_integral in E3 as [E3|E3]; lra.
      * split; [lra|]. assert (E : (ay - by_) * (ay + by_) == 0) by nra.
        apply Qmult_integral in E as [E|E]; lra.
      * assert (Hp : ax * by_ == ay * bx) by lra.
        assert (Hp2 : (ax * by_) * (ax * by_) == (ay * bx) * (ay * bx)) by (rewrite Hp; reflexivity).
        assert (E0 : ax * ax * (ax * ax + ay * ay) == ax * ax * (bx * bx + by_ * by_)) by (rewrite Hl; reflexivity).
        assert (E1 : ax * ax * (bx * bx + by_ * by_) == bx * bx * (ax * ax + ay * ay)) by nra.
        assert (E2 : (ax - bx) * (ax + bx) * (ax * ax + ay * ay) == 0) by nra.
        assert (Hx : ax == bx).
        { apply Qmult_integral in E2 as [E2|E2]; [|nra]. apply Qmult_integral in E2 as [E2|E2]; lra. }
        split; [exact Hx|]. assert (E3 : ax * (by_ - ay) == 0) by nra.
        apply Qmult_integral in E3 as [E3|E3]; lra.
Qed.

Lemma radialLess_asym_lemma a b :
  pt_nonzero a = true -> pt_nonzero b = true -> radialLess a b = true -> radialLess b a = false.
Proof.
  intros Ha Hb H. destruct (radialLess b a) eqn:E; [|reflexivity].
  pose proof (radialLess_trans_lemma a b a Ha Hb Ha H E) as C. rewrite radialLess_irrefl_lemma in C. discriminate.
Qed.
End Radial.
Open Scope nat_scope.

(* ================================================================ sorting ======================= *)
Section Sorting.
  Variable less : nat -> nat -> bool.
  Definition lt_of (x y : nat) : Prop := less x y = true.

  Lemma insert_perm x l : Permutation (insert less x l) (x :: l).
  Proof.
    induction l as [|h t IH]; simpl; [apply Permutation_refl|].
    destruct (less x h); [apply Permutation_refl|].
    eapply Permutation_trans; [apply perm_skip; exact IH|apply perm_swap].
  Qed.
  Lemma isort_perm l : Permutation (isort less l) l.
  Proof.
    induction l as [|x r IH]; simpl; [constructor|].
    eapply Permutation_trans; [apply insert_perm|apply perm_skip; exact IH].
  Qed.

  (* the order hypotheses, on a domain D *)
  Variable D : nat -> Prop.
  Hypothesis Hirr : forall x, D x -> less x x = false.
  Hypothesis Htr : forall x y z, D x -> D y -> D z -> less x y = true -> less y z = true -> less x z = true.
  Hypothesis Htot : forall x y, D x -> D y -> x <> y -> less x y = true \/ less y x = true.

  Lemma insert_sorted x l :
    D x -> Forall D l -> ~ In x l -> StronglySorted lt_of l -> StronglySorted lt_of (insert less x l).
  Proof.
    intros Dx. induction l as [|h t IH]; intros HD Hni Hs; simpl.
    - constructor; constructor.
    - inversion HD as [|? ? Dh Dt]; subst. inversion Hs as [|? ? Hst Hh]; subst.
      destruct (less x h) eqn:E.
      + constructor; [exact Hs|]. constructor; [exact E|].
        rewrite Forall_forall in *. intros y Hy. apply (Htr x h y); auto. apply Hh; exact Hy.
      + constructor.
        * apply IH; auto. intros Hin. apply Hni. right. exact Hin.
        * rewrite Forall_forall in *. intros y Hy.
          apply (Permutation_in _ (insert_perm x t)) in Hy. destruct Hy as [<-|Hy]; [|apply Hh; exact Hy].
          destruct (Htot x h Dx Dh) as [H|H]; [intros ->; apply Hni; left; reflexivity|unfold lt_of; congruence|exact H].
  Qed.
  Lemma isort_sorted l : Forall D l -> NoDup l -> StronglySorted lt_of (isort less l).
  Proof.
    induction l as [|x r IH]; intros HD Hn; simpl; [constructor|].
    inversion HD; subst. inversion Hn; subst. apply insert_sorted; auto.
    - rewrite Forall_forall in *. intros y Hy. apply H2. apply (Permutation_in _ (isort_perm r)). exact Hy.
    - intros Hin. apply H3. apply (Permutation_in _ (isort_perm r)). exact Hin.
  Qed.
  (* sort.Slice is deterministic under the hypotheses: a sorted permutation is unique *)
  Lemma sorted_unique_lemma l1 : forall l2,
    Permutation l1 l2 -> Forall D l1 -> StronglySorted lt_of l1 -> StronglySorted lt_of l2 -> l1 = l2.
  Proof.
    induction l1 as [|a r1 IH]; intros l2 Hp HD H1 H2.
    - apply Permutation_nil in Hp. subst. reflexivity.
    - destruct l2 as [|b r2]; [apply Permutation_sym, Permutation_nil in Hp; discriminate|].
      inversion HD as [|? ? Da Dr]; subst.
      inversion H1 as [|? ? S1 F1]; subst. inversion H2 as [|? ? S2 F2]; subst.
      rewrite Forall_forall in F1, F2.
      assert (Db : D b).
      { rewrite Forall_forall in HD. apply HD. apply (Permutation_in _ (Permutation_sym Hp)). left. reflexivity. }
      assert (E : a = b).
      { assert (Ha : In a (b :: r2)) by (apply (Permutation_in _ Hp); left; reflexivity).
        assert (Hb : In b (a :: r1)) by (apply (Permutation_in _ (Permutation_sym Hp)); left; reflexivity).
        destruct Ha as [Ha|Ha]; [auto|]. destruct Hb as [Hb|Hb]; [auto|].
        pose proof (F2 a Ha) as L1. pose proof (F1 b Hb) as L2. unfold lt_of in *.
        pose proof (Htr a b a Da Db Da L2 L1) as C. rewrite Hirr in C by exact Da. discriminate. }
      subst b. f_equal. apply IH; auto. eapply Permutation_cons_inv; eauto.
  Qed.
End Sorting.

(* ================================================================ cyclic pairs ================== *)
Lemma rotl_perm {A} (l : list A) : Permutation (rotl l) l.
Proof. destruct l as [|h t]; simpl; [constructor|]. apply Permutation_sym, Permutation_cons_append. Qed.
Lemma rotl_length {A} (l : list A) : length (rotl l) = length l.
Proof. apply Permutation_length, rotl_perm. Qed.
Lemma combine_fst {A B} (l : list A) : forall (l' : list B), length l = length l' -> map fst (combine l l') = l.
Proof. induction l as [|x r IH]; intros [|y r'] H; simpl in *; try discriminate; [reflexivity|]. f_equal. apply IH. lia. Qed.
Lemma combine_snd {A B} (l : list A) : forall (l' : list B), length l = length l' -> map snd (combine l l') = l'.
Proof. induction l as [|x r IH]; intros [|y r'] H; simpl in *; try discriminate; [reflexivity|]. f_equal. apply IH. lia. Qed.
Lemma cyc_pairs_fst l : map fst (cyc_pairs l) = l.
Proof. apply combine_fst. symmetry. apply rotl_length. Qed.
Lemma cyc_pairs_snd l : map snd (cyc_pairs l) = rotl l.
Proof. apply combine_snd. symmetry. apply rotl_length. Qed.

(* (a, b) is a pair of the loop: b follows a in the list, or a is the last and b the first element *)
Lemma combine_tl_struct (h : nat) : forall l a b,
  In (a, b) (combine l (tl l ++ [h])) ->
  (exists l1 l2, l = l1 ++ a :: b :: l2) \/ (exists l1, l = l1 ++ [a] /\ b = h).
Proof.
  induction l as [|x r IH]; intros a b Hin; [destruct Hin|].
  destruct r as [|y r'].
  - simpl in Hin. destruct Hin as [E|[]]. inversion E; subst. right. exists []. auto.
  - cbn [tl app combine] in Hin. destruct Hin as [E|Hin].
    + inversion E; subst. left. exists [], r'. reflexivity.
    + destruct (IH a b Hin) as [(l1 & l2 & E)|(l1 & E & Eb)].
      * left. exists (x :: l1), l2. rewrite E. reflexivity.
      * right. exists (x :: l1). rewrite E. auto.
Qed.
Lemma cyc_pairs_struct l a b : In (a, b) (cyc_pairs l) ->
  (exists l1 l2, l = l1 ++ a :: b :: l2) \/ (exists l1 m, l = l1 ++ [a] /\ l = b :: m).
Proof.
  destruct l as [|h t]; [intros []|]. unfold cyc_pairs, rotl. intros Hin.
  destruct (combine_tl_struct h (h :: t) a b Hin) as [H|(l1 & E & ->)]; [left; exact H|].
  right. exists l1, t. auto.
Qed.
(* the Go indexing: the i-th pair is (incidents[i], incidents[(i+1) mod n]) *)
Lemma cyc_pairs_nth l i : i < length l ->
  nth i (cyc_pairs l) (0, 0) = (nth i l 0, nth ((i + 1) mod length l) l 0).
Proof.
  intros Hi. unfold cyc_pairs. rewrite combine_nth by (symmetry; apply rotl_length). f_equal.
  destruct l as [|h t]; [simpl in Hi; lia|]. cbn [rotl length] in *.
  destruct (Nat.eq_dec (i + 1) (S (length t))) as [E|E].
  - rewrite E, Nat.mod_same by lia. rewrite app_nth2 by lia. replace (i - length t) with 0 by lia. reflexivity.
  - rewrite Nat.mod_small by lia. rewrite app_nth1 by lia. replace (i + 1) with (S i) by lia. reflexivity.
Qed.

Lemma fst_unique (P : list (nat * nat)) a b b' : NoDup (map fst P) -> In (a, b) P -> In (a, b') P -> b = b'.
Proof.
  induction P as [|[x y] r IH]; intros Hn H1 H2; [destruct H1|]. simpl in Hn. inversion Hn as [|? ? Hx Hr]; subst.
  destruct H1 as [E1|H1]; destruct H2 as [E2|H2].
  - congruence.
  - inversion E1; subst. exfalso. apply Hx. apply in_map_iff. exists (a, b'). auto.
  - inversion E2; subst. exfalso. apply Hx. apply in_map_iff. exists (a, b). auto.
  - apply IH; auto.
Qed.
Lemma snd_unique (P : list (nat * nat)) a a' b : NoDup (map snd P) -> In (a, b) P -> In (a', b) P -> a = a'.
Proof.
  induction P as [|[x y] r IH]; intros Hn H1 H2; [destruct H1|]. simpl in Hn. inversion Hn as [|? ? Hx Hr]; subst.
  destruct H1 as [E1|H1]; destruct H2 as [E2|H2].
  - congruence.
  - inversion E1; subst. exfalso. apply Hx. apply in_map_iff. exists (a', b). auto.
  - inversion E2; subst. exfalso. apply Hx. apply in_map_iff. exists (a, b). auto.
  - apply IH; auto.
Qed.

(* a sequence of updates: when all updates of a key write the same value, that value is read back *)
Lemma fold_upd_other {A B} (key : B -> nat) (val : B -> A) (P : list B) : forall f0 k,
  (forall q, In q P -> key q <> k) -> fold_left (fun f q => upd f (key q) (val q)) P f0 k = f0 k.
Proof.
  induction P as [|q r IH]; intros f0 k H; simpl; [reflexivity|].
  rewrite IH by (intros q' Hq'; apply H; right; exact Hq'). unfold upd.
  destruct (Nat.eqb k (key q)) eqn:E; [|reflexivity]. apply Nat.eqb_eq in E. exfalso. apply (H q); [left; reflexivity|auto].
Qed.
Lemma fold_upd_lookup {A B} (key : B -> nat) (val : B -> A) (P : list B) f0 p :
  In p P -> (forall q, In q P -> key q = key p -> val q = val p) ->
  fold_left (fun f q => upd f (key q) (val q)) P f0 (key p) = val p.
Proof.
  revert f0. induction P as [|q r IH] using rev_ind; intros f0 Hin Hf; [destruct Hin|].
  rewrite fold_left_app. simpl. unfold upd at 1.
  destruct (Nat.eqb (key p) (key q)) eqn:E.
  - apply Nat.eqb_eq in E. apply Hf; [apply in_or_app; right; left; reflexivity|auto].
  - apply Nat.eqb_neq in E. apply IH.
    + apply in_app_or in Hin as [Hin|[->|[]]]; [exact Hin|congruence].
    + intros q' Hq'. apply Hf. apply in_or_app. left. exact Hq'.
Qed.
Lemma fold_flat_map {A B C} (f : A -> B -> A) (g : C -> list B) (l : list C) : forall s,
  fold_left (fun s v => fold_left f (g v) s) l s = fold_left f (flat_map g l) s.
Proof. induction l as [|v r IH]; intros s; simpl; [reflexivity|]. rewrite fold_left_app. apply IH. Qed.

(* ================================================================ (b) fixVertices ============== *)
Lemma l_next_fold pc P : forall s,
  l_next (fold_left (link_step pc) P s) = fold_left (fun f q => upd f (p_twin pc (snd q)) (fst q)) P (l_next s).
Proof. induction P as [|q r IH]; intros s; simpl; [reflexivity|]. rewrite IH. reflexivity. Qed.
Lemma l_prev_fold pc P : forall s,
  l_prev (fold_left (link_step pc) P s) = fold_left (fun f q => upd f (fst q) (p_twin pc (snd q))) P (l_prev s).
Proof. induction P as [|q r IH]; intros s; simpl; [reflexivity|]. rewrite IH. reflexivity. Qed.

Section FixVertices.
  Variable pc : precomplex.
  Hypothesis Hwf : pre_wf pc = true.

  Lemma wf_at i : i < pnE pc ->
    p_origin pc i < pnV pc /\ p_twin pc i < pnE pc /\ p_twin pc (p_twin pc i) = i /\ p_twin pc i <> i.
  Proof.
    intros Hi. unfold pre_wf in Hwf. rewrite forallb_forall in Hwf.
    specialize (Hwf i). rewrite in_seq in Hwf. specialize (Hwf ltac:(lia)).
    rewrite !andb_true_iff, !Nat.ltb_lt, Nat.eqb_eq, negb_true_iff, Nat.eqb_neq in Hwf. tauto.
  Qed.
  Lemma twin_inj i j : i < pnE pc -> j < pnE pc -> p_twin pc i = p_twin pc j -> i = j.
  Proof.
    intros Hi Hj E. destruct (wf_at i Hi) as (_ & _ & Ei & _). destruct (wf_at j Hj) as (_ & _ & Ej & _).
    rewrite <- Ei, <- Ej, E. reflexivity.
  Qed.

  Lemma incidents_in v e : In e (incidents pc v) <-> e < pnE pc /\ p_origin pc e = v.
  Proof. unfold incidents. rewrite filter_In, in_seq, Nat.eqb_eq. lia. Qed.
  Lemma incidents_nodup v : NoDup (incidents pc v).
  Proof. apply NoDup_filter, seq_NoDup. Qed.
  Lemma sorted_incidents_perm v : Permutation (sorted_incidents pc v) (incidents pc v).
  Proof. unfold sorted_incidents. destruct (Nat.leb _ 2); [apply Permutation_refl|apply isort_perm]. Qed.
  Lemma sorted_in v e : In e (sorted_incidents pc v) <-> e < pnE pc /\ p_origin pc e = v.
  Proof.
    rewrite <- incidents_in. split; apply Permutation_in; [|apply Permutation_sym]; apply sorted_incidents_perm.
  Qed.
  Lemma sorted_nodup v : NoDup (sorted_incidents pc v).
  Proof. eapply Permutation_NoDup; [apply Permutation_sym, sorted_incidents_perm|apply incidents_nodup]. Qed.

  Definition all_pairs : list (nat * nat) :=
    flat_map (fun v => cyc_pairs (sorted_incidents pc v)) (seq 0 (pnV pc)).
  Lemma fixVertices_flat : fixVertices pc = fold_left (link_step pc) all_pairs (init_links pc).
  Proof. unfold fixVertices, fixVertex, all_pairs. apply fold_flat_map. Qed.
  Lemma all_pairs_in a b :
    In (a, b) all_pairs <-> exists v, v < pnV pc /\ In (a, b) (cyc_pairs (sorted_incidents pc v)).
  Proof.
    unfold all_pairs. rewrite in_flat_map. split; intros (v & Hv & Hin); exists v; rewrite in_seq in *; (split; [lia|exact Hin]).
  Qed.
  Lemma pair_members v a b : In (a, b) (cyc_pairs (sorted_incidents pc v)) ->
    (a < pnE pc /\ p_origin pc a = v) /\ (b < pnE pc /\ p_origin pc b = v).
  Proof.
    intros Hin. split; apply sorted_in.
    - eapply in_combine_l; exact Hin.
    - apply (Permutation_in _ (rotl_perm _)). eapply in_combine_r; exact Hin.
  Qed.
  Lemma pairs_fun_fst a b b' : In (a, b) all_pairs -> In (a, b') all_pairs -> b = b'.
  Proof.
    rewrite !all_pairs_in. intros (v & Hv & H1) (w & Hw & H2).
    destruct (pair_members _ _ _ H1) as ((_ & E1) & _). destruct (pair_members _ _ _ H2) as ((_ & E2) & _).
    subst v. subst w.
    eapply fst_unique; [|exact H1|exact H2]. rewrite cyc_pairs_fst. apply sorted_nodup.
  Qed.
  Lemma pairs_fun_snd a a' b : In (a, b) all_pairs -> In (a', b) all_pairs -> a = a'.
  Proof.
    rewrite !all_pairs_in. intros (v & Hv & H1) (w & Hw & H2).
    destruct (pair_members _ _ _ H1) as (_ & (_ & E1)). destruct (pair_members _ _ _ H2) as (_ & (_ & E2)).
    subst v. subst w.
    eapply snd_unique; [|exact H1|exact H2]. rewrite cyc_pairs_snd.
    eapply Permutation_NoDup; [apply Permutation_sym, rotl_perm|apply sorted_nodup].
  Qed.
  Lemma pairs_ex_fst e : e < pnE pc -> exists b, In (e, b) all_pairs.
  Proof.
    intros He. destruct (wf_at e He) as (Ho & _).
    assert (Hin : In e (map fst (cyc_pairs (sorted_incidents pc (p_origin pc e))))).
    { rewrite cyc_pairs_fst. apply sorted_in. auto. }
    apply in_map_iff in Hin as ([a b] & E & Hin). simpl in E. subst a.
    exists b. apply all_pairs_in. exists (p_origin pc e). auto.
  Qed.
  Lemma pairs_ex_snd e : e < pnE pc -> exists a, In (a, e) all_pairs.
  Proof.
    intros He. destruct (wf_at e He) as (Ho & _).
    assert (Hin : In e (map snd (cyc_pairs (sorted_incidents pc (p_origin pc e))))).
    { rewrite cyc_pairs_snd. apply (Permutation_in _ (Permutation_sym (rotl_perm _))). apply sorted_in. auto. }
    apply in_map_iff in Hin as ([a b] & E & Hin). simpl in E. subst b.
    exists a. apply all_pairs_in. exists (p_origin pc e). auto.
  Qed.
  Lemma pairs_range a b : In (a, b) all_pairs -> a < pnE pc /\ b < pnE pc /\ p_origin pc a = p_origin pc b.
  Proof.
    rewrite all_pairs_in. intros (v & Hv & H). destruct (pair_members _ _ _ H) as ((A1 & A2) & (B1 & B2)).
    repeat split; auto. congruence.
  Qed.

  (* the state fixVertices leaves: for every pair (ei, ej) of the loops, ei.prev = ej.twin and ej.twin.next = ei *)
  Lemma final_links a b : In (a, b) all_pairs ->
    l_prev (fixVertices pc) a = p_twin pc b /\ l_next (fixVertices pc) (p_twin pc b) = a.
  Proof.
    intros Hin. rewrite fixVertices_flat, l_prev_fold, l_next_fold. split.
    - apply (fold_upd_lookup (fun q : nat * nat => fst q) (fun q => p_twin pc (snd q)) all_pairs _ (a, b) Hin).
      intros [a' b'] Hq E. simpl in *. subst a'. f_equal. eapply pairs_fun_fst; eauto.
    - apply (fold_upd_lookup (fun q : nat * nat => p_twin pc (snd q)) (fun q => fst q) all_pairs _ (a, b) Hin).
      intros [a' b'] Hq E. simpl in *.
      destruct (pairs_range _ _ Hin) as (_ & Hb & _). destruct (pairs_range _ _ Hq) as (_ & Hb' & _).
      apply twin_inj in E; auto. subst b'. eapply pairs_fun_snd; eauto.
  Qed.

  Let nx := l_next (fixVertices pc).
  Let pv := l_prev (fixVertices pc).

  Lemma fix_range e : e < pnE pc -> nx e < pnE pc /\ pv e < pnE pc.
  Proof.
    intros He. split.
    - destruct (wf_at e He) as (_ & Ht & Ett & _). destruct (pairs_ex_snd _ Ht) as (a & Hin).
      destruct (final_links _ _ Hin) as (_ & E). rewrite Ett in E. unfold nx. rewrite E. apply (pairs_range _ _ Hin).
    - destruct (pairs_ex_fst _ He) as (b & Hin). destruct (final_links _ _ Hin) as (E & _). unfold pv. rewrite E.
      destruct (pairs_range _ _ Hin) as (_ & Hb & _). apply (wf_at b Hb).
  Qed.
  Lemma fix_next_prev e : e < pnE pc -> nx (pv e) = e.
  Proof.
    intros He. destruct (pairs_ex_fst _ He) as (b & Hin). destruct (final_links _ _ Hin) as (E1 & E2).
    unfold nx, pv. rewrite E1. exact E2.
  Qed.
  Lemma fix_prev_next e : e < pnE pc -> pv (nx e) = e.
  Proof.
    intros He. destruct (wf_at e He) as (_ & Ht & Ett & _). destruct (pairs_ex_snd _ Ht) as (a & Hin).
    destruct (final_links _ _ Hin) as (E1 & E2). rewrite Ett in E2. unfold nx, pv. rewrite E2, E1. exact Ett.
  Qed.
  Lemma fix_next_origin e : e < pnE pc -> p_origin pc (nx e) = p_origin pc (p_twin pc e).
  Proof.
    intros He. destruct (wf_at e He) as (_ & Ht & Ett & _). destruct (pairs_ex_snd _ Ht) as (a & Hin).
    destruct (final_links _ _ Hin) as (_ & E2). rewrite Ett in E2. unfold nx. rewrite E2. apply (pairs_range _ _ Hin).
  Qed.
  Lemma fix_next_inj e e' : e < pnE pc -> e' < pnE pc -> nx e = nx e' -> e = e'.
  Proof. intros He He' E. rewrite <- (fix_prev_next e He), <- (fix_prev_next e' He'), E. reflexivity. Qed.
  (* (next e, twin e) is a pair of the loop at the end vertex of e *)
  Lemma next_twin_pair e : e < pnE pc -> In (nx e, p_twin pc e) (cyc_pairs (sorted_incidents pc (p_origin pc (p_twin pc e)))).
  Proof.
    intros He. destruct (wf_at e He) as (_ & Ht & Ett & _). destruct (pairs_ex_snd _ Ht) as (a & Hin).
    destruct (final_links _ _ Hin) as (_ & E2). rewrite Ett in E2. unfold nx. rewrite E2.
    apply all_pairs_in in Hin as (v & Hv & Hin). destruct (pair_members _ _ _ Hin) as (_ & (_ & <-)). exact Hin.
  Qed.
End FixVertices.

(* ---------------------------------------------------------------- the radial neighbour *)
Lemma three_in (l : list nat) a b c :
  In a l -> In b l -> In c l -> a <> b -> a <> c -> b <> c -> 3 <= length l.
Proof.
  intros Ha Hb Hc Hab Hac Hbc.
  assert (Hn : NoDup [a; b; c]).
  { constructor; [simpl; intuition congruence|]. constructor; [simpl; intuition congruence|]. constructor; [simpl; tauto|constructor]. }
  apply (NoDup_incl_length Hn). intros x [<-|[<-|[<-|[]]]]; assumption.
Qed.
Lemma ssorted_mid (R : nat -> nat -> Prop) l1 y l2 :
  StronglySorted R (l1 ++ y :: l2) -> (forall z, In z l1 -> R z y) /\ (forall z, In z l2 -> R y z).
Proof.
  induction l1 as [|h t IH]; simpl; intros H.
  - inversion H as [|? ? _ F]; subst. rewrite Forall_forall in F. split; [intros z []|exact F].
  - inversion H as [|? ? S F]; subst. destruct (IH S) as (A & B). rewrite Forall_forall in F. split; [|exact B].
    intros z [<-|Hz]; [apply F; apply in_or_app; right; left; reflexivity|apply A; exact Hz].
Qed.

Section Radial2.
  Variable pc : precomplex.
  Hypothesis Hwf : pre_wf pc = true.
  Hypothesis Hdirs : pre_dirs_ok pc = true.

  Lemma dirs_at i : i < pnE pc ->
    pt_nonzero (p_dir pc i) = true /\
    (forall j, j < pnE pc -> i <> j -> p_origin pc i = p_origin pc j -> pt_eqb (p_dir pc i) (p_dir pc j) = false).
  Proof.
    intros Hi. unfold pre_dirs_ok in Hdirs. rewrite forallb_forall in Hdirs.
    specialize (Hdirs i). rewrite in_seq in Hdirs. specialize (Hdirs ltac:(lia)).
    rewrite !andb_true_iff in Hdirs. destruct Hdirs as ((H1 & _) & H3). split; [exact H1|].
    intros j Hj Hne Ho. rewrite forallb_forall in H3. specialize (H3 j). rewrite in_seq in H3. specialize (H3 ltac:(lia)).
    apply Nat.eqb_neq in Hne. rewrite Hne in H3. apply Nat.eqb_eq in Ho. rewrite Ho in H3. simpl in H3.
    apply negb_true_iff in H3. exact H3.
  Qed.
  Lemma edge_less_irrefl i : edge_less pc i i = false.
  Proof. apply radialLess_irrefl_lemma. Qed.
  Lemma edge_less_trans i j k : i < pnE pc -> j < pnE pc -> k < pnE pc ->
    edge_less pc i j = true -> edge_less pc j k = true -> edge_less pc i k = true.
  Proof. intros Hi Hj Hk. apply radialLess_trans_lemma; apply dirs_at; assumption. Qed.
  Lemma edge_less_asym i j : i < pnE pc -> j < pnE pc -> edge_less pc i j = true -> edge_less pc j i = false.
  Proof. intros Hi Hj. apply radialLess_asym_lemma; apply dirs_at; assumption. Qed.
  Lemma edge_less_total i j : i < pnE pc -> j < pnE pc -> i <> j -> p_origin pc i = p_origin pc j ->
    edge_less pc i j = true \/ edge_less pc j i = true.
  Proof.
    intros Hi Hj Hne Ho. apply radialLess_total_lemma; try (apply dirs_at; assumption).
  Qed.

  (* the sorted incident list of a vertex of degree >= 3 is strictly increasing for radialLess *)
  Lemma sorted_incidents_sorted v : 3 <= length (sorted_incidents pc v) ->
    StronglySorted (lt_of (edge_less pc)) (sorted_incidents pc v).
  Proof.
    intros Hlen. unfold sorted_incidents in *. destruct (Nat.leb (length (incidents pc v)) 2) eqn:E.
    - apply Nat.leb_le in E. lia.
    - apply (isort_sorted (edge_less pc) (fun i => i < pnE pc /\ p_origin pc i = v)).
      + intros x y z (Hx & _) (Hy & _) (Hz & _). apply edge_less_trans; assumption.
      + intros x y (Hx & Ox) (Hy & Oy) Hne. apply edge_less_total; auto. congruence.
      + rewrite Forall_forall. intros x Hx. apply incidents_in in Hx. exact Hx.
      + apply incidents_nodup.
  Qed.

  Lemma fix_next_radial_lemma e z :
    e < pnE pc -> z < pnE pc -> p_origin pc z = p_origin pc (p_twin pc e) ->
    z <> l_next (fixVertices pc) e -> z <> p_twin pc e ->
    ccw_between (edge_less pc) (l_next (fixVertices pc) e) z (p_twin pc e) = false.
  Proof.
    intros He Hz Hoz Hza Hzx.
    set (a := l_next (fixVertices pc) e) in *. set (x := p_twin pc e) in *. set (v := p_origin pc x) in *.
    pose proof (next_twin_pair pc Hwf e He) as Hp. fold a x v in Hp.
    destruct (pair_members pc v a x Hp) as ((Ha & Oa) & (Hx & Ox)).
    assert (Ia : In a (sorted_incidents pc v)) by (apply sorted_in; auto).
    assert (Ix : In x (sorted_incidents pc v)) by (apply sorted_in; auto).
    assert (Iz : In z (sorted_incidents pc v)) by (apply sorted_in; auto).
    unfold ccw_between.
    destruct (Nat.eq_dec a x) as [Eax|Nax].
    - rewrite Eax. rewrite edge_less_irrefl, !andb_false_r, andb_false_l, orb_false_r.
      destruct (edge_less pc x z) eqn:E1; [|reflexivity]. rewrite (edge_less_asym x z Hx Hz E1). reflexivity.
    - assert (Hlen : 3 <= length (sorted_incidents pc v)) by (apply (three_in _ a x z); auto).
      pose proof (sorted_incidents_sorted v Hlen) as Hs.
      pose proof (sorted_nodup pc v) as Hnd.
      destruct (cyc_pairs_struct _ _ _ Hp) as [(l1 & l2 & EL)|(l1 & m & EL1 & EL2)].
      + rewrite EL in Hs, Iz.
        destruct (ssorted_mid _ _ _ _ Hs) as (A1 & A2).
        assert (Hax : edge_less pc a x = true) by (apply A2; left; reflexivity).
        replace (l1 ++ a :: x :: l2) with ((l1 ++ [a]) ++ x :: l2) in Hs by (rewrite <- app_assoc; reflexivity).
        destruct (ssorted_mid _ _ _ _ Hs) as (B1 & B2).
        rewrite (edge_less_asym a x Ha Hx Hax), !andb_false_r, andb_false_l, orb_false_r.
        apply in_app_or in Iz as [Iz|[Iz|[Iz|Iz]]]; try congruence.
        * rewrite (edge_less_asym z a Hz Ha (A1 z Iz)). reflexivity.
        * rewrite (edge_less_asym x z Hx Hz (B2 z Iz)). rewrite ?andb_false_r, ?andb_false_l, ?orb_false_r; reflexivity.
      + assert (Iz1 : In z l1).
        { rewrite EL1 in Iz. apply in_app_or in Iz as [Iz|[Iz|[]]]; [exact Iz|congruence]. }
        assert (Izm : In z m).
        { rewrite EL2 in Iz. destruct Iz as [Iz|Iz]; [congruence|exact Iz]. }
        assert (Hza' : edge_less pc z a = true).
        { rewrite EL1 in Hs. apply (proj1 (ssorted_mid _ _ _ _ Hs)). exact Iz1. }
        assert (Hxz : edge_less pc x z = true).
        { rewrite EL2 in Hs. inversion Hs as [|? ? _ F]; subst. rewrite Forall_forall in F. apply F. exact Izm. }
        rewrite (edge_less_asym z a Hz Ha Hza'), (edge_less_asym x z Hx Hz Hxz).
        rewrite andb_false_l, andb_false_r, andb_false_l. reflexivity.
  Qed.

  (* degree one: the next of e is its own twin exactly when e ends in a vertex of degree one *)
  Lemma fix_next_twin_degree1 e : e < pnE pc ->
    (l_next (fixVertices pc) e = p_twin pc e <->
     forall z, z < pnE pc -> p_origin pc z = p_origin pc (p_twin pc e) -> z = p_twin pc e).
  Proof.
    intros He.
    set (a := l_next (fixVertices pc) e) in *. set (x := p_twin pc e) in *. set (v := p_origin pc x) in *.
    pose proof (next_twin_pair pc Hwf e He) as Hp. fold a x v in Hp.
    pose proof (sorted_nodup pc v) as Hnd.
    destruct (pair_members pc v a x Hp) as ((Ha & Oa) & (Hx & Ox)).
    split.
    - intros Eax z Hz Oz. assert (Iz : In z (sorted_incidents pc v)) by (apply sorted_in; auto).
      rewrite Eax in Hp.
      destruct (cyc_pairs_struct _ _ _ Hp) as [(l1 & l2 & EL)|(l1 & m & EL1 & EL2)].
      + exfalso. rewrite EL in Hnd. apply NoDup_remove_2 in Hnd. apply Hnd. apply in_or_app. right. left. reflexivity.
      + destruct l1 as [|h t].
        * rewrite EL1 in Iz. destruct Iz as [Iz|[]]. auto.
        * exfalso. rewrite EL1 in EL2. simpl in EL2. inversion EL2; subst h.
          rewrite EL1 in Hnd. simpl in Hnd. inversion Hnd as [|? ? Hni _]; subst. apply Hni. apply in_or_app. right. left. reflexivity.
    - intros Hall. apply Hall; auto.
  Qed.
  (* sort.Slice is deterministic here: every sorted permutation of the incident edges is the model's list *)
  Lemma sort_deterministic_lemma v l :
    Permutation l (incidents pc v) -> StronglySorted (lt_of (edge_less pc)) l ->
    l = isort (edge_less pc) (incidents pc v).
  Proof.
    intros Hp Hs.
    assert (HD : Forall (fun i => i < pnE pc /\ p_origin pc i = v) (incidents pc v)).
    { rewrite Forall_forall. intros x Hx. apply incidents_in in Hx. exact Hx. }
    apply (sorted_unique_lemma (edge_less pc) (fun i => i < pnE pc /\ p_origin pc i = v)).
    - intros x _. apply edge_less_irrefl.
    - intros x y z (Hx & _) (Hy & _) (Hz & _). apply edge_less_trans; assumption.
    - eapply Permutation_trans; [exact Hp|apply Permutation_sym, isort_perm].
    - rewrite Forall_forall in *. intros x Hx. apply HD. apply (Permutation_in _ Hp). exact Hx.
    - exact Hs.
    - apply (isort_sorted (edge_less pc) (fun i => i < pnE pc /\ p_origin pc i = v)).
      + intros x y z (Hx & _) (Hy & _) (Hz & _). apply edge_less_trans; assumption.
      + intros x y (Hx & Ox) (Hy & Oy) Hne. apply edge_less_total; auto. congruence.
      + exact HD.
      + apply incidents_nodup.
  Qed.
End Radial2.

(* ================================================================ (c) assignFaces: cycles ====== *)
Lemma iter_add {A} (f : A -> A) a b x : Nat.iter (a + b) f x = Nat.iter a f (Nat.iter b f x).
Proof. induction a as [|a IH]; simpl; [reflexivity|]. rewrite IH. reflexivity. Qed.
Lemma iter_comm1 {A} (f : A -> A) k x : Nat.iter k f (f x) = f (Nat.iter k f x).
Proof. induction k as [|k IH]; simpl; [reflexivity|]. rewrite IH. reflexivity. Qed.
Lemma nodup_app_disj {A} (l1 l2 : list A) x : NoDup (l1 ++ l2) -> In x l1 -> In x l2 -> False.
Proof.
  induction l1 as [|h t IH]; simpl; intros Hn H1 H2; [destruct H1|]. inversion Hn as [|? ? Hh Ht]; subst.
  destruct H1 as [->|H1]; [apply Hh; apply in_or_app; right; exact H2|apply IH; auto].
Qed.
Lemma nodup_app_r {A} (l1 l2 : list A) : NoDup (l1 ++ l2) -> NoDup l2.
Proof. induction l1 as [|h t IH]; simpl; intros H; [exact H|]. inversion H; subst. apply IH. assumption. Qed.
Lemma concat_nodup_index {A} (ls : list (list A)) : forall j j' r r' e,
  NoDup (concat ls) -> nth_error ls j = Some r -> nth_error ls j' = Some r' -> In e r -> In e r' -> j = j'.
Proof.
  induction ls as [|r0 rest IH]; intros j j' r r' e Hn H1 H2 I1 I2; [destruct j; discriminate|].
  simpl in Hn. destruct j as [|j]; destruct j' as [|j']; simpl in H1, H2.
  - reflexivity.
  - inversion H1; subst. exfalso. apply (nodup_app_disj _ _ e Hn I1).
    apply in_concat. exists r'. split; [eapply nth_error_In; eauto|exact I2].
  - inversion H2; subst. exfalso. apply (nodup_app_disj _ _ e Hn I2).
    apply in_concat. exists r. split; [eapply nth_error_In; eauto|exact I1].
  - f_equal. apply (IH j j' r r' e); auto. eapply nodup_app_r; eauto.
Qed.

Section Cycles.
  Variable nx : nat -> nat.
  Variable n : nat.
  Hypothesis Hrange : forall e, e < n -> nx e < n.
  Hypothesis Hinj : forall e e', e < n -> e' < n -> nx e = nx e' -> e = e'.
  Let f := nsucc nx.

  (* the walk so far, newest first *)
  Inductive rpath (s : nat) : list nat -> Prop :=
  | rp_one : rpath s [s]
  | rp_cons x y l : rpath s (y :: l) -> x = nx y -> rpath s (x :: y :: l).
  Lemma rpath_pred s l : rpath s l -> forall y, In y l -> y <> s -> exists y', In y' (tl l) /\ y = nx y'.
  Proof.
    induction 1 as [|x y0 l Hp IH Ex]; intros y Hy Hne.
    - destruct Hy as [<-|[]]. congruence.
    - destruct Hy as [<-|Hy].
      + exists y0. split; [left; reflexivity|exact Ex].
      + destruct (IH y Hy Hne) as (y' & Hin & E). exists y'. split; [right; exact Hin|exact E].
  Qed.
  (* forEachEdgeInCycle terminates within n steps on a permutation of [0, n) *)
  Lemma walk_total s : forall fuel cur rest,
    rpath s (cur :: rest) -> NoDup (cur :: rest) -> (forall x, In x (cur :: rest) -> x < n) ->
    n <= fuel + length rest -> exists l, walk f s cur fuel = Some l.
  Proof.
    induction fuel as [|k IH]; intros cur rest Hp Hn Hlt Hf.
    - exfalso. assert (Hl : length (cur :: rest) <= length (seq 0 n)).
      { apply NoDup_incl_length; [exact Hn|]. intros x Hx. apply in_seq. specialize (Hlt x Hx). lia. }
      rewrite seq_length in Hl. simpl in Hl. lia.
    - simpl. change (f cur) with (Some (nx cur)). cbv beta iota. destruct (Nat.eqb (nx cur) s) eqn:E; [eexists; reflexivity|].
      apply Nat.eqb_neq in E.
      destruct (IH (nx cur) (cur :: rest)) as (l & Hl).
      + constructor; [exact Hp|reflexivity].
      + constructor; [|exact Hn]. intros Hin.
        destruct (rpath_pred s _ Hp (nx cur) Hin E) as (y' & Hy' & Ey). simpl in Hy'.
        assert (cur = y').
        { apply Hinj; [apply Hlt; left; reflexivity|apply Hlt; right; exact Hy'|exact Ey]. }
        subst y'. inversion Hn; subst. contradiction.
      + intros x [<-|Hx]; [apply Hrange; apply Hlt; left; reflexivity|apply Hlt; exact Hx].
      + simpl. lia.
      + rewrite Hl. eexists; reflexivity.
  Qed.
  Lemma cycle_total s : s < n -> exists l, walk f s s n = Some l.
  Proof.
    intros Hs. apply (walk_total s n s []).
    - constructor.
    - constructor; [intros []|constructor].
    - intros x [<-|[]]. exact Hs.
    - simpl. lia.
  Qed.
  Lemma collect_total : forall cands seen, (forall x, In x cands -> x < n) -> exists rings, collect f cands seen n = Some rings.
  Proof.
    induction cands as [|x r IH]; intros seen Hc; simpl; [eexists; reflexivity|].
    destruct (memb x seen).
    - apply IH. intros y Hy. apply Hc. right. exact Hy.
    - destruct (cycle_total x (Hc x (or_introl eq_refl))) as (ring & Hr). rewrite Hr.
      destruct (IH (ring ++ seen)) as (rs & Hrs); [intros y Hy; apply Hc; right; exact Hy|]. rewrite Hrs. eexists; reflexivity.
  Qed.
  Lemma find_cycles_total : exists cycles, find_cycles nx n = Some cycles.
  Proof. apply collect_total. intros x Hx. apply in_seq in Hx. lia. Qed.

  (* elements of a walk are iterates of its start; its end is an iterate too *)
  Lemma chain_iter s x l : chain f s x l -> forall z, In z l -> exists k, Nat.iter k nx x = z.
  Proof.
    induction 1 as [x Hx|x y l Hx Hy Hc IH]; intros z Hz.
    - destruct Hz as [<-|[]]. exists 0. reflexivity.
    - destruct Hz as [<-|Hz]; [exists 0; reflexivity|]. destruct (IH z Hz) as (k & Hk).
      exists (S k). simpl. rewrite <- iter_comm1. unfold f, nsucc in Hx. injection Hx as Ey. rewrite Ey. exact Hk.
  Qed.
  Lemma chain_end s x l : chain f s x l -> exists k, Nat.iter k nx x = s.
  Proof.
    induction 1 as [x Hx|x y l Hx Hy Hc IH].
    - exists 1. simpl. unfold f, nsucc in Hx. inversion Hx. reflexivity.
    - destruct IH as (k & Hk). exists (S k). simpl. rewrite <- iter_comm1. unfold f, nsucc in Hx. injection Hx as Ey. rewrite Ey. exact Hk.
  Qed.
  Lemma chain_lt s x l : x < n -> chain f s x l -> forall z, In z l -> z < n.
  Proof.
    intros Hx Hc z Hz. destruct (chain_iter _ _ _ Hc z Hz) as (k & <-). clear Hz Hc.
    induction k as [|k IH]; simpl; [exact Hx|apply Hrange; exact IH].
  Qed.
  Lemma cycle_iter_in s l : chain f s s l -> forall z k, In z l -> In (Nat.iter k nx z) l.
  Proof.
    intros Hc z k Hz. induction k as [|k IH]; simpl; [exact Hz|].
    destruct (cycle_closed f s l Hc _ IH) as (y & Hy & Hin). unfold f, nsucc in Hy. inversion Hy; subst. exact Hin.
  Qed.
  Lemma cycle_connected s l : chain f s s l -> forall e e', In e l -> In e' l -> exists k, Nat.iter k nx e = e'.
  Proof.
    intros Hc e e' He He'.
    destruct (chain_iter _ _ _ Hc e' He') as (b & Hb).
    apply In_nth_error in He as (i & Hi).
    destruct (chain_end _ _ _ (chain_suffix f s s l Hc i e Hi)) as (c & Hcc).
    exists (b + c). rewrite iter_add, Hcc. exact Hb.
  Qed.

  (* what the cycle search returns *)
  Lemma find_cycles_spec cycles : find_cycles nx n = Some cycles ->
    (forall ring, In ring cycles -> exists s, chain f s s ring /\ s < n) /\
    (forall x, x < n -> exists ring, In ring cycles /\ In x ring) /\
    NoDup (concat cycles).
  Proof.
    intros H. destruct (collect_spec f n (seq 0 n) [] cycles H) as (A & B & C & _); [intros x y []|].
    repeat split.
    - intros ring Hr. destruct (A ring Hr) as (s & Hc & Hs). exists s. split; [exact Hc|]. apply in_seq in Hs. lia.
    - intros x Hx. destruct (B x) as [[]|Hr]; [apply in_seq; lia|exact Hr].
    - exact C.
  Qed.

End Cycles.

(* e.incident = f for the half edges of the cycle of f *)
Lemma assign_inner j r : forall g0 : nat -> nat,
  fold_left (fun inc e => upd inc e j) r g0 =
  fold_left (fun g (q : nat * nat) => upd g (fst q) (snd q)) (map (fun e => (e, j)) r) g0.
Proof. induction r as [|e t IH]; intros g0; simpl; [reflexivity|]. apply IH. Qed.
Lemma assign_flat_gen (L : list (nat * list nat)) : forall g0 : nat -> nat,
  fold_left (fun inc (jc : nat * list nat) => fold_left (fun inc e => upd inc e (fst jc)) (snd jc) inc) L g0 =
  fold_left (fun g (q : nat * nat) => upd g (fst q) (snd q))
            (flat_map (fun jc : nat * list nat => map (fun e => (e, fst jc)) (snd jc)) L) g0.
Proof.
  induction L as [|jc t IH]; intros g0; simpl; [reflexivity|]. rewrite fold_left_app, IH, assign_inner. reflexivity.
Qed.
Lemma assign_incident_at cycles j r e :
  NoDup (concat cycles) -> nth_error cycles j = Some r -> In e r -> assign_incident cycles e = j.
Proof.
  intros Hn Hj He. unfold assign_incident. rewrite assign_flat_gen.
  apply (fold_upd_lookup (fun q : nat * nat => fst q) (fun q => snd q) _ _ (e, j)).
  - apply in_flat_map. exists (j, r). split.
    + apply in_indexed_from. rewrite Nat.sub_0_r. split; [lia|exact Hj].
    + apply in_map_iff. exists e. auto.
  - intros [e' j'] Hq E. simpl in *. subst e'.
    apply in_flat_map in Hq as ([j2 r2] & Hix & Hin). apply in_map_iff in Hin as (e2 & E2 & Hin). simpl in *.
    inversion E2; subst. apply in_indexed_from in Hix as (_ & Hix). rewrite Nat.sub_0_r in Hix.
    apply (concat_nodup_index cycles j' j r2 r e); auto.
Qed.

Section Faces.
  Variable pc : precomplex.
  Hypothesis Hwf : pre_wf pc = true.
  Let nx := l_next (fixVertices pc).
  Let n := pnE pc.
  Let Hrange : forall e, e < n -> nx e < n := fun e He => proj1 (fix_range pc Hwf e He).
  Let Hinj : forall e e', e < n -> e' < n -> nx e = nx e' -> e = e' := fix_next_inj pc Hwf.

  Lemma assignFaces_total : exists fo, assignFaces pc nx = Some fo.
  Proof.
    unfold assignFaces. destruct (find_cycles_total nx n Hrange Hinj) as (cycles & Hc). fold n. rewrite Hc. eexists; reflexivity.
  Qed.
  Lemma assignFaces_cycles fo : assignFaces pc nx = Some fo ->
    find_cycles nx n = Some (fo_cycles fo) /\ fo_incident fo = assign_incident (fo_cycles fo).
  Proof.
    unfold assignFaces. fold n. destruct (find_cycles nx n) as [cycles|]; [|discriminate]. intros H. inversion H; subst. simpl. auto.
  Qed.

  Variable fo : faces_out.
  Hypothesis Hfo : assignFaces pc nx = Some fo.

  (* every half edge lies on the cycle of its face, and that face is one of the faces *)
  Lemma incident_on_cycle e : e < n ->
    exists ring, nth_error (fo_cycles fo) (fo_incident fo e) = Some ring /\ In e ring.
  Proof.
    intros He. destruct (assignFaces_cycles fo Hfo) as (Hc & Hi).
    destruct (find_cycles_spec nx n _ Hc) as (A & B & C).
    destruct (B e He) as (ring & Hr & Hin). apply In_nth_error in Hr as (j & Hj).
    exists ring. rewrite Hi, (assign_incident_at _ j ring e C Hj Hin). auto.
  Qed.
  Lemma incident_range e : e < n -> fo_incident fo e < length (fo_cycles fo).
  Proof. intros He. destruct (incident_on_cycle e He) as (ring & Hr & _). apply nth_error_Some. congruence. Qed.
  Lemma incident_iff j ring e : nth_error (fo_cycles fo) j = Some ring -> e < n -> (fo_incident fo e = j <-> In e ring).
  Proof.
    intros Hj He. destruct (assignFaces_cycles fo Hfo) as (Hc & Hi).
    destruct (find_cycles_spec nx n _ Hc) as (A & B & C). split.
    - intros E. destruct (incident_on_cycle e He) as (r & Hr & Hin). rewrite E, Hj in Hr. inversion Hr; subst. exact Hin.
    - intros Hin. rewrite Hi. apply (assign_incident_at _ j ring e C Hj Hin).
  Qed.
  Lemma cycle_is_chain j ring : nth_error (fo_cycles fo) j = Some ring -> exists s, chain (nsucc nx) s s ring /\ s < n.
  Proof.
    intros Hj. destruct (assignFaces_cycles fo Hfo) as (Hc & _).
    destruct (find_cycles_spec nx n _ Hc) as (A & _). apply A. eapply nth_error_In; eauto.
  Qed.
  (* two half edges have the same face exactly when they are on the same next-cycle *)
  Lemma same_face_iff e e' : e < n -> e' < n ->
    (fo_incident fo e = fo_incident fo e' <-> exists k, Nat.iter k nx e = e').
  Proof.
    intros He He'. destruct (incident_on_cycle e He) as (ring & Hr & Hin).
    destruct (cycle_is_chain _ _ Hr) as (s & Hc & Hs). split.
    - intros E. symmetry in E. apply (incident_iff _ _ e' Hr He') in E.
      apply (cycle_connected nx s ring Hc e e' Hin E).
    - intros (k & <-). symmetry. apply (incident_iff _ _ _ Hr He'). apply (cycle_iter_in nx s ring Hc). exact Hin.
  Qed.
  (* no face without half edges: the first half edge of the cycle of face j (f.cycle) has face j *)
  Lemma face_has_edge j : j < length (fo_cycles fo) ->
    exists ring, nth_error (fo_cycles fo) j = Some ring /\ hd 0 ring < n /\ fo_incident fo (hd 0 ring) = j.
  Proof.
    intros Hj. destruct (nth_error (fo_cycles fo) j) as [ring|] eqn:Hr; [|apply nth_error_None in Hr; lia].
    exists ring. split; [reflexivity|]. destruct (cycle_is_chain _ _ Hr) as (s & Hc & Hs).
    destruct (chain_head _ _ _ _ Hc) as (t & ->). simpl. split; [exact Hs|].
    apply (incident_iff _ _ s Hr Hs). left. reflexivity.
  Qed.
  (* next stays on the face *)
  Lemma next_same_face e : e < n -> fo_incident fo (nx e) = fo_incident fo e.
  Proof. intros He. symmetry. apply same_face_iff; auto. exists 1. reflexivity. Qed.
  Lemma cycle_members j ring : nth_error (fo_cycles fo) j = Some ring ->
    NoDup ring /\ (forall z, In z ring -> z < n /\ In (nx z) ring).
  Proof.
    intros Hr. destruct (cycle_is_chain _ _ Hr) as (s & Hc & Hs). split; [eapply chain_nodup; eauto|].
    intros z Hz. split; [eapply chain_lt; eauto|]. apply (cycle_iter_in nx s ring Hc z 1 Hz).
  Qed.
End Faces.

(* ================================================================ (d) the flood fill =========== *)
Lemma filter_len_le {A} (p q : A -> bool) l : (forall x, p x = true -> q x = true) ->
  length (filter p l) <= length (filter q l).
Proof.
  intros H. induction l as [|a t IH]; simpl; [lia|]. destruct (p a) eqn:Ep.
  - rewrite (H a Ep). simpl. lia.
  - destruct (q a); simpl; lia.
Qed.
Lemma filter_len_lt {A} (p q : A -> bool) l a : (forall x, p x = true -> q x = true) ->
  In a l -> q a = true -> p a = false -> length (filter p l) < length (filter q l).
Proof.
  intros H. induction l as [|b t IH]; intros Hin Hq Hp; [destruct Hin|]. simpl. destruct Hin as [->|Hin].
  - rewrite Hp, Hq. simpl. pose proof (filter_len_le p q t H). lia.
  - specialize (IH Hin Hq Hp). destruct (p b) eqn:Ep; [rewrite (H b Ep); simpl; lia|destruct (q b); simpl; lia].
Qed.

Lemma filter_len_all {A} (p : A -> bool) l : length (filter p l) <= length l.
Proof. induction l as [|a t IH]; simpl; [lia|]. destruct (p a); simpl; lia. Qed.

Section Flood.
  Variable succs : nat -> list nat.
  Variable N : nat.
  Hypothesis Hsucc : forall f h, f < N -> In h (succs f) -> h < N.

  (* number of faces not yet visited *)
  Definition unvisited (V : list nat) : nat := length (filter (fun x => negb (memb x V)) (seq 0 N)).
  Lemma unvisited_le V : unvisited V <= N.
  Proof. unfold unvisited. rewrite <- (seq_length N 0) at 2. apply filter_len_all. Qed.
  Lemma unvisited_mono V V' : incl V V' -> unvisited V' <= unvisited V.
  Proof.
    intros H. apply filter_len_le. intros x Hx. apply negb_true_iff in Hx. apply negb_true_iff.
    apply memb_false. apply memb_false in Hx. intros Hin. apply Hx. apply H. exact Hin.
  Qed.
  Lemma unvisited_lt V f : f < N -> ~ In f V -> unvisited (f :: V) < unvisited V.
  Proof.
    intros Hf Hn. apply (filter_len_lt _ _ _ f).
    - intros x Hx. apply negb_true_iff in Hx. apply negb_true_iff. apply memb_false. apply memb_false in Hx.
      intros Hin. apply Hx. right. exact Hin.
    - apply in_seq. lia.
    - apply negb_true_iff. apply memb_false. exact Hn.
    - apply negb_false_iff. apply memb_In. left. reflexivity.
  Qed.

  (* what a call establishes: the visited set grows inside [0, N); labels only grow; every newly visited
     face is labelled, and all its successors are visited and labelled *)
  Definition post (V : list nat) (I : nat -> bool) (V' : list nat) (I' : nat -> bool) : Prop :=
    incl V V' /\ (forall x, In x V' -> x < N) /\ (forall x, I x = true -> I' x = true) /\
    (forall x, In x V' -> ~ In x V -> I' x = true /\ forall h, In h (succs x) -> In h V' /\ I' h = true) /\
    (forall x, I' x = true -> I x = true \/ In x V').
  Lemma post_refl V I : (forall x, In x V -> x < N) -> post V I V I.
  Proof. intros H. repeat split; auto using incl_refl; contradiction. Qed.
  Lemma post_trans V I V1 I1 V2 I2 : post V I V1 I1 -> post V1 I1 V2 I2 -> post V I V2 I2.
  Proof.
    intros (A1 & A2 & A3 & A4 & A5) (B1 & B2 & B3 & B4 & B5). repeat split.
    - eapply incl_tran; eauto.
    - exact B2.
    - auto.
    - destruct (in_dec Nat.eq_dec x V1) as [Hin|Hni].
      + apply B3. exact (proj1 (A4 x Hin H0)).
      + exact (proj1 (B4 x H Hni)).
    - destruct (in_dec Nat.eq_dec x V1) as [Hin|Hni].
      + apply B1. exact (proj1 (proj2 (A4 x Hin H0) h H1)).
      + exact (proj1 (proj2 (B4 x H Hni) h H1)).
    - destruct (in_dec Nat.eq_dec x V1) as [Hin|Hni].
      + apply B3. exact (proj2 (proj2 (A4 x Hin H0) h H1)).
      + exact (proj2 (proj2 (B4 x H Hni) h H1)).
    - intros x H. destruct (B5 x H) as [H1|H1]; [|right; exact H1]. destruct (A5 x H1) as [H2|H2]; [left; exact H2|right; apply B1; exact H2].
  Qed.

  Definition dfs_ok (k : nat) : Prop := forall f V I,
    f < N -> (forall x, In x V -> x < N) -> unvisited V < k -> I f = true ->
    post V I (fst (dfs succs k f (V, I))) (snd (dfs succs k f (V, I))) /\ In f (fst (dfs succs k f (V, I))).

  Lemma fold_post k : dfs_ok k -> forall gs V I,
    (forall g, In g gs -> g < N) -> (forall x, In x V -> x < N) -> unvisited V < k ->
    let r := fold_left (fun (st : fstate) g => dfs succs k g (fst st, upd (snd st) g true)) gs (V, I) in
    post V I (fst r) (snd r) /\ forall g, In g gs -> In g (fst r) /\ snd r g = true.
  Proof.
    intros Hk. induction gs as [|g t IH]; intros V I Hg HV HU; simpl.
    - split; [apply post_refl; exact HV|intros g []].
    - assert (Hgg : upd I g true g = true) by (unfold upd; rewrite Nat.eqb_refl; reflexivity).
      destruct (Hk g V (upd I g true) (Hg g (or_introl eq_refl)) HV HU Hgg) as (P1 & In1).
      destruct (dfs succs k g (V, upd I g true)) as [V1 I1] eqn:E1. simpl in P1, In1.
      assert (P0 : post V I V1 I1).
      { destruct P1 as (A1 & A2 & A3 & A4 & A5). repeat split; auto.
        - intros x Hx. apply A3. unfold upd. rewrite Hx. destruct (Nat.eqb x g); reflexivity.
        - exact (proj1 (A4 x H H0)).
        - exact (proj1 (proj2 (A4 x H H0) h H1)).
        - exact (proj2 (proj2 (A4 x H H0) h H1)).
        - intros x H. destruct (A5 x H) as [H1|H1]; [|right; exact H1]. unfold upd in H1.
          destruct (Nat.eqb x g) eqn:Ex; [apply Nat.eqb_eq in Ex; subst; right; exact In1|left; exact H1]. }
      destruct P1 as (A1 & A2 & A3 & A4 & A5).
      destruct (IH V1 I1) as (P2 & G2).
      + intros g' Hg'. apply Hg. right. exact Hg'.
      + exact A2.
      + pose proof (unvisited_mono V V1 A1). lia.
      + split; [eapply post_trans; eauto|].
        intros g' [<-|Hg'].
        * destruct P2 as (B1 & B2 & B3 & B4 & B5). split; [apply B1; exact In1|apply B3, A3; exact Hgg].
        * apply G2. exact Hg'.
  Qed.

  Lemma dfs_post k : dfs_ok k.
  Proof.
    induction k as [|k IH]; intros f V I Hf HV HU HI; [lia|].
    simpl. destruct (memb f V) eqn:Em.
    - simpl. split; [apply post_refl; exact HV|apply memb_In; exact Em].
    - apply memb_false in Em.
      assert (HV' : forall x, In x (f :: V) -> x < N) by (intros x [<-|Hx]; auto).
      assert (HU' : unvisited (f :: V) < k) by (pose proof (unvisited_lt V f Hf Em); lia).
      destruct (fold_post k IH (succs f) (f :: V) I (fun g Hg => Hsucc f g Hf Hg) HV' HU') as (P & G).
      cbv zeta in P, G.
      destruct (fold_left (fun (st : fstate) g => dfs succs k g (fst st, upd (snd st) g true)) (succs f) (f :: V, I)) as [V' I'] eqn:E.
      simpl in *. destruct P as (A1 & A2 & A3 & A4 & A5). split; [|apply A1; left; reflexivity].
      repeat split.
      + intros x Hx. apply A1. right. exact Hx.
      + exact A2.
      + exact A3.
      + destruct (Nat.eq_dec x f) as [->|Hne]; [apply A3; exact HI|].
        assert (Hn : ~ In x (f :: V)) by (intros [E'|Hin]; [congruence|contradiction]).
        exact (proj1 (A4 x H Hn)).
      + destruct (Nat.eq_dec x f) as [->|Hne]; [exact (proj1 (G h H1))|].
        assert (Hn : ~ In x (f :: V)) by (intros [E'|Hin]; [congruence|contradiction]).
        exact (proj1 (proj2 (A4 x H Hn) h H1)).
      + destruct (Nat.eq_dec x f) as [->|Hne]; [exact (proj2 (G h H1))|].
        assert (Hn : ~ In x (f :: V)) by (intros [E'|Hin]; [congruence|contradiction]).
        exact (proj2 (proj2 (A4 x H Hn) h H1)).
      + exact A5.
  Qed.

  (* soundness: labels stay inside every set that contains them at the start and is closed under succs *)
  Variable R : nat -> Prop.
  Hypothesis Rclosed : forall g h, R g -> In h (succs g) -> R h.
  Lemma dfs_sound : forall k f V I, (forall x, I x = true -> R x) -> R f ->
    forall x, snd (dfs succs k f (V, I)) x = true -> R x.
  Proof.
    induction k as [|k IH]; intros f V I HI Hf x; simpl; [apply HI|].
    destruct (memb f V); [apply HI|].
    assert (Hgs : forall g, In g (succs f) -> R g) by (intros g Hg; eapply Rclosed; eauto).
    generalize dependent (f :: V). generalize dependent I.
    induction (succs f) as [|g t IHt]; intros I HI V0; simpl; [apply HI|].
    destruct (dfs succs k g (V0, upd I g true)) as [V1 I1] eqn:E1.
    apply IHt.
    - intros g' Hg'. apply Hgs. right. exact Hg'.
    - intros y Hy. apply (IH g V0 (upd I g true)).
      + intros z Hz. unfold upd in Hz. destruct (Nat.eqb z g) eqn:Ez; [apply Nat.eqb_eq in Ez; subst; apply Hgs; left; reflexivity|apply HI; exact Hz].
      + apply Hgs. left. reflexivity.
      + rewrite E1. exact Hy.
  Qed.
End Flood.

(* the outer loop: for _, f := range d.faces { if f.inSet[operand] { dfs(f) } } *)
Inductive reach (succs : nat -> list nat) (seed : nat -> bool) : nat -> Prop :=
| reach_seed x : seed x = true -> reach succs seed x
| reach_step g h : reach succs seed g -> In h (succs g) -> reach succs seed h.

Section FloodTop.
  Variable succs : nat -> list nat.
  Variable N : nat.
  Hypothesis Hsucc : forall f h, f < N -> In h (succs f) -> h < N.
  Variable seed : nat -> bool.

  Definition finv (V : list nat) (I : nat -> bool) : Prop :=
    (forall x, In x V -> x < N /\ I x = true /\ forall h, In h (succs x) -> In h V /\ I h = true) /\
    (forall x, I x = true -> seed x = true \/ In x V) /\
    (forall x, seed x = true -> I x = true) /\
    (forall x, I x = true -> reach succs seed x).

  Lemma flood_loop : forall fs V I, finv V I -> (forall f, In f fs -> f < N) ->
    let r := fold_left (fun (st : fstate) f => if snd st f then dfs succs (S N) f st else st) fs (V, I) in
    finv (fst r) (snd r) /\ (forall x, In x V -> In x (fst r)) /\ (forall f, In f fs -> seed f = true -> In f (fst r)).
  Proof.
    induction fs as [|f t IH]; intros V I Hinv Hfs; cbn [fold_left fst snd].
    - split; [exact Hinv|split; [auto|intros f []]].
    - destruct (I f) eqn:EI.
      + destruct Hinv as (J1 & J2 & J3 & J4).
        assert (HV : forall x, In x V -> x < N) by (intros x Hx; exact (proj1 (J1 x Hx))).
        assert (HU : unvisited N V < S N) by (pose proof (unvisited_le N V); lia).
        destruct (dfs_post succs N Hsucc (S N) f V I (Hfs f (or_introl eq_refl)) HV HU EI) as (P & Inf).
        pose proof (dfs_sound succs (reach succs seed) (reach_step succs seed) (S N) f V I J4 (J4 f EI)) as Snd.
        destruct (dfs succs (S N) f (V, I)) as [V1 I1] eqn:E1. simpl in P, Inf, Snd.
        destruct P as (A1 & A2 & A3 & A4 & A5).
        assert (Hinv1 : finv V1 I1).
        { repeat split.
          - apply A2. exact H.
          - destruct (in_dec Nat.eq_dec x V) as [Hin|Hni]; [apply A3; exact (proj1 (proj2 (J1 x Hin)))|exact (proj1 (A4 x H Hni))].
          - destruct (in_dec Nat.eq_dec x V) as [Hin|Hni]; [apply A1; exact (proj1 (proj2 (proj2 (J1 x Hin)) h H0))|exact (proj1 (proj2 (A4 x H Hni) h H0))].
          - destruct (in_dec Nat.eq_dec x V) as [Hin|Hni]; [apply A3; exact (proj2 (proj2 (proj2 (J1 x Hin)) h H0))|exact (proj2 (proj2 (A4 x H Hni) h H0))].
          - intros x Hx. destruct (A5 x Hx) as [H1|H1]; [|right; exact H1].
            destruct (J2 x H1) as [H2|H2]; [left; exact H2|right; apply A1; exact H2].
          - intros x Hx. apply A3, J3. exact Hx.
          - exact Snd. }
        destruct (IH V1 I1 Hinv1 (fun g Hg => Hfs g (or_intror Hg))) as (K1 & K2 & K3). cbv zeta in K1, K2, K3 |- *.
        split; [exact K1|]. split.
        * intros x Hx. apply K2, A1. exact Hx.
        * intros g [<-|Hg] Hs; [apply K2; exact Inf|apply K3; assumption].
      + destruct (IH V I Hinv (fun g Hg => Hfs g (or_intror Hg))) as (K1 & K2 & K3).
        split; [exact K1|]. split; [exact K2|].
        intros g [<-|Hg] Hs; [|apply K3; assumption].
        destruct Hinv as (_ & _ & J3 & _). rewrite (J3 f Hs) in EI. discriminate.
  Qed.

  Hypothesis Hseed : forall x, seed x = true -> x < N.
  (* the flood fill computes the least set of faces that contains the seeds and is closed under succs *)
  Lemma flood_spec_lemma :
    let I := snd (flood succs N seed) in
    (forall x, seed x = true -> I x = true) /\
    (forall f h, I f = true -> In h (succs f) -> I h = true) /\
    (forall x, I x = true <-> reach succs seed x).
  Proof.
    unfold flood.
    assert (H0 : finv [] seed).
    { repeat split; try contradiction; auto. intros x Hx. apply reach_seed. exact Hx. }
    destruct (flood_loop (seq 0 N) [] seed H0) as (K1 & _ & K3); [intros f Hf; apply in_seq in Hf; lia|].
    cbv zeta in *.
    destruct (fold_left (fun (st : fstate) f => if snd st f then dfs succs (S N) f st else st) (seq 0 N) ([], seed)) as [V I] eqn:E.
    simpl in *. destruct K1 as (J1 & J2 & J3 & J4).
    assert (Hcl : forall f h, I f = true -> In h (succs f) -> I h = true).
    { intros f h Hf Hh. assert (Hin : In f V).
      { destruct (J2 f Hf) as [Hs|Hin]; [|exact Hin]. apply K3; [|exact Hs]. apply in_seq. specialize (Hseed f Hs). lia. }
      exact (proj2 (proj2 (proj2 (J1 f Hin)) h Hh)). }
    split; [exact J3|]. split; [exact Hcl|].
    intros x. split; [apply J4|]. induction 1 as [x Hx|g h Hg IHg Hh]; [apply J3; exact Hx|eapply Hcl; eauto].
  Qed.
End FloodTop.

(* ---------------------------------------------------------------- the flood fill on the faces *)
Lemma lab_get_or a b op : lab_get (lab_or a b) op = lab_get a op || lab_get b op.
Proof. destruct op; reflexivity. Qed.
Lemma seed_fold_iff (srcF : nat -> lab) op cyc : forall acc,
  lab_get (fold_left (fun acc e => lab_or acc (srcF e)) cyc acc) op = true <->
  lab_get acc op = true \/ exists e, In e cyc /\ lab_get (srcF e) op = true.
Proof.
  induction cyc as [|a t IH]; intros acc; simpl.
  - split; [auto|intros [H|(e & [] & _)]; exact H].
  - rewrite IH, lab_get_or, orb_true_iff. split.
    + intros [[H|H]|(e & He & H)]; [left; exact H|right; exists a; auto|right; exists e; auto].
    + intros [H|(e & [<-|He] & H)]; [left; left; exact H|left; right; exact H|right; exists e; auto].
Qed.
Lemma seed_label_iff srcF cyc op :
  lab_get (seed_label srcF cyc) op = true <-> exists e, In e cyc /\ lab_get (srcF e) op = true.
Proof.
  unfold seed_label. rewrite seed_fold_iff. split; [intros [H|H]; [destruct op; discriminate|exact H]|auto].
Qed.

Section FaceLabels.
  Variable pc : precomplex.
  Hypothesis Hwf : pre_wf pc = true.
  Let nx := l_next (fixVertices pc).
  Let n := pnE pc.
  Variable fo : faces_out.
  Hypothesis Hfo : assignFaces pc nx = Some fo.
  Let cycles := fo_cycles fo.
  Let inc := fo_incident fo.
  Let nF := length cycles.

  Lemma fo_in_flood op f :
    lab_get (fo_in fo f) op = snd (flood (op_succs pc cycles inc op) nF (op_seed pc cycles op)) f.
  Proof.
    unfold cycles, inc, nF. revert Hfo. unfold assignFaces. destruct (find_cycles nx (pnE pc)) as [cs|]; [|discriminate].
    intros H. inversion H; subst. simpl. destruct op; reflexivity.
  Qed.
  Lemma op_succs_range op f h : f < nF -> In h (op_succs pc cycles inc op f) -> h < nF.
  Proof.
    intros Hf Hh. unfold op_succs, face_succs in Hh. apply in_map_iff in Hh as (e & <- & He).
    apply filter_In in He as (He & _).
    destruct (nth_error cycles f) as [ring|] eqn:Hr; [|apply nth_error_None in Hr; unfold nF in Hf; lia].
    rewrite (nth_error_nth _ _ _ Hr) in He.
    destruct (cycle_members pc Hwf fo Hfo f ring Hr) as (_ & Hm). destruct (Hm e He) as (Hlt & _).
    apply (incident_range pc fo Hfo). apply (wf_at pc Hwf e Hlt).
  Qed.
  Lemma op_seed_range op f : op_seed pc cycles op f = true -> f < nF.
  Proof.
    intros H. destruct (Nat.lt_ge_cases f nF) as [Hlt|Hge]; [exact Hlt|].
    unfold op_seed in H. rewrite nth_overflow in H by exact Hge. destruct op; discriminate.
  Qed.

  Lemma flood_faces_lemma op :
    (forall e, e < n -> lab_get (p_srcFace pc e) op = true -> lab_get (fo_in fo (inc e)) op = true) /\
    (forall e, e < n -> lab_get (p_srcFace pc e) op = false -> lab_get (fo_in fo (inc e)) op = true ->
               lab_get (fo_in fo (inc (p_twin pc e))) op = true) /\
    (forall f, lab_get (fo_in fo f) op = true <-> reach (op_succs pc cycles inc op) (op_seed pc cycles op) f).
  Proof.
    destruct (flood_spec_lemma (op_succs pc cycles inc op) nF (op_succs_range op) (op_seed pc cycles op) (op_seed_range op))
      as (S1 & S2 & S3).
    repeat split.
    - intros e He Hs. rewrite fo_in_flood. apply S1.
      destruct (incident_on_cycle pc fo Hfo e He) as (ring & Hr & Hin).
      unfold op_seed. fold cycles inc in Hr. rewrite (nth_error_nth _ _ _ Hr). apply seed_label_iff. exists e. auto.
    - intros e He Hs. rewrite !fo_in_flood. intros HI. apply (S2 (inc e)); [exact HI|].
      destruct (incident_on_cycle pc fo Hfo e He) as (ring & Hr & Hin).
      unfold op_succs, face_succs. fold cycles inc in Hr. rewrite (nth_error_nth _ _ _ Hr).
      apply in_map_iff. exists e. split; [reflexivity|]. apply filter_In. split; [exact Hin|]. rewrite Hs. reflexivity.
    - rewrite fo_in_flood. apply S3.
    - rewrite fo_in_flood. apply S3.
  Qed.
  (* across an edge neither of whose half edges is a face boundary of the operand the labels agree *)
  Lemma flood_agree_lemma op e : e < n ->
    lab_get (p_srcFace pc e) op = false -> lab_get (p_srcFace pc (p_twin pc e)) op = false ->
    lab_get (fo_in fo (inc e)) op = lab_get (fo_in fo (inc (p_twin pc e))) op.
  Proof.
    intros He H1 H2. destruct (flood_faces_lemma op) as (_ & Hcl & _).
    destruct (wf_at pc Hwf e He) as (_ & Ht & Ett & _).
    apply Bool.eq_iff_eq_true. split; intros H.
    - apply Hcl; assumption.
    - specialize (Hcl (p_twin pc e) Ht H2 H). rewrite Ett in Hcl. exact Hcl.
  Qed.
End FaceLabels.

(* ================================================================ populateInSetLabels =========== *)
(* the label an edge gets: e.srcEdge || e.incident.inSet || e.twin.incident.inSet *)
Definition elab (pc : precomplex) (inc : nat -> nat) (fin : nat -> lab) (e : nat) : lab :=
  lab_or (p_srcEdge pc e) (lab_or (fin (inc e)) (fin (inc (p_twin pc e)))).

Section Populate.
  Variable pc : precomplex.
  Variables pv inc : nat -> nat.
  Variable fin : nat -> lab.
  Let L := elab pc inc fin.
  Definition pop (k : nat) : lstate :=
    fold_left (populate_step pc pv inc fin) (seq 0 k) (fun _ => (false, false), p_vsrc pc).
  Lemma pop_S k : pop (S k) = populate_step pc pv inc fin (pop k) k.
  Proof. unfold pop. rewrite seq_S, fold_left_app. reflexivity. Qed.
  Lemma pop_edges k x : fst (pop k) x = if Nat.ltb x k then L x else (false, false).
  Proof.
    induction k as [|k IH]; [reflexivity|]. rewrite pop_S. unfold populate_step. cbn [fst]. unfold upd. rewrite IH.
    destruct (Nat.eqb x k) eqn:E.
    - apply Nat.eqb_eq in E. subst. replace (Nat.ltb k (S k)) with true by (symmetry; apply Nat.ltb_lt; lia). reflexivity.
    - apply Nat.eqb_neq in E. destruct (Nat.ltb x k) eqn:E1.
      + apply Nat.ltb_lt in E1. replace (Nat.ltb x (S k)) with true by (symmetry; apply Nat.ltb_lt; lia). reflexivity.
      + apply Nat.ltb_ge in E1. replace (Nat.ltb x (S k)) with false by (symmetry; apply Nat.ltb_ge; lia). reflexivity.
  Qed.
  Lemma pop_verts k v op :
    lab_get (snd (pop k) v) op = true <->
    lab_get (p_vsrc pc v) op = true \/
    exists e, e < k /\ p_origin pc e = v /\ (lab_get (L e) op = true \/ (pv e <= e /\ lab_get (L (pv e)) op = true)).
  Proof.
    induction k as [|k IH].
    - simpl. split; [auto|intros [H|(e & He & _)]; [exact H|lia]].
    - rewrite pop_S. unfold populate_step. cbn [snd fst]. unfold upd at 1.
      assert (Hprev : lab_get (upd (fst (pop k)) k (L k) (pv k)) op = true <-> (pv k <= k /\ lab_get (L (pv k)) op = true)).
      { unfold upd. destruct (Nat.eqb (pv k) k) eqn:E.
        - apply Nat.eqb_eq in E. rewrite E. split; [intros H; split; [lia|exact H]|tauto].
        - apply Nat.eqb_neq in E. rewrite pop_edges. destruct (Nat.ltb (pv k) k) eqn:E1.
          + apply Nat.ltb_lt in E1. split; [intros H; split; [lia|exact H]|tauto].
          + apply Nat.ltb_ge in E1. split; [destruct op; discriminate|intros (H & _); lia]. }
      destruct (Nat.eqb v (p_origin pc k)) eqn:Ev.
      + apply Nat.eqb_eq in Ev. subst v.
        change (lab_or (p_srcEdge pc k) (lab_or (fin (inc k)) (fin (inc (p_twin pc k))))) with (L k).
        rewrite !lab_get_or, !orb_true_iff, IH, Hprev. split.
        * intros [[H|(e & He & Ho & H)]|H]; [left; exact H|right; exists e; split; [lia|auto]|].
          right. exists k. split; [lia|]. split; [reflexivity|exact H].
        * intros [H|(e & He & Ho & H)]; [left; left; exact H|].
          destruct (Nat.eq_dec e k) as [->|Hne]; [right; exact H|]. left. right. exists e. split; [lia|auto].
      + apply Nat.eqb_neq in Ev. rewrite IH. split.
        * intros [H|(e & He & Ho & H)]; [left; exact H|right; exists e; split; [lia|auto]].
        * intros [H|(e & He & Ho & H)]; [left; exact H|]. right. exists e. split; [|auto].
          destruct (Nat.eq_dec e k) as [->|Hne]; [congruence|lia].
  Qed.
End Populate.

(* with the rotation system of fixVertices and srcEdge flags shared by the two half edges of an edge, the
   vertex labels do not depend on the iteration order: a vertex is in the operand iff it is a source
   vertex of it or some half edge leaving it is labelled *)
Lemma elab_twin pc inc fin e op : pre_wf pc = true -> pre_src_sym pc = true -> e < pnE pc ->
  lab_get (elab pc inc fin (p_twin pc e)) op = lab_get (elab pc inc fin e) op.
Proof.
  intros Hwf Hsym He. unfold elab. destruct (wf_at pc Hwf e He) as (_ & _ & Ett & _). rewrite Ett.
  unfold pre_src_sym in Hsym. rewrite forallb_forall in Hsym. specialize (Hsym e). rewrite in_seq in Hsym.
  specialize (Hsym ltac:(lia)). unfold lab_eqb in Hsym. apply andb_true_iff in Hsym as (H1 & H2).
  apply eqb_prop in H1. apply eqb_prop in H2. rewrite !lab_get_or.
  assert (E : lab_get (p_srcEdge pc (p_twin pc e)) op = lab_get (p_srcEdge pc e) op) by (destruct op; simpl; congruence).
  rewrite E. destruct (lab_get (p_srcEdge pc e) op), (lab_get (fin (inc e)) op), (lab_get (fin (inc (p_twin pc e))) op); reflexivity.
Qed.
Lemma populate_spec_lemma pc inc fin : pre_wf pc = true -> pre_src_sym pc = true ->
  let st := populateInSetLabels pc (l_prev (fixVertices pc)) inc fin in
  (forall e, e < pnE pc -> fst st e = elab pc inc fin e) /\
  (forall v op, lab_get (snd st v) op = true <->
     lab_get (p_vsrc pc v) op = true \/ exists e, e < pnE pc /\ p_origin pc e = v /\ lab_get (elab pc inc fin e) op = true).
Proof.
  intros Hwf Hsym st. unfold st, populateInSetLabels. fold (pop pc (l_prev (fixVertices pc)) inc fin (pnE pc)). split.
  - intros e He. rewrite pop_edges. apply Nat.ltb_lt in He. rewrite He. reflexivity.
  - intros v op. rewrite pop_verts. split.
    + intros [H|(e & He & Ho & [H|(_ & H)])]; [left; exact H|right; exists e; auto|].
      right. set (p := l_prev (fixVertices pc) e) in *.
      destruct (fix_range pc Hwf e He) as (_ & Hp). fold p in Hp.
      destruct (wf_at pc Hwf p Hp) as (_ & Ht & _).
      exists (p_twin pc p). split; [exact Ht|]. split.
      * rewrite <- Ho. rewrite <- (fix_next_origin pc Hwf p Hp). unfold p. rewrite (fix_next_prev pc Hwf e He). reflexivity.
      * rewrite elab_twin; assumption.
    + intros [H|(e & He & Ho & H)]; [left; exact H|right; exists e; auto].
Qed.

(* ================================================================ the assembled complex ========= *)
Lemma nth_error_seq s n i : i < n -> nth_error (seq s n) i = Some (s + i).
Proof.
  revert s i. induction n as [|n IH]; intros s i Hi; [lia|]. destruct i as [|i]; simpl; [f_equal; lia|].
  rewrite IH by lia. f_equal. lia.
Qed.
Lemma nth_error_map_seq {A} (f : nat -> A) n i : i < n -> nth_error (map f (seq 0 n)) i = Some (f i).
Proof. intros Hi. apply map_nth_error. apply (nth_error_seq 0 n i Hi). Qed.
Lemma nth_error_indexed {A} (l : list A) : forall k j x,
  nth_error l j = Some x -> nth_error (indexed_from k l) j = Some (k + j, x).
Proof.
  induction l as [|y r IH]; intros k j x H; [destruct j; discriminate|]. destruct j as [|j]; simpl in *.
  - inversion H. f_equal. f_equal. lia.
  - rewrite (IH (S k) j x H). f_equal. f_equal. lia.
Qed.
Lemma lab_le_iff a b : lab_le a b = true <-> forall op, lab_get a op = true -> lab_get b op = true.
Proof.
  destruct a as [a1 a2], b as [b1 b2]. unfold lab_le, lab_get. simpl. split.
  - intros H op. apply andb_true_iff in H as (H1 & H2). destruct op; intros E; subst; simpl in *; assumption.
  - intros H. pose proof (H true) as Ht. pose proof (H false) as Hf. simpl in *.
    destruct a1, a2; simpl; auto; try (rewrite Hf by reflexivity); try (rewrite Ht by reflexivity); reflexivity.
Qed.
Lemma touch_fold_iff c i (es : list hedgeR) (base : lab) op :
  lab_get (fold_right (fun e acc => if touches c i e then lab_or (e_in e) acc else acc) base es) op = true <->
  lab_get base op = true \/ exists e, In e es /\ touches c i e = true /\ lab_get (e_in e) op = true.
Proof.
  induction es as [|e t IH]; simpl.
  - split; [auto|intros [H|(e & [] & _)]; exact H].
  - destruct (touches c i e) eqn:Et.
    + rewrite lab_get_or, orb_true_iff, IH. split.
      * intros [H|[H|(e' & He' & H)]]; [right; exists e; auto|left; exact H|right; exists e'; auto].
      * intros [H|(e' & [<-|He'] & Ht & H)]; [right; left; exact H|left; exact H|right; right; exists e'; auto].
    + rewrite IH. split.
      * intros [H|(e' & He' & H)]; [left; exact H|right; exists e'; auto].
      * intros [H|(e' & [<-|He'] & Ht & H)]; [left; exact H|congruence|right; exists e'; auto].
Qed.

Section Assembled.
  Variable pc : precomplex.
  Hypothesis Hwf : pre_wf pc = true.
  Hypothesis Hsym : pre_src_sym pc = true.
  Let s := fixVertices pc.
  Let nx := l_next s.
  Let pv := l_prev s.
  Variable fo : faces_out.
  Hypothesis Hfo : assignFaces pc nx = Some fo.
  Let inc := fo_incident fo.
  Let st := populateInSetLabels pc pv inc (fo_in fo).
  Let mkE (e : nat) : hedgeR :=
    MkE (p_origin pc e) (p_twin pc e) (nx e) (pv e) (inc e) (p_srcEdge pc e) (p_srcFace pc e) (fst st e).
  Let c : complex :=
    MkC (map (fun v => MkV (p_vsrc pc v) (snd st v)) (seq 0 (pnV pc))) (map mkE (seq 0 (pnE pc))) (faces_of fo).

  Lemma fixup_is : fixup pc = Some c.
  Proof. unfold fixup. fold s nx. rewrite Hfo. reflexivity. Qed.
  Lemma asm_nE : nE c = pnE pc.
  Proof. unfold nE, c. simpl. rewrite map_length, seq_length. reflexivity. Qed.
  Lemma asm_nV : nV c = pnV pc.
  Proof. unfold nV, c. simpl. rewrite map_length, seq_length. reflexivity. Qed.
  Lemma asm_get_e i : i < pnE pc -> get_e c i = Some (mkE i).
  Proof. intros Hi. unfold get_e, c. simpl. apply nth_error_map_seq. exact Hi. Qed.
  Lemma asm_get_e_inv i e : get_e c i = Some e -> i < pnE pc /\ e = mkE i.
  Proof.
    intros H. assert (Hi : i < pnE pc).
    { rewrite <- asm_nE. unfold nE. apply nth_error_Some. unfold get_e in H. congruence. }
    split; [exact Hi|]. rewrite (asm_get_e i Hi) in H. inversion H. reflexivity.
  Qed.
  Lemma asm_in_edges e : In e (c_edges c) -> exists i, i < pnE pc /\ e = mkE i.
  Proof. intros H. apply in_get_e in H as (i & Hi). exists i. apply asm_get_e_inv. exact Hi. Qed.
  Lemma asm_get_v v : v < pnV pc -> get_v c v = Some (MkV (p_vsrc pc v) (snd st v)).
  Proof. intros Hv. unfold get_v, c. simpl. apply (nth_error_map_seq (fun v => MkV (p_vsrc pc v) (snd st v))). exact Hv. Qed.
  Lemma asm_field i proj v : i < pnE pc -> proj (mkE i) = v -> field_is c i proj v = true.
  Proof. intros Hi E. apply field_is_spec. exists (mkE i). split; [apply asm_get_e; exact Hi|exact E]. Qed.

  (* faces: with at least one half edge the face list is one record per cycle *)
  Lemma faces_of_nonempty : fo_cycles fo <> [] ->
    faces_of fo = map (fun jc : nat * list nat => MkF (Some (hd 0 (snd jc))) (fo_in fo (fst jc))) (indexed_from 0 (fo_cycles fo)).
  Proof. unfold faces_of. destruct (fo_cycles fo); [contradiction|reflexivity]. Qed.
  Lemma asm_faces : pnE pc > 0 ->
    nF c = length (fo_cycles fo) /\
    forall j, j < length (fo_cycles fo) -> face_in c j = fo_in fo j.
  Proof.
    intros Hpos. pose proof (incident_range pc fo Hfo 0 Hpos) as H0.
    assert (Hne : fo_cycles fo <> []) by (intros E; rewrite E in H0; simpl in H0; lia).
    unfold nF, face_in, get_f, c. cbn [c_faces]. rewrite (faces_of_nonempty Hne). split.
    - rewrite map_length. rewrite <- (map_length fst), map_fst_indexed_from, seq_length. reflexivity.
    - intros j Hj. destruct (nth_error (fo_cycles fo) j) as [ring|] eqn:Hr; [|apply nth_error_None in Hr; lia].
      erewrite map_nth_error; [|apply nth_error_indexed; exact Hr]. reflexivity.
  Qed.

  Lemma asm_ranges_ok : ranges_ok c = true.
  Proof.
    unfold ranges_ok. apply andb_true_iff. split.
    - apply forallb_forall. intros e He. destruct (asm_in_edges e He) as (i & Hi & ->).
      destruct (wf_at pc Hwf i Hi) as (Ho & Ht & _). destruct (fix_range pc Hwf i Hi) as (Hn & Hp).
      rewrite asm_nE, asm_nV. cbn [mkE e_origin e_twin e_next e_prev e_face].
      destruct (asm_faces ltac:(lia)) as (EF & _). rewrite EF.
      pose proof (incident_range pc fo Hfo i Hi) as Hf.
      rewrite !andb_true_iff, !Nat.ltb_lt. repeat split; assumption.
    - apply forallb_forall. intros f Hf. unfold c in Hf. cbn [c_faces] in Hf.
      destruct (fo_cycles fo) as [|r0 rest] eqn:Ec.
      { unfold faces_of in Hf. rewrite Ec in Hf. destruct Hf as [<-|[]]; reflexivity. }
      rewrite faces_of_nonempty in Hf by (rewrite Ec; discriminate). clear Ec.
      apply in_map_iff in Hf as ([j ring] & <- & Hin). simpl. apply in_indexed_from in Hin as (_ & Hr). rewrite Nat.sub_0_r in Hr.
      assert (Hj : j < length (fo_cycles fo)) by (apply nth_error_Some; congruence).
      destruct (face_has_edge pc fo Hfo j Hj) as (ring' & Hr' & Hlt & _). rewrite Hr in Hr'. inversion Hr'; subst.
      rewrite asm_nE. apply Nat.ltb_lt. exact Hlt.
  Qed.
  Lemma asm_twin_ok : twin_ok c = true.
  Proof.
    unfold twin_ok. apply forallb_forall. intros [i e] Hie. apply in_edges_ix in Hie.
    destruct (asm_get_e_inv i e Hie) as (Hi & ->). cbn [fst snd].
    destruct (wf_at pc Hwf i Hi) as (Ho & Ht & Ett & Hne). destruct (fix_range pc Hwf i Hi) as (Hn & Hp).
    cbn [mkE e_twin e_next e_srcEdge]. rewrite (asm_get_e _ Ht). cbn [mkE e_srcEdge e_origin].
    rewrite !andb_true_iff. repeat split.
    - apply negb_true_iff. apply Nat.eqb_neq. exact Hne.
    - apply asm_field; [exact Ht|exact Ett].
    - unfold pre_src_sym in Hsym. rewrite forallb_forall in Hsym. apply Hsym. apply in_seq. lia.
    - apply asm_field; [exact Hn|]. cbn [mkE e_origin]. apply (fix_next_origin pc Hwf i Hi).
  Qed.
  Lemma asm_next_prev_ok : next_prev_ok c = true.
  Proof.
    unfold next_prev_ok. apply forallb_forall. intros [i e] Hie. apply in_edges_ix in Hie.
    destruct (asm_get_e_inv i e Hie) as (Hi & ->). cbn [fst snd].
    destruct (fix_range pc Hwf i Hi) as (Hn & Hp). cbn [mkE e_next e_prev e_face].
    rewrite !andb_true_iff. repeat split.
    - apply asm_field; [exact Hn|]. cbn [mkE e_prev]. apply (fix_prev_next pc Hwf i Hi).
    - apply asm_field; [exact Hp|]. cbn [mkE e_next]. apply (fix_next_prev pc Hwf i Hi).
    - apply asm_field; [exact Hn|]. cbn [mkE e_face]. apply (next_same_face pc Hwf fo Hfo i Hi).
  Qed.

  Hypothesis Hle : pre_srcface_le pc = true.
  Lemma asm_labels_ok : labels_ok c = true.
  Proof.
    destruct (populate_spec_lemma pc inc (fo_in fo) Hwf Hsym) as (PE & PV).
    change (populateInSetLabels pc (l_prev (fixVertices pc)) inc (fo_in fo)) with st in PE, PV.
    unfold labels_ok. apply andb_true_iff. split.
    - apply forallb_forall. intros e He. destruct (asm_in_edges e He) as (i & Hi & ->).
      destruct (wf_at pc Hwf i Hi) as (Ho & Ht & Ett & Hne).
      destruct (asm_faces ltac:(lia)) as (_ & FI).
      assert (Hf : inc i < length (fo_cycles fo)) by apply (incident_range pc fo Hfo i Hi).
      assert (Hft : inc (p_twin pc i) < length (fo_cycles fo)) by apply (incident_range pc fo Hfo _ Ht).
      assert (Etf : twin_face_in c (mkE i) = fo_in fo (inc (p_twin pc i))).
      { unfold twin_face_in, twin_face. cbn [mkE e_twin]. rewrite (asm_get_e _ Ht). cbn [mkE e_face]. apply FI. exact Hft. }
      assert (Eto : twin_origin c (mkE i) = Some (p_origin pc (p_twin pc i))).
      { unfold twin_origin. cbn [mkE e_twin]. rewrite (asm_get_e _ Ht). reflexivity. }
      rewrite Etf, Eto. cbn [mkE e_srcFace e_srcEdge e_face e_in e_origin]. rewrite (FI _ Hf), (PE i Hi).
      unfold vert_in. rewrite (asm_get_v _ Ho). destruct (wf_at pc Hwf _ Ht) as (Hot & _). rewrite (asm_get_v _ Hot).
      cbn [v_in le_opt].
      rewrite !andb_true_iff. repeat split; apply lab_le_iff; intros op Hop.
      + unfold pre_srcface_le in Hle. rewrite forallb_forall in Hle. specialize (Hle i). rewrite in_seq in Hle.
        specialize (Hle ltac:(lia)). rewrite lab_le_iff in Hle. apply Hle. exact Hop.
      + destruct (flood_faces_lemma pc Hwf fo Hfo op) as (S1 & _). apply S1; assumption.
      + unfold elab. rewrite lab_get_or, Hop. reflexivity.
      + unfold elab. rewrite !lab_get_or. rewrite Hop. rewrite orb_true_r. reflexivity.
      + apply PV. right. exists i. auto.
      + apply PV. right. exists (p_twin pc i). split; [exact Ht|]. split; [reflexivity|]. rewrite elab_twin; assumption.
      + unfold elab in Hop. rewrite !lab_get_or in *. exact Hop.
    - apply forallb_forall. intros [v vr] Hv. apply in_verts_ix in Hv. cbn [fst snd].
      assert (Hlt : v < pnV pc). { rewrite <- asm_nV. unfold nV. apply nth_error_Some. unfold get_v in Hv. congruence. }
      rewrite (asm_get_v v Hlt) in Hv. inversion Hv; subst vr. cbn [v_src v_in].
      apply andb_true_iff. split; apply lab_le_iff; intros op Hop.
      + apply PV. left. exact Hop.
      + apply touch_fold_iff. apply PV in Hop. destruct Hop as [H|(e & He & Ho & H)]; [left; exact H|].
        right. exists (mkE e). split; [|split].
        * unfold c. simpl. apply in_map. apply in_seq. lia.
        * unfold touches. cbn [mkE e_origin]. rewrite Ho, Nat.eqb_refl. reflexivity.
        * cbn [mkE e_in]. rewrite (PE e He). exact H.
  Qed.
End Assembled.

(* the theorem in one piece *)
Lemma fixup_partial_lemma pc :
  pre_wf pc = true -> pre_src_sym pc = true -> pre_srcface_le pc = true ->
  exists c, fixup pc = Some c /\
            ranges_ok c = true /\ twin_ok c = true /\ next_prev_ok c = true /\ labels_ok c = true.
Proof.
  intros Hwf Hsym Hle. destruct (assignFaces_total pc Hwf) as (fo & Hfo).
  eexists. split; [apply (fixup_is pc fo Hfo)|].
  split; [apply asm_ranges_ok; assumption|]. split; [apply asm_twin_ok; assumption|].
  split; [apply asm_next_prev_ok; assumption|apply asm_labels_ok; assumption].
Qed.

(* ---------------------------------------------------------------- faces_ok of the assembled complex *)
Lemma filter_map_comm {A B} (g : A -> B) (p : B -> bool) (l : list A) :
  filter p (map g l) = map g (filter (fun x => p (g x)) l).
Proof. induction l as [|a t IH]; simpl; [reflexivity|]. destruct (p (g a)); simpl; rewrite IH; reflexivity. Qed.

Section AssembledFaces.
  Variable pc : precomplex.
  Hypothesis Hwf : pre_wf pc = true.
  Variable fo : faces_out.
  Hypothesis Hfo : assignFaces pc (l_next (fixVertices pc)) = Some fo.
  Variable c : complex.
  Hypothesis Hc : fixup pc = Some c.
  Let nx := l_next (fixVertices pc).

  Lemma asmf_edges : c_edges c = map (fun e => MkE (p_origin pc e) (p_twin pc e) (nx e) (l_prev (fixVertices pc) e) (fo_incident fo e)
                                   (p_srcEdge pc e) (p_srcFace pc e)
                                   (fst (populateInSetLabels pc (l_prev (fixVertices pc)) (fo_incident fo) (fo_in fo)) e)) (seq 0 (pnE pc))
                     /\ c_faces c = faces_of fo.
  Proof. unfold fixup in Hc. rewrite Hfo in Hc. inversion Hc. simpl. auto. Qed.
  Lemma asmf_nE : nE c = pnE pc.
  Proof. unfold nE. rewrite (proj1 asmf_edges), map_length, seq_length. reflexivity. Qed.
  Lemma asmf_next i : i < pnE pc -> exists e, get_e c i = Some e /\ e_next e = nx i /\ e_face e = fo_incident fo i.
  Proof.
    intros Hi. unfold get_e. rewrite (proj1 asmf_edges). rewrite (nth_error_map_seq _ _ _ Hi). eexists. split; [reflexivity|]. simpl. auto.
  Qed.
  Lemma orbit_is_walk s : forall fuel cur, cur < pnE pc -> orbit c s cur fuel = walk (nsucc nx) s cur fuel.
  Proof.
    induction fuel as [|k IH]; intros cur Hcur; [reflexivity|]. simpl.
    destruct (asmf_next cur Hcur) as (e & He & En & _). rewrite He, En. unfold nsucc at 1.
    destruct (Nat.eqb (nx cur) s); [reflexivity|]. rewrite IH; [reflexivity|]. apply (fix_range pc Hwf cur Hcur).
  Qed.
  Lemma count_face_ring j ring : nth_error (fo_cycles fo) j = Some ring -> count_face c j = length ring.
  Proof.
    intros Hr. unfold count_face. rewrite (proj1 asmf_edges), filter_map_comm, map_length. cbn [e_face].
    apply Permutation_length. apply NoDup_Permutation.
    - apply NoDup_filter, seq_NoDup.
    - apply (cycle_members pc Hwf fo Hfo j ring Hr).
    - intros x. rewrite filter_In, in_seq, Nat.eqb_eq. split.
      + intros (Hx & E). apply (incident_iff pc fo Hfo j ring x Hr); [lia|exact E].
      + intros Hin. destruct (cycle_members pc Hwf fo Hfo j ring Hr) as (_ & Hm). destruct (Hm x Hin) as (Hx & _).
        split; [lia|]. apply (incident_iff pc fo Hfo j ring x Hr Hx). exact Hin.
  Qed.
  Lemma asmf_faces_ok : faces_ok c = true.
  Proof.
    unfold faces_ok. apply andb_true_iff. split.
    - apply forallb_forall. intros [j f] Hjf. cbn [fst snd]. unfold faces_ix in Hjf. rewrite (proj2 asmf_edges) in Hjf.
      destruct (fo_cycles fo) as [|r0 rest] eqn:Ec.
      + unfold faces_of in Hjf. rewrite Ec in Hjf. simpl in Hjf. destruct Hjf as [E|[]]. inversion E; subst. simpl.
        rewrite asmf_nE. apply Nat.eqb_eq. destruct (pnE pc) eqn:En; [reflexivity|].
        pose proof (incident_range pc fo Hfo 0 ltac:(lia)) as H0. rewrite Ec in H0. simpl in H0. lia.
      + unfold faces_of in Hjf. rewrite Ec in Hjf. rewrite <- Ec in Hjf.
        apply in_indexed_from in Hjf as (_ & Hj). rewrite Nat.sub_0_r in Hj.
        destruct (nth_error (fo_cycles fo) j) as [ring|] eqn:Hr.
        2: { exfalso. apply nth_error_None in Hr.
             assert (H : j < length (map (fun jc : nat * list nat => MkF (Some (hd 0 (snd jc))) (fo_in fo (fst jc))) (indexed_from 0 (fo_cycles fo))))
               by (apply nth_error_Some; congruence).
             rewrite map_length, <- (map_length fst), map_fst_indexed_from, seq_length in H. lia. }
        erewrite map_nth_error in Hj by (apply nth_error_indexed; exact Hr). inversion Hj; subst f. cbn [f_cycle snd fst plus].
        destruct (cycle_is_chain pc fo Hfo j ring Hr) as (s & Hch & Hs).
        destruct (chain_head _ _ _ _ Hch) as (t & Et). rewrite Et. cbn [hd].
        apply andb_true_iff. split.
        * destruct (asmf_next s Hs) as (e & He & _ & Ef). apply field_is_spec. exists e. split; [exact He|].
          rewrite Ef. apply (incident_iff pc fo Hfo j ring s Hr Hs). rewrite Et. left. reflexivity.
        * rewrite asmf_nE, (orbit_is_walk s (pnE pc) s Hs).
          destruct (cycle_total nx (pnE pc) (fun e He => proj1 (fix_range pc Hwf e He)) (fix_next_inj pc Hwf) s Hs) as (l & Hl).
          fold nx. rewrite Hl. pose proof (walk_chain _ _ _ _ _ Hl) as Hch2.
          rewrite (chain_det _ _ _ _ Hch2 _ Hch). apply Nat.eqb_eq. symmetry. apply count_face_ring. exact Hr.
    - rewrite asmf_nE. destruct (pnE pc) eqn:En; [|reflexivity]. simpl.
      unfold nF. rewrite (proj2 asmf_edges). unfold faces_of.
      destruct (fo_cycles fo) as [|r0 rest] eqn:Ec; [reflexivity|].
      exfalso. destruct (cycle_is_chain pc fo Hfo 0 r0) as (s & _ & Hs); [rewrite Ec; reflexivity|lia].
  Qed.
End AssembledFaces.

(* everything of dcel_ok except Euler's formula *)
Lemma fixup_establishes_lemma pc :
  pre_wf pc = true -> pre_src_sym pc = true -> pre_srcface_le pc = true ->
  exists c, fixup pc = Some c /\
            ranges_ok c = true /\ twin_ok c = true /\ next_prev_ok c = true /\ faces_ok c = true /\ labels_ok c = true /\
            dcel_ok c = euler_ok c.
Proof.
  intros Hwf Hsym Hle. destruct (fixup_partial_lemma pc Hwf Hsym Hle) as (c & Hc & A & B & C & D).
  destruct (assignFaces_total pc Hwf) as (fo & Hfo).
  pose proof (asmf_faces_ok pc Hwf fo Hfo c Hc) as F.
  exists c. repeat split; try assumption. unfold dcel_ok. rewrite A, B, C, D, F. simpl. rewrite andb_true_r. reflexivity.
Qed.

(* statements of Props/C01_fixup.v that are conjunctions of the lemmas above *)
Lemma fix_next_prev_inverse_lemma pc : pre_wf pc = true ->
  let s := fixVertices pc in
  forall e, e < pnE pc ->
    l_next s e < pnE pc /\ l_prev s e < pnE pc /\ l_next s (l_prev s e) = e /\ l_prev s (l_next s e) = e.
Proof.
  intros Hwf s e He. destruct (fix_range pc Hwf e He) as (A & B).
  exact (conj A (conj B (conj (fix_next_prev pc Hwf e He) (fix_prev_next pc Hwf e He)))).
Qed.
Lemma faces_are_the_next_cycles_lemma pc fo : pre_wf pc = true ->
  assignFaces pc (l_next (fixVertices pc)) = Some fo ->
  let nx := l_next (fixVertices pc) in
  (forall e, e < pnE pc ->
     fo_incident fo e < length (fo_cycles fo) /\
     exists ring, nth_error (fo_cycles fo) (fo_incident fo e) = Some ring /\ In e ring) /\
  (forall e e', e < pnE pc -> e' < pnE pc ->
     (fo_incident fo e = fo_incident fo e' <-> exists k, Nat.iter k nx e = e')) /\
  (forall j, j < length (fo_cycles fo) ->
     exists ring, nth_error (fo_cycles fo) j = Some ring /\ hd 0 ring < pnE pc /\ fo_incident fo (hd 0 ring) = j) /\
  (forall j ring, nth_error (fo_cycles fo) j = Some ring ->
     NoDup ring /\ forall z, In z ring -> z < pnE pc /\ In (nx z) ring) /\
  (forall e, e < pnE pc -> fo_incident fo (nx e) = fo_incident fo e).
Proof.
  intros Hwf Hfo nx. repeat apply conj.
  - intros e He. exact (conj (incident_range pc fo Hfo e He) (incident_on_cycle pc fo Hfo e He)).
  - exact (same_face_iff pc fo Hfo).
  - exact (face_has_edge pc fo Hfo).
  - exact (cycle_members pc Hwf fo Hfo).
  - exact (next_same_face pc Hwf fo Hfo).
Qed.
