(* Property C01: proofs about the composed exact model of the overlay engine (Model/OverlayPipeline.v).
   Statements are in Props/C01_pipeline.v. *)
From Coq Require Import QArith List Bool Arith Lia Lqa Setoid.
From SF Require Import Base.GeomAST Base.QKernel Base.Planar Model.SetOpSpec Model.OverlayComplex Model.OverlayRings
  Model.OverlayRenode Model.OverlayFixup Model.OverlayPipeline
  Proofs.OverlayRenode_proofs Proofs.OverlayRenode_tree_proofs Proofs.OverlayRenode_ip_proofs Proofs.OverlayFixup_proofs
  Proofs.OverlayComplex_proofs.
Import ListNotations.
Local Open Scope Q_scope.

(* ================================================================ lists *)
Lemma find_idx_some {A} (f : A -> bool) l : forall k i, find_idx f l k = Some i ->
  (k <= i)%nat /\ exists x, nth_error l (i - k) = Some x /\ f x = true /\
  forall j y, (j < i - k)%nat -> nth_error l j = Some y -> f y = false.
Proof.
  induction l as [|a l IH]; intros k i H; [discriminate|]. cbn [find_idx] in H.
  destruct (f a) eqn:Ea.
  - inversion H; subst i. split; [lia|]. rewrite Nat.sub_diag. exists a. repeat split; auto. intros j y Hj; lia.
  - apply IH in H. destruct H as [Hk [x [Hx [Hf Hlt]]]]. split; [lia|]. exists x.
    replace (i - k)%nat with (S (i - S k)) by lia. repeat split; auto.
    intros [|j] y Hj Hy; [inversion Hy; subst; exact Ea|]. apply (Hlt j y); [lia|exact Hy].
Qed.
Lemma find_idx_none {A} (f : A -> bool) l : forall k, find_idx f l k = None <-> forall x, In x l -> f x = false.
Proof.
  induction l as [|a l IH]; intros k; cbn [find_idx]; [split; [intros _ x []|reflexivity]|].
  destruct (f a) eqn:Ea.
  - split; [discriminate|]. intros H. rewrite (H a (or_introl eq_refl)) in Ea. discriminate.
  - rewrite IH. split; [intros H x [<-|Hx]; auto | intros H x Hx; apply H; right; exact Hx].
Qed.
Lemma find_idx_0 {A} (f : A -> bool) l i : find_idx f l 0 = Some i ->
  exists x, nth_error l i = Some x /\ f x = true /\ forall j y, (j < i)%nat -> nth_error l j = Some y -> f y = false.
Proof. intros H. apply find_idx_some in H. rewrite Nat.sub_0_r in H. apply H. Qed.
Lemma find_idx_exists {A} (f : A -> bool) l k : existsb f l = true -> exists i, find_idx f l k = Some i.
Proof.
  intros H. destruct (find_idx f l k) eqn:E; [eauto|]. rewrite find_idx_none in E.
  apply existsb_exists in H. destruct H as [x [Hx Hf]]. rewrite (E x Hx) in Hf. discriminate.
Qed.

Lemma upd_nth_length {A} (f : A -> A) l : forall i, length (upd_nth i f l) = length l.
Proof. induction l as [|a l IH]; intros [|i]; cbn; auto. Qed.
Lemma nth_error_upd_nth {A} (f : A -> A) l : forall i j,
  nth_error (upd_nth i f l) j = if Nat.eqb i j then option_map f (nth_error l j) else nth_error l j.
Proof.
  induction l as [|a l IH]; intros [|i] [|j]; cbn; auto; try (destruct (Nat.eqb _ _); reflexivity).
Qed.
Lemma nth_error_upd_same {A} (f : A -> A) l i x : nth_error l i = Some x -> nth_error (upd_nth i f l) i = Some (f x).
Proof. intros H. rewrite nth_error_upd_nth, Nat.eqb_refl, H. reflexivity. Qed.
Lemma nth_error_upd_other {A} (f : A -> A) l i j : i <> j -> nth_error (upd_nth i f l) j = nth_error l j.
Proof. intros H. rewrite nth_error_upd_nth. apply Nat.eqb_neq in H. rewrite H. reflexivity. Qed.

(* ================================================================ sequences up to Qeq *)
Definition seqs_eq (s t : list pt) : Prop := Forall2 pt_eq s t.
Lemma seqs_eq_refl s : seqs_eq s s.
Proof. induction s; constructor; [reflexivity|assumption]. Qed.
Lemma seqs_eq_sym s t : seqs_eq s t -> seqs_eq t s.
Proof. induction 1; constructor; [symmetry|]; assumption. Qed.
Lemma seqs_eq_trans s t u : seqs_eq s t -> seqs_eq t u -> seqs_eq s u.
Proof.
  intros H; revert u; induction H; intros u Hu; inversion Hu; subst; constructor.
  - etransitivity; eauto.
  - apply IHForall2. assumption.
Qed.
Lemma seqs_eq_app s s' t t' : seqs_eq s s' -> seqs_eq t t' -> seqs_eq (s ++ t) (s' ++ t').
Proof. intros H1 H2. apply Forall2_app; assumption. Qed.
Lemma seqs_eq_rev s t : seqs_eq s t -> seqs_eq (rev s) (rev t).
Proof. induction 1; cbn; [constructor|]. apply seqs_eq_app; [assumption|constructor; [assumption|constructor]]. Qed.
Lemma seqs_eq_length s t : seqs_eq s t -> length s = length t.
Proof. induction 1; cbn; congruence. Qed.
Lemma seq_eqb_iff s t : seq_eqb s t = true <-> seqs_eq s t.
Proof.
  unfold seq_eqb. revert t. induction s as [|a s IH]; intros [|b t]; cbn; split; intros H; try discriminate; try constructor;
    try (inversion H; fail).
  - apply andb_true_iff in H. destruct H as [H1 H2]. apply andb_true_iff in H2. destruct H2 as [H2 H3].
    apply pt_eqb_iff; exact H2.
  - apply andb_true_iff in H. destruct H as [H1 H2]. apply andb_true_iff in H2. destruct H2 as [H2 H3].
    apply IH. apply andb_true_iff; split; assumption.
  - inversion H; subst. apply IH in H5. apply andb_true_iff in H5. destruct H5 as [H5 H6].
    apply andb_true_iff; split; [exact H5|]. apply andb_true_iff; split; [apply pt_eqb_iff; assumption|exact H6].
Qed.

(* the key: the first two points *)
Lemma he_key_eqb_spec c d : he_key_eqb c d = true <->
  exists c0 c1 cr d0 d1 dr, c = c0 :: c1 :: cr /\ d = d0 :: d1 :: dr /\ pt_eq c0 d0 /\ pt_eq c1 d1.
Proof.
  destruct c as [|c0 [|c1 cr]]; cbn; try (split; [discriminate | intros (?&?&?&?&?&?&H&_); discriminate]).
  destruct d as [|d0 [|d1 dr]]; try (split; [discriminate | intros (?&?&?&?&?&?&_&H&_); discriminate]).
  rewrite andb_true_iff, !pt_eqb_iff. split.
  - intros [H1 H2]. exists c0, c1, cr, d0, d1, dr. auto.
  - intros (?&?&?&?&?&?&H1&H2&H3&H4). inversion H1; inversion H2; subst. auto.
Qed.
Lemma he_key_eqb_sym c d : he_key_eqb c d = he_key_eqb d c.
Proof.
  assert (K : forall c d, he_key_eqb c d = true -> he_key_eqb d c = true).
  { intros c' d' E1. apply he_key_eqb_spec in E1. destruct E1 as (c0&c1&cr&d0&d1&dr&->&->&H3&H4).
    apply he_key_eqb_spec. exists d0, d1, dr, c0, c1, cr. split; [reflexivity|split; [reflexivity|split; symmetry; assumption]]. }
  destruct (he_key_eqb c d) eqn:E1, (he_key_eqb d c) eqn:E2; auto.
  - apply K in E1. congruence.
  - apply K in E2. congruence.
Qed.
Lemma he_key_eqb_trans c d e : he_key_eqb c d = true -> he_key_eqb d e = true -> he_key_eqb c e = true.
Proof.
  rewrite !he_key_eqb_spec. intros (?&?&?&?&?&?&->&->&H3&H4) (?&?&?&?&?&?&E&->&H5&H6). inversion E; subst.
  do 6 eexists. split; [reflexivity|split; [reflexivity|split; etransitivity; eauto]].
Qed.
Lemma seqs_eq_key s t : seqs_eq s t -> (2 <= length s)%nat -> he_key_eqb s t = true.
Proof.
  intros H L. destruct H as [|a b s t Hab H]; [cbn in L; lia|]. destruct H as [|a' b' s t Ha'b' H]; [cbn in L; lia|].
  apply he_key_eqb_spec. do 6 eexists. split; [reflexivity|split; [reflexivity|split; assumption]].
Qed.
Lemma he_key_len c d : he_key_eqb c d = true -> (2 <= length c)%nat /\ (2 <= length d)%nat.
Proof. rewrite he_key_eqb_spec. intros (?&?&?&?&?&?&->&->&_). cbn. lia. Qed.

(* ================================================================ the half-edge table *)
Lemma chain_shape_len verts c : chain_shape_ok verts c = true -> (2 <= length c)%nat.
Proof. destruct c as [|a [|b c]]; cbn; try discriminate. lia. Qed.

Lemma set_lab_le l m op : lab_le l m = true -> lab_le l (set_lab m op) = true.
Proof. destruct l as [a b], m as [c d], op, a, b, c, d; cbn; auto. Qed.
Lemma set_lab_le2 l m op : lab_le l m = true -> lab_le (set_lab l op) (set_lab m op) = true.
Proof. destruct l as [a b], m as [c d], op, a, b, c, d; cbn; auto. Qed.

Lemma upd_two_app {A} (es : list A) x y f g :
  upd_nth (length es + 1) g (upd_nth (length es) f (es ++ [x; y])) = es ++ [f x; g y].
Proof. induction es as [|a es IH]; [reflexivity|]. cbn [length app Nat.add upd_nth]. f_equal. exact IH. Qed.
Lemma seqs_eq_hd s t p : seqs_eq s t -> hd_error t = Some p -> exists q, hd_error s = Some q /\ pt_eq q p.
Proof. intros H. destruct H as [|a b s t Hab H]; cbn; [discriminate|]. intros E; inversion E; subst. eauto. Qed.

Section Table.
  Variable verts : list pt.
  Variable S : list (list pt).
  Hypothesis S_shape : forall s, In s S -> chain_shape_ok verts s = true.
  Hypothesis S_keys : forall s t, In s S -> In t S -> he_key_eqb s t = true -> seqs_eq s t.

  Definition OriginOK (h : hrec) : Prop :=
    exists p v, hd_error (h_seq h) = Some p /\ nth_error verts (h_origin h) = Some v /\ pt_eq v p.
  Definition EdgeOK (es : list hrec) (i : nat) (h : hrec) : Prop :=
    OriginOK h /\
    exists t, nth_error es (h_twin h) = Some t /\ h_twin t = i /\ h_twin h <> i /\ seqs_eq (h_seq t) (rev (h_seq h)).
  Definition LabOK (es : list hrec) (h : hrec) : Prop :=
    lab_le (h_srcF h) (h_srcE h) = true /\ forall t, nth_error es (h_twin h) = Some t -> h_srcE t = h_srcE h.
  Record Inv (st : bstate) : Prop := {
    inv_vlen : length (b_vsrc st) = length verts;
    inv_in : forall i h, nth_error (b_edges st) i = Some h -> In (h_seq h) S;
    inv_key : forall i j hi hj, nth_error (b_edges st) i = Some hi -> nth_error (b_edges st) j = Some hj ->
                he_key_eqb (h_seq hi) (h_seq hj) = true -> i = j;
    inv_edge : forall i h, nth_error (b_edges st) i = Some h -> EdgeOK (b_edges st) i h;
    inv_lab : forall i h, nth_error (b_edges st) i = Some h -> LabOK (b_edges st) h }.

  Lemma he_lookup_some es s i : he_lookup es s = Some i ->
    exists h, nth_error es i = Some h /\ he_key_eqb (h_seq h) s = true.
  Proof. unfold he_lookup. intros H. apply find_idx_0 in H. destruct H as [h [H1 [H2 _]]]. eauto. Qed.
  Lemma he_lookup_none es s : he_lookup es s = None <-> forall h, In h es -> he_key_eqb (h_seq h) s = false.
  Proof. unfold he_lookup. apply find_idx_none. Qed.
  (* with distinct keys the lookup returns THE record with the key *)
  Lemma he_lookup_unique st s j h : Inv st -> nth_error (b_edges st) j = Some h -> he_key_eqb (h_seq h) s = true ->
    he_lookup (b_edges st) s = Some j.
  Proof.
    intros HI Hj Hk. destruct (he_lookup (b_edges st) s) as [i|] eqn:E.
    - apply he_lookup_some in E. destruct E as [h' [Hi Hk']]. f_equal.
      apply (inv_key _ HI i j h' h Hi Hj). apply (he_key_eqb_trans _ s); [exact Hk'|]. rewrite he_key_eqb_sym. exact Hk.
    - rewrite he_lookup_none in E. rewrite (E h (nth_error_In _ _ Hj)) in Hk. discriminate.
  Qed.

  Definition vertex_at (p : pt) (v : nat) : Prop := exists q, nth_error verts v = Some q /\ pt_eq q p.
  Lemma vindex_spec p v : vindex verts p = Some v -> vertex_at p v.
  Proof.
    unfold vindex. intros H. apply find_idx_0 in H. destruct H as [q [H1 [H2 _]]]. exists q. split; [exact H1|].
    apply pt_eqb_iff in H2. symmetry. exact H2.
  Qed.
  Lemma vindex_total p : existsb (pt_eqb p) verts = true -> exists v, vindex verts p = Some v.
  Proof. apply find_idx_exists. Qed.

  (* ---- the structural step of addOrGetEdge *)
  Definition link (es : list hrec) (c : list pt) (sv ev : nat) : list hrec * nat * nat :=
    let '(es1, f) := get_or_add es c in
    let '(es2, r) := get_or_add es1 (rev c) in
    (upd_nth r (set_origin_twin ev f) (upd_nth f (set_origin_twin sv r) es2), f, r).

  Lemma hd_error_rev_last (c : list pt) p0 : hd_error (rev c) = Some (last c p0) \/ c = [].
  Proof.
    destruct c as [|a c]; [right; reflexivity|left]. revert a. induction c as [|b c IH]; intros a; [reflexivity|].
    specialize (IH b). cbn [rev] in *. cbn [last]. destruct (rev c ++ [b]) eqn:E; [destruct (rev c); discriminate|].
    cbn in IH |- *. destruct c; exact IH.
  Qed.

  Lemma link_inv st c sv ev p0 cr :
    Inv st -> In c S -> In (rev c) S -> he_key_eqb c (rev c) = false -> c = p0 :: cr ->
    vertex_at p0 sv -> vertex_at (last c p0) ev ->
    forall el f r, link (b_edges st) c sv ev = (el, f, r) ->
    Inv (MkB (b_vsrc st) el) /\ f <> r /\
    exists hf hr, nth_error el f = Some hf /\ nth_error el r = Some hr /\ h_twin hf = r /\ h_twin hr = f.
  Proof.
    intros HI Hc Hrc Hpal Ec Hsv Hev el f r HL.
    pose proof (chain_shape_len _ _ (S_shape _ Hc)) as Lc.
    assert (Lrc : (2 <= length (rev c))%nat) by (rewrite rev_length; exact Lc).
    assert (Hhd : hd_error c = Some p0) by (subst c; reflexivity).
    assert (Hhdr : hd_error (rev c) = Some (last c p0)).
    { destruct (hd_error_rev_last c p0) as [H|H]; [exact H | subst c; discriminate]. }
    unfold link in HL. destruct (he_lookup (b_edges st) c) as [f0|] eqn:Lk.
    - (* the key is present: nothing is added *)
      unfold get_or_add in HL at 1. rewrite Lk in HL.
      destruct (he_lookup_some _ _ _ Lk) as [hf [Hf Kf]].
      assert (Sf : seqs_eq (h_seq hf) c) by (apply S_keys; [apply (inv_in _ HI f0); exact Hf | exact Hc | exact Kf]).
      destruct (inv_edge _ HI f0 hf Hf) as [Of [t [Ht [Tt [Tne St]]]]].
      assert (Kt : he_key_eqb (h_seq t) (rev c) = true).
      { apply seqs_eq_key; [|rewrite (seqs_eq_length _ _ St), rev_length, (seqs_eq_length _ _ Sf); exact Lc].
        apply (seqs_eq_trans _ _ _ St). apply seqs_eq_rev. exact Sf. }
      pose proof (he_lookup_unique st (rev c) (h_twin hf) t HI Ht Kt) as LU.
      unfold get_or_add in HL. rewrite LU in HL.
      inversion HL; subst el f r; clear HL.
      set (r := h_twin hf) in *.
      assert (Nth : forall i, nth_error (upd_nth r (set_origin_twin ev f0) (upd_nth f0 (set_origin_twin sv r) (b_edges st))) i =
                    if Nat.eqb i f0 then Some (set_origin_twin sv r hf)
                    else if Nat.eqb i r then Some (set_origin_twin ev f0 t) else nth_error (b_edges st) i).
      { intros i. rewrite !nth_error_upd_nth. rewrite (Nat.eqb_sym r i), (Nat.eqb_sym f0 i).
        destruct (Nat.eqb i f0) eqn:E1.
        - apply Nat.eqb_eq in E1; subst i. destruct (Nat.eqb f0 r) eqn:E2; [apply Nat.eqb_eq in E2; congruence|].
          rewrite Hf. reflexivity.
        - destruct (Nat.eqb i r) eqn:E2; [apply Nat.eqb_eq in E2; subst i; rewrite Ht; reflexivity | reflexivity]. }
      (* every record keeps seq, twin and labels; the origins of f0 and r are re-assigned *)
      assert (Same : forall i h', nth_error (upd_nth r (set_origin_twin ev f0) (upd_nth f0 (set_origin_twin sv r) (b_edges st))) i = Some h' ->
                 exists h, nth_error (b_edges st) i = Some h /\ h_seq h' = h_seq h /\ h_twin h' = h_twin h /\
                           h_srcE h' = h_srcE h /\ h_srcF h' = h_srcF h /\ OriginOK h').
      { intros i h' H. rewrite Nth in H. destruct (Nat.eqb i f0) eqn:E1.
        - apply Nat.eqb_eq in E1; subst i. inversion H; subst h'. exists hf. cbn. repeat split; auto.
          destruct Hsv as [q [Hq1 Hq2]]. destruct (seqs_eq_hd _ _ _ Sf Hhd) as [a [Ha1 Ha2]].
          exists a, q. cbn. split; [exact Ha1|split; [exact Hq1|etransitivity; [exact Hq2|symmetry; exact Ha2]]].
        - destruct (Nat.eqb i r) eqn:E2.
          + apply Nat.eqb_eq in E2; subst i. inversion H; subst h'. exists t. cbn. repeat split; auto.
            destruct Hev as [q [Hq1 Hq2]].
            assert (St' : seqs_eq (h_seq t) (rev c)) by (apply (seqs_eq_trans _ _ _ St); apply seqs_eq_rev; exact Sf).
            destruct (seqs_eq_hd _ _ _ St' Hhdr) as [a [Ha1 Ha2]].
            exists a, q. cbn. split; [exact Ha1|split; [exact Hq1|etransitivity; [exact Hq2|symmetry; exact Ha2]]].
          + exists h'. destruct (inv_edge _ HI i h' H) as [O _]. repeat split; auto. }
      assert (Back : forall i h, nth_error (b_edges st) i = Some h ->
                 exists h', nth_error (upd_nth r (set_origin_twin ev f0) (upd_nth f0 (set_origin_twin sv r) (b_edges st))) i = Some h' /\
                            h_seq h' = h_seq h /\ h_twin h' = h_twin h /\ h_srcE h' = h_srcE h /\ h_srcF h' = h_srcF h).
      { intros i h H. rewrite Nth. destruct (Nat.eqb i f0) eqn:E1.
        - apply Nat.eqb_eq in E1; subst i. rewrite Hf in H; inversion H; subst h. eexists; split; [reflexivity|]. cbn. auto.
        - destruct (Nat.eqb i r) eqn:E2.
          + apply Nat.eqb_eq in E2; subst i. rewrite Ht in H; inversion H; subst h. eexists; split; [reflexivity|]. cbn. auto.
          + exists h. repeat split; auto. }
      split; [|split].
      + constructor; cbn [b_vsrc b_edges].
        * apply (inv_vlen _ HI).
        * intros i h' H. destruct (Same i h' H) as [h [H1 [H2 _]]]. rewrite H2. apply (inv_in _ HI i h H1).
        * intros i j hi hj Hi Hj K. destruct (Same i hi Hi) as [h1 [A1 [A2 _]]]. destruct (Same j hj Hj) as [h2 [B1 [B2 _]]].
          rewrite A2, B2 in K. apply (inv_key _ HI i j h1 h2 A1 B1 K).
        * intros i h' H. destruct (Same i h' H) as [h [H1 [H2 [H3 [_ [_ O]]]]]]. split; [exact O|].
          destruct (inv_edge _ HI i h H1) as [_ [t0 [T1 [T2 [T3 T4]]]]].
          destruct (Back _ _ T1) as [t0' [U1 [U2 [U3 _]]]]. exists t0'. rewrite H3, H2, U2, U3. auto.
        * intros i h' H. destruct (Same i h' H) as [h [H1 [H2 [H3 [H4 [H5 _]]]]]].
          destruct (inv_lab _ HI i h H1) as [L1 L2]. split; [rewrite H5, H4; exact L1|].
          intros t0' Ht0'. rewrite H3 in Ht0'. destruct (Same _ _ Ht0') as [t0 [V1 [_ [_ [V4 _]]]]]. rewrite V4, H4. apply L2. exact V1.
      + intros E. apply Tne. symmetry. exact E.
      + exists (set_origin_twin sv r hf), (set_origin_twin ev f0 t). rewrite !Nth, Nat.eqb_refl.
        destruct (Nat.eqb r f0) eqn:E; [apply Nat.eqb_eq in E; congruence|]. rewrite Nat.eqb_refl. cbn. auto.
    - (* new key: two records are appended *)
      unfold get_or_add in HL at 1. rewrite Lk in HL.
      assert (Lk2 : he_lookup ((b_edges st) ++ [MkH c 0 0 (false, false) (false, false)]) (rev c) = None).
      { apply he_lookup_none. intros h Hh. apply in_app_or in Hh. destruct Hh as [Hh|[<-|[]]]; [|cbn; exact Hpal].
        destruct (he_key_eqb (h_seq h) (rev c)) eqn:K; [exfalso|reflexivity].
        destruct (In_nth_error _ _ Hh) as [i Hi].
        assert (Sh : seqs_eq (h_seq h) (rev c)) by (apply S_keys; [apply (inv_in _ HI i); exact Hi | exact Hrc | exact K]).
        destruct (inv_edge _ HI i h Hi) as [_ [t [Ht [_ [_ St]]]]].
        assert (Kt : he_key_eqb (h_seq t) c = true).
        { apply seqs_eq_key; [|rewrite (seqs_eq_length _ _ St), rev_length, (seqs_eq_length _ _ Sh), rev_length; exact Lc].
          apply (seqs_eq_trans _ _ _ St). rewrite <- (rev_involutive c). apply seqs_eq_rev. exact Sh. }
        rewrite he_lookup_none in Lk. rewrite (Lk t (nth_error_In _ _ Ht)) in Kt. discriminate. }
      unfold get_or_add in HL. rewrite Lk2 in HL. rewrite app_length in HL. cbn [length] in HL.
      inversion HL; subst el f r; clear HL.
      rewrite <- app_assoc. cbn [app]. rewrite upd_two_app. unfold set_origin_twin. cbn [h_seq h_srcE h_srcF].
      set (n := length (b_edges st)) in *.
      set (nf := MkH c sv (n + 1) (false, false) (false, false)).
      set (nr := MkH (rev c) ev n (false, false) (false, false)).
      assert (Nth : forall i, nth_error ((b_edges st) ++ [nf; nr]) i =
                    if Nat.ltb i n then nth_error (b_edges st) i else if Nat.eqb i n then Some nf else if Nat.eqb i (n + 1) then Some nr else None).
      { intros i. destruct (Nat.ltb i n) eqn:E1.
        - apply Nat.ltb_lt in E1. apply nth_error_app1. exact E1.
        - apply Nat.ltb_ge in E1. rewrite nth_error_app2 by exact E1. fold n.
          destruct (Nat.eqb i n) eqn:E2; [apply Nat.eqb_eq in E2; subst i; rewrite Nat.sub_diag; reflexivity|].
          apply Nat.eqb_neq in E2. destruct (Nat.eqb i (n + 1)) eqn:E3.
          + apply Nat.eqb_eq in E3; subst i. replace (n + 1 - n)%nat with 1%nat by lia. reflexivity.
          + apply Nat.eqb_neq in E3. destruct (i - n)%nat as [|[|k]] eqn:E4; try lia. cbn. destruct k; reflexivity. }
      assert (Old : forall i h, nth_error (b_edges st) i = Some h -> nth_error ((b_edges st) ++ [nf; nr]) i = Some h).
      { intros i h H. rewrite nth_error_app1; [exact H | apply nth_error_Some; congruence]. }
      assert (Cases : forall i h, nth_error ((b_edges st) ++ [nf; nr]) i = Some h ->
                (nth_error (b_edges st) i = Some h /\ (i < n)%nat) \/ (i = n /\ h = nf) \/ (i = (n + 1)%nat /\ h = nr)).
      { intros i h H. rewrite Nth in H. destruct (Nat.ltb i n) eqn:E1; [left; split; [exact H | apply Nat.ltb_lt; exact E1]|].
        destruct (Nat.eqb i n) eqn:E2; [right; left; apply Nat.eqb_eq in E2; inversion H; auto|].
        destruct (Nat.eqb i (n + 1)) eqn:E3; [right; right; apply Nat.eqb_eq in E3; inversion H; auto | discriminate]. }
      assert (Nf : nth_error ((b_edges st) ++ [nf; nr]) n = Some nf) by (rewrite Nth, Nat.ltb_irrefl, Nat.eqb_refl; reflexivity).
      assert (Nr : nth_error ((b_edges st) ++ [nf; nr]) (n + 1) = Some nr).
      { rewrite Nth. replace (Nat.ltb (n + 1) n) with false by (symmetry; apply Nat.ltb_ge; lia).
        replace (Nat.eqb (n + 1) n) with false by (symmetry; apply Nat.eqb_neq; lia). rewrite Nat.eqb_refl. reflexivity. }
      rewrite he_lookup_none in Lk. rewrite he_lookup_none in Lk2.
      split; [|split].
      + constructor; cbn [b_vsrc b_edges].
        * apply (inv_vlen _ HI).
        * intros i h H. destruct (Cases i h H) as [[H1 _]|[[_ ->]|[_ ->]]]; [apply (inv_in _ HI i h H1) | exact Hc | exact Hrc].
        * intros i j hi hj Hi Hj K.
          assert (KO : forall h, In h (b_edges st) -> he_key_eqb (h_seq h) c = false /\ he_key_eqb (h_seq h) (rev c) = false).
          { intros h Hh. split; [apply Lk; exact Hh | apply Lk2; apply in_or_app; left; exact Hh]. }
          destruct (Cases i hi Hi) as [[A1 A2]|[[-> ->]|[-> ->]]]; destruct (Cases j hj Hj) as [[B1 B2]|[[-> ->]|[-> ->]]]; auto; cbn [h_seq nf nr] in K.
          -- apply (inv_key _ HI i j hi hj A1 B1 K).
          -- rewrite (proj1 (KO hi (nth_error_In _ _ A1))) in K. discriminate.
          -- rewrite (proj2 (KO hi (nth_error_In _ _ A1))) in K. discriminate.
          -- rewrite he_key_eqb_sym, (proj1 (KO hj (nth_error_In _ _ B1))) in K. discriminate.
          -- rewrite Hpal in K. discriminate.
          -- rewrite he_key_eqb_sym, (proj2 (KO hj (nth_error_In _ _ B1))) in K. discriminate.
          -- rewrite he_key_eqb_sym, Hpal in K. discriminate.
        * intros i h H. destruct (Cases i h H) as [[H1 H2]|[[-> ->]|[-> ->]]].
          -- destruct (inv_edge _ HI i h H1) as [O [t [T1 T2]]]. split; [exact O|]. exists t. split; [apply Old; exact T1 | exact T2].
          -- split.
             ++ destruct Hsv as [q [Hq1 Hq2]]. exists p0, q. cbn. auto.
             ++ exists nr. cbn [h_twin nf nr h_seq]. repeat split; [exact Nr | lia | apply seqs_eq_refl].
          -- split.
             ++ destruct Hev as [q [Hq1 Hq2]]. exists (last c p0), q. cbn. auto.
             ++ exists nf. cbn [h_twin nf nr h_seq]. repeat split; [exact Nf | lia | rewrite rev_involutive; apply seqs_eq_refl].
        * intros i h H. destruct (Cases i h H) as [[H1 H2]|[[-> ->]|[-> ->]]].
          -- destruct (inv_lab _ HI i h H1) as [L1 L2]. split; [exact L1|]. intros t Ht. cbn [b_edges] in Ht.
             destruct (inv_edge _ HI i h H1) as [_ [t' [T1 _]]]. rewrite (Old _ _ T1) in Ht. inversion Ht; subst. apply L2. exact T1.
          -- split; [reflexivity|]. cbn [h_twin nf b_edges]. intros t Ht. rewrite Nr in Ht. inversion Ht. reflexivity.
          -- split; [reflexivity|]. cbn [h_twin nr b_edges]. intros t Ht. rewrite Nf in Ht. inversion Ht. reflexivity.
      + lia.
      + exists nf, nr. auto.
  Qed.

  (* ---- the label assignments of the callers *)
  Definition same_core (h h' : hrec) : Prop := h_seq h' = h_seq h /\ h_origin h' = h_origin h /\ h_twin h' = h_twin h.
  Lemma label_inv st es' vs' f r hf hr hf' hr' :
    Inv st -> nth_error (b_edges st) f = Some hf -> nth_error (b_edges st) r = Some hr ->
    h_twin hf = r -> h_twin hr = f -> f <> r -> length vs' = length verts ->
    (forall i, nth_error es' i = if Nat.eqb i f then Some hf' else if Nat.eqb i r then Some hr' else nth_error (b_edges st) i) ->
    same_core hf hf' -> same_core hr hr' -> h_srcE hf' = h_srcE hr' ->
    lab_le (h_srcF hf') (h_srcE hf') = true -> lab_le (h_srcF hr') (h_srcE hr') = true ->
    Inv (MkB vs' es').
  Proof.
    intros HI Hf Hr Tf Tr Hne Hvs Nth [Cf1 [Cf2 Cf3]] [Cr1 [Cr2 Cr3]] HE Lf Lr.
    assert (Same : forall i h', nth_error es' i = Some h' ->
               exists h, nth_error (b_edges st) i = Some h /\ same_core h h' /\
                         ((i = f /\ h' = hf') \/ (i = r /\ h' = hr') \/ (i <> f /\ i <> r /\ h' = h))).
    { intros i h' H. rewrite Nth in H. destruct (Nat.eqb i f) eqn:E1.
      - apply Nat.eqb_eq in E1; subst i. inversion H; subst h'. exists hf. repeat split; auto.
      - destruct (Nat.eqb i r) eqn:E2.
        + apply Nat.eqb_eq in E2; subst i. inversion H; subst h'. exists hr. repeat split; auto.
        + apply Nat.eqb_neq in E1. apply Nat.eqb_neq in E2. exists h'. repeat split; auto. }
    assert (Back : forall i h, nth_error (b_edges st) i = Some h -> exists h', nth_error es' i = Some h' /\ same_core h h').
    { intros i h H. rewrite Nth. destruct (Nat.eqb i f) eqn:E1.
      - apply Nat.eqb_eq in E1; subst i. rewrite Hf in H; inversion H; subst h. exists hf'. repeat split; auto.
      - destruct (Nat.eqb i r) eqn:E2.
        + apply Nat.eqb_eq in E2; subst i. rewrite Hr in H; inversion H; subst h. exists hr'. repeat split; auto.
        + exists h. repeat split; auto. }
    constructor; cbn [b_vsrc b_edges].
    - exact Hvs.
    - intros i h' H. destruct (Same i h' H) as [h [H1 [[H2 _] _]]]. rewrite H2. apply (inv_in _ HI i h H1).
    - intros i j hi hj Hi Hj K. destruct (Same i hi Hi) as [h1 [A1 [[A2 _] _]]]. destruct (Same j hj Hj) as [h2 [B1 [[B2 _] _]]].
      rewrite A2, B2 in K. apply (inv_key _ HI i j h1 h2 A1 B1 K).
    - intros i h' H. destruct (Same i h' H) as [h [H1 [[H2 [H3 H4]] _]]].
      destruct (inv_edge _ HI i h H1) as [[p [v [O1 [O2 O3]]]] [t0 [T1 [T2 [T3 T4]]]]]. split.
      + exists p, v. rewrite H2, H3. auto.
      + destruct (Back _ _ T1) as [t0' [U1 [U2 [U3 U4]]]]. exists t0'. rewrite H4, H2, U2, U4. auto.
    - intros i h' H. destruct (Same i h' H) as [h [H1 [[H2 [H3 H4]] Hcase]]].
      destruct (inv_lab _ HI i h H1) as [L1 L2].
      destruct Hcase as [[-> ->]|[[-> ->]|[N1 [N2 ->]]]].
      + split; [exact Lf|]. intros t0 Ht0. rewrite Cf3, Tf, Nth in Ht0.
        destruct (Nat.eqb r f) eqn:E; [apply Nat.eqb_eq in E; congruence|]. rewrite Nat.eqb_refl in Ht0. inversion Ht0; subst. auto.
      + split; [exact Lr|]. intros t0 Ht0. rewrite Cr3, Tr, Nth, Nat.eqb_refl in Ht0. inversion Ht0; subst. auto.
      + split; [exact L1|]. intros t0 Ht0. rewrite Nth in Ht0.
        destruct (inv_edge _ HI i h H1) as [_ [t1 [T1 [T2 _]]]].
        destruct (Nat.eqb (h_twin h) f) eqn:E1.
        { apply Nat.eqb_eq in E1. rewrite E1, Hf in T1. inversion T1; subst t1. congruence. }
        destruct (Nat.eqb (h_twin h) r) eqn:E2.
        { apply Nat.eqb_eq in E2. rewrite E2, Hr in T1. inversion T1; subst t1. congruence. }
        apply L2. exact Ht0.
  Qed.

  (* ---- addOrGetEdge with the labels: the invariant is kept and the call does not fail *)
  Lemma add_edge_inv st op k c :
    Inv st -> In c S -> In (rev c) S -> he_key_eqb c (rev c) = false ->
    exists st', add_edge verts op k st c = Some st' /\ Inv st'.
  Proof.
    intros HI Hc Hrc Hpal.
    pose proof (S_shape _ Hc) as Sh. unfold chain_shape_ok in Sh.
    destruct c as [|p0 [|p1 cr]]; try discriminate.
    cbn [add_edge]. remember (p0 :: p1 :: cr) as c eqn:Ec'.
    apply andb_true_iff in Sh. destruct Sh as [Sh Sh3]. apply andb_true_iff in Sh. destruct Sh as [Sh1 Sh2].
    destruct (vindex_total _ Sh2) as [sv Hsv]. destruct (vindex_total _ Sh3) as [ev Hev].
    assert (Hhd : hd p0 (rev c) = last c p0).
    { destruct (hd_error_rev_last c p0) as [H|H]; [|rewrite Ec' in H; discriminate]. destruct (rev c); [discriminate|]. cbn in H |- *. congruence. }
    unfold add_edge_body.
    destruct (get_or_add (b_edges st) c) as [es1 f] eqn:G1. destruct (get_or_add es1 (rev c)) as [es2 r] eqn:G2.
    rewrite Hsv, Hhd, Hev.
    assert (HL : link (b_edges st) c sv ev = (upd_nth r (set_origin_twin ev f) (upd_nth f (set_origin_twin sv r) es2), f, r)).
    { unfold link. rewrite G1, G2. reflexivity. }
    destruct (link_inv st c sv ev p0 (p1 :: cr) HI Hc Hrc Hpal Ec' (vindex_spec _ _ Hsv) (vindex_spec _ _ Hev) _ _ _ HL)
      as [HI3 [Hne [hf [hr [Nf [Nr [Tf Tr]]]]]]].
    set (es3 := upd_nth r (set_origin_twin ev f) (upd_nth f (set_origin_twin sv r) es2)) in *.
    pose proof (inv_vlen _ HI3) as Hvl. cbn [b_vsrc] in Hvl.
    destruct (inv_lab _ HI3 f hf Nf) as [Lf1 Lf2]. cbn [b_edges] in Lf2. rewrite Tf in Lf2. specialize (Lf2 hr Nr).
    destruct (inv_lab _ HI3 r hr Nr) as [Lr1 _].
    destruct k.
    - eexists; split; [reflexivity | exact HI3].
    - eexists; split; [reflexivity|].
      apply (label_inv (MkB (b_vsrc st) es3) _ _ f r hf hr (set_srcE op hf) (set_srcE op hr)); auto.
      + rewrite !upd_nth_length. exact Hvl.
      + intros i. cbn [b_edges]. rewrite !nth_error_upd_nth. rewrite (Nat.eqb_sym r i), (Nat.eqb_sym f i).
        destruct (Nat.eqb i f) eqn:E1.
        * apply Nat.eqb_eq in E1; subst i. destruct (Nat.eqb f r) eqn:E2; [apply Nat.eqb_eq in E2; congruence|]. rewrite Nf. reflexivity.
        * destruct (Nat.eqb i r) eqn:E2; [apply Nat.eqb_eq in E2; subst i; rewrite Nr; reflexivity|reflexivity].
      + repeat split.
      + repeat split.
      + cbn. rewrite Lf2. reflexivity.
      + cbn. apply set_lab_le. exact Lf1.
      + cbn. apply set_lab_le. exact Lr1.
    - eexists; split; [reflexivity|].
      apply (label_inv (MkB (b_vsrc st) es3) _ _ f r hf hr (set_srcF op (set_srcE op hf)) (set_srcE op hr)); auto.
      + rewrite !upd_nth_length. exact Hvl.
      + intros i. cbn [b_edges]. rewrite !nth_error_upd_nth. rewrite (Nat.eqb_sym r i), (Nat.eqb_sym f i).
        destruct (Nat.eqb i f) eqn:E1.
        * apply Nat.eqb_eq in E1; subst i. destruct (Nat.eqb f r) eqn:E2; [apply Nat.eqb_eq in E2; congruence|]. rewrite Nf. reflexivity.
        * destruct (Nat.eqb i r) eqn:E2; [apply Nat.eqb_eq in E2; subst i; rewrite Nr; reflexivity|reflexivity].
      + repeat split.
      + repeat split.
      + cbn. rewrite Lf2. reflexivity.
      + cbn. apply set_lab_le2. exact Lf1.
      + cbn. apply set_lab_le. exact Lr1.
  Qed.

  (* ---- the loops around it *)
  Definition ChainOK (c : list pt) : Prop := In c S /\ In (rev c) S /\ he_key_eqb c (rev c) = false.
  Definition SeqOK (I : list pt) (ps : list pt) : Prop :=
    exists cs, chains_of I ps = Some cs /\ forall c, In c cs -> ChainOK c.

  Lemma add_chains_inv op k cs : forall st, Inv st -> (forall c, In c cs -> ChainOK c) ->
    exists st', add_chains verts op k st cs = Some st' /\ Inv st'.
  Proof.
    unfold add_chains. induction cs as [|c cs IH]; intros st HI H; [exists st; auto|].
    cbn [fold_left obind]. destruct (H c (or_introl eq_refl)) as [H1 [H2 H3]].
    destruct (add_edge_inv st op k c HI H1 H2 H3) as [st1 [E1 HI1]]. rewrite E1.
    apply IH; [exact HI1 | intros c' Hc'; apply H; right; exact Hc'].
  Qed.
  Lemma add_seqs_inv I op k pss : forall st, Inv st -> (forall ps, In ps pss -> SeqOK I ps) ->
    exists st', add_seqs I verts op k st pss = Some st' /\ Inv st'.
  Proof.
    unfold add_seqs. induction pss as [|ps pss IH]; intros st HI H; [exists st; auto|].
    cbn [fold_left obind]. destruct (H ps (or_introl eq_refl)) as [cs [E Hcs]].
    unfold add_seq at 2. rewrite E. cbn [obind].
    destruct (add_chains_inv op k cs st HI Hcs) as [st1 [E1 HI1]]. rewrite E1.
    apply IH; [exact HI1 | intros ps' Hps'; apply H; right; exact Hps'].
  Qed.
  Lemma add_elems_inv I op es : forall st, Inv st -> (forall e ps, In e es -> In ps (elem_seqs e) -> SeqOK I ps) ->
    exists st', add_elems I verts op st es = Some st' /\ Inv st'.
  Proof.
    unfold add_elems. induction es as [|e es IH]; intros st HI H; [exists st; auto|].
    cbn [fold_left obind].
    assert (E : exists st1, add_elem I verts op st e = Some st1 /\ Inv st1).
    { destruct e as [ps|rings]; cbn [add_elem].
      - destruct (add_seqs_inv I op KLine [ps] st HI) as [st1 [E1 HI1]].
        + intros ps' [<-|[]]. apply (H (OLine ps) ps); [left; reflexivity | left; reflexivity].
        + unfold add_seqs in E1. cbn [fold_left obind] in E1. eauto.
      - apply add_seqs_inv; [exact HI|]. intros ps Hps. apply (H (OPoly rings) ps); [left; reflexivity | exact Hps]. }
    destruct E as [st1 [E1 HI1]]. rewrite E1.
    apply IH; [exact HI1 | intros e' ps He' Hps; apply (H e' ps); [right; exact He' | exact Hps]].
  Qed.
  Lemma add_points_inv op ps : forall st, Inv st -> (forall p, In p ps -> existsb (pt_eqb p) verts = true) ->
    exists st', add_points verts op st ps = Some st' /\ Inv st'.
  Proof.
    unfold add_points. induction ps as [|p ps IH]; intros st HI H; [exists st; auto|].
    cbn [fold_left obind]. destruct (vindex_total p (H p (or_introl eq_refl))) as [v Hv].
    unfold add_point at 2. rewrite Hv. apply IH; [|intros p' Hp'; apply H; right; exact Hp'].
    destruct HI as [I1 I2 I3 I4 I5]. constructor; cbn [b_vsrc b_edges]; auto. rewrite upd_nth_length. exact I1.
  Qed.

  Lemma Inv_init : Inv (MkB (map (fun _ => (false, false)) verts) []).
  Proof.
    constructor; cbn [b_vsrc b_edges]; try (intros [|?] *; discriminate).
    apply map_length.
  Qed.

  Lemma build_state_inv I gh ea pa eb pb :
    (forall ps, In ps (inserted_seqs gh ea eb) -> SeqOK I ps) ->
    (forall p, In p (pa ++ pb) -> existsb (pt_eqb p) verts = true) ->
    verts = ov_vertices I ->
    exists st, build_state I gh ea pa eb pb = Some st /\ Inv st.
  Proof.
    intros Hs Hp Ev. unfold build_state. rewrite <- Ev. unfold inserted_seqs in Hs.
    destruct (add_seqs_inv I false KGhost gh _ Inv_init) as [st1 [E1 H1]].
    { intros ps Hps. apply Hs. apply in_or_app. left. exact Hps. }
    rewrite E1. cbn [obind].
    destruct (add_elems_inv I false ea st1 H1) as [st2 [E2 H2]].
    { intros e ps He Hps. apply Hs. apply in_or_app. right. apply in_or_app. left. apply in_flat_map. eauto. }
    rewrite E2. cbn [obind].
    destruct (add_points_inv false pa st2 H2) as [st3 [E3 H3]].
    { intros p Hp'. apply Hp. apply in_or_app. left. exact Hp'. }
    rewrite E3. cbn [obind].
    destruct (add_elems_inv I true eb st3 H3) as [st4 [E4 H4]].
    { intros e ps He Hps. apply Hs. apply in_or_app. right. apply in_or_app. right. apply in_flat_map. eauto. }
    rewrite E4. cbn [obind].
    apply add_points_inv; [exact H4|]. intros p Hp'. apply Hp. apply in_or_app. right. exact Hp'.
  Qed.

  (* ---- what the invariant says about the pre-complex handed to fixVertices *)
  Lemma chain_shape_first2 s : chain_shape_ok verts s = true -> exists p q r, s = p :: q :: r /\ ~ pt_eq p q.
  Proof.
    destruct s as [|p [|q r]]; cbn; try discriminate. intros H. exists p, q, r. split; [reflexivity|].
    apply andb_true_iff in H. destruct H as [H _]. apply andb_true_iff in H. destruct H as [H _].
    destruct r; cbn in H; apply andb_true_iff in H; destruct H as [H _]; apply negb_true_iff in H; apply pt_eqb_false_iff in H; exact H.
  Qed.
  Lemma lab_eqb_refl l : lab_eqb l l = true.
  Proof. destruct l as [[|] [|]]; reflexivity. Qed.
  Lemma nth_error_combine {A B} (l : list A) (m : list B) : forall i a b,
    nth_error l i = Some a -> nth_error m i = Some b -> nth_error (combine l m) i = Some (a, b).
  Proof.
    revert m. induction l as [|x l IH]; intros [|y m] [|i] a b; cbn; try discriminate.
    - intros H1 H2; inversion H1; inversion H2; reflexivity.
    - apply IH.
  Qed.

  Section Pre.
    Variable st : bstate.
    Hypothesis HI : Inv st.
    Let pc := to_precomplex verts st.
    Let es := b_edges st.

    Lemma pre_nE : pnE pc = length es.
    Proof. unfold pnE, pc, to_precomplex. cbn [pc_edges]. apply map_length. Qed.
    Lemma pre_nV : pnV pc = length verts.
    Proof.
      unfold pnV, pc, to_precomplex. cbn [pc_verts]. rewrite map_length, combine_length, (inv_vlen _ HI). apply Nat.min_id.
    Qed.
    Lemma pre_edge i h : nth_error es i = Some h -> nth_error (pc_edges pc) i = Some (pe_of h).
    Proof. intros H. unfold pc, to_precomplex. cbn [pc_edges]. rewrite nth_error_map. fold es. rewrite H. reflexivity. Qed.
    Lemma pre_xy v q : nth_error verts v = Some q -> p_xy pc v = q.
    Proof.
      intros H. unfold p_xy, pc, to_precomplex. cbn [pc_verts]. rewrite nth_error_map.
      assert (L : (v < length (b_vsrc st))%nat) by (rewrite (inv_vlen _ HI); apply nth_error_Some; congruence).
      destruct (nth_error (b_vsrc st) v) as [l|] eqn:E; [|apply nth_error_None in E; lia].
      rewrite (nth_error_combine _ _ _ _ _ H E). reflexivity.
    Qed.
    Lemma pre_fields i h : nth_error es i = Some h ->
      p_origin pc i = h_origin h /\ p_twin pc i = h_twin h /\ p_srcEdge pc i = h_srcE h /\ p_srcFace pc i = h_srcF h /\
      p_dir pc i = (fst (seq_second (h_seq h)) - fst (p_xy pc (h_origin h)), snd (seq_second (h_seq h)) - snd (p_xy pc (h_origin h))).
    Proof.
      intros H. unfold p_origin, p_twin, p_srcEdge, p_srcFace, p_dir. rewrite (pre_edge i h H). cbn. auto.
    Qed.
    Lemma in_range i : In i (seq 0 (pnE pc)) -> exists h, nth_error es i = Some h.
    Proof.
      rewrite pre_nE, in_seq. intros [_ H]. destruct (nth_error es i) eqn:E; [eauto|]. apply nth_error_None in E. lia.
    Qed.

    Lemma inv_pre_wf : pre_wf pc = true.
    Proof.
      unfold pre_wf. apply forallb_forall. intros i Hi. destruct (in_range i Hi) as [h Hh].
      destruct (inv_edge _ HI i h Hh) as [[p [v [O1 [O2 O3]]]] [t [T1 [T2 [T3 T4]]]]]. fold es in T1.
      destruct (pre_fields i h Hh) as [F1 [F2 _]]. destruct (pre_fields _ t T1) as [_ [G2 _]].
      rewrite F1, F2, G2, T2, pre_nV, pre_nE.
      apply andb_true_iff; split; [apply andb_true_iff; split; [apply andb_true_iff; split|]|].
      - apply Nat.ltb_lt. apply nth_error_Some. congruence.
      - apply Nat.ltb_lt. apply nth_error_Some. congruence.
      - apply Nat.eqb_refl.
      - apply negb_true_iff. apply Nat.eqb_neq. exact T3.
    Qed.
    Lemma inv_pre_src_sym : pre_src_sym pc = true.
    Proof.
      unfold pre_src_sym. apply forallb_forall. intros i Hi. destruct (in_range i Hi) as [h Hh].
      destruct (inv_edge _ HI i h Hh) as [_ [t [T1 _]]]. fold es in T1.
      destruct (inv_lab _ HI i h Hh) as [_ L2]. specialize (L2 t T1).
      destruct (pre_fields i h Hh) as [_ [F2 [F3 _]]]. destruct (pre_fields _ t T1) as [_ [_ [G3 _]]].
      rewrite F2, G3, F3, L2. apply lab_eqb_refl.
    Qed.
    Lemma inv_pre_srcface_le : pre_srcface_le pc = true.
    Proof.
      unfold pre_srcface_le. apply forallb_forall. intros i Hi. destruct (in_range i Hi) as [h Hh].
      destruct (inv_lab _ HI i h Hh) as [L1 _]. destruct (pre_fields i h Hh) as [_ [_ [F3 [F4 _]]]]. rewrite F3, F4. exact L1.
    Qed.

    (* the first two points of a stored sequence, with the coordinates of its origin vertex *)
    Lemma stored_shape i h : nth_error es i = Some h ->
      exists p q r v, h_seq h = p :: q :: r /\ ~ pt_eq p q /\ nth_error verts (h_origin h) = Some v /\ pt_eq v p.
    Proof.
      intros Hh. destruct (chain_shape_first2 _ (S_shape _ (inv_in _ HI i h Hh))) as [p [q [r [E N]]]].
      destruct (inv_edge _ HI i h Hh) as [[p' [v [O1 [O2 O3]]]] _]. rewrite E in O1. cbn in O1. inversion O1; subst p'.
      exists p, q, r, v. auto.
    Qed.
    Lemma inv_pre_dirs_ok : pre_dirs_ok pc = true.
    Proof.
      unfold pre_dirs_ok. apply forallb_forall. intros i Hi. destruct (in_range i Hi) as [h Hh].
      destruct (stored_shape i h Hh) as [p [q [r [v [E [N [V1 V2]]]]]]].
      destruct (pre_fields i h Hh) as [F1 [F2 [_ [_ F5]]]].
      destruct (inv_edge _ HI i h Hh) as [_ [t [T1 [T2 [T3 T4]]]]]. fold es in T1.
      apply andb_true_iff; split; [apply andb_true_iff; split|].
      - (* non-zero direction *)
        rewrite F5, (pre_xy _ _ V1), E. unfold pt_nonzero, seq_second. cbn [nth fst snd].
        apply negb_true_iff. apply andb_false_iff.
        destruct (Qeq_bool (fst q - fst v) 0) eqn:E1; [|left; reflexivity]. right.
        destruct (Qeq_bool (snd q - snd v) 0) eqn:E2; [|reflexivity]. exfalso. apply N.
        apply Qeq_bool_iff in E1. apply Qeq_bool_iff in E2. destruct V2 as [V2a V2b]. split; lra.
      - (* a half edge ends where its twin starts *)
        rewrite (pre_edge i h Hh). destruct (pre_fields _ t T1) as [G1 _]. rewrite F2, G1.
        destruct (inv_edge _ HI _ t T1) as [[p' [v' [O1 [O2 O3]]]] _].
        rewrite (pre_xy _ _ O2). cbn [pe_dest pe_of]. unfold seq_last.
        apply pt_eqb_iff.
        destruct (hd_error_rev_last (h_seq h) (0, 0)) as [Hl|Hl]; [|rewrite E in Hl; discriminate].
        destruct (seqs_eq_hd _ _ _ T4 Hl) as [a [A1 A2]]. rewrite O1 in A1. inversion A1; subst a.
        symmetry. etransitivity; [exact O3 | exact A2].
      - (* two half edges leaving a vertex have different directions *)
        apply forallb_forall. intros j Hj. destruct (Nat.eqb i j) eqn:Eij; [reflexivity|].
        destruct (in_range j Hj) as [h2 Hh2].
        destruct (pre_fields j h2 Hh2) as [G1 [_ [_ [_ G5]]]].
        rewrite F1, G1. destruct (Nat.eqb (h_origin h) (h_origin h2)) eqn:Eo; [cbn [negb]|reflexivity].
        apply Nat.eqb_eq in Eo. apply negb_true_iff. apply pt_eqb_false_iff. intros D.
        destruct (stored_shape j h2 Hh2) as [p2 [q2 [r2 [v2 [E' [N' [V1' V2']]]]]]].
        rewrite <- Eo, V1 in V1'. inversion V1'; subst v2.
        rewrite F5, G5, <- Eo, (pre_xy _ _ V1), E, E' in D. unfold seq_second in D. cbn [nth fst snd] in D.
        destruct D as [D1 D2]. cbn [fst snd] in D1, D2.
        apply Nat.eqb_neq in Eij. apply Eij. apply (inv_key _ HI i j h h2 Hh Hh2).
        rewrite E, E'. apply he_key_eqb_spec. exists p, q, r, p2, q2, r2. split; [reflexivity|split; [reflexivity|split]].
        + etransitivity; [symmetry; exact V2 | exact V2'].
        + split; lra.
    Qed.
  End Pre.
End Table.

(* ================================================================ from the executable hypothesis *)
Lemma opt_concat_some {A} (l : list (option (list A))) : forall cs, opt_concat l = Some cs ->
  forall o, In o l -> exists x, o = Some x /\ incl x cs.
Proof.
  induction l as [|o l IH]; intros cs H o' Ho'; [destruct Ho'|]. cbn [opt_concat] in H.
  destruct o as [x|]; [|discriminate]. destruct (opt_concat l) as [y|] eqn:E; [|discriminate]. inversion H; subst cs.
  destruct Ho' as [<-|Ho'].
  - exists x. split; [reflexivity | apply incl_appl, incl_refl].
  - destruct (IH y eq_refl o' Ho') as [z [-> Hz]]. exists z. split; [reflexivity | apply incl_appr; exact Hz].
Qed.

Lemma chains_wf_hyps verts cs : chains_wf verts cs = true ->
  (forall s, In s (cs ++ map (@rev pt) cs) -> chain_shape_ok verts s = true) /\
  (forall s t, In s (cs ++ map (@rev pt) cs) -> In t (cs ++ map (@rev pt) cs) -> he_key_eqb s t = true -> seqs_eq s t) /\
  (forall c, In c cs -> he_key_eqb c (rev c) = false).
Proof.
  unfold chains_wf, keys_consistent. intros H. apply andb_true_iff in H. destruct H as [H1 H2].
  rewrite forallb_forall in H1. rewrite forallb_forall in H2.
  assert (P : forall c, In c cs -> chain_shape_ok verts c = true /\ chain_shape_ok verts (rev c) = true /\ he_key_eqb c (rev c) = false).
  { intros c Hc. specialize (H1 c Hc). apply andb_true_iff in H1. destruct H1 as [H1 H3]. apply andb_true_iff in H1.
    destruct H1 as [H1 H4]. apply negb_true_iff in H3. auto. }
  split; [|split].
  - intros s Hs. apply in_app_or in Hs. destruct Hs as [Hs|Hs]; [apply P; exact Hs|].
    apply in_map_iff in Hs. destruct Hs as [c [<- Hc]]. apply P; exact Hc.
  - intros s t Hs Ht K. specialize (H2 s Hs). rewrite forallb_forall in H2. specialize (H2 t Ht). rewrite K in H2.
    cbn in H2. apply seq_eqb_iff. exact H2.
  - intros c Hc. apply P; exact Hc.
Qed.

(* ================================================================ (a) the composition with the fix-up *)
Lemma points_are_vertices ea pa eb pb gh p :
  In p (pa ++ pb) -> existsb (pt_eqb p) (ov_vertices (find_interaction_points ea pa eb pb gh)) = true.
Proof.
  intros Hp. apply (ip_points_lemma ea pa eb pb gh) in Hp.
  destruct (sort_uniq_keeps _ _ Hp) as [p' [H1 H2]]. apply existsb_exists. exists p'. split; [exact H1|].
  apply pt_eqb_iff. symmetry. exact H2.
Qed.

Theorem composed_precomplex_lemma (a b : geom) cs :
  pipeline_chains a b = Some cs ->
  chains_wf (ov_vertices (sk_vertices (overlay_skeleton_of a b))) cs = true ->
  exists ov, overlay_dcel_full a b = Some ov /\
             pre_wf (ov_pre ov) = true /\ pre_dirs_ok (ov_pre ov) = true /\ pre_src_sym (ov_pre ov) = true /\
             pre_srcface_le (ov_pre ov) = true /\
             fixup (ov_pre ov) = Some (ov_cx ov) /\
             ranges_ok (ov_cx ov) = true /\ twin_ok (ov_cx ov) = true /\ next_prev_ok (ov_cx ov) = true /\
             faces_ok (ov_cx ov) = true /\ labels_ok (ov_cx ov) = true /\ dcel_ok (ov_cx ov) = euler_ok (ov_cx ov).
Proof.
  intros Hcs Hwf. unfold pipeline_chains, pipeline_chains_of_skel in Hcs.
  set (sk := overlay_skeleton_of a b) in *. set (r := sk_renoded sk) in *. set (I := sk_vertices sk) in *.
  set (verts := ov_vertices I) in *.
  destruct (chains_wf_hyps _ _ Hwf) as [Hshape [Hkeys Hpal]].
  set (S := cs ++ map (@rev pt) cs) in *.
  assert (Hseq : forall ps, In ps (inserted_seqs (rn_ghosts r) (regroup (g_shapes a) (rn_a r)) (regroup (g_shapes b) (rn_b r))) ->
                 SeqOK S I ps).
  { intros ps Hps. unfold inserted_chains in Hcs.
    destruct (opt_concat_some _ _ Hcs (chains_of I ps)) as [x [Ex Hx]]; [apply in_map; exact Hps|].
    exists x. split; [exact Ex|]. intros c Hc. specialize (Hx c Hc). split; [|split].
    - apply in_or_app. left. exact Hx.
    - apply in_or_app. right. apply in_map. exact Hx.
    - apply Hpal. exact Hx. }
  assert (Hpts : forall p, In p (g_points a ++ g_points b) -> existsb (pt_eqb p) verts = true).
  { intros p Hp. unfold verts, I, sk, overlay_skeleton_of. cbn [sk_vertices]. apply points_are_vertices. exact Hp. }
  destruct (build_state_inv verts S Hshape Hkeys I _ _ (g_points a) _ (g_points b) Hseq Hpts eq_refl) as [st [Est HI]].
  pose proof (inv_pre_wf verts S st HI) as W1.
  pose proof (inv_pre_dirs_ok verts S Hshape st HI) as W2.
  pose proof (inv_pre_src_sym verts S st HI) as W3.
  pose proof (inv_pre_srcface_le verts S st HI) as W4.
  destruct (fixup_establishes_lemma _ W1 W3 W4) as [c [Ec [R1 [R2 [R3 [R4 [R5 R6]]]]]]].
  exists (MkOv sk verts (map h_seq (b_edges st)) (to_precomplex verts st) c).
  split.
  - unfold overlay_dcel_full, overlay_dcel_of_skel. fold sk. fold r. fold I. fold verts. rewrite Est. cbn [obind]. rewrite Ec. reflexivity.
  - cbn [ov_pre ov_cx]. repeat split; assumption.
Qed.

(* ================================================================ (b) T4: two chains with a common piece *)
Lemma is_interaction_proper I p q : pt_eq p q -> is_interaction I p = is_interaction I q.
Proof.
  intros H. unfold is_interaction. induction I as [|x I IH]; [reflexivity|]. cbn [existsb]. rewrite IH. f_equal.
  destruct (pt_eqb p x) eqn:E1, (pt_eqb q x) eqn:E2; auto.
  - apply pt_eqb_iff in E1. apply pt_eqb_false_iff in E2. exfalso. apply E2. etransitivity; [symmetry; exact H | exact E1].
  - apply pt_eqb_iff in E2. apply pt_eqb_false_iff in E1. exfalso. apply E1. etransitivity; [exact H | exact E2].
Qed.
Lemma adj_pair_eq a b a' b' : pair_eqb (adj_pair a b) (adj_pair a' b') = true ->
  (pt_eq a a' /\ pt_eq b b') \/ (pt_eq a b' /\ pt_eq b a').
Proof.
  unfold adj_pair, pair_eqb. destruct (xy_less b a), (xy_less b' a'); cbn [fst snd];
    rewrite andb_true_iff, !pt_eqb_iff; intros [H1 H2]; auto.
Qed.
Lemma xy_less_asym a b : xy_less a b = true -> xy_less b a = true -> False.
Proof.
  unfold xy_less. rewrite !orb_true_iff, !andb_true_iff, !rn_qltb_iff, !Qeq_bool_iff. intros [H|[H1 H2]] [K|[K1 K2]]; lra.
Qed.
Lemma xy_less_total a b : xy_less a b = false -> xy_less b a = false -> pt_eq a b.
Proof.
  unfold xy_less. rewrite !orb_false_iff, !andb_false_iff, !rn_qltb_false_iff. intros [A1 A2] [B1 B2].
  assert (X : fst a == fst b) by lra. split; [exact X|].
  destruct A2 as [A2|A2]; [apply Qeq_bool_neq in A2; exfalso; apply A2; exact X|].
  destruct B2 as [B2|B2]; [apply Qeq_bool_neq in B2; exfalso; apply B2; symmetry; exact X|]. lra.
Qed.
Lemma adj_pair_swap a b : pair_eqb (adj_pair a b) (adj_pair b a) = true.
Proof.
  unfold adj_pair, pair_eqb. destruct (xy_less b a) eqn:E1, (xy_less a b) eqn:E2; cbn [fst snd]; rewrite ?pt_eqb_refl; auto.
  - exfalso. exact (xy_less_asym _ _ E1 E2).
  - pose proof (xy_less_total _ _ E2 E1) as P. assert (P' : pt_eq b a) by (symmetry; exact P).
    apply pt_eqb_iff in P. apply pt_eqb_iff in P'. rewrite P, P'. reflexivity.
Qed.

Definition contig (e c : list pt) : Prop := exists l1 l2, e = l1 ++ c ++ l2.
Lemma contig_rev e c : contig e c -> contig (rev e) (rev c).
Proof. intros [l1 [l2 ->]]. exists (rev l2), (rev l1). rewrite !rev_app_distr, app_assoc. reflexivity. Qed.
Lemma contig_c3 e pre u v w s : contig e (pre ++ u :: v :: w :: s) -> consecutive3 e u v w.
Proof. intros [l1 [l2 ->]]. exists (l1 ++ pre), (s ++ l2). rewrite <- !app_assoc. cbn. reflexivity. Qed.
Lemma consecutive3_rev e a c b : consecutive3 e a c b -> consecutive3 (rev e) b c a.
Proof.
  intros [l1 [l2 ->]]. exists (rev l2), (rev l1). rewrite rev_app_distr. cbn [rev]. rewrite <- !app_assoc. cbn. reflexivity.
Qed.

Section T4.
  Variable I : list pt.
  Let isI := is_interaction I.
  Variable E : list (list pt).
  Hypothesis E_spike : forall e a c b, In e E -> consecutive3 e a c b -> pt_eq a b -> isI c = true.
  Hypothesis E_conf : forall e1 a1 c1 b1 e2 a2 c2 b2,
    In e1 E -> consecutive3 e1 a1 c1 b1 -> In e2 E -> consecutive3 e2 a2 c2 b2 ->
    pt_eq c1 c2 -> pair_eqb (adj_pair a1 b1) (adj_pair a2 b2) = false -> isI c1 = true.

  Lemma isI_proper p q : pt_eq p q -> isI p = isI q.
  Proof. apply is_interaction_proper. Qed.

  (* the rest of a chain after an interior position: non-interaction points, then one interaction point *)
  Fixpoint tail_ok (l : list pt) : Prop :=
    match l with
    | [] => False
    | x :: r => match r with [] => isI x = true | _ => isI x = false /\ tail_ok r end
    end.
  Lemma tail_ok_suffix a : forall b, b <> [] -> tail_ok (a ++ b) -> tail_ok b.
  Proof.
    induction a as [|x a IH]; intros b Hb H; [exact H|]. cbn [app tail_ok] in H.
    destruct (a ++ b) eqn:Eab; [destruct a; [cbn in Eab; congruence | discriminate]|]. rewrite <- Eab in H. apply IH; [exact Hb | apply H].
  Qed.
  Lemma tail_ok_of_last r : r <> [] -> forall d, isI (last r d) = true ->
    forallb (fun p => negb (isI p)) (removelast r) = true -> tail_ok r.
  Proof.
    induction r as [|x r IH]; intros Hr d Hl Hm; [congruence|]. destruct r as [|y r]; [exact Hl|].
    change (removelast (x :: y :: r)) with (x :: removelast (y :: r)) in Hm. cbn [forallb] in Hm.
    apply andb_true_iff in Hm. destruct Hm as [Hx Hm]. apply negb_true_iff in Hx.
    change (tail_ok (x :: y :: r)) with (isI x = false /\ tail_ok (y :: r)). split; [exact Hx|].
    apply (IH ltac:(discriminate) d); [exact Hl | exact Hm].
  Qed.
  Lemma chain_tail p0 r : chain_ok_b isI (p0 :: r) = true -> tail_ok r.
  Proof.
    unfold chain_ok_b. destruct r as [|x r]; [discriminate|]. intros H.
    apply andb_true_iff in H. destruct H as [H H3]. apply andb_true_iff in H. destruct H as [H1 H2].
    apply (tail_ok_of_last (x :: r) ltac:(discriminate) p0 H2 H3).
  Qed.
  Lemma chain_split_tail c pre u v s : chain_ok_b isI c = true -> c = pre ++ u :: v :: s -> tail_ok (v :: s).
  Proof.
    intros H Ec. destruct c as [|p0 r]; [destruct pre; discriminate|]. apply chain_tail in H.
    destruct pre as [|x pre]; cbn [app] in Ec; inversion Ec; subst; [exact H|].
    apply (tail_ok_suffix (pre ++ [u])); [discriminate|]. rewrite <- app_assoc. exact H.
  Qed.

  Lemma walk_fwd : forall s1 e1 e2 pre1 u1 v1 pre2 u2 v2 s2,
    In e1 E -> In e2 E -> contig e1 (pre1 ++ u1 :: v1 :: s1) -> contig e2 (pre2 ++ u2 :: v2 :: s2) ->
    tail_ok (v1 :: s1) -> tail_ok (v2 :: s2) -> pt_eq u1 u2 -> pt_eq v1 v2 -> seqs_eq s1 s2.
  Proof.
    induction s1 as [|w1 s1 IH]; intros e1 e2 pre1 u1 v1 pre2 u2 v2 s2 He1 He2 C1 C2 T1 T2 Eu Ev.
    - cbn in T1. rewrite (isI_proper _ _ Ev) in T1.
      destruct s2 as [|w2 s2]; [constructor|]. destruct T2 as [T2 _]. congruence.
    - destruct T1 as [N1 T1].
      assert (N2 : isI v2 = false) by (rewrite <- (isI_proper _ _ Ev); exact N1).
      destruct s2 as [|w2 s2]; [cbn in T2; congruence|]. destruct T2 as [_ T2].
      pose proof (contig_c3 _ _ _ _ _ _ C1) as K1. pose proof (contig_c3 _ _ _ _ _ _ C2) as K2.
      assert (Ew : pt_eq w1 w2).
      { destruct (pair_eqb (adj_pair u1 w1) (adj_pair u2 w2)) eqn:P.
        - apply adj_pair_eq in P. destruct P as [[_ P]|[P1 P2]]; [exact P|].
          exfalso. assert (S : isI v1 = true); [|congruence].
          apply (E_spike e1 u1 v1 w1 He1 K1). etransitivity; [exact Eu|symmetry; exact P2].
        - exfalso. assert (S : isI v1 = true); [|congruence]. apply (E_conf e1 u1 v1 w1 e2 u2 v2 w2 He1 K1 He2 K2 Ev P). }
      constructor; [exact Ew|].
      apply (IH e1 e2 (pre1 ++ [u1]) v1 w1 (pre2 ++ [u2]) v2 w2 s2); auto; rewrite <- app_assoc; assumption.
  Qed.

  Lemma chain_ok_char c : chain_ok_b isI c = true <->
    exists p m q, c = p :: m ++ [q] /\ isI p = true /\ isI q = true /\ forallb (fun x => negb (isI x)) m = true.
  Proof.
    split.
    - destruct c as [|p [|x r]]; try discriminate. intros H. cbn [chain_ok_b] in H.
      apply andb_true_iff in H. destruct H as [H H3]. apply andb_true_iff in H. destruct H as [H1 H2].
      exists p, (removelast (x :: r)), (last (x :: r) p). repeat split; auto.
      f_equal. apply app_removelast_last. discriminate.
    - intros [p [m [q [-> [H1 [H2 H3]]]]]]. unfold chain_ok_b.
      destruct (m ++ [q]) as [|y r'] eqn:Ey; [destruct m; discriminate|]. rewrite <- Ey.
      rewrite last_last, removelast_last, H1, H2, H3. reflexivity.
  Qed.
  Lemma chain_ok_rev c : chain_ok_b isI c = true -> chain_ok_b isI (rev c) = true.
  Proof.
    rewrite !chain_ok_char. intros [p [m [q [-> [H1 [H2 H3]]]]]]. exists q, (rev m), p.
    split; [|split; [exact H2|split; [exact H1|]]].
    - cbn [rev]. rewrite rev_app_distr. reflexivity.
    - apply forallb_forall. intros x Hx. apply in_rev in Hx. rewrite forallb_forall in H3. apply H3. exact Hx.
  Qed.

  Hypothesis E_rev : forall e, In e E -> In (rev e) E.

  (* two chains that run through a common piece in the same direction are the same point sequence *)
  Lemma share_piece e1 e2 c1 c2 pre1 u1 v1 s1 pre2 u2 v2 s2 :
    In e1 E -> In e2 E -> contig e1 c1 -> contig e2 c2 -> chain_ok_b isI c1 = true -> chain_ok_b isI c2 = true ->
    c1 = pre1 ++ u1 :: v1 :: s1 -> c2 = pre2 ++ u2 :: v2 :: s2 -> pt_eq u1 u2 -> pt_eq v1 v2 -> seqs_eq c1 c2.
  Proof.
    intros He1 He2 C1 C2 K1 K2 E1 E2 Eu Ev.
    assert (F : seqs_eq s1 s2).
    { apply (walk_fwd s1 e1 e2 pre1 u1 v1 pre2 u2 v2 s2); auto; try (rewrite <- E1; exact C1); try (rewrite <- E2; exact C2).
      - apply (chain_split_tail c1 pre1 u1 v1 s1 K1 E1).
      - apply (chain_split_tail c2 pre2 u2 v2 s2 K2 E2). }
    assert (R1 : rev c1 = rev s1 ++ v1 :: u1 :: rev pre1) by (rewrite E1, rev_app_distr; cbn [rev]; rewrite <- !app_assoc; reflexivity).
    assert (R2 : rev c2 = rev s2 ++ v2 :: u2 :: rev pre2) by (rewrite E2, rev_app_distr; cbn [rev]; rewrite <- !app_assoc; reflexivity).
    assert (B : seqs_eq (rev pre1) (rev pre2)).
    { apply (walk_fwd (rev pre1) (rev e1) (rev e2) (rev s1) v1 u1 (rev s2) v2 u2 (rev pre2)); auto.
      - rewrite <- R1. apply contig_rev. exact C1.
      - rewrite <- R2. apply contig_rev. exact C2.
      - apply (chain_split_tail (rev c1) (rev s1) v1 u1 (rev pre1) (chain_ok_rev _ K1) R1).
      - apply (chain_split_tail (rev c2) (rev s2) v2 u2 (rev pre2) (chain_ok_rev _ K2) R2). }
    apply seqs_eq_rev in B. rewrite !rev_involutive in B.
    rewrite E1, E2. apply seqs_eq_app; [exact B|]. constructor; [exact Eu|]. constructor; [exact Ev|exact F].
  Qed.

  (* a chain of an element *)
  Definition Chain (c : list pt) : Prop := exists e, In e E /\ contig e c /\ chain_ok_b isI c = true.
  Lemma Chain_rev c : Chain c -> Chain (rev c).
  Proof. intros [e [H1 [H2 H3]]]. exists (rev e). split; [apply E_rev; exact H1|split; [apply contig_rev; exact H2|apply chain_ok_rev; exact H3]]. Qed.
  Lemma chains_same_key c1 c2 : Chain c1 -> Chain c2 -> he_key_eqb c1 c2 = true -> seqs_eq c1 c2.
  Proof.
    intros [e1 [A1 [A2 A3]]] [e2 [B1 [B2 B3]]] K. apply he_key_eqb_spec in K.
    destruct K as (u1&v1&s1&u2&v2&s2&E1&E2&Eu&Ev).
    apply (share_piece e1 e2 c1 c2 [] u1 v1 s1 [] u2 v2 s2); auto.
  Qed.

  (* a sequence that reads the same backwards has two equal neighbours, or a point with equal neighbours *)
  Lemma palindrome_middle : forall n (c : list pt), (length c <= n)%nat -> (2 <= length c)%nat -> seqs_eq c (rev c) ->
    (exists l1 a b l2, c = l1 ++ a :: b :: l2 /\ pt_eq a b) \/
    (exists l1 a m b l2, c = l1 ++ a :: m :: b :: l2 /\ pt_eq a b).
  Proof.
    induction n as [|n IH]; intros c Ln L2 P; [lia|].
    destruct c as [|x c]; [cbn in L2; lia|].
    destruct (rev c) as [|y rc] eqn:Er.
    { assert (c = []) by (destruct c; [reflexivity|]; cbn in Er; destruct (rev c); discriminate). subst c. cbn in L2. lia. }
    assert (Ec : c = rev rc ++ [y]) by (rewrite <- (rev_involutive c), Er; reflexivity).
    set (mid := rev rc) in *.
    (* c = mid ++ [y]; x :: mid ++ [y] is a palindrome: x = y and mid is a palindrome *)
    assert (Rv : rev (x :: c) = y :: rev mid ++ [x]) by (cbn [rev]; rewrite Er; unfold mid; rewrite rev_involutive; reflexivity).
    rewrite Rv, Ec in P. inversion P as [|? ? ? ? Exy Pm]; subst.
    assert (Pmid : seqs_eq mid (rev mid)).
    { clear - Pm. assert (L : length mid = length (rev mid)) by (rewrite rev_length; reflexivity).
      revert Pm L. generalize (rev mid) as t. induction mid as [|a mid IH]; intros [|b t] H L; try (cbn in L; discriminate); [constructor|].
      cbn [app] in H. inversion H; subst. constructor; [assumption|]. apply IH; [assumption|cbn in L; lia]. }
    destruct mid as [|m0 [|m1 mid']] eqn:Em.
    - left. exists [], x, y, []. split; [reflexivity|exact Exy].
    - right. exists [], x, m0, y, []. split; [reflexivity|exact Exy].
    - rewrite <- Em in *. destruct (IH mid) as [[l1 [a [b [l2 [E' Eab]]]]]|[l1 [a [m [b [l2 [E' Eab]]]]]]].
      + cbn [length] in Ln. rewrite app_length in Ln. cbn in Ln. lia.
      + rewrite Em. cbn. lia.
      + exact Pmid.
      + left. exists (x :: l1), a, b, (l2 ++ [y]). split; [|exact Eab]. rewrite E'. rewrite <- app_assoc. reflexivity.
      + right. exists (x :: l1), a, m, b, (l2 ++ [y]). split; [|exact Eab]. rewrite E'. rewrite <- app_assoc. reflexivity.
  Qed.

  Hypothesis E_nondeg : forall e l1 a b l2, In e E -> e = l1 ++ a :: b :: l2 -> ~ pt_eq a b.

  Lemma chain_not_palindrome c : Chain c -> he_key_eqb c (rev c) = false.
  Proof.
    intros HC. destruct (he_key_eqb c (rev c)) eqn:K; [exfalso|reflexivity].
    pose proof (chains_same_key c (rev c) HC (Chain_rev c HC) K) as P.
    destruct HC as [e [He [[l1 [l2 Ee]] Hok]]].
    assert (L2 : (2 <= length c)%nat) by (apply he_key_len in K; apply K).
    destruct (palindrome_middle (length c) c (le_n _) L2 P) as [[k1 [a [b [k2 [Ec Eab]]]]]|[k1 [a [m [b [k2 [Ec Eab]]]]]]].
    - apply (E_nondeg e (l1 ++ k1) a b (k2 ++ l2) He); [|exact Eab]. rewrite Ee, Ec, <- !app_assoc. reflexivity.
    - (* the middle point is a reversal point, hence an interaction point, but it is interior to the chain *)
      assert (Sp : isI m = true).
      { apply (E_spike e a m b He); [|exact Eab]. exists (l1 ++ k1), (k2 ++ l2). rewrite Ee, Ec, <- !app_assoc. reflexivity. }
      assert (T : tail_ok (m :: b :: k2)) by (apply (chain_split_tail c k1 a m (b :: k2) Hok Ec)).
      destruct T as [T _]. congruence.
  Qed.
End T4.

(* ================================================================ T4 for the re-noded input *)
Lemma ring_edges_in_split (l : list pt) u w : In (u, w) (ring_edges l) -> exists k1 k2, l = k1 ++ u :: w :: k2.
Proof.
  induction l as [|x l IH]; [intros []|]. destruct l as [|y l]; [intros []|]. rewrite ring_edges_cons2. intros [H|H].
  - inversion H; subst. exists [], l. reflexivity.
  - destruct (IH H) as [k1 [k2 E]]. exists (x :: k1), k2. rewrite E. reflexivity.
Qed.
Lemma ring_edges_mid (l1 : list pt) a b l2 : In (a, b) (ring_edges (l1 ++ a :: b :: l2)).
Proof.
  induction l1 as [|x l1 IH]; [left; reflexivity|]. cbn [app]. destruct (l1 ++ a :: b :: l2) eqn:E; [destruct l1; discriminate|].
  rewrite ring_edges_cons2. right. exact IH.
Qed.
Lemma pair_eqb_sym u v : pair_eqb u v = pair_eqb v u.
Proof.
  unfold pair_eqb. f_equal.
  - destruct (pt_eqb (fst u) (fst v)) eqn:E1, (pt_eqb (fst v) (fst u)) eqn:E2; auto.
    + apply pt_eqb_iff in E1. apply pt_eqb_false_iff in E2. exfalso; apply E2; symmetry; exact E1.
    + apply pt_eqb_iff in E2. apply pt_eqb_false_iff in E1. exfalso; apply E1; symmetry; exact E2.
  - destruct (pt_eqb (snd u) (snd v)) eqn:E1, (pt_eqb (snd v) (snd u)) eqn:E2; auto.
    + apply pt_eqb_iff in E1. apply pt_eqb_false_iff in E2. exfalso; apply E2; symmetry; exact E1.
    + apply pt_eqb_iff in E2. apply pt_eqb_false_iff in E1. exfalso; apply E1; symmetry; exact E2.
Qed.
Lemma pair_eqb_trans u v w : pair_eqb u v = true -> pair_eqb v w = true -> pair_eqb u w = true.
Proof.
  unfold pair_eqb. rewrite !andb_true_iff, !pt_eqb_iff. intros [A1 A2] [B1 B2]. split; etransitivity; eauto.
Qed.

Lemma split_chains_contig isI : forall ps cur cs, split_chains isI cur ps = Some cs ->
  forall c, In c cs -> exists l1 l2, cur ++ ps = l1 ++ c ++ l2.
Proof.
  induction ps as [|p r IH]; intros cur cs H c Hc.
  - cbn [split_chains] in H. destruct cur as [|x [|y cur']]; inversion H; subst; destruct Hc.
  - cbn [split_chains] in H. destruct (isI p && Nat.ltb 1 (length (cur ++ [p]))) eqn:E.
    + destruct (split_chains isI [p] r) as [cs'|] eqn:E'; [|discriminate]. inversion H; subst cs. destruct Hc as [<-|Hc].
      * exists [], r. cbn [app]. rewrite <- app_assoc. reflexivity.
      * destruct (IH [p] cs' E' c Hc) as [l1 [l2 El]]. exists (cur ++ l1), l2. rewrite <- app_assoc. f_equal. exact El.
    + destruct (IH (cur ++ [p]) cs H c Hc) as [l1 [l2 El]]. exists l1, l2. rewrite <- El, <- app_assoc. reflexivity.
Qed.
Lemma split_chains_total isI d : forall ps cur,
  (ps <> [] -> isI (last ps d) = true) -> (ps = [] -> (length cur <= 1)%nat) -> exists cs, split_chains isI cur ps = Some cs.
Proof.
  induction ps as [|p r IH]; intros cur H1 H2.
  - cbn [split_chains]. specialize (H2 eq_refl). destruct cur as [|x [|y cur']]; [eauto | eauto | cbn in H2; lia].
  - cbn [split_chains]. destruct r as [|q r].
    + specialize (H1 ltac:(discriminate)). cbn in H1. rewrite H1. cbn [andb].
      destruct (Nat.ltb 1 (length (cur ++ [p]))) eqn:E.
      * cbn [split_chains]. eauto.
      * apply Nat.ltb_ge in E. rewrite app_length in E. cbn in E. destruct cur; [|cbn in E; lia]. cbn. eauto.
    + assert (G : q :: r <> [] -> isI (last (q :: r) d) = true) by (intros _; apply H1; discriminate).
      destruct (isI p && Nat.ltb 1 (length (cur ++ [p]))).
      * destruct (IH [p] G ltac:(discriminate)) as [cs E]. rewrite E. eauto.
      * apply IH; [exact G | discriminate].
Qed.

Section Inst.
  Variables (ea : list (list pt)) (pa : list pt) (eb : list (list pt)) (pb : list pt) (gh : list (list pt)).
  Let I := find_interaction_points ea pa eb pb gh.
  Let isI := is_interaction I.
  Let elems := ea ++ eb ++ gh.
  Let E := elems ++ map (@rev pt) elems.
  Hypothesis elems_nondeg : forall e P, In e elems -> In P (ring_edges e) -> ~ pt_eq (fst P) (snd P).

  Lemma In_isI p : In p I -> isI p = true.
  Proof. intros H. apply existsb_exists. exists p. split; [exact H | apply pt_eqb_refl]. Qed.
  Lemma E_cases e : In e E -> In e elems \/ (exists e0, In e0 elems /\ e = rev e0).
  Proof.
    unfold E. intros H. apply in_app_or in H. destruct H as [H|H]; [left; exact H|right].
    apply in_map_iff in H. destruct H as [e0 [<- H]]. eauto.
  Qed.
  Lemma inst_rev e : In e E -> In (rev e) E.
  Proof.
    intros H. destruct (E_cases e H) as [H1|[e0 [H1 ->]]]; unfold E; apply in_or_app.
    - right. apply in_map. exact H1.
    - left. rewrite rev_involutive. exact H1.
  Qed.
  (* every occurrence of a middle point in an element of E is one in an element of the input, up to the order
     of the two neighbours *)
  Lemma E_c3 e a c b : In e E -> consecutive3 e a c b ->
    exists e0, In e0 elems /\ (consecutive3 e0 a c b \/ consecutive3 e0 b c a).
  Proof.
    intros H K. destruct (E_cases e H) as [H1|[e0 [H1 ->]]]; [eauto|].
    exists e0. split; [exact H1|right]. apply consecutive3_rev in K. rewrite rev_involutive in K. exact K.
  Qed.
  Lemma inst_spike e a c b : In e E -> consecutive3 e a c b -> pt_eq a b -> isI c = true.
  Proof.
    intros H K Eab. destruct (E_c3 e a c b H K) as [e0 [H0 [K0|K0]]]; apply In_isI.
    - apply (ip_spike_lemma ea pa eb pb gh e0 a c b H0 K0 Eab).
    - apply (ip_spike_lemma ea pa eb pb gh e0 b c a H0 K0). symmetry. exact Eab.
  Qed.
  Lemma inst_conf e1 a1 c1 b1 e2 a2 c2 b2 :
    In e1 E -> consecutive3 e1 a1 c1 b1 -> In e2 E -> consecutive3 e2 a2 c2 b2 ->
    pt_eq c1 c2 -> pair_eqb (adj_pair a1 b1) (adj_pair a2 b2) = false -> isI c1 = true.
  Proof.
    intros H1 K1 H2 K2 Ec P.
    destruct (E_c3 _ _ _ _ H1 K1) as [f1 [F1 G1]]. destruct (E_c3 _ _ _ _ H2 K2) as [f2 [F2 G2]].
    assert (X : forall x1 y1 x2 y2, (x1 = a1 /\ y1 = b1 \/ x1 = b1 /\ y1 = a1) -> (x2 = a2 /\ y2 = b2 \/ x2 = b2 /\ y2 = a2) ->
                pair_eqb (adj_pair x1 y1) (adj_pair x2 y2) = false).
    { intros x1 y1 x2 y2 S1 S2. destruct (pair_eqb (adj_pair x1 y1) (adj_pair x2 y2)) eqn:Q; [exfalso|reflexivity].
      assert (Q1 : pair_eqb (adj_pair a1 b1) (adj_pair x1 y1) = true).
      { destruct S1 as [[-> ->]|[-> ->]]; [apply pair_eqb_refl | apply adj_pair_swap]. }
      assert (Q2 : pair_eqb (adj_pair x2 y2) (adj_pair a2 b2) = true).
      { destruct S2 as [[-> ->]|[-> ->]]; [apply pair_eqb_refl | apply adj_pair_swap]. }
      rewrite (pair_eqb_trans _ _ _ (pair_eqb_trans _ _ _ Q1 Q) Q2) in P. discriminate. }
    destruct G1 as [G1|G1], G2 as [G2|G2].
    - apply (ip_conflict_lemma ea pa eb pb gh f1 a1 c1 b1 f2 a2 c2 b2 F1 G1 F2 G2 Ec). apply X; auto.
    - apply (ip_conflict_lemma ea pa eb pb gh f1 a1 c1 b1 f2 b2 c2 a2 F1 G1 F2 G2 Ec). apply X; auto.
    - apply (ip_conflict_lemma ea pa eb pb gh f1 b1 c1 a1 f2 a2 c2 b2 F1 G1 F2 G2 Ec). apply X; auto.
    - apply (ip_conflict_lemma ea pa eb pb gh f1 b1 c1 a1 f2 b2 c2 a2 F1 G1 F2 G2 Ec). apply X; auto.
  Qed.
  Lemma inst_nondeg e l1 a b l2 : In e E -> e = l1 ++ a :: b :: l2 -> ~ pt_eq a b.
  Proof.
    intros H Ee. destruct (E_cases e H) as [H1|[e0 [H1 Er]]].
    - apply (elems_nondeg e (a, b) H1). rewrite Ee. apply ring_edges_mid.
    - intros Eab. apply (elems_nondeg e0 (b, a) H1); [|symmetry; exact Eab].
      assert (e0 = rev l2 ++ b :: a :: rev l1).
      { rewrite <- (rev_involutive e0), <- Er, Ee, rev_app_distr. cbn [rev]. rewrite <- !app_assoc. reflexivity. }
      rewrite H0. apply ring_edges_mid.
  Qed.
  (* the ends of every element of E are interaction points *)
  Lemma inst_ends e p0 r : In e E -> e = p0 :: r -> isI p0 = true /\ isI (last r p0) = true.
  Proof.
    intros H Ee. destruct (E_cases e H) as [H1|[e0 [H1 Er]]].
    - subst e. destruct (ip_endpoints_lemma ea pa eb pb gh p0 r H1) as [A B]. split; apply In_isI; assumption.
    - destruct e0 as [|q0 r0]; [rewrite Er in Ee; discriminate|].
      destruct (ip_endpoints_lemma ea pa eb pb gh q0 r0 H1) as [A B].
      assert (L : last (p0 :: r) p0 = q0 /\ p0 = last r0 q0).
      { rewrite <- Ee, Er. split.
        - cbn [rev]. rewrite last_last. reflexivity.
        - destruct (hd_error_rev_last (q0 :: r0) q0) as [Hh|Hh]; [|discriminate]. rewrite <- Er, Ee in Hh. cbn in Hh. inversion Hh.
          destruct r0; reflexivity. }
      destruct L as [L1 L2]. split; [rewrite L2; apply In_isI; exact B|].
      assert (last r p0 = last (p0 :: r) p0) by (destruct r; reflexivity). rewrite H0, L1. apply In_isI. exact A.
  Qed.

  (* forEachNonInteractingSegment on an element of E: total, and every chain is a Chain *)
  Lemma inst_chains_total e : In e E -> exists cs, chains_of I e = Some cs.
  Proof.
    intros H. unfold chains_of. apply (split_chains_total _ (0, 0)); [|intros _; cbn; lia].
    intros Hne. destruct e as [|p0 r]; [congruence|]. destruct (inst_ends _ p0 r H eq_refl) as [_ B].
    assert (last (p0 :: r) (0, 0) = last r p0) by (rewrite (last_nonempty_irrel (p0 :: r) (0, 0) p0 ltac:(discriminate)); destruct r; reflexivity).
    rewrite H0. exact B.
  Qed.
  Lemma inst_chain e cs c : In e E -> chains_of I e = Some cs -> In c cs -> Chain I E c.
  Proof.
    intros H Hcs Hc. exists e. split; [exact H|split].
    - unfold chains_of in Hcs. destruct (split_chains_contig _ _ _ _ Hcs c Hc) as [l1 [l2 El]]. exists l1, l2. exact El.
    - destruct (chains_of_spec_lemma I e cs Hcs) as [_ Hok].
      + destruct e as [|p0 r]; [exact Logic.I|]. apply (inst_ends _ p0 r H eq_refl).
      + rewrite forallb_forall in Hok. apply Hok. exact Hc.
  Qed.

  Lemma isI_vertex p : isI p = true -> existsb (pt_eqb p) (ov_vertices I) = true.
  Proof.
    intros H. apply existsb_exists in H. destruct H as [x [Hx Hp]]. destruct (sort_uniq_keeps _ _ Hx) as [x' [H1 H2]].
    apply existsb_exists. exists x'. split; [exact H1|]. apply pt_eqb_iff. apply pt_eqb_iff in Hp.
    etransitivity; [exact Hp | symmetry; exact H2].
  Qed.
  Lemma Chain_shape c : Chain I E c -> chain_shape_ok (ov_vertices I) c = true.
  Proof.
    intros [e [He [[l1 [l2 Ee]] Hok]]]. pose proof Hok as Hc. apply chain_ok_char in Hc.
    destruct Hc as [p [m [q [Ec [H1 [H2 H3]]]]]].
    subst c. unfold chain_shape_ok.
    assert (Hm : exists y r, m ++ [q] = y :: r) by (destruct m; cbn; eauto).
    destruct Hm as [y [r Hm]]. rewrite Hm. rewrite <- Hm.
    apply andb_true_iff; split; [apply andb_true_iff; split|].
    - apply forallb_forall. intros [u w] Huw. apply negb_true_iff. apply pt_eqb_false_iff. cbn [fst snd].
      destruct (ring_edges_in_split _ u w Huw) as [k1 [k2 Ek]].
      apply (inst_nondeg e (l1 ++ k1) u w (k2 ++ l2) He). rewrite Ee, Ek, <- !app_assoc. reflexivity.
    - apply isI_vertex. exact H1.
    - apply isI_vertex.
      replace (last (p :: m ++ [q]) p) with q; [exact H2|].
      change (p :: m ++ [q]) with ((p :: m) ++ [q]). rewrite last_last. reflexivity.
  Qed.

  (* the executable hypothesis of the composition theorem holds for any list of chains of elements of E *)
  Lemma inst_chains_wf cs : (forall c, In c cs -> Chain I E c) -> chains_wf (ov_vertices I) cs = true.
  Proof.
    intros H. unfold chains_wf. apply andb_true_iff; split.
    - apply forallb_forall. intros c Hc. specialize (H c Hc).
      rewrite (Chain_shape c H), (Chain_shape (rev c) (Chain_rev I E inst_rev c H)).
      rewrite (chain_not_palindrome I E inst_spike inst_conf inst_rev inst_nondeg c H). reflexivity.
    - unfold keys_consistent.
      assert (HS : forall s, In s (cs ++ map (@rev pt) cs) -> Chain I E s).
      { intros s Hs. apply in_app_or in Hs. destruct Hs as [Hs|Hs]; [apply H; exact Hs|].
        apply in_map_iff in Hs. destruct Hs as [c [<- Hc]]. apply (Chain_rev I E inst_rev). apply H. exact Hc. }
      apply forallb_forall. intros s Hs. apply forallb_forall. intros t Ht.
      destruct (he_key_eqb s t) eqn:K; [cbn|reflexivity].
      apply seq_eqb_iff. apply (chains_same_key I E inst_spike inst_conf inst_rev s t (HS s Hs) (HS t Ht) K).
  Qed.
End Inst.

(* ================================================================ the chains the pipeline inserts *)
Lemma indexed_from_in {A} (l : list A) : forall k ix, In ix (indexed_from k l) -> In (snd ix) l.
Proof. induction l as [|x l IH]; intros k ix H; [destruct H|]. destruct H as [<-|H]; [left; reflexivity|right; apply (IH _ _ H)]. Qed.
Lemma force_ccw_in rings ps : In ps (force_ccw rings) -> exists q, In q rings /\ (ps = q \/ ps = rev q).
Proof.
  unfold force_ccw. destruct (poly_is_ccw rings); [intros H; exists ps; auto|].
  intros H. apply in_map_iff in H. destruct H as [ir [<- Hir]]. exists (snd ir). split; [apply (indexed_from_in _ _ _ Hir)|].
  unfold force_ring. destruct (Bool.eqb _ _); auto.
Qed.
Lemma regroup_in sh : forall es oe ps, In oe (regroup sh es) -> In ps (elem_seqs oe) ->
  exists q, In q es /\ (ps = q \/ ps = rev q).
Proof.
  induction sh as [|s sh IH]; intros es oe ps Hoe Hps; [destruct Hoe|]. destruct s as [|n]; cbn [regroup] in Hoe.
  - destruct es as [|e es']; [destruct Hoe|]. destruct Hoe as [<-|Hoe].
    + cbn in Hps. destruct Hps as [<-|[]]. exists e. split; [left; reflexivity|left; reflexivity].
    + destruct (IH es' oe ps Hoe Hps) as [q [Hq Hc]]. exists q. split; [right; exact Hq|exact Hc].
  - destruct Hoe as [<-|Hoe].
    + cbn [elem_seqs] in Hps. destruct (force_ccw_in _ _ Hps) as [q [Hq Hc]]. exists q. split; [|exact Hc].
      rewrite <- (firstn_skipn n es). apply in_or_app. left. exact Hq.
    + destruct (IH (skipn n es) oe ps Hoe Hps) as [q [Hq Hc]]. exists q. split; [|exact Hc].
      rewrite <- (firstn_skipn n es). apply in_or_app. right. exact Hq.
Qed.
Lemma opt_concat_total {A} (l : list (option (list A))) : (forall o, In o l -> exists x, o = Some x) ->
  exists cs, opt_concat l = Some cs /\ forall c, In c cs -> exists x, In (Some x) l /\ In c x.
Proof.
  induction l as [|o l IH]; intros H; [exists []; split; [reflexivity|intros c []]|].
  destruct (H o (or_introl eq_refl)) as [x ->]. destruct IH as [cs [E Hcs]]; [intros o' Ho'; apply H; right; exact Ho'|].
  exists (x ++ cs). cbn [opt_concat]. rewrite E. split; [reflexivity|]. intros c Hc. apply in_app_or in Hc. destruct Hc as [Hc|Hc].
  - exists x. split; [left; reflexivity|exact Hc].
  - destruct (Hcs c Hc) as [y [H1 H2]]. exists y. split; [right; exact H1|exact H2].
Qed.

Lemma rn_elems_nondeg nodes ea eb gh e P :
  In e (rn_a (renode_elems nodes ea eb gh) ++ rn_b (renode_elems nodes ea eb gh) ++ rn_ghosts (renode_elems nodes ea eb gh)) ->
  In P (ring_edges e) -> ~ pt_eq (fst P) (snd P).
Proof.
  intros He HP. change (In e (rn_all (renode_elems nodes ea eb gh))) in He. rewrite rn_all_eq in He.
  apply in_map_iff in He. destruct He as [e1 [<- He1]].
  apply (renode_ls_pieces_nondeg _ e1 (fun ln H => f2_ok nodes ea eb gh e1 ln He1 H) P HP).
Qed.

Theorem pipeline_chains_wf_lemma (a b : geom) :
  exists cs, pipeline_chains a b = Some cs /\
             chains_wf (ov_vertices (sk_vertices (overlay_skeleton_of a b))) cs = true.
Proof.
  unfold pipeline_chains, pipeline_chains_of_skel. set (sk := overlay_skeleton_of a b). set (r := sk_renoded sk). set (I := sk_vertices sk).
  assert (EI : I = find_interaction_points (rn_a r) (g_points a) (rn_b r) (g_points b) (rn_ghosts r)) by reflexivity.
  set (elems := rn_a r ++ rn_b r ++ rn_ghosts r).
  set (E := elems ++ map (@rev pt) elems).
  assert (Hnd : forall e P, In e elems -> In P (ring_edges e) -> ~ pt_eq (fst P) (snd P)).
  { intros e P He HP. unfold elems, r, sk, overlay_skeleton_of, renode_geometries in He. cbn [sk_renoded] in He.
    apply (rn_elems_nondeg _ _ _ _ e P He HP). }
  assert (HinE : forall ps, In ps (inserted_seqs (rn_ghosts r) (regroup (g_shapes a) (rn_a r)) (regroup (g_shapes b) (rn_b r))) -> In ps E).
  { intros ps H. unfold inserted_seqs in H.
    assert (X : forall q, In q elems -> ps = q \/ ps = rev q -> In ps E).
    { intros q Hq [->| ->]; unfold E; apply in_or_app; [left; exact Hq | right; apply in_map; exact Hq]. }
    apply in_app_or in H. destruct H as [H|H].
    - apply (X ps); [|left; reflexivity]. unfold elems. apply in_or_app. right. apply in_or_app. right. exact H.
    - apply in_app_or in H. destruct H as [H|H]; apply in_flat_map in H; destruct H as [oe [H1 H2]];
        destruct (regroup_in _ _ _ _ H1 H2) as [q [Hq Hc]]; apply (X q); auto; unfold elems; apply in_or_app.
      + left. exact Hq.
      + right. apply in_or_app. left. exact Hq. }
  destruct (opt_concat_total (map (chains_of I) (inserted_seqs (rn_ghosts r) (regroup (g_shapes a) (rn_a r)) (regroup (g_shapes b) (rn_b r)))))
    as [cs [Ecs Hcs]].
  { intros o Ho. apply in_map_iff in Ho. destruct Ho as [ps [<- Hps]]. rewrite EI.
    apply (inst_chains_total (rn_a r) (g_points a) (rn_b r) (g_points b) (rn_ghosts r)). apply HinE. exact Hps. }
  exists cs. split; [exact Ecs|]. rewrite EI.
  apply (inst_chains_wf (rn_a r) (g_points a) (rn_b r) (g_points b) (rn_ghosts r) Hnd).
  intros c Hc. destruct (Hcs c Hc) as [x [Hx Hcx]]. apply in_map_iff in Hx. destruct Hx as [ps [Eps Hps]].
  rewrite EI in Eps.
  apply (inst_chain (rn_a r) (g_points a) (rn_b r) (g_points b) (rn_ghosts r) ps x c (HinE ps Hps) Eps Hcx).
Qed.

(* (a) the composed model: total, and the pre-complex it hands to the fix-up satisfies the hypotheses of the
   fix-up theorems - for ALL operands *)
Theorem pipeline_precomplex_wf_lemma (a b : geom) :
  exists ov, overlay_dcel_full a b = Some ov /\
             pre_wf (ov_pre ov) = true /\ pre_dirs_ok (ov_pre ov) = true /\ pre_src_sym (ov_pre ov) = true /\
             pre_srcface_le (ov_pre ov) = true /\
             fixup (ov_pre ov) = Some (ov_cx ov) /\
             ranges_ok (ov_cx ov) = true /\ twin_ok (ov_cx ov) = true /\ next_prev_ok (ov_cx ov) = true /\
             faces_ok (ov_cx ov) = true /\ labels_ok (ov_cx ov) = true /\ dcel_ok (ov_cx ov) = euler_ok (ov_cx ov).
Proof.
  destruct (pipeline_chains_wf_lemma a b) as [cs [H1 H2]]. apply (composed_precomplex_lemma a b cs H1 H2).
Qed.

(* ================================================================ (b) T4 in full *)
Definition chain_end (c : list pt) (x : pt) : Prop :=
  exists p r, c = p :: r /\ (pt_eq x p \/ pt_eq x (last r p)).

Section T4Full.
  Variables (ea : list (list pt)) (pa : list pt) (eb : list (list pt)) (pb : list pt) (gh : list (list pt)).
  Let I := find_interaction_points ea pa eb pb gh.
  Let isI := is_interaction I.
  Let elems := ea ++ eb ++ gh.
  Let E := elems ++ map (@rev pt) elems.
  Hypothesis elems_nondeg : forall e P, In e elems -> In P (ring_edges e) -> ~ pt_eq (fst P) (snd P).
  Hypothesis elems_noded : Noded (flat_map (@ring_edges) elems).

  Let Hspike := inst_spike ea pa eb pb gh.
  Let Hconf := inst_conf ea pa eb pb gh.
  Let Hrev := inst_rev ea eb gh.

  (* a piece of a chain of an element of E is a piece of the input, possibly reversed *)
  Lemma chain_piece_in c u w : Chain I E c -> In (u, w) (ring_edges c) ->
    In (u, w) (flat_map (@ring_edges) elems) \/ In (w, u) (flat_map (@ring_edges) elems).
  Proof.
    intros [e [He [[l1 [l2 Ee]] _]]] H. destruct (ring_edges_in_split _ _ _ H) as [k1 [k2 Ek]].
    assert (Ee' : e = (l1 ++ k1) ++ u :: w :: (k2 ++ l2)) by (rewrite Ee, Ek, <- !app_assoc; reflexivity).
    destruct (E_cases ea eb gh e He) as [H1|[e0 [H1 Er]]].
    - left. apply in_flat_map. exists e. split; [exact H1|]. rewrite Ee'. apply ring_edges_mid.
    - right. apply in_flat_map. exists e0. split; [exact H1|].
      assert (e0 = rev (k2 ++ l2) ++ w :: u :: rev (l1 ++ k1)).
      { rewrite <- (rev_involutive e0), <- Er, Ee', rev_app_distr. cbn [rev]. rewrite <- !app_assoc. reflexivity. }
      rewrite H0. apply ring_edges_mid.
  Qed.

  (* position of a control point in a chain: an end, or interior with both neighbours *)
  Lemma chain_point_cases c k1 x k2 : Chain I E c -> c = k1 ++ x :: k2 ->
    (chain_end c x /\ isI x = true) \/
    (isI x = false /\ exists k1' a b k2', c = k1' ++ a :: x :: b :: k2').
  Proof.
    intros HC Ec. destruct HC as [e [He [Hct Hok]]]. pose proof Hok as Hch. apply chain_ok_char in Hch.
    destruct Hch as [p [m [q [Epq [H1 [H2 H3]]]]]].
    destruct k1 as [|a0 k1'].
    - left. cbn [app] in Ec. rewrite Ec in Epq. inversion Epq; subst. split; [|exact H1].
      exists p, (m ++ [q]). split; [reflexivity|left; reflexivity].
    - destruct k2 as [|b0 k2'].
      + left. assert (x = q).
        { rewrite Ec in Epq. change (a0 :: k1' ++ [x]) with ((a0 :: k1') ++ [x]) in Epq. change (p :: m ++ [q]) with ((p :: m) ++ [q]) in Epq.
          apply app_inj_tail in Epq. apply Epq. }
        subst x. split; [|exact H2]. exists p, (m ++ [q]). split; [exact Epq|right]. rewrite last_last. reflexivity.
      + right. assert (exists k1'' a, a0 :: k1' = k1'' ++ [a]) as [k1'' [a Ea]].
        { exists (removelast (a0 :: k1')), (last (a0 :: k1') a0). apply app_removelast_last. discriminate. }
        split.
        * assert (T : tail_ok I (x :: b0 :: k2')).
          { apply (chain_split_tail I c k1'' a x (b0 :: k2') Hok). rewrite Ec, Ea, <- app_assoc. reflexivity. }
          destruct T as [T _]. exact T.
        * exists k1'', a, b0, k2'. rewrite Ec, Ea, <- app_assoc. reflexivity.
  Qed.

  Lemma chain_end_isI c x : Chain I E c -> chain_end c x -> isI x = true.
  Proof.
    intros [e [He [Hct Hok]]] [p [r [Ec Hx]]]. apply chain_ok_char in Hok. destruct Hok as [p' [m [q [Epq [H1 [H2 H3]]]]]].
    rewrite Ec in Epq. inversion Epq; subst p' r. unfold isI.
    destruct Hx as [Hx|Hx]; [rewrite (is_interaction_proper I _ _ Hx); exact H1|].
    rewrite last_last in Hx. rewrite (is_interaction_proper I _ _ Hx). exact H2.
  Qed.

  (* two chains through a common control point *)
  Lemma common_control_point c1 c2 k1 x1 k2 j1 x2 j2 :
    Chain I E c1 -> Chain I E c2 -> c1 = k1 ++ x1 :: k2 -> c2 = j1 ++ x2 :: j2 -> pt_eq x1 x2 ->
    (chain_end c1 x1 /\ chain_end c2 x2) \/ seqs_eq c1 c2 \/ seqs_eq c1 (rev c2).
  Proof.
    intros HC1 HC2 E1 E2 Ex.
    destruct (chain_point_cases c1 k1 x1 k2 HC1 E1) as [[A1 A2]|[A1 [k1' [a1 [b1 [k2' A2]]]]]];
    destruct (chain_point_cases c2 j1 x2 j2 HC2 E2) as [[B1 B2]|[B1 [j1' [a2 [b2 [j2' B2]]]]]].
    - left. auto.
    - exfalso. unfold isI in *. rewrite (is_interaction_proper I _ _ Ex) in A2. congruence.
    - exfalso. unfold isI in *. rewrite (is_interaction_proper I _ _ Ex) in A1. congruence.
    - right. pose proof HC1 as HC1'. pose proof HC2 as HC2'.
      destruct HC1 as [e1 [He1 [Ct1 Ok1]]]. destruct HC2 as [e2 [He2 [Ct2 Ok2]]].
      assert (K1 : consecutive3 e1 a1 x1 b1) by (apply (contig_c3 e1 k1' a1 x1 b1 k2'); rewrite <- A2; exact Ct1).
      assert (K2 : consecutive3 e2 a2 x2 b2) by (apply (contig_c3 e2 j1' a2 x2 b2 j2'); rewrite <- B2; exact Ct2).
      destruct (pair_eqb (adj_pair a1 b1) (adj_pair a2 b2)) eqn:P.
      + apply adj_pair_eq in P. destruct P as [[Pa Pb]|[Pa Pb]].
        * left. apply (share_piece I E Hspike Hconf Hrev e1 e2 c1 c2 k1' a1 x1 (b1 :: k2') j1' a2 x2 (b2 :: j2')); auto.
        * right. destruct (Chain_rev I E Hrev c2 HC2') as [e2' [He2' [Ct2' Ok2']]].
          apply (share_piece I E Hspike Hconf Hrev e1 e2' c1 (rev c2) k1' a1 x1 (b1 :: k2') (rev j2') b2 x2 (a2 :: rev j1')); auto.
          rewrite B2, rev_app_distr. cbn [rev]. rewrite <- !app_assoc. reflexivity.
      + exfalso. assert (S : isI x1 = true) by (apply (Hconf e1 a1 x1 b1 e2 a2 x2 b2 He1 K1 He2 K2 Ex P)). congruence.
  Qed.

  (* T4: a point that lies on a piece of one chain and on a piece of another chain is a common end of the two
     chains - or the chains are the same point sequence, up to reversal *)
  Theorem chains_meet_at_ends c1 c2 P1 P2 x :
    Chain I E c1 -> Chain I E c2 -> In P1 (ring_edges c1) -> In P2 (ring_edges c2) ->
    on_seg P1 x = true -> on_seg P2 x = true ->
    (chain_end c1 x /\ chain_end c2 x) \/ seqs_eq c1 c2 \/ seqs_eq c1 (rev c2).
  Proof.
    intros HC1 HC2 HP1 HP2 Hx1 Hx2. destruct P1 as [u1 w1], P2 as [u2 w2].
    destruct (ring_edges_in_split _ _ _ HP1) as [k1 [k2 Ek]]. destruct (ring_edges_in_split _ _ _ HP2) as [j1 [j2 Ej]].
    (* the two pieces as pieces of the input *)
    assert (N : (is_end_p (u1, w1) x /\ is_end_p (u2, w2) x) \/ seg_same (u1, w1) (u2, w2)).
    { destruct (chain_piece_in c1 u1 w1 HC1 HP1) as [Q1|Q1]; destruct (chain_piece_in c2 u2 w2 HC2 HP2) as [Q2|Q2].
      - apply (elems_noded _ _ Q1 Q2 x Hx1 Hx2).
      - rewrite <- on_seg_sym in Hx2. destruct (elems_noded _ _ Q1 Q2 x Hx1 Hx2) as [[A B]|A].
        + left. split; [exact A|]. destruct B as [B|B]; [right|left]; exact B.
        + right. destruct A as [[A1 A2]|[A1 A2]]; [right|left]; split; assumption.
      - rewrite <- on_seg_sym in Hx1. destruct (elems_noded _ _ Q1 Q2 x Hx1 Hx2) as [[A B]|A].
        + left. split; [|exact B]. destruct A as [A|A]; [right|left]; exact A.
        + right. destruct A as [[A1 A2]|[A1 A2]]; [right|left]; split; assumption.
      - rewrite <- on_seg_sym in Hx1. rewrite <- on_seg_sym in Hx2. destruct (elems_noded _ _ Q1 Q2 x Hx1 Hx2) as [[A B]|A].
        + left. split; [destruct A as [A|A]; [right|left]; exact A | destruct B as [B|B]; [right|left]; exact B].
        + right. destruct A as [[A1 A2]|[A1 A2]]; [left|right]; split; assumption. }
    destruct N as [[A B]|A].
    - (* x is a control point of both chains *)
      assert (X1 : exists k1' x1 k2', c1 = k1' ++ x1 :: k2' /\ pt_eq x x1).
      { destruct A as [A|A]; cbn [fst snd] in A; [exists k1, u1, (w1 :: k2) | exists (k1 ++ [u1]), w1, k2]; split; auto.
        rewrite <- app_assoc. exact Ek. }
      assert (X2 : exists j1' x2 j2', c2 = j1' ++ x2 :: j2' /\ pt_eq x x2).
      { destruct B as [B|B]; cbn [fst snd] in B; [exists j1, u2, (w2 :: j2) | exists (j1 ++ [u2]), w2, j2]; split; auto.
        rewrite <- app_assoc. exact Ej. }
      destruct X1 as [k1' [x1 [k2' [E1 Ex1]]]]. destruct X2 as [j1' [x2 [j2' [E2 Ex2]]]].
      destruct (common_control_point c1 c2 k1' x1 k2' j1' x2 j2' HC1 HC2 E1 E2) as [[C1 C2]|C]; [etransitivity; [symmetry; exact Ex1|exact Ex2] | left | right; exact C].
      split.
      + destruct C1 as [p [r [Ec Hc]]]. exists p, r. split; [exact Ec|]. destruct Hc as [Hc|Hc]; [left|right]; (etransitivity; [exact Ex1|exact Hc]).
      + destruct C2 as [p [r [Ec Hc]]]. exists p, r. split; [exact Ec|]. destruct Hc as [Hc|Hc]; [left|right]; (etransitivity; [exact Ex2|exact Hc]).
    - (* the same piece *)
      right. destruct HC1 as [e1 [He1 [Ct1 Ok1]]]. pose proof HC2 as HC2'. destruct HC2 as [e2 [He2 [Ct2 Ok2]]].
      destruct A as [[A1 A2]|[A1 A2]]; cbn [fst snd] in A1, A2.
      + left. apply (share_piece I E Hspike Hconf Hrev e1 e2 c1 c2 k1 u1 w1 k2 j1 u2 w2 j2); auto.
      + right. destruct (Chain_rev I E Hrev c2 HC2') as [e2' [He2' [Ct2' Ok2']]].
        apply (share_piece I E Hspike Hconf Hrev e1 e2' c1 (rev c2) k1 u1 w1 k2 (rev j2) w2 u2 (rev j1)); auto.
        rewrite Ej, rev_app_distr. cbn [rev]. rewrite <- !app_assoc. reflexivity.
  Qed.
End T4Full.

(* ... for the re-noded operands of ANY input, with the chains of forEachNonInteractingSegment *)
Theorem T4_full_lemma (nodes : list pt) (ea eb gh : list (list pt)) (pa pb : list pt) :
  let r := renode_elems nodes ea eb gh in
  let I := find_interaction_points (rn_a r) pa (rn_b r) pb (rn_ghosts r) in
  forall e1 e2 cs1 cs2 c1 c2 P1 P2 x,
    In e1 (rn_all r) -> In e2 (rn_all r) -> chains_of I e1 = Some cs1 -> chains_of I e2 = Some cs2 ->
    In c1 cs1 -> In c2 cs2 -> In P1 (ring_edges c1) -> In P2 (ring_edges c2) ->
    on_seg P1 x = true -> on_seg P2 x = true ->
    (chain_end c1 x /\ chain_end c2 x) \/ seqs_eq c1 c2 \/ seqs_eq c1 (rev c2).
Proof.
  intros r I e1 e2 cs1 cs2 c1 c2 P1 P2 x He1 He2 H1 H2 Hc1 Hc2 HP1 HP2 Hx1 Hx2.
  assert (Hnd : forall e P, In e (rn_a r ++ rn_b r ++ rn_ghosts r) -> In P (ring_edges e) -> ~ pt_eq (fst P) (snd P)).
  { intros e P. apply rn_elems_nondeg. }
  assert (Hno : Noded (flat_map (@ring_edges) (rn_a r ++ rn_b r ++ rn_ghosts r))) by (apply (renode_noded_lemma nodes ea eb gh)).
  assert (InE : forall e, In e (rn_all r) -> In e ((rn_a r ++ rn_b r ++ rn_ghosts r) ++ map (@rev pt) (rn_a r ++ rn_b r ++ rn_ghosts r))).
  { intros e He. apply in_or_app. left. exact He. }
  apply (chains_meet_at_ends (rn_a r) pa (rn_b r) pb (rn_ghosts r) Hno c1 c2 P1 P2 x); auto.
  - apply (inst_chain (rn_a r) pa (rn_b r) pb (rn_ghosts r) e1 cs1 c1 (InE e1 He1) H1 Hc1).
  - apply (inst_chain (rn_a r) pa (rn_b r) pb (rn_ghosts r) e2 cs2 c2 (InE e2 He2) H2 Hc2).
Qed.

(* ================================================================ the fix-up theorems on the composed model *)
(* Props/C01_fixup.v states them under the executable hypotheses pre_wf / pre_dirs_ok / pre_src_sym; for the
   pre-complex the pipeline builds these hold for every input (pipeline_precomplex_wf_lemma), so: *)
Theorem pipeline_fixup_applies_lemma (a b : geom) :
  exists ov, overlay_dcel_full a b = Some ov /\
    let pc := ov_pre ov in
    let s := fixVertices pc in
    (* next / prev: inverse permutations of the half edges; next e leaves the end vertex of e and is the
       clockwise neighbour of twin e there *)
    (forall e, (e < pnE pc)%nat ->
       (l_next s e < pnE pc)%nat /\ (l_prev s e < pnE pc)%nat /\ l_next s (l_prev s e) = e /\ l_prev s (l_next s e) = e /\
       p_origin pc (l_next s e) = p_origin pc (p_twin pc e)) /\
    (forall e z, (e < pnE pc)%nat -> (z < pnE pc)%nat -> p_origin pc z = p_origin pc (p_twin pc e) ->
       z <> l_next s e -> z <> p_twin pc e -> ccw_between (edge_less pc) (l_next s e) z (p_twin pc e) = false) /\
    (* faces and the flood fill *)
    exists fo, assignFaces pc (l_next s) = Some fo /\
      forall op,
        (forall e, (e < pnE pc)%nat -> lab_get (p_srcFace pc e) op = true -> lab_get (fo_in fo (fo_incident fo e)) op = true) /\
        (forall e, (e < pnE pc)%nat -> lab_get (p_srcFace pc e) op = false -> lab_get (fo_in fo (fo_incident fo e)) op = true ->
                   lab_get (fo_in fo (fo_incident fo (p_twin pc e))) op = true) /\
        (forall f, lab_get (fo_in fo f) op = true <->
                   reach (op_succs pc (fo_cycles fo) (fo_incident fo) op) (op_seed pc (fo_cycles fo) op) f).
Proof.
  destruct (pipeline_precomplex_wf_lemma a b) as [ov [E [W1 [W2 [W3 [W4 _]]]]]].
  exists ov. split; [exact E|]. cbn zeta. split; [|split].
  - intros e He. destruct (fix_next_prev_inverse_lemma _ W1 e He) as [A [B [C D]]].
    repeat split; auto. apply (fix_next_origin _ W1 e He).
  - apply (fix_next_radial_lemma _ W1 W2).
  - destruct (assignFaces_total _ W1) as [fo Hfo]. exists fo. split; [exact Hfo|]. intros op.
    apply (flood_faces_lemma _ W1 fo Hfo op).
Qed.

(* ================================================================ (d) labels and geometry: what is proved *)
(* the label side: a half edge that carries the srcFace flag of an operand lies on a face labelled with that
   operand - on the composed model, for every input (from labels_ok) *)
Theorem pipeline_face_label_seed_lemma (a b : geom) :
  exists ov, overlay_dcel_full a b = Some ov /\
             forall e, In e (c_edges (ov_cx ov)) -> lab_le (e_srcFace e) (face_in (ov_cx ov) (e_face e)) = true.
Proof.
  destruct (pipeline_precomplex_wf_lemma a b) as [ov [E [_ [_ [_ [_ [_ [_ [_ [_ [_ [L _]]]]]]]]]]]].
  exists ov. split; [exact E|]. intros e He. unfold labels_ok in L. apply andb_true_iff in L. destruct L as [L _].
  rewrite forallb_forall in L. specialize (L e He).
  repeat (apply andb_true_iff in L; destruct L as [L ?]). assumption.
Qed.

(* the geometric side: the witness point of a face *)
Lemma witness_search_spec pieces s : forall fuel t w, 0 < t -> witness_search pieces s t fuel = Some w ->
  exists t', 0 < t' /\ w = left_point s t' /\ clear_of pieces s w = true.
Proof.
  induction fuel as [|k IH]; intros t w Ht H; [discriminate|]. cbn [witness_search] in H.
  destruct (clear_of pieces s (left_point s t)) eqn:E.
  - inversion H; subst w. exists t. auto.
  - apply (IH (t / 2) w); [|exact H]. apply Qlt_shift_div_l; lra.
Qed.
Lemma left_point_left p q t : ~ pt_eq p q -> 0 < t -> 0 < cross p q (left_point (p, q) t).
Proof.
  intros N Ht. unfold left_point, cross. cbn [fst snd]. rewrite !Qred_correct.
  destruct p as [px py], q as [qx qy]. cbn [fst snd] in *.
  assert (D : 0 < (qx - px) * (qx - px) + (qy - py) * (qy - py)).
  { destruct (Qeq_dec qx px) as [E1|E1].
    - destruct (Qeq_dec qy py) as [E2|E2]; [exfalso; apply N; split; cbn; lra|].
      assert (0 < (qy - py) * (qy - py)) by (apply qsq_pos; lra). assert (0 <= (qx - px) * (qx - px)) by apply qsq_nonneg. lra.
    - assert (0 < (qx - px) * (qx - px)) by (apply qsq_pos; lra). assert (0 <= (qy - py) * (qy - py)) by apply qsq_nonneg. lra. }
  assert (X : (qx - px) * ((py + qy) / 2 + t * (qx - px) - py) - (qy - py) * ((px + qx) / 2 - t * (qy - py) - px)
              == t * ((qx - px) * (qx - px) + (qy - py) * (qy - py))) by field.
  rewrite X. apply Qmult_lt_0_compat; assumption.
Qed.
Lemma cross_mid p q : cross p q (seg_mid (p, q)) == 0.
Proof. unfold cross, seg_mid. cbn [fst snd]. rewrite !Qred_correct. field. Qed.
Lemma clear_of_spec pieces s w :
  ~ pt_eq (seg_mid s) w -> (forall u, In u pieces -> ~ pt_eq (fst u) (snd u)) -> clear_of pieces s w = true ->
  forall u y, In u pieces -> on_seg (seg_mid s, w) y = true -> on_seg u y = true -> pt_eq y (seg_mid s).
Proof.
  intros Nw Nu H u y Hu Hy1 Hy2. unfold clear_of in H. rewrite forallb_forall in H. specialize (H u Hu).
  destruct (seg_seg (seg_mid s, w) u) as [|x|x x'] eqn:E; try discriminate.
  - exfalso. apply (seg_seg_complete _ _ y Hy1 Hy2). exact E.
  - apply pt_eqb_iff in H. etransitivity; [|exact H].
    apply (seg_seg_point_unique (seg_mid s, w) u x y); auto.
Qed.

(* FULL STATEMENT WANTED (not proved - it is the correctness theorem of the overlay engine, a theorem of planar
   topology): for every face f of the composed complex with witness w,  f_in f = (inG a w, inG b w)  whenever
   neither operand has areal members with intersecting interiors (the class of the known findings F20 / F20b).
   The driver EVALUATES it on every face of every composed complex (SPEC pipeline_face_label).
   PROVED: pipeline_face_label_seed (above): the flag srcFace puts the incident face into the operand; and for the
   witness: it lies strictly to the LEFT of the first piece (p, q) of the face's cycle edge, and the segment from
   the middle of that piece to it meets the pieces of the overlay only at that middle - so that it lies in the
   region immediately left of the edge, which is the face (the face is kept on the left of its half edges:
   fix_next_radially_adjacent). *)
Theorem face_witness_lemma (ov : overlay) (e : nat) (w : pt) :
  (forall u, In u (all_pieces ov) -> ~ pt_eq (fst u) (snd u)) ->
  face_witness_at ov e = Some w ->
  exists p q rest, seq_of ov e = p :: q :: rest /\ ~ pt_eq p q /\ 0 < cross p q w /\
    forall u y, In u (all_pieces ov) -> on_seg (seg_mid (p, q), w) y = true -> on_seg u y = true -> pt_eq y (seg_mid (p, q)).
Proof.
  intros Nu H. unfold face_witness_at in H. destruct (seq_of ov e) as [|p [|q rest]] eqn:Es; try discriminate.
  cbn [first_piece obind] in H.
  assert (Hin : In (p, q) (all_pieces ov)).
  { unfold all_pieces. apply in_flat_map. exists (p :: q :: rest). split; [|left; reflexivity].
    unfold seq_of in Es. rewrite <- Es. apply nth_In.
    destruct (Nat.lt_ge_cases e (length (ov_seqs ov))) as [L|L]; [exact L|]. rewrite nth_overflow in Es by exact L. discriminate. }
  pose proof (Nu _ Hin) as Npq. cbn [fst snd] in Npq.
  destruct (witness_search_spec _ _ 64 (1 # 2) w ltac:(reflexivity) H) as [t [Ht [Ew Hc]]].
  exists p, q, rest. split; [reflexivity|split; [exact Npq|]].
  assert (C : 0 < cross p q w) by (rewrite Ew; apply left_point_left; assumption).
  split; [exact C|].
  apply clear_of_spec; [|exact Nu|exact Hc].
  intros Em. assert (cross p q w == 0); [|lra]. 
  rewrite <- (cross_mid p q). apply cross_proper; [reflexivity|reflexivity|symmetry; exact Em].
Qed.

(* ================================================================ (c) an operand without components *)
(* UnaryUnion(g) = setOp(g, or, Geometry{}): the second operand contributes no chain and no point.  Then no
   label of the complex has the B bit, Intersection extracts nothing, and or / andNot / xor select the same cells. *)
Lemma In_upd_nth {A} (f : A -> A) l : forall i x, In x (upd_nth i f l) -> In x l \/ exists y, In y l /\ x = f y.
Proof.
  induction l as [|a l IH]; intros [|i] x H; cbn in H; try (destruct H; fail).
  - destruct H as [<-|H]; [right; exists a; split; [left; reflexivity|reflexivity] | left; right; exact H].
  - destruct H as [<-|H]; [left; left; reflexivity|]. destruct (IH i x H) as [H1|[y [H1 H2]]]; [left; right; exact H1|].
    right. exists y. split; [right; exact H1|exact H2].
Qed.

Definition NoLab (op : bool) (st : bstate) : Prop :=
  (forall l, In l (b_vsrc st) -> lab_get l op = false) /\
  (forall h, In h (b_edges st) -> lab_get (h_srcE h) op = false /\ lab_get (h_srcF h) op = false).
Lemma set_lab_other l op op' : op' <> op -> lab_get (set_lab l op') op = lab_get l op.
Proof. destruct l as [x y], op, op'; cbn; congruence. Qed.

Lemma get_or_add_in es seg es' i h : get_or_add es seg = (es', i) -> In h es' ->
  In h es \/ h = MkH seg 0 0 (false, false) (false, false).
Proof.
  unfold get_or_add. destruct (he_lookup es seg); intros E; inversion E; subst; intros H; [left; exact H|].
  apply in_app_or in H. destruct H as [H|[<-|[]]]; auto.
Qed.

Lemma add_edge_nolab verts op op' k st c st' : op' <> op -> NoLab op st -> add_edge verts op' k st c = Some st' -> NoLab op st'.
Proof.
  intros Hne [HV HE] H. destruct c as [|p0 [|p1 cr]]; try discriminate. cbn [add_edge] in H. unfold add_edge_body in H.
  destruct (get_or_add (b_edges st) (p0 :: p1 :: cr)) as [es1 f] eqn:G1.
  destruct (get_or_add es1 (rev (p0 :: p1 :: cr))) as [es2 r] eqn:G2.
  destruct (vindex verts p0) as [sv|]; [|discriminate]. destruct (vindex verts _) as [ev|]; [|discriminate].
  assert (E2 : forall h, In h es2 -> lab_get (h_srcE h) op = false /\ lab_get (h_srcF h) op = false).
  { intros h Hh. destruct (get_or_add_in _ _ _ _ _ G2 Hh) as [Hh1| ->]; [|destruct op; auto].
    destruct (get_or_add_in _ _ _ _ _ G1 Hh1) as [Hh0| ->]; [apply HE; exact Hh0|destruct op; auto]. }
  (* every function applied to a record keeps the bit of op clear *)
  assert (Keep : forall (g : hrec -> hrec) i l,
            (forall h, lab_get (h_srcE h) op = false /\ lab_get (h_srcF h) op = false ->
                       lab_get (h_srcE (g h)) op = false /\ lab_get (h_srcF (g h)) op = false) ->
            (forall h, In h l -> lab_get (h_srcE h) op = false /\ lab_get (h_srcF h) op = false) ->
            forall h, In h (upd_nth i g l) -> lab_get (h_srcE h) op = false /\ lab_get (h_srcF h) op = false).
  { intros g i l Hg Hl h Hh. destruct (In_upd_nth g l i h Hh) as [H1|[y [H1 ->]]]; [apply Hl; exact H1|apply Hg, Hl; exact H1]. }
  assert (K1 : forall o t h, lab_get (h_srcE h) op = false /\ lab_get (h_srcF h) op = false ->
               lab_get (h_srcE (set_origin_twin o t h)) op = false /\ lab_get (h_srcF (set_origin_twin o t h)) op = false) by (intros; cbn; assumption).
  assert (K2 : forall h, lab_get (h_srcE h) op = false /\ lab_get (h_srcF h) op = false ->
               lab_get (h_srcE (set_srcE op' h)) op = false /\ lab_get (h_srcF (set_srcE op' h)) op = false).
  { intros h [A B]. cbn. rewrite set_lab_other by exact Hne. auto. }
  assert (K3 : forall h, lab_get (h_srcE h) op = false /\ lab_get (h_srcF h) op = false ->
               lab_get (h_srcE (set_srcF op' h)) op = false /\ lab_get (h_srcF (set_srcF op' h)) op = false).
  { intros h [A B]. cbn. rewrite set_lab_other by exact Hne. auto. }
  assert (KV : forall i l, (forall x, In x l -> lab_get x op = false) -> forall x, In x (upd_nth i (fun l0 => set_lab l0 op') l) -> lab_get x op = false).
  { intros i l Hl x Hx. destruct (In_upd_nth _ l i x Hx) as [H1|[y [H1 ->]]]; [apply Hl; exact H1|]. rewrite set_lab_other by exact Hne. apply Hl; exact H1. }
  assert (E3 : forall h, In h (upd_nth r (set_origin_twin ev f) (upd_nth f (set_origin_twin sv r) es2)) ->
               lab_get (h_srcE h) op = false /\ lab_get (h_srcF h) op = false).
  { apply Keep; [apply K1|]. apply Keep; [apply K1|exact E2]. }
  destruct k; inversion H; subst st'; split; cbn [b_vsrc b_edges].
  - exact HV.
  - exact E3.
  - apply KV, KV. exact HV.
  - apply Keep; [exact K2|]. apply Keep; [exact K2|exact E3].
  - apply KV, KV. exact HV.
  - apply Keep; [exact K3|]. apply Keep; [exact K2|]. apply Keep; [exact K2|exact E3].
Qed.

Lemma fold_obind_nolab {A} (step : bstate -> A -> option bstate) op :
  (forall st x st', NoLab op st -> step st x = Some st' -> NoLab op st') ->
  forall l st st', NoLab op st -> fold_left (fun o x => obind o (fun s => step s x)) l (Some st) = Some st' -> NoLab op st'.
Proof.
  intros Hs. induction l as [|x l IH]; intros st st' H E; [inversion E; subst; exact H|].
  cbn [fold_left obind] in E. destruct (step st x) as [st1|] eqn:E1.
  - apply (IH st1 st' (Hs _ _ _ H E1) E).
  - exfalso. clear - E. induction l as [|y l IH]; [discriminate|]. apply IH. exact E.
Qed.
Lemma add_seqs_nolab I verts op op' k pss : op' <> op -> forall st st', NoLab op st -> add_seqs I verts op' k st pss = Some st' -> NoLab op st'.
Proof.
  intros Hne. unfold add_seqs. apply fold_obind_nolab. intros st ps st' H E. unfold add_seq in E.
  destruct (chains_of I ps) as [cs|]; [|discriminate]. cbn [obind] in E. unfold add_chains in E.
  revert E. apply fold_obind_nolab; [|exact H]. intros s c s' Hs Es. apply (add_edge_nolab verts op op' k s c s' Hne Hs Es).
Qed.
Lemma add_elems_nolab I verts op op' es : op' <> op -> forall st st', NoLab op st -> add_elems I verts op' st es = Some st' -> NoLab op st'.
Proof.
  intros Hne. unfold add_elems. apply fold_obind_nolab. intros st e st' H E. destruct e as [ps|rings]; cbn [add_elem] in E.
  - apply (add_seqs_nolab I verts op op' KLine [ps] Hne st st' H). unfold add_seqs. cbn [fold_left obind]. exact E.
  - apply (add_seqs_nolab I verts op op' KRing _ Hne st st' H E).
Qed.
Lemma add_points_nolab verts op op' ps : op' <> op -> forall st st', NoLab op st -> add_points verts op' st ps = Some st' -> NoLab op st'.
Proof.
  intros Hne. unfold add_points. apply fold_obind_nolab. intros st p st' [HV HE] E. unfold add_point in E.
  destruct (vindex verts p) as [v|]; [|discriminate]. inversion E; subst st'. split; cbn [b_vsrc b_edges]; [|exact HE].
  intros x Hx. destruct (In_upd_nth _ _ v x Hx) as [H1|[y [H1 ->]]]; [apply HV; exact H1|]. rewrite set_lab_other by exact Hne. apply HV; exact H1.
Qed.

Lemma build_state_nolab_b I gh ea pa st : build_state I gh ea pa [] [] = Some st -> NoLab true st.
Proof.
  unfold build_state. set (verts := ov_vertices I).
  destruct (add_seqs I verts false KGhost _ gh) as [st1|] eqn:E1; [|discriminate]. cbn [obind].
  destruct (add_elems I verts false st1 ea) as [st2|] eqn:E2; [|discriminate]. cbn [obind].
  destruct (add_points verts false st2 pa) as [st3|] eqn:E3; [|discriminate]. cbn [obind].
  unfold add_elems, add_points. cbn [fold_left obind]. intros E; inversion E; subst st.
  assert (N0 : NoLab true (MkB (map (fun _ => (false, false)) verts) [])).
  { split; cbn [b_vsrc b_edges]; [|intros h []]. intros l Hl. apply in_map_iff in Hl. destruct Hl as [? [<- _]]. reflexivity. }
  pose proof (add_seqs_nolab I verts true false KGhost gh ltac:(discriminate) _ _ N0 E1) as N1.
  pose proof (add_elems_nolab I verts true false ea ltac:(discriminate) _ _ N1 E2) as N2.
  apply (add_points_nolab verts true false pa ltac:(discriminate) _ _ N2 E3).
Qed.

(* the labelled complex: no B bit anywhere *)
Definition NoLabC (op : bool) (c : complex) : Prop :=
  (forall v, In v (c_verts c) -> lab_get (v_in v) op = false) /\
  (forall e, In e (c_edges c) -> lab_get (e_in e) op = false) /\
  (forall f, In f (c_faces c) -> lab_get (f_in f) op = false).

Lemma nth_error_default_lab {A} (l : list A) (g : A -> lab) op i :
  (forall x, In x l -> lab_get (g x) op = false) ->
  lab_get (match nth_error l i with Some x => g x | None => (false, false) end) op = false.
Proof. intros H. destruct (nth_error l i) eqn:E; [apply H; apply (nth_error_In _ _ E)|destruct op; reflexivity]. Qed.

Lemma reach_no_seed succs seed f : (forall x, seed x = false) -> ~ reach succs seed f.
Proof. intros H R. induction R as [x Hx|g h _ IH _]; [rewrite H in Hx; discriminate|exact IH]. Qed.

Lemma fixup_nolab op verts st c :
  pre_wf (to_precomplex verts st) = true -> pre_src_sym (to_precomplex verts st) = true ->
  NoLab op st -> fixup (to_precomplex verts st) = Some c -> NoLabC op c.
Proof.
  intros W1 W3 [HV HE] Hc. set (pc := to_precomplex verts st) in *.
  assert (PE : forall e, lab_get (p_srcEdge pc e) op = false).
  { intros e. unfold p_srcEdge, pc, to_precomplex. cbn [pc_edges]. rewrite nth_error_map.
    destruct (nth_error (b_edges st) e) eqn:E; cbn; [apply HE; apply (nth_error_In _ _ E)|destruct op; reflexivity]. }
  assert (PF : forall e, lab_get (p_srcFace pc e) op = false).
  { intros e. unfold p_srcFace, pc, to_precomplex. cbn [pc_edges]. rewrite nth_error_map.
    destruct (nth_error (b_edges st) e) eqn:E; cbn; [apply HE; apply (nth_error_In _ _ E)|destruct op; reflexivity]. }
  assert (PV : forall v, lab_get (p_vsrc pc v) op = false).
  { intros v. unfold p_vsrc, pc, to_precomplex. cbn [pc_verts]. rewrite nth_error_map.
    destruct (nth_error (combine verts (b_vsrc st)) v) as [[x l]|] eqn:E; cbn; [|destruct op; reflexivity].
    apply HV. apply nth_error_In in E. apply (in_combine_r _ _ _ _ E). }
  unfold fixup in Hc. fold pc in Hc.
  destruct (assignFaces pc (l_next (fixVertices pc))) as [fo|] eqn:Hfo; [|discriminate].
  inversion Hc; subst c; clear Hc.
  (* faces *)
  assert (FL : forall f, lab_get (fo_in fo f) op = false).
  { intros f. destruct (lab_get (fo_in fo f) op) eqn:E; [exfalso|reflexivity].
    destruct (flood_faces_lemma pc W1 fo Hfo op) as [_ [_ S3]]. apply S3 in E. revert E. apply reach_no_seed.
    intros x. unfold op_seed. destruct (lab_get (seed_label (p_srcFace pc) (nth x (fo_cycles fo) [])) op) eqn:Es; [|reflexivity].
    apply seed_label_iff in Es. destruct Es as [e [_ He]]. rewrite PF in He. discriminate. }
  destruct (populate_spec_lemma pc (fo_incident fo) (fo_in fo) W1 W3) as [PE1 PV1].
  set (pst := populateInSetLabels pc (l_prev (fixVertices pc)) (fo_incident fo) (fo_in fo)) in *.
  assert (EL : forall e, lab_get (elab pc (fo_incident fo) (fo_in fo) e) op = false).
  { intros e. unfold elab, lab_or. specialize (PE e). pose proof (FL (fo_incident fo e)) as F1. pose proof (FL (fo_incident fo (p_twin pc e))) as F2.
    destruct op; cbn [lab_get fst snd] in *; rewrite PE, F1, F2; reflexivity. }
  split; [|split]; cbn [c_verts c_edges c_faces].
  - intros v Hv. apply in_map_iff in Hv. destruct Hv as [i [<- _]]. cbn [v_in].
    destruct (lab_get (snd pst i) op) eqn:E; [exfalso|reflexivity]. apply PV1 in E.
    destruct E as [E|[e [_ [_ E]]]]; [rewrite PV in E|rewrite EL in E]; discriminate.
  - intros e He. apply in_map_iff in He. destruct He as [i [<- Hi]]. cbn [e_in]. apply in_seq in Hi. rewrite PE1 by lia. apply EL.
  - intros f Hf. unfold faces_of in Hf. destruct (fo_cycles fo) as [|c0 cs] eqn:Ecs.
    + destruct Hf as [<-|[]]. destruct op; reflexivity.
    + apply in_map_iff in Hf. destruct Hf as [jc [<- _]]. cbn [f_in]. apply FL.
Qed.

(* selection on a complex without B labels *)
Section NoB.
  Variable c : complex.
  Hypothesis HN : NoLabC true c.
  Lemma face_in_nob f : snd (face_in c f) = false.
  Proof.
    unfold face_in, get_f. destruct (nth_error (c_faces c) f) eqn:E; [|reflexivity].
    destruct HN as [_ [_ H]]. apply (H _ (nth_error_In _ _ E)).
  Qed.
  Lemma twin_face_in_nob e : snd (twin_face_in c e) = false.
  Proof. unfold twin_face_in. destruct (twin_face c e); [apply face_in_nob|reflexivity]. Qed.
  Lemma e_in_nob e : In e (c_edges c) -> snd (e_in e) = false.
  Proof. destruct HN as [_ [H _]]. apply H. Qed.
  Lemma v_in_nob v : In v (c_verts c) -> snd (v_in v) = false.
  Proof. destruct HN as [H _]. apply H. Qed.

  (* or / andNot / xor agree with "the A bit" on every label of c; and is false *)
  Definition incA (o : setop) : Prop := forall l : lab, snd l = false -> inc o l = fst l.
  Lemma incA_union : incA OpUnion. Proof. intros [x y] H; cbn in *; subst; destruct x; reflexivity. Qed.
  Lemma incA_diff : incA OpDiff. Proof. intros [x y] H; cbn in *; subst; destruct x; reflexivity. Qed.
  Lemma incA_sym : incA OpSym. Proof. intros [x y] H; cbn in *; subst; destruct x; reflexivity. Qed.
  Lemma inc_inter_nob l : snd l = false -> inc OpInter l = false.
  Proof. destruct l as [x y]; cbn; intros ->. destruct x; reflexivity. Qed.
End NoB.

Lemma filter_nil {A} (f : A -> bool) l : (forall x, In x l -> f x = false) -> filter f l = [].
Proof. induction l as [|a l IH]; intros H; [reflexivity|]. cbn. rewrite (H a (or_introl eq_refl)). apply IH. intros x Hx. apply H. right. exact Hx. Qed.
Lemma fold_left_ext {A B} (f g : A -> B -> A) : (forall a x, f a x = g a x) -> forall l a, fold_left f l a = fold_left g l a.
Proof. intros H. induction l as [|x l IH]; intros a; [reflexivity|]. cbn. rewrite H. apply IH. Qed.
Lemma iter_ext {A} (f g : A -> A) : (forall x, f x = g x) -> forall n x, iter n f x = iter n g x.
Proof. intros H. induction n as [|n IH]; intros x; [reflexivity|]. cbn. rewrite H. apply IH. Qed.
Lemma forallb_ext_in {A} (f g : A -> bool) l : (forall x, In x l -> f x = g x) -> forallb f l = forallb g l.
Proof. induction l as [|a l IH]; intros H; [reflexivity|]. cbn. rewrite (H a (or_introl eq_refl)). f_equal. apply IH. intros x Hx. apply H. right. exact Hx. Qed.
Lemma existsb_ext_in {A} (f g : A -> bool) l : (forall x, In x l -> f x = g x) -> existsb f l = existsb g l.
Proof. induction l as [|a l IH]; intros H; [reflexivity|]. cbn. rewrite (H a (or_introl eq_refl)). f_equal. apply IH. intros x Hx. apply H. right. exact Hx. Qed.
Lemma filter_ext_in' {A} (f g : A -> bool) l : (forall x, In x l -> f x = g x) -> filter f l = filter g l.
Proof. induction l as [|a l IH]; intros H; [reflexivity|]. cbn. rewrite (H a (or_introl eq_refl)). rewrite IH; [reflexivity|]. intros x Hx. apply H. right. exact Hx. Qed.
Lemma get_e_in c i e : get_e c i = Some e -> In e (c_edges c).
Proof. unfold get_e. apply nth_error_In. Qed.

Section NoBSel.
  Variable c : complex.
  Hypothesis HN : NoLabC true c.

  (* ---- Intersection selects nothing *)
  Lemma sel_face_inter f : sel_face OpInter c f = false.
  Proof. unfold sel_face. apply inc_inter_nob. apply (face_in_nob c HN). Qed.
  Lemma sel_line_inter e : In e (c_edges c) -> sel_line OpInter c e = false.
  Proof. intros He. unfold sel_line. rewrite (inc_inter_nob (e_in e) (e_in_nob c HN e He)). rewrite andb_false_r. reflexivity. Qed.
  Lemma line_extracted_inter e : In e (c_edges c) -> line_extracted OpInter c e = false.
  Proof.
    intros He. unfold line_extracted, twin_sel_line. rewrite (sel_line_inter e He). cbn [orb].
    destruct (get_e c (e_twin e)) eqn:E; [|reflexivity]. apply sel_line_inter. apply (get_e_in _ _ _ E).
  Qed.
  Lemma groups_from_inter fs : forall done, groups_from OpInter c fs done = Some [].
  Proof. induction fs as [|f fs IH]; intros done; [reflexivity|]. cbn [groups_from]. rewrite sel_face_inter. cbn [andb]. apply IH. Qed.
  Lemma lines_selected_inter : lines_selected OpInter c = [].
  Proof.
    unfold lines_selected. rewrite filter_nil; [reflexivity|]. intros ie Hie.
    rewrite (line_extracted_inter (snd ie)); [reflexivity|]. apply (indexed_from_in _ _ _ Hie).
  Qed.
  Lemma points_selected_inter : points_selected OpInter c = [].
  Proof.
    unfold points_selected. rewrite filter_nil; [reflexivity|]. intros iv Hiv. unfold sel_point.
    rewrite (inc_inter_nob (v_in (snd iv))); [reflexivity|]. apply (v_in_nob c HN). apply (indexed_from_in _ _ _ Hiv).
  Qed.

  (* ---- or / andNot / xor select the same cells *)
  Variables o o' : setop.
  Hypothesis Ho : incA o.
  Hypothesis Ho' : incA o'.
  Lemma sel_face_same f : sel_face o c f = sel_face o' c f.
  Proof. unfold sel_face. rewrite Ho, Ho'; auto using (face_in_nob c HN). Qed.
  Lemma sel_twin_face_same e : sel_twin_face o c e = sel_twin_face o' c e.
  Proof. unfold sel_twin_face. rewrite Ho, Ho'; auto using (twin_face_in_nob c HN). Qed.
  Lemma adj_sel_same e : adj_sel o c e = adj_sel o' c e.
  Proof. unfold adj_sel. rewrite sel_face_same, sel_twin_face_same. reflexivity. Qed.
  Lemma sel_line_same e : In e (c_edges c) -> sel_line o c e = sel_line o' c e.
  Proof.
    intros He. unfold sel_line. rewrite adj_sel_same, sel_face_same, sel_twin_face_same.
    rewrite (Ho (e_in e)), (Ho' (e_in e)); auto using (e_in_nob c HN).
  Qed.
  Lemma line_extracted_same e : In e (c_edges c) -> line_extracted o c e = line_extracted o' c e.
  Proof.
    intros He. unfold line_extracted, twin_sel_line. rewrite (sel_line_same e He). f_equal.
    destruct (get_e c (e_twin e)) eqn:E; [|reflexivity]. apply sel_line_same. apply (get_e_in _ _ _ E).
  Qed.
  Lemma v_covered_same v : v_covered o c v = v_covered o' c v.
  Proof.
    unfold v_covered. apply existsb_ext_in. intros e He. rewrite sel_face_same, (line_extracted_same e He). reflexivity.
  Qed.
  Lemma lines_selected_same : lines_selected o c = lines_selected o' c.
  Proof.
    unfold lines_selected. f_equal. apply filter_ext_in'. intros ie Hie.
    rewrite (line_extracted_same (snd ie)); [reflexivity|]. apply (indexed_from_in _ _ _ Hie).
  Qed.
  Lemma points_selected_same : points_selected o c = points_selected o' c.
  Proof.
    unfold points_selected. f_equal. apply filter_ext_in'. intros iv Hiv. unfold sel_point.
    rewrite v_covered_same, (Ho (v_in (snd iv))), (Ho' (v_in (snd iv))); auto; apply (v_in_nob c HN); apply (indexed_from_in _ _ _ Hiv).
  Qed.
  Lemma expand_same grp : expand o c grp = expand o' c grp.
  Proof. unfold expand. apply fold_left_ext. intros acc g. rewrite sel_face_same. reflexivity. Qed.
  Lemma group_ok_same g : group_ok o c g = group_ok o' c g.
  Proof.
    unfold group_ok. f_equal; apply forallb_ext_in; intros x _; rewrite ?sel_face_same; reflexivity.
  Qed.
  Lemma face_group_same s : face_group o c s = face_group o' c s.
  Proof. unfold face_group. rewrite (iter_ext _ _ expand_same), group_ok_same. reflexivity. Qed.
  Lemma groups_from_same fs : forall done, groups_from o c fs done = groups_from o' c fs done.
  Proof.
    induction fs as [|f fs IH]; intros done; [reflexivity|]. cbn [groups_from]. rewrite sel_face_same, face_group_same.
    destruct (sel_face o' c f && negb (memb f done)); [|apply IH]. destruct (face_group o' c f); [|reflexivity]. rewrite IH. reflexivity.
  Qed.
  Lemma group_boundary_same grp : group_boundary o c grp = group_boundary o' c grp.
  Proof. unfold group_boundary. f_equal. apply filter_ext_in'. intros ie _. rewrite sel_twin_face_same. reflexivity. Qed.
  Lemma group_rings_same grp : group_rings o c grp = group_rings o' c grp.
  Proof. unfold group_rings. rewrite group_boundary_same. reflexivity. Qed.
End NoBSel.

Lemma assemble_nothing : assemble [] [] [] = GColl XY [].
Proof. reflexivity. Qed.

Lemma extract_inter_nob ov : NoLabC true (ov_cx ov) -> extract_geometry OpInter ov = Some (GColl XY []).
Proof.
  intros HN. unfold extract_geometry, extract_areals, polygon_groups. rewrite (groups_from_inter _ HN). cbn [obind map all_some].
  unfold extract_linears, extract_points. rewrite (lines_selected_inter _ HN), (points_selected_inter _ HN). reflexivity.
Qed.
Lemma extract_same_nob ov o o' : NoLabC true (ov_cx ov) -> incA o -> incA o' -> extract_geometry o ov = extract_geometry o' ov.
Proof.
  intros HN Ho Ho'. unfold extract_geometry.
  assert (EA : extract_areals o ov = extract_areals o' ov).
  { unfold extract_areals, polygon_groups. rewrite (groups_from_same _ HN o o' Ho Ho').
    destruct (groups_from o' (ov_cx ov) (seq 0 (nF (ov_cx ov))) []) as [gs|]; [|reflexivity]. cbn [obind].
    replace (map (polygon_rings o ov) gs) with (map (polygon_rings o' ov) gs); [reflexivity|].
    apply map_ext. intros grp. unfold polygon_rings. rewrite (group_rings_same _ HN o' o Ho' Ho). reflexivity. }
  rewrite EA. unfold extract_linears, extract_points.
  rewrite (lines_selected_same _ HN o o' Ho Ho'), (points_selected_same _ HN o o' Ho Ho'). reflexivity.
Qed.

Theorem pipeline_empty_operand_lemma (a b : geom) :
  g_elems b = [] -> g_shapes b = [] -> g_points b = [] ->
  overlay_result OpInter a b = Some (GColl XY []) /\
  overlay_result OpDiff a b = overlay_result OpUnion a b /\
  overlay_result OpSym a b = overlay_result OpUnion a b.
Proof.
  intros Eb Sb Pb.
  destruct (pipeline_precomplex_wf_lemma a b) as [ov [E [W1 [_ [W3 [_ [Hfix _]]]]]]].
  assert (HN : NoLabC true (ov_cx ov)).
  { unfold overlay_dcel_full, overlay_dcel_of_skel in E.
    set (sk := overlay_skeleton_of a b) in *. set (r := sk_renoded sk) in *. set (I := sk_vertices sk) in *.
    assert (Rb : rn_b r = []).
    { unfold r, sk, overlay_skeleton_of, renode_geometries, renode_elems. cbn [sk_renoded rn_b]. rewrite Eb. reflexivity. }
    rewrite Rb, Sb, Pb in E. cbn [regroup] in E.
    destruct (build_state I (rn_ghosts r) (regroup (g_shapes a) (rn_a r)) (g_points a) [] []) as [st|] eqn:Est; [|discriminate].
    cbn [obind] in E. destruct (fixup (to_precomplex (ov_vertices I) st)) as [c|] eqn:Ec; [|discriminate].
    cbn [obind] in E. inversion E; subst ov. cbn [ov_cx ov_pre] in *.
    apply (fixup_nolab true (ov_vertices I) st c W1 W3 (build_state_nolab_b _ _ _ _ _ Est) Ec). }
  unfold overlay_result. rewrite E. cbn [obind].
  split; [apply (extract_inter_nob ov HN)|].
  split; [apply (extract_same_nob ov _ _ HN incA_diff incA_union)|].
  apply (extract_same_nob ov _ _ HN incA_sym incA_union).
Qed.

(* ================================================================ (c) the extraction is symmetric in the labels *)
(* swapping the two label bits of every cell of the complex (what exchanging the operands does to the LABELS; the
   numbering of half edges and faces of overlay (b, a) also differs, which is not covered here) does not change what
   union / intersection / symmetric difference extract *)
Definition swap_ov (ov : overlay) : overlay :=
  MkOv (ov_skel ov) (ov_verts ov) (ov_seqs ov) (ov_pre ov) (swap_c (ov_cx ov)).

Lemma get_e_swap c i : get_e (swap_c c) i = option_map swap_e (get_e c i).
Proof. unfold get_e, swap_c. cbn [c_edges]. apply nth_error_map. Qed.
Lemma nE_swap c : nE (swap_c c) = nE c.
Proof. unfold nE, swap_c. cbn [c_edges]. apply map_length. Qed.
Lemma nF_swap c : nF (swap_c c) = nF c.
Proof. unfold nF, swap_c. cbn [c_faces]. apply map_length. Qed.
Lemma twin_face_swap c e : twin_face (swap_c c) (swap_e e) = twin_face c e.
Proof. unfold twin_face. cbn [swap_e e_twin]. rewrite get_e_swap. destruct (get_e c (e_twin e)); reflexivity. Qed.
Lemma adj_faces_swap c f : adj_faces (swap_c c) f = adj_faces c f.
Proof.
  unfold adj_faces. cbn [swap_c c_edges]. rewrite flat_map_concat_map, map_map, <- flat_map_concat_map.
  apply flat_map_ext. intros e. cbn [swap_e e_face].
  change (MkC (map swap_v (c_verts c)) (map swap_e (c_edges c)) (map swap_f (c_faces c))) with (swap_c c).
  change (MkE (e_origin e) (e_twin e) (e_next e) (e_prev e) (e_face e) (lab_swap (e_srcEdge e))
              (lab_swap (e_srcFace e)) (lab_swap (e_in e))) with (swap_e e).
  rewrite twin_face_swap. reflexivity.
Qed.
Lemma sel_twin_face_swap o c e : o <> OpDiff -> sel_twin_face o (swap_c c) (swap_e e) = sel_twin_face o c e.
Proof. intros H. unfold sel_twin_face. rewrite twin_face_in_swap. apply inc_swap. exact H. Qed.

Section SwapSel.
  Variables (o : setop) (c : complex).
  Hypothesis Ho : o <> OpDiff.
  Lemma expand_swap grp : expand o (swap_c c) grp = expand o c grp.
  Proof.
    unfold expand. rewrite (flat_map_ext _ _ (adj_faces_swap c)).
    apply fold_left_ext. intros acc g. rewrite sel_face_swap by exact Ho. reflexivity.
  Qed.
  Lemma group_ok_swap g : group_ok o (swap_c c) g = group_ok o c g.
  Proof.
    unfold group_ok. rewrite (flat_map_ext _ _ (adj_faces_swap c)).
    f_equal; apply forallb_ext_in; intros x _; rewrite sel_face_swap by exact Ho; reflexivity.
  Qed.
  Lemma face_group_swap s : face_group o (swap_c c) s = face_group o c s.
  Proof. unfold face_group. rewrite nF_swap, (iter_ext _ _ expand_swap), group_ok_swap. reflexivity. Qed.
  Lemma groups_from_swap fs : forall done, groups_from o (swap_c c) fs done = groups_from o c fs done.
  Proof.
    induction fs as [|f fs IH]; intros done; [reflexivity|]. cbn [groups_from]. rewrite sel_face_swap by exact Ho. rewrite face_group_swap.
    destruct (sel_face o c f && negb (memb f done)); [|apply IH]. destruct (face_group o c f); [|reflexivity]. rewrite IH. reflexivity.
  Qed.
  Lemma polygon_groups_swap : polygon_groups o (swap_c c) = polygon_groups o c.
  Proof. unfold polygon_groups. rewrite nF_swap. apply groups_from_swap. Qed.

  Lemma rot_swap i : rot (swap_c c) i = rot c i.
  Proof.
    unfold rot. rewrite get_e_swap. destruct (get_e c i) as [e|]; [|reflexivity]. cbn [option_map swap_e e_prev].
    rewrite get_e_swap. destruct (get_e c (e_prev e)); reflexivity.
  Qed.
  Lemma sweep_swap grp fuel : forall i, sweep (swap_c c) grp i fuel = sweep c grp i fuel.
  Proof.
    induction fuel as [|k IH]; intros i; [reflexivity|]. cbn [sweep]. rewrite get_e_swap.
    destruct (get_e c i) as [e|]; [|reflexivity]. cbn [option_map swap_e e_face].
    destruct (memb (e_face e) grp); [reflexivity|]. rewrite rot_swap. destruct (rot c i); [apply IH|reflexivity].
  Qed.
  Lemma ring_succ_swap grp i : ring_succ (swap_c c) grp i = ring_succ c grp i.
  Proof.
    unfold ring_succ. rewrite get_e_swap. destruct (get_e c i) as [e|]; [|reflexivity]. cbn [option_map swap_e e_twin].
    rewrite rot_swap, nE_swap. destruct (rot c (e_twin e)); [apply sweep_swap|reflexivity].
  Qed.
  Lemma walk_ext (f g : nat -> option nat) : (forall i, f i = g i) -> forall fuel s cur, walk f s cur fuel = walk g s cur fuel.
  Proof.
    intros H. induction fuel as [|k IH]; intros s cur; [reflexivity|]. cbn [walk]. rewrite H.
    destruct (g cur); [|reflexivity]. destruct (Nat.eqb n s); [reflexivity|]. rewrite IH. reflexivity.
  Qed.
  Lemma collect_ext (f g : nat -> option nat) : (forall i, f i = g i) -> forall fuel cands seen, collect f cands seen fuel = collect g cands seen fuel.
  Proof.
    intros H fuel. induction cands as [|x r IH]; intros seen; [reflexivity|]. cbn [collect].
    destruct (memb x seen); [apply IH|]. rewrite (walk_ext f g H). destruct (walk g x x fuel); [|reflexivity]. rewrite IH. reflexivity.
  Qed.
  Lemma group_boundary_swap grp : group_boundary o (swap_c c) grp = group_boundary o c grp.
  Proof.
    unfold group_boundary, edges_ix. cbn [swap_c c_edges]. rewrite indexed_from_map.
    apply filter_map_fst. intros ix. cbn [fst snd swap_e e_face].
    change (MkC (map swap_v (c_verts c)) (map swap_e (c_edges c)) (map swap_f (c_faces c))) with (swap_c c).
    change (MkE (e_origin (snd ix)) (e_twin (snd ix)) (e_next (snd ix)) (e_prev (snd ix)) (e_face (snd ix)) (lab_swap (e_srcEdge (snd ix)))
                (lab_swap (e_srcFace (snd ix))) (lab_swap (e_in (snd ix)))) with (swap_e (snd ix)).
    rewrite sel_twin_face_swap by exact Ho. reflexivity.
  Qed.
  Lemma group_rings_swap grp : group_rings o (swap_c c) grp = group_rings o c grp.
  Proof.
    unfold group_rings. rewrite group_boundary_swap, nE_swap. apply collect_ext. intros i. apply ring_succ_swap.
  Qed.
End SwapSel.

Theorem extract_label_symmetric_lemma (o : setop) (ov : overlay) :
  o <> OpDiff -> extract_geometry o (swap_ov ov) = extract_geometry o ov.
Proof.
  intros Ho. unfold extract_geometry.
  assert (EA : extract_areals o (swap_ov ov) = extract_areals o ov).
  { unfold extract_areals. cbn [swap_ov ov_cx]. rewrite (polygon_groups_swap o _ Ho).
    destruct (polygon_groups o (ov_cx ov)) as [gs|]; [|reflexivity]. cbn [obind].
    replace (map (polygon_rings o (swap_ov ov)) gs) with (map (polygon_rings o ov) gs); [reflexivity|].
    apply map_ext. intros grp. unfold polygon_rings. cbn [swap_ov ov_cx]. rewrite (group_rings_swap o _ Ho). reflexivity. }
  rewrite EA. unfold extract_linears, extract_points. cbn [swap_ov ov_cx].
  destruct (select_comm_lemma o (ov_cx ov) Ho) as [_ [_ [L P]]]. rewrite L, P. reflexivity.
Qed.
