(* T4 (partial): findInteractionPoints and forEachNonInteractingSegment of Model/OverlayRenode.v.
   Proved: which control points are certainly interaction points (ends of every linear element, every
   point of a Point/MultiPoint, every reversal point, every control point at which two occurrences have
   different neighbour pairs - independently of the order in which the elements are visited); the
   chains produced by forEachNonInteractingSegment start and end at interaction points, contain none in
   between, and their pieces are exactly the pieces of the element, in order.
   Not proved: the global consequence that two different DCEL edges (chains) have no common point
   except common end vertices (it needs an induction along two chains on top of T2). *)
From Coq Require Import QArith List Bool Arith Lia.
From SF Require Import Base.QKernel Model.OverlayRenode Proofs.OverlayRenode_proofs.
Import ListNotations.

(* ---------------------------------------------------------------- the visit as a list of events *)
Inductive ip_ev := EvPt (p : pt) | EvMid (prev curr next : pt).
Definition ip_step (st : ip_state) (e : ip_ev) : ip_state :=
  match e with
  | EvPt p => MkIP (ip_adj st) (p :: ip_int st)
  | EvMid a c b => ip_middle st a c b
  end.
Fixpoint triples_of (ps : list pt) : list ip_ev :=
  match ps with
  | [] => []
  | prev :: r =>
      match r with
      | curr :: next :: _ => EvMid prev curr next :: triples_of r
      | _ => []
      end
  end.
Definition ls_events (ps : list pt) : list ip_ev :=
  match ps with
  | [] => []
  | p0 :: r => EvPt p0 :: EvPt (last r p0) :: triples_of ps
  end.

Lemma ip_walk_events ps : forall st, ip_walk st ps = fold_left ip_step (triples_of ps) st.
Proof.
  induction ps as [|prev r IH]; intros st; [reflexivity|].
  destruct r as [|curr [|next r']]; try reflexivity.
  change (ip_walk st (prev :: curr :: next :: r')) with (ip_walk (ip_middle st prev curr next) (curr :: next :: r')).
  change (triples_of (prev :: curr :: next :: r')) with (EvMid prev curr next :: triples_of (curr :: next :: r')).
  cbn [fold_left ip_step]. apply IH.
Qed.
Lemma ip_line_string_events st ps : ip_line_string st ps = fold_left ip_step (ls_events ps) st.
Proof.
  destruct ps as [|p0 r]; [reflexivity|]. unfold ip_line_string, ls_events. rewrite ip_walk_events. reflexivity.
Qed.
Lemma ip_points_events P : forall st, ip_points st P = fold_left ip_step (map EvPt P) st.
Proof.
  induction P as [|p P IH]; intros st; [destruct st; reflexivity|].
  cbn [map fold_left ip_step]. rewrite <- IH. unfold ip_points. cbn [ip_adj ip_int rev]. rewrite <- app_assoc. reflexivity.
Qed.
Lemma fold_ls_events es : forall st, fold_left ip_line_string es st = fold_left ip_step (flat_map ls_events es) st.
Proof.
  induction es as [|e es IH]; intros st; [reflexivity|].
  cbn [fold_left flat_map]. rewrite fold_left_app, <- ip_line_string_events. apply IH.
Qed.

Definition all_events (ea : list (list pt)) (pa : list pt) (eb : list (list pt)) (pb : list pt) (gh : list (list pt)) : list ip_ev :=
  flat_map ls_events ea ++ map EvPt pa ++ flat_map ls_events eb ++ map EvPt pb ++ flat_map ls_events gh.
Lemma find_interaction_points_events ea pa eb pb gh :
  find_interaction_points ea pa eb pb gh = ip_int (fold_left ip_step (all_events ea pa eb pb gh) (MkIP [] [])).
Proof.
  unfold find_interaction_points, all_events. rewrite !fold_left_app.
  rewrite <- !fold_ls_events, <- !ip_points_events. reflexivity.
Qed.

(* ---------------------------------------------------------------- one step, many steps *)
Lemma adj_lookup_proper m x y : pt_eq x y -> adj_lookup m x = adj_lookup m y.
Proof.
  intros E. induction m as [|[k v] m IH]; [reflexivity|]. simpl. rewrite (pt_eqb_proper_r k x y E), IH. reflexivity.
Qed.
Lemma pt_eqb_refl p : pt_eqb p p = true.
Proof. apply pt_eqb_iff. reflexivity. Qed.

Lemma ip_step_mono st e p : In p (ip_int st) -> In p (ip_int (ip_step st e)).
Proof.
  destruct e as [q|a c b]; cbn [ip_step ip_int]; [intros; right; assumption|].
  unfold ip_middle. destruct (pt_eqb a b); [intros; right; assumption|].
  destruct (adj_lookup (ip_adj st) c); [destruct (pair_eqb _ _); cbn [ip_int]; intros; try right; assumption|].
  cbn [ip_int]. tauto.
Qed.
Lemma ip_step_lookup st e c v : adj_lookup (ip_adj st) c = Some v -> adj_lookup (ip_adj (ip_step st e)) c = Some v.
Proof.
  destruct e as [q|a c' b]; cbn [ip_step ip_adj]; [tauto|].
  unfold ip_middle. destruct (pt_eqb a b); [tauto|].
  destruct (adj_lookup (ip_adj st) c') eqn:E; [destruct (pair_eqb _ _); tauto|].
  cbn [ip_adj adj_lookup]. intros H. destruct (pt_eqb c' c) eqn:Ec; [|exact H].
  apply pt_eqb_iff in Ec. rewrite (adj_lookup_proper _ c' c Ec) in E. congruence.
Qed.
Lemma ip_fold_mono evs : forall st p, In p (ip_int st) -> In p (ip_int (fold_left ip_step evs st)).
Proof. induction evs as [|e evs IH]; intros st p H; [exact H|]. apply IH. apply ip_step_mono. exact H. Qed.
Lemma ip_fold_lookup evs : forall st c v, adj_lookup (ip_adj st) c = Some v ->
  adj_lookup (ip_adj (fold_left ip_step evs st)) c = Some v.
Proof. induction evs as [|e evs IH]; intros st c v H; [exact H|]. apply IH. apply ip_step_lookup. exact H. Qed.

(* what is known right after an event, and stays known *)
Definition ev_done (st : ip_state) (e : ip_ev) : Prop :=
  match e with
  | EvPt p => In p (ip_int st)
  | EvMid a c b =>
      if pt_eqb a b then In c (ip_int st)
      else exists v, adj_lookup (ip_adj st) c = Some v /\ (pair_eqb v (adj_pair a b) = true \/ In c (ip_int st))
  end.
Lemma pair_eqb_refl u : pair_eqb u u = true.
Proof. unfold pair_eqb. rewrite !pt_eqb_refl. reflexivity. Qed.
Lemma ev_done_step st e : ev_done (ip_step st e) e.
Proof.
  destruct e as [p|a c b]; cbn [ev_done ip_step]; [left; reflexivity|].
  unfold ip_middle. destruct (pt_eqb a b) eqn:Eab; [left; reflexivity|].
  destruct (adj_lookup (ip_adj st) c) as [v|] eqn:E.
  - destruct (pair_eqb v (adj_pair a b)) eqn:Ep.
    + exists v. split; [exact E | left; exact Ep].
    + cbn [ip_adj ip_int]. exists v. split; [exact E | right; left; reflexivity].
  - cbn [ip_adj ip_int adj_lookup]. rewrite pt_eqb_refl. eexists. split; [reflexivity | left; apply pair_eqb_refl].
Qed.
Lemma ev_done_keep st e e' : ev_done st e -> ev_done (ip_step st e') e.
Proof.
  destruct e as [p|a c b]; cbn [ev_done]; [apply ip_step_mono|].
  destruct (pt_eqb a b); [apply ip_step_mono|].
  intros [v [H1 H2]]. exists v. split; [apply ip_step_lookup; exact H1|].
  destruct H2 as [H2|H2]; [left; exact H2 | right; apply ip_step_mono; exact H2].
Qed.
Lemma ev_done_fold evs : forall st e, ev_done st e -> ev_done (fold_left ip_step evs st) e.
Proof. induction evs as [|x evs IH]; intros st e H; [exact H|]. apply IH. apply ev_done_keep. exact H. Qed.
Lemma ev_done_all evs : forall st e, In e evs -> ev_done (fold_left ip_step evs st) e.
Proof.
  induction evs as [|x evs IH]; intros st e Hin; [destruct Hin|]. cbn [fold_left]. destruct Hin as [->|Hin].
  - apply ev_done_fold. apply ev_done_step.
  - apply IH. exact Hin.
Qed.

(* ---------------------------------------------------------------- occurrences in the elements *)
Definition consecutive3 (ps : list pt) (a c b : pt) : Prop := exists l1 l2, ps = l1 ++ a :: c :: b :: l2.
Lemma consecutive3_event ps a c b : consecutive3 ps a c b -> In (EvMid a c b) (triples_of ps).
Proof.
  intros [l1 [l2 ->]]. induction l1 as [|x l1 IH].
  - left. reflexivity.
  - cbn [app]. destruct (l1 ++ a :: c :: b :: l2) as [|y [|z r]] eqn:E.
    + destruct l1; discriminate.
    + destruct l1 as [|? [|? ?]]; discriminate.
    + change (triples_of (x :: y :: z :: r)) with (EvMid x y z :: triples_of (y :: z :: r)). right. exact IH.
Qed.

Section IP.
  Variables (ea : list (list pt)) (pa : list pt) (eb : list (list pt)) (pb : list pt) (gh : list (list pt)).
  Let I := find_interaction_points ea pa eb pb gh.
  Let elems := ea ++ eb ++ gh.

  Lemma elem_events e ev : In e elems -> In ev (ls_events e) -> In ev (all_events ea pa eb pb gh).
  Proof.
    unfold elems, all_events. intros He Hev. rewrite !in_app_iff in He. rewrite !in_app_iff.
    destruct He as [He|[He|He]]; [left | right; right; left | right; right; right; right];
      apply in_flat_map; exists e; split; assumption.
  Qed.

  Lemma ip_done ev : In ev (all_events ea pa eb pb gh) ->
    ev_done (fold_left ip_step (all_events ea pa eb pb gh) (MkIP [] [])) ev.
  Proof. apply ev_done_all. Qed.

  (* the ends of every linear element *)
  Lemma ip_endpoints_lemma p0 r : In (p0 :: r) elems -> In p0 I /\ In (last r p0) I.
  Proof.
    intros He. unfold I. rewrite find_interaction_points_events. split.
    - apply (ip_done (EvPt p0)). apply (elem_events (p0 :: r)); [exact He | left; reflexivity].
    - apply (ip_done (EvPt (last r p0))). apply (elem_events (p0 :: r)); [exact He | right; left; reflexivity].
  Qed.
  (* every point of a Point / MultiPoint *)
  Lemma ip_points_lemma p : In p (pa ++ pb) -> In p I.
  Proof.
    intros Hp. unfold I. rewrite find_interaction_points_events. apply (ip_done (EvPt p)).
    unfold all_events. rewrite !in_app_iff. apply in_app_or in Hp.
    destruct Hp as [Hp|Hp]; [right; left | right; right; right; left]; apply in_map; exact Hp.
  Qed.
  (* a reversal point *)
  Lemma ip_spike_lemma e a c b : In e elems -> consecutive3 e a c b -> pt_eq a b -> In c I.
  Proof.
    intros He Hc Eab. unfold I. rewrite find_interaction_points_events.
    assert (Hev : In (EvMid a c b) (all_events ea pa eb pb gh)).
    { apply (elem_events e _ He). destruct e as [|p0 r]; [destruct Hc as [[|] [? ?]]; discriminate|].
      right; right. apply consecutive3_event. exact Hc. }
    pose proof (ip_done _ Hev) as D. cbn [ev_done] in D. apply pt_eqb_iff in Eab. rewrite Eab in D. exact D.
  Qed.
  (* two occurrences of a control point with different neighbour pairs *)
  Lemma ip_conflict_lemma e1 a1 c1 b1 e2 a2 c2 b2 :
    In e1 elems -> consecutive3 e1 a1 c1 b1 -> In e2 elems -> consecutive3 e2 a2 c2 b2 ->
    pt_eq c1 c2 -> pair_eqb (adj_pair a1 b1) (adj_pair a2 b2) = false -> is_interaction I c1 = true.
  Proof.
    intros He1 Hc1 He2 Hc2 Ec Hp. unfold I. rewrite find_interaction_points_events.
    assert (Hev : forall e a c b, In e elems -> consecutive3 e a c b -> In (EvMid a c b) (all_events ea pa eb pb gh)).
    { intros e a c b He Hc. apply (elem_events e _ He). destruct e as [|p0 r]; [destruct Hc as [[|] [? ?]]; discriminate|].
      right; right. apply consecutive3_event. exact Hc. }
    pose proof (ip_done _ (Hev _ _ _ _ He1 Hc1)) as D1. pose proof (ip_done _ (Hev _ _ _ _ He2 Hc2)) as D2.
    set (st := fold_left ip_step (all_events ea pa eb pb gh) (MkIP [] [])) in *.
    cbn [ev_done] in D1, D2. unfold is_interaction.
    assert (In1 : In c1 (ip_int st) -> existsb (pt_eqb c1) (ip_int st) = true).
    { intros H. apply existsb_exists. exists c1. split; [exact H | apply pt_eqb_refl]. }
    assert (In2 : In c2 (ip_int st) -> existsb (pt_eqb c1) (ip_int st) = true).
    { intros H. apply existsb_exists. exists c2. split; [exact H | apply pt_eqb_iff; exact Ec]. }
    destruct (pt_eqb a1 b1); [apply In1; exact D1|]. destruct (pt_eqb a2 b2); [apply In2; exact D2|].
    destruct D1 as [v1 [L1 [P1|P1]]]; [|apply In1; exact P1].
    destruct D2 as [v2 [L2 [P2|P2]]]; [|apply In2; exact P2].
    rewrite (adj_lookup_proper _ c1 c2 Ec) in L1. rewrite L1 in L2. inversion L2; subst v2.
    exfalso. unfold pair_eqb in *. rewrite !andb_true_iff, !pt_eqb_iff in P1, P2.
    apply andb_false_iff in Hp. destruct P1 as [P1a P1b], P2 as [P2a P2b].
    destruct Hp as [Hp|Hp]; apply pt_eqb_false_iff in Hp; apply Hp.
    - rewrite <- P1a. exact P2a.
    - rewrite <- P1b. exact P2b.
  Qed.
End IP.

(* ---------------------------------------------------------------- forEachNonInteractingSegment *)
Lemma split_chains_pieces isI : forall ps cur cs,
  split_chains isI cur ps = Some cs -> flat_map (@ring_edges) cs = ring_edges (cur ++ ps).
Proof.
  induction ps as [|p r IH]; intros cur cs H.
  - cbn [split_chains] in H. rewrite app_nil_r. destruct cur as [|x [|y cur']]; inversion H; reflexivity.
  - cbn [split_chains] in H.
    destruct (isI p && Nat.ltb 1 (length (cur ++ [p]))) eqn:E.
    + destruct (split_chains isI [p] r) as [cs'|] eqn:E'; [|discriminate]. inversion H; subst cs.
      cbn [flat_map]. rewrite (IH [p] cs' E'). cbn [app].
      apply andb_true_iff in E. destruct E as [_ E]. apply Nat.ltb_lt in E. rewrite app_length in E. simpl in E.
      assert (cur <> []) by (destruct cur; [simpl in E; lia | discriminate]).
      symmetry. apply ring_edges_app. assumption.
    + rewrite (IH (cur ++ [p]) cs H). rewrite <- app_assoc. reflexivity.
Qed.

Definition cur_ok (isI : pt -> bool) (cur : list pt) : Prop :=
  match cur with
  | [] => True
  | c0 :: cm => isI c0 = true /\ forallb (fun p => negb (isI p)) cm = true
  end.

Lemma split_chains_ok isI : forall ps cur cs,
  cur_ok isI cur -> (cur = [] -> match ps with [] => True | p :: _ => isI p = true end) ->
  split_chains isI cur ps = Some cs -> forallb (chain_ok_b isI) cs = true.
Proof.
  induction ps as [|p r IH]; intros cur cs Hok H0 H.
  - cbn [split_chains] in H. destruct cur as [|x [|y cur']]; inversion H; reflexivity.
  - cbn [split_chains] in H.
    destruct (isI p && Nat.ltb 1 (length (cur ++ [p]))) eqn:E.
    + destruct (split_chains isI [p] r) as [cs'|] eqn:E'; [|discriminate]. inversion H; subst cs.
      apply andb_true_iff in E. destruct E as [Ep El]. apply Nat.ltb_lt in El. rewrite app_length in El. simpl in El.
      cbn [forallb]. apply andb_true_iff. split.
      * destruct cur as [|c0 cm]; [simpl in El; lia|]. destruct Hok as [Hc0 Hcm].
        cbn [app]. unfold chain_ok_b. destruct (cm ++ [p]) as [|y r'] eqn:Ey; [destruct cm; discriminate|].
        rewrite <- Ey. rewrite last_last, removelast_last, Hc0, Ep, Hcm. reflexivity.
      * apply (IH [p] cs'); [split; [exact Ep | reflexivity] | discriminate | exact E'].
    + apply (IH (cur ++ [p]) cs); [| intros Hn; destruct cur; discriminate | exact H].
      destruct cur as [|c0 cm].
      * cbn [app cur_ok]. split; [apply H0; reflexivity | reflexivity].
      * destruct Hok as [Hc0 Hcm]. cbn [app cur_ok]. split; [exact Hc0|].
        rewrite forallb_app, Hcm. cbn [forallb]. rewrite andb_true_r.
        apply andb_false_iff in E. destruct E as [E|E]; [rewrite E; reflexivity|].
        apply Nat.ltb_ge in E. rewrite app_length in E. simpl in E. lia.
Qed.

Lemma chains_of_spec_lemma I ps cs : chains_of I ps = Some cs ->
  match ps with [] => True | p :: _ => is_interaction I p = true end ->
  flat_map (@ring_edges) cs = ring_edges ps /\ forallb (chain_ok_b (is_interaction I)) cs = true.
Proof.
  unfold chains_of. intros H H0. split.
  - apply (split_chains_pieces _ ps [] cs H).
  - apply (split_chains_ok _ ps [] cs); [exact Logic.I | intros _; exact H0 | exact H].
Qed.
