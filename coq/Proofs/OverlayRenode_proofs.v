(* Lemmas about Model/OverlayRenode.v: the exact re-noding preserves point sets (T1), produces a fully
   noded arrangement (T2), the ghost spanning tree connects the component points (T3), interaction
   points (T4).  Statements are collected in Props/C01_renode.v. *)
From Coq Require Import QArith Qreduction List Bool ZArith Lia Lqa Arith Sorted Permutation Setoid Morphisms.
From SF Require Import Base.GeomAST Base.QKernel Base.Planar Model.OverlayRenode.
Import ListNotations.
Open Scope Q_scope.

(* ================================================================ insertion sort *)
Section ISortP.
  Variable A : Type.
  Variable less : A -> A -> bool.
  Variable R : A -> A -> Prop.
  Variable P : A -> Prop.
  Hypothesis R_trans : forall x y z, R x y -> R y z -> R x z.
  Hypothesis less_R : forall x y, P x -> P y -> less x y = true -> R x y.
  Hypothesis nless_R : forall x y, P x -> P y -> less x y = false -> R y x.

  Lemma ins_in x l y : In y (ins less x l) <-> y = x \/ In y l.
  Proof.
    induction l as [|z l IH]; simpl; [intuition|].
    destruct (less x z); simpl; [intuition|]. rewrite IH. intuition.
  Qed.
  Lemma isort_in l y : In y (isort less l) <-> In y l.
  Proof. induction l as [|z l IH]; simpl; [tauto|]. rewrite ins_in, IH. intuition. Qed.

  Lemma ins_sorted x l : P x -> Forall P l -> StronglySorted R l -> StronglySorted R (ins less x l).
  Proof.
    intros Px Pl Hs. induction l as [|z l IH]; simpl.
    - constructor; constructor.
    - inversion Pl as [|? ? Pz Pl']; subst. inversion Hs as [|? ? Hs' Hz]; subst.
      destruct (less x z) eqn:E.
      + constructor; [exact Hs|]. constructor; [apply less_R; auto|].
        apply Forall_forall. intros y Hy. rewrite Forall_forall in Hz.
        eapply R_trans; [apply less_R; eauto | auto].
      + constructor; [apply IH; auto|].
        apply Forall_forall. intros y Hy. apply ins_in in Hy. destruct Hy as [->|Hy].
        * apply nless_R; auto.
        * rewrite Forall_forall in Hz. auto.
  Qed.
  Lemma isort_sorted l : Forall P l -> StronglySorted R (isort less l).
  Proof.
    induction l as [|z l IH]; simpl; intros H; [constructor|].
    apply Forall_cons_iff in H. destruct H as [Hz Hl]. apply ins_sorted; [exact Hz | | apply IH; exact Hl].
    apply Forall_forall. intros y Hy. apply (proj1 (isort_in _ _)) in Hy. rewrite Forall_forall in Hl. apply Hl. exact Hy.
  Qed.
End ISortP.

(* ================================================================ uniquifyGroupedXYs *)
Lemma uniq_grouped_in l z : In z (uniq_grouped l) -> In z l.
Proof.
  induction l as [|x r IH]; simpl; [tauto|].
  destruct r as [|y r']; [simpl; tauto|].
  destruct (pt_eqb x y).
  - intros H. right. apply IH. exact H.
  - intros [->|H]; [left; reflexivity | right; apply IH; exact H].
Qed.
Lemma uniq_grouped_keeps l z : In z l -> exists z', In z' (uniq_grouped l) /\ pt_eq z' z.
Proof.
  revert z. induction l as [|x r IH]; [simpl; tauto|].
  intros z Hin. cbn [uniq_grouped]. destruct r as [|y r'].
  - destruct Hin as [->|[]]. exists z. split; [left; reflexivity | reflexivity].
  - destruct (pt_eqb x y) eqn:E.
    + destruct Hin as [->|Hin].
      * apply pt_eqb_iff in E. destruct (IH y (or_introl eq_refl)) as [z' [H1 H2]].
        exists z'. split; [exact H1|]. etransitivity; [exact H2 | symmetry; exact E].
      * apply IH. exact Hin.
    + destruct Hin as [->|Hin].
      * exists z. split; [left; reflexivity | reflexivity].
      * destruct (IH z Hin) as [z' [H1 H2]]. exists z'. split; [right; exact H1 | exact H2].
Qed.

(* ================================================================ points of a line by parameter *)
Definition at_param (a b p : pt) (t : Q) : Prop :=
  fst p == fst a + t * (fst b - fst a) /\ snd p == snd a + t * (snd b - snd a).

(* the parameter of the orthogonal projection of p on the line a b *)
Definition tpar (a b p : pt) : Q :=
  ((fst p - fst a) * (fst b - fst a) + (snd p - snd a) * (snd b - snd a)) / rn_dist2 a b.

Lemma qsq_nonneg x : 0 <= x * x.
Proof. destruct (Qlt_le_dec x 0); nra. Qed.
Lemma qsq_pos x : ~ x == 0 -> 0 < x * x.
Proof. intros H. destruct (Q_dec x 0) as [[L|G]|E]; [nra | nra | tauto]. Qed.
Lemma dist2_pos a b : ~ pt_eq a b -> 0 < rn_dist2 a b.
Proof.
  unfold pt_eq, rn_dist2. intros H.
  pose proof (qsq_nonneg (fst b - fst a)) as S1. pose proof (qsq_nonneg (snd b - snd a)) as S2.
  destruct (Qeq_dec (fst a) (fst b)) as [E1|N1].
  - destruct (Qeq_dec (snd a) (snd b)) as [E2|N2]; [tauto|].
    assert (0 < (snd b - snd a) * (snd b - snd a)) by (apply qsq_pos; lra). lra.
  - assert (0 < (fst b - fst a) * (fst b - fst a)) by (apply qsq_pos; lra). lra.
Qed.

Lemma at_param_tpar a b p t : ~ pt_eq a b -> at_param a b p t -> tpar a b p == t.
Proof.
  intros Hne [Hx Hy]. pose proof (dist2_pos a b Hne) as Hp.
  unfold tpar. apply Qdiv_mult_eq; [lra|]. unfold rn_dist2 in *. rewrite Hx, Hy. ring.
Qed.

Lemma on_seg_at_param a b p :
  ~ pt_eq a b -> on_seg (a, b) p = true -> 0 <= tpar a b p <= 1 /\ at_param a b p (tpar a b p).
Proof.
  intros Hne H. apply on_seg_iff in H. destruct H as [t [Ht [Hx Hy]]].
  assert (E : tpar a b p == t) by (apply at_param_tpar; [exact Hne | split; assumption]).
  unfold at_param. rewrite E. tauto.
Qed.

Lemma at_param_on_seg a b p t : 0 <= t <= 1 -> at_param a b p t -> on_seg (a, b) p = true.
Proof. intros Ht [Hx Hy]. apply on_seg_iff. exists t. split; [exact Ht | split; assumption]. Qed.

Lemma at_param_0 a b : at_param a b a 0.
Proof. split; ring. Qed.
Lemma at_param_1 a b : at_param a b b 1.
Proof. split; ring. Qed.

Lemma at_param_eq a b p q t u :
  ~ pt_eq a b -> at_param a b p t -> at_param a b q u -> (pt_eq p q <-> t == u).
Proof.
  intros Hne [Hx Hy] [Hx' Hy']. unfold pt_eq. split.
  - intros [E1 E2]. rewrite Hx, Hx' in E1. rewrite Hy, Hy' in E2.
    assert (K1 : (t - u) * (fst b - fst a) == 0) by lra.
    assert (K2 : (t - u) * (snd b - snd a) == 0) by lra.
    apply Qmult_integral in K1. apply Qmult_integral in K2.
    destruct K1 as [K1|K1]; [lra|]. destruct K2 as [K2|K2]; [lra|].
    exfalso. apply Hne. split; lra.
  - intros E. rewrite Hx, Hx', Hy, Hy', E. split; reflexivity.
Qed.

Lemma at_param_dist2 a b p t : at_param a b p t -> rn_dist2 a p == t * t * rn_dist2 a b.
Proof. intros [Hx Hy]. unfold rn_dist2. rewrite Hx, Hy. ring. Qed.

(* membership in a sub-segment of the line, by parameters *)
Lemma on_seg_params a b u w x tu tw tx :
  ~ pt_eq a b -> at_param a b u tu -> at_param a b w tw -> at_param a b x tx ->
  (on_seg (u, w) x = true <-> (tu <= tx <= tw \/ tw <= tx <= tu)).
Proof.
  intros Hne [Hux Huy] [Hwx Hwy] [Hxx Hxy]. split.
  - intros H. unfold on_seg in H. rewrite !andb_true_iff, !qbetween_iff in H.
    destruct H as [[Bx By] _].
    rewrite Hux, Hwx, Hxx in Bx. rewrite Huy, Hwy, Hxy in By.
    destruct (Qeq_dec (fst a) (fst b)) as [E1|N1].
    + destruct (Qeq_dec (snd a) (snd b)) as [E2|N2]; [exfalso; apply Hne; split; assumption|].
      destruct (Q_dec (snd a) (snd b)) as [[L|G]|E]; [| |tauto].
      * assert (0 < snd b - snd a) by lra.
        destruct By as [[B1 B2]|[B1 B2]]; [left | right]; split; nra.
      * assert (0 < snd a - snd b) by lra.
        destruct By as [[B1 B2]|[B1 B2]]; [right | left]; split; nra.
    + destruct (Q_dec (fst a) (fst b)) as [[L|G]|E]; [| |tauto].
      * assert (0 < fst b - fst a) by lra.
        destruct Bx as [[B1 B2]|[B1 B2]]; [left | right]; split; nra.
      * assert (0 < fst a - fst b) by lra.
        destruct Bx as [[B1 B2]|[B1 B2]]; [right | left]; split; nra.
  - intros H. apply on_seg_iff.
    destruct (Qeq_dec tu tw) as [E|N].
    + exists 0. unfold seg_param. split; [lra|].
      assert (tx == tu) by (destruct H; lra).
      rewrite Hxx, Hux, Hxy, Huy, H0. split; ring.
    + exists ((tx - tu) / (tw - tu)).
      assert (Hd : ~ tw - tu == 0) by lra.
      assert (Hl : (tx - tu) / (tw - tu) * (tw - tu) == tx - tu) by (field; exact Hd).
      set (l := (tx - tu) / (tw - tu)) in *.
      unfold seg_param. split.
      * destruct (Qlt_le_dec tu tw); destruct H as [[H1 H2]|[H1 H2]]; split; nra.
      * rewrite Hxx, Hux, Hwx, Hxy, Huy, Hwy. split.
        -- transitivity (fst a + (tu + l * (tw - tu)) * (fst b - fst a)); [rewrite Hl; ring | ring].
        -- transitivity (snd a + (tu + l * (tw - tu)) * (snd b - snd a)); [rewrite Hl; ring | ring].
Qed.

Lemma rn_qltb_iff a b : qltb a b = true <-> a < b.
Proof.
  unfold qltb. rewrite negb_true_iff. split.
  - intros H. destruct (Qlt_le_dec a b) as [L|L]; [exact L|]. apply Qle_bool_iff in L. congruence.
  - intros H. destruct (Qle_bool b a) eqn:E; [|reflexivity]. apply Qle_bool_iff in E. lra.
Qed.
Lemma rn_qltb_false_iff a b : qltb a b = false <-> b <= a.
Proof.
  unfold qltb. rewrite negb_false_iff. apply Qle_bool_iff.
Qed.

Lemma ring_edges_cons2 (p q : pt) r : ring_edges (p :: q :: r) = (p, q) :: ring_edges (q :: r).
Proof. reflexivity. Qed.
Lemma ring_edges_in (vs : list pt) u w : In (u, w) (ring_edges vs) -> In u vs /\ In w vs.
Proof.
  induction vs as [|p r IH]; [simpl; tauto|].
  destruct r as [|q r']; [simpl; tauto|].
  cbn [ring_edges]. intros [E|H].
  - inversion E; subst. split; [left; reflexivity | right; left; reflexivity].
  - destruct (IH H) as [H1 H2]. split; right; assumption.
Qed.

Lemma last_nonempty_irrel {A} (l : list A) d d' : l <> [] -> last l d = last l d'.
Proof.
  induction l as [|x r IH]; [congruence|]. intros _. destruct r as [|y r']; [reflexivity|].
  change (last (y :: r') d = last (y :: r') d'). apply IH. discriminate.
Qed.

(* ================================================================ one line, its vertices by parameter *)
Section OnLine.
  Variables a b : pt.
  Hypothesis Hne : ~ pt_eq a b.
  Let T := tpar a b.
  Let onab (p : pt) : Prop := on_seg (a, b) p = true.

  Lemma T_a : T a == 0.
  Proof. apply at_param_tpar; [exact Hne | apply at_param_0]. Qed.
  Lemma T_b : T b == 1.
  Proof. apply at_param_tpar; [exact Hne | apply at_param_1]. Qed.
  Lemma T_spec p : onab p -> 0 <= T p <= 1 /\ at_param a b p (T p).
  Proof. apply on_seg_at_param. exact Hne. Qed.

  Lemma sub_segment u w x : onab u -> onab w -> on_seg (u, w) x = true -> onab x.
  Proof.
    intros Hu Hw Hx. destruct (T_spec u Hu) as [Bu Pu]. destruct (T_spec w Hw) as [Bw Pw].
    apply on_seg_iff in Hx. destruct Hx as [l [[L0 L1] [Hxx Hxy]]].
    destruct Pu as [Pux Puy]. destruct Pw as [Pwx Pwy].
    apply (at_param_on_seg a b x (T u + l * (T w - T u))).
    - split; nra.
    - split; [rewrite Hxx, Pux, Pwx | rewrite Hxy, Puy, Pwy]; ring.
  Qed.

  Lemma piece_by_T u w x : onab u -> onab w -> onab x ->
    (on_seg (u, w) x = true <-> (T u <= T x <= T w \/ T w <= T x <= T u)).
  Proof.
    intros Hu Hw Hx. apply (on_seg_params a b); [exact Hne | apply T_spec; assumption ..].
  Qed.
  Lemma T_eq p q : onab p -> onab q -> (pt_eq p q <-> T p == T q).
  Proof. intros Hp Hq. apply (at_param_eq a b); [exact Hne | apply T_spec; assumption ..]. Qed.

  Definition T_le (p q : pt) : Prop := T p <= T q.
  Definition T_lt (p q : pt) : Prop := T p < T q.

  (* the pieces between consecutive vertices of a monotone vertex list cover everything between its ends *)
  Lemma pieces_cover vs : forall u, Forall onab (u :: vs) -> StronglySorted T_le (u :: vs) -> vs <> [] ->
    forall x, onab x -> T u <= T x <= T (last vs u) ->
    exists s, In s (ring_edges (u :: vs)) /\ on_seg s x = true.
  Proof.
    induction vs as [|w r IH]; intros u Hon Hs Hnn x Hx [B1 B2]; [congruence|].
    apply Forall_cons_iff in Hon. destruct Hon as [Hu Hon].
    pose proof Hon as Hon'. apply Forall_cons_iff in Hon'. destruct Hon' as [Hw _].
    apply StronglySorted_inv in Hs. destruct Hs as [Hs Hall].
    destruct (Qlt_le_dec (T w) (T x)) as [L|L].
    - destruct r as [|w2 r'].
      + simpl in B2. lra.
      + destruct (IH w Hon Hs ltac:(discriminate) x Hx) as [s [Hin Hos]].
        * split; [lra|]. rewrite (last_nonempty_irrel (w2 :: r') w u) by discriminate. exact B2.
        * exists s. split; [right; exact Hin | exact Hos].
    - exists (u, w). split; [left; reflexivity|]. apply piece_by_T; auto.
  Qed.

  Lemma pieces_sub vs u w x : Forall onab vs -> In (u, w) (ring_edges vs) -> on_seg (u, w) x = true -> onab x.
  Proof.
    intros Hon Hin Hx. destruct (ring_edges_in _ _ _ Hin) as [H1 H2]. rewrite Forall_forall in Hon.
    apply (sub_segment u w x); [apply Hon; exact H1 | apply Hon; exact H2 | exact Hx].
  Qed.

  (* consecutive vertices of a strictly monotone list: no other vertex between them *)
  Lemma sorted_adjacent vs u w : StronglySorted T_lt vs -> In (u, w) (ring_edges vs) ->
    T u < T w /\ forall v, In v vs -> T v <= T u \/ T w <= T v.
  Proof.
    induction vs as [|p r IH]; [simpl; tauto|].
    intros Hs Hin. apply StronglySorted_inv in Hs. destruct Hs as [Hs Hall]. rewrite Forall_forall in Hall.
    destruct r as [|q r']; [simpl in Hin; tauto|].
    rewrite ring_edges_cons2 in Hin. destruct Hin as [E|Hin].
    - inversion E; subst. split; [apply Hall; left; reflexivity|].
      intros v [->|[->|Hv]]; [left; lra | right; lra |].
      apply StronglySorted_inv in Hs. destruct Hs as [_ Hq]. rewrite Forall_forall in Hq.
      right. specialize (Hq v Hv). unfold T_lt in Hq. lra.
    - destruct (IH Hs Hin) as [H1 H2]. split; [exact H1|].
      intros v [->|Hv]; [|apply H2; exact Hv].
      destruct (ring_edges_in _ _ _ Hin) as [Hu _]. specialize (Hall u Hu). unfold T_lt in Hall. left. lra.
  Qed.

  Lemma no_vertex_inside vs u w v : Forall onab vs -> StronglySorted T_lt vs ->
    In (u, w) (ring_edges vs) -> In v vs -> on_seg (u, w) v = true -> pt_eq v u \/ pt_eq v w.
  Proof.
    intros Hon Hs Hin Hv Hos. destruct (sorted_adjacent vs u w Hs Hin) as [Hlt Hout].
    destruct (ring_edges_in _ _ _ Hin) as [Hu Hw]. rewrite Forall_forall in Hon.
    apply piece_by_T in Hos; auto.
    destruct (Hout v Hv) as [H|H]; [left | right]; apply T_eq; auto; lra.
  Qed.

  (* the comparator of reNodeLineString orders points of the line by their parameter *)
  Lemma cut_less_T p q : onab p -> onab q ->
    (cut_less a p q = true -> T p <= T q) /\ (cut_less a p q = false -> T q <= T p).
  Proof.
    intros Hp Hq. destruct (T_spec p Hp) as [[P0 P1] Pp]. destruct (T_spec q Hq) as [[Q0 Q1] Pq].
    pose proof (at_param_dist2 a b p _ Pp) as Dp. pose proof (at_param_dist2 a b q _ Pq) as Dq.
    pose proof (dist2_pos a b Hne) as L.
    unfold cut_less. destruct (Qeq_bool (rn_dist2 a p) (rn_dist2 a q)) eqn:E.
    - apply Qeq_bool_iff in E. rewrite Dp, Dq in E.
      assert (K : (T p - T q) * ((T p + T q) * rn_dist2 a b) == 0) by nra.
      apply Qmult_integral in K. destruct K as [K|K]; [split; intros; lra|].
      apply Qmult_integral in K. destruct K as [K|K]; [|lra]. split; intros; lra.
    - apply Qeq_bool_false_iff in E. split; intros H.
      + apply rn_qltb_iff in H. rewrite Dp, Dq in H.
        destruct (Qlt_le_dec (T q) (T p)) as [G|G]; [|exact G]. exfalso.
        assert (T q * T q <= T p * T p) by nra. nra.
      + apply rn_qltb_false_iff in H. rewrite Dp, Dq in H.
        destruct (Qlt_le_dec (T p) (T q)) as [G|G]; [|exact G]. exfalso.
        assert (T p * T p < T q * T q) by nra. nra.
  Qed.

  Lemma T_le_trans x y z : T_le x y -> T_le y z -> T_le x z.
  Proof. unfold T_le. intros. lra. Qed.

  Lemma isort_cuts_sorted l : Forall onab l -> StronglySorted T_le (isort (cut_less a) l).
  Proof.
    apply (isort_sorted pt (cut_less a) T_le onab T_le_trans).
    - intros x y Hx Hy H. apply (cut_less_T x y Hx Hy). exact H.
    - intros x y Hx Hy H. apply (cut_less_T x y Hx Hy). exact H.
  Qed.

  Lemma uniq_strict l : Forall onab l -> StronglySorted T_le l -> StronglySorted T_lt (uniq_grouped l).
  Proof.
    induction l as [|x r IH]; intros Hon Hs; [constructor|].
    apply Forall_cons_iff in Hon. destruct Hon as [Hx Hon].
    apply StronglySorted_inv in Hs. destruct Hs as [Hs Hall].
    cbn [uniq_grouped]. destruct r as [|y r'].
    - constructor; constructor.
    - destruct (pt_eqb x y) eqn:E; [apply IH; assumption|].
      constructor; [apply IH; assumption|].
      apply Forall_forall. intros z Hz. apply uniq_grouped_in in Hz.
      pose proof Hon as Hon'. apply Forall_cons_iff in Hon'. destruct Hon' as [Hy _].
      apply pt_eqb_false_iff in E.
      assert (Lxy : T x < T y).
      { rewrite Forall_forall in Hall. specialize (Hall y (or_introl eq_refl)). unfold T_le in Hall.
        destruct (Qeq_dec (T x) (T y)) as [Q|Q]; [|lra]. exfalso. apply E. apply T_eq; auto. }
      unfold T_lt. destruct Hz as [->|Hz]; [exact Lxy|].
      apply StronglySorted_inv in Hs. destruct Hs as [_ Hy2]. rewrite Forall_forall in Hy2.
      specialize (Hy2 z Hz). unfold T_le in Hy2. lra.
  Qed.

  (* -------- the vertices a line is replaced by *)
  Variable cutf : seg -> list pt.
  Hypothesis cuts_on : forall c, In c (cutf (a, b)) -> on_seg (a, b) c = true /\ has_endpoint (a, b) c = false.

  Lemma sorted_cuts_on c : In c (sorted_cuts cutf (a, b)) -> onab c /\ has_endpoint (a, b) c = false.
  Proof.
    unfold sorted_cuts. cbn [fst]. intros H. apply uniq_grouped_in in H.
    apply (proj1 (isort_in _ _ _ _)) in H. apply cuts_on. exact H.
  Qed.
  Lemma sorted_cuts_strict : StronglySorted T_lt (sorted_cuts cutf (a, b)).
  Proof.
    unfold sorted_cuts. cbn [fst].
    assert (Hon : Forall onab (isort (cut_less a) (cutf (a, b)))).
    { apply Forall_forall. intros c Hc. apply (proj1 (isort_in _ _ _ _)) in Hc. apply cuts_on. exact Hc. }
    apply uniq_strict; [exact Hon|]. apply isort_cuts_sorted.
    apply Forall_forall. intros c Hc. apply cuts_on. exact Hc.
  Qed.
  Lemma cut_T_strict c : In c (sorted_cuts cutf (a, b)) -> 0 < T c < 1.
  Proof.
    intros H. destruct (sorted_cuts_on c H) as [Hon He]. destruct (T_spec c Hon) as [[B0 B1] _].
    unfold has_endpoint in He. cbn [fst snd] in He. apply orb_false_iff in He. destruct He as [E1 E2].
    apply pt_eqb_false_iff in E1, E2.
    assert (Ha : onab a) by apply on_seg_left. assert (Hb : onab b) by apply on_seg_right.
    split.
    - destruct (Qeq_dec (T c) 0) as [Q|Q]; [|lra]. exfalso. apply E1. apply T_eq; auto. rewrite T_a, Q. reflexivity.
    - destruct (Qeq_dec (T c) 1) as [Q|Q]; [|lra]. exfalso. apply E2. apply T_eq; auto. rewrite T_b, Q. reflexivity.
  Qed.

  Lemma line_verts_on : Forall onab (line_verts cutf (a, b)).
  Proof.
    unfold line_verts. cbn [fst snd]. apply Forall_forall. intros v [<-|Hv]; [apply on_seg_left|].
    apply in_app_or in Hv. destruct Hv as [Hv|[<-|[]]]; [apply sorted_cuts_on; exact Hv | apply on_seg_right].
  Qed.

  Lemma sorted_app_last (l : list pt) z : StronglySorted T_lt l -> (forall c, In c l -> T_lt c z) ->
    StronglySorted T_lt (l ++ [z]).
  Proof.
    induction l as [|x r IH]; intros Hs Hz; simpl; [constructor; constructor|].
    apply StronglySorted_inv in Hs. destruct Hs as [Hs Hall]. constructor.
    - apply IH; [exact Hs|]. intros c Hc. apply Hz. right. exact Hc.
    - apply Forall_forall. intros c Hc. apply in_app_or in Hc. destruct Hc as [Hc|[<-|[]]].
      + rewrite Forall_forall in Hall. apply Hall. exact Hc.
      + apply Hz. left. reflexivity.
  Qed.

  (* T1, monotone part: the vertices are strictly ordered along the line *)
  Lemma line_verts_strict : StronglySorted T_lt (line_verts cutf (a, b)).
  Proof.
    unfold line_verts. cbn [fst snd]. constructor.
    - apply sorted_app_last; [apply sorted_cuts_strict|].
      intros c Hc. unfold T_lt. rewrite T_b. apply cut_T_strict. exact Hc.
    - apply Forall_forall. intros c Hc. unfold T_lt. rewrite T_a.
      apply in_app_or in Hc. destruct Hc as [Hc|[<-|[]]]; [apply cut_T_strict; exact Hc | rewrite T_b; lra].
  Qed.

  Lemma T_lt_le_sorted l : StronglySorted T_lt l -> StronglySorted T_le l.
  Proof.
    induction 1; constructor; auto. eapply Forall_impl; [|exact H0]. intros x Hx. unfold T_lt, T_le in *. lra.
  Qed.

  (* T1, point set part *)
  Lemma line_pieces_cover x :
    (exists s, In s (line_pieces cutf (a, b)) /\ on_seg s x = true) <-> on_seg (a, b) x = true.
  Proof.
    unfold line_pieces. split.
    - intros [[u w] [Hin Hos]]. eapply pieces_sub; [apply line_verts_on | exact Hin | exact Hos].
    - intros Hx. unfold line_verts. cbn [fst snd].
      apply (pieces_cover (sorted_cuts cutf (a, b) ++ [b]) a).
      + apply line_verts_on.
      + apply T_lt_le_sorted. apply line_verts_strict.
      + destruct (sorted_cuts cutf (a, b)); discriminate.
      + exact Hx.
      + rewrite last_last, T_a, T_b. apply T_spec. exact Hx.
  Qed.

  (* pieces are non-degenerate *)
  Lemma line_pieces_nondeg u w : In (u, w) (line_pieces cutf (a, b)) -> ~ pt_eq u w.
  Proof.
    intros Hin E. destruct (sorted_adjacent _ u w line_verts_strict Hin) as [Hlt _].
    destruct (ring_edges_in _ _ _ Hin) as [Hu Hw]. pose proof line_verts_on as Hon. rewrite Forall_forall in Hon.
    apply T_eq in E; auto. lra.
  Qed.

  Lemma line_piece_vertex u w v : In (u, w) (line_pieces cutf (a, b)) -> In v (line_verts cutf (a, b)) ->
    on_seg (u, w) v = true -> pt_eq v u \/ pt_eq v w.
  Proof.
    intros H1 H2 H3.
    exact (no_vertex_inside (line_verts cutf (a, b)) u w v line_verts_on line_verts_strict H1 H2 H3).
  Qed.
End OnLine.

(* ================================================================ more about the kernel's seg_seg *)
Definition collin (s t : seg) : Prop := cross (fst s) (snd s) (fst t) == 0 /\ cross (fst s) (snd s) (snd t) == 0.
Lemma collin_dec s t : {collin s t} + {~ collin s t}.
Proof.
  unfold collin. destruct (Qeq_dec (cross (fst s) (snd s) (fst t)) 0); [|right; tauto].
  destruct (Qeq_dec (cross (fst s) (snd s) (snd t)) 0); [left; tauto | right; tauto].
Qed.

(* a point of the line a b (a <> b) has a parameter on it *)
Lemma line_param a b v : ~ pt_eq a b -> cross a b v == 0 -> at_param a b v (tpar a b v).
Proof.
  intros Hne Hc. pose proof (dist2_pos a b Hne) as L.
  set (t := tpar a b v).
  assert (Ht : t * rn_dist2 a b == (fst v - fst a) * (fst b - fst a) + (snd v - snd a) * (snd b - snd a)).
  { unfold t, tpar. field. lra. }
  unfold cross in Hc. unfold rn_dist2 in *. unfold at_param.
  assert (K1 : (fst v - fst a - t * (fst b - fst a)) * ((fst b - fst a) * (fst b - fst a) + (snd b - snd a) * (snd b - snd a)) == 0).
  { transitivity ((fst v - fst a) * ((fst b - fst a) * (fst b - fst a) + (snd b - snd a) * (snd b - snd a))
                  - (t * ((fst b - fst a) * (fst b - fst a) + (snd b - snd a) * (snd b - snd a))) * (fst b - fst a)); [ring|].
    rewrite Ht.
    transitivity (- (snd b - snd a) * ((fst b - fst a) * (snd v - snd a) - (snd b - snd a) * (fst v - fst a))); [ring|].
    rewrite Hc. ring. }
  assert (K2 : (snd v - snd a - t * (snd b - snd a)) * ((fst b - fst a) * (fst b - fst a) + (snd b - snd a) * (snd b - snd a)) == 0).
  { transitivity ((snd v - snd a) * ((fst b - fst a) * (fst b - fst a) + (snd b - snd a) * (snd b - snd a))
                  - (t * ((fst b - fst a) * (fst b - fst a) + (snd b - snd a) * (snd b - snd a))) * (snd b - snd a)); [ring|].
    rewrite Ht.
    transitivity ((fst b - fst a) * ((fst b - fst a) * (snd v - snd a) - (snd b - snd a) * (fst v - fst a))); [ring|].
    rewrite Hc. ring. }
  apply Qmult_integral in K1. apply Qmult_integral in K2.
  destruct K1 as [K1|K1]; [|lra]. destruct K2 as [K2|K2]; [|lra]. split; lra.
Qed.

Lemma on_seg_cross0 a b p : on_seg (a, b) p = true -> cross a b p == 0.
Proof. unfold on_seg. rewrite !andb_true_iff, Qeq_bool_iff. tauto. Qed.

Lemma cross_of_params a b u w x tu tw tx :
  at_param a b u tu -> at_param a b w tw -> at_param a b x tx -> cross u w x == 0.
Proof. intros [H1 H2] [H3 H4] [H5 H6]. unfold cross. rewrite H1, H2, H3, H4, H5, H6. ring. Qed.

(* every point of a segment collinear with s lies on the line of s *)
Lemma collin_on_line s t p : collin s t -> on_seg t p = true -> cross (fst s) (snd s) p == 0.
Proof.
  destruct s as [a b], t as [c d]. unfold collin. cbn [fst snd]. intros [H1 H2] Hp.
  apply on_seg_iff in Hp. destruct Hp as [l [_ [Hx Hy]]].
  rewrite (cross_along a b c d p l Hx Hy), H1, H2. ring.
Qed.

Lemma collin_sym s t : ~ pt_eq (fst s) (snd s) -> collin s t -> collin t s.
Proof.
  destruct s as [a b], t as [c d]. unfold collin. cbn [fst snd]. intros Hne [H1 H2].
  apply collinear_swap; assumption.
Qed.

(* two non-collinear non-degenerate segments have at most one common point *)
Lemma common_point_unique s t p q :
  ~ pt_eq (fst s) (snd s) -> ~ pt_eq (fst t) (snd t) -> ~ collin s t ->
  on_seg s p = true -> on_seg t p = true -> on_seg s q = true -> on_seg t q = true -> pt_eq p q.
Proof.
  destruct s as [a b], t as [c d]. cbn [fst snd]. intros Hab Hcd Hnc Hsp Htp Hsq Htq.
  destruct (on_seg_at_param a b p Hab Hsp) as [_ Pp]. destruct (on_seg_at_param a b q Hab Hsq) as [_ Pq].
  apply (at_param_eq a b p q _ _ Hab Pp Pq).
  set (tp := tpar a b p) in *. set (tq := tpar a b q) in *.
  pose proof (on_seg_cross0 c d p Htp) as Cp. pose proof (on_seg_cross0 c d q Htq) as Cq.
  destruct Pp as [Ppx Ppy]. destruct Pq as [Pqx Pqy].
  rewrite (cross_along c d a b p tp Ppx Ppy) in Cp. rewrite (cross_along c d a b q tq Pqx Pqy) in Cq.
  assert (K : (tp - tq) * (cross c d a - cross c d b) == 0) by lra.
  apply Qmult_integral in K. destruct K as [K|K]; [lra|].
  (* cross c d a == cross c d b: the segments are parallel; with a common point they are collinear *)
  exfalso. apply Hnc. unfold collin. cbn [fst snd].
  assert (Ca : cross c d a == 0).
  { transitivity ((1 - tp) * cross c d a + tp * cross c d b); [|exact Cp].
    assert (Kb : cross c d b == cross c d a) by lra. rewrite Kb. ring. }
  assert (Cb : cross c d b == 0) by lra.
  apply collinear_swap; assumption.
Qed.

Lemma pt_max_of_le p q : pt_le p q -> pt_eq (pt_max p q) q.
Proof.
  intros H. destruct (pt_max_cases p q) as [[-> _]|[-> H2]]; [reflexivity|]. apply pt_le_antisym; assumption.
Qed.
Lemma pt_min_of_le p q : pt_le p q -> pt_eq (pt_min p q) p.
Proof.
  intros H. destruct (pt_min_cases p q) as [[-> _]|[-> H2]]; [reflexivity|]. apply pt_le_antisym; assumption.
Qed.
Lemma pt_max_of_ge p q : pt_le q p -> pt_eq (pt_max p q) p.
Proof.
  intros H. destruct (pt_max_cases p q) as [[-> H2]|[-> _]]; [|reflexivity]. apply pt_le_antisym; assumption.
Qed.
Lemma pt_min_of_ge p q : pt_le q p -> pt_eq (pt_min p q) q.
Proof.
  intros H. destruct (pt_min_cases p q) as [[-> H2]|[-> _]]; [|reflexivity]. apply pt_le_antisym; assumption.
Qed.
Lemma pt_le_proper_l p p' q : pt_eq p p' -> pt_le p q -> pt_le p' q.
Proof. intros E H. eapply pt_le_trans; [apply pt_le_refl; symmetry; exact E | exact H]. Qed.
Lemma pt_le_proper_r p q q' : pt_eq q q' -> pt_le p q -> pt_le p q'.
Proof. intros E H. eapply pt_le_trans; [exact H | apply pt_le_refl; exact E]. Qed.

(* the three shapes of seg_seg on non-degenerate segments *)
Lemma seg_seg_shape a b c d : ~ pt_eq a b -> ~ pt_eq c d ->
  let lo := pt_max (pt_min a b) (pt_min c d) in
  let hi := pt_min (pt_max a b) (pt_max c d) in
  (collin (c, d) (a, b) /\
   seg_seg (a, b) (c, d) = (if pt_eqb lo hi then SSPoint lo else if pt_leb lo hi then SSOverlap lo hi else SSEmpty)) \/
  (~ collin (c, d) (a, b) /\ forall r, seg_seg (a, b) (c, d) = r -> match r with SSOverlap _ _ => False | _ => True end).
Proof.
  intros Hab Hcd lo hi. unfold seg_seg.
  apply pt_eqb_false_iff in Hab. apply pt_eqb_false_iff in Hcd. rewrite Hab, Hcd. cbv zeta.
  destruct (Qeq_bool (cross c d a - cross c d b) 0) eqn:Eden.
  - apply Qeq_bool_iff in Eden. destruct (Qeq_bool (cross c d a) 0) eqn:E3.
    + apply Qeq_bool_iff in E3. left. split; [unfold collin; cbn [fst snd]; split; lra | reflexivity].
    + apply Qeq_bool_false_iff in E3. right. split; [unfold collin; cbn [fst snd]; tauto|].
      intros r <-. exact I.
  - apply Qeq_bool_false_iff in Eden. right. split; [unfold collin; cbn [fst snd]; intros [H1 H2]; lra|].
    intros r <-. match goal with |- context [if ?c then _ else _] => destruct c end; exact I.
Qed.

Lemma seg_seg_point_unique s t x p :
  ~ pt_eq (fst s) (snd s) -> ~ pt_eq (fst t) (snd t) ->
  seg_seg s t = SSPoint x -> on_seg s p = true -> on_seg t p = true -> pt_eq p x.
Proof.
  destruct s as [a b], t as [c d]. cbn [fst snd]. intros Hab Hcd E Hs Ht.
  assert (Hx : on_seg (a, b) x = true /\ on_seg (c, d) x = true).
  { apply seg_seg_sound. rewrite E. left. reflexivity. }
  destruct (seg_seg_shape a b c d Hab Hcd) as [[Hcol Esh]|[Hnc _]].
  - rewrite E in Esh.
    set (lo := pt_max (pt_min a b) (pt_min c d)) in *. set (hi := pt_min (pt_max a b) (pt_max c d)) in *.
    destruct (pt_eqb lo hi) eqn:Elh; [|destruct (pt_leb lo hi); discriminate].
    inversion Esh; subst x. apply pt_eqb_iff in Elh.
    destruct (on_seg_lex a b p Hs) as [L1 L2]. destruct (on_seg_lex c d p Ht) as [L3 L4].
    assert (Llo : pt_le lo p) by (apply pt_max_lub; assumption).
    assert (Lhi : pt_le p hi) by (apply pt_min_glb; assumption).
    apply pt_le_antisym; [|exact Llo]. eapply pt_le_proper_r; [symmetry; exact Elh | exact Lhi].
  - apply (common_point_unique (a, b) (c, d)); cbn [fst snd]; try tauto.
    intros Hc. apply Hnc. apply collin_sym; assumption.
Qed.

(* I2: a common point of two non-collinear segments is the reported point *)
Lemma seg_seg_noncollinear s t p :
  ~ pt_eq (fst s) (snd s) -> ~ pt_eq (fst t) (snd t) -> ~ collin s t ->
  on_seg s p = true -> on_seg t p = true -> exists x, In x (ssr_points (seg_seg s t)) /\ pt_eq x p.
Proof.
  intros Hs Ht Hnc Hsp Htp. pose proof (seg_seg_complete s t p Hsp Htp) as Hne.
  destruct (seg_seg s t) as [|x|lo hi] eqn:E; [congruence| |].
  - exists x. split; [left; reflexivity|]. symmetry. exact (seg_seg_point_unique s t x p Hs Ht E Hsp Htp).
  - exfalso. destruct s as [a b], t as [c d]. cbn [fst snd] in *.
    destruct (seg_seg_shape a b c d Hs Ht) as [[Hcol _]|[_ Hno]].
    + apply Hnc. apply collin_sym; assumption.
    + apply (Hno _ E).
Qed.

(* I3: an end of one segment lying on the other, collinear, segment is a reported point *)
Lemma seg_seg_collinear_end s t v :
  ~ pt_eq (fst s) (snd s) -> ~ pt_eq (fst t) (snd t) -> collin s t ->
  ((v = fst t \/ v = snd t) /\ on_seg s v = true) \/ ((v = fst s \/ v = snd s) /\ on_seg t v = true) ->
  exists x, In x (ssr_points (seg_seg s t)) /\ pt_eq x v.
Proof.
  destruct s as [a b], t as [c d]. cbn [fst snd]. intros Hab Hcd Hcol Hv.
  assert (Hboth : on_seg (a, b) v = true /\ on_seg (c, d) v = true).
  { destruct Hv as [[[->| ->] H]|[[->| ->] H]]; split; try exact H;
      first [apply on_seg_left | apply on_seg_right]. }
  destruct Hboth as [Hsv Htv].
  pose proof (seg_seg_complete (a, b) (c, d) v Hsv Htv) as Hne.
  destruct (seg_seg_shape a b c d Hab Hcd) as [[_ Esh]|[Hnc _]];
    [|exfalso; apply Hnc; apply collin_sym; assumption].
  set (lo := pt_max (pt_min a b) (pt_min c d)) in *. set (hi := pt_min (pt_max a b) (pt_max c d)) in *.
  destruct (on_seg_lex a b v Hsv) as [L1 L2]. destruct (on_seg_lex c d v Htv) as [L3 L4].
  (* v is the minimum or the maximum of its own segment, hence equal to lo or to hi *)
  assert (Hlh : pt_eq lo v \/ pt_eq hi v).
  { destruct Hv as [[Hvc _]|[Hva _]].
    - assert (Hm : pt_eq (pt_min c d) v \/ pt_eq (pt_max c d) v).
      { destruct Hvc as [->| ->].
        - destruct (pt_le_total c d) as [L|L]; [left; apply pt_min_of_le; exact L | right; apply pt_max_of_ge; exact L].
        - destruct (pt_le_total c d) as [L|L]; [right; apply pt_max_of_le; exact L | left; apply pt_min_of_ge; exact L]. }
      destruct Hm as [Hm|Hm].
      + left. unfold lo. etransitivity; [apply pt_max_of_le|exact Hm].
        eapply pt_le_proper_r; [symmetry; exact Hm | exact L1].
      + right. unfold hi. etransitivity; [apply pt_min_of_ge|exact Hm].
        eapply pt_le_proper_l; [symmetry; exact Hm | exact L2].
    - assert (Hm : pt_eq (pt_min a b) v \/ pt_eq (pt_max a b) v).
      { destruct Hva as [->| ->].
        - destruct (pt_le_total a b) as [L|L]; [left; apply pt_min_of_le; exact L | right; apply pt_max_of_ge; exact L].
        - destruct (pt_le_total a b) as [L|L]; [right; apply pt_max_of_le; exact L | left; apply pt_min_of_ge; exact L]. }
      destruct Hm as [Hm|Hm].
      + left. unfold lo. etransitivity; [apply pt_max_of_ge|exact Hm].
        eapply pt_le_proper_r; [symmetry; exact Hm | exact L3].
      + right. unfold hi. etransitivity; [apply pt_min_of_le|exact Hm].
        eapply pt_le_proper_l; [symmetry; exact Hm | exact L4]. }
  rewrite Esh in *. destruct (pt_eqb lo hi) eqn:Elh.
  - apply pt_eqb_iff in Elh. exists lo. split; [left; reflexivity|].
    destruct Hlh as [H|H]; [exact H | etransitivity; [exact Elh | exact H]].
  - destruct (pt_leb lo hi) eqn:Ele; [|congruence].
    destruct Hlh as [H|H]; [exists lo | exists hi]; (split; [simpl; tauto | exact H]).
Qed.

(* I4: the reported points of collinear segments are ends of one of them *)
Lemma seg_seg_collinear_points s t x :
  ~ pt_eq (fst s) (snd s) -> ~ pt_eq (fst t) (snd t) -> collin s t ->
  In x (ssr_points (seg_seg s t)) -> x = fst s \/ x = snd s \/ x = fst t \/ x = snd t.
Proof.
  destruct s as [a b], t as [c d]. cbn [fst snd]. intros Hab Hcd Hcol Hx.
  destruct (seg_seg_shape a b c d Hab Hcd) as [[_ Esh]|[Hnc _]];
    [|exfalso; apply Hnc; apply collin_sym; assumption].
  set (lo := pt_max (pt_min a b) (pt_min c d)) in *. set (hi := pt_min (pt_max a b) (pt_max c d)) in *.
  assert (Hlo : lo = a \/ lo = b \/ lo = c \/ lo = d).
  { unfold lo. destruct (pt_max_cases (pt_min a b) (pt_min c d)) as [[-> _]|[-> _]].
    - destruct (pt_min_cases c d) as [[-> _]|[-> _]]; tauto.
    - destruct (pt_min_cases a b) as [[-> _]|[-> _]]; tauto. }
  assert (Hhi : hi = a \/ hi = b \/ hi = c \/ hi = d).
  { unfold hi. destruct (pt_min_cases (pt_max a b) (pt_max c d)) as [[-> _]|[-> _]].
    - destruct (pt_max_cases a b) as [[-> _]|[-> _]]; tauto.
    - destruct (pt_max_cases c d) as [[-> _]|[-> _]]; tauto. }
  rewrite Esh in Hx. destruct (pt_eqb lo hi).
  - destruct Hx as [<-|[]]. exact Hlo.
  - destruct (pt_leb lo hi); [|simpl in Hx; tauto].
    destruct Hx as [<-|[<-|[]]]; assumption.
Qed.

(* ================================================================ symmetricLineIntersection *)
Definition isect_ok (s t : seg) (X : list pt) : Prop :=
  (forall p, In p X -> on_seg s p = true /\ on_seg t p = true) /\
  (~ collin s t -> forall p, on_seg s p = true -> on_seg t p = true -> exists x, In x X /\ pt_eq x p) /\
  (collin s t -> forall v, ((v = fst t \/ v = snd t) /\ on_seg s v = true) \/ ((v = fst s \/ v = snd s) /\ on_seg t v = true) ->
                 exists x, In x X /\ pt_eq x v) /\
  (collin s t -> forall x, In x X -> x = fst s \/ x = snd s \/ x = fst t \/ x = snd t).

Definition sflip (s : seg) : seg := (snd s, fst s).

Lemma isect_ok_kernel s t : ~ pt_eq (fst s) (snd s) -> ~ pt_eq (fst t) (snd t) ->
  isect_ok s t (ssr_points (seg_seg s t)).
Proof.
  intros Hs Ht. repeat split.
  - apply (seg_seg_sound s t p H).
  - apply (seg_seg_sound s t p H).
  - intros Hnc p. apply seg_seg_noncollinear; assumption.
  - intros Hc v. apply seg_seg_collinear_end; assumption.
  - intros Hc x. apply seg_seg_collinear_points; assumption.
Qed.

Lemma cross_flip a b p : cross b a p == - cross a b p.
Proof. unfold cross. ring. Qed.
Lemma collin_flip_l a b t : collin (b, a) t <-> collin (a, b) t.
Proof. unfold collin. cbn [fst snd]. rewrite !(cross_flip a b). split; intros [H1 H2]; split; lra. Qed.

Lemma isect_ok_flip_l a b t X : isect_ok (a, b) t X -> isect_ok (b, a) t X.
Proof.
  intros [H1 [H2 [H3 H4]]]. unfold isect_ok. cbn [fst snd] in *. rewrite collin_flip_l.
  repeat split.
  - rewrite on_seg_sym. apply (H1 p H).
  - apply (H1 p H).
  - intros Hnc p. rewrite on_seg_sym. apply H2. exact Hnc.
  - intros Hc v. rewrite on_seg_sym. intros Hv. apply (H3 Hc). tauto.
  - intros Hc x Hx. specialize (H4 Hc x Hx). tauto.
Qed.

Lemma isect_ok_swap s t X : ~ pt_eq (fst s) (snd s) -> ~ pt_eq (fst t) (snd t) -> isect_ok s t X -> isect_ok t s X.
Proof.
  intros Hs Ht [H1 [H2 [H3 H4]]].
  assert (Hcc : collin t s <-> collin s t) by (split; apply collin_sym; assumption).
  unfold isect_ok. rewrite Hcc. repeat split.
  - apply (H1 p H).
  - apply (H1 p H).
  - intros Hnc p Hp1 Hp2. apply H2; assumption.
  - intros Hc v Hv. apply (H3 Hc). tauto.
  - intros Hc x Hx. specialize (H4 Hc x Hx). tauto.
Qed.

Lemma isect_ok_flip_r s c d X : ~ pt_eq (fst s) (snd s) -> ~ pt_eq c d -> isect_ok s (c, d) X -> isect_ok s (d, c) X.
Proof.
  intros Hs Hcd H. apply isect_ok_swap; cbn [fst snd]; [intros E; apply Hcd; symmetry; exact E | exact Hs |].
  apply isect_ok_flip_l. apply isect_ok_swap; cbn [fst snd]; assumption.
Qed.

Lemma sym_isect_ok s t : ~ pt_eq (fst s) (snd s) -> ~ pt_eq (fst t) (snd t) -> isect_ok s t (sym_isect s t).
Proof.
  destruct s as [a b], t as [c d]. cbn [fst snd]. intros Hab Hcd.
  assert (Hba : ~ pt_eq b a) by (intros E; apply Hab; symmetry; exact E).
  assert (Hdc : ~ pt_eq d c) by (intros E; apply Hcd; symmetry; exact E).
  unfold sym_isect, canon_pair, canon_line. cbn [fst snd].
  destruct (xy_less b a); destruct (xy_less d c);
    match goal with |- context [line_less ?l ?m] => destruct (line_less l m) end.
  - apply isect_ok_flip_l. apply isect_ok_flip_r; cbn [fst snd]; auto. apply isect_ok_kernel; cbn [fst snd]; auto.
  - apply isect_ok_swap; cbn [fst snd]; auto. apply isect_ok_flip_l. apply isect_ok_flip_r; cbn [fst snd]; auto.
    apply isect_ok_kernel; cbn [fst snd]; auto.
  - apply isect_ok_flip_l. apply isect_ok_kernel; cbn [fst snd]; auto.
  - apply isect_ok_swap; cbn [fst snd]; auto. apply isect_ok_flip_r; cbn [fst snd]; auto.
    apply isect_ok_kernel; cbn [fst snd]; auto.
  - apply isect_ok_flip_r; cbn [fst snd]; auto. apply isect_ok_kernel; cbn [fst snd]; auto.
  - apply isect_ok_swap; cbn [fst snd]; auto. apply isect_ok_flip_l. apply isect_ok_kernel; cbn [fst snd]; auto.
  - apply isect_ok_kernel; cbn [fst snd]; auto.
  - apply isect_ok_swap; cbn [fst snd]; auto. apply isect_ok_kernel; cbn [fst snd]; auto.
Qed.

(* ================================================================ T2: the second pass leaves a fully noded set *)
Definition seg_same (P Q : seg) : Prop :=
  (pt_eq (fst P) (fst Q) /\ pt_eq (snd P) (snd Q)) \/ (pt_eq (fst P) (snd Q) /\ pt_eq (snd P) (fst Q)).
Definition is_end_p (P : seg) (x : pt) : Prop := pt_eq x (fst P) \/ pt_eq x (snd P).
(* any two pieces are disjoint, or share only end points, or are the same segment *)
Definition Noded (L : list seg) : Prop :=
  forall P Q, In P L -> In Q L -> forall x, on_seg P x = true -> on_seg Q x = true ->
  (is_end_p P x /\ is_end_p Q x) \/ seg_same P Q.

Lemma interval_noded (p1 p2 q1 q2 x : Q) :
  p1 < p2 -> ~ q1 == q2 -> p1 <= x <= p2 -> (q1 <= x <= q2 \/ q2 <= x <= q1) ->
  ((p1 <= q1 <= p2 \/ p2 <= q1 <= p1) -> q1 == p1 \/ q1 == p2) ->
  ((p1 <= q2 <= p2 \/ p2 <= q2 <= p1) -> q2 == p1 \/ q2 == p2) ->
  ((q1 <= p1 <= q2 \/ q2 <= p1 <= q1) -> p1 == q1 \/ p1 == q2) ->
  ((q1 <= p2 <= q2 \/ q2 <= p2 <= q1) -> p2 == q1 \/ p2 == q2) ->
  ((x == p1 \/ x == p2) /\ (x == q1 \/ x == q2)) \/ (p1 == q1 /\ p2 == q2) \/ (p1 == q2 /\ p2 == q1).
Proof. intros. lra. Qed.

Lemma pt_eqb_proper_r a x x' : pt_eq x x' -> pt_eqb a x = pt_eqb a x'.
Proof.
  intros E. apply eq_true_iff_eq. rewrite !pt_eqb_iff. split; intros H; [rewrite <- E | rewrite E]; exact H.
Qed.
Lemma has_endpoint_proper s x x' : pt_eq x x' -> has_endpoint s x = has_endpoint s x'.
Proof. intros E. unfold has_endpoint. rewrite (pt_eqb_proper_r _ x x' E), (pt_eqb_proper_r (snd s) x x' E). reflexivity. Qed.
Lemma has_endpoint_iff s x : has_endpoint s x = true <-> pt_eq x (fst s) \/ pt_eq x (snd s).
Proof.
  unfold has_endpoint. rewrite orb_true_iff, !pt_eqb_iff. split; intros [H|H]; [left | right | left | right]; symmetry; exact H.
Qed.

Lemma cuts_of_isect_in ln ps c : In c (cuts_of_isect ln ps) -> In c ps /\ has_endpoint ln c = false.
Proof.
  unfold cuts_of_isect. destruct ps as [|pa [|pb r]]; [simpl; tauto| |].
  - destruct (has_endpoint ln pa) eqn:E; simpl; [tauto|]. intros [<-|[]]. auto.
  - intros H. apply in_app_or in H. destruct H as [H|H].
    + destruct (has_endpoint ln pa) eqn:E; simpl in H; [tauto|]. destruct H as [<-|[]]. simpl. auto.
    + destruct (pt_eqb pa pb || has_endpoint ln pb) eqn:E; simpl in H; [tauto|]. destruct H as [<-|[]].
      apply orb_false_iff in E. simpl. tauto.
Qed.
Lemma sym_isect_short l m : exists ps, sym_isect l m = ps /\ (length ps <= 2)%nat.
Proof.
  unfold sym_isect. destruct (canon_pair l m) as [l' m']. destruct (seg_seg l' m'); simpl; eauto.
Qed.
Lemma cuts_of_isect_keeps ln ps x : (length ps <= 2)%nat -> In x ps -> has_endpoint ln x = false ->
  exists x', In x' (cuts_of_isect ln ps) /\ pt_eq x' x.
Proof.
  intros Hlen Hin He. unfold cuts_of_isect. destruct ps as [|pa [|pb [|pc r]]]; [simpl in Hin; tauto| | |simpl in Hlen; lia].
  - destruct Hin as [->|[]]. rewrite He. exists x. split; [left; reflexivity | reflexivity].
  - destruct Hin as [->|[->|[]]].
    + rewrite He. exists x. split; [left; reflexivity | reflexivity].
    + destruct (pt_eqb pa x) eqn:E.
      * apply pt_eqb_iff in E. rewrite (has_endpoint_proper ln pa x E), He.
        exists pa. split; [left; reflexivity | exact E].
      * rewrite He. cbn [orb]. exists x. split; [apply in_or_app; right; left; reflexivity | reflexivity].
Qed.

Section Noding.
  Variable S : list seg.
  Hypothesis S_nondeg : forall s, In s S -> ~ pt_eq (fst s) (snd s).
  Let cutf := cuts_line_x_line S.

  Lemma cuts_ll_on s : ~ pt_eq (fst s) (snd s) ->
    forall c, In c (cutf s) -> on_seg s c = true /\ has_endpoint s c = false.
  Proof.
    intros Hs c Hc. unfold cutf, cuts_line_x_line in Hc. apply in_flat_map in Hc. destruct Hc as [o [Ho Hc]].
    apply cuts_of_isect_in in Hc. destruct Hc as [Hc He]. split; [|exact He].
    destruct (sym_isect_ok s o Hs (S_nondeg o Ho)) as [H1 _]. apply (H1 c Hc).
  Qed.
  Lemma cuts_ll_on' a b : In (a, b) S -> forall c, In c (cutf (a, b)) -> on_seg (a, b) c = true /\ has_endpoint (a, b) c = false.
  Proof. intros Hin. apply cuts_ll_on. apply (S_nondeg _ Hin). Qed.

  (* every reported intersection point of s with a line of S is a vertex of s *)
  Lemma vert_of_isect s t x : In s S -> In t S -> In x (sym_isect s t) ->
    exists v, In v (line_verts cutf s) /\ pt_eq v x.
  Proof.
    intros Hs Ht Hx. unfold line_verts. destruct (has_endpoint s x) eqn:He.
    - apply has_endpoint_iff in He. destruct He as [E|E].
      + exists (fst s). split; [left; reflexivity | symmetry; exact E].
      + exists (snd s). split; [right; apply in_or_app; right; left; reflexivity | symmetry; exact E].
    - destruct (sym_isect_short s t) as [ps [Eps Hlen]].
      destruct (cuts_of_isect_keeps s (sym_isect s t) x ltac:(rewrite Eps; exact Hlen) Hx He) as [x' [Hx' Ex']].
      assert (Hc : In x' (cutf s)).
      { unfold cutf, cuts_line_x_line. apply in_flat_map. exists t. split; assumption. }
      assert (Hc2 : In x' (isort (cut_less (fst s)) (cutf s))) by (apply isort_in; exact Hc).
      destruct (uniq_grouped_keeps _ _ Hc2) as [z [Hz Ez]].
      exists z. split; [right; apply in_or_app; left; exact Hz | etransitivity; eassumption].
  Qed.

  Lemma collin_trans s t u : ~ pt_eq (fst s) (snd s) -> ~ pt_eq (fst t) (snd t) -> collin s t -> collin s u -> collin t u.
  Proof.
    destruct s as [a b], t as [c d], u as [e f]. unfold collin. cbn [fst snd]. intros Hab Hcd [H1 H2] [H3 H4].
    pose proof (line_param a b c Hab H1). pose proof (line_param a b d Hab H2).
    pose proof (line_param a b e Hab H3). pose proof (line_param a b f Hab H4).
    split; eapply cross_of_params; eauto.
  Qed.

  (* an end of t that lies on s is a vertex of s *)
  Lemma closure_end s t v : In s S -> In t S -> (v = fst t \/ v = snd t) -> on_seg s v = true ->
    exists v', In v' (line_verts cutf s) /\ pt_eq v' v.
  Proof.
    intros Hs Ht Hv Hon. pose proof (S_nondeg s Hs) as Ns. pose proof (S_nondeg t Ht) as Nt.
    destruct (sym_isect_ok s t Ns Nt) as [_ [H2 [H3 _]]].
    assert (Htv : on_seg t v = true).
    { destruct t as [c d]. cbn [fst snd] in Hv. destruct Hv as [->| ->]; [apply on_seg_left | apply on_seg_right]. }
    destruct (collin_dec s t) as [Hc|Hnc].
    - destruct (H3 Hc v (or_introl (conj Hv Hon))) as [x [Hx Ex]].
      destruct (vert_of_isect s t x Hs Ht Hx) as [v' [Hv' Ev']]. exists v'. split; [exact Hv' | etransitivity; eassumption].
    - destruct (H2 Hnc v Hon Htv) as [x [Hx Ex]].
      destruct (vert_of_isect s t x Hs Ht Hx) as [v' [Hv' Ev']]. exists v'. split; [exact Hv' | etransitivity; eassumption].
  Qed.

  (* a common point of two non-collinear lines of S is a vertex of both *)
  Lemma closure_cross s t p : In s S -> In t S -> ~ collin s t -> on_seg s p = true -> on_seg t p = true ->
    exists v', In v' (line_verts cutf s) /\ pt_eq v' p.
  Proof.
    intros Hs Ht Hnc H1 H2. destruct (sym_isect_ok s t (S_nondeg s Hs) (S_nondeg t Ht)) as [_ [K2 _]].
    destruct (K2 Hnc p H1 H2) as [x [Hx Ex]].
    destruct (vert_of_isect s t x Hs Ht Hx) as [v' [Hv' Ev']]. exists v'. split; [exact Hv' | etransitivity; eassumption].
  Qed.

  (* closure: a vertex of t that lies on s is a vertex of s *)
  Lemma closure s t v : In s S -> In t S -> In v (line_verts cutf t) -> on_seg s v = true ->
    exists v', In v' (line_verts cutf s) /\ pt_eq v' v.
  Proof.
    intros Hs Ht Hv Hon. pose proof (S_nondeg s Hs) as Ns. pose proof (S_nondeg t Ht) as Nt.
    unfold line_verts in Hv. destruct Hv as [<-|Hv]; [apply (closure_end s t); auto|].
    apply in_app_or in Hv. destruct Hv as [Hv|[<-|[]]]; [|apply (closure_end s t); auto].
    unfold sorted_cuts in Hv. apply uniq_grouped_in in Hv. apply (proj1 (isort_in _ _ _ _)) in Hv.
    unfold cutf, cuts_line_x_line in Hv. apply in_flat_map in Hv. destruct Hv as [u [Hu Hv]].
    apply cuts_of_isect_in in Hv. destruct Hv as [Hv He]. pose proof (S_nondeg u Hu) as Nu.
    destruct (sym_isect_ok t u Nt Nu) as [K1 [_ [_ K4]]]. destruct (K1 v Hv) as [Htv Huv].
    destruct (collin_dec t u) as [Hc|Hnc].
    - destruct (K4 Hc v Hv) as [E|[E|[E|E]]].
      + exfalso. subst v. unfold has_endpoint in He. apply orb_false_iff in He. destruct He as [He _].
        apply pt_eqb_false_iff in He. apply He. reflexivity.
      + exfalso. subst v. unfold has_endpoint in He. apply orb_false_iff in He. destruct He as [_ He].
        apply pt_eqb_false_iff in He. apply He. reflexivity.
      + apply (closure_end s u); auto.
      + apply (closure_end s u); auto.
    - destruct (collin_dec s t) as [Hst|Hst]; [|apply (closure_cross s t); auto].
      apply (closure_cross s u); auto. intros Hsu. apply Hnc. apply (collin_trans s t u); auto.
  Qed.

  (* a point equal to a vertex of s and lying on a piece of s is an end of that piece *)
  Lemma piece_end s P v : In s S -> In P (line_pieces cutf s) ->
    (exists v', In v' (line_verts cutf s) /\ pt_eq v' v) -> on_seg P v = true -> is_end_p P v.
  Proof.
    intros Hs HP [v' [Hv' Ev']] Hon. destruct s as [a b], P as [u w].
    assert (Hon' : on_seg (u, w) v' = true).
    { rewrite (on_seg_proper u w v' u w v); [exact Hon | reflexivity | reflexivity | exact Ev']. }
    destruct (line_piece_vertex a b (S_nondeg _ Hs) cutf (cuts_ll_on' a b Hs) u w v' HP Hv' Hon') as [E|E];
      [left | right]; cbn [fst snd]; etransitivity; [symmetry; exact Ev' | exact E | symmetry; exact Ev' | exact E].
  Qed.

  Lemma piece_on_line s P x : In s S -> In P (line_pieces cutf s) -> on_seg P x = true -> on_seg s x = true.
  Proof.
    intros Hs HP Hon. destruct s as [a b].
    apply (line_pieces_cover a b (S_nondeg _ Hs) cutf (cuts_ll_on' a b Hs) x). exists P. split; assumption.
  Qed.

  (* K: a vertex of any line that lies on a piece is an end of the piece *)
  Lemma piece_vertex s t P v : In s S -> In t S -> In P (line_pieces cutf s) -> In v (line_verts cutf t) ->
    on_seg P v = true -> is_end_p P v.
  Proof.
    intros Hs Ht HP Hv Hon. apply (piece_end s P v Hs HP); [|exact Hon].
    apply (closure s t v Hs Ht Hv). apply (piece_on_line s P v Hs HP Hon).
  Qed.

  Theorem pass2_noded : Noded (flat_map (line_pieces cutf) S).
  Proof.
    intros P Q HP HQ x HxP HxQ. apply in_flat_map in HP. apply in_flat_map in HQ.
    destruct HP as [s [Hs HP]]. destruct HQ as [t [Ht HQ]].
    pose proof (S_nondeg s Hs) as Ns. pose proof (S_nondeg t Ht) as Nt.
    pose proof (piece_on_line s P x Hs HP HxP) as Hxs. pose proof (piece_on_line t Q x Ht HQ HxQ) as Hxt.
    destruct (collin_dec s t) as [Hc|Hnc].
    - (* collinear lines: one-dimensional argument on the parameters of the line of s *)
      destruct s as [a b]. destruct P as [p1 p2], Q as [q1 q2]. cbn [fst snd] in Ns.
      pose proof (cuts_ll_on' a b Hs) as Con.
      destruct (ring_edges_in _ _ _ HP) as [Hp1 Hp2]. destruct (ring_edges_in _ _ _ HQ) as [Hq1 Hq2].
      pose proof (line_verts_on a b cutf Con) as Von. rewrite Forall_forall in Von.
      pose proof (Von p1 Hp1) as Op1. pose proof (Von p2 Hp2) as Op2. cbv beta in Op1, Op2.
      assert (Ot : forall v, on_seg t v = true -> at_param a b v (tpar a b v)).
      { intros v Hv. apply line_param; [exact Ns|]. apply (collin_on_line (a, b) t v Hc Hv). }
      assert (Oq1 : on_seg t q1 = true).
      { destruct t as [c d]. pose proof (line_verts_on c d cutf (cuts_ll_on' c d Ht)) as Vt.
        rewrite Forall_forall in Vt. apply (Vt q1 Hq1). }
      assert (Oq2 : on_seg t q2 = true).
      { destruct t as [c d]. pose proof (line_verts_on c d cutf (cuts_ll_on' c d Ht)) as Vt.
        rewrite Forall_forall in Vt. apply (Vt q2 Hq2). }
      destruct (on_seg_at_param a b p1 Ns Op1) as [_ A1]. destruct (on_seg_at_param a b p2 Ns Op2) as [_ A2].
      destruct (on_seg_at_param a b x Ns Hxs) as [_ Ax].
      pose proof (Ot q1 Oq1) as B1. pose proof (Ot q2 Oq2) as B2.
      set (T := tpar a b) in *.
      destruct (sorted_adjacent a b _ p1 p2 (line_verts_strict a b Ns cutf Con) HP) as [F0 _]. fold T in F0.
      assert (F1 : ~ T q1 == T q2).
      { intros E. destruct t as [c d]. apply (line_pieces_nondeg c d Nt cutf (cuts_ll_on' c d Ht) q1 q2 HQ).
        apply (at_param_eq a b q1 q2 _ _ Ns B1 B2). exact E. }
      pose proof (proj1 (on_seg_params a b p1 p2 x _ _ _ Ns A1 A2 Ax) HxP) as F2.
      pose proof (proj1 (on_seg_params a b q1 q2 x _ _ _ Ns B1 B2 Ax) HxQ) as F3.
      assert (K1 : (T p1 <= T q1 <= T p2 \/ T p2 <= T q1 <= T p1) -> T q1 == T p1 \/ T q1 == T p2).
      { intros H. apply (on_seg_params a b p1 p2 q1 _ _ _ Ns A1 A2 B1) in H.
        destruct (piece_vertex (a, b) t (p1, p2) q1 Hs Ht HP Hq1 H) as [E|E]; [left | right];
          cbn [fst snd] in E; [apply (at_param_eq a b q1 p1 _ _ Ns B1 A1) | apply (at_param_eq a b q1 p2 _ _ Ns B1 A2)]; exact E. }
      assert (K2 : (T p1 <= T q2 <= T p2 \/ T p2 <= T q2 <= T p1) -> T q2 == T p1 \/ T q2 == T p2).
      { intros H. apply (on_seg_params a b p1 p2 q2 _ _ _ Ns A1 A2 B2) in H.
        destruct (piece_vertex (a, b) t (p1, p2) q2 Hs Ht HP Hq2 H) as [E|E]; [left | right];
          cbn [fst snd] in E; [apply (at_param_eq a b q2 p1 _ _ Ns B2 A1) | apply (at_param_eq a b q2 p2 _ _ Ns B2 A2)]; exact E. }
      assert (K3 : (T q1 <= T p1 <= T q2 \/ T q2 <= T p1 <= T q1) -> T p1 == T q1 \/ T p1 == T q2).
      { intros H. apply (on_seg_params a b q1 q2 p1 _ _ _ Ns B1 B2 A1) in H.
        destruct (piece_vertex t (a, b) (q1, q2) p1 Ht Hs HQ Hp1 H) as [E|E]; [left | right];
          cbn [fst snd] in E; [apply (at_param_eq a b p1 q1 _ _ Ns A1 B1) | apply (at_param_eq a b p1 q2 _ _ Ns A1 B2)]; exact E. }
      assert (K4 : (T q1 <= T p2 <= T q2 \/ T q2 <= T p2 <= T q1) -> T p2 == T q1 \/ T p2 == T q2).
      { intros H. apply (on_seg_params a b q1 q2 p2 _ _ _ Ns B1 B2 A2) in H.
        destruct (piece_vertex t (a, b) (q1, q2) p2 Ht Hs HQ Hp2 H) as [E|E]; [left | right];
          cbn [fst snd] in E; [apply (at_param_eq a b p2 q1 _ _ Ns A2 B1) | apply (at_param_eq a b p2 q2 _ _ Ns A2 B2)]; exact E. }
      assert (F2' : T p1 <= T x <= T p2) by lra.
      destruct (interval_noded _ _ _ _ _ F0 F1 F2' F3 K1 K2 K3 K4) as [[Ex Ey]|[[E1 E2]|[E1 E2]]].
      + left. unfold is_end_p. cbn [fst snd]. split.
        * destruct Ex as [E|E]; [left; apply (at_param_eq a b x p1 _ _ Ns Ax A1) | right; apply (at_param_eq a b x p2 _ _ Ns Ax A2)]; exact E.
        * destruct Ey as [E|E]; [left; apply (at_param_eq a b x q1 _ _ Ns Ax B1) | right; apply (at_param_eq a b x q2 _ _ Ns Ax B2)]; exact E.
      + right. left. cbn [fst snd]. split; [apply (at_param_eq a b p1 q1 _ _ Ns A1 B1) | apply (at_param_eq a b p2 q2 _ _ Ns A2 B2)]; assumption.
      + right. right. cbn [fst snd]. split; [apply (at_param_eq a b p1 q2 _ _ Ns A1 B2) | apply (at_param_eq a b p2 q1 _ _ Ns A2 B1)]; assumption.
    - left. split.
      + apply (piece_end s P x Hs HP); [|exact HxP]. apply (closure_cross s t x); auto.
      + apply (piece_end t Q x Ht HQ); [|exact HxQ]. apply (closure_cross t s x); auto.
        intros Hts. apply Hnc. apply collin_sym; assumption.
  Qed.
End Noding.

(* ================================================================ reNodeLineString as a whole *)
Definition seg_eq (s t : seg) : Prop := pt_eq (fst s) (fst t) /\ pt_eq (snd s) (snd t).

Lemma ring_edges_app (l : list pt) h t : l <> [] ->
  ring_edges (l ++ h :: t) = ring_edges (l ++ [h]) ++ ring_edges (h :: t).
Proof.
  induction l as [|x l IH]; [congruence|]. intros _. destruct l as [|y l'].
  - reflexivity.
  - change ((x :: y :: l') ++ h :: t) with (x :: y :: (l' ++ h :: t)).
    change ((x :: y :: l') ++ [h]) with (x :: y :: (l' ++ [h])).
    rewrite !ring_edges_cons2. cbn [app]. f_equal. apply (IH ltac:(discriminate)).
Qed.
Lemma ring_edges_last_eq (l : list pt) h b : pt_eq h b ->
  Forall2 seg_eq (ring_edges (l ++ [h])) (ring_edges (l ++ [b])).
Proof.
  intros E. induction l as [|x l IH]; [constructor|]. destruct l as [|y l'].
  - simpl. constructor; [split; [reflexivity | exact E] | constructor].
  - change ((x :: y :: l') ++ [h]) with (x :: y :: (l' ++ [h])).
    change ((x :: y :: l') ++ [b]) with (x :: y :: (l' ++ [b])).
    rewrite !ring_edges_cons2. constructor; [split; reflexivity | exact IH].
Qed.
Lemma Forall2_seg_eq_refl l : Forall2 seg_eq l l.
Proof. induction l; constructor; auto. split; reflexivity. Qed.

Lemma lines_of_cons2 a b r :
  lines_of (a :: b :: r) = (if nondeg (a, b) then [(a, b)] else []) ++ lines_of (b :: r).
Proof. unfold lines_of. rewrite ring_edges_cons2. cbn [filter]. destruct (nondeg (a, b)); reflexivity. Qed.

Lemma renode_body_cons2 cutf a b r :
  renode_body cutf (a :: b :: r) = (if pt_eqb a b then [] else a :: sorted_cuts cutf (a, b)) ++ renode_body cutf (b :: r).
Proof. reflexivity. Qed.
Lemma renode_ls_shape cutf a r :
  exists h t, renode_body cutf (a :: r) ++ [last r a] = h :: t /\ pt_eq h a /\
    Forall2 seg_eq (ring_edges (h :: t)) (flat_map (line_pieces cutf) (lines_of (a :: r))).
Proof.
  revert a. induction r as [|b r' IH]; intros a.
  - exists a, []. simpl. split; [reflexivity|]. split; [reflexivity | constructor].
  - destruct (IH b) as [h' [t' [Eo [Eh F]]]].
    assert (El : last (b :: r') a = last r' b).
    { destruct r' as [|c r'']; [reflexivity|]. apply (last_nonempty_irrel (b :: c :: r'')). discriminate. }
    rewrite renode_body_cons2. rewrite lines_of_cons2. unfold nondeg. cbn [fst snd].
    destruct (pt_eqb a b) eqn:Eab; cbn [negb].
    + cbn [app]. rewrite El, Eo. exists h', t'. split; [reflexivity|]. split; [|exact F].
      apply pt_eqb_iff in Eab. etransitivity; [exact Eh | symmetry; exact Eab].
    + rewrite <- app_assoc. rewrite El, Eo.
      exists a, (sorted_cuts cutf (a, b) ++ h' :: t'). split; [reflexivity|]. split; [reflexivity|].
      change (a :: sorted_cuts cutf (a, b) ++ h' :: t') with ((a :: sorted_cuts cutf (a, b)) ++ h' :: t').
      rewrite ring_edges_app by discriminate. cbn [flat_map]. apply Forall2_app; [|exact F].
      unfold line_pieces, line_verts. cbn [fst snd].
      apply (ring_edges_last_eq (a :: sorted_cuts cutf (a, b)) h' b Eh).
Qed.

Lemma renode_ls_segs cutf ps :
  Forall2 seg_eq (ring_edges (renode_ls cutf ps)) (flat_map (line_pieces cutf) (lines_of ps)).
Proof.
  destruct ps as [|a r]; [constructor|]. unfold renode_ls.
  destruct (renode_ls_shape cutf a r) as [h [t [E [_ F]]]]. rewrite E. exact F.
Qed.

Lemma Forall2_in_l {A B} (R : A -> B -> Prop) l m x : Forall2 R l m -> In x l -> exists y, In y m /\ R x y.
Proof.
  induction 1; [simpl; tauto|]. intros [<-|Hin].
  - eexists; split; [left; reflexivity | assumption].
  - destruct (IHForall2 Hin) as [y' [H1 H2]]. exists y'. split; [right; exact H1 | exact H2].
Qed.
Lemma Forall2_in_r {A B} (R : A -> B -> Prop) l m y : Forall2 R l m -> In y m -> exists x, In x l /\ R x y.
Proof.
  induction 1; [simpl; tauto|]. intros [<-|Hin].
  - eexists; split; [left; reflexivity | assumption].
  - destruct (IHForall2 Hin) as [x' [H1 H2]]. exists x'. split; [right; exact H1 | exact H2].
Qed.

Lemma on_seg_seg_eq s t x : seg_eq s t -> on_seg s x = on_seg t x.
Proof. destruct s, t. intros [E1 E2]. cbn [fst snd] in *. apply on_seg_proper; [exact E1 | exact E2 | reflexivity]. Qed.

Lemma on_edges_iff L x : on_edges L x = true <-> exists s, In s L /\ on_seg s x = true.
Proof. unfold on_edges. apply existsb_exists. Qed.

Lemma lines_of_nondeg ps s : In s (lines_of ps) -> ~ pt_eq (fst s) (snd s).
Proof.
  unfold lines_of. intros H. apply filter_In in H. destruct H as [_ H]. unfold nondeg in H.
  apply negb_true_iff in H. apply pt_eqb_false_iff. exact H.
Qed.

(* a cut function is admissible on a line when its cuts lie on the line and are not its ends *)
Definition cuts_ok (cutf : seg -> list pt) (ln : seg) : Prop :=
  forall c, In c (cutf ln) -> on_seg ln c = true /\ has_endpoint ln c = false.

Lemma cuts_ok_point_x_line nodes ln : cuts_ok (cuts_point_x_line nodes) ln.
Proof.
  intros c Hc. unfold cuts_point_x_line in Hc. apply filter_In in Hc. destruct Hc as [_ Hc].
  apply andb_true_iff in Hc. destruct Hc as [H1 H2]. apply negb_true_iff in H1. auto.
Qed.
Lemma cuts_ok_line_x_line S ln : (forall s, In s S -> ~ pt_eq (fst s) (snd s)) -> ~ pt_eq (fst ln) (snd ln) ->
  cuts_ok (cuts_line_x_line S) ln.
Proof. intros HS Hln. exact (cuts_ll_on S HS ln Hln). Qed.

(* T1 for a whole linear element: the re-noded element has the same point set *)
Lemma renode_ls_point_set cutf ps : (forall ln, In ln (lines_of ps) -> cuts_ok cutf ln) ->
  forall x, on_edges (ring_edges (renode_ls cutf ps)) x = true <-> on_edges (lines_of ps) x = true.
Proof.
  intros Hok x. rewrite !on_edges_iff. pose proof (renode_ls_segs cutf ps) as F. split.
  - intros [P [HP Hx]]. destruct (Forall2_in_l _ _ _ P F HP) as [P' [HP' E]].
    apply in_flat_map in HP'. destruct HP' as [ln [Hln HP']]. exists ln. split; [exact Hln|].
    destruct ln as [a b]. apply (line_pieces_cover a b (lines_of_nondeg ps _ Hln) cutf (Hok _ Hln) x).
    exists P'. split; [exact HP'|]. rewrite <- (on_seg_seg_eq P P' x E). exact Hx.
  - intros [ln [Hln Hx]]. destruct ln as [a b].
    apply (line_pieces_cover a b (lines_of_nondeg ps _ Hln) cutf (Hok _ Hln) x) in Hx.
    destruct Hx as [P' [HP' Hx]].
    assert (HP'' : In P' (flat_map (line_pieces cutf) (lines_of ps))) by (apply in_flat_map; exists (a, b); auto).
    destruct (Forall2_in_r _ _ _ P' F HP'') as [P [HP E]]. exists P. split; [exact HP|].
    rewrite (on_seg_seg_eq P P' x E). exact Hx.
Qed.

(* every piece of a re-noded element is non-degenerate: its lines are all its consecutive pairs *)
Lemma renode_ls_pieces_nondeg cutf ps : (forall ln, In ln (lines_of ps) -> cuts_ok cutf ln) ->
  forall P, In P (ring_edges (renode_ls cutf ps)) -> ~ pt_eq (fst P) (snd P).
Proof.
  intros Hok P HP. destruct (Forall2_in_l _ _ _ P (renode_ls_segs cutf ps) HP) as [P' [HP' [E1 E2]]].
  apply in_flat_map in HP'. destruct HP' as [[a b] [Hln HP']]. destruct P' as [u w].
  pose proof (line_pieces_nondeg a b (lines_of_nondeg ps _ Hln) cutf (Hok _ Hln) u w HP') as N.
  cbn [fst snd] in *. intros E. apply N. rewrite <- E1, <- E2. exact E.
Qed.
Lemma filter_all_id {A} (f : A -> bool) l : (forall x, In x l -> f x = true) -> filter f l = l.
Proof.
  induction l as [|x l IH]; [reflexivity|]. intros H. simpl. rewrite (H x (or_introl eq_refl)). f_equal.
  apply IH. intros y Hy. apply H. right. exact Hy.
Qed.
Lemma lines_of_renode_ls cutf ps : (forall ln, In ln (lines_of ps) -> cuts_ok cutf ln) ->
  lines_of (renode_ls cutf ps) = ring_edges (renode_ls cutf ps).
Proof.
  intros Hok. unfold lines_of. apply filter_all_id. intros P HP.
  unfold nondeg. apply negb_true_iff. apply pt_eqb_false_iff. apply (renode_ls_pieces_nondeg cutf ps Hok P HP).
Qed.

(* ================================================================ both passes: reNodeGeometries *)
Lemma is_end_p_seg_eq P P' x : seg_eq P P' -> is_end_p P' x -> is_end_p P x.
Proof.
  intros [E1 E2] [H|H]; [left | right]; (etransitivity; [exact H | symmetry; assumption]).
Qed.
Lemma seg_same_seg_eq P P' Q Q' : seg_eq P P' -> seg_eq Q Q' -> seg_same P' Q' -> seg_same P Q.
Proof.
  intros [E1 E2] [F1 F2] [[H1 H2]|[H1 H2]]; [left | right]; split.
  - rewrite E1, H1. symmetry. exact F1.
  - rewrite E2, H2. symmetry. exact F2.
  - rewrite E1, H1. symmetry. exact F2.
  - rewrite E2, H2. symmetry. exact F1.
Qed.

Section Whole.
  Variables (nodes : list pt) (ea eb gh : list (list pt)).
  Let f1 := cuts_point_x_line nodes.
  Let E0 := ea ++ eb ++ gh.
  Let E1 := map (renode_ls f1) E0.
  Let S := flat_map lines_of E1.
  Let f2 := cuts_line_x_line S.
  Let r := renode_elems nodes ea eb gh.

  Lemma rn_all_eq : rn_all r = map (renode_ls f2) E1.
  Proof.
    unfold r, renode_elems, rn_all, f2, S, E1, E0, f1. cbn [rn_a rn_b rn_ghosts].
    rewrite !map_app. reflexivity.
  Qed.

  Lemma S_nondeg_w s : In s S -> ~ pt_eq (fst s) (snd s).
  Proof. unfold S. intros H. apply in_flat_map in H. destruct H as [e [_ H]]. apply (lines_of_nondeg e s H). Qed.

  Lemma f2_ok e1 ln : In e1 E1 -> In ln (lines_of e1) -> cuts_ok f2 ln.
  Proof.
    intros He Hln. apply cuts_ok_line_x_line; [exact S_nondeg_w | apply (lines_of_nondeg e1 ln Hln)].
  Qed.

  (* T1 *)
  Lemma renode_point_sets_lemma e : In e E0 ->
    forall x, on_edges (ring_edges (renode_ls f2 (renode_ls f1 e))) x = true <-> on_edges (lines_of e) x = true.
  Proof.
    intros He x.
    assert (He1 : In (renode_ls f1 e) E1) by (unfold E1; apply in_map; exact He).
    rewrite (renode_ls_point_set f2 (renode_ls f1 e) (fun ln H => f2_ok _ ln He1 H) x).
    rewrite (lines_of_renode_ls f1 e (fun ln _ => cuts_ok_point_x_line nodes ln)).
    apply renode_ls_point_set. intros ln _. apply cuts_ok_point_x_line.
  Qed.

  Lemma rn_piece_lift P : In P (rn_pieces r) ->
    exists s P', In s S /\ In P' (line_pieces f2 s) /\ seg_eq P P'.
  Proof.
    unfold rn_pieces. rewrite rn_all_eq. intros H. apply in_flat_map in H. destruct H as [c [Hc HP]].
    apply in_map_iff in Hc. destruct Hc as [e1 [<- He1]].
    destruct (Forall2_in_l _ _ _ P (renode_ls_segs f2 e1) HP) as [P' [HP' E]].
    apply in_flat_map in HP'. destruct HP' as [s [Hs HP']].
    exists s, P'. split; [|split; assumption]. unfold S. apply in_flat_map. exists e1. split; assumption.
  Qed.

  (* T2 *)
  Lemma renode_noded_lemma : Noded (rn_pieces r).
  Proof.
    intros P Q HP HQ x HxP HxQ.
    destruct (rn_piece_lift P HP) as [s [P' [Hs [HP' EP]]]].
    destruct (rn_piece_lift Q HQ) as [t [Q' [Ht [HQ' EQ]]]].
    assert (HP'' : In P' (flat_map (line_pieces f2) S)) by (apply in_flat_map; exists s; auto).
    assert (HQ'' : In Q' (flat_map (line_pieces f2) S)) by (apply in_flat_map; exists t; auto).
    rewrite (on_seg_seg_eq P P' x EP) in HxP. rewrite (on_seg_seg_eq Q Q' x EQ) in HxQ.
    destruct (pass2_noded S S_nondeg_w P' Q' HP'' HQ'' x HxP HxQ) as [[H1 H2]|H].
    - left. split; eapply is_end_p_seg_eq; eauto.
    - right. eapply seg_same_seg_eq; eauto.
  Qed.

  (* T2, points: every node (control point of an operand or ghost, in particular every point of a
     Point / MultiPoint) that lies on a piece is an end of that piece *)
  Lemma renode_nodes_noded_lemma p P : In p nodes -> In P (rn_pieces r) -> on_seg P p = true -> is_end_p P p.
  Proof.
    intros Hp HP Hon. destruct (rn_piece_lift P HP) as [s [P' [Hs [HP' EP]]]].
    apply (is_end_p_seg_eq P P' p EP). rewrite (on_seg_seg_eq P P' p EP) in Hon.
    apply (piece_end S S_nondeg_w s P' p Hs HP'); [|exact Hon].
    pose proof (piece_on_line S S_nondeg_w s P' p Hs HP' Hon) as Hps.
    (* s is a piece of a line ln of an input element, cut in the first pass *)
    unfold S in Hs. apply in_flat_map in Hs. destruct Hs as [e1 [He1 Hs]].
    unfold E1 in He1. apply in_map_iff in He1. destruct He1 as [e [<- He]].
    rewrite (lines_of_renode_ls f1 e (fun ln _ => cuts_ok_point_x_line nodes ln)) in Hs.
    destruct (Forall2_in_l _ _ _ s (renode_ls_segs f1 e) Hs) as [s' [Hs' Es]].
    apply in_flat_map in Hs'. destruct Hs' as [[a b] [Hln Hs']].
    pose proof (lines_of_nondeg e _ Hln) as Nab. cbn [fst snd] in Nab.
    pose proof (cuts_ok_point_x_line nodes (a, b)) as Ok1.
    rewrite (on_seg_seg_eq s s' p Es) in Hps.
    assert (Hpl : on_seg (a, b) p = true).
    { apply (line_pieces_cover a b Nab f1 Ok1 p). exists s'. split; assumption. }
    (* p is a vertex of ln after the first pass *)
    assert (Hv : exists v', In v' (line_verts f1 (a, b)) /\ pt_eq v' p).
    { unfold line_verts. destruct (has_endpoint (a, b) p) eqn:He2.
      - apply has_endpoint_iff in He2. cbn [fst snd] in *. destruct He2 as [E|E].
        + exists a. split; [left; reflexivity | symmetry; exact E].
        + exists b. split; [right; apply in_or_app; right; left; reflexivity | symmetry; exact E].
      - assert (Hc : In p (f1 (a, b))).
        { unfold f1, cuts_point_x_line. apply filter_In. split; [exact Hp|]. rewrite He2, Hpl. reflexivity. }
        assert (Hc2 : In p (isort (cut_less (fst (a, b))) (f1 (a, b)))) by (apply isort_in; exact Hc).
        destruct (uniq_grouped_keeps _ _ Hc2) as [z [Hz Ez]].
        exists z. split; [right; apply in_or_app; left; exact Hz | exact Ez]. }
    destruct Hv as [v' [Hv' Ev']]. destruct s' as [u w].
    assert (Hon' : on_seg (u, w) v' = true).
    { rewrite (on_seg_proper u w v' u w p); [exact Hps | reflexivity | reflexivity | exact Ev']. }
    destruct Es as [Es1 Es2]. cbn [fst snd] in Es1, Es2.
    unfold line_verts.
    destruct (line_piece_vertex a b Nab f1 Ok1 u w v' Hs' Hv' Hon') as [E|E].
    - exists (fst s). split; [left; reflexivity|]. rewrite Es1, <- E. exact Ev'.
    - exists (snd s). split; [right; apply in_or_app; right; left; reflexivity|]. rewrite Es2, <- E. exact Ev'.
  Qed.
End Whole.

Lemma Forall2_map_same {A B} (R : A -> B -> Prop) (f : A -> B) l : (forall x, In x l -> R x (f x)) -> Forall2 R l (map f l).
Proof.
  induction l as [|x l IH]; intros H; simpl; constructor.
  - apply H. left. reflexivity.
  - apply IH. intros y Hy. apply H. right. exact Hy.
Qed.

(* T1 for the whole of reNodeGeometries: element by element the point set is unchanged *)
Lemma renode_point_sets_all nodes ea eb gh :
  Forall2 (fun e e' => forall x, on_edges (ring_edges e') x = true <-> on_edges (lines_of e) x = true)
          (ea ++ eb ++ gh) (rn_all (renode_elems nodes ea eb gh)).
Proof.
  rewrite rn_all_eq. rewrite map_map. apply Forall2_map_same. intros e He x.
  apply renode_point_sets_lemma. exact He.
Qed.

(* ================================================================ the executable form of T2 is sound *)
Lemma noded_b_sound L : (forall s, In s L -> ~ pt_eq (fst s) (snd s)) -> noded_b L = true -> Noded L.
Proof.
  intros Hnd H P Q HP HQ x HxP HxQ. unfold noded_b in H. rewrite forallb_forall in H.
  specialize (H P HP). rewrite forallb_forall in H. specialize (H Q HQ). unfold meet_ok_b in H.
  pose proof (seg_seg_complete P Q x HxP HxQ) as Hne.
  destruct (seg_seg P Q) as [|y|lo hi] eqn:E; [congruence| |].
  - left. apply andb_true_iff in H. destruct H as [H1 H2]. unfold is_end in H1, H2.
    pose proof (seg_seg_point_unique P Q y x (Hnd P HP) (Hnd Q HQ) E HxP HxQ) as Exy.
    rewrite <- (has_endpoint_proper P x y Exy) in H1. rewrite <- (has_endpoint_proper Q x y Exy) in H2.
    apply has_endpoint_iff in H1. apply has_endpoint_iff in H2. split; assumption.
  - right. unfold seg_sameb in H. rewrite orb_true_iff, !andb_true_iff, !pt_eqb_iff in H. exact H.
Qed.
