(* T3: the ghost spanning tree of geom/dcel_ghosts.go:spanningTree connects all the (distinct) component
   points with exactly n-1 edges, for EVERY order in which PrioritySearch offers the records, provided
   it offers every record. *)
From Coq Require Import QArith List Bool Arith Lia Relations Permutation.
From SF Require Import Base.QKernel Model.OverlayRenode Proofs.OverlayRenode_proofs.
Import ListNotations.
Close Scope Q_scope.
Open Scope nat_scope.

(* connected in the undirected graph with edge list E *)
Definition st_conn (E : list (nat * nat)) : nat -> nat -> Prop :=
  clos_refl_sym_trans nat (fun x y => In (x, y) E).

Lemma st_conn_mono E E' x y : incl E E' -> st_conn E x y -> st_conn E' x y.
Proof.
  intros Hi H. induction H.
  - apply rst_step. apply Hi. exact H.
  - apply rst_refl.
  - apply rst_sym. assumption.
  - eapply rst_trans; eassumption.
Qed.

Lemma remove_length_nodup (b : nat) D : NoDup D -> In b D -> length D = S (length (remove Nat.eq_dec b D)).
Proof.
  induction D as [|x D IH]; intros Hnd Hin; [destruct Hin|].
  inversion Hnd as [|? ? Hx Hnd']; subst. simpl. destruct (Nat.eq_dec b x) as [->|Hne].
  - f_equal. rewrite notin_remove; [reflexivity | exact Hx].
  - destruct Hin as [->|Hin]; [congruence|]. simpl. f_equal. apply IH; assumption.
Qed.

Lemma NoDup_remove_nat (b : nat) D : NoDup D -> NoDup (remove Nat.eq_dec b D).
Proof.
  induction 1 as [|x D Hx Hnd IH]; simpl; [constructor|].
  destruct (Nat.eq_dec b x); [exact IH|]. constructor; [|exact IH].
  intros H. apply in_remove in H. tauto.
Qed.

Lemma relabel_classes (ds : list nat) a b : In a ds -> In b ds -> a <> b ->
  S (length (nodup Nat.eq_dec (map (fun l => if Nat.eqb l b then a else l) ds))) = length (nodup Nat.eq_dec ds).
Proof.
  intros Ha Hb Hab. set (f := fun l => if Nat.eqb l b then a else l).
  rewrite (remove_length_nodup b (nodup Nat.eq_dec ds)); [| apply NoDup_nodup | apply nodup_In; exact Hb].
  f_equal. apply Permutation_length. apply NoDup_Permutation.
  - apply NoDup_nodup.
  - apply NoDup_remove_nat. apply NoDup_nodup.
  - intros x. rewrite nodup_In. rewrite in_map_iff. split.
    + intros [y [E Hy]]. apply in_in_remove.
      * unfold f in E. destruct (Nat.eqb y b) eqn:Eb; [subst x; exact Hab|].
        apply Nat.eqb_neq in Eb. congruence.
      * apply nodup_In. unfold f in E. destruct (Nat.eqb y b); [subst x; exact Ha | subst x; exact Hy].
    + intros H. apply in_remove in H. destruct H as [H Hne]. apply nodup_In in H.
      exists x. split; [|exact H]. unfold f. apply Nat.eqb_neq in Hne. rewrite Hne. reflexivity.
Qed.

Lemma find_in_range (ds : list nat) i : i < length ds -> In (ds_find ds i) ds.
Proof. intros H. unfold ds_find. apply nth_In. exact H. Qed.

Lemma ds_find_union ds i j k : k < length ds ->
  ds_find (ds_union ds i j) k =
  (if Nat.eqb (ds_find ds k) (ds_find ds j) then ds_find ds i else ds_find ds k).
Proof.
  intros Hk. unfold ds_union, ds_find at 1.
  set (f := fun l => if Nat.eqb l (ds_find ds j) then ds_find ds i else l).
  rewrite (nth_indep (map f ds) k (f k)) by (rewrite map_length; exact Hk).
  rewrite map_nth. reflexivity.
Qed.

Section Tree.
  Variable prio : nat -> list nat.
  Variable n : nat.
  Hypothesis prio_complete : forall i j, i < n -> j < n -> In j (prio i).
  Hypothesis prio_range : forall i j, In j (prio i) -> j < n.

  Definition edges_ok (E : list (nat * nat)) : Prop := forall i j, In (i, j) E -> i < n /\ j < n /\ i <> j.

  Record st_inv (ds : list nat) (acc : list (nat * nat)) (k : nat) : Prop := {
    inv_len : length ds = n;
    inv_conn : forall i j, i < n -> j < n -> ds_find ds i = ds_find ds j -> st_conn acc i j;
    inv_count : length (nodup Nat.eq_dec ds) + k = n;
    inv_edges : length acc = k;
    inv_ok : edges_ok acc }.

  Lemma st_inv_init : st_inv (ds_new n) [] 0.
  Proof.
    unfold ds_new. constructor.
    - apply seq_length.
    - intros i j Hi Hj E. unfold ds_find in E. rewrite !seq_nth in E by assumption. simpl in E. subst j. apply rst_refl.
    - rewrite nodup_fixed_point by apply seq_NoDup. rewrite seq_length. lia.
    - reflexivity.
    - intros i j [].
  Qed.

  (* with at least two classes some item has another label than i *)
  Lemma other_label ds i : length ds = n -> i < n -> 2 <= length (nodup Nat.eq_dec ds) ->
    exists j, j < n /\ ds_find ds j <> ds_find ds i.
  Proof.
    intros Hl Hi H2. pose proof (NoDup_nodup Nat.eq_dec ds) as Hnd.
    destruct (nodup Nat.eq_dec ds) as [|x [|y r]] eqn:E; simpl in H2; try lia.
    assert (Hx : In x ds) by (apply (nodup_In Nat.eq_dec); rewrite E; left; reflexivity).
    assert (Hy : In y ds) by (apply (nodup_In Nat.eq_dec); rewrite E; right; left; reflexivity).
    assert (Hxy : x <> y) by (inversion Hnd as [|? ? Hn _]; subst; intros ->; apply Hn; left; reflexivity).
    destruct (Nat.eq_dec x (ds_find ds i)) as [Ex|Nx].
    - destruct (In_nth ds y y Hy) as [j [Hj Ej]]. exists j. split; [lia|]. unfold ds_find at 1.
      rewrite (nth_indep ds j y) by exact Hj. rewrite Ej. congruence.
    - destruct (In_nth ds x x Hx) as [j [Hj Ej]]. exists j. split; [lia|]. unfold ds_find at 1.
      rewrite (nth_indep ds j x) by exact Hj. rewrite Ej. exact Nx.
  Qed.

  Lemma st_pick_some ds i : length ds = n -> i < n -> 2 <= length (nodup Nat.eq_dec ds) ->
    exists j, st_pick prio ds i = Some j.
  Proof.
    intros Hl Hi H2. destruct (other_label ds i Hl Hi H2) as [j [Hj Ne]].
    unfold st_pick. destruct (find _ (prio i)) eqn:E; [eauto|].
    exfalso. pose proof (find_none _ _ E j (prio_complete i j Hi Hj)) as F. cbv beta in F.
    assert (Nij : i <> j) by (intros ->; apply Ne; reflexivity).
    apply Nat.eqb_neq in Nij. rewrite Nij in F. cbn [negb andb] in F.
    apply negb_false_iff in F. apply Nat.eqb_eq in F. congruence.
  Qed.

  Lemma st_pick_spec ds i j : st_pick prio ds i = Some j -> j < n /\ i <> j /\ ds_find ds i <> ds_find ds j.
  Proof.
    unfold st_pick. intros H. apply find_some in H. destruct H as [Hin H].
    apply andb_true_iff in H. destruct H as [H1 H2]. apply negb_true_iff in H1, H2.
    apply Nat.eqb_neq in H1, H2. split; [apply (prio_range i j Hin) | split; assumption].
  Qed.

  Lemma st_inv_step ds acc k j : st_inv ds acc k -> k < n -> st_pick prio ds k = Some j ->
    st_inv (ds_union ds k j) (acc ++ [(k, j)]) (S k).
  Proof.
    intros [Il Ic In_ Ie Io] Hk Hp. destruct (st_pick_spec ds k j Hp) as [Hj [Nkj Nl]].
    assert (Hlen : forall x, x < n -> x < length ds) by (intros; lia).
    constructor.
    - unfold ds_union. rewrite map_length. exact Il.
    - intros x y Hx Hy. rewrite !ds_find_union by (apply Hlen; assumption).
      assert (Hmono : forall u v, st_conn acc u v -> st_conn (acc ++ [(k, j)]) u v).
      { intros u v. apply st_conn_mono. apply incl_appl. apply incl_refl. }
      assert (Hedge : st_conn (acc ++ [(k, j)]) k j).
      { apply rst_step. apply in_or_app. right. left. reflexivity. }
      destruct (Nat.eqb (ds_find ds x) (ds_find ds j)) eqn:Ex; destruct (Nat.eqb (ds_find ds y) (ds_find ds j)) eqn:Ey.
      + intros _. apply Nat.eqb_eq in Ex, Ey. apply Hmono. apply Ic; auto. congruence.
      + intros E. apply Nat.eqb_eq in Ex.
        (* x ~ j - k ~ y *)
        eapply rst_trans; [apply Hmono; apply (Ic x j Hx Hj Ex)|].
        eapply rst_trans; [apply rst_sym; exact Hedge|]. apply Hmono. apply Ic; auto.
      + intros E. apply Nat.eqb_eq in Ey.
        eapply rst_trans; [apply Hmono; apply (Ic x k Hx Hk E)|].
        eapply rst_trans; [exact Hedge|]. apply Hmono. apply Ic; auto.
      + intros E. apply Hmono. apply Ic; auto.
    - unfold ds_union.
      pose proof (relabel_classes ds (ds_find ds k) (ds_find ds j)
                    (find_in_range ds k (Hlen k Hk)) (find_in_range ds j (Hlen j Hj)) Nl) as R.
      lia.
    - rewrite app_length. simpl. lia.
    - intros x y H. apply in_app_or in H. destruct H as [H|[H|[]]]; [apply Io; exact H|].
      inversion H; subst. auto.
  Qed.

  (* every step of the loop over 0 .. n-2 adds an edge *)
  Lemma st_loop_inv m : forall k ds acc, k + m = n - 1 -> st_inv ds acc k ->
    st_inv (fst (st_loop prio (seq k m) ds acc)) (snd (st_loop prio (seq k m) ds acc)) (k + m).
  Proof.
    induction m as [|m IH]; intros k ds acc Hkm Hinv.
    - simpl. rewrite Nat.add_0_r. exact Hinv.
    - cbn [seq st_loop].
      assert (Hk : k < n) by lia.
      assert (H2 : 2 <= length (nodup Nat.eq_dec ds)) by (pose proof (inv_count _ _ _ Hinv); lia).
      destruct (st_pick_some ds k (inv_len _ _ _ Hinv) Hk H2) as [j Hp]. rewrite Hp.
      replace (k + S m) with (S k + m) by lia. apply IH; [lia|].
      apply st_inv_step; assumption.
  Qed.

  Lemma st_edges_inv : 1 <= n ->
    exists ds, st_inv ds (st_edges prio n) (n - 1).
  Proof.
    intros Hn. unfold st_edges. destruct (Nat.leb n 1) eqn:E.
    - apply Nat.leb_le in E. assert (E0 : n - 1 = 0) by lia. rewrite E0. exists (ds_new n). apply st_inv_init.
    - apply Nat.leb_gt in E. exists (fst (st_loop prio (seq 0 (n - 1)) (ds_new n) [])).
      apply (st_loop_inv (n - 1) 0 (ds_new n) []); [lia | apply st_inv_init].
  Qed.

  (* T3 *)
  Lemma st_edges_count : length (st_edges prio n) = n - 1.
  Proof.
    destruct (Nat.eq_dec n 0) as [E|E].
    - unfold st_edges. assert (L : Nat.leb n 1 = true) by (apply Nat.leb_le; lia). rewrite L. simpl. lia.
    - destruct (st_edges_inv ltac:(lia)) as [ds H]. apply (inv_edges _ _ _ H).
  Qed.
  Lemma st_edges_connected i j : i < n -> j < n -> st_conn (st_edges prio n) i j.
  Proof.
    intros Hi Hj. destruct (st_edges_inv ltac:(lia)) as [ds H].
    apply (inv_conn _ _ _ H i j Hi Hj).
    (* one class only *)
    pose proof (inv_count _ _ _ H) as Hc. pose proof (inv_len _ _ _ H) as Hl.
    assert (H1 : length (nodup Nat.eq_dec ds) = 1) by lia.
    destruct (nodup Nat.eq_dec ds) as [|x [|y r]] eqn:E; simpl in H1; try lia.
    assert (Hall : forall z, In z ds -> z = x).
    { intros z Hz. apply (nodup_In Nat.eq_dec) in Hz. rewrite E in Hz. destruct Hz as [->|[]]. reflexivity. }
    rewrite (Hall _ (find_in_range ds i ltac:(lia))), (Hall _ (find_in_range ds j ltac:(lia))). reflexivity.
  Qed.
  Lemma st_edges_ok : edges_ok (st_edges prio n).
  Proof.
    destruct (Nat.eq_dec n 0) as [E|E].
    - unfold st_edges. assert (L : Nat.leb n 1 = true) by (apply Nat.leb_le; lia). rewrite L. intros i j [].
    - destruct (st_edges_inv ltac:(lia)) as [ds H]. apply (inv_ok _ _ _ H).
  Qed.
End Tree.

(* ---------------------------------------------------------------- the executable enumeration order *)
Lemma prio_by_dist_in xys i j : In j (prio_by_dist xys i) <-> j < length xys.
Proof.
  unfold prio_by_dist. rewrite isort_in. rewrite in_seq. lia.
Qed.

(* ghost lines as a graph on points *)
Definition ghost_conn (G : list (list pt)) : pt -> pt -> Prop :=
  clos_refl_sym_trans pt (fun p q => In [p; q] G).

Lemma spanning_tree_with_length prio pts :
  (forall xys i j, i < length xys -> j < length xys -> In j (prio xys i)) ->
  (forall xys i j, In j (prio xys i) -> j < length xys) ->
  length (spanning_tree_with prio pts) = if Nat.leb (length pts) 1 then 0 else length (sort_uniq_xys pts) - 1.
Proof.
  intros Hc Hr. unfold spanning_tree_with. destruct (Nat.leb (length pts) 1); [reflexivity|].
  rewrite map_length. apply st_edges_count; [apply Hc | apply Hr].
Qed.

Lemma spanning_tree_with_connected prio pts :
  (forall xys i j, i < length xys -> j < length xys -> In j (prio xys i)) ->
  (forall xys i j, In j (prio xys i) -> j < length xys) ->
  2 <= length pts ->
  forall p q, In p (sort_uniq_xys pts) -> In q (sort_uniq_xys pts) -> ghost_conn (spanning_tree_with prio pts) p q.
Proof.
  intros Hc Hr H2 p q Hp Hq. unfold spanning_tree_with.
  assert (L : Nat.leb (length pts) 1 = false) by (apply Nat.leb_gt; lia). rewrite L.
  set (xys := sort_uniq_xys pts) in *. set (d := (0, 0)%Q : pt).
  destruct (In_nth xys p d Hp) as [i [Hi Ei]]. destruct (In_nth xys q d Hq) as [j [Hj Ej]].
  pose proof (st_edges_connected (prio xys) (length xys) (Hc xys) (Hr xys) i j Hi Hj) as C.
  rewrite <- Ei, <- Ej. clear Ei Ej Hp Hq Hi Hj.
  induction C as [x y H|x|x y H IH|x y z H1 IH1 H2' IH2].
  - apply rst_step. apply in_map_iff. exists (x, y). split; [reflexivity | exact H].
  - apply rst_refl.
  - apply rst_sym. exact IH.
  - eapply rst_trans; eassumption.
Qed.

(* every supplied point is (equal to) one of the tree's nodes *)
Lemma sort_uniq_keeps pts p : In p pts -> exists p', In p' (sort_uniq_xys pts) /\ pt_eq p' p.
Proof.
  intros H. unfold sort_uniq_xys. apply uniq_grouped_keeps. apply isort_in. exact H.
Qed.

(* createGhosts: any two component points of the operands are joined by a path of ghost lines *)
Lemma create_ghosts_connects_lemma a b p q :
  let cp := component_pts a ++ component_pts b in
  2 <= length cp -> In p cp -> In q cp ->
  exists p' q', pt_eq p' p /\ pt_eq q' q /\ ghost_conn (create_ghosts a b) p' q'.
Proof.
  intros cp H2 Hp Hq. destruct (sort_uniq_keeps cp p Hp) as [p' [Hp' Ep]].
  destruct (sort_uniq_keeps cp q Hq) as [q' [Hq' Eq]]. exists p', q'. split; [exact Ep|]. split; [exact Eq|].
  unfold create_ghosts, spanning_tree. apply spanning_tree_with_connected; auto.
  - intros xys i j _ Hj. apply prio_by_dist_in. exact Hj.
  - intros xys i j H. apply prio_by_dist_in in H. exact H.
Qed.
Lemma create_ghosts_count_lemma a b :
  let cp := component_pts a ++ component_pts b in
  length (create_ghosts a b) = if Nat.leb (length cp) 1 then 0 else length (sort_uniq_xys cp) - 1.
Proof.
  intros cp. unfold create_ghosts, spanning_tree. apply spanning_tree_with_length.
  - intros xys i j _ Hj. apply prio_by_dist_in. exact Hj.
  - intros xys i j H. apply prio_by_dist_in in H. exact H.
Qed.
