(* Lemmas about Model/OverlayRings.v: the ring walk and the grouping of extractPolygons on every
   labelled complex satisfying dcel_ok.  Termination of the walks (fuel) is not proved: the theorems are
   about the extraction having returned a value, which the driver observes on every real structure. *)
From Coq Require Import List Bool Arith Lia Permutation.
From SF Require Import Model.SetOpSpec Model.OverlayComplex Proofs.OverlayComplex_proofs Model.OverlayRings.
Import ListNotations.

Lemma memb_In x l : memb x l = true <-> In x l.
Proof.
  unfold memb. rewrite existsb_exists. split.
  - intros (y & Hy & E). apply Nat.eqb_eq in E. subst. exact Hy.
  - intros H. exists x. split; [exact H|apply Nat.eqb_refl].
Qed.
Lemma memb_false x l : memb x l = false <-> ~ In x l.
Proof. rewrite <- memb_In. destruct (memb x l); split; congruence. Qed.

Lemma nodup_app' {A} (l1 l2 : list A) :
  NoDup l1 -> NoDup l2 -> (forall x, In x l1 -> In x l2 -> False) -> NoDup (l1 ++ l2).
Proof.
  induction 1 as [|a l1 Ha Hn IH]; intros H2 Hd; simpl; [exact H2|].
  constructor.
  - intros Hin. apply in_app_or in Hin as [Hin|Hin]; [contradiction|]. apply (Hd a); [left; reflexivity|exact Hin].
  - apply IH; [exact H2|]. intros x H1 Hx. apply (Hd x); [right; exact H1|exact Hx].
Qed.

(* ================================================================ walks of a partial successor === *)
Section Walk.
  Variable f : nat -> option nat.

  (* x, f x, f (f x), ... up to the element whose successor is s *)
  Inductive chain (s : nat) : nat -> list nat -> Prop :=
  | chain_last x : f x = Some s -> chain s x [x]
  | chain_cons x y l : f x = Some y -> y <> s -> chain s y l -> chain s x (x :: l).

  Lemma walk_chain s : forall fuel cur l, walk f s cur fuel = Some l -> chain s cur l.
  Proof.
    induction fuel as [|k IH]; intros cur l H; [discriminate|]. simpl in H.
    destruct (f cur) as [nx|] eqn:E; [|discriminate].
    destruct (Nat.eqb nx s) eqn:En.
    - inversion H; subst. apply Nat.eqb_eq in En. subst. apply chain_last. exact E.
    - destruct (walk f s nx k) as [l'|] eqn:Hw; [|discriminate]. inversion H; subst.
      apply Nat.eqb_neq in En. eapply chain_cons; eauto.
  Qed.
  Lemma chain_det s x l1 : chain s x l1 -> forall l2, chain s x l2 -> l1 = l2.
  Proof.
    induction 1 as [x Hx|x y l Hx Hy Hc IH]; intros l2 H2; inversion H2; subst.
    - reflexivity.
    - rewrite Hx in H. inversion H; subst. contradiction.
    - rewrite Hx in H. inversion H; subst. contradiction.
    - rewrite Hx in H. inversion H; subst. f_equal. apply IH. assumption.
  Qed.
  Lemma chain_suffix s x l : chain s x l -> forall k y, nth_error l k = Some y -> chain s y (skipn k l).
  Proof.
    induction 1 as [x Hx|x y l Hx Hy Hc IH]; intros k z Hk.
    - destruct k as [|k]; simpl in Hk; [inversion Hk; subst; simpl; apply chain_last; exact Hx|].
      destruct k; discriminate.
    - destruct k as [|k]; simpl in Hk.
      + inversion Hk; subst. simpl. eapply chain_cons; eauto.
      + simpl. apply IH. exact Hk.
  Qed.
  Lemma chain_nodup s x l : chain s x l -> NoDup l.
  Proof.
    induction 1 as [x Hx|x y l Hx Hy Hc IH].
    - constructor; [intros []|constructor].
    - constructor; [|exact IH]. intros Hin.
      apply In_nth_error in Hin as (k & Hk).
      pose proof (chain_suffix s _ _ Hc k x Hk) as Hs.
      pose proof (chain_det s x _ (chain_cons s x y l Hx Hy Hc) _ Hs) as E.
      assert (length (skipn k l) <= length l) by (rewrite skipn_length; lia).
      rewrite <- E in H. simpl in H. lia.
  Qed.
  Lemma chain_head s x l : chain s x l -> exists r, l = x :: r.
  Proof. destruct 1; eauto. Qed.
  (* every element's successor is again on the walk, or is s *)
  Lemma chain_step s x l : chain s x l -> forall z, In z l -> exists y, f z = Some y /\ (In y l \/ y = s).
  Proof.
    induction 1 as [x Hx|x y l Hx Hy Hc IH]; intros z Hz.
    - destruct Hz as [<-|[]]. exists s. auto.
    - destruct Hz as [<-|Hz].
      + exists y. split; [exact Hx|]. left. right. destruct (chain_head _ _ _ Hc) as (r & ->). left. reflexivity.
      + destruct (IH z Hz) as (y' & Hy' & [Hin|E]); exists y'; split; auto. left. right. exact Hin.
  Qed.
  (* a closed walk (started at s) is closed under the successor *)
  Lemma cycle_closed s l : chain s s l -> forall z, In z l -> exists y, f z = Some y /\ In y l.
  Proof.
    intros Hc z Hz. destruct (chain_step s s l Hc z Hz) as (y & Hy & [Hin|E]); exists y; split; auto.
    subst y. destruct (chain_head _ _ _ Hc) as (r & ->). left. reflexivity.
  Qed.
  (* from any element of a walk the end s is reached inside any successor-closed set *)
  Definition closed_set (S : list nat) : Prop := forall x y, In x S -> f x = Some y -> In y S.
  Lemma chain_reaches s x l S : chain s x l -> closed_set S -> In x S -> In s S.
  Proof.
    induction 1 as [x Hx|x y l Hx Hy Hc IH]; intros HS Hin.
    - eapply HS; eauto.
    - apply IH; [exact HS|]. eapply HS; eauto.
  Qed.
  Lemma cycle_disjoint_closed s l S : chain s s l -> closed_set S -> ~ In s S -> forall z, In z l -> ~ In z S.
  Proof.
    intros Hc HS Hs z Hz Hin. apply Hs.
    apply In_nth_error in Hz as (k & Hk).
    eapply (chain_reaches s z (skipn k l)); eauto. eapply chain_suffix; eauto.
  Qed.
  Lemma closed_app l S : (forall z, In z l -> exists y, f z = Some y /\ In y l) -> closed_set S -> closed_set (l ++ S).
  Proof.
    intros Hl HS x y Hx Hf. apply in_app_or in Hx as [Hx|Hx]; apply in_or_app.
    - left. destruct (Hl x Hx) as (y' & Hy' & Hin). rewrite Hf in Hy'. inversion Hy'; subst. exact Hin.
    - right. eapply HS; eauto.
  Qed.

  (* what [collect] returns *)
  Lemma collect_spec fuel : forall cands seen rings,
    collect f cands seen fuel = Some rings -> closed_set seen ->
    (forall ring, In ring rings -> exists s, chain s s ring /\ In s cands) /\
    (forall x, In x cands -> In x seen \/ exists ring, In ring rings /\ In x ring) /\
    NoDup (concat rings) /\
    (forall z, In z (concat rings) -> ~ In z seen).
  Proof.
    induction cands as [|x r IH]; intros seen rings H HS.
    - inversion H; subst. repeat split; try (intros ? []); constructor.
    - simpl in H. destruct (memb x seen) eqn:Em.
      + destruct (IH seen rings H HS) as (A & B & C & D). repeat split; auto.
        * intros ring Hr. destruct (A ring Hr) as (s & Hc & Hin). exists s. split; [exact Hc|right; exact Hin].
        * intros z [<-|Hz]; [left; apply memb_In; exact Em|apply B; exact Hz].
      + destruct (walk f x x fuel) as [ring|] eqn:Ew; [|discriminate].
        destruct (collect f r (ring ++ seen) fuel) as [rs|] eqn:Ec; [|discriminate]. inversion H; subst.
        pose proof (walk_chain x _ _ _ Ew) as Hc.
        pose proof (cycle_closed x ring Hc) as Hcl.
        assert (HS' : closed_set (ring ++ seen)) by (apply closed_app; assumption).
        destruct (IH (ring ++ seen) rs Ec HS') as (A & B & C & D).
        apply memb_false in Em.
        pose proof (cycle_disjoint_closed x ring seen Hc HS Em) as Hdis.
        repeat split.
        * intros rg [<-|Hr]; [exists x; split; [exact Hc|left; reflexivity]|].
          destruct (A rg Hr) as (s & Hcs & Hin). exists s. split; [exact Hcs|right; exact Hin].
        * intros z [<-|Hz].
          -- right. exists ring. split; [left; reflexivity|]. destruct (chain_head _ _ _ Hc) as (t & ->). left. reflexivity.
          -- destruct (B z Hz) as [Hin|(rg & Hrg & Hzr)].
             ++ apply in_app_or in Hin as [Hin|Hin]; [right; exists ring; split; [left; reflexivity|exact Hin]|left; exact Hin].
             ++ right. exists rg. split; [right; exact Hrg|exact Hzr].
        * simpl. apply nodup_app'.
          -- eapply chain_nodup; eauto.
          -- exact C.
          -- intros z Hz1 Hz2. apply (D z Hz2). apply in_or_app. left. exact Hz1.
        * intros z Hz. simpl in Hz. apply in_app_or in Hz as [Hz|Hz].
          -- apply Hdis. exact Hz.
          -- intros Hin. apply (D z Hz). apply in_or_app. right. exact Hin.
  Qed.
End Walk.

(* ================================================================ the ring walk on a complex ===== *)
(* i is a boundary half edge of the face group: its face belongs to the group, its twin's face does not *)
Definition gb (c : complex) (grp : list nat) (i : nat) : Prop :=
  exists e t, get_e c i = Some e /\ In (e_face e) grp /\ get_e c (e_twin e) = Some t /\ ~ In (e_face t) grp.
Definition tf_out (c : complex) (grp : list nat) (i : nat) : Prop :=
  exists e t, get_e c i = Some e /\ get_e c (e_twin e) = Some t /\ ~ In (e_face t) grp.

(* the half edge after i in the rotation around the origin of i: its twin is prev(i), on the face of i *)
Lemma rot_spec c i e j :
  dcel_ok c = true -> get_e c i = Some e -> rot c i = Some j ->
  exists e' p, get_e c j = Some e' /\ get_e c (e_twin e') = Some p /\ e_face p = e_face e.
Proof.
  intros Hok He Hr. unfold rot in Hr. rewrite He in Hr.
  destruct (dcel_ok_edge c i e Hok He) as [_ (p & Hp & Hpn)]. rewrite Hp in Hr. inversion Hr; subst j.
  destruct (dcel_ok_edge c (e_prev e) p Hok Hp) as [(t' & Ht' & Htw & _ & _ & n & Hn & _ & _ & Hnf) _].
  rewrite Hpn, He in Hn. inversion Hn; subst n.
  exists t', p. split; [exact Ht'|]. rewrite Htw. split; [exact Hp|]. symmetry. exact Hnf.
Qed.

Lemma sweep_gb c grp : dcel_ok c = true -> forall fuel i j,
  sweep c grp i fuel = Some j -> tf_out c grp i -> gb c grp j.
Proof.
  intros Hok. induction fuel as [|k IH]; intros i j H Ht; [discriminate|]. simpl in H.
  destruct Ht as (e & t & He & Hte & Hout). rewrite He in H.
  destruct (memb (e_face e) grp) eqn:Em.
  - inversion H; subst j. exists e, t. split; [exact He|]. split; [apply memb_In; exact Em|]. auto.
  - destruct (rot c i) as [i'|] eqn:Er; [|discriminate].
    destruct (rot_spec c i e i' Hok He Er) as (e' & p & He' & Hp & Hf).
    apply (IH i' j H). exists e', p. split; [exact He'|]. split; [exact Hp|].
    rewrite Hf. apply memb_false. exact Em.
Qed.

(* one step of extractPolygonRing leads from a boundary half edge of the group to a boundary half edge
   of the group *)
Lemma ring_succ_gb c grp i j :
  dcel_ok c = true -> gb c grp i -> ring_succ c grp i = Some j -> gb c grp j.
Proof.
  intros Hok (e & t & He & _ & Ht & Hout) H. unfold ring_succ in H. rewrite He in H.
  destruct (rot c (e_twin e)) as [j0|] eqn:Er; [|discriminate].
  destruct (rot_spec c (e_twin e) t j0 Hok Ht Er) as (e' & p & He' & Hp & Hf).
  apply (sweep_gb c grp Hok _ j0 j H). exists e', p. split; [exact He'|]. split; [exact Hp|]. rewrite Hf. exact Hout.
Qed.

Lemma chain_gb c grp s x l :
  dcel_ok c = true -> chain (ring_succ c grp) s x l -> gb c grp x -> forall z, In z l -> gb c grp z.
Proof.
  intros Hok H. induction H as [x Hx|x y l Hx Hy Hc IH]; intros Hg z Hz.
  - destruct Hz as [<-|[]]. exact Hg.
  - destruct Hz as [<-|Hz]; [exact Hg|]. apply IH; [|exact Hz]. eapply ring_succ_gb; eauto.
Qed.

(* the candidates of a well-formed group are its boundary half edges, and conversely *)
Lemma group_boundary_spec o c grp i :
  dcel_ok c = true -> group_ok o c grp = true ->
  (In i (group_boundary o c grp) <-> gb c grp i).
Proof.
  intros Hok Hg. unfold group_ok in Hg. apply andb_true_iff in Hg as [Hsel Hcl].
  rewrite forallb_forall in Hsel, Hcl.
  unfold group_boundary. rewrite in_map_iff. split.
  - intros ([i' e] & <- & H). apply filter_In in H as [Hin H]. apply in_edges_ix in Hin.
    cbn [fst snd] in *. apply andb_true_iff in H as [Hm Hns]. apply memb_In in Hm. apply negb_true_iff in Hns.
    destruct (dcel_ok_edge c i' e Hok Hin) as [(t & Ht & _) _].
    exists e, t. split; [exact Hin|]. split; [exact Hm|]. split; [exact Ht|].
    intros Hf. specialize (Hsel _ Hf).
    unfold sel_twin_face, twin_face_in, twin_face in Hns. rewrite Ht in Hns. unfold sel_face in Hsel. congruence.
  - intros (e & t & He & Hf & Ht & Hout). exists (i, e). split; [reflexivity|].
    apply filter_In. split; [apply in_edges_ix; exact He|]. cbn [snd].
    apply andb_true_iff. split; [apply memb_In; exact Hf|]. apply negb_true_iff.
    assert (Hadj : In (e_face t) (flat_map (adj_faces c) grp)).
    { apply in_flat_map. exists (e_face e). split; [exact Hf|]. unfold adj_faces. apply in_flat_map.
      exists e. split; [eapply get_e_in; exact He|]. rewrite Nat.eqb_refl. unfold twin_face. rewrite Ht. left. reflexivity. }
    specialize (Hcl _ Hadj). apply orb_true_iff in Hcl as [Hcl|Hcl].
    + apply negb_true_iff in Hcl. unfold sel_twin_face, twin_face_in, twin_face. rewrite Ht. exact Hcl.
    + apply memb_In in Hcl. contradiction.
Qed.

Lemma group_boundary_nodup o c grp : NoDup (group_boundary o c grp).
Proof.
  unfold group_boundary, edges_ix. apply nodup_map_fst_filter. rewrite map_fst_indexed_from. apply seq_NoDup.
Qed.

(* THE RING THEOREM.  On every complex satisfying the invariants, for every well-formed face group,
   if the ring extraction returns rings then
   - each ring is a closed cycle of the successor of extractPolygonRing (consecutive elements are
     successors, the successor of the last is the first);
   - all half edges of all rings are distinct (rings are simple and pairwise edge-disjoint);
   - the half edges on the rings are exactly the boundary half edges of the group: every one of them
     lies on exactly one ring. *)
Theorem group_rings_spec_lemma o c grp rings :
  dcel_ok c = true -> group_ok o c grp = true -> group_rings o c grp = Some rings ->
  (forall ring, In ring rings -> exists s, chain (ring_succ c grp) s s ring) /\
  NoDup (concat rings) /\
  Permutation (concat rings) (group_boundary o c grp) /\
  (forall z, In z (concat rings) -> gb c grp z).
Proof.
  intros Hok Hg Hr. unfold group_rings in Hr.
  destruct (collect_spec (ring_succ c grp) (nE c) _ [] rings Hr) as (A & B & C & _).
  { intros x y []. }
  assert (G : forall z, In z (concat rings) -> gb c grp z).
  { intros z Hz. apply in_concat in Hz as (ring & Hring & Hz).
    destruct (A ring Hring) as (s & Hc & Hs).
    eapply chain_gb; eauto. apply (group_boundary_spec o c grp s Hok Hg). exact Hs. }
  repeat split.
  - intros ring Hring. destruct (A ring Hring) as (s & Hc & _). eauto.
  - exact C.
  - apply NoDup_Permutation; [exact C|apply group_boundary_nodup|]. intros z. split.
    + intros Hz. apply (group_boundary_spec o c grp z Hok Hg). apply G. exact Hz.
    + intros Hz. destruct (B z Hz) as [[]|(ring & Hring & Hin)]. apply in_concat. eauto.
  - exact G.
Qed.

(* ================================================================ face groups ================== *)
(* x is connected to f through selected faces, across edges *)
Inductive conn (o : setop) (c : complex) (f : nat) : nat -> Prop :=
| conn_refl : conn o c f f
| conn_step x y : conn o c f x -> In y (adj_faces c x) -> sel_face o c y = true -> conn o c f y.

Lemma conn_sel o c f x : sel_face o c f = true -> conn o c f x -> sel_face o c x = true.
Proof. intros Hf H. induction H; auto. Qed.

(* adjacency of faces is symmetric (twin is an involution) *)
Lemma adj_faces_sym c x y : dcel_ok c = true -> In y (adj_faces c x) -> In x (adj_faces c y).
Proof.
  intros Hok H. unfold adj_faces in H. apply in_flat_map in H as (e & Hin & H).
  destruct (Nat.eqb (e_face e) x) eqn:Ef; [|destruct H]. apply Nat.eqb_eq in Ef.
  destruct (in_get_e c e Hin) as (i & He).
  destruct (dcel_ok_edge c i e Hok He) as [(t & Ht & Htw & _) _].
  unfold twin_face in H. rewrite Ht in H. destruct H as [<-|[]].
  unfold adj_faces. apply in_flat_map. exists t. split; [eapply get_e_in; exact Ht|].
  rewrite Nat.eqb_refl. unfold twin_face. rewrite Htw, He. left. exact Ef.
Qed.

Definition adj_closed (o : setop) (c : complex) (D : list nat) : Prop :=
  forall x y, In x D -> In y (adj_faces c x) -> sel_face o c y = true -> In y D.

Lemma group_ok_closed o c g : group_ok o c g = true -> adj_closed o c g /\ (forall x, In x g -> sel_face o c x = true).
Proof.
  unfold group_ok. intros H. apply andb_true_iff in H as [Hs Hc]. rewrite forallb_forall in Hs, Hc. split; [|exact Hs].
  intros x y Hx Hy Hsel. assert (Hin : In y (flat_map (adj_faces c) g)) by (apply in_flat_map; eauto).
  specialize (Hc y Hin). rewrite Hsel in Hc. simpl in Hc. apply memb_In. exact Hc.
Qed.

(* a closed set that meets a connected group contains its start *)
Lemma conn_back o c D f x :
  dcel_ok c = true -> adj_closed o c D -> sel_face o c f = true -> conn o c f x -> In x D -> In f D.
Proof.
  intros Hok HD Hf H. induction H as [|x y Hc IH Hy Hs]; intros Hin; [exact Hin|].
  apply IH. apply (HD y x Hin); [apply adj_faces_sym; assumption|apply (conn_sel o c f x Hf Hc)].
Qed.

Lemma expand_inv o c (Pm : nat -> Prop) grp :
  (forall x, In x grp -> Pm x) ->
  (forall x y, Pm x -> In y (adj_faces c x) -> sel_face o c y = true -> Pm y) ->
  forall z, In z (expand o c grp) -> Pm z.
Proof.
  intros H0 Hstep. unfold expand.
  assert (G : forall l acc, (forall y, In y l -> exists x, Pm x /\ In y (adj_faces c x)) -> (forall x, In x acc -> Pm x) ->
              forall z, In z (fold_left (fun acc g => if sel_face o c g && negb (memb g acc) then acc ++ [g] else acc) l acc) -> Pm z).
  { induction l as [|y l IH]; intros acc Hl Hacc z Hz; [apply Hacc; exact Hz|]. simpl in Hz.
    apply (IH _ (fun y' Hy' => Hl y' (or_intror Hy'))) in Hz; [exact Hz|].
    intros x Hx. destruct (sel_face o c y && negb (memb y acc)) eqn:E; [|apply Hacc; exact Hx].
    apply in_app_or in Hx as [Hx|[<-|[]]]; [apply Hacc; exact Hx|].
    apply andb_true_iff in E as [E _]. destruct (Hl y (or_introl eq_refl)) as (x' & Hp & Ha). eapply Hstep; eauto. }
  apply G; [|exact H0]. intros y Hy. apply in_flat_map in Hy as (x & Hx & Hy). exists x. split; auto.
Qed.
Lemma expand_incl o c grp x : In x grp -> In x (expand o c grp).
Proof.
  unfold expand. generalize (flat_map (adj_faces c) grp). intros l. revert grp.
  induction l as [|y l IH]; intros acc Hx; [exact Hx|]. simpl. apply IH.
  destruct (sel_face o c y && negb (memb y acc)); [apply in_or_app; left|]; exact Hx.
Qed.
Lemma iter_expand_inv o c (Pm : nat -> Prop) n : forall grp,
  (forall x, In x grp -> Pm x) ->
  (forall x y, Pm x -> In y (adj_faces c x) -> sel_face o c y = true -> Pm y) ->
  forall z, In z (iter n (expand o c) grp) -> Pm z.
Proof.
  induction n as [|n IH]; intros grp H0 Hs z Hz; [apply H0; exact Hz|]. simpl in Hz.
  apply (IH (expand o c grp)); auto. intros x Hx. eapply expand_inv; eauto.
Qed.
Lemma iter_expand_incl o c n : forall grp x, In x grp -> In x (iter n (expand o c) grp).
Proof. induction n; intros grp x Hx; simpl; [exact Hx|]. apply IHn. apply expand_incl. exact Hx. Qed.

(* findFacesMakingPolygon: the group of a start face is closed, selected, contains the start, and
   every member is connected to the start *)
Lemma face_group_spec o c f g :
  face_group o c f = Some g ->
  group_ok o c g = true /\ In f g /\ forall x, In x g -> conn o c f x.
Proof.
  unfold face_group. destruct (group_ok o c (iter (nF c) (expand o c) [f])) eqn:E; [|discriminate].
  intros H. inversion H; subst. split; [exact E|]. split.
  - apply iter_expand_incl. left. reflexivity.
  - apply iter_expand_inv.
    + intros x [<-|[]]. constructor.
    + intros x y Hx Hy Hs. econstructor; eauto.
Qed.

Lemma groups_from_spec o c : dcel_ok c = true -> forall fs done gs,
  groups_from o c fs done = Some gs -> adj_closed o c done ->
  (forall g, In g gs -> group_ok o c g = true /\ exists f, In f fs /\ In f g /\ forall x, In x g -> conn o c f x) /\
  (forall f, In f fs -> sel_face o c f = true -> In f done \/ exists g, In g gs /\ In f g) /\
  (forall g x, In g gs -> In x g -> ~ In x done) /\
  ForallOrdPairs (fun g1 g2 => forall x, In x g1 -> ~ In x g2) gs.
Proof.
  intros Hok. induction fs as [|f r IH]; intros done gs H HD.
  - inversion H; subst. split; [intros g []|]. split; [intros f []|]. split; [intros g x []|constructor].
  - simpl in H. destruct (sel_face o c f && negb (memb f done)) eqn:E.
    + destruct (face_group o c f) as [g|] eqn:Eg; [|discriminate].
      destruct (groups_from o c r (g ++ done)) as [gs'|] eqn:Er; [|discriminate]. inversion H; subst.
      apply andb_true_iff in E as [Esel Enot]. apply negb_true_iff, memb_false in Enot.
      destruct (face_group_spec o c f g Eg) as (Hgok & Hfg & Hconn).
      destruct (group_ok_closed o c g Hgok) as [Hgc Hgs].
      assert (HD' : adj_closed o c (g ++ done)).
      { intros x y Hx Hy Hs. apply in_or_app. apply in_app_or in Hx as [Hx|Hx]; [left; eapply Hgc|right; eapply HD]; eauto. }
      destruct (IH (g ++ done) gs' Er HD') as (A & B & C & D).
      assert (Hgd : forall x, In x g -> ~ In x done).
      { intros x Hx Hin. apply Enot. eapply conn_back; eauto. }
      split; [|split; [|split]].
      * intros gq [<-|Hgq]; [split; [exact Hgok|]; exists f; repeat split; auto; left; reflexivity|].
        destruct (A gq Hgq) as (Hok0 & f0 & Hf0 & Hin0 & Hc0). split; [exact Hok0|]. exists f0. repeat split; auto. right. exact Hf0.
      * intros f0 [<-|Hf0] Hs0.
        -- right. exists g. split; [left; reflexivity|exact Hfg].
        -- destruct (B f0 Hf0 Hs0) as [Hin|(gq & Hgq & Hin)].
           ++ apply in_app_or in Hin as [Hin|Hin]; [right; exists g; split; [left; reflexivity|exact Hin]|left; exact Hin].
           ++ right. exists gq. split; [right; exact Hgq|exact Hin].
      * intros gq x [<-|Hgq] Hx; [apply Hgd; exact Hx|].
        intros Hin. apply (C gq x Hgq Hx). apply in_or_app. right. exact Hin.
      * constructor; [|exact D]. apply Forall_forall. intros gq Hgq x Hx Hx0.
        apply (C gq x Hgq Hx0). apply in_or_app. left. exact Hx.
    + destruct (IH done gs H HD) as (A & B & C & D). split; [|split; [|split]]; auto.
      * intros gq Hgq. destruct (A gq Hgq) as (Hok0 & f0 & Hf0 & Hin0 & Hc0). split; [exact Hok0|]. exists f0. repeat split; auto. right. exact Hf0.
      * intros f0 [<-|Hf0] Hs0; [|apply B; assumption].
        left. rewrite Hs0 in E. simpl in E. apply negb_false_iff in E. apply memb_In. exact E.
Qed.

(* THE GROUPING THEOREM: the groups are pairwise disjoint, cover the selected faces, and each is a
   set of selected faces that is closed under adjacency and connected: the connected components of
   the selected faces across edges *)
Theorem polygon_groups_spec_lemma o c gs :
  dcel_ok c = true -> polygon_groups o c = Some gs ->
  (forall g, In g gs -> group_ok o c g = true /\ exists f, In f g /\ forall x, In x g -> conn o c f x) /\
  (forall f, f < nF c -> sel_face o c f = true -> exists g, In g gs /\ In f g) /\
  ForallOrdPairs (fun g1 g2 => forall x, In x g1 -> ~ In x g2) gs.
Proof.
  intros Hok H. unfold polygon_groups in H.
  destruct (groups_from_spec o c Hok _ [] gs H) as (A & B & _ & D); [intros x y []|].
  split; [|split].
  - intros g Hg. destruct (A g Hg) as (Hgok & f & _ & Hin & Hc). split; [exact Hgok|]. eauto.
  - intros f Hf Hs. destruct (B f) as [[]|Hx]; auto. apply in_seq. lia.
  - exact D.
Qed.

Lemma all_some_map {A B} (h : A -> option B) (proj : B -> A) (l : list A) (r : list B) :
  (forall a b, h a = Some b -> proj b = a) -> all_some (map h l) = Some r -> map proj r = l.
Proof.
  intros Hp. revert r. induction l as [|a l IH]; intros r H; simpl in H.
  - inversion H. reflexivity.
  - destruct (h a) as [b|] eqn:E; [|discriminate]. destruct (all_some (map h l)) as [r'|]; [|discriminate].
    inversion H; subst. simpl. rewrite (Hp a b E), (IH r' eq_refl). reflexivity.
Qed.
(* one polygon per group: the number of extracted polygons is the number of connected groups *)
Theorem extract_polygons_groups_lemma o c w ps :
  extract_polygons o c w = Some ps ->
  exists gs, polygon_groups o c = Some gs /\ map p_group ps = gs /\ length ps = length gs /\
    forall p, In p ps -> exists rings, group_rings o c (p_group p) = Some rings /\
                                       Permutation (p_exterior p :: p_holes p) rings.
Proof.
  unfold extract_polygons. destruct (polygon_groups o c) as [gs|]; [|discriminate]. intros H.
  exists gs. split; [reflexivity|].
  assert (Hp : forall g p, polygon_of o c w g = Some p -> p_group p = g).
  { intros g p Hp. unfold polygon_of in Hp. destruct (group_rings o c g); [|discriminate].
    destruct (take_first_ccw w l) as [[x rest]|]; [|discriminate]. inversion Hp. reflexivity. }
  pose proof (all_some_map _ p_group gs ps Hp H) as E. split; [exact E|]. split; [rewrite <- E, map_length; reflexivity|].
  clear E. revert ps H. induction gs as [|g gs IH]; intros ps H p Hin; simpl in H.
  - inversion H; subst. destruct Hin.
  - destruct (polygon_of o c w g) as [p0|] eqn:E0; [|discriminate].
    destruct (all_some (map (polygon_of o c w) gs)) as [ps'|] eqn:E1; [|discriminate]. inversion H; subst.
    destruct Hin as [<-|Hin]; [|eapply IH; eauto].
    unfold polygon_of in E0. destruct (group_rings o c g) as [rings|] eqn:Er; [|discriminate].
    destruct (take_first_ccw w rings) as [[x rest]|] eqn:Et; [|discriminate]. inversion E0; subst. cbn [p_group p_exterior p_holes].
    exists rings. split; [exact Er|].
    clear - Et. revert x rest Et. induction rings as [|r0 rings IH]; intros x rest Et; simpl in Et; [discriminate|].
    destruct (is_ccw w r0).
    + inversion Et; subst. apply Permutation_refl.
    + destruct (take_first_ccw w rings) as [[x' others]|]; [|discriminate]. inversion Et; subst.
      eapply Permutation_trans; [apply perm_swap|]. constructor. apply IH. reflexivity.
Qed.
